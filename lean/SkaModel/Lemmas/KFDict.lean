/-
C12 helper: from the filter run to the dictionary. An abstract observation stream
`(hash, kmer, base, palin)` is folded exactly as `addReadState` does; `addRead` and
`buildReads` are shown to be this fold over the quality-passing iterator states.
-/
import SkaModel.Lemmas.KFExact

namespace SkaModel.KF

open SkaModel SkaModel.KmerFilter

/-- one observation reaching the count filter -/
structure Obs where
  hash : Nat
  kmer : Nat
  base : Nat
  palin : Bool
  deriving DecidableEq, Repr

/-- adding a passed observation to the dictionary (`none` = the palindrome `panic!`) -/
def addObs (d : Assoc Nat UInt8) (o : Obs) : Option (Assoc Nat UInt8) :=
  if o.palin then addPalindromeToDict d o.kmer o.base else some (addToDict d o.kmer o.base)

/-- one observation: count filter, then dictionary -/
def stepObs (st : Assoc Nat UInt8 × KmerFilter) (o : Obs) : Option (Assoc Nat UInt8 × KmerFilter) :=
  if (st.2.filter o.hash).2 = true then
    (addObs st.1 o).map (fun d' => (d', (st.2.filter o.hash).1))
  else some (st.1, (st.2.filter o.hash).1)

def runObs (st : Assoc Nat UInt8 × KmerFilter) (os : List Obs) : Option (Assoc Nat UInt8 × KmerFilter) :=
  os.foldlM stepObs st

/-- the observations selected by a list of flags -/
def kept {α : Type} : List α → List Bool → List α
  | o :: os, b :: bs => if b then o :: kept os bs else kept os bs
  | _, _ => []

theorem mem_kept {α : Type} (os : List α) (flags : List Bool) (o : α) :
    o ∈ kept os flags ↔ ∃ i : Nat, os[i]? = some o ∧ flags[i]? = some true := by
  induction os generalizing flags with
  | nil => simp [kept]
  | cons x xs ih =>
    cases flags with
    | nil => simp [kept]
    | cons b bs =>
      simp only [kept]
      constructor
      · intro hmem
        cases b with
        | true =>
          simp only [↓reduceIte, List.mem_cons] at hmem
          rcases hmem with rfl | hmem
          · exact ⟨0, by simp, by simp⟩
          · obtain ⟨i, h1, h2⟩ := (ih bs).1 hmem
            exact ⟨i + 1, by simpa using h1, by simpa using h2⟩
        | false =>
          simp only [Bool.false_eq_true, ↓reduceIte] at hmem
          obtain ⟨i, h1, h2⟩ := (ih bs).1 hmem
          exact ⟨i + 1, by simpa using h1, by simpa using h2⟩
      · rintro ⟨i, h1, h2⟩
        cases i with
        | zero =>
          simp only [List.getElem?_cons_zero, Option.some.injEq] at h1 h2
          subst h1 h2; simp
        | succ i =>
          simp only [List.getElem?_cons_succ] at h1 h2
          have := (ih bs).2 ⟨i, h1, h2⟩
          cases b <;> simp [this]

/-- the stream fold is: run the filter on the hashes, then add the passed observations -/
theorem runObs_eq (os : List Obs) (d : Assoc Nat UInt8) (f : KmerFilter) :
    runObs (d, f) os =
      ((kept os (runFilter f (os.map (·.hash))).2).foldlM addObs d).map
        (fun d' => (d', (runFilter f (os.map (·.hash))).1)) := by
  induction os generalizing d f with
  | nil => simp [runObs, kept]
  | cons o os ih =>
    simp only [runObs, List.foldlM_cons, List.map_cons, runFilter_cons, kept] at ih ⊢
    unfold stepObs
    cases hp : (f.filter o.hash).2
    · simp only [Bool.false_eq_true, ↓reduceIte, Option.bind_eq_bind, Option.bind_some]
      exact ih d (f.filter o.hash).1
    · simp only [↓reduceIte, Option.bind_eq_bind, List.foldlM_cons]
      cases addObs d o with
      | none => simp
      | some d' =>
        simp only [Option.map_some, Option.bind_some]
        exact ih d' (f.filter o.hash).1

/-! ### connection to `addReadState`, `addRead`, `buildReads` -/

/-- the observation an iterator state presents to the filter -/
def obsOfState (c : SKConf) (s : SKState) : Obs :=
  { hash := c.getHash s, kmer := (c.currKmer s).1, base := (c.currKmer s).2.1,
    palin := c.selfPalindrome s }

theorem addReadState_eq (c : SKConf) (st : Assoc Nat UInt8 × KmerFilter) (s : SKState) :
    addReadState c st s =
      if c.middleBaseQual s = true then stepObs st (obsOfState c s) else some st := by
  obtain ⟨d, f⟩ := st
  unfold addReadState stepObs obsOfState addObs
  by_cases hq : c.middleBaseQual s = true
  · simp only [hq, ↓reduceIte]
    cases hp : (f.filter (c.getHash s)).2
    · have : f.filter (c.getHash s) = ((f.filter (c.getHash s)).1, false) := by rw [← hp]
      rw [this]; simp
    · have : f.filter (c.getHash s) = ((f.filter (c.getHash s)).1, true) := by rw [← hp]
      rw [this]; simp only [↓reduceIte]
      cases c.selfPalindrome s <;> simp
  · simp [hq]

/-- the observation stream of a list of iterator states: those whose middle base passes -/
def obsOfStates (c : SKConf) (ss : List SKState) : List Obs :=
  (ss.filter (fun s => c.middleBaseQual s)).map (obsOfState c)

theorem foldlM_addReadState (c : SKConf) (ss : List SKState) (st : Assoc Nat UInt8 × KmerFilter) :
    ss.foldlM (addReadState c) st = runObs st (obsOfStates c ss) := by
  induction ss generalizing st with
  | nil => simp [runObs, obsOfStates]
  | cons s ss ih =>
    simp only [List.foldlM_cons, addReadState_eq]
    by_cases hq : c.middleBaseQual s = true
    · simp only [hq, ↓reduceIte, obsOfStates, List.filter_cons, List.map_cons, runObs,
        List.foldlM_cons]
      cases stepObs st (obsOfState c s) with
      | none => rfl
      | some st' =>
        simp only [Option.bind_eq_bind, Option.bind_some]
        exact ih st'
    · simp only [hq, Bool.false_eq_true, ↓reduceIte, Option.bind_eq_bind, Option.bind_some,
        obsOfStates, List.filter_cons]
      exact ih st

/-- the iterator configuration `addRead` builds for a read -/
def readConf (W k : Nat) (rc : Bool) (minQual : Nat) (qf : QualFilter) (r : Read) : SKConf :=
  { W := W, k := k, rc := rc, seq := r.seq, qual := some r.qual, minQual := minQual, qf := qf,
    isReads := true }

/-- the observations of one read -/
def readObs (W k : Nat) (rc : Bool) (minQual : Nat) (qf : QualFilter) (r : Read) : List Obs :=
  obsOfStates (readConf W k rc minQual qf r) (readConf W k rc minQual qf r).states

theorem addRead_eq (W k : Nat) (rc : Bool) (minQual : Nat) (qf : QualFilter)
    (st : Assoc Nat UInt8 × KmerFilter) (r : Read) :
    addRead W k rc minQual qf st r = runObs st (readObs W k rc minQual qf r) := by
  unfold addRead readObs
  exact foldlM_addReadState _ _ st

theorem runObs_append (st : Assoc Nat UInt8 × KmerFilter) (as bs : List Obs) :
    runObs st (as ++ bs) = (runObs st as).bind (fun st' => runObs st' bs) := by
  unfold runObs
  rw [List.foldlM_append]
  rfl

theorem foldlM_addRead (W k : Nat) (rc : Bool) (minQual : Nat) (qf : QualFilter)
    (rs : List Read) (st : Assoc Nat UInt8 × KmerFilter) :
    rs.foldlM (addRead W k rc minQual qf) st =
      runObs st (rs.flatMap (readObs W k rc minQual qf)) := by
  induction rs generalizing st with
  | nil => simp [runObs]
  | cons r rs ih =>
    simp only [List.foldlM_cons, List.flatMap_cons, runObs_append, addRead_eq]
    cases runObs st (readObs W k rc minQual qf r) with
    | none => rfl
    | some st' =>
      simp only [Option.bind_eq_bind, Option.bind_some]
      exact ih st'

/-- `buildReads` is the abstract stream fold over all observations of both files -/
theorem buildReads_eq (W k : Nat) (rc : Bool) (minCount minQual : Nat) (qf : QualFilter)
    (file1 file2 : List Read) :
    buildReads W k rc minCount minQual qf file1 file2 =
      match runObs ([], { minCount := minCount })
          ((file1 ++ file2).flatMap (readObs W k rc minQual qf)) with
      | none => .panicked
      | some ([], _) => .noValid
      | some (d, _) => .dict (sortByKey (·.1) d) := by
  unfold buildReads
  rw [foldlM_addRead]
  rfl

/-! ### classes instead of hashes -/

theorem count_map_congr {α β γ : Type} [BEq β] [LawfulBEq β] [BEq γ] [LawfulBEq γ]
    (f : α → β) (g : α → γ) (a : α) (l : List α)
    (h : ∀ b ∈ l, f b = f a ↔ g b = g a) :
    (l.map f).count (f a) = (l.map g).count (g a) := by
  induction l with
  | nil => rfl
  | cons x xs ih =>
    have hx := h x (by simp)
    have ih' := ih (fun b hb => h b (by simp [hb]))
    simp only [List.map_cons, List.count_cons, ih']
    by_cases hf : f x = f a
    · have hg := hx.1 hf
      simp [hf, hg]
    · have hg : ¬ g x = g a := fun hg => hf (hx.2 hg)
      have h1 : (f x == f a) = false := by simpa using hf
      have h2 : (g x == g a) = false := by simpa using hg
      simp [h1, h2]

/-- if two labellings identify the same pairs of elements, the specified flags coincide -/
theorem specRun_map_congr {α β γ : Type} [BEq β] [LawfulBEq β] [BEq γ] [LawfulBEq γ]
    (m : Nat) (f : α → β) (g : α → γ) (os pre : List α)
    (h : ∀ a ∈ pre ++ os, ∀ b ∈ pre ++ os, f a = f b ↔ g a = g b) :
    specRun m (pre.map f) (os.map f) = specRun m (pre.map g) (os.map g) := by
  induction os generalizing pre with
  | nil => rfl
  | cons o os ih =>
    simp only [List.map_cons, specRun]
    have hc : (pre.map f).count (f o) = (pre.map g).count (g o) :=
      count_map_congr f g o pre (fun b hb => h b (by simp [hb]) o (by simp))
    rw [hc]
    have hmem : ∀ a, a ∈ o :: pre ++ os → a ∈ pre ++ o :: os := by
      intro a ha
      simp only [List.cons_append, List.mem_cons, List.mem_append] at ha ⊢
      rcases ha with h1 | h1 | h1 <;> simp [h1]
    have := ih (o :: pre) (fun a ha b hb => h a (hmem a ha) b (hmem b hb))
    simp only [List.map_cons] at this
    rw [this]

/-- the hash identifies exactly the classes `cls` on the observed stream -/
def HashFaithful {γ : Type} (cls : Obs → γ) (os : List Obs) : Prop :=
  ∀ a ∈ os, ∀ b ∈ os, a.hash = b.hash ↔ cls a = cls b

/-- the strand-independent identity of a full k-mer used by `Spec.kmerClass`: split k-mer
and middle base, the two middle bases of a self-reverse-complement arm pair identified -/
def obsClass (o : Obs) : Nat × Nat :=
  (o.kmer, if o.palin then min o.base (o.base ^^^ 2) else o.base)

/-- elements of `hs` all in `pre`: no first occurrences, hence `NoFP` holds trivially -/
theorem noFPFrom_of_mem (hs : List Nat) (f : KmerFilter) (pre : List Nat)
    (h : ∀ x ∈ hs, x ∈ pre) : NoFPFrom f pre hs := by
  induction hs generalizing f pre with
  | nil => trivial
  | cons x xs ih =>
    refine ⟨fun _ => h x (by simp), ih _ _ ?_⟩
    intro y hy
    exact List.mem_cons_of_mem _ (h y (by simp [hy]))

/-- a constant hash list has no Bloom false positive (fresh filter) -/
theorem noFP_replicate (m h n : Nat) : NoFP m (List.replicate n h) := by
  cases n with
  | zero => trivial
  | succ n =>
    refine ⟨fun hb => absurd hb (not_bloomHas_empty _ rfl h), noFPFrom_of_mem _ _ _ ?_⟩
    intro x hx
    simp [(List.mem_replicate.1 hx).2]

end SkaModel.KF
