/-
Mapping a reference against its own split k-mers gives back the upper-cased reference
(specification level).
-/
import SkaModel.Lemmas.RMBridge

namespace SkaModel.RM

open SkaModel SkaModel.Spec SkaModel.Props.C16

/-- one of `A C G T a c g t` -/
def IsACGT (b : UInt8) : Prop :=
  b = 65 ∨ b = 67 ∨ b = 71 ∨ b = 84 ∨ b = 97 ∨ b = 99 ∨ b = 103 ∨ b = 116

theorem acgt_facts (b : UInt8) (hb : IsACGT b) :
    validBase b = true ∧ decodeBase (code b) = upperByte b ∧
    rcIupacAt (decodeBase (code b ^^^ 2)) = upperByte b ∧
    (decodeBase (code b) == 45) = false ∧ (decodeBase (code b ^^^ 2) == 45) = false ∧
    isAmbiguous (upperByte b) = false := by
  rcases hb with rfl | rfl | rfl | rfl | rfl | rfl | rfl | rfl <;> decide

theorem obs_eq (k : Nat) (rc : Bool) (c : Array UInt8) (j : Nat) :
    obs k rc c j =
      if (rc && decide (packL (armsAt k c j) > packL (rcCodes (armsAt k c j)))) = true
      then (packL (rcCodes (armsAt k c j)), midAt k c j ^^^ 2, true)
      else (packL (armsAt k c j), midAt k c j, false) := rfl

theorem matchedBase_eq (k : Nat) (rc : Bool) (dict : Nat → Option (List UInt8)) (c : Array UInt8) (s p : Nat) :
    matchedBase k rc dict c s p =
      if isCentre k c p = true then
        (match dict (obs k rc c (p - (k - 1) / 2)).1 with
         | some row =>
           if (row.getD s 45 == 45) = true then none
           else some (if (obs k rc c (p - (k - 1) / 2)).2.2 = true then rcIupacAt (row.getD s 45) else row.getD s 45)
         | none => none)
      else none := rfl

section
variable (k : Nat) (rc : Bool) (hk : ValidK k) (dict : Nat → Option (List UInt8)) (c : Array UInt8) (s : Nat)
  (hacgt : ∀ i, i < c.size → IsACGT (c.getD i 0))
  (hlen : k ≤ c.size)
  (hdict : ∀ j ∈ windows k c, ∃ row, dict (obs k rc c j).1 = some row ∧
      row.getD s 45 = decodeBase (obs k rc c j).2.1)

include hacgt in
theorem windows_all (j : Nat) : j ∈ windows k c ↔ j + k ≤ c.size := by
  rw [mem_windows]
  constructor
  · exact fun h => h.1
  · intro h
    exact ⟨h, fun t ht => (acgt_facts _ (hacgt (j + t) (by omega))).1⟩

include hk hacgt hdict in
/-- at every centre the sample's base is the upper-cased reference base -/
theorem matchedBase_self (q : Nat) (h1 : halfK k ≤ q) (h2 : q + halfK k < c.size) :
    matchedBase k rc dict c s q = some (upperByte (c.getD q 0)) := by
  have hk2 : k = 2 * halfK k + 1 := by unfold ValidK at hk; unfold halfK; omega
  have hwin : (q - halfK k) ∈ windows k c := (windows_all k c hacgt _).mpr (by omega)
  have hcen : isCentre k c q = true := (isCentre_iff k c q).mpr ⟨h1, hwin⟩
  obtain ⟨row, hrow, hget⟩ := hdict _ hwin
  rw [matchedBase_eq, if_pos hcen, ← halfK_eq, hrow]
  simp only
  rw [hget]
  have hmid : midAt k c (q - halfK k) = code (c.getD q 0) := by
    unfold midAt; rw [← halfK_eq, show q - halfK k + halfK k = q by omega]
  obtain ⟨_, f2, f3, f4, f5, _⟩ := acgt_facts _ (hacgt q (by omega))
  rw [obs_eq]
  by_cases hc : (rc && decide (packL (armsAt k c (q - halfK k)) > packL (rcCodes (armsAt k c (q - halfK k))))) = true
  · rw [if_pos hc]
    simp only [hmid]
    rw [f5, f3]
    rfl
  · rw [if_neg hc]
    simp only [hmid]
    rw [f4, f2]
    rfl

include hk hacgt hdict in
theorem mem_matched_self (m : Nat × UInt8) :
    m ∈ matchedCentres k rc dict c s ↔
      (halfK k ≤ m.1 ∧ m.1 + halfK k < c.size) ∧ m.2 = upperByte (c.getD m.1 0) := by
  have hk2 : k = 2 * halfK k + 1 := by unfold ValidK at hk; unfold halfK; omega
  rw [mem_matchedCentres]
  constructor
  · intro h
    have hcen := (isCentre_iff k c m.1).mp (matchedBase_isCentre h)
    have hw := (windows_all k c hacgt _).mp hcen.2
    have hb : halfK k ≤ m.1 ∧ m.1 + halfK k < c.size := ⟨hcen.1, by omega⟩
    rw [matchedBase_self k rc hk dict c s hacgt hdict m.1 hb.1 hb.2] at h
    injection h with h
    exact ⟨hb, h.symm⟩
  · rintro ⟨hb, he⟩
    rw [he]
    exact matchedBase_self k rc hk dict c s hacgt hdict m.1 hb.1 hb.2

include hk hacgt hlen hdict in
/-- before repeat masking every position shows the upper-cased reference base -/
theorem mBase_self (amask : Bool) (p : Nat) (hp : p < c.size) :
    mBase (halfK k) amask c (matchedCentres k rc dict c s) p = upperByte (c.getD p 0) := by
  have hk2 : k = 2 * halfK k + 1 := by unfold ValidK at hk; unfold halfK; omega
  have hmem := mem_matched_self k rc hk dict c s hacgt hdict
  unfold mBase
  by_cases hcen : halfK k ≤ p ∧ p + halfK k < c.size
  · -- a centre
    have hin : (p, upperByte (c.getD p 0)) ∈ matchedCentres k rc dict c s := (hmem _).mpr ⟨hcen, rfl⟩
    cases hf : (matchedCentres k rc dict c s).find? (·.1 == p) with
    | none =>
      rw [List.find?_eq_none] at hf
      exact absurd (by simp) (hf _ hin)
    | some m =>
      have hm := (hmem m).mp (List.mem_of_find?_eq_some hf)
      have hmp : m.1 = p := by simpa using List.find?_some hf
      simp only
      rw [hm.2, hmp, (acgt_facts _ (hacgt p hp)).2.2.2.2.2, Bool.and_false]
      rfl
  · -- not a centre: within `h` of one
    have hf : (matchedCentres k rc dict c s).find? (·.1 == p) = none := by
      rw [List.find?_eq_none]
      intro m hm hmp
      have hmp' : m.1 = p := by simpa using hmp
      have := ((hmem m).mp hm).1
      rw [hmp'] at this
      exact hcen this
    rw [hf]
    simp only
    have hany : (matchedCentres k rc dict c s).any (fun m => within (halfK k) p m.1) = true := by
      rw [List.any_eq_true]
      by_cases hlow : halfK k ≤ p
      · -- the tail of the contig
        refine ⟨(c.size - halfK k - 1, upperByte (c.getD (c.size - halfK k - 1) 0)),
          (hmem _).mpr ⟨⟨by show halfK k ≤ c.size - halfK k - 1; omega,
            by show c.size - halfK k - 1 + halfK k < c.size; omega⟩, rfl⟩, ?_⟩
        rw [within_iff]
        show p ≤ c.size - halfK k - 1 + halfK k ∧ c.size - halfK k - 1 ≤ p + halfK k
        omega
      · -- the head of the contig
        refine ⟨(halfK k, upperByte (c.getD (halfK k) 0)),
          (hmem _).mpr ⟨⟨Nat.le_refl _, by show halfK k + halfK k < c.size; omega⟩, rfl⟩, ?_⟩
        rw [within_iff]
        show p ≤ halfK k + halfK k ∧ halfK k ≤ p + halfK k
        omega
    rw [hany, if_pos rfl]

end

theorem array_map_eq_range (f : UInt8 → UInt8) (c : Array UInt8) :
    c.toList.map f = (List.range c.size).map (fun p => f (c.getD p 0)) := by
  apply List.ext_getElem
  · simp
  · intro i h1 h2
    have hi : i < c.size := by simpa using h1
    simp [Array.getD_eq_getD_getElem?, hi]

theorem flatMap_congr_mem {α β : Type} {F G : α → List β} :
    ∀ (l : List α), (∀ a ∈ l, F a = G a) → l.flatMap F = l.flatMap G := by
  intro l h
  rw [List.flatMap_def, List.flatMap_def, List.map_congr_left h]

theorem repeatCentres_nil_of_nodup (k : Nat) (rc : Bool) (keys : List Nat) (hnd : keys.Nodup) (c : Array UInt8) :
    repeatCentres k rc keys c = [] := by
  rw [List.eq_nil_iff_forall_not_mem]
  intro p hp
  rw [mem_repeatCentres] at hp
  have := List.nodup_iff_count.mp hnd (obs k rc c (p - halfK k)).1
  omega

/-- **self-mapping, specification level.** -/
theorem mapSeq_self (k : Nat) (rc : Bool) (hk : ValidK k) (dict : Nat → Option (List UInt8))
    (ref : List (Array UInt8)) (s : Nat) (amask rmask : Bool)
    (hacgt : ∀ c ∈ ref, ∀ i, i < c.size → IsACGT (c.getD i 0))
    (hlen : ∀ c ∈ ref, k ≤ c.size)
    (hnd : rmask = true → (refKeys k rc ref).Nodup)
    (hdict : ∀ c ∈ ref, ∀ j ∈ windows k c, ∃ row, dict (obs k rc c j).1 = some row ∧
      row.getD s 45 = decodeBase (obs k rc c j).2.1) :
    mapSeq k rc dict ref amask rmask s = ref.flatMap (fun c => c.toList.map upperByte) := by
  unfold mapSeq
  apply flatMap_congr_mem
  intro c hc
  simp only
  rw [array_map_eq_range]
  apply List.map_congr_left
  intro p hp
  rw [List.mem_range] at hp
  rw [← halfK_eq, mapCharAt_eq, mBase_self k rc hk dict c s (hacgt c hc) (hlen c hc) (hdict c hc) amask p hp]
  cases rmask
  · rfl
  · rw [if_pos rfl, repeatCentres_nil_of_nodup k rc _ (hnd rfl) c]
    simp

end SkaModel.RM
