/-
C17 completeness — walks of the graph of a pair of strands and the sequences `buildVariant` spells for
them: a walk from a node of the strand `T` climbs one coordinate per step, every `k`-window of the spelled
sequence is the `k`-window of a sample at the corresponding coordinate, and the letter at a site is
carried along an arm.
-/
import SkaModel.Lemmas.LOCClosed
import SkaModel.Lemmas.LOCGroupsGen

namespace SkaModel.LOC

open SkaModel SkaModel.Spec SkaModel.Props.C16 SkaModel.Skalo SkaModel.Props.C17G SkaModel.LOG

namespace Strand

variable {k L : Nat} {g : Graph} {T T' : List (List UInt8)} {PT PT' : List Nat}

/-- a walk from a node of the strand climbs one coordinate per step -/
theorem walk_levels (st : Strand k L g T PT T' PT') :
    ∀ (path : List Nat) (t : List UInt8) (c0 : Nat), t ∈ T → c0 + (k - 1) ≤ L → Walk g path →
      path.head? = some (fN k t c0) → ∀ i x, path[i]? = some x →
      ∃ ti ∈ T, x = fN k ti (c0 + i) ∧ c0 + i + (k - 1) ≤ L := by
  have hk5 := st.k5
  intro path
  induction path with
  | nil => intro t c0 _ _ _ hh; simp at hh
  | cons a rest ih =>
    intro t c0 ht hc0 hw hh i x hx
    simp only [List.head?_cons, Option.some.injEq] at hh
    subst hh
    cases i with
    | zero =>
      simp only [List.getElem?_cons_zero, Option.some.injEq] at hx
      exact ⟨t, ht, hx.symm, by omega⟩
    | succ i =>
      rw [List.getElem?_cons_succ] at hx
      cases rest with
      | nil => simp at hx
      | cons b rest' =>
        obtain ⟨hedge, hw'⟩ := hw
        obtain ⟨hjk, t', ht', _, hb⟩ := (st.mem_succs ht hc0 b).mp hedge
        obtain ⟨ti, hti, hxi, hl⟩ := ih t' (c0 + 1) ht' (by omega) hw' (by rw [hb]; rfl) i x hx
        exact ⟨ti, hti, by rw [hxi]; congr 1; omega, by omega⟩

/-- two consecutive nodes of such a walk are consecutive `(k-1)`-mers of one sample -/
theorem walk_edges (st : Strand k L g T PT T' PT') {path : List Nat} {t : List UInt8} {c0 : Nat} (ht : t ∈ T)
    (hc0 : c0 + (k - 1) ≤ L) (hw : Walk g path) (hh : path.head? = some (fN k t c0)) {i x y : Nat}
    (hx : path[i]? = some x) (hy : path[i + 1]? = some y) :
    ∃ t' ∈ T, x = fN k t' (c0 + i) ∧ y = fN k t' (c0 + i + 1) ∧ c0 + i + k ≤ L := by
  obtain ⟨ti, hti, rfl, hl⟩ := st.walk_levels path t c0 ht hc0 hw hh i x hx
  have hedge : Edge g (fN k ti (c0 + i)) y := chainR_getElem? path i _ y ((walk_eq_chainR g path).mp hw) hx hy
  obtain ⟨hjk, t', ht', hwin, rfl⟩ := (st.mem_succs hti hl y).mp hedge
  exact ⟨t', ht', (fN_congr hwin).symm, rfl, hjk⟩

theorem fN_lt (t : List UInt8) {j : Nat} (hj : j + (k - 1) ≤ t.length) : fN k t j < 4 ^ (k - 1) := by
  unfold fN
  have := packL_lt (cds_codes (win t j (k - 1)))
  rwa [cds_length, win_length hj] at this

theorem fN_overlap {t : List UInt8} {j : Nat} (hk : 2 ≤ k) (hj : j + k ≤ t.length) :
    Overlap (k - 1) (fN k t j) (fN k t (j + 1)) := by
  have := (overlap_take_drop (k - 1) (cds (win t j k)) (cds_codes _) (by rw [cds_length, win_length hj]; omega)).2.2
  have he := e1_window (k := k) (by omega) t j
  unfold e1 at he
  simp only [Prod.mk.injEq] at he
  rw [he.1, he.2] at this
  exact this

/-- what `buildVariant` spells for a walk from a node of the strand -/
theorem variant_spec (st : Strand k L g T PT T' PT') {W : Nat} (hW : 2 * k ≤ W) (starts ends : List Nat)
    {path : List Nat} {t : List UInt8} {c0 : Nat} (ht : t ∈ T) (hc0 : c0 + (k - 1) ≤ L) (hw : Walk g path)
    (hh : path.head? = some (fN k t c0)) :
    (buildVariant W (k - 1) starts ends (fN k t c0) path).1.length = path.length + (k - 1) - 1 ∧
    AllBase (buildVariant W (k - 1) starts ends (fN k t c0) path).1 ∧
    (∀ i x, path[i]? = some x →
      ∃ ti ∈ T, x = fN k ti (c0 + i) ∧ c0 + i + (k - 1) ≤ L ∧
        win (buildVariant W (k - 1) starts ends (fN k t c0) path).1 i (k - 1) = win ti (c0 + i) (k - 1)) ∧
    (∀ i, i + k ≤ path.length + (k - 1) - 1 → ∃ t' ∈ T, c0 + i + k ≤ L ∧
      win (buildVariant W (k - 1) starts ends (fN k t c0) path).1 i k = win t' (c0 + i) k) := by
  have hk5 := st.k5
  have hlt : ∀ n ∈ path, n < 4 ^ (k - 1) := by
    intro n hn
    obtain ⟨i, hi, rfl⟩ := List.getElem_of_mem hn
    obtain ⟨ti, hti, e, hl⟩ := st.walk_levels path t c0 ht hc0 hw hh i _ (List.getElem?_eq_getElem hi)
    rw [e]
    exact fN_lt ti (by rw [st.pf.len hti]; exact hl)
  have hov : ∀ (i a b : Nat), path[i]? = some a → path[i + 1]? = some b → Overlap (k - 1) a b := by
    intro i a b ha hb
    obtain ⟨t', ht', rfl, rfl, hl⟩ := st.walk_edges ht hc0 hw hh ha hb
    exact fN_overlap (by omega) (by rw [st.pf.len ht']; exact hl)
  obtain ⟨h1, h2⟩ := buildVariant_spells W (k - 1) starts ends (fN k t c0) path (by omega) hh hlt hov
  have hbase : AllBase (buildVariant W (k - 1) starts ends (fN k t c0) path).1 := by
    cases path with
    | nil => simp at hh
    | cons a rest =>
      simp only [List.head?_cons, Option.some.injEq] at hh
      subst hh
      rw [buildVariant_seq W (k - 1) starts ends _ rest (hlt _ (List.mem_cons_self ..)) (by omega)]
      intro b hb
      obtain ⟨c, _, rfl⟩ := List.mem_map.mp hb
      exact isBase_decodeBase c
  obtain ⟨seq, hseq⟩ : ∃ seq, seq = (buildVariant W (k - 1) starts ends (fN k t c0) path).1 := ⟨_, rfl⟩
  rw [← hseq] at h1 h2 hbase ⊢
  have hwin : ∀ i x, path[i]? = some x →
      ∃ ti ∈ T, x = fN k ti (c0 + i) ∧ c0 + i + (k - 1) ≤ L ∧ win seq i (k - 1) = win ti (c0 + i) (k - 1) := by
    intro i x hx
    obtain ⟨ti, hti, hxe, hl⟩ := st.walk_levels path t c0 ht hc0 hw hh i x hx
    refine ⟨ti, hti, hxe, hl, ?_⟩
    have henc : encodeKmer W (win seq i (k - 1)) = x := h2 i x hx
    have hi : i < path.length := (List.getElem?_eq_some_iff.mp hx).1
    have hwl : (win seq i (k - 1)).length = k - 1 := win_length (by rw [h1]; omega)
    have hwl' : (win ti (c0 + i) (k - 1)).length = k - 1 := win_length (by rw [st.pf.len hti]; exact hl)
    rw [enc_eq W _ (by rw [hwl]; omega), hxe] at henc
    unfold fN at henc
    exact cds_inj (hbase.win _ _) ((st.pf.base hti).win _ _)
      (packL_inj (cds_codes _) (cds_codes _) (by rw [cds_length, cds_length, hwl, hwl']) henc)
  refine ⟨h1, hbase, hwin, ?_⟩
  intro i hi
  have hx : path[i]? = some path[i] := List.getElem?_eq_getElem (by omega)
  have hy : path[i + 1]? = some path[i + 1] := List.getElem?_eq_getElem (by omega)
  obtain ⟨t', ht', hxe, hye, hl⟩ := st.walk_edges ht hc0 hw hh hx hy
  obtain ⟨t1, ht1, hx1, _, hw1⟩ := hwin i _ hx
  obtain ⟨t2, ht2, hx2, _, hw2⟩ := hwin (i + 1) _ hy
  have e1 : win t1 (c0 + i) (k - 1) = win t' (c0 + i) (k - 1) :=
    (st.node_level ht1 ht' (by omega) (by omega) (hx1.symm.trans hxe)).2
  have e2 : win t2 (c0 + (i + 1)) (k - 1) = win t' (c0 + (i + 1)) (k - 1) :=
    (st.node_level ht2 ht' (by omega) (by omega) (hx2.symm.trans (by rw [hye]; congr 1))).2
  refine ⟨t', ht', hl, ?_⟩
  rw [win_eq_iff (by rw [h1]; omega) (by rw [st.pf.len ht']; omega)]
  intro m hm
  by_cases hm1 : m < k - 1
  · have := (win_eq_iff (by rw [h1]; omega) (by rw [st.pf.len ht']; omega)).mp (hw1.trans e1) m hm1
    exact this
  · have hmk : m = k - 1 := by omega
    have := (win_eq_iff (s := seq) (t := t') (j := i + 1) (j' := c0 + (i + 1)) (m := k - 1)
      (by rw [h1]; omega) (by rw [st.pf.len ht']; omega)).mp (hw2.trans e2) (k - 2) (by omega)
    rw [show i + 1 + (k - 2) = i + m by omega, show c0 + (i + 1) + (k - 2) = c0 + i + m by omega] at this
    exact this

end Strand

end SkaModel.LOC
