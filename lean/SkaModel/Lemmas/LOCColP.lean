/-
C17 completeness — colours of a planted family (`T17K_colours`): the colour set of the `k`-window of a
sample at `j` is the set of the samples with the same window at `j`; the same for the
reverse-complemented family.
-/
import SkaModel.Lemmas.LOCStrand

namespace SkaModel.LOC

open SkaModel SkaModel.Spec SkaModel.Props.C16 SkaModel.Skalo SkaModel.Props.C17G

/-- the colour map knows every `k`-window of the family `T`: its sample list is strictly increasing and
consists of the (indices of the) samples with the same window at the same coordinate -/
def ColOK (k L : Nat) (col : Colours) (T : List (List UInt8)) : Prop :=
  ∀ t ∈ T, ∀ j, j + k ≤ L → ∃ Cs : List Nat,
    Assoc.lookup col (packL (cds (win t j k))) = some Cs ∧ Cs.Pairwise (· < ·) ∧
    ∀ i, i ∈ Cs ↔ ∃ t', T[i]? = some t' ∧ win t' j k = win t j k

theorem rcSeq_take_pred {w : List UInt8} {n : Nat} (hl : w.length = n + 1) :
    (rcSeq w).take n = rcSeq (w.drop 1) := by
  match w, hl with
  | x :: rest, hl =>
    have : x :: rest = [x] ++ rest := rfl
    rw [this, rcSeq_append, List.drop_left' (by rfl)]
    apply List.take_left'
    rw [rcSeq_length]
    simpa using hl

/-- in a planted family a sample contains a `k`-window of another sample, on one of the two strands,
only as the same window at the same coordinate -/
theorem kmer_eq_iff {k L : Nat} {S : List (List UInt8)} {P : List Nat} (h : PFam k L S P)
    (hk5 : 5 ≤ k) {s t : List UInt8} (hs : s ∈ S) (ht : t ∈ S) {j : Nat} (hj : j + k ≤ L) :
    (∃ j', j' + k ≤ L ∧ (cds (win s j' k) = cds (win t j k) ∨ cds (win s j' k) = rcCodes (cds (win t j k)))) ↔
      win s j k = win t j k := by
  constructor
  · rintro ⟨j', hj', hcases⟩
    have hls := h.len hs
    have hlt := h.len ht
    rcases hcases with hc | hc
    · have hw := cds_inj ((h.base hs).win _ _) ((h.base ht).win _ _) hc
      have hw1 : win s j' (k - 1) = win t j (k - 1) := by
        rw [← win_take s j' k (k - 1) (by omega), ← win_take t j k (k - 1) (by omega), hw]
      have := (h.uniq s hs t ht j' j (by omega) (by omega)).1 hw1
      subst this
      exact hw
    · exfalso
      rw [← cds_rcSeq ((h.base ht).win _ _)] at hc
      have hw := cds_inj ((h.base hs).win _ _) ((h.base ht).win _ _).rcSeq hc
      have hw1 : win s j' (k - 1) = rcSeq (win t (j + 1) (k - 1)) := by
        rw [← win_take s j' k (k - 1) (by omega), hw,
          rcSeq_take_pred (n := k - 1) (by rw [win_length (by omega)]; omega), win_drop]
      exact (h.uniq s hs t ht j' (j + 1) (by omega) (by omega)).2 hw1
  · intro e
    exact ⟨j, hj, Or.inl (by rw [e])⟩

/-- **T17K_colours** for the family itself -/
theorem colOK_fam {a : Arr} {k L : Nat} {names : List String} {S : List (List UInt8)} {P : List Nat}
    (ha : IsArrOf a k names S) (h : PFam k L S P) (hk : ValidK k) {W : Nat} (hw : WidthOk W k) :
    ColOK k L (buildGraph W a).2 S := by
  intro t ht j hj
  obtain ⟨Cs, h1, h3, h4⟩ := colour_fam ha h.sf hk hw t ht j hj _ (Or.inl rfl)
  refine ⟨Cs, h1, h3, ?_⟩
  intro i
  rw [h4]
  constructor
  · rintro ⟨t', ht', hex⟩
    exact ⟨t', ht', (kmer_eq_iff h hk.1 (List.mem_of_getElem? ht') ht hj).mp hex⟩
  · rintro ⟨t', ht', hex⟩
    exact ⟨t', ht', (kmer_eq_iff h hk.1 (List.mem_of_getElem? ht') ht hj).mpr hex⟩

theorem rcSeq_win' {s : List UInt8} {j m L : Nat} (hL : s.length = L) (h : j + m ≤ L) :
    win (rcSeq s) j m = rcSeq (win s (L - m - j) m) := by
  rw [rcSeq_win (by omega), hL]
  congr 1
  omega

/-- **T17K_colours** for the reverse-complemented family -/
theorem colOK_rc {a : Arr} {k L : Nat} {names : List String} {S : List (List UInt8)} {P : List Nat}
    (ha : IsArrOf a k names S) (h : PFam k L S P) (hk : ValidK k) {W : Nat} (hw : WidthOk W k) :
    ColOK k L (buildGraph W a).2 (rcFam S) := by
  intro t' ht' j hj
  obtain ⟨t, ht, rfl⟩ := List.mem_map.mp ht'
  obtain ⟨Cs, h2, h3, h4⟩ := colour_fam ha h.sf hk hw t ht (L - k - j) (by omega) _ (Or.inr rfl)
  refine ⟨Cs, ?_, h3, ?_⟩
  · rw [rcSeq_win' (h.len ht) hj, cds_rcSeq ((h.base ht).win _ _)]
    exact h2
  · intro i
    rw [h4]
    unfold rcFam
    rw [List.getElem?_map]
    constructor
    · rintro ⟨s, hs, hex⟩
      have hsm := List.mem_of_getElem? hs
      refine ⟨rcSeq s, by rw [hs]; rfl, ?_⟩
      rw [rcSeq_win' (h.len hsm) hj, rcSeq_win' (h.len ht) hj,
        (kmer_eq_iff h hk.1 hsm ht (by omega)).mp hex]
    · rintro ⟨s', hs', hex⟩
      cases hs : S[i]? with
      | none => rw [hs] at hs'; simp at hs'
      | some s =>
        rw [hs] at hs'
        simp only [Option.map_some, Option.some.injEq] at hs'
        subst hs'
        have hsm := List.mem_of_getElem? hs
        refine ⟨s, rfl, (kmer_eq_iff h hk.1 hsm ht (by omega)).mpr ?_⟩
        rw [rcSeq_win' (h.len hsm) hj, rcSeq_win' (h.len ht) hj] at hex
        exact rcSeq_inj ((h.base hsm).win _ _) ((h.base ht).win _ _) hex

end SkaModel.LOC
