/-
C17 completeness — exact characterisation of the bounded path enumeration `explore`: the reported
pairs are exactly the walks (`Reach`) that avoid the visited nodes, end at an exit node and stay within
the depth budget, where the depth grows at every node with at least two unvisited successors.
-/
import SkaModel.Lemmas.LOCCompact

namespace SkaModel.LOC

open SkaModel SkaModel.Skalo SkaModel.Props.C17G SkaModel.LOG

/-- `w` is a walk from `cur` (not included) through unvisited nodes to an exit node, explored within
the depth budget -/
def Reach (g : Graph) (ends : List Nat) (maxDepth : Nat) : List Nat → Nat → List Nat → Nat → Prop
  | [], _, _, _ => False
  | [n], cur, visited, depth => depth ≤ maxDepth ∧ n ∈ succs g cur ∧ n ∉ visited ∧ n ∈ ends
  | n :: m :: rest, cur, visited, depth =>
      depth ≤ maxDepth ∧ n ∈ succs g cur ∧ n ∉ visited ∧
      Reach g ends maxDepth (m :: rest) n (visited ++ [n])
        (if 2 ≤ ((succs g cur).filter (fun x => !visited.contains x)).length then depth + 1 else depth)

/-- the path reported for a walk -/
def pathOf (comp : List (Nat × List Nat)) (vec w : List Nat) : List Nat :=
  vec ++ w.flatMap (fun n => n :: interior comp n)

theorem reach_cons {g : Graph} {ends : List Nat} {maxDepth : Nat} (n : Nat) (w' : List Nat) (cur : Nat)
    (visited : List Nat) (depth : Nat) :
    Reach g ends maxDepth (n :: w') cur visited depth ↔
      depth ≤ maxDepth ∧ n ∈ succs g cur ∧ n ∉ visited ∧
      ((w' = [] ∧ n ∈ ends) ∨ (w' ≠ [] ∧ Reach g ends maxDepth w' n (visited ++ [n])
        (if 2 ≤ ((succs g cur).filter (fun x => !visited.contains x)).length then depth + 1 else depth))) := by
  cases w' with
  | nil => simp [Reach]
  | cons m rest => simp [Reach]

theorem explore_iff (g : Graph) (comp : List (Nat × List Nat)) (ends : List Nat) (maxDepth : Nat) :
    ∀ (fuel cur : Nat) (visited vec : List Nat) (depth : Nat) (ep : Nat × List Nat),
      ep ∈ explore g comp ends maxDepth fuel cur visited vec depth ↔
        ∃ w, w.length ≤ fuel ∧ Reach g ends maxDepth w cur visited depth ∧
          ep = (w.getLastD 0, pathOf comp vec w) := by
  intro fuel
  induction fuel with
  | zero =>
    intro cur visited vec depth ep
    simp only [explore, List.not_mem_nil, false_iff]
    rintro ⟨w, hw, hr, _⟩
    cases w with
    | nil => exact hr
    | cons _ _ => simp at hw
  | succ fuel ih =>
    intro cur visited vec depth ep
    -- one step, for a successor `next` explored at depth `d'`
    have step : ∀ next d',
        (ep ∈ (if ends.contains next = true then [(next, vec ++ [next] ++ (Assoc.lookup comp next).getD [])] else []) ++
          explore g comp ends maxDepth fuel next (visited ++ [next])
            (vec ++ [next] ++ (Assoc.lookup comp next).getD []) d') ↔
        ∃ w', w'.length ≤ fuel ∧
          ((w' = [] ∧ next ∈ ends) ∨ (w' ≠ [] ∧ Reach g ends maxDepth w' next (visited ++ [next]) d')) ∧
          ep = ((next :: w').getLastD 0, pathOf comp vec (next :: w')) := by
      intro next d'
      have e : vec ++ [next] ++ (Assoc.lookup comp next).getD [] = vec ++ next :: interior comp next := by
        unfold interior; simp
      rw [e, List.mem_append, ih]
      constructor
      · rintro (h | ⟨w', hl, hr, he⟩)
        · by_cases hc : ends.contains next = true
          · rw [if_pos hc] at h
            refine ⟨[], by simp, Or.inl ⟨rfl, by simpa using hc⟩, ?_⟩
            rw [List.mem_singleton] at h
            rw [h]
            simp [pathOf]
          · rw [if_neg hc] at h
            simp at h
        · have hne : w' ≠ [] := by
            intro e'; rw [e'] at hr; exact hr
          refine ⟨w', hl, Or.inr ⟨hne, hr⟩, ?_⟩
          rw [he]
          cases w' with
          | nil => exact absurd rfl hne
          | cons m rest => simp [pathOf]
      · rintro ⟨w', hl, (⟨rfl, hn⟩ | ⟨hne, hr⟩), he⟩
        · left
          rw [if_pos (by simpa using hn), he]
          simp [pathOf]
        · right
          refine ⟨w', hl, hr, ?_⟩
          rw [he]
          cases w' with
          | nil => exact absurd rfl hne
          | cons m rest => simp [pathOf]
    -- the right-hand side, through the first node of the walk
    have rhs : (∃ w, w.length ≤ fuel + 1 ∧ Reach g ends maxDepth w cur visited depth ∧
          ep = (w.getLastD 0, pathOf comp vec w)) ↔
        depth ≤ maxDepth ∧ ∃ next ∈ (succs g cur).filter (fun n => !visited.contains n),
          ∃ w', w'.length ≤ fuel ∧
          ((w' = [] ∧ next ∈ ends) ∨ (w' ≠ [] ∧ Reach g ends maxDepth w' next (visited ++ [next])
            (if 2 ≤ ((succs g cur).filter (fun x => !visited.contains x)).length then depth + 1 else depth))) ∧
          ep = ((next :: w').getLastD 0, pathOf comp vec (next :: w')) := by
      constructor
      · rintro ⟨w, hl, hr, he⟩
        cases w with
        | nil => exact absurd hr (by simp [Reach])
        | cons n w' =>
          rw [reach_cons] at hr
          obtain ⟨h1, h2, h3, h4⟩ := hr
          exact ⟨h1, n, List.mem_filter.mpr ⟨h2, by simpa using h3⟩, w', by simpa using hl, h4, he⟩
      · rintro ⟨h1, n, hn, w', hl, h4, he⟩
        rw [List.mem_filter] at hn
        exact ⟨n :: w', by simpa using hl, (reach_cons n w' cur visited depth).mpr
          ⟨h1, hn.1, by simpa using hn.2, h4⟩, he⟩
    rw [rhs, explore]
    by_cases hd : depth > maxDepth
    · rw [if_pos hd]
      simp only [List.not_mem_nil, false_iff]
      rintro ⟨h1, _⟩
      omega
    · rw [if_neg hd]
      simp only
      have hd' : depth ≤ maxDepth := by omega
      split
      · rename_i hg
        rw [hg]
        simp
      · rename_i next hg
        rw [hg, step]
        simp only [List.mem_singleton, exists_eq_left, List.length_singleton]
        rw [if_neg (by omega)]
        exact ⟨fun h => ⟨hd', h⟩, fun h => h.2⟩
      · rename_i hn0 hn1
        rw [List.mem_flatMap]
        have h2 : 2 ≤ ((succs g cur).filter (fun n => !visited.contains n)).length := by
          match hgood : (succs g cur).filter (fun n => !visited.contains n) with
          | [] => exact absurd hgood hn0
          | [x] => exact absurd hgood (hn1 x)
          | _ :: _ :: _ => simp
        rw [if_pos h2]
        constructor
        · rintro ⟨next, hn, hm⟩
          exact ⟨hd', next, hn, (step next (depth + 1)).mp hm⟩
        · rintro ⟨_, next, hn, hm⟩
          exact ⟨next, hn, (step next (depth + 1)).mpr hm⟩

end SkaModel.LOC
