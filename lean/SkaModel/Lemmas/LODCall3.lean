/-
C17 (second sentence) — one step of the fold of `analyseRef` on a good group of the samples' strand and on a
good group of the other strand, given what the reference yields for such groups (`AnchF`, `AnchR`: the group
is anchored and every site inside is placed at `plc`).
-/
import SkaModel.Lemmas.LODCall2

namespace SkaModel.LOD

open SkaModel SkaModel.Spec SkaModel.Props.C16 SkaModel.Skalo SkaModel.Props.C17G SkaModel.LOG SkaModel.LOC

variable {k L : Nat} {S : List (List UInt8)} {P : List Nat}

/-- the invariant of the fold: the blocked k-mers are those of the called sites (`CInv`), the placed pairs are
`plc` of the called sites -/
structure RInv (k : Nat) (S : List (List UInt8)) (P : List Nat) (plc : Nat → Nat × List UInt8)
    (Called : List (Nat × Bool)) (acc : List (Nat × List UInt8) × List Nat) : Prop where
  inv : CInv k S P Called (Called.map (colf S), acc.2)
  cols : acc.1 = Called.map (fun x => plc x.1)

theorem rinv_nil (k : Nat) (S : List (List UInt8)) (P : List Nat) (plc : Nat → Nat × List UInt8) :
    RInv k S P plc [] ([], []) := ⟨cinv_nil k S P, rfl⟩

/-- what the reference yields for a group of the samples' strand that contains a site: the group is
anchored, and every site `q` inside is placed at `plc q` -/
def AnchF (k L : Nat) (S : List (List UInt8)) (P : List Nat) (kmap : List (Nat × List Nat))
    (plc : Nat → Nat × List UInt8) : Prop :=
  ∀ c0 len vs, GG k L S P c0 len vs → 2 ≤ vs.length → (∃ q ∈ P, c0 ≤ q ∧ q < c0 + len) →
    ∃ pos fwdO, scanVariants 128 (k - 1) kmap vs = some (true, pos, fwdO) ∧
      ∀ q ∈ P, c0 ≤ q → q < c0 + len →
        (if fwdO then (pos + (q - c0 - (k - 1))) % U32
          else (pos + (len - (q - c0) - (k - 1) - 1)) % U32) = (plc q).1 ∧
        (if fwdO then some (colT S q) else complementSnp (colT S q)) = some (plc q).2

/-- the same for a group of the other strand: the site `q'` (mirrored coordinate) is placed at `plc (L-1-q')` -/
def AnchR (k L : Nat) (S : List (List UInt8)) (P : List Nat) (kmap : List (Nat × List Nat))
    (plc : Nat → Nat × List UInt8) : Prop :=
  ∀ c0 len vs, GG k L (rcFam S) (mirrorP L P) c0 len vs → 2 ≤ vs.length →
    (∃ q' ∈ mirrorP L P, c0 ≤ q' ∧ q' < c0 + len) →
    ∃ pos fwdO, scanVariants 128 (k - 1) kmap vs = some (true, pos, fwdO) ∧
      ∀ q' ∈ mirrorP L P, c0 ≤ q' → q' < c0 + len →
        (if fwdO then (pos + (q' - c0 - (k - 1))) % U32
          else (pos + (len - (q' - c0) - (k - 1) - 1)) % U32) = (plc (L - 1 - q')).1 ∧
        (if fwdO then some (colT (rcFam S) q') else complementSnp (colT (rcFam S) q')) = some (plc (L - 1 - q')).2

theorem gg_head_len {T : List (List UInt8)} {PT : List Nat} {c0 len : Nat} {vs : List Variant}
    (hg : GG k L T PT c0 len vs) (hne : vs ≠ []) : (vs.headD ([], [])).1.length = len := by
  cases vs with
  | nil => exact absurd rfl hne
  | cons v rest => exact (hg.hv v (List.mem_cons_self ..)).1

/-- **a group of the strand of the samples** -/
theorem step_fwd_ref (pf : PFam k L S P) (hk5 : 5 ≤ k) {W : Nat} (hW : 2 * k ≤ W) (hw : W = 64 ∨ W = 128)
    {col : Colours} (hc : ColOK k L col S) (mNum mDen : Nat) {kmap : List (Nat × List Nat)}
    {plc : Nat → Nat × List UInt8} (hF : AnchF k L S P kmap plc)
    (hinj : ∀ q ∈ P, ∀ q2 ∈ P, (plc q).1 = (plc q2).1 → q = q2)
    {Called : List (Nat × Bool)} {acc : List (Nat × List UInt8) × List Nat} (hI : RInv k S P plc Called acc)
    {c0 len : Nat} {vs : List Variant} (hg : GG k L S P c0 len vs) (h2 : 2 ≤ vs.length) (key : Nat × Nat) :
    ∃ (Called' : List (Nat × Bool)) (acc' : List (Nat × List UInt8) × List Nat),
      refStepX W (k - 1) S.length mNum mDen col kmap [] acc (key, vs) = some acc' ∧
      RInv k S P plc Called' acc' ∧ (∀ x ∈ Called, x ∈ Called') ∧
      ∀ q ∈ P, c0 ≤ q → q < c0 + len → q ∈ Called'.map (·.1) := by
  obtain ⟨s0, hs0⟩ := List.exists_mem_of_ne_nil S pf.ne
  have hne : vs ≠ [] := by intro e; rw [e] at h2; simp at h2
  have hI0 := hI.inv
  have hdich : ∀ q ∈ P, c0 ≤ q → q < c0 + len →
      (∀ t ∈ S, kmerAt k t (q - k + 1) ∈ acc.2) ∨
      (∀ t ∈ S, kmerAt k t (q - k + 1) ∉ acc.2 ∧ rcKmerAt k t q ∉ acc.2) := by
    intro q hq _ _
    by_cases hc : q ∈ Called.map (·.1)
    · exact Or.inl (fun t ht => (hI0.has q hc t ht).1)
    · right
      intro t ht
      exact ⟨not_blocked pf hk5 hI0 hq hc ⟨t, ht, Or.inl rfl⟩,
        not_blocked pf hk5 hI0 hq hc ⟨t, ht, Or.inr (Or.inr (Or.inr rfl))⟩⟩
  obtain ⟨Qn, save, hgs, hQ1, hQ2, hQ3, hQ4⟩ := groupSnpsPos_good pf hk5 hW hw hc acc.2 mNum mDen hg hne hdich
  have hdisj : ∀ q ∈ Qn, q ∉ Called.map (·.1) := by
    intro q hq hcm
    exact ((hQ2 q).mp hq).2.2.2 s0 hs0 (hI0.has q hcm s0 hs0).1
  have hQP : ∀ q ∈ Qn, q ∈ P ∧ c0 ≤ q ∧ q < c0 + len := fun q hq =>
    ⟨((hQ2 q).mp hq).1, ((hQ2 q).mp hq).2.1, ((hQ2 q).mp hq).2.2.1⟩
  have hmapfst : (Qn.map (fun q => (q, false))).map (·.1) = Qn := by
    rw [List.map_map]
    exact List.map_id _
  -- evaluation of the step
  have heval := refStep_eval W (k - 1) S.length mNum mDen col kmap acc (key, vs) h2 Qn
    (fun q => (q - c0, colT S q)) plc save hgs (by
      intro hQne
      obtain ⟨q0, hq0⟩ := List.exists_mem_of_ne_nil Qn hQne
      obtain ⟨pos, fwdO, hsc, hpl⟩ := hF c0 len vs hg h2 ⟨q0, hQP q0 hq0⟩
      refine ⟨pos, fwdO, hsc, ?_⟩
      intro q hq
      obtain ⟨a, b, c⟩ := hQP q hq
      simp only [gg_head_len hg hne]
      exact hpl q a b c) (by
      rw [List.Nodup, List.pairwise_map]
      refine hQ1.imp_of_mem ?_
      intro a b ha hb hab e
      exact hab (hinj a (hQP a ha).1 b (hQP b hb).1 e)) (by
      intro q hq x hx e
      rw [hI.cols] at hx
      obtain ⟨y, hy, rfl⟩ := List.mem_map.mp hx
      have := hinj _ (hI0.sub y hy) q (hQP q hq).1 e
      exact hdisj q hq (this ▸ List.mem_map.mpr ⟨y, hy, rfl⟩))
  refine ⟨Called ++ Qn.map (fun q => (q, false)), _, heval, ⟨⟨?_, ?_, ?_, ?_, rfl⟩, ?_⟩,
    fun x hx => List.mem_append_left _ hx, ?_⟩
  · rw [List.map_append, hmapfst, List.nodup_append]
    exact ⟨hI0.nd, hQ1, fun a ha b hb e => hdisj b hb (e ▸ ha)⟩
  · intro x hx
    rcases List.mem_append.mp hx with h | h
    · exact hI0.sub x h
    · obtain ⟨q, hq, rfl⟩ := List.mem_map.mp h
      exact ((hQ2 q).mp hq).1
  · intro x hx
    rcases List.mem_append.mp hx with h | h
    · obtain ⟨q, hq, hb⟩ := hI0.blk x h
      exact ⟨q, by rw [List.map_append]; exact List.mem_append_left _ hq, hb⟩
    · obtain ⟨q, hq, hb⟩ := hQ3 x h
      exact ⟨q, by rw [List.map_append, hmapfst]; exact List.mem_append_right _ hq, hb⟩
  · intro q hq s hs
    rw [List.map_append, hmapfst, List.mem_append] at hq
    rcases hq with h | h
    · exact ⟨List.mem_append_left _ (hI0.has q h s hs).1, List.mem_append_left _ (hI0.has q h s hs).2⟩
    · exact ⟨List.mem_append_right _ (hQ4 q h s hs).1, List.mem_append_right _ (hQ4 q h s hs).2⟩
  · show acc.1 ++ Qn.map plc = (Called ++ Qn.map (fun q => (q, false))).map (fun x => plc x.1)
    rw [List.map_append, List.map_map, hI.cols]
    rfl
  · intro q hq h1 h2'
    rw [List.map_append, hmapfst, List.mem_append]
    by_cases hc : q ∈ Called.map (·.1)
    · exact Or.inl hc
    · right
      exact (hQ2 q).mpr ⟨hq, h1, h2', fun t ht => not_blocked pf hk5 hI0 hq hc ⟨t, ht, Or.inl rfl⟩⟩

/-- **a group of the other strand** -/
theorem step_rev_ref (pf : PFam k L S P) (hk5 : 5 ≤ k) {W : Nat} (hW : 2 * k ≤ W) (hw : W = 64 ∨ W = 128)
    {col : Colours} (hc : ColOK k L col (rcFam S)) (mNum mDen : Nat) {kmap : List (Nat × List Nat)}
    {plc : Nat → Nat × List UInt8} (hR : AnchR k L S P kmap plc)
    (hinj : ∀ q ∈ P, ∀ q2 ∈ P, (plc q).1 = (plc q2).1 → q = q2)
    {Called : List (Nat × Bool)} {acc : List (Nat × List UInt8) × List Nat} (hI : RInv k S P plc Called acc)
    {c0 len : Nat} {vs : List Variant} (hg : GG k L (rcFam S) (mirrorP L P) c0 len vs) (h2 : 2 ≤ vs.length)
    (key : Nat × Nat) :
    ∃ (Called' : List (Nat × Bool)) (acc' : List (Nat × List UInt8) × List Nat),
      refStepX W (k - 1) S.length mNum mDen col kmap [] acc (key, vs) = some acc' ∧
      RInv k S P plc Called' acc' ∧ (∀ x ∈ Called, x ∈ Called') := by
  obtain ⟨s0, hs0⟩ := List.exists_mem_of_ne_nil S pf.ne
  have hne : vs ≠ [] := by intro e; rw [e] at h2; simp at h2
  have hI0 := hI.inv
  have pf' := pf.mirror
  have hlen' : (rcFam S).length = S.length := by simp [rcFam]
  have hmir : ∀ q' ∈ mirrorP L P, L - 1 - q' ∈ P ∧ L - 1 - (L - 1 - q') = q' := by
    intro q' hq'
    obtain ⟨p, hp, rfl⟩ := (mem_mirrorP L P q').mp hq'
    have := pf.ends p hp
    rw [show L - 1 - (L - 1 - p) = p by omega]
    exact ⟨hp, rfl⟩
  have hkm : ∀ q' ∈ mirrorP L P, ∀ s ∈ S,
      kmerAt k (rcSeq s) (q' - k + 1) = rcKmerAt k s (L - 1 - q') ∧
      rcKmerAt k (rcSeq s) q' = kmerAt k s (L - 1 - q' - k + 1) := by
    intro q' hq' s hs
    obtain ⟨hp, hpp⟩ := hmir q' hq'
    obtain ⟨e1, _, _, e4⟩ := mirror_kmers pf hk5 hp hs
    rw [hpp] at e1 e4
    exact ⟨e1, e4⟩
  have hdich : ∀ q' ∈ mirrorP L P, c0 ≤ q' → q' < c0 + len →
      (∀ t ∈ rcFam S, kmerAt k t (q' - k + 1) ∈ acc.2) ∨
      (∀ t ∈ rcFam S, kmerAt k t (q' - k + 1) ∉ acc.2 ∧ rcKmerAt k t q' ∉ acc.2) := by
    intro q' hq' _ _
    obtain ⟨hp, hpp⟩ := hmir q' hq'
    by_cases hcm : L - 1 - q' ∈ Called.map (·.1)
    · left
      intro t ht
      obtain ⟨s, hs, rfl⟩ := List.mem_map.mp ht
      rw [(hkm q' hq' s hs).1]
      exact (hI0.has _ hcm s hs).2
    · right
      intro t ht
      obtain ⟨s, hs, rfl⟩ := List.mem_map.mp ht
      rw [(hkm q' hq' s hs).1, (hkm q' hq' s hs).2]
      exact ⟨not_blocked pf hk5 hI0 hp hcm ⟨s, hs, Or.inr (Or.inr (Or.inr rfl))⟩,
        not_blocked pf hk5 hI0 hp hcm ⟨s, hs, Or.inl rfl⟩⟩
  obtain ⟨Qn, save, hgs, hQ1, hQ2, hQ3, hQ4⟩ := groupSnpsPos_good pf' hk5 hW hw hc acc.2 mNum mDen hg hne hdich
  rw [hlen'] at hgs
  have hQsub : ∀ q' ∈ Qn, q' ∈ mirrorP L P := fun q' hq' => ((hQ2 q').mp hq').1
  have hQP : ∀ q' ∈ Qn, q' ∈ mirrorP L P ∧ c0 ≤ q' ∧ q' < c0 + len := fun q hq =>
    ⟨((hQ2 q).mp hq).1, ((hQ2 q).mp hq).2.1, ((hQ2 q).mp hq).2.2.1⟩
  have hdisj : ∀ q' ∈ Qn, L - 1 - q' ∉ Called.map (·.1) := by
    intro q' hq' hcm
    have := ((hQ2 q').mp hq').2.2.2 (rcSeq s0) (List.mem_map.mpr ⟨s0, hs0, rfl⟩)
    rw [(hkm q' (hQsub q' hq') s0 hs0).1] at this
    exact this (hI0.has _ hcm s0 hs0).2
  have hmapfst : (Qn.map (fun q' => (L - 1 - q', true))).map (·.1) = Qn.map (fun q' => L - 1 - q') := by
    rw [List.map_map]; rfl
  have hinjm : ∀ a ∈ Qn, ∀ b ∈ Qn, L - 1 - a = L - 1 - b → a = b := by
    intro a ha b hb e
    have h1 := (hmir a (hQsub a ha)).2
    have h2 := (hmir b (hQsub b hb)).2
    rw [← h1, ← h2, e]
  have heval := refStep_eval W (k - 1) S.length mNum mDen col kmap acc (key, vs) h2 Qn
    (fun q' => (q' - c0, colT (rcFam S) q')) (fun q' => plc (L - 1 - q')) save hgs (by
      intro hQne
      obtain ⟨q0, hq0⟩ := List.exists_mem_of_ne_nil Qn hQne
      obtain ⟨pos, fwdO, hsc, hpl⟩ := hR c0 len vs hg h2 ⟨q0, hQP q0 hq0⟩
      refine ⟨pos, fwdO, hsc, ?_⟩
      intro q hq
      obtain ⟨a, b, c⟩ := hQP q hq
      simp only [gg_head_len hg hne]
      exact hpl q a b c) (by
      rw [List.Nodup, List.pairwise_map]
      refine hQ1.imp_of_mem ?_
      intro a b ha hb hab e
      exact hab (hinjm a ha b hb (hinj _ (hmir a (hQsub a ha)).1 _ (hmir b (hQsub b hb)).1 e))) (by
      intro q' hq' x hx e
      rw [hI.cols] at hx
      obtain ⟨y, hy, rfl⟩ := List.mem_map.mp hx
      have := hinj _ (hI0.sub y hy) _ (hmir q' (hQsub q' hq')).1 e
      exact hdisj q' hq' (this ▸ List.mem_map.mpr ⟨y, hy, rfl⟩))
  refine ⟨Called ++ Qn.map (fun q' => (L - 1 - q', true)), _, heval, ⟨⟨?_, ?_, ?_, ?_, rfl⟩, ?_⟩,
    fun x hx => List.mem_append_left _ hx⟩
  · rw [List.map_append, hmapfst, List.nodup_append]
    refine ⟨hI0.nd, ?_, ?_⟩
    · rw [List.Nodup, List.pairwise_map]
      refine hQ1.imp_of_mem ?_
      intro a b ha hb hab e
      exact hab (hinjm a ha b hb e)
    · intro a ha b hb e
      obtain ⟨q', hq', rfl⟩ := List.mem_map.mp hb
      exact hdisj q' hq' (e ▸ ha)
  · intro x hx
    rcases List.mem_append.mp hx with h | h
    · exact hI0.sub x h
    · obtain ⟨q', hq', rfl⟩ := List.mem_map.mp h
      exact (hmir q' (hQsub q' hq')).1
  · intro x hx
    rcases List.mem_append.mp hx with h | h
    · obtain ⟨q, hq, hb⟩ := hI0.blk x h
      exact ⟨q, by rw [List.map_append]; exact List.mem_append_left _ hq, hb⟩
    · obtain ⟨q', hq', hb⟩ := hQ3 x h
      obtain ⟨hp, hpp⟩ := hmir q' (hQsub q' hq')
      refine ⟨L - 1 - q', ?_, ?_⟩
      · rw [List.map_append, hmapfst]
        exact List.mem_append_right _ (List.mem_map.mpr ⟨q', hq', rfl⟩)
      · rw [← blk_mirror pf hk5 hp, hpp]
        exact hb
  · intro q hq s hs
    rw [List.map_append, hmapfst, List.mem_append] at hq
    rcases hq with h | h
    · exact ⟨List.mem_append_left _ (hI0.has q h s hs).1, List.mem_append_left _ (hI0.has q h s hs).2⟩
    · obtain ⟨q', hq', rfl⟩ := List.mem_map.mp h
      obtain ⟨m1, m2⟩ := hQ4 q' hq' (rcSeq s) (List.mem_map.mpr ⟨s, hs, rfl⟩)
      rw [(hkm q' (hQsub q' hq') s hs).1] at m1
      rw [(hkm q' (hQsub q' hq') s hs).2] at m2
      exact ⟨List.mem_append_right _ m2, List.mem_append_right _ m1⟩
  · show acc.1 ++ Qn.map (fun q' => plc (L - 1 - q')) =
      (Called ++ Qn.map (fun q' => (L - 1 - q', true))).map (fun x => plc x.1)
    rw [List.map_append, List.map_map, hI.cols]
    rfl

end SkaModel.LOD
