/-
C18 completeness — the graph of the table of a deletion family in terms of nodes in columns: the node
numbers of the two strands (`nuF`, `nuR`) are injective on the valid nodes and never coincide across the
strands; an edge joins the two nodes of a pair related by `RE`, forwards on the samples' strand and backwards
on the other strand.
-/
import SkaModel.Lemmas.LOEWinEx
import SkaModel.Lemmas.LOEVar

namespace SkaModel.LOE

open SkaModel SkaModel.Spec SkaModel.Props.C16 SkaModel.Skalo SkaModel.Props.C17G SkaModel.LOG SkaModel.LOC

/-- the node number of a list of columns on the samples' strand -/
def nuF (F : List UInt8) (w : List Nat) : Nat := packL (cds (w.map (getF F)))
/-- the node number on the other strand -/
def nuR (F : List UInt8) (w : List Nat) : Nat := packL (rcCodes (cds (w.map (getF F))))

theorem nuF_congr {F : List UInt8} {w w' : List Nat} (e : lets F w = lets F w') : nuF F w = nuF F w' := by
  unfold nuF; unfold lets at e; rw [e]

theorem nuR_congr {F : List UInt8} {w w' : List Nat} (e : lets F w = lets F w') : nuR F w = nuR F w' := by
  unfold nuR; unfold lets at e; rw [e]

theorem getF_base {F : List UInt8} (hb : AllBase F) {x : Nat} (hx : x < F.length) : isBase (getF F x) = true :=
  hb _ (getD_mem' hx)

theorem map_getF_base {F : List UInt8} (hb : AllBase F) {w : List Nat} (hw : ∀ x ∈ w, x < F.length) :
    AllBase (w.map (getF F)) := by
  intro b hbm
  obtain ⟨x, hx, rfl⟩ := List.mem_map.mp hbm
  exact getF_base hb (hw x hx)

theorem dsample_length (F : List UInt8) (B : List (Nat × Nat)) (c : List Bool) :
    (dsample F B c).length = (keepCols F.length B c).length := by
  simp [dsample]

theorem keepCols_lt {N : Nat} {B : List (Nat × Nat)} {c : List Bool} {x : Nat} (hx : x ∈ keepCols N B c) : x < N :=
  ((mem_keepCols N B c x).mp hx).1

theorem cwin_subset {K : List Nat} {j m : Nat} {x : Nat} (hx : x ∈ cwin K j m) : x ∈ K := by
  unfold cwin at hx
  exact List.drop_subset _ _ (List.take_subset _ _ hx)

theorem mem_colWindows (m N : Nat) (B : List (Nat × Nat)) (C : List (List Bool)) (w : List Nat) :
    w ∈ colWindows m N B C ↔ ∃ c ∈ C, ∃ j, j + m ≤ (keepCols N B c).length ∧ w = cwin (keepCols N B c) j m := by
  unfold colWindows cwin
  simp only [List.mem_flatMap, List.mem_map, List.mem_range]
  constructor
  · rintro ⟨c, hc, j, hj, rfl⟩
    exact ⟨c, hc, j, by omega, rfl⟩
  · rintro ⟨c, hc, j, hj, rfl⟩
    exact ⟨c, hc, j, by omega, rfl⟩

namespace DFam

variable {k : Nat} {F : List UInt8} {B : List (Nat × Nat)} {C : List (List Bool)}

theorem vfam (h : DFam k F B C) : VFam (dsamples F B C) := by
  intro s hs
  obtain ⟨c, _, rfl⟩ := List.mem_map.mp hs
  exact map_getF_base h.base (fun x hx => keepCols_lt hx)

/-- the pairs of related nodes are valid -/
theorem re_valid (h : DFam k F B C) {n n' : Nd} (hr : RE k F.length B (shf k F B) n n') :
    n.valid k F.length B (shf k F B) ∧ n'.valid k F.length B (shf k F B) := by
  have hk5 := h.k5
  cases hr with
  | cc x hx => exact ⟨by show x + (k - 1) ≤ F.length; omega, by show x + 1 + (k - 1) ≤ F.length; omega⟩
  | cg t ht =>
    have hb := h.bt ht
    exact ⟨by show bS B t + shf k F B t - (k - 1) + (k - 1) ≤ F.length; omega, ht, by omega, by omega⟩
  | gg t x ht h1 h2 => exact ⟨⟨ht, h1, by omega⟩, ⟨ht, by omega, h2⟩⟩
  | gc t ht =>
    have hb := h.bt ht
    exact ⟨⟨ht, by omega, by omega⟩, by show bE B t + (k - 1) ≤ F.length; omega⟩

theorem cols_length (_h : DFam k F B C) {n : Nd} (hv : n.valid k F.length B (shf k F B)) : (n.cols k B).length = k - 1 := by
  cases n with
  | c x => simp [Nd.cols]
  | g t x =>
    obtain ⟨_, h1, h2⟩ := hv
    simp only [Nd.cols, List.length_append, List.length_range']
    omega

theorem cols_lt (h : DFam k F B C) {n : Nd} (hv : n.valid k F.length B (shf k F B)) : ∀ y ∈ n.cols k B, y < F.length := by
  obtain ⟨c, _, j, _, e⟩ := h.valid_window hv
  intro y hy
  rw [← e] at hy
  exact keepCols_lt (cwin_subset hy)

/-- different valid nodes have different columns -/
theorem cols_inj (h : DFam k F B C) {n n' : Nd} (hv : n.valid k F.length B (shf k F B)) (hv' : n'.valid k F.length B (shf k F B))
    (e : n.cols k B = n'.cols k B) : n = n' := by
  have hk5 := h.k5
  -- a contiguous window is no jumping window
  have hcg : ∀ x t x', (Nd.g t x').valid k F.length B (shf k F B) → Nd.cols k B (.c x) ≠ Nd.cols k B (.g t x') := by
    intro x t x' ⟨ht, h1, h2⟩ e
    have hb := h.bt ht
    simp only [Nd.cols] at e
    have e1 := congrArg (fun l => l[bS B t - x' - 1]?) e
    have e2 := congrArg (fun l => l[bS B t - x']?) e
    rw [List.getElem?_range' (by omega), List.getElem?_append_left (by simp; omega),
      List.getElem?_range' (by omega)] at e1
    rw [List.getElem?_range' (by omega), List.getElem?_append_right (by simp),
      List.length_range', Nat.sub_self, List.getElem?_range' (by omega)] at e2
    simp only [Option.some.injEq] at e1 e2
    omega
  cases n with
  | c x =>
    cases n' with
    | c x' =>
      simp only [Nd.cols] at e
      have := congrArg (fun l => l[0]?) e
      rw [List.getElem?_range' (by omega), List.getElem?_range' (by omega)] at this
      simp only [Option.some.injEq] at this
      rw [show x = x' by omega]
    | g t x' => exact absurd e (hcg x t x' hv')
  | g t x =>
    cases n' with
    | c x' => exact absurd e.symm (hcg x' t x hv)
    | g t' x' =>
      obtain ⟨ht, h1, h2⟩ := hv
      obtain ⟨ht', h1', h2'⟩ := hv'
      simp only [Nd.cols] at e
      have e0 := congrArg (fun l => l[0]?) e
      rw [List.getElem?_append_left (by simp; omega), List.getElem?_append_left (by simp; omega),
        List.getElem?_range' (by omega), List.getElem?_range' (by omega)] at e0
      simp only [Option.some.injEq] at e0
      have hx : x = x' := by omega
      subst hx
      have htt : t = t' := by
        apply Classical.byContradiction
        intro hne
        have hb := h.bt ht
        have hb' := h.bt ht'
        have := h.sep_ne ht ht' hne
        unfold bS bE at *
        omega
      rw [htt]

/-- membership of the columns of a valid node in the window list of the uniqueness hypothesis -/
theorem cols_mem (h : DFam k F B C) {n : Nd} (hv : n.valid k F.length B (shf k F B)) :
    n.cols k B ∈ colWindows (k - 1) F.length B C := by
  obtain ⟨c, hc, j, hj, e⟩ := h.valid_window hv
  exact (mem_colWindows _ _ _ _ _).mpr ⟨c, hc, j, hj, e.symm⟩

/-- the canonical columns of a valid node are its columns -/
theorem canon_valid (h : DFam k F B C) {n : Nd} (hv : n.valid k F.length B (shf k F B)) :
    canonW F (n.cols k B) = n.cols k B := by
  have hk5 := h.k5
  cases n with
  | c x =>
    unfold canonW
    simp only [Nd.cols, List.length_range']
    have hh : (List.range' x (k - 1)).headD 0 = x := by
      obtain ⟨m, hm⟩ : ∃ m, k - 1 = m + 1 := ⟨k - 2, by omega⟩
      rw [hm, List.range'_succ]; rfl
    rw [hh]
    split <;> rfl
  | g t x =>
    obtain ⟨ht, h1, h2⟩ := hv
    have hb := h.bt ht
    unfold canonW
    simp only
    have hlen : (Nd.cols k B (.g t x)).length = k - 1 := by
      simp only [Nd.cols, List.length_append, List.length_range']; omega
    have hh : (Nd.cols k B (.g t x)).headD 0 = x := by
      simp only [Nd.cols]
      obtain ⟨m, hm⟩ : ∃ m, bS B t - x = m + 1 := ⟨bS B t - x - 1, by omega⟩
      rw [hm, List.range'_succ]; rfl
    rw [hlen, hh, if_neg]
    intro e
    rw [beq_iff_eq] at e
    have e1 := congrArg (fun l => l[bS B t - x + shf k F B t]?) e
    simp only [Nd.cols, List.getElem?_map] at e1
    rw [List.getElem?_append_right (by simp), List.length_range', Nat.add_sub_cancel_left,
      List.getElem?_range' (by omega), List.getElem?_range' (by omega)] at e1
    simp only [Nat.one_mul, Option.map_some, Option.some.injEq] at e1
    have hne := h.sh_ne ht
    apply hne
    have e2 : x + (bS B t - x + shf k F B t) = (B.getD t (0, 0)).1 + shf k F B t := by unfold bS at *; omega
    rw [e2] at e1
    exact e1.symm

theorem nuF_inj (h : DFam k F B C) {n n' : Nd} (hv : n.valid k F.length B (shf k F B))
    (hv' : n'.valid k F.length B (shf k F B)) (e : nuF F (n.cols k B) = nuF F (n'.cols k B)) : n = n' := by
  apply h.cols_inj hv hv'
  rw [← h.canon_valid hv, ← h.canon_valid hv']
  apply (h.uniq _ (h.cols_mem hv) _ (h.cols_mem hv')).1
  unfold nuF at e
  exact cds_inj (map_getF_base h.base (h.cols_lt hv)) (map_getF_base h.base (h.cols_lt hv'))
    (packL_inj (cds_codes _) (cds_codes _) (by
      rw [cds_length, cds_length, List.length_map, List.length_map, h.cols_length hv, h.cols_length hv']) e)

theorem nuR_inj (h : DFam k F B C) {n n' : Nd} (hv : n.valid k F.length B (shf k F B))
    (hv' : n'.valid k F.length B (shf k F B)) (e : nuR F (n.cols k B) = nuR F (n'.cols k B)) : n = n' := by
  apply h.cols_inj hv hv'
  rw [← h.canon_valid hv, ← h.canon_valid hv']
  apply (h.uniq _ (h.cols_mem hv) _ (h.cols_mem hv')).1
  unfold nuR at e
  have e1 := packL_inj (rcCodes_codes (cds_codes _)) (rcCodes_codes (cds_codes _)) (by
      rw [rcCodes_length, rcCodes_length, cds_length, cds_length, List.length_map, List.length_map,
        h.cols_length hv, h.cols_length hv']) e
  have e2 := congrArg rcCodes e1
  rw [rcCodes_rcCodes, rcCodes_rcCodes] at e2
  exact cds_inj (map_getF_base h.base (h.cols_lt hv)) (map_getF_base h.base (h.cols_lt hv')) e2

theorem nuF_ne_nuR (h : DFam k F B C) {n n' : Nd} (hv : n.valid k F.length B (shf k F B))
    (hv' : n'.valid k F.length B (shf k F B)) :
    nuF F (n.cols k B) ≠ nuR F (n'.cols k B) := by
  intro e
  apply (h.uniq _ (h.cols_mem hv) _ (h.cols_mem hv')).2
  unfold nuF nuR at e
  have hb' := map_getF_base h.base (h.cols_lt hv')
  rw [← cds_rcSeq hb'] at e
  exact cds_inj (map_getF_base h.base (h.cols_lt hv)) hb'.rcSeq
    (packL_inj (cds_codes _) (cds_codes _) (by
      rw [cds_length, cds_length, rcSeq_length, List.length_map, List.length_map, h.cols_length hv,
        h.cols_length hv']) e)

end DFam

/-- the node numbers of the windows of a sample -/
theorem fN_dsample {k : Nat} (F : List UInt8) (B : List (Nat × Nat)) (c : List Bool) (j : Nat) :
    fN k (dsample F B c) j = nuF F (cwin (keepCols F.length B c) j (k - 1)) := by
  unfold fN nuF dsample
  rw [win_map]

theorem rN_dsample {k : Nat} (F : List UInt8) (B : List (Nat × Nat)) (c : List Bool) (j : Nat) :
    rN k (dsample F B c) j = nuR F (cwin (keepCols F.length B c) j (k - 1)) := by
  unfold rN nuR dsample
  rw [win_map]

namespace DFam

variable {k : Nat} {F : List UInt8} {B : List (Nat × Nat)} {C : List (List Bool)}

/-- **the edges of the graph of a deletion family** -/
theorem edge_iff (h : DFam k F B C) {a : Arr} {names : List String} (ha : IsArrOf a k names (dsamples F B C))
    (hk : ValidK k) {W : Nat} (hw : WidthOk W k) (X Y : Nat) :
    Edge (buildGraph W a).1 X Y ↔ ∃ n n', RE k F.length B (shf k F B) n n' ∧
      ((X = nuF F (n.cols k B) ∧ Y = nuF F (n'.cols k B)) ∨
       (X = nuR F (n'.cols k B) ∧ Y = nuR F (n.cols k B))) := by
  have hk5 := h.k5
  rw [edge_iff_mem_allEdges, mem_allEdges_var ha h.vfam hk hw]
  have hsplit : ∀ (K : List Nat) (j : Nat), cwin K j (k - 1) = (cwin K j k).take (k - 1) ∧
      cwin K (j + 1) (k - 1) = (cwin K j k).drop 1 := by
    intro K j
    exact ⟨(cwin_take K j k (k - 1) (by omega)).symm, (cwin_drop K j k 1).symm⟩
  constructor
  · rintro ⟨s, hs, j, hj, hx⟩
    obtain ⟨c, hc, rfl⟩ := List.mem_map.mp hs
    rw [dsample_length] at hj
    obtain ⟨x, _, hsh⟩ := h.win_class c (by omega) (Nat.le_refl k) hj
    obtain ⟨n, n', hr, e1, e2⟩ := h.shape_edge hsh (fun y hy => keepCols_lt (cwin_subset hy))
    refine ⟨n, n', hr, ?_⟩
    rw [fN_dsample, fN_dsample, rN_dsample, rN_dsample, (hsplit _ j).1, (hsplit _ j).2, nuF_congr e1, nuF_congr e2,
      nuR_congr e1, nuR_congr e2] at hx
    simpa [Prod.mk.injEq] using hx
  · rintro ⟨n, n', hr, hx⟩
    obtain ⟨c, hc, j, hj, e1, e2⟩ := h.re_window hr
    refine ⟨dsample F B c, List.mem_map.mpr ⟨c, hc, rfl⟩, j, by rw [dsample_length]; exact hj, ?_⟩
    rw [fN_dsample, fN_dsample, rN_dsample, rN_dsample, (hsplit _ j).1, (hsplit _ j).2, nuF_congr e1, nuF_congr e2,
      nuR_congr e1, nuR_congr e2]
    simpa [Prod.mk.injEq] using hx

end DFam

end SkaModel.LOE
