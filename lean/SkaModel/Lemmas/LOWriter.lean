/-
Specification of `Skalo.createFastaAndVcf` (the writer of `ska lo`): the SNP
alignment lists the variant columns in position order, the pseudo-genomes are the
sanitised reference with the variant columns substituted at their positions, and
the VCF rows are the variants in position order with the sanitised reference base.

The fold over positions is analysed through a standalone step function `step`
(definitionally the one of the model) and the invariant `fold_inv`.
-/
import SkaModel.Impl.Skalo
import SkaModel.Lemmas.LOWriterSort

namespace SkaModel.LOW
open SkaModel SkaModel.Skalo

/-- sanitised reference base -/
def san (b : UInt8) : UInt8 := if isACGT b || b == 78 then b else 78

abbrev St := List (List UInt8) × List (List UInt8) × List (Nat × UInt8 × List UInt8) × Nat

/-- the step function of the fold of `createFastaAndVcf` -/
def step (g : List UInt8) (sorted : List (Nat × List UInt8)) (st : St) (pos : Nat) : St :=
  match sorted[st.2.2.2]? with
  | some (p, col) =>
    if p == pos then
      if !g.isEmpty then
        (st.1.zipIdx.map (fun si => si.1 ++ [col.getD si.2 45]),
         st.2.1.zipIdx.map (fun si => si.1 ++ [col.getD si.2 45]),
         st.2.2.1 ++ [(p, g.getD p 0, col)], st.2.2.2 + 1)
      else (st.1.zipIdx.map (fun si => si.1 ++ [col.getD si.2 45]), st.2.1, st.2.2.1, st.2.2.2 + 1)
    else if !g.isEmpty then (st.1, st.2.1.map (fun s => s ++ [g.getD pos 0]), st.2.2.1, st.2.2.2)
    else st
  | none =>
    if !g.isEmpty then (st.1, st.2.1.map (fun s => s ++ [g.getD pos 0]), st.2.2.1, st.2.2.2)
    else st

/-- number of positions walked -/
def finalLen (g : List UInt8) (sorted : List (Nat × List UInt8)) : Nat :=
  if !g.isEmpty then g.length else (match sorted.getLast? with | some v => v.1 + 1 | none => 0)

/-- `createFastaAndVcf` in terms of `step` -/
theorem createFastaAndVcf_eq (genome : List UInt8) (n : Nat) (variants : List (Nat × List UInt8)) :
    createFastaAndVcf genome n variants =
      let g := genome.map san
      let sorted := sortByKey (·.1) variants
      let r := (List.range (finalLen g sorted)).foldl (step g sorted)
        (List.replicate n [], List.replicate n [], [], 0)
      { snpSeqs := r.1, pseudo := if g.isEmpty then none else some r.2.1, vcf := r.2.2.1 } := by
  rfl

/-! ### list helpers -/

theorem zipIdx_map_snoc (n : Nat) (G : Nat → List UInt8) (f : Nat → UInt8) :
    (((List.range n).map G).zipIdx.map (fun si => si.1 ++ [f si.2]))
      = (List.range n).map (fun i => G i ++ [f i]) := by
  apply List.ext_getElem?
  intro j
  simp only [List.getElem?_map, List.getElem?_zipIdx, Nat.zero_add]
  by_cases h : j < n
  · simp [h]
  · simp [h]

theorem map_map_snoc (n : Nat) (G : Nat → List UInt8) (c : UInt8) :
    (((List.range n).map G).map (fun s => s ++ [c]))
      = (List.range n).map (fun i => G i ++ [c]) := by
  rw [List.map_map]; rfl

theorem replicate_nil_eq (n : Nat) (G : Nat → List UInt8) (h : ∀ i, G i = []) :
    List.replicate n ([] : List UInt8) = (List.range n).map G := by
  apply List.ext_getElem?
  intro j
  simp only [List.getElem?_map, List.getElem?_replicate]
  by_cases hj : j < n
  · simp [hj, h]
  · simp [hj]

/-! ### the closed forms of the three outputs -/

/-- the SNP alignment of the variants `l` -/
def seqsOf (n : Nat) (l : List (Nat × List UInt8)) : List (List UInt8) :=
  (List.range n).map (fun i => l.map (fun v => v.2.getD i 45))

/-- character of sample `i` at position `p` of its pseudo-genome -/
def charAt (g : List UInt8) (sorted : List (Nat × List UInt8)) (i p : Nat) : UInt8 :=
  match sorted.find? (fun v => v.1 == p) with
  | some v => v.2.getD i 45
  | none => g.getD p 0

def pseudoOf (g : List UInt8) (sorted : List (Nat × List UInt8)) (n q : Nat) : List (List UInt8) :=
  (List.range n).map (fun i => (List.range q).map (charAt g sorted i))

def vcfOf (g : List UInt8) (l : List (Nat × List UInt8)) : List (Nat × UInt8 × List UInt8) :=
  l.map (fun v => (v.1, g.getD v.1 0, v.2))

theorem seqsOf_nil (n : Nat) : seqsOf n [] = List.replicate n [] :=
  (replicate_nil_eq n _ (fun _ => rfl)).symm

theorem pseudoOf_zero (g : List UInt8) (sorted : List (Nat × List UInt8)) (n : Nat) :
    pseudoOf g sorted n 0 = List.replicate n [] :=
  (replicate_nil_eq n _ (fun _ => rfl)).symm

theorem seqsOf_snoc (n : Nat) (l : List (Nat × List UInt8)) (v : Nat × List UInt8) :
    seqsOf n (l ++ [v]) = (seqsOf n l).zipIdx.map (fun si => si.1 ++ [v.2.getD si.2 45]) := by
  unfold seqsOf
  rw [zipIdx_map_snoc n _ (fun i => v.2.getD i 45)]
  simp only [List.map_append, List.map_cons, List.map_nil]

theorem pseudoOf_succ (g : List UInt8) (sorted : List (Nat × List UInt8)) (n q : Nat) :
    pseudoOf g sorted n (q + 1)
      = (List.range n).map (fun i => (List.range q).map (charAt g sorted i) ++ [charAt g sorted i q]) := by
  unfold pseudoOf
  simp only [List.range_succ, List.map_append, List.map_cons, List.map_nil]

/-- a position carrying the variant `v`: the column is substituted -/
theorem pseudoOf_succ_hit (g : List UInt8) (sorted : List (Nat × List UInt8)) (n q : Nat)
    (v : Nat × List UInt8) (hv : sorted.find? (fun w => w.1 == q) = some v) :
    pseudoOf g sorted n (q + 1)
      = (pseudoOf g sorted n q).zipIdx.map (fun si => si.1 ++ [v.2.getD si.2 45]) := by
  rw [pseudoOf_succ]
  unfold pseudoOf
  rw [zipIdx_map_snoc n _ (fun i => v.2.getD i 45)]
  simp only [charAt, hv]

/-- a position without variant: the reference base is copied -/
theorem pseudoOf_succ_miss (g : List UInt8) (sorted : List (Nat × List UInt8)) (n q : Nat)
    (hv : sorted.find? (fun w => w.1 == q) = none) :
    pseudoOf g sorted n (q + 1)
      = (pseudoOf g sorted n q).map (fun s => s ++ [g.getD q 0]) := by
  rw [pseudoOf_succ]
  unfold pseudoOf
  rw [List.map_map]
  simp only [charAt, hv]
  rfl

/-! ### strictly sorted lists of variants -/

abbrev SSorted (l : List (Nat × List UInt8)) : Prop := l.Pairwise (fun a b => a.1 < b.1)

theorem eq_of_key_eq {l : List (Nat × List UInt8)} (h : SSorted l) {a b : Nat × List UInt8}
    (ha : a ∈ l) (hb : b ∈ l) (e : a.1 = b.1) : a = b := by
  induction l with
  | nil => cases ha
  | cons x xs ih =>
    rw [SSorted, List.pairwise_cons] at h
    rcases List.mem_cons.1 ha with ha | ha <;> rcases List.mem_cons.1 hb with hb | hb
    · rw [ha, hb]
    · have := h.1 b hb; rw [← ha] at this; omega
    · have := h.1 a ha; rw [← hb] at this; omega
    · exact ih h.2 ha hb

theorem find_of_mem {l : List (Nat × List UInt8)} (h : SSorted l) {v : Nat × List UInt8}
    (hv : v ∈ l) : l.find? (fun w => w.1 == v.1) = some v := by
  cases hf : l.find? (fun w => w.1 == v.1) with
  | none =>
    have := List.find?_eq_none.1 hf v hv
    simp at this
  | some w =>
    have hw := List.mem_of_find?_eq_some hf
    have he : w.1 = v.1 := by simpa using List.find?_some hf
    rw [eq_of_key_eq h hw hv he]

theorem find_none_of_forall {l : List (Nat × List UInt8)} {q : Nat} (h : ∀ v ∈ l, v.1 ≠ q) :
    l.find? (fun w => w.1 == q) = none := by
  rw [List.find?_eq_none]
  intro x hx
  simpa using h x hx

/-- elements after index `idx` are larger than the element at `idx` -/
theorem lt_of_mem_drop_succ {l : List (Nat × List UInt8)} (h : SSorted l) {idx : Nat}
    (hi : idx < l.length) : ∀ v ∈ l.drop (idx + 1), l[idx].1 < v.1 := by
  have hsplit : l = l.take idx ++ l[idx] :: l.drop (idx + 1) := by
    rw [← List.drop_eq_getElem_cons hi, List.take_append_drop]
  rw [SSorted, hsplit, List.pairwise_append, List.pairwise_cons] at h
  exact h.2.1.1

/-- all elements of a sorted list are at most its last element -/
theorem le_getLast {l : List (Nat × List UInt8)} (h : SSorted l) {z : Nat × List UInt8}
    (hz : l.getLast? = some z) : ∀ v ∈ l, v.1 ≤ z.1 := by
  obtain ⟨ys, hys⟩ := List.getLast?_eq_some_iff.1 hz
  rw [SSorted, hys, List.pairwise_append] at h
  intro v hv
  rw [hys, List.mem_append] at hv
  rcases hv with hv | hv
  · exact Nat.le_of_lt (h.2.2 v hv z (List.mem_singleton.2 rfl))
  · rw [List.mem_singleton.1 hv]; exact Nat.le_refl _

/-! ### the step function, case by case -/

theorem step_hit (g : List UInt8) (sorted : List (Nat × List UInt8))
    (a b : List (List UInt8)) (c : List (Nat × UInt8 × List UInt8)) (idx pos : Nat)
    (v : Nat × List UInt8) (hget : sorted[idx]? = some v) (hp : v.1 = pos) :
    step g sorted (a, b, c, idx) pos =
      if g.isEmpty then (a.zipIdx.map (fun si => si.1 ++ [v.2.getD si.2 45]), b, c, idx + 1)
      else (a.zipIdx.map (fun si => si.1 ++ [v.2.getD si.2 45]),
            b.zipIdx.map (fun si => si.1 ++ [v.2.getD si.2 45]),
            c ++ [(v.1, g.getD v.1 0, v.2)], idx + 1) := by
  obtain ⟨p, col⟩ := v
  simp only at hp
  unfold step
  simp only [hget, hp, beq_self_eq_true, if_true]
  cases g.isEmpty <;> rfl

theorem step_miss (g : List UInt8) (sorted : List (Nat × List UInt8))
    (a b : List (List UInt8)) (c : List (Nat × UInt8 × List UInt8)) (idx pos : Nat)
    (hget : ∀ v, sorted[idx]? = some v → v.1 ≠ pos) :
    step g sorted (a, b, c, idx) pos =
      if g.isEmpty then (a, b, c, idx)
      else (a, b.map (fun s => s ++ [g.getD pos 0]), c, idx) := by
  unfold step
  cases hs : sorted[idx]? with
  | none => simp only; cases g.isEmpty <;> rfl
  | some v =>
    obtain ⟨p, col⟩ := v
    have hne : (p == pos) = false := by simpa using hget _ hs
    simp only [hne]
    cases g.isEmpty <;> rfl

/-! ### the invariant of the fold -/

/-- state after walking the positions `< q`, having consumed `idx` variants -/
def stateAt (g : List UInt8) (sorted : List (Nat × List UInt8)) (n q idx : Nat) : St :=
  (seqsOf n (sorted.take idx),
   if g.isEmpty then List.replicate n [] else pseudoOf g sorted n q,
   if g.isEmpty then [] else vcfOf g (sorted.take idx),
   idx)

theorem step_inv (g : List UInt8) (sorted : List (Nat × List UInt8)) (n : Nat) (hs : SSorted sorted)
    (q idx : Nat) (hle : idx ≤ sorted.length)
    (h1 : ∀ v ∈ sorted.take idx, v.1 < q) (h2 : ∀ v ∈ sorted.drop idx, q ≤ v.1) :
    ∃ idx', idx' ≤ sorted.length ∧
      (∀ v ∈ sorted.take idx', v.1 < q + 1) ∧ (∀ v ∈ sorted.drop idx', q + 1 ≤ v.1) ∧
      step g sorted (stateAt g sorted n q idx) q = stateAt g sorted n (q + 1) idx' := by
  by_cases hhit : ∃ v, sorted[idx]? = some v ∧ v.1 = q
  · -- the variant at `idx` sits at position `q`
    obtain ⟨v, hget, hvq⟩ := hhit
    obtain ⟨hi, hv⟩ := List.getElem?_eq_some_iff.1 hget
    have hmem : v ∈ sorted := hv ▸ List.getElem_mem hi
    have htake : sorted.take (idx + 1) = sorted.take idx ++ [v] := by
      rw [← hv, List.take_append_getElem hi]
    refine ⟨idx + 1, hi, ?_, ?_, ?_⟩
    · intro w hw
      rw [htake, List.mem_append] at hw
      rcases hw with hw | hw
      · exact Nat.lt_succ_of_lt (h1 w hw)
      · rw [List.mem_singleton.1 hw, hvq]; exact Nat.lt_succ_self q
    · intro w hw
      have := lt_of_mem_drop_succ hs hi w hw
      rw [hv, hvq] at this
      exact this
    · have hfind : sorted.find? (fun w => w.1 == q) = some v := by
        rw [← hvq]; exact find_of_mem hs hmem
      unfold stateAt
      rw [step_hit g sorted _ _ _ idx q v hget hvq, htake, seqsOf_snoc,
        pseudoOf_succ_hit g sorted n q v hfind]
      cases g.isEmpty
      · simp only [vcfOf, List.map_append, List.map_cons, List.map_nil]
        rfl
      · rfl
  · -- no variant at position `q`
    have hmiss : ∀ v, sorted[idx]? = some v → v.1 ≠ q := fun v hv hq => hhit ⟨v, hv, hq⟩
    have hdrop : ∀ v ∈ sorted.drop idx, q + 1 ≤ v.1 := by
      intro w hw
      by_cases hi : idx < sorted.length
      · rw [List.drop_eq_getElem_cons hi, List.mem_cons] at hw
        have hge : q ≤ sorted[idx].1 := h2 _ (by
          rw [List.drop_eq_getElem_cons hi]; exact List.mem_cons_self)
        have hne : sorted[idx].1 ≠ q := hmiss _ (List.getElem?_eq_getElem hi)
        rcases hw with hw | hw
        · rw [hw]; omega
        · have := lt_of_mem_drop_succ hs hi w hw; omega
      · rw [List.drop_eq_nil_of_le (Nat.le_of_not_lt hi)] at hw
        cases hw
    have hnone : sorted.find? (fun w => w.1 == q) = none := by
      apply find_none_of_forall
      intro w hw hq
      rw [← List.take_append_drop idx sorted, List.mem_append] at hw
      rcases hw with hw | hw
      · have := h1 w hw; omega
      · have := hdrop w hw; omega
    refine ⟨idx, hle, fun w hw => Nat.lt_succ_of_lt (h1 w hw), hdrop, ?_⟩
    unfold stateAt
    rw [step_miss g sorted _ _ _ idx q hmiss, pseudoOf_succ_miss g sorted n q hnone]
    cases g.isEmpty <;> rfl

/-- the invariant: after walking the positions `< q` exactly the variants at positions `< q`
have been consumed, and the three outputs are the closed forms over them -/
theorem fold_inv (g : List UInt8) (sorted : List (Nat × List UInt8)) (n : Nat) (hs : SSorted sorted)
    (q : Nat) :
    ∃ idx, idx ≤ sorted.length ∧
      (∀ v ∈ sorted.take idx, v.1 < q) ∧ (∀ v ∈ sorted.drop idx, q ≤ v.1) ∧
      (List.range q).foldl (step g sorted) (List.replicate n [], List.replicate n [], [], 0)
        = stateAt g sorted n q idx := by
  induction q with
  | zero =>
    refine ⟨0, Nat.zero_le _, ?_, ?_, ?_⟩
    · intro v hv; rw [List.take_zero] at hv; cases hv
    · intro v _; exact Nat.zero_le _
    · unfold stateAt
      rw [List.take_zero, seqsOf_nil, pseudoOf_zero]
      cases g.isEmpty <;> rfl
  | succ q ih =>
    obtain ⟨idx, hle, h1, h2, hfold⟩ := ih
    obtain ⟨idx', hle', h1', h2', hstep⟩ := step_inv g sorted n hs q idx hle h1 h2
    refine ⟨idx', hle', h1', h2', ?_⟩
    rw [List.range_succ, List.foldl_append, hfold, List.foldl_cons, List.foldl_nil, hstep]

/-- the complete walk: when all variants lie below `len`, all of them are consumed -/
theorem fold_final (g : List UInt8) (sorted : List (Nat × List UInt8)) (n : Nat) (hs : SSorted sorted)
    (len : Nat) (hlen : ∀ v ∈ sorted, v.1 < len) :
    (List.range len).foldl (step g sorted) (List.replicate n [], List.replicate n [], [], 0)
      = (seqsOf n sorted,
         if g.isEmpty then List.replicate n [] else pseudoOf g sorted n len,
         if g.isEmpty then [] else vcfOf g sorted,
         sorted.length) := by
  obtain ⟨idx, hle, _, h2, hfold⟩ := fold_inv g sorted n hs len
  have hidx : sorted.length ≤ idx := by
    apply Nat.le_of_not_lt
    intro hi
    have := h2 sorted[idx] (by rw [List.drop_eq_getElem_cons hi]; exact List.mem_cons_self)
    have := hlen sorted[idx] (List.getElem_mem hi)
    omega
  have htake : sorted.take idx = sorted := List.take_of_length_le hidx
  rw [hfold]
  unfold stateAt
  rw [htake, Nat.le_antisymm hle hidx]

/-! ### closed form of `createFastaAndVcf` -/

theorem getD_map_san (genome : List UInt8) (q : Nat) (hq : q < genome.length) :
    (genome.map san).getD q 0 = san (genome.getD q 0) := by
  simp [List.getD_eq_getElem?_getD, List.getElem?_map, List.getElem?_eq_getElem hq]

theorem finalLen_spec (g : List UInt8) (sorted : List (Nat × List UInt8)) (hs : SSorted sorted)
    (hpos : g.isEmpty = false → ∀ v ∈ sorted, v.1 < g.length) :
    ∀ v ∈ sorted, v.1 < finalLen g sorted := by
  intro v hv
  unfold finalLen
  cases hg : g.isEmpty with
  | false => simpa using hpos hg v hv
  | true =>
    simp only [Bool.not_true, Bool.false_eq_true, if_false]
    cases hl : sorted.getLast? with
    | none => rw [List.getLast?_eq_none_iff.1 hl] at hv; cases hv
    | some z => exact Nat.lt_succ_of_le (le_getLast hs hl v hv)

/-- closed form of the writer's output -/
theorem createFastaAndVcf_closed (genome : List UInt8) (n : Nat) (variants : List (Nat × List UInt8))
    (hnd : (variants.map (·.1)).Nodup)
    (hpos : genome ≠ [] → ∀ v ∈ variants, v.1 < genome.length) :
    createFastaAndVcf genome n variants =
      { snpSeqs := seqsOf n (sortByKey (·.1) variants),
        pseudo := if genome.isEmpty then none
          else some (pseudoOf (genome.map san) (sortByKey (·.1) variants) n genome.length),
        vcf := if genome.isEmpty then [] else vcfOf (genome.map san) (sortByKey (·.1) variants) } := by
  have hs : SSorted (sortByKey (·.1) variants) := sortByKey_strictSorted (·.1) variants hnd
  have hge : (genome.map san).isEmpty = genome.isEmpty := by cases genome <;> rfl
  have hlen := finalLen_spec (genome.map san) (sortByKey (·.1) variants) hs (by
    intro hg v hv
    rw [List.length_map]
    refine hpos ?_ v ((mem_sortByKey _ _ _).1 hv)
    intro h0; rw [h0] at hg; cases hg)
  rw [createFastaAndVcf_eq]
  simp only
  rw [fold_final (genome.map san) (sortByKey (·.1) variants) n hs _ hlen]
  simp only [hge]
  cases hg : genome.isEmpty with
  | true => rfl
  | false =>
    have : finalLen (genome.map san) (sortByKey (·.1) variants) = genome.length := by
      unfold finalLen; rw [hge, hg, List.length_map]; rfl
    rw [this]; rfl

/-! ### the specification -/

theorem seqsOf_length (n : Nat) (l : List (Nat × List UInt8)) : (seqsOf n l).length = n := by
  simp [seqsOf]

theorem seqsOf_getElem? (n : Nat) (l : List (Nat × List UInt8)) (i : Nat) (hi : i < n) :
    (seqsOf n l)[i]? = some (l.map (fun v => v.2.getD i 45)) := by
  simp [seqsOf, List.getElem?_map, List.getElem?_range hi]

theorem pseudoOf_length (g : List UInt8) (sorted : List (Nat × List UInt8)) (n q : Nat) :
    (pseudoOf g sorted n q).length = n := by
  simp [pseudoOf]

theorem pseudoOf_getElem? (g : List UInt8) (sorted : List (Nat × List UInt8)) (n q i : Nat)
    (hi : i < n) :
    (pseudoOf g sorted n q)[i]? = some ((List.range q).map (charAt g sorted i)) := by
  simp [pseudoOf, List.getElem?_map, List.getElem?_range hi]

/-- Specification of `createFastaAndVcf`. (The hypothesis that all columns have `n`
entries is not needed: short columns are padded with `-` by the model.) -/
theorem writer_spec' (genome : List UInt8) (n : Nat) (variants : List (Nat × List UInt8))
    (hnd : (variants.map (·.1)).Nodup)
    (hpos : genome ≠ [] → ∀ v ∈ variants, v.1 < genome.length) :
    let o := createFastaAndVcf genome n variants
    let sorted := sortByKey (·.1) variants
    (o.snpSeqs.length = n ∧ ∀ i, i < n → o.snpSeqs[i]? = some (sorted.map (fun v => v.2.getD i 45)))
    ∧ (genome ≠ [] →
        (∃ ps, o.pseudo = some ps ∧ ps.length = n ∧
          ∀ i, i < n → ∃ s, ps[i]? = some s ∧ s.length = genome.length ∧
            ∀ q, q < genome.length →
              (∀ v ∈ variants, v.1 = q → s[q]? = some (v.2.getD i 45)) ∧
              ((∀ v ∈ variants, v.1 ≠ q) → s[q]? = some (san (genome.getD q 0))))
        ∧ o.vcf = sorted.map (fun v => (v.1, san (genome.getD v.1 0), v.2)))
    ∧ (genome = [] → o.pseudo = none ∧ o.vcf = []) := by
  intro o sorted
  have ho : o = _ := createFastaAndVcf_closed genome n variants hnd hpos
  have hs : SSorted sorted := sortByKey_strictSorted (·.1) variants hnd
  have hmem : ∀ v, v ∈ sorted ↔ v ∈ variants := fun v => mem_sortByKey _ _ _
  refine ⟨?_, ?_, ?_⟩
  · rw [ho]
    exact ⟨seqsOf_length n _, fun i hi => seqsOf_getElem? n _ i hi⟩
  · intro hg
    have hge : genome.isEmpty = false := by
      cases genome with
      | nil => exact absurd rfl hg
      | cons _ _ => rfl
    rw [ho]
    simp only [hge, Bool.false_eq_true, if_false]
    refine ⟨⟨_, rfl, pseudoOf_length _ _ _ _, ?_⟩, ?_⟩
    · intro i hi
      refine ⟨_, pseudoOf_getElem? _ _ _ _ i hi, by simp, ?_⟩
      intro q hq
      have hget : ((List.range genome.length).map (charAt (genome.map san) sorted i))[q]?
          = some (charAt (genome.map san) sorted i q) := by
        simp [List.getElem?_map, List.getElem?_range hq]
      refine ⟨?_, ?_⟩
      · intro v hv hvq
        rw [hget]
        have := find_of_mem hs ((hmem v).2 hv)
        rw [hvq] at this
        simp only [charAt, this]
      · intro hno
        rw [hget]
        have : sorted.find? (fun w => w.1 == q) = none :=
          find_none_of_forall (fun w hw => hno w ((hmem w).1 hw))
        simp only [charAt, this]
        rw [getD_map_san genome q hq]
    · unfold vcfOf
      apply List.map_congr_left
      intro v hv
      rw [getD_map_san genome v.1 (hpos hg v ((hmem v).1 hv))]
  · intro hg
    rw [ho, hg]
    exact ⟨rfl, rfl⟩

/-- Specification of `createFastaAndVcf`, as stated in the task (with the unused
hypothesis on the column lengths). -/
theorem writer_spec (genome : List UInt8) (n : Nat) (variants : List (Nat × List UInt8))
    (hnd : (variants.map (·.1)).Nodup)
    (_hcol : ∀ v ∈ variants, v.2.length = n)
    (hpos : genome ≠ [] → ∀ v ∈ variants, v.1 < genome.length) :
    let o := createFastaAndVcf genome n variants
    let sorted := sortByKey (·.1) variants
    (o.snpSeqs.length = n ∧ ∀ i, i < n → o.snpSeqs[i]? = some (sorted.map (fun v => v.2.getD i 45)))
    ∧ (genome ≠ [] →
        (∃ ps, o.pseudo = some ps ∧ ps.length = n ∧
          ∀ i, i < n → ∃ s, ps[i]? = some s ∧ s.length = genome.length ∧
            ∀ q, q < genome.length →
              (∀ v ∈ variants, v.1 = q → s[q]? = some (v.2.getD i 45)) ∧
              ((∀ v ∈ variants, v.1 ≠ q) → s[q]? = some (san (genome.getD q 0))))
        ∧ o.vcf = sorted.map (fun v => (v.1, san (genome.getD v.1 0), v.2)))
    ∧ (genome = [] → o.pseudo = none ∧ o.vcf = []) :=
  writer_spec' genome n variants hnd hpos

/-! ### non-vacuity -/

example :
    createFastaAndVcf [65, 67, 71, 84, 88] 2 [(3, [65, 67]), (1, [71, 45])]
      = { snpSeqs := [[71, 65], [45, 67]],
          pseudo := some [[65, 71, 71, 65, 78], [65, 45, 71, 67, 78]],
          vcf := [(1, 67, [71, 45]), (3, 84, [65, 67])] } := by decide +kernel

example :
    createFastaAndVcf [] 2 [(3, [65, 67]), (1, [71, 45])]
      = { snpSeqs := [[71, 65], [45, 67]], pseudo := none, vcf := [] } := by decide +kernel


end SkaModel.LOW
