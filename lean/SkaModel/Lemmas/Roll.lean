/-
Number-level lemmas for the rolling split k-mer updates: each `roll_fwd`
assignment and `update_rc`, phrased over packed lists of codes.
-/
import SkaModel.Lemmas.Pack
import SkaModel.Lemmas.Codec
import SkaModel.Lemmas.RevComp

namespace SkaModel

open SkaModel.Spec

/-! ### `codesAt` -/

theorem codesAt_length (seq : Array UInt8) (a n : Nat) : (codesAt seq a n).length = n := by
  simp [codesAt]

theorem codesAt_codes (seq : Array UInt8) (a n : Nat) : Codes (codesAt seq a n) :=
  Codes.map_of _ _ (fun _ => code_lt _)

theorem codesAt_zero (seq : Array UInt8) (a : Nat) : codesAt seq a 0 = [] := rfl

theorem codesAt_succ_snoc (seq : Array UInt8) (a n : Nat) :
    codesAt seq a (n + 1) = codesAt seq a n ++ [code (seq.getD (a + n) 0)] := by
  simp [codesAt, List.range_succ]

theorem codesAt_succ_cons (seq : Array UInt8) (a n : Nat) :
    codesAt seq a (n + 1) = code (seq.getD a 0) :: codesAt seq (a + 1) n := by
  simp only [codesAt, List.range_succ_eq_map, List.map_cons, List.map_map, Nat.add_zero]
  congr 1
  apply List.map_congr_left
  intro t _
  simp only [Function.comp, Nat.succ_eq_add_one]
  rw [Nat.add_assoc, Nat.add_comm 1 t]

/-! ### small arithmetic facts -/

theorem four_pow_succ' (n : Nat) : 4 ^ (n + 1) = 4 * 4 ^ n := by
  rw [Nat.pow_succ, Nat.mul_comm]

theorem or_mul_four_pow (a b h : Nat) : a * 4 ^ h ||| b * 4 ^ h = (a ||| b) * 4 ^ h := by
  rw [four_pow, ← Nat.shiftLeft_eq, ← Nat.shiftLeft_eq, ← Nat.shiftLeft_eq,
    Nat.shiftLeft_or_distrib]

theorem shl_four_pow {W x h m : Nat} (hx : x < 4 ^ m) (hW : 2 * (m + h) ≤ W) :
    shl W x (h * 2) = x * 4 ^ h := by
  rw [shl_eq_mul, two_pow_double]
  rw [two_pow_double]
  calc x * 4 ^ h < 4 ^ m * 4 ^ h := Nat.mul_lt_mul_of_pos_right hx (Nat.pow_pos (by omega))
    _ = 4 ^ (m + h) := (Nat.pow_add _ _ _).symm
    _ ≤ 2 ^ W := four_pow_le_of hW

theorem shr_four_pow (x h : Nat) : x >>> (2 * h) = x / 4 ^ h := by
  rw [Nat.shiftRight_eq_div_pow, four_pow]

theorem shr_two (x : Nat) : x >>> 2 = x / 4 := by
  rw [Nat.shiftRight_eq_div_pow]

/-! ### the `roll_fwd` assignments -/

/-- `upper = (upper << 2 | middle << 2h) & upper_mask` -/
theorem roll_upper (W h a0 m : Nat) (A' : List Nat) (ha0 : a0 < 4) (hA : Codes A') (hm : m < 4)
    (hlen : A'.length + 1 = h) (hW : 2 * (2 * h + 1) ≤ W) :
    (shl W (packL (a0 :: A') * 4 ^ h) 2 ||| shl W m (h * 2)) &&& ((4 ^ h - 1) * 4 ^ h)
      = packL (A' ++ [m]) * 4 ^ h := by
  have hA1 : Codes (a0 :: A') := hA.cons ha0
  have hP : packL (a0 :: A') < 4 ^ h := by
    have := packL_lt hA1; rwa [List.length_cons, hlen] at this
  have hPh : packL (a0 :: A') * 4 ^ h < 4 ^ (h + h) := by
    rw [Nat.pow_add]; exact Nat.mul_lt_mul_of_pos_right hP (Nat.pow_pos (by omega))
  rw [shl_two hPh (by omega), shl_four_pow (m := 1) (by omega) (by omega)]
  rw [← Nat.mul_assoc, or_mul_four_pow, or_code hm, ← packL_snoc, and_upMask,
    Nat.mul_div_cancel _ (Nat.pow_pos (by omega))]
  have hAm : Codes (A' ++ [m]) := hA.append (Codes.cons hm Codes.nil)
  have := packL_append_mod (a := [a0]) hAm
  rw [List.length_append, List.length_singleton, hlen] at this
  rw [List.cons_append, ← List.singleton_append, this]

/-- `middle_base = (lower >> 2(h-1)) as u8` -/
theorem roll_mid (h b0 : Nat) (L' : List Nat) (hb0 : b0 < 4) (hL : Codes L')
    (hlen : L'.length + 1 = h) :
    (packL (b0 :: L') >>> (2 * (h - 1))) % 256 = b0 := by
  rw [shr_four_pow]
  have := packL_append_div (a := [b0]) hL
  rw [show L'.length = h - 1 by omega] at this
  rw [← List.singleton_append, this, packL_singleton]
  omega

/-- `lower = ((lower << 2) | new_base) & lower_mask` -/
theorem roll_lower (W h b0 nb : Nat) (L' : List Nat) (hb0 : b0 < 4) (hL : Codes L') (hnb : nb < 4)
    (hlen : L'.length + 1 = h) (hW : 2 * (h + 1) ≤ W) :
    (shl W (packL (b0 :: L')) 2 ||| nb) &&& (4 ^ h - 1) = packL (L' ++ [nb]) := by
  have hL1 : Codes (b0 :: L') := hL.cons hb0
  have hP : packL (b0 :: L') < 4 ^ h := by
    have := packL_lt hL1; rwa [List.length_cons, hlen] at this
  rw [shl_two hP hW, or_code hnb, ← packL_snoc, and_lowMask]
  have hLn : Codes (L' ++ [nb]) := hL.append (Codes.cons hnb Codes.nil)
  have := packL_append_mod (a := [b0]) hLn
  rw [List.length_append, List.length_singleton, hlen] at this
  rw [List.cons_append, ← List.singleton_append, this]

/-- `rc_lower = (rc_lower >> 2 | rc_middle << 2(h-1)) & lower_mask` -/
theorem roll_rcLower (W h a0 m : Nat) (A' : List Nat) (ha0 : a0 < 4) (hA : Codes A') (hm : m < 4)
    (hlen : A'.length + 1 = h) (hW : 2 * h ≤ W) :
    ((packL (rcCodes (a0 :: A')) >>> 2) ||| shl W (m ^^^ 2) (2 * (h - 1))) &&& (4 ^ h - 1)
      = packL (rcCodes (A' ++ [m])) := by
  have hm' : m ^^^ 2 < 4 := xor2_lt hm
  have hR : Codes (rcCodes A') := rcCodes_codes hA
  have hRl : (rcCodes A').length = h - 1 := by rw [rcCodes_length]; omega
  have hRlt : packL (rcCodes A') < 4 ^ (h - 1) := by rw [← hRl]; exact packL_lt hR
  rw [rcCodes_cons, rcCodes_snoc, Nat.mul_comm 2 (h - 1),
    shl_four_pow (m := 1) (by omega) (by omega)]
  have hdiv := packL_append_div (a := rcCodes A') (b := [a0 ^^^ 2])
    (Codes.cons (xor2_lt ha0) Codes.nil)
  rw [List.length_singleton, Nat.pow_one] at hdiv
  rw [shr_two, hdiv]
  rw [Nat.or_comm, mul_four_pow_or hRlt, and_lowMask, packL_cons, hRl]
  apply Nat.mod_eq_of_lt
  have : (m ^^^ 2) * 4 ^ (h - 1) ≤ 3 * 4 ^ (h - 1) := Nat.mul_le_mul_right _ (by omega)
  have e : 4 ^ h = 4 * 4 ^ (h - 1) := by
    rw [← four_pow_succ']; congr 1; omega
  omega

/-- `rc_upper = (rc_upper >> 2 | rc(new_base) << 2(2h-1)) & upper_mask` -/
theorem roll_rcUpper (W h b0 nb : Nat) (L' : List Nat) (hb0 : b0 < 4) (hL : Codes L')
    (hnb : nb < 4) (hlen : L'.length + 1 = h) (hW : 2 * (2 * h) ≤ W) :
    (((packL (rcCodes (b0 :: L')) * 4 ^ h) >>> 2) ||| shl W (nb ^^^ 2) (2 * (h * 2 - 1)))
        &&& ((4 ^ h - 1) * 4 ^ h)
      = packL (rcCodes (L' ++ [nb])) * 4 ^ h := by
  have hnb' : nb ^^^ 2 < 4 := xor2_lt hnb
  have hb0' : b0 ^^^ 2 < 4 := xor2_lt hb0
  have hR : Codes (rcCodes L') := rcCodes_codes hL
  have hRl : (rcCodes L').length = h - 1 := by rw [rcCodes_length]; omega
  have e : 4 ^ h = 4 ^ (h - 1) * 4 := by
    rw [← Nat.pow_succ]; congr 1; omega
  -- the shifted old value, as a packed list of `2h - 1` codes
  have hy : (packL (rcCodes (b0 :: L')) * 4 ^ h) >>> 2
      = packL (rcCodes L' ++ ([b0 ^^^ 2] ++ List.replicate (h - 1) 0)) := by
    rw [shr_two]
    conv => lhs; rw [e, ← Nat.mul_assoc, Nat.mul_div_cancel _ (by omega : 0 < 4)]
    rw [rcCodes_cons, ← List.append_assoc, packL_append_zeros]
  have hlow : Codes ([b0 ^^^ 2] ++ List.replicate (h - 1) 0) :=
    (Codes.cons hb0' Codes.nil).append (Codes.replicate _ (by omega))
  have hlowlen : ([b0 ^^^ 2] ++ List.replicate (h - 1) 0).length = h := by
    rw [List.length_append, List.length_singleton, List.length_replicate]; omega
  have hyc : Codes (rcCodes L' ++ ([b0 ^^^ 2] ++ List.replicate (h - 1) 0)) := hR.append hlow
  have hylen : (rcCodes L' ++ ([b0 ^^^ 2] ++ List.replicate (h - 1) 0)).length = h * 2 - 1 := by
    rw [List.length_append, hRl, hlowlen]; omega
  have hylt := packL_lt hyc
  rw [hylen] at hylt
  rw [hy, Nat.mul_comm 2 (h * 2 - 1), shl_four_pow (m := 1) (by omega) (by omega)]
  rw [Nat.or_comm, mul_four_pow_or hylt, ← hylen, ← packL_cons, and_upMask]
  have hdiv := packL_append_div (a := (nb ^^^ 2) :: rcCodes L') hlow
  rw [hlowlen] at hdiv
  rw [← List.cons_append, hdiv, rcCodes_snoc]
  congr 1
  apply Nat.mod_eq_of_lt
  have := packL_lt (Codes.cons hnb' hR)
  rwa [List.length_cons, hRl, show h - 1 + 1 = h by omega] at this

/-! ### `update_rc` -/

/-- `rc_upper = lower.rev_comp(k - 1) & upper_mask` -/
theorem updateRc_upper (W h : Nat) (hW : W = 64 ∨ W = 128) (L : List Nat) (hL : Codes L)
    (hlen : L.length = h) (hh : 2 * h ≤ W / 2) :
    revComp W (packL L) (2 * h) &&& ((4 ^ h - 1) * 4 ^ h) = packL (rcCodes L) * 4 ^ h := by
  have hc : Codes (List.replicate h 0 ++ L) := (Codes.replicate _ (by omega)).append hL
  rw [← packL_zeros_append L h, revComp_packL W hW _ hc (2 * h)
    (by rw [List.length_append, List.length_replicate, hlen]; omega) hh]
  rw [rcCodes_append, rcCodes_replicate_zero, and_upMask]
  have h2 : Codes (List.replicate h 2) := Codes.replicate _ (by omega)
  have hdiv := packL_append_div (a := rcCodes L) h2
  rw [List.length_replicate] at hdiv
  rw [hdiv]
  congr 1
  apply Nat.mod_eq_of_lt
  have := packL_lt (rcCodes_codes hL)
  rwa [rcCodes_length, hlen] at this

/-- `rc_lower = upper.rev_comp(k - 1) & lower_mask` -/
theorem updateRc_lower (W h : Nat) (hW : W = 64 ∨ W = 128) (A : List Nat) (hA : Codes A)
    (hlen : A.length = h) (hh : 2 * h ≤ W / 2) :
    revComp W (packL A * 4 ^ h) (2 * h) &&& (4 ^ h - 1) = packL (rcCodes A) := by
  have hc : Codes (A ++ List.replicate h 0) := hA.append (Codes.replicate _ (by omega))
  rw [← packL_append_zeros A h, revComp_packL W hW _ hc (2 * h)
    (by rw [List.length_append, List.length_replicate, hlen]; omega) hh]
  rw [rcCodes_append, rcCodes_replicate_zero, and_lowMask]
  have := packL_append_mod (a := List.replicate h 2) (rcCodes_codes hA)
  rwa [rcCodes_length, hlen] at this

end SkaModel
