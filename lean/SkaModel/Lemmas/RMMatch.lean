/-
The match list `pseudoalignment` hands to `AlnWriter`: it is a `filterMap` of the
reference k-mers, it is well formed (`Spec.MatchesOK`), and its members are exactly
the specification's matched centres.
-/
import SkaModel.Lemmas.RMKmers
import SkaModel.Lemmas.AssocLemmas

namespace SkaModel.RM

open SkaModel SkaModel.Spec SkaModel.Props.C16 SkaModel.Props.C01

/-! ### generic list facts -/

theorem foldl_filterMap_opt {α β σ : Type} (g : α → Option β) (f : σ → β → σ) (step : σ → α → σ)
    (hstep : ∀ w a, step w a = match g a with | some b => f w b | none => w)
    (l : List α) (init : σ) :
    l.foldl step init = (l.filterMap g).foldl f init := by
  induction l generalizing init with
  | nil => rfl
  | cons a l ih =>
    rw [List.foldl_cons, ih, hstep, List.filterMap_cons]
    cases g a <;> rfl

theorem getD_map_range {α : Type} (f : Nat → α) (n s : Nat) (d : α) (hs : s < n) :
    ((List.range n).map f).getD s d = f s := by
  rw [List.getD_eq_getElem?_getD, List.getElem?_map, List.getElem?_range hs]
  rfl

theorem list_getD_map {α β : Type} (f : α → β) (l : List α) (s : Nat) (d : α) :
    (l.map f).getD s (f d) = f (l.getD s d) := by
  rw [List.getD_eq_getElem?_getD, List.getD_eq_getElem?_getD, List.getElem?_map]
  cases l[s]? <;> rfl

theorem list_getD_mem_or {α : Type} (l : List α) (s : Nat) (d : α) :
    l.getD s d ∈ l ∨ l.getD s d = d := by
  rw [List.getD_eq_getElem?_getD]
  cases h : l[s]? with
  | none => exact Or.inr rfl
  | some x => exact Or.inl (List.mem_of_getElem? h)

/-! ### `MatchesOK` from an ordering -/

def Mlt (a b : Match) : Prop := a.1 < b.1 ∨ (a.1 = b.1 ∧ a.2.1 < b.2.1)

def MBound (ref : List (Array UInt8)) (h : Nat) (m : Match) : Prop :=
  m.1 < ref.length ∧ h ≤ m.2.1 ∧ m.2.1 + h < (ref.getD m.1 #[]).size

theorem matchesOK_of_pairwise (ref : List (Array UInt8)) (h : Nat) :
    ∀ ms : List Match, (∀ m ∈ ms, MBound ref h m) → ms.Pairwise Mlt → MatchesOK ref h ms
  | [], _, _ => trivial
  | [m], hb, _ => hb m (List.mem_singleton.mpr rfl)
  | m :: m' :: rest, hb, hp => by
    rw [List.pairwise_cons] at hp
    exact ⟨hb m (List.mem_cons_self ..), hp.1 m' (List.mem_cons_self ..),
      matchesOK_of_pairwise ref h (m' :: rest) (fun x hx => hb x (List.mem_cons_of_mem _ hx)) hp.2⟩

/-! ### the cells of one sample -/

/-- the match a mapped row gives for sample `s` (none for a gap) -/
def cellOf (s : Nat) (m : (Nat × Nat) × List UInt8) : Option Match :=
  let b := m.2.getD s GAP
  if b != GAP then some (m.1.1, m.1.2, b) else none

/-- what `RefSka.map` does with one reference k-mer -/
def mapOne (d : MDict) (rk : RefKmer) : Option ((Nat × Nat) × List UInt8) :=
  match Assoc.lookup d.kmers rk.kmer with
  | some row => some ((rk.chrom, rk.pos), row.map (fun x => if rk.rc then rcIupacAt x else x))
  | none => none

/-- the match of sample `s` at one reference k-mer -/
def matchOf (d : MDict) (s : Nat) (rk : RefKmer) : Option Match := (mapOne d rk).bind (cellOf s)

theorem cellOf_eq (s : Nat) (m : (Nat × Nat) × List UInt8) :
    cellOf s m = if (m.2.getD s GAP != GAP) = true then some (m.1.1, m.1.2, m.2.getD s GAP) else none := rfl

theorem cell_gen (chrom p : Nat) (x y : UInt8) (hxy : (y == 45) = (x == 45)) :
    (if (y != 45) = true then some (chrom, p, y) else none : Option Match)
      = Option.map (fun z => (chrom, p, z)) (if (x == 45) = true then none else some y) := by
  cases hx : (x == 45)
  · have hy : (y == 45) = false := by rw [hxy, hx]
    simp [bne, hy]
  · have hy : (y == 45) = true := by rw [hxy, hx]
    simp [bne, hy]

theorem map_eq (r : RefSka) (d : MDict) : r.map d = r.kmers.filterMap (mapOne d) := rfl

theorem ms_eq (r : RefSka) (d : MDict) (s : Nat) :
    (r.map d).filterMap (cellOf s) = r.kmers.filterMap (matchOf d s) := by
  rw [map_eq, List.filterMap_filterMap]; rfl

/-- `pseudoalignment` for sample `s` is `finalise` after the fold of `writeSplitKmer`
over the non-gap cells of the sample -/
theorem pseudoalignment_getD (r : RefSka) (n : Nat) (mapped : List ((Nat × Nat) × List UInt8))
    (s : Nat) (hs : s < n) :
    (r.pseudoalignment n mapped).getD s #[] =
      AlnWriter.finalise r.seq (halfK r.k) r.repeatCoors
        ((mapped.filterMap (cellOf s)).foldl
          (fun w m => AlnWriter.writeSplitKmer r.seq (halfK r.k) r.ambigMask w m.2.1 m.1 m.2.2)
          (AlnWriter.new r.seq r.k)) := by
  unfold RefSka.pseudoalignment
  rw [getD_map_range _ _ _ _ hs]
  refine congrArg (AlnWriter.finalise r.seq (halfK r.k) r.repeatCoors) ?_
  apply foldl_filterMap_opt (cellOf s)
  intro w a
  rw [cellOf_eq]
  show (if (a.2.getD s GAP != GAP) = true then _ else w) = _
  by_cases hb : (a.2.getD s GAP != GAP) = true
  · rw [if_pos hb, if_pos hb]
  · rw [if_neg hb, if_neg hb]

theorem matchOf_chrom_pos {d : MDict} {s : Nat} {rk : RefKmer} {m : Match}
    (h : matchOf d s rk = some m) : m.1 = rk.chrom ∧ m.2.1 = rk.pos := by
  unfold matchOf mapOne at h
  cases hl : Assoc.lookup d.kmers rk.kmer with
  | none => rw [hl] at h; cases h
  | some row =>
    rw [hl] at h
    simp only [Option.bind_some] at h
    rw [cellOf_eq] at h
    by_cases hc : ((rk.chrom, rk.pos), row.map (fun x => if rk.rc then rcIupacAt x else x)).2.getD s GAP != GAP
    · rw [if_pos hc] at h; cases h; exact ⟨rfl, rfl⟩
    · rw [if_neg hc] at h; cases h

/-! ### centres -/

theorem halfK_eq (k : Nat) : halfK k = (k - 1) / 2 := rfl

theorem isCentre_iff (k : Nat) (c : Array UInt8) (p : Nat) :
    isCentre k c p = true ↔ halfK k ≤ p ∧ (p - halfK k) ∈ windows k c := by
  unfold isCentre windows windowsBy
  simp only [Bool.and_eq_true, decide_eq_true_eq, List.mem_filter, List.mem_range, halfK_eq]
  constructor
  · rintro ⟨h1, h2⟩
    refine ⟨h1, ?_, h2⟩
    unfold validStart at h2
    simp only [Bool.and_eq_true, decide_eq_true_eq] at h2
    omega
  · rintro ⟨h1, _, h2⟩
    exact ⟨h1, h2⟩

theorem isCentre_of_window {k : Nat} {c : Array UInt8} {j : Nat} (hj : j ∈ windows k c) :
    isCentre k c (j + halfK k) = true := by
  rw [isCentre_iff]
  exact ⟨Nat.le_add_left _ _, by rw [Nat.add_sub_cancel]; exact hj⟩

theorem mem_centres (k : Nat) (c : Array UInt8) (p : Nat) :
    p ∈ centres k c ↔ isCentre k c p = true := by
  rw [isCentre_iff]
  unfold centres
  rw [List.mem_map]
  constructor
  · rintro ⟨j, hj, rfl⟩
    exact ⟨Nat.le_add_left _ _, by rw [← halfK_eq, Nat.add_sub_cancel]; exact hj⟩
  · rintro ⟨h1, h2⟩
    exact ⟨p - halfK k, h2, by rw [← halfK_eq]; omega⟩

theorem matchedBase_isCentre {k : Nat} {rc : Bool} {dict : Nat → Option (List UInt8)}
    {c : Array UInt8} {s p : Nat} {x : UInt8} (h : matchedBase k rc dict c s p = some x) :
    isCentre k c p = true := by
  unfold matchedBase at h
  cases hc : isCentre k c p
  · rw [hc] at h; simp at h
  · rfl

theorem mem_matchedCentres (k : Nat) (rc : Bool) (dict : Nat → Option (List UInt8))
    (c : Array UInt8) (s : Nat) (m : Nat × UInt8) :
    m ∈ matchedCentres k rc dict c s ↔ matchedBase k rc dict c s m.1 = some m.2 := by
  unfold matchedCentres
  rw [List.mem_filterMap]
  constructor
  · rintro ⟨p, _, hp⟩
    rw [Option.map_eq_some_iff] at hp
    obtain ⟨x, hx, rfl⟩ := hp
    exact hx
  · intro h
    refine ⟨m.1, (mem_centres k c m.1).mpr (matchedBase_isCentre h), ?_⟩
    rw [h]; rfl

/-! ### gap safety and the match at a window -/

/-- reverse-complementing a stored (non-gap) byte never yields a gap: true when
the rows hold IUPAC letters and gaps only -/
def GapSafe (d : MDict) : Prop := ∀ kr ∈ d.kmers, ∀ x ∈ kr.2, rcIupacAt x = 45 → x = 45

theorem rcIupacAt_gap : rcIupacAt 45 = 45 := by decide

theorem matchOf_window (k : Nat) (rc : Bool) (d : MDict) (hgs : rc = true → GapSafe d) (s chrom : Nat)
    (c : Array UInt8) (j : Nat) (hj : j ∈ windows k c) :
    matchOf d s (mkRK k rc chrom c j)
      = (matchedBase k rc (fun key => Assoc.lookup d.kmers key) c s (j + halfK k)).map
          (fun x => (chrom, j + halfK k, x)) := by
  unfold matchedBase
  rw [isCentre_of_window hj, if_pos rfl]
  have hjj : j + halfK k - (k - 1) / 2 = j := by rw [← halfK_eq, Nat.add_sub_cancel]
  simp only [hjj]
  unfold matchOf mapOne
  show (match Assoc.lookup d.kmers (obs k rc c j).1 with
        | some row => some ((chrom, j + halfK k), row.map (fun x => if (obs k rc c j).2.2 then rcIupacAt x else x))
        | none => none).bind (cellOf s) = _
  cases hl : Assoc.lookup d.kmers (obs k rc c j).1 with
  | none => rfl
  | some row =>
    simp only [Option.bind_some]
    rw [cellOf_eq]
    cases ho : (obs k rc c j).2.2
    · -- forward strand
      have ef : (fun x : UInt8 => if false = true then rcIupacAt x else x) = id := by funext x; rfl
      rw [ef, List.map_id]
      exact cell_gen chrom (j + halfK k) (row.getD s 45) (row.getD s 45) rfl
    · -- reverse strand
      have hrc : rc = true := by
        cases rc
        · unfold obs at ho; simp at ho
        · rfl
      have ef : (fun x : UInt8 => if true = true then rcIupacAt x else x) = rcIupacAt := by funext x; rfl
      rw [ef]
      have e : (row.map rcIupacAt).getD s GAP = rcIupacAt (row.getD s 45) := by
        have := list_getD_map rcIupacAt row s 45
        rw [rcIupacAt_gap] at this
        exact this
      simp only [e]
      have hsafe : (rcIupacAt (row.getD s 45) == 45) = (row.getD s 45 == 45) := by
        rw [Bool.eq_iff_iff, beq_iff_eq, beq_iff_eq]
        constructor
        · intro h45
          rcases list_getD_mem_or row s 45 with hm | he
          · exact hgs hrc _ (Assoc.mem_of_lookup_J hl) _ hm h45
          · exact he
        · intro h45; rw [h45]; exact rcIupacAt_gap
      exact cell_gen chrom (j + halfK k) (row.getD s 45) (rcIupacAt (row.getD s 45)) hsafe

end SkaModel.RM
