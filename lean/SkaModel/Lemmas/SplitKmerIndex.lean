/-
Helpers for C01 (iterator part): `validStart` as a proposition, and what
`rollFwd` does to the `index` field.
-/
import SkaModel.Impl.SplitKmer
import SkaModel.Spec.Windows
import SkaModel.Lemmas.Enum

namespace SkaModel.Lemmas

open SkaModel SkaModel.Spec

theorem validStart_iff (k len : Nat) (ok : Nat → Bool) (j : Nat) :
    validStart k len ok j = true ↔ (j + k ≤ len ∧ ∀ t, t < k → ok (j + t) = true) := by
  unfold validStart
  simp only [Bool.and_eq_true, decide_eq_true_eq, List.all_eq_true, List.mem_range]

theorem validStart_false_of_len (k len : Nat) (ok : Nat → Bool) (j : Nat) (h : len < j + k) :
    validStart k len ok j = false := by
  cases hv : validStart k len ok j with
  | false => rfl
  | true =>
    have := ((validStart_iff k len ok j).1 hv).1
    omega

/-- a window that contains an unacceptable position is not valid -/
theorem validStart_false_of_bad (k len : Nat) (ok : Nat → Bool) (j p : Nat)
    (hp : ok p = false) (h1 : j ≤ p) (h2 : p < j + k) :
    validStart k len ok j = false := by
  cases hv : validStart k len ok j with
  | false => rfl
  | true =>
    have := ((validStart_iff k len ok j).1 hv).2 (p - j) (by omega)
    rw [show j + (p - j) = p by omega, hp] at this
    exact absurd this (by decide)

/-- the abbreviation used in every statement below -/
abbrev V (c : SKConf) : Nat → Bool := validStart c.k c.seqLen c.okAt

theorem updateRc_index (c : SKConf) (s : SKState) : (c.updateRc s).index = s.index := rfl

/-- the three ways `rollFwd` can go, seen through the `index` field only -/
theorem rollFwd_cases (c : SKConf) (s : SKState) :
    (c.seqLen ≤ s.index + 1 ∧ c.rollFwd s = none)
    ∨ (s.index + 1 < c.seqLen ∧ c.okAt (s.index + 1) = false ∧
        c.build (s.index + 1) s.hash.isSome = none ∧ c.rollFwd s = none)
    ∨ (s.index + 1 < c.seqLen ∧ c.okAt (s.index + 1) = false ∧
        ∃ r s', c.build (s.index + 1) s.hash.isSome = some r ∧ c.rollFwd s = some s' ∧
          s'.index = r.1)
    ∨ (s.index + 1 < c.seqLen ∧ c.okAt (s.index + 1) = true ∧
        ∃ s', c.rollFwd s = some s' ∧ s'.index = s.index + 1) := by
  by_cases h1 : c.seqLen ≤ s.index + 1
  · left
    refine ⟨h1, ?_⟩
    unfold SKConf.rollFwd
    simp only [ge_iff_le, h1, if_true]
  · right
    have h1' : s.index + 1 < c.seqLen := by omega
    cases hok : c.okAt (s.index + 1) with
    | false =>
      cases hb : c.build (s.index + 1) s.hash.isSome with
      | none =>
        left
        refine ⟨h1', rfl, rfl, ?_⟩
        unfold SKConf.rollFwd
        simp only [ge_iff_le, h1, if_false, hok, Bool.not_false, if_true, hb]
      | some r =>
        right; left
        refine ⟨h1', rfl, r, ?_⟩
        obtain ⟨ix, u, l, m, hg⟩ := r
        unfold SKConf.rollFwd
        simp only [ge_iff_le, h1, if_false, hok, Bool.not_false, if_true, hb]
        cases c.rc with
        | true => exact ⟨_, trivial, rfl, rfl⟩
        | false => exact ⟨_, trivial, rfl, rfl⟩
    | true =>
      right; right
      refine ⟨h1', rfl, ?_⟩
      unfold SKConf.rollFwd
      simp only [ge_iff_le, h1, if_false, hok, Bool.not_true]
      cases c.rc with
      | true => exact ⟨_, rfl, rfl⟩
      | false => exact ⟨_, rfl, rfl⟩

end SkaModel.Lemmas
