/-
`ska lo` graph stage: chains of a relation, `compactWalk` and `compactSegments`
(items 1 and 2 of `SkaModel/Props/C17Paths.lean`).
-/
import SkaModel.Props.C17PathsDefs
import SkaModel.Lemmas.AssocFold

namespace SkaModel.LOG

open SkaModel SkaModel.Skalo SkaModel.Props.C17G

/-! ### chains of a relation -/

/-- consecutive elements are related -/
def ChainR (R : Nat → Nat → Prop) : List Nat → Prop
  | a :: b :: rest => R a b ∧ ChainR R (b :: rest)
  | _ => True

theorem chainR_nil (R : Nat → Nat → Prop) : ChainR R [] := trivial

theorem chainR_single (R : Nat → Nat → Prop) (a : Nat) : ChainR R [a] := trivial

theorem chainR_cons_cons (R : Nat → Nat → Prop) (a b : Nat) (rest : List Nat) :
    ChainR R (a :: b :: rest) ↔ R a b ∧ ChainR R (b :: rest) := Iff.rfl

theorem walk_eq_chainR (g : Graph) (l : List Nat) : Walk g l ↔ ChainR (Edge g) l := by
  induction l with
  | nil => exact Iff.rfl
  | cons a t ih =>
    cases t with
    | nil => exact Iff.rfl
    | cons b rest =>
      show (Edge g a b ∧ Walk g (b :: rest)) ↔ (Edge g a b ∧ ChainR (Edge g) (b :: rest))
      rw [ih]

theorem chain1_eq_chainR (g : Graph) (l : List Nat) :
    Chain1 g l ↔ ChainR (fun a b => Assoc.lookup g a = some [b]) l := by
  induction l with
  | nil => exact Iff.rfl
  | cons a t ih =>
    cases t with
    | nil => exact Iff.rfl
    | cons b rest =>
      show (Assoc.lookup g a = some [b] ∧ Chain1 g (b :: rest)) ↔ (_ ∧ ChainR _ (b :: rest))
      rw [ih]

theorem chainR_mono {R S : Nat → Nat → Prop} (h : ∀ a b, R a b → S a b) :
    ∀ l, ChainR R l → ChainR S l
  | [], _ => trivial
  | [_], _ => trivial
  | a :: b :: rest, hc => ⟨h a b hc.1, chainR_mono h (b :: rest) hc.2⟩

/-- two chains sharing an end node glue together -/
theorem chainR_glue {R : Nat → Nat → Prop} (x : Nat) (q : List Nat) :
    ∀ p, ChainR R (p ++ [x]) → ChainR R (x :: q) → ChainR R (p ++ x :: q)
  | [], _, h2 => h2
  | [_], h1, h2 => ⟨h1.1, h2⟩
  | _ :: b :: rest, h1, h2 => ⟨h1.1, chainR_glue x q (b :: rest) h1.2 h2⟩

theorem chainR_snoc {R : Nat → Nat → Prop} (p : List Nat) (x y : Nat)
    (h1 : ChainR R (p ++ [x])) (h2 : R x y) : ChainR R (p ++ [x, y]) :=
  chainR_glue x [y] p h1 ⟨h2, trivial⟩

theorem chainR_tail {R : Nat → Nat → Prop} (a : Nat) (l : List Nat) (h : ChainR R (a :: l)) :
    ChainR R l := by
  cases l with
  | nil => trivial
  | cons b rest => exact h.2

theorem chainR_append_right {R : Nat → Nat → Prop} (q : List Nat) :
    ∀ p, ChainR R (p ++ q) → ChainR R q
  | [], h => h
  | a :: rest, h => chainR_append_right q rest (chainR_tail a _ h)

theorem chainR_append_left {R : Nat → Nat → Prop} (q : List Nat) :
    ∀ p, ChainR R (p ++ q) → ChainR R p
  | [], _ => trivial
  | [_], _ => trivial
  | _ :: b :: rest, h => ⟨h.1, chainR_append_left q (b :: rest) h.2⟩

theorem chainR_getElem? {R : Nat → Nat → Prop} :
    ∀ (l : List Nat) (i x y : Nat), ChainR R l → l[i]? = some x → l[i + 1]? = some y → R x y
  | [], _, _, _, _, h1, _ => by simp at h1
  | [_], _, _, _, _, _, h2 => by simp at h2
  | a :: b :: rest, 0, x, y, h, h1, h2 => by
    simp at h1 h2
    subst h1 h2
    exact h.1
  | a :: b :: rest, i + 1, x, y, h, h1, h2 => by
    rw [List.getElem?_cons_succ] at h1 h2
    exact chainR_getElem? (b :: rest) i x y h.2 h1 h2

instance decChainR (R : Nat → Nat → Prop) [DecidableRel R] : (l : List Nat) → Decidable (ChainR R l)
  | [] => isTrue trivial
  | [_] => isTrue trivial
  | a :: b :: rest =>
    match (inferInstance : Decidable (R a b)), decChainR R (b :: rest) with
    | isTrue h1, isTrue h2 => isTrue ⟨h1, h2⟩
    | isFalse h1, _ => isFalse (fun h => h1 h.1)
    | _, isFalse h2 => isFalse (fun h => h2 h.2)

/-- every node of a chain with at least two nodes is an end of a related pair -/
theorem chainR_incident {R : Nat → Nat → Prop} :
    ∀ (l : List Nat), ChainR R l → 2 ≤ l.length → ∀ n ∈ l, ∃ m, R n m ∨ R m n
  | [], _, h, _, _ => by simp at h
  | [_], _, h, _, _ => by simp at h
  | [a, b], hc, _, n, hn => by
    simp only [List.mem_cons, List.not_mem_nil, or_false] at hn
    rcases hn with rfl | rfl
    · exact ⟨b, Or.inl hc.1⟩
    · exact ⟨a, Or.inr hc.1⟩
  | a :: b :: c :: rest, hc, _, n, hn => by
    rcases List.mem_cons.1 hn with rfl | hn
    · exact ⟨b, Or.inl hc.1⟩
    · exact chainR_incident (b :: c :: rest) hc.2 (by simp) n hn

/-! ### the same for `Walk` and `Chain1` -/

theorem walk_of_chain1 {g : Graph} {l : List Nat} (h : Chain1 g l) : Walk g l := by
  rw [walk_eq_chainR]
  rw [chain1_eq_chainR] at h
  refine chainR_mono ?_ l h
  intro a b hab
  show b ∈ succs g a
  unfold succs
  rw [hab]
  simp

theorem walk_glue {g : Graph} (x : Nat) (q p : List Nat)
    (h1 : Walk g (p ++ [x])) (h2 : Walk g (x :: q)) : Walk g (p ++ x :: q) := by
  rw [walk_eq_chainR] at *
  exact chainR_glue x q p h1 h2

theorem walk_append_left {g : Graph} (p q : List Nat) (h : Walk g (p ++ q)) : Walk g p := by
  rw [walk_eq_chainR] at *
  exact chainR_append_left q p h

theorem walk_append_right {g : Graph} (p q : List Nat) (h : Walk g (p ++ q)) : Walk g q := by
  rw [walk_eq_chainR] at *
  exact chainR_append_right q p h

theorem chain1_glue {g : Graph} (x : Nat) (q p : List Nat)
    (h1 : Chain1 g (p ++ [x])) (h2 : Chain1 g (x :: q)) : Chain1 g (p ++ x :: q) := by
  rw [chain1_eq_chainR] at *
  exact chainR_glue x q p h1 h2

theorem chain1_append_left {g : Graph} (p q : List Nat) (h : Chain1 g (p ++ q)) : Chain1 g p := by
  rw [chain1_eq_chainR] at *
  exact chainR_append_left q p h

/-! ### item 1: `compactWalk` -/

theorem mem_dropLast_cons {α : Type} (a x : α) (l : List α) (h : x ∈ (a :: l).dropLast) :
    x = a ∨ x ∈ l.dropLast := by
  cases l with
  | nil => simp at h
  | cons b t =>
    rw [List.dropLast_cons_cons] at h
    exact List.mem_cons.1 h

/-- the accumulator form: the walk extends `acc` by a chain of single-successor nodes from `cur` -/
theorem compactWalk_inv (g : Graph) (starts ends : List Nat) (fuel : Nat) :
    ∀ (cur : Nat) (acc : List Nat),
    ∃ ext, compactWalk g starts ends fuel cur acc = acc ++ ext ∧
      Chain1 g (cur :: ext) ∧ (acc.Nodup → (acc ++ ext).Nodup) ∧
      (∀ x ∈ ext.dropLast, x ∉ starts ∧ x ∉ ends) ∧ ext.length ≤ fuel := by
  induction fuel with
  | zero =>
    intro cur acc
    exact ⟨[], by simp [compactWalk], trivial, by simp, by simp, by simp⟩
  | succ fuel ih =>
    intro cur acc
    have hnil : ∃ ext, acc = acc ++ ext ∧ Chain1 g (cur :: ext) ∧ (acc.Nodup → (acc ++ ext).Nodup) ∧
        (∀ x ∈ ext.dropLast, x ∉ starts ∧ x ∉ ends) ∧ ext.length ≤ fuel + 1 :=
      ⟨[], by simp, trivial, by simp, by simp, by simp⟩
    unfold compactWalk
    split
    · rename_i n hlk
      by_cases hc : acc.contains n = true
      · rw [if_pos hc]; exact hnil
      · rw [if_neg hc]
        have hn : n ∉ acc := by simpa using hc
        by_cases he : (ends.contains n || starts.contains n) = true
        · rw [if_pos he]
          refine ⟨[n], rfl, ⟨hlk, trivial⟩, ?_, by simp, by simp⟩
          intro hnd
          rw [List.nodup_append]
          refine ⟨hnd, by simp, ?_⟩
          intro a ha b hb
          simp at hb
          subst hb
          intro e; subst e; exact hn ha
        · rw [if_neg he]
          obtain ⟨ext, h1, h2, h3, h4, h5⟩ := ih n (acc ++ [n])
          refine ⟨n :: ext, ?_, ⟨hlk, h2⟩, ?_, ?_, by simp; omega⟩
          · rw [h1]; simp
          · intro hnd
            have : (acc ++ [n]).Nodup := by
              rw [List.nodup_append]
              refine ⟨hnd, by simp, ?_⟩
              intro a ha b hb
              simp at hb
              subst hb
              intro e; subst e; exact hn ha
            have := h3 this
            simpa using this
          · intro x hx
            rcases mem_dropLast_cons n x ext hx with rfl | hx
            · simp at he
              exact ⟨fun h => he.2 h, fun h => he.1 h⟩
            · exact h4 x hx
    · exact hnil

/-! ### item 2: `compactSegments` -/

theorem foldl_invariant {α β : Type} (P : β → Prop) (f : β → α → β) (l : List α)
    (hstep : ∀ b a, a ∈ l → P b → P (f b a)) (init : β) (h0 : P init) : P (l.foldl f init) := by
  induction l generalizing init with
  | nil => exact h0
  | cons a t ih =>
    rw [List.foldl_cons]
    exact ih (fun b a' ha' hb => hstep b a' (List.mem_cons_of_mem _ ha') hb) _
      (hstep init a (List.mem_cons_self ..) h0)

/-- the entries of an `upsert` that replaces the value by a constant -/
theorem mem_upsert_const {ν : Type} (d : Assoc Nat ν) (key : Nat) (v : ν) (kv : Nat × ν)
    (h : kv ∈ Assoc.upsert d key v (fun _ => v)) : kv ∈ d ∨ kv = (key, v) := by
  induction d with
  | nil => right; simpa [Assoc.upsert] using h
  | cons e rest ih =>
    obtain ⟨k, w⟩ := e
    simp only [Assoc.upsert] at h
    by_cases hk : (k == key) = true
    · rw [if_pos hk] at h
      have e : k = key := eq_of_beq hk
      rcases List.mem_cons.1 h with h | h
      · right; rw [h, e]
      · left; exact List.mem_cons_of_mem _ h
    · rw [if_neg hk] at h
      rcases List.mem_cons.1 h with h | h
      · left; rw [h]; exact List.mem_cons_self ..
      · rcases ih h with h | h
        · left; exact List.mem_cons_of_mem _ h
        · right; exact h

/-- what every compacted segment satisfies -/
def SegOk (g : Graph) (starts ends : List Nat) (sv : Nat × List Nat) : Prop :=
  sv.2 = compactWalk g starts ends (edgeCount g + 1) sv.1 [] ∧ sv.2.length > 1 ∧
    ∃ k ∈ starts ++ ends, Edge g k sv.1

theorem compactSegments_inv (g : Graph) (starts ends : List Nat) :
    (∀ sv ∈ compactSegments g starts ends, SegOk g starts ends sv) ∧
      (Assoc.keys (compactSegments g starts ends)).Nodup := by
  unfold compactSegments
  refine foldl_invariant
    (fun (acc : List (Nat × List Nat)) => (∀ sv ∈ acc, SegOk g starts ends sv) ∧ (Assoc.keys acc).Nodup)
    _ _ ?_ [] ⟨by simp, by simp [Assoc.keys]⟩
  intro acc kmer hk hacc
  refine foldl_invariant
    (fun (acc : List (Nat × List Nat)) => (∀ sv ∈ acc, SegOk g starts ends sv) ∧ (Assoc.keys acc).Nodup)
    _ _ ?_ acc hacc
  intro acc s hs hacc
  show (fun (acc : List (Nat × List Nat)) => (∀ sv ∈ acc, SegOk g starts ends sv) ∧ (Assoc.keys acc).Nodup)
    (if (compactWalk g starts ends (edgeCount g + 1) s []).length > 1 then
      Assoc.upsert acc s (compactWalk g starts ends (edgeCount g + 1) s [])
        (fun _ => compactWalk g starts ends (edgeCount g + 1) s []) else acc)
  by_cases hl : (compactWalk g starts ends (edgeCount g + 1) s []).length > 1
  · rw [if_pos hl]
    refine ⟨?_, Assoc.nodup_keys_upsert_L _ _ _ hacc.2⟩
    intro sv hsv
    rcases mem_upsert_const _ _ _ _ hsv with h | h
    · exact hacc.1 sv h
    · rw [h]
      exact ⟨rfl, hl, kmer, hk, hs⟩
  · rw [if_neg hl]; exact hacc

end SkaModel.LOG
