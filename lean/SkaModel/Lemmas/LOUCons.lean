/-
`ColourCons`: all coloured k-mers of a table that share a key carry the same sample set.  Under it the
merged colour map of `buildGraphU` is the first-wins colour map of `buildGraph`, entry by entry (as
lists), so the whole result of `build_graph` is the same.
-/
import SkaModel.Lemmas.LOUFold

namespace SkaModel.LOU

open SkaModel SkaModel.Skalo SkaModel.LORL

/-- entries with the same key have the same sample set -/
def Cons (cs : List (Nat × List Nat)) : Prop :=
  ∀ e1 ∈ cs, ∀ e2 ∈ cs, e1.1 = e2.1 → e1.2 = e2.2

instance (cs : List (Nat × List Nat)) : Decidable (Cons cs) := by
  unfold Cons; infer_instance

/-- **ColourCons**: the coloured k-mers of the rows of a table are consistent: a k-mer that is entered
several times (from several rows, or as a k-mer and as a reverse complement) has the same sample set
every time -/
def ColourCons (W : Nat) (a : Arr) : Prop :=
  ∀ e1 ∈ colourEntries W a, ∀ e2 ∈ colourEntries W a, e1.1 = e2.1 → e1.2 = e2.2

instance (W : Nat) (a : Arr) : Decidable (ColourCons W a) := by
  unfold ColourCons; infer_instance

/-- Bool version -/
def colourConsB (W : Nat) (a : Arr) : Bool :=
  (colourEntries W a).all (fun e1 => (colourEntries W a).all (fun e2 => e1.1 != e2.1 || e1.2 == e2.2))

theorem colourConsB_iff (W : Nat) (a : Arr) : colourConsB W a = true ↔ ColourCons W a := by
  unfold colourConsB ColourCons
  simp only [List.all_eq_true, Bool.or_eq_true, bne_iff_ne, ne_eq, beq_iff_eq]
  constructor
  · intro h e1 h1 e2 h2 he
    rcases h e1 h1 e2 h2 with h' | h'
    · exact absurd he h'
    · exact h'
  · intro h e1 h1 e2 h2
    by_cases he : e1.1 = e2.1
    · exact Or.inr (h e1 h1 e2 h2 he)
    · exact Or.inl he

/-- modifications that agree on the stored value give the same `upsert` -/
theorem upsert_congr {ν : Type} (d : Assoc Nat ν) (key : Nat) (ins : ν) (f g : ν → ν)
    (h : ∀ v, Assoc.lookup d key = some v → f v = g v) :
    Assoc.upsert d key ins f = Assoc.upsert d key ins g := by
  induction d with
  | nil => rfl
  | cons p rest ih =>
    obtain ⟨k, v⟩ := p
    rw [Assoc.upsert_cons, Assoc.upsert_cons]
    by_cases hk : (k == key) = true
    · rw [if_pos hk, if_pos hk, h v (by rw [Assoc.lookup_cons, if_pos hk])]
    · rw [if_neg hk, if_neg hk, ih (fun v hv => h v (by rw [Assoc.lookup_cons, if_neg hk]; exact hv))]

/-- entering a set that equals the stored one: merging is keeping -/
theorem addColourU_eq_addColour (c : Colours) (k : Nat) (s : List Nat)
    (h : ∀ v, Assoc.lookup c k = some v → v = s) : addColourU c k s = addColour c k s := by
  unfold addColourU addColour
  apply upsert_congr
  intro v hv
  rw [h v hv, unionSorted_self]
  rfl

theorem lookup_addColour (c : Colours) (k : Nat) (s : List Nat) (f : Nat) :
    Assoc.lookup (addColour c k s) f =
      if k == f then some (match Assoc.lookup c k with | none => s | some S => S)
      else Assoc.lookup c f := by
  unfold addColour
  rw [Assoc.lookup_upsert]
  cases Assoc.lookup c k <;> rfl

/-- on consistent entries that agree with what is stored, the two folds coincide -/
theorem foldl_addColourU_eq (cs : List (Nat × List Nat)) :
    ∀ (c : Colours), Cons cs → (∀ e ∈ cs, ∀ v, Assoc.lookup c e.1 = some v → v = e.2) →
      cs.foldl (fun c e => addColourU c e.1 e.2) c = cs.foldl (fun c e => addColour c e.1 e.2) c := by
  induction cs with
  | nil => intro c _ _; rfl
  | cons e cs ih =>
    intro c hc hs
    rw [List.foldl_cons, List.foldl_cons, addColourU_eq_addColour c e.1 e.2 (hs e List.mem_cons_self)]
    apply ih
    · intro e1 h1 e2 h2
      exact hc e1 (List.mem_cons_of_mem _ h1) e2 (List.mem_cons_of_mem _ h2)
    · intro e' he' v hv
      rw [lookup_addColour] at hv
      by_cases hk : (e.1 == e'.1) = true
      · have hkk : e.1 = e'.1 := eq_of_beq hk
        rw [if_pos hk] at hv
        have hv' := Option.some.inj hv
        have he2 : e.2 = e'.2 := hc e List.mem_cons_self e' (List.mem_cons_of_mem _ he') hkk
        cases hl : Assoc.lookup c e.1 with
        | none => rw [hl] at hv'; rw [← hv', ← he2]
        | some S =>
          rw [hl] at hv'
          rw [← hv', ← he2]
          exact hs e List.mem_cons_self S hl
      · rw [if_neg hk] at hv
        exact hs e' (List.mem_cons_of_mem _ he') v hv

/-- **under `ColourCons` the merged colour map is the first-wins colour map** (the same list) -/
theorem buildGraphU_snd_eq (W : Nat) (a : Arr) (h : ColourCons W a) :
    (buildGraphU W a).2 = (buildGraph W a).2 := by
  rw [buildGraphU_snd, buildGraph_snd]
  exact foldl_addColourU_eq _ [] h (fun e _ v hv => by simp [Assoc.lookup] at hv)

theorem buildGraphU_eq (W : Nat) (a : Arr) (h : ColourCons W a) : buildGraphU W a = buildGraph W a :=
  Prod.ext (buildGraphU_fst W a) (buildGraphU_snd_eq W a h)

end SkaModel.LOU
