/-
C18 completeness — the nodes of the graph of a deletion family in columns of `F`: contiguous windows
(`Nd.c x`) and windows that jump over a block (`Nd.g t x`); the relation `RE` "the next window of a sample";
every window of `k` columns of a sample is a pair of nodes related by `RE`, and every such pair occurs.
-/
import SkaModel.Lemmas.LOEFamD

namespace SkaModel.LOE

open SkaModel SkaModel.Skalo SkaModel.Spec SkaModel.LOC

/-- start and end of block number `t` -/
def bS (B : List (Nat × Nat)) (t : Nat) : Nat := (B.getD t (0, 0)).1
def bE (B : List (Nat × Nat)) (t : Nat) : Nat := (B.getD t (0, 0)).1 + (B.getD t (0, 0)).2

/-- a node in columns: the contiguous window at `x`, or the window at `x` that jumps over block `t` -/
inductive Nd where
  | c (x : Nat)
  | g (t x : Nat)
  deriving DecidableEq, Repr

/-- the columns of a node -/
def Nd.cols (k : Nat) (B : List (Nat × Nat)) : Nd → List Nat
  | .c x => List.range' x (k - 1)
  | .g t x => List.range' x (bS B t - x) ++ List.range' (bE B t) (k - 1 - (bS B t - x))

/-- the nodes that occur (`m t` = the shift of block `t`): contiguous windows inside `F`; jumping windows with
columns on both sides of the block and more than `m t` columns behind it (with at most `m t` columns behind the
block a jumping window spells the same as the contiguous window at its first column) -/
def Nd.valid (k N : Nat) (B : List (Nat × Nat)) (m : Nat → Nat) : Nd → Prop
  | .c x => x + (k - 1) ≤ N
  | .g t x => t < B.length ∧ bS B t + 1 + m t < x + k ∧ x < bS B t

/-- the next window of a sample -/
inductive RE (k N : Nat) (B : List (Nat × Nat)) (m : Nat → Nat) : Nd → Nd → Prop
  | cc (x : Nat) : x + k ≤ N → RE k N B m (.c x) (.c (x + 1))
  | cg (t : Nat) : t < B.length → RE k N B m (.c (bS B t + m t - (k - 1))) (.g t (bS B t + m t - (k - 1) + 1))
  | gg (t x : Nat) : t < B.length → bS B t + 1 + m t < x + k → x + 1 < bS B t → RE k N B m (.g t x) (.g t (x + 1))
  | gc (t : Nat) : t < B.length → RE k N B m (.g t (bS B t - 1)) (.c (bE B t))

/-- the letters of a list of columns -/
def lets (F : List UInt8) (w : List Nat) : List UInt8 := w.map (getF F)

theorem lets_append (F : List UInt8) (u v : List Nat) : lets F (u ++ v) = lets F u ++ lets F v := List.map_append

namespace DFam

variable {k : Nat} {F : List UInt8} {B : List (Nat × Nat)} {C : List (List Bool)}

theorem bt (h : DFam k F B C) {t : Nat} (ht : t < B.length) :
    bS B t < bE B t ∧ bE B t < bS B t + k ∧ 4 * k ≤ bS B t ∧ bE B t + 4 * k ≤ F.length ∧ shf k F B t + 3 ≤ k := by
  have := h.blk_t ht
  unfold bS bE
  omega

/-- behind a block its first `shf` letters repeat: up to `shf` columns behind the block spell the same as the
columns of the block -/
theorem lets_gap_cont (h : DFam k F B C) {t : Nat} (ht : t < B.length) {x a r : Nat} (hxa : x + a = bS B t)
    (hr : r ≤ shf k F B t) :
    lets F (List.range' x a ++ List.range' (bE B t) r) = lets F (List.range' x (a + r)) := by
  rw [← List.range'_append_1, lets_append, lets_append, hxa]
  congr 1
  unfold lets
  apply List.ext_getElem?
  intro i
  rw [List.getElem?_map, List.getElem?_map]
  by_cases hi : i < r
  · rw [List.getElem?_range' hi, List.getElem?_range' hi]
    simp only [Nat.one_mul, Option.map_some]
    congr 1
    have := h.sh_eq ht (i := i) (by omega)
    unfold bS bE
    rw [this]
  · rw [List.getElem?_eq_none (by simp; omega), List.getElem?_eq_none (by simp; omega)]

/-- the window of `k` columns of a sample splits into two nodes related by `RE`, as far as the letters go -/
theorem shape_edge (h : DFam k F B C) {c : List Bool} {u : List Nat} {x : Nat}
    (hs : Shape B c u x k) (hN : ∀ y ∈ u, y < F.length) :
    ∃ n n', RE k F.length B (shf k F B) n n' ∧ lets F (u.take (k - 1)) = lets F (n.cols k B) ∧
      lets F (u.drop 1) = lets F (n'.cols k B) := by
  have hk5 := h.k5
  rcases hs with rfl | ⟨t, ht, _, hxb, hbx, rfl⟩
  · refine ⟨.c x, .c (x + 1), RE.cc x ?_, ?_, ?_⟩
    · have := hN (x + k - 1) (by rw [List.mem_range'_1]; omega)
      omega
    · simp only [Nd.cols]
      rw [List.take_range'_of_length_ge (by omega)]
    · simp only [Nd.cols]
      rw [List.drop_range']
  · have hb := h.bt ht
    change x < bS B t at hxb
    change bS B t < x + k at hbx
    have hu : List.range' x ((B.getD t (0, 0)).1 - x) ++
        List.range' ((B.getD t (0, 0)).1 + (B.getD t (0, 0)).2) (k - ((B.getD t (0, 0)).1 - x)) =
        List.range' x (bS B t - x) ++ List.range' (bE B t) (k - (bS B t - x)) := rfl
    rw [hu]
    have htake : (List.range' x (bS B t - x) ++ List.range' (bE B t) (k - (bS B t - x))).take (k - 1) =
        List.range' x (bS B t - x) ++ List.range' (bE B t) (k - 1 - (bS B t - x)) := by
      rw [List.take_append, List.length_range', List.take_of_length_le (by simp; omega),
        List.take_range'_of_length_ge (by omega)]
    have hdrop : (List.range' x (bS B t - x) ++ List.range' (bE B t) (k - (bS B t - x))).drop 1 =
        List.range' (x + 1) (bS B t - (x + 1)) ++ List.range' (bE B t) (k - 1 - (bS B t - (x + 1))) := by
      rw [List.drop_append_of_le_length (by simp; omega), List.drop_range']
      congr 2 <;> omega
    have hN' : x + k ≤ F.length := by omega
    rw [htake, hdrop]
    by_cases h0 : k - (bS B t - x) ≤ shf k F B t
    · -- at most `shf` columns behind the block: both windows spell contiguous windows
      refine ⟨.c x, .c (x + 1), RE.cc x hN', ?_, ?_⟩
      · simp only [Nd.cols]
        rw [h.lets_gap_cont ht (by omega) (by omega)]
        congr 2
        omega
      · simp only [Nd.cols]
        by_cases hx1 : x + 1 = bS B t
        · -- the block starts right behind `x`
          rw [hx1, Nat.sub_self]
          have := h.lets_gap_cont ht (x := bS B t) (a := 0) (r := k - 1) (by omega) (by omega)
          rw [Nat.zero_add] at this
          simpa using this
        · rw [h.lets_gap_cont ht (by omega) (by omega)]
          congr 2
          omega
    · by_cases h1 : x = bS B t + shf k F B t - (k - 1)
      · -- the entry node
        refine ⟨.c (bS B t + shf k F B t - (k - 1)), .g t (bS B t + shf k F B t - (k - 1) + 1), RE.cg t ht, ?_, ?_⟩
        · simp only [Nd.cols]
          rw [h.lets_gap_cont ht (by omega) (by omega), h1]
          congr 2
          omega
        · simp only [Nd.cols]
          rw [h1]
      · by_cases h2 : x + 1 = bS B t
        · -- the last jumping node
          refine ⟨.g t (bS B t - 1), .c (bE B t), RE.gc t ht, ?_, ?_⟩
          · simp only [Nd.cols]
            rw [show bS B t - 1 = x by omega]
          · simp only [Nd.cols]
            rw [h2, Nat.sub_self]
            simp
        · refine ⟨.g t x, .g t (x + 1), RE.gg t x ht (by omega) (by omega), rfl, rfl⟩

end DFam

end SkaModel.LOE
