/-
C17 completeness — executable checkers of the intermediate statements (Stages 1 and 2), evaluated on
the test families before the statements are proved.
-/
import SkaModel.Lemmas.LOCFams

namespace SkaModel.LOC

open SkaModel SkaModel.Skalo SkaModel.Spec

/-- forward node: the `(k-1)`-mer of `s` at `j` -/
def fwN (W k : Nat) (s : List UInt8) (j : Nat) : Nat := encodeKmer W (win s j (k - 1))
/-- reverse node: its reverse complement -/
def rvN (W k : Nat) (s : List UInt8) (j : Nat) : Nat := encodeKmer W (rcSeq (win s j (k - 1)))

/-- the expected edges -/
def expEdges (W k L : Nat) (S : List (List UInt8)) : List (Nat × Nat) :=
  S.flatMap (fun s => (List.range (L + 1 - k)).flatMap (fun j =>
    [(fwN W k s j, fwN W k s (j + 1)), (rvN W k s (j + 1), rvN W k s j)]))

def graphEdges (g : Graph) : List (Nat × Nat) := g.flatMap (fun kn => kn.2.map (fun y => (kn.1, y)))

def decNodup (l : List Nat) : Bool := l.eraseDups.length == l.length

def checkEdges (W : Nat) (f : Fam) : Bool :=
  let g := (buildGraph W (famArr W f)).1
  let ee := expEdges W f.k f.L f.S
  (graphEdges g).all (fun e => ee.contains e) && ee.all (fun e => (succs g e.1).contains e.2) &&
    g.all (fun kn => decNodup kn.2)

def checkBranching (W : Nat) (f : Fam) : Bool :=
  let g := (buildGraph W (famArr W f)).1
  f.S.all (fun s =>
    (List.range (f.L + 1 - f.k)).all (fun j =>
      (decide (2 ≤ (succs g (fwN W f.k s j)).length) == f.P.contains (j + f.k - 1))) &&
    (List.range (f.L + 2 - f.k)).all (fun j =>
      j == 0 || (decide (2 ≤ (succs g (rvN W f.k s j)).length) == f.P.contains (j - 1))))

/-- the samples showing the same `k`-mer at `j` as `s` -/
def sameAt (k : Nat) (S : List (List UInt8)) (s : List UInt8) (j : Nat) : List Nat :=
  (S.zipIdx.filter (fun ti => win ti.1 j k == win s j k)).map (·.2)

def checkColours (W : Nat) (f : Fam) : Bool :=
  let col := (buildGraph W (famArr W f)).2
  f.S.all (fun s => (List.range (f.L + 1 - f.k)).all (fun j =>
    Assoc.lookup col (encodeKmer W (win s j f.k)) == some (sameAt f.k f.S s j) &&
    Assoc.lookup col (encodeKmer W (rcSeq (win s j f.k))) == some (sameAt f.k f.S s j)))

end SkaModel.LOC
