/-
C18 completeness — the columns of the samples of a deletion family: the column list of a sample is increasing;
every window of at most `k` consecutive columns of a sample is contiguous in `F` or jumps over exactly one
block the sample deletes; all such windows occur.
-/
import SkaModel.Lemmas.LOEDel
import SkaModel.Lemmas.LOCStr

namespace SkaModel.LOE

open SkaModel SkaModel.Skalo SkaModel.Spec SkaModel.LOC

/-- the window of `m` entries of a list of columns at index `j` -/
def cwin (K : List Nat) (j m : Nat) : List Nat := (K.drop j).take m

theorem cwin_length {K : List Nat} {j m : Nat} (h : j + m ≤ K.length) : (cwin K j m).length = m := by
  unfold cwin
  rw [List.length_take, List.length_drop]
  omega

theorem cwin_getElem? (K : List Nat) (j m i : Nat) (h : i < m) : (cwin K j m)[i]? = K[j + i]? := by
  unfold cwin
  rw [List.getElem?_take_of_lt h, List.getElem?_drop]

theorem cwin_succ {K : List Nat} {j m y : Nat} (h : K[j + m]? = some y) :
    cwin K j (m + 1) = cwin K j m ++ [y] := by
  have hlt : j + m < K.length := (List.getElem?_eq_some_iff.mp h).1
  apply List.ext_getElem?
  intro i
  by_cases hi : i < m
  · rw [cwin_getElem? _ _ _ _ (by omega), List.getElem?_append_left (by rw [cwin_length (by omega)]; exact hi),
      cwin_getElem? _ _ _ _ hi]
  · by_cases hi2 : i = m
    · subst hi2
      rw [cwin_getElem? _ _ _ _ (by omega), List.getElem?_append_right (by rw [cwin_length (by omega)]; omega),
        cwin_length (by omega), Nat.sub_self, h]
      rfl
    · rw [List.getElem?_eq_none (by rw [cwin_length (by omega)]; omega),
        List.getElem?_eq_none (by rw [List.length_append, cwin_length (by omega)]; simp; omega)]

theorem cwin_take (K : List Nat) (j m n : Nat) (h : n ≤ m) : (cwin K j m).take n = cwin K j n := by
  unfold cwin
  rw [List.take_take, Nat.min_eq_left h]

theorem cwin_drop (K : List Nat) (j m n : Nat) : (cwin K j m).drop n = cwin K (j + n) (m - n) := by
  unfold cwin
  rw [List.drop_take, List.drop_drop]

theorem win_map (F : List UInt8) (K : List Nat) (j m : Nat) :
    win (K.map (getF F)) j m = (cwin K j m).map (getF F) := by
  unfold win cwin
  rw [List.map_take, List.map_drop]

/-- an infix is a window -/
theorem cwin_of_infix {w K : List Nat} (h : w <:+: K) : ∃ j, j + w.length ≤ K.length ∧ cwin K j w.length = w := by
  obtain ⟨s, t, e⟩ := h
  refine ⟨s.length, ?_, ?_⟩
  · rw [← e]; simp only [List.length_append]; omega
  · unfold cwin
    rw [← e, List.append_assoc, List.drop_left, List.take_left]

/-- column `x` lies in the block `b` -/
def inBlk (b : Nat × Nat) (x : Nat) : Prop := b.1 ≤ x ∧ x < b.1 + b.2

instance (b : Nat × Nat) (x : Nat) : Decidable (inBlk b x) := inferInstanceAs (Decidable (_ ∧ _))

theorem keepB_iff (B : List (Nat × Nat)) (c : List Bool) (x : Nat) :
    keepB B c x = true ↔ ∀ t, t < B.length → c.getD t false = false → ¬ inBlk (B.getD t (0, 0)) x := by
  unfold keepB inBlk
  simp only [List.all_eq_true, List.mem_range, Bool.or_eq_true, Bool.not_eq_true', Bool.and_eq_false_iff,
    decide_eq_false_iff_not, not_and]
  constructor
  · intro h t ht hc h1
    rcases h t ht with h2 | h2 | h2
    · rw [hc] at h2; exact absurd h2 (by simp)
    · exact absurd h1 h2
    · exact h2
  · intro h t ht
    by_cases hc : c.getD t false = true
    · exact Or.inl hc
    · right
      have := h t ht (by simpa using hc)
      by_cases h1 : (B.getD t (0, 0)).1 ≤ x
      · exact Or.inr (this h1)
      · exact Or.inl h1

theorem keepB_false_iff (B : List (Nat × Nat)) (c : List Bool) (x : Nat) :
    keepB B c x = false ↔ ∃ t, t < B.length ∧ c.getD t false = false ∧ inBlk (B.getD t (0, 0)) x := by
  rw [← Bool.not_eq_true, keepB_iff]
  constructor
  · intro h
    apply Classical.byContradiction
    intro hn
    apply h
    intro t ht hc hb
    exact hn ⟨t, ht, hc, hb⟩
  · rintro ⟨t, ht, hc, hb⟩ h
    exact h t ht hc hb

theorem mem_keepCols (N : Nat) (B : List (Nat × Nat)) (c : List Bool) (x : Nat) :
    x ∈ keepCols N B c ↔ x < N ∧ keepB B c x = true := by
  unfold keepCols
  rw [List.mem_filter, List.mem_range]

theorem keepCols_sorted (N : Nat) (B : List (Nat × Nat)) (c : List Bool) :
    (keepCols N B c).Pairwise (· < ·) :=
  List.Pairwise.filter _ List.pairwise_lt_range

/-- in an increasing list larger indices hold larger entries, and conversely -/
theorem sorted_lt {K : List Nat} (hs : K.Pairwise (· < ·)) {i j x y : Nat} (hx : K[i]? = some x) (hy : K[j]? = some y) :
    i < j ↔ x < y := by
  obtain ⟨hi, rfl⟩ := List.getElem?_eq_some_iff.mp hx
  obtain ⟨hj, rfl⟩ := List.getElem?_eq_some_iff.mp hy
  have hp := List.pairwise_iff_getElem.mp hs
  constructor
  · intro h; exact hp i j hi hj h
  · intro h
    apply Classical.byContradiction
    intro hn
    have hji : j ≤ i := by omega
    rcases Nat.lt_or_eq_of_le hji with h2 | h2
    · have := hp j i hj hi h2; omega
    · subst h2; omega

/-- consecutive entries of the column list: nothing kept lies between them -/
theorem next_kept {N : Nat} {B : List (Nat × Nat)} {c : List Bool} {j x y : Nat}
    (hx : (keepCols N B c)[j]? = some x) (hy : (keepCols N B c)[j + 1]? = some y) :
    x < y ∧ y < N ∧ keepB B c x = true ∧ keepB B c y = true ∧ ∀ z, x < z → z < y → keepB B c z = false := by
  have hs := keepCols_sorted N B c
  have hxy := (sorted_lt hs hx hy).mp (by omega)
  have hxm := (mem_keepCols N B c x).mp (List.mem_of_getElem? hx)
  have hym := (mem_keepCols N B c y).mp (List.mem_of_getElem? hy)
  refine ⟨hxy, hym.1, hxm.2, hym.2, ?_⟩
  intro z hz1 hz2
  apply Classical.byContradiction
  intro hk
  have hzm : z ∈ keepCols N B c := (mem_keepCols N B c z).mpr ⟨by omega, by simpa using hk⟩
  obtain ⟨i, hi, hiz⟩ := List.getElem_of_mem hzm
  have hz : (keepCols N B c)[i]? = some z := by rw [List.getElem?_eq_getElem hi, hiz]
  have h1 := (sorted_lt hs hx hz).mpr hz1
  have h2 := (sorted_lt hs hz hy).mpr hz2
  omega

end SkaModel.LOE
