/-
C18 completeness — the caller on a graph of bubbles that come in strand pairs (twins): `dereplicate` keeps
exactly one bubble of every pair, `process_indels` returns the record of each kept bubble, and `analyse`
reports no SNP column because every SNP group starts at an extremity of a kept bubble.
-/
import SkaModel.Lemmas.LOEBubG
import SkaModel.Props.C18Derep

namespace SkaModel.LOE

open SkaModel SkaModel.Skalo SkaModel.Props.C17G SkaModel.LOG SkaModel.LOC SkaModel.Props.C18

instance : Inhabited Bub := ⟨⟨0, 0, [], []⟩⟩

/-- the group handed to `dereplicate` for a bubble -/
def tg (kG : Nat) (β : Bub) : IndelGroup :=
  { entry := β.en, exit := β.ex, len := (kG + β.a.length + 1) + (kG + β.b.length + 1) }

theorem toGroup_bubGroup (W kG : Nat) (starts ends : List Nat) (β : Bub) (o : Bool) :
    LOP.toGroup (bubGroup W kG starts ends β o) = tg kG β := by
  obtain ⟨v0, v1, e, hl⟩ := bubVs_lengths W kG starts ends β o
  unfold LOP.toGroup bubGroup tg
  simp only [e, List.map_cons, List.map_nil, List.sum_cons, List.sum_nil, IndelGroup.mk.injEq, true_and]
  rcases hl with ⟨e0, e1⟩ | ⟨e0, e1⟩ <;> rw [e0, e1] <;> omega

/-- the bubbles come in pairs: a bubble of one strand and its twin on the other strand -/
structure Twins (W kG : Nat) (bs : List Bub) (pairs : List (Bub × Bub)) : Prop where
  cover : ∀ β, β ∈ bs ↔ ∃ p ∈ pairs, β = p.1 ∨ β = p.2
  rc1 : ∀ p ∈ pairs, p.2.en = revComp W p.1.ex kG
  rc2 : ∀ p ∈ pairs, p.1.en = revComp W p.2.ex kG
  rc3 : ∀ p ∈ pairs, revComp W p.1.en kG = p.2.ex
  rc4 : ∀ p ∈ pairs, revComp W p.2.en kG = p.1.ex
  enex : ∀ β ∈ bs, ∀ γ ∈ bs, β.en ≠ γ.ex
  pnd : (pairs.map (·.1.en) ++ pairs.map (·.2.en)).Nodup

namespace Twins

variable {W kG : Nat} {bs : List Bub} {pairs : List (Bub × Bub)}

theorem mem1 (tw : Twins W kG bs pairs) {p : Bub × Bub} (hp : p ∈ pairs) : p.1 ∈ bs :=
  (tw.cover _).mpr ⟨p, hp, Or.inl rfl⟩

theorem mem2 (tw : Twins W kG bs pairs) {p : Bub × Bub} (hp : p ∈ pairs) : p.2 ∈ bs :=
  (tw.cover _).mpr ⟨p, hp, Or.inr rfl⟩

theorem htw (tw : Twins W kG bs pairs) : ∀ β ∈ bs, ∃ β' ∈ bs, revComp W β.en kG = β'.ex := by
  intro β hβ
  obtain ⟨p, hp, e | e⟩ := (tw.cover β).mp hβ
  · exact ⟨p.2, tw.mem2 hp, by rw [e]; exact tw.rc3 p hp⟩
  · exact ⟨p.1, tw.mem1 hp, by rw [e]; exact tw.rc4 p hp⟩

theorem htw' (tw : Twins W kG bs pairs) : ∀ β' ∈ bs, ∃ β ∈ bs, revComp W β.en kG = β'.ex := by
  intro β hβ
  obtain ⟨p, hp, e | e⟩ := (tw.cover β).mp hβ
  · exact ⟨p.2, tw.mem2 hp, by rw [e]; exact tw.rc4 p hp⟩
  · exact ⟨p.1, tw.mem1 hp, by rw [e]; exact tw.rc3 p hp⟩

/-- entries of the two bubbles of a pair differ; entries of different pairs differ -/
theorem en_cases (tw : Twins W kG bs pairs) {p q : Bub × Bub} (hp : p ∈ pairs) (hq : q ∈ pairs) :
    p.1.en ≠ q.2.en ∧ (p.1.en = q.1.en → p = q) ∧ (p.2.en = q.2.en → p = q) := by
  have hnd := tw.pnd
  rw [List.nodup_append] at hnd
  obtain ⟨h1, h2, h3⟩ := hnd
  refine ⟨?_, ?_, ?_⟩
  · exact h3 _ (List.mem_map.mpr ⟨p, hp, rfl⟩) _ (List.mem_map.mpr ⟨q, hq, rfl⟩)
  · intro e
    exact LOP.eq_of_key_eq (fun (p : Bub × Bub) => p.1.en) pairs h1 p q hp hq e
  · intro e
    exact LOP.eq_of_key_eq (fun (p : Bub × Bub) => p.2.en) pairs h2 p q hp hq e

end Twins

theorem zip_map_self {α β γ : Type} (f : α → β) (g : α × β → γ) :
    ∀ l : List α, (l.zip (l.map f)).map g = l.map (fun x => g (x, f x))
  | [] => rfl
  | a :: l => by
    rw [List.map_cons, List.zip_cons_cons, List.map_cons, List.map_cons, zip_map_self f g l]

theorem foldlM_skip {α β : Type} (f : β → α → Option β) :
    ∀ (l : List α) (init : β), (∀ x ∈ l, ∀ acc, f acc x = some acc) → l.foldlM f init = some init := by
  intro l
  induction l with
  | nil => intro init _; rfl
  | cons a l ih =>
    intro init h
    rw [List.foldlM_cons, h a (List.mem_cons_self ..) init]
    exact ih init (fun x hx => h x (List.mem_cons_of_mem _ hx))

/-- `analyse` when every SNP group starts at an indel extremity: no column -/
theorem analyse_skip (W kG n mNum mDen ik : Nat) (col : Colours) (gr : Groups) (recs : List IndelRec)
    (ext : List Nat) (hp : processIndels W kG n mNum mDen col gr.indelGroups = some (recs, ext))
    (hs : ∀ kv ∈ gr.snpGroups, kv.1.1 ∈ ext) :
    analyse W kG n mNum mDen ik col gr = some ([], recs) := by
  unfold analyse
  rw [hp]
  simp only [Option.bind_eq_bind, Option.bind_some]
  rw [foldlM_skip]
  · rfl
  · intro kv hkv acc
    rw [LORL.mem_foldr_insertByRatio, List.mem_filter, List.mem_mergeSort, List.mem_map] at hkv
    obtain ⟨⟨kv0, hkv0, rfl⟩, _⟩ := hkv
    have : kv0.1.1 ∈ ext := hs kv0 hkv0
    simp [this]

/-- **`dereplicate` keeps exactly one bubble of every pair** -/
theorem derep_twins {W kG : Nat} {bs : List Bub} {pairs : List (Bub × Bub)} (tw : Twins W kG bs pairs)
    (gs : List IndelGroup) (hgs : ∀ x, x ∈ gs ↔ ∃ β ∈ bs, x = tg kG β) :
    ∃ flips : List Bool, flips.length = pairs.length ∧
      (dereplicate W kG gs).1.Perm ((pairs.zip flips).map (fun pf => tg kG (if pf.2 then pf.1.2 else pf.1.1))) ∧
      ∀ β ∈ bs, β.en ∈ (dereplicate W kG gs).2 := by
  obtain ⟨hsub, hpw, hpw2, hdrop, hext⟩ := T18_derep W kG gs
  -- not both
  have hnotboth : ∀ p ∈ pairs, ¬ (tg kG p.1 ∈ (dereplicate W kG gs).1 ∧ tg kG p.2 ∈ (dereplicate W kG gs).1) := by
    rintro p hp ⟨h1, h2⟩
    refine T18_derep_twin W kG gs (tg kG p.1) (tg kG p.2) h1 h2 ?_ (tw.rc1 p hp) (tw.rc2 p hp)
    intro e
    have : p.1.en = p.2.en := congrArg IndelGroup.entry e
    exact (tw.en_cases hp hp).1 this
  -- at least one
  have hone : ∀ p ∈ pairs, tg kG p.1 ∈ (dereplicate W kG gs).1 ∨ tg kG p.2 ∈ (dereplicate W kG gs).1 := by
    intro p hp
    apply Classical.byContradiction
    intro hno
    have hn1 : tg kG p.1 ∉ (dereplicate W kG gs).1 := fun h => hno (Or.inl h)
    have hn2 : tg kG p.2 ∉ (dereplicate W kG gs).1 := fun h => hno (Or.inr h)
    obtain ⟨c, hc, hmem⟩ := hdrop (tg kG p.1) ((hgs _).mpr ⟨p.1, tw.mem1 hp, rfl⟩) hn1
    obtain ⟨γ, hγ, rfl⟩ := (hgs c).mp (hsub c hc)
    obtain ⟨q, hq, hγq⟩ := (tw.cover γ).mp hγ
    simp only [extremities, tg, List.mem_cons, List.not_mem_nil, or_false] at hmem
    have hp1 := tw.mem1 hp
    rcases hγq with rfl | rfl
    · rcases hmem with h | h | h | h
      · have := (tw.en_cases hp hq).2.1 h
        subst this
        exact hn1 hc
      · rw [tw.rc3 q hq] at h
        exact tw.enex _ hp1 _ (tw.mem2 hq) h
      · exact tw.enex _ hp1 _ (tw.mem1 hq) h
      · rw [← tw.rc1 q hq] at h
        exact (tw.en_cases hp hq).1 h
    · rcases hmem with h | h | h | h
      · exact (tw.en_cases hp hq).1 h
      · rw [tw.rc4 q hq] at h
        exact tw.enex _ hp1 _ (tw.mem1 hq) h
      · exact tw.enex _ hp1 _ (tw.mem2 hq) h
      · rw [← tw.rc2 q hq] at h
        have := (tw.en_cases hp hq).2.1 h
        subst this
        exact hn2 hc
  -- the flips
  refine ⟨pairs.map (fun p => decide (tg kG p.2 ∈ (dereplicate W kG gs).1)), by simp, ?_, ?_⟩
  · have hzip : (pairs.zip (pairs.map (fun p => decide (tg kG p.2 ∈ (dereplicate W kG gs).1)))).map
        (fun pf => tg kG (if pf.2 then pf.1.2 else pf.1.1)) =
        pairs.map (fun p => tg kG (if decide (tg kG p.2 ∈ (dereplicate W kG gs).1) then p.2 else p.1)) := by
      rw [zip_map_self]
    rw [hzip]
    have hkn : (dereplicate W kG gs).1.Nodup := by
      apply hpw2.imp
      intro a b hab e
      exact hab (by rw [e])
    apply (List.perm_ext_iff_of_nodup hkn ?_).mpr
    · intro x
      rw [List.mem_map]
      constructor
      · intro hx
        obtain ⟨β, hβ, rfl⟩ := (hgs x).mp (hsub x hx)
        obtain ⟨p, hp, e | e⟩ := (tw.cover β).mp hβ
        · refine ⟨p, hp, ?_⟩
          have : tg kG p.2 ∉ (dereplicate W kG gs).1 := fun h => hnotboth p hp ⟨by rw [← e]; exact hx, h⟩
          rw [if_neg (by simpa using this), e]
        · refine ⟨p, hp, ?_⟩
          rw [if_pos (by rw [← e]; simpa using hx), e]
      · rintro ⟨p, hp, rfl⟩
        by_cases h2 : tg kG p.2 ∈ (dereplicate W kG gs).1
        · rw [if_pos (by simpa using h2)]; exact h2
        · rw [if_neg (by simpa using h2)]
          rcases hone p hp with h | h
          · exact h
          · exact absurd h h2
    · -- the right-hand side has distinct entries
      rw [List.nodup_iff_pairwise_ne, List.pairwise_map]
      have hpp : pairs.Pairwise (· ≠ ·) := by
        have := tw.pnd
        rw [List.nodup_append] at this
        have h1 := List.nodup_iff_pairwise_ne.mp this.1
        rw [List.pairwise_map] at h1
        exact h1.imp (fun h e => h (by rw [e]))
      refine hpp.imp_of_mem ?_
      intro p q hp hq hne e
      have he : (if decide (tg kG p.2 ∈ (dereplicate W kG gs).1) then p.2 else p.1).en =
          (if decide (tg kG q.2 ∈ (dereplicate W kG gs).1) then q.2 else q.1).en := congrArg IndelGroup.entry e
      by_cases h1 : tg kG p.2 ∈ (dereplicate W kG gs).1 <;> by_cases h2 : tg kG q.2 ∈ (dereplicate W kG gs).1
      · rw [if_pos (by simpa using h1), if_pos (by simpa using h2)] at he
        exact hne ((tw.en_cases hp hq).2.2 he)
      · rw [if_pos (by simpa using h1), if_neg (by simpa using h2)] at he
        exact (tw.en_cases hq hp).1 he.symm
      · rw [if_neg (by simpa using h1), if_pos (by simpa using h2)] at he
        exact (tw.en_cases hp hq).1 he
      · rw [if_neg (by simpa using h1), if_neg (by simpa using h2)] at he
        exact hne ((tw.en_cases hp hq).2.1 he)
  · intro β hβ
    rw [hext, List.mem_flatMap]
    obtain ⟨p, hp, e | e⟩ := (tw.cover β).mp hβ
    · rcases hone p hp with h | h
      · exact ⟨_, h, by rw [e]; simp [extremities, tg]⟩
      · refine ⟨_, h, ?_⟩
        rw [e, tw.rc2 p hp]
        simp [extremities, tg]
    · rcases hone p hp with h | h
      · refine ⟨_, h, ?_⟩
        rw [e, tw.rc1 p hp]
        simp [extremities, tg]
      · exact ⟨_, h, by rw [e]; simp [extremities, tg]⟩

end SkaModel.LOE
