/-
C18 completeness — a small deterministic generator of indel-planted families (for `#eval` tests of every
statement before it is proved) and the Stage-0 classification of the outcomes of the pipeline.
-/
import SkaModel.Lemmas.LOEDefs
import SkaModel.Lemmas.LOCGen

namespace SkaModel.LOE

open SkaModel SkaModel.Skalo SkaModel.Spec SkaModel.LOC

/-- one insert for the ancestor `A` at `p`: `len` letters, shift ambiguity `m` wanted (to the right);
for `m ≥ len` the ancestor is made periodic behind `p`.  Returns the (possibly edited) ancestor and the insert -/
def genInsert (A : List UInt8) (p len m x : Nat) : List UInt8 × List UInt8 := Id.run do
  if m < len then
    -- the first `m` letters repeat the ancestor's; the next differs; the last differs from the letter before `p`
    let mut ins : List UInt8 := win A p m
    let mut y := x
    for i in [m:len] do
      y := lcg y
      let r := y / 2 ^ 33
      let avoid1 := if i == m then A.getD (p + m) 0 else 0
      let avoid2 := if i + 1 == len then A.getD (p - 1) 0 else 0
      let cands := ([65, 67, 71, 84] : List UInt8).rotateLeft (r % 4) |>.filter (fun b => b != avoid1 && b != avoid2)
      ins := ins ++ [cands.headD 65]
    return (A, ins)
  else
    -- periodic continuation of `A[p .. p+len)` up to `p + m`, then a letter that breaks the period
    let mut B := A
    for i in [len:m] do
      B := B.set (p + i) (B.getD (p + i - len) 0)
    let brk := B.getD (p + m - len) 0
    if B.getD (p + m) 0 == brk then
      let cands := ([65, 67, 71, 84] : List UInt8).rotateLeft (x % 4) |>.filter (fun b => b != brk)
      B := B.set (p + m) (cands.headD 65)
    return (B, win B p len)

/-- family: `nS` samples; one indel per entry `(len, m)` of `specs` (`4k + gap` apart); `none` when no seed works -/
def genIFam (k nS : Nat) (specs : List (Nat × Nat)) (gap seed0 : Nat) (strict : Bool := false) : Option IFam := Id.run do
  let nD := specs.length
  let P := (List.range nD).map (fun i => 4 * k + i * (4 * k + gap))
  let L := (P.getLastD 0) + 4 * k + gap
  let mut seed := seed0
  for _ in [0:400] do
    seed := lcg seed
    match genAncestor (k - 1) L seed with
    | none => pure ()
    | some A0 =>
      let mut A := A0
      let mut D : List (Nat × List UInt8) := []
      let mut x := seed
      for t in [0:nD] do
        x := lcg x
        let p := P.getD t 0
        let (len, m) := specs.getD t (1, 0)
        let (A', ins) := genInsert A p len m (x / 2 ^ 20)
        A := A'
        D := D ++ [(p, ins)]
      -- carriers: sample `t % nS` carries indel `t`, sample `(t+1) % nS` does not, the others by the seed
      let mut C : List (List Bool) := []
      for i in [0:nS] do
        let mut c : List Bool := []
        for t in [0:nD] do
          x := lcg x
          c := c ++ [if i == t % nS then true else if i == (t + 1) % nS then false else (x / 2 ^ 40) % 2 == 0]
        C := C ++ [c]
      let f : IFam := { k := k, A := A, D := D, C := C }
      let shiftsOk := (D.zip specs).all (fun ds => shiftOf A ds.1 == ds.2.2)
      if basicB f && shiftsOk && weakUniqueB (k - 1) f.S && (!strict || alignedLRB (k - 1) f.A f.D f.C) then return some f
  return none

/-- the outcome of one run -/
structure Outcome where
  panic : Bool                 -- `lo` returned `none`
  nCols : Nat                  -- SNP columns reported
  nRecs : Nat                  -- indel records reported
  exact : List Nat             -- per planted indel: records equal to the expected record (either strand)
  loose : List Nat             -- per planted indel: records with the expected flank before and insert (either strand), anything else
  sound : Bool                 -- every record is sound (`recSoundB`)
  ok : Bool                    -- `indelCompleteOn`
  deriving Repr, BEq

def sameIndel (f : IFam) (t : Nat) (d : Nat × List UInt8) (r : IndelRec) : Bool :=
  let e1 := expFw f.k f.A d
  let e2 := expRv f.k f.A d
  let _ := t
  ((r.before == e1.1 || r.before == e2.1) &&
    ((r.ref == e1.2.1 || r.alt == e1.2.1) || (r.ref == e2.2.1 || r.alt == e2.2.1)))

def runOne (W : Nat) (f : IFam) (mNum mDen ik maxDepth : Nat) : Outcome :=
  match lo W f.k f.C.length mNum mDen ik maxDepth (f.arr W) with
  | none => { panic := true, nCols := 0, nRecs := 0, exact := [], loose := [], sound := false, ok := false }
  | some (cols, recs) =>
    { panic := false, nCols := cols.length, nRecs := recs.length,
      exact := f.D.zipIdx.map (fun dt => (recs.filter (fun r =>
        r == expRec f.C dt.2 (expFw f.k f.A dt.1) || r == expRec f.C dt.2 (expRv f.k f.A dt.1))).length),
      loose := f.D.zipIdx.map (fun dt => (recs.filter (sameIndel f dt.2 dt.1)).length),
      sound := recs.all (recSoundB f.S),
      ok := cols.isEmpty && recsMatchB f recs }

/-- the settings of Stage 0: (mNum, mDen, ik, maxDepth) -/
def settings : List (Nat × Nat × Nat × Nat) :=
  [(0, 1, 2, 0), (1, 10, 2, 0), (1, 2, 2, 0), (0, 1, 2, 1), (1, 10, 0, 1), (1, 2, 2, 1), (0, 1, 2, 4), (1, 10, 2, 4), (1, 2, 0, 4)]

def runAll (f : IFam) : List Outcome :=
  settings.map (fun s => runOne 64 f s.1 s.2.1 s.2.2.1 s.2.2.2)

/-- summary line of a family -/
def summary (f : IFam) : String :=
  let outs := runAll f
  let sh := f.D.map (shiftOf f.A)
  let lens := f.D.map (·.2.length)
  s!"k={f.k} nS={f.C.length} lens={lens} shifts={sh} aligned={alignedB (f.k - 1) f.A f.D f.C} alignedLR={alignedLRB (f.k - 1) f.A f.D f.C} samenorm={samplesOf f.A (normD false f.A f.D) f.C == f.S && samplesOf f.A (normD true f.A f.D) f.C == f.S} " ++
  s!"ok={outs.map (·.ok)} sound={outs.all (·.sound)} panic={outs.any (·.panic)} cols={outs.map (·.nCols)} " ++
  s!"recs={outs.map (·.nRecs)} exact={(outs.map (·.exact)).eraseDups} loose={(outs.map (·.loose)).eraseDups}"

end SkaModel.LOE
