/-
C17 completeness — every spanning group within the depth budget is reported: from the entry node of a
site `p` to the exit node of the site reached after at most `maxDepth` steps to the next site.
-/
import SkaModel.Lemmas.LOCGroupsAll

namespace SkaModel.LOC

open SkaModel SkaModel.Spec SkaModel.Props.C16 SkaModel.Skalo SkaModel.Props.C17G SkaModel.LOG

theorem lastSite_getLast : ∀ (ch : List (Nat × List UInt8)) (p : Nat),
    (p :: ch.map (·.1)).getLast (by simp) = lastSite p ch := by
  intro ch
  induction ch with
  | nil => intro p; rfl
  | cons x rest ih =>
    intro p
    obtain ⟨q, tq⟩ := x
    simp only [List.map_cons, lastSite]
    rw [List.getLast_cons (by simp)]
    exact ih q

theorem getLast_eq_getLastD' (l : List Nat) (h : l ≠ []) (d : Nat) : l.getLast h = l.getLastD d := by
  rw [List.getLastD_eq_getLast?, List.getLast?_eq_some_getLast h]
  rfl

/-- a path reported for a walk ends with the last node of the walk when that node starts no segment -/
theorem pathOf_last (comp : List (Nat × List Nat)) (vec : List Nat) :
    ∀ (w : List Nat) (hne : w ≠ []), interior comp (w.getLast hne) = [] →
      ∃ pre, pathOf comp vec w = pre ++ [w.getLast hne] := by
  intro w
  induction w generalizing vec with
  | nil => intro hne; exact absurd rfl hne
  | cons n rest ih =>
    intro hne hi
    cases rest with
    | nil =>
      simp only [List.getLast_singleton] at hi ⊢
      exact ⟨vec, by simp [pathOf, hi]⟩
    | cons m rest' =>
      rw [List.getLast_cons (by simp)] at hi ⊢
      obtain ⟨pre, hpre⟩ := ih (vec ++ n :: interior comp n) (by simp) hi
      refine ⟨pre, ?_⟩
      rw [← hpre]
      simp [pathOf]

/-- the arm of the last choice is a node of the walk (preceded by the first arm) -/
theorem last_arm_mem (k : Nat) : ∀ (ch : List (Nat × List UInt8)) (t : List UInt8) (p : Nat),
    fN k (lastSample t ch) (lastSite p ch - k + 2) ∈ fN k t (p - k + 2) :: walkOf k t p ch
  | [], t, p => by simp [lastSample, lastSite]
  | (q, tq) :: rest, t, p => by
    have := last_arm_mem k rest tq q
    simp only [lastSample, lastSite, walkOf]
    simp only [List.mem_cons] at this ⊢
    rcases this with h | h
    · right; right; right; right; left
      exact h
    · right; right; right; right; right
      exact h

namespace Strand

variable {k L : Nat} {g : Graph} {T T' : List (List UInt8)} {PT PT' : List Nat}

/-- **every spanning group within the depth budget is reported** -/
theorem spanning (st : Strand k L g T PT T' PT') {starts ends : List Nat}
    (ex : Ext k starts ends T PT T' PT') {W : Nat} (hW : 2 * k ≤ W) (maxDepth : Nat)
    {t : List UInt8} (ht : t ∈ T) {p : Nat} (hp : p ∈ PT) (qs : List Nat) (hqs : SitesOK PT p qs)
    (hlen : qs.length ≤ maxDepth) :
    ∃ grp ∈ groupsFrom W (k - 1) (compactGraph g starts ends).1 (compactGraph g starts ends).2
      starts ends maxDepth (fN k t (p - k + 1)),
      grp.1 = (fN k t (p - k + 1), fN k t ((p :: qs).getLast (by simp) + 1)) ∧ 2 ≤ grp.2.length := by
  have hk5 := st.k5
  have hpe := st.pf.ends p hp
  have hc0 : p - k + 1 + (k - 1) ≤ L := by omega
  -- the choices: sample `r` at every later site
  have hch : ∀ r : List UInt8, (qs.map (fun q => (q, r))).map (·.1) = qs := by
    intro r
    rw [List.map_map]
    exact List.map_id' _
  have hpl : ∀ r : List UInt8, lastSite p (qs.map (fun q => (q, r))) = (p :: qs).getLast (by simp) := by
    intro r
    rw [← lastSite_getLast]
    simp only [hch r]
  obtain ⟨hplm, hple⟩ := lastSite_mem (qs.map (fun q => (q, t))) p hp (by rw [hch t]; exact hqs)
  rw [hpl t] at hplm hple
  generalize hPL : (p :: qs).getLast (by simp) = pl at hplm hple hpl ⊢
  have hple' := st.pf.ends pl hplm
  obtain ⟨s, hs, s', hs', hne⟩ := st.pf.poly p hp
  obtain ⟨r, hr, r', hr', hner⟩ := st.pf.poly pl hplm
  -- the found pair of a start sample `a` and a later sample `b`
  have hfound : ∀ a ∈ T, ∀ b ∈ T, (fN k t (pl + 1), pathOf (compactGraph g starts ends).2
      ([fN k t (p - k + 1), fN k a (p - k + 2)] ++ interior (compactGraph g starts ends).2 (fN k a (p - k + 2)))
      (walkOf k a p (qs.map (fun q => (q, b))))) ∈ _ := fun a ha b hb =>
    (st.found_strand ex maxDepth (compactGraph g starts ends).2 ht hp _).mpr
      ⟨a, ha, qs.map (fun q => (q, b)), by rw [hch b]; exact hqs, by
        intro x hx
        obtain ⟨q, _, rfl⟩ := List.mem_map.mp hx
        exact hb, by simpa using hlen, by
        rw [walkOf_last, hpl b]
        simp only [Prod.mk.injEq, and_true]
        exact st.exit_congr ht (lastSample_mem _ a ha (by
          intro x hx
          obtain ⟨q, _, rfl⟩ := List.mem_map.mp hx
          exact hb)) hplm⟩
  obtain ⟨ps, hps, hsin⟩ := pathsFrom_of_found (hfound s hs r hr)
  have hs'in := (mem_pathsFrom_paths hps _).mpr (hfound s' hs' r' hr')
  have hck : Assoc.lookup (compactGraph g starts ends).2 (fN k t (p - k + 1)) = none :=
    comp_none g starts ends _ (st.entry_not_src starts ends ht hp)
  have hce : Assoc.lookup (compactGraph g starts ends).2 (fN k t (pl + 1)) = none :=
    comp_none g starts ends _ (st.exit_not_src ex ht hplm)
  have hwalk := pathsFrom_walk (compactGraph_sound g starts ends) hck hps
  -- facts about the path of a pair of samples
  have hfacts : ∀ a ∈ T, ∀ b ∈ T, ∀ pth, pth = pathOf (compactGraph g starts ends).2
      ([fN k t (p - k + 1), fN k a (p - k + 2)] ++ interior (compactGraph g starts ends).2 (fN k a (p - k + 2)))
      (walkOf k a p (qs.map (fun q => (q, b)))) → pth ∈ ps →
      pth.getD 1 0 = fN k a (p - k + 2) ∧
      ∃ c ∈ T, pth.getD (pth.length - 2) 0 = fN k c pl ∧
        c.getD pl 0 = (lastSample a (qs.map (fun q => (q, b)))).getD pl 0 := by
    intro a ha b hb pth hpth hin
    have hsamp : ∀ x ∈ qs.map (fun q => (q, b)), x.2 ∈ T := by
      intro x hx
      obtain ⟨q, _, rfl⟩ := List.mem_map.mp hx
      exact hb
    have hlsT := lastSample_mem _ a ha hsamp
    have hw := hwalk pth hin
    have hh : pth.head? = some (fN k t (p - k + 1)) := by rw [hpth]; rfl
    have h1 : pth.getD 1 0 = fN k a (p - k + 2) := by rw [hpth]; rfl
    -- the last node
    have hwl : (walkOf k a p (qs.map (fun q => (q, b)))).getLast (walkOf_ne_nil k a p _) = fN k t (pl + 1) := by
      have := walkOf_last k (qs.map (fun q => (q, b))) a p
      rw [hpl b] at this
      rw [getLast_eq_getLastD' _ _ 0, this]
      exact (st.exit_congr ht hlsT hplm).symm
    obtain ⟨pre, hpre⟩ := pathOf_last (compactGraph g starts ends).2
      ([fN k t (p - k + 1), fN k a (p - k + 2)] ++ interior (compactGraph g starts ends).2 (fN k a (p - k + 2)))
      _ (walkOf_ne_nil k a p _) (by rw [hwl]; unfold interior; rw [hce]; rfl)
    rw [hwl, ← hpth] at hpre
    have hlastq : pth[pth.length - 1]? = some (fN k t (pl + 1)) := by
      rw [hpre, List.length_append, List.length_singleton, Nat.add_sub_cancel,
        List.getElem?_append_right (Nat.le_refl _), Nat.sub_self]
      rfl
    obtain ⟨tl, htl, hel, hlvl⟩ := st.walk_levels pth t (p - k + 1) ht hc0 hw hh _ _ hlastq
    have hlen2 : 2 ≤ pth.length := by rw [hpth]; simp [pathOf]
    have hn : pth.length = pl + 2 - (p - k + 1) := by
      have := (st.node_level ht htl (by omega) hlvl hel).1
      omega
    refine ⟨h1, ?_⟩
    obtain ⟨hv1, _, hv3, _⟩ := st.variant_spec hW starts ends ht hc0 hw hh
    -- the arm of the last choice on the path
    have hxin : fN k (lastSample a (qs.map (fun q => (q, b)))) (pl - k + 2) ∈ pth := by
      have := last_arm_mem k (qs.map (fun q => (q, b))) a p
      rw [hpl b] at this
      rw [hpth]
      rcases List.mem_cons.mp this with h | h
      · unfold pathOf
        rw [h]
        simp
      · exact mem_pathOf _ _ _ _ h
    obtain ⟨i, hi, hxi⟩ := List.getElem_of_mem hxin
    obtain ⟨ti, hti, hxe, hlv, hwv⟩ := hv3 i _ (List.getElem?_eq_getElem hi)
    rw [hxi] at hxe
    obtain ⟨hlevel, hwq⟩ := st.node_level hlsT hti (by omega) hlv hxe
    rw [← hlevel] at hwv
    -- the second-last node
    have hidx : pth[pl - (p - k + 1)]? = some pth[pl - (p - k + 1)] := List.getElem?_eq_getElem (by omega)
    obtain ⟨c, hc, hce', _, hwc⟩ := hv3 _ _ hidx
    refine ⟨c, hc, ?_, ?_⟩
    · rw [hn, show pl + 2 - (p - k + 1) - 2 = pl - (p - k + 1) by omega, List.getD_eq_getElem?_getD, hidx, hce']
      simp only [Option.getD_some]
      congr 1
      omega
    · have e1 := (win_eq_iff (by rw [hv1, hn]; omega) (by rw [st.pf.len hti]; omega)).mp hwv (k - 2) (by omega)
      have e2 := (win_eq_iff (by rw [st.pf.len hlsT]; omega) (by rw [st.pf.len hti]; omega)).mp hwq (k - 2) (by omega)
      have e3 := (win_eq_iff (by rw [hv1, hn]; omega) (by rw [st.pf.len hc]; omega)).mp hwc 0 (by omega)
      rw [show pl - k + 2 + (k - 2) = pl by omega] at e1 e2
      rw [show p - k + 1 + (pl - (p - k + 1)) + 0 = pl by omega,
        show pl - (p - k + 1) + 0 = i + (k - 2) by omega] at e3
      rw [← e3, e1, ← e2]
  obtain ⟨hs1, c1, hc1, hsa, hap⟩ := hfacts s hs r hr _ rfl hsin
  obtain ⟨hs1', c1', hc1', hsa', hap'⟩ := hfacts s' hs' r' hr' _ rfl hs'in
  have harm : fN k s (p - k + 2) ≠ fN k s' (p - k + 2) :=
    st.arm_ne hs hs' hp hne (by omega) (by omega) (by omega)
  -- the last samples differ at the last site
  have hlastdiff : (lastSample s (qs.map (fun q => (q, r)))).getD pl 0 ≠
      (lastSample s' (qs.map (fun q => (q, r')))).getD pl 0 := by
    cases qs with
    | nil =>
      simp only [List.map_nil, lastSample]
      have : pl = p := by rw [← hPL]; rfl
      rw [this]
      exact hne
    | cons q rest =>
      have hls : ∀ (a b : List UInt8) (l : List Nat) , l ≠ [] → lastSample a (l.map (fun q => (q, b))) = b := by
        intro a b l
        induction l generalizing a with
        | nil => intro h; exact absurd rfl h
        | cons x xs ih =>
          intro _
          simp only [List.map_cons, lastSample]
          cases xs with
          | nil => rfl
          | cons y ys => exact ih b (by simp)
      rw [hls s r _ (by simp), hls s' r' _ (by simp)]
      exact hner
  have hlastne : fN k c1 pl ≠ fN k c1' pl :=
    st.arm_ne hc1 hc1' hplm (by rw [hap, hap']; exact hlastdiff) (Nat.le_refl _) (by omega) (by omega)
  have hsec : (ps.map (fun v => v.getD 1 0)).eraseDups.length > 1 := by
    apply (SNP.two_le_eraseDups_iff _).mpr
    exact ⟨_, List.mem_map.mpr ⟨_, hsin, rfl⟩, _, List.mem_map.mpr ⟨_, hs'in, rfl⟩, by
      rw [hs1, hs1']; exact harm⟩
  have hsl : (ps.map (fun v => v.getD (v.length - 2) 0)).eraseDups.length > 1 := by
    apply (SNP.two_le_eraseDups_iff _).mpr
    exact ⟨_, List.mem_map.mpr ⟨_, hsin, rfl⟩, _, List.mem_map.mpr ⟨_, hs'in, rfl⟩, by
      rw [hsa, hsa']; exact hlastne⟩
  have hps2 : 2 ≤ ps.length := by
    apply SNP.two_le_length_of_mem_ne hsin hs'in
    intro e
    apply harm
    rw [← hs1, ← hs1', e]
  have hgrp := (mem_groupsFrom W (k - 1) (compactGraph g starts ends).1 (compactGraph g starts ends).2 starts ends
    maxDepth (fN k t (p - k + 1)) _).mpr ⟨by
      rw [List.any_eq_true]
      exact ⟨_, hps, by simp only [gt_iff_lt, decide_eq_true_eq]; omega⟩, fN k t (pl + 1), ps, hps, hsec, hsl, rfl⟩
  refine ⟨_, hgrp, rfl, ?_⟩
  obtain ⟨p', hp', _, hkey, ⟨paths, hpaths, hv⟩, _⟩ := st.group_good ex hW maxDepth ht hp hgrp
  simp only [Prod.mk.injEq, true_and] at hkey
  rw [← hkey] at hpaths
  have e1 := ((mem_pathsFrom _ _ _ _ _ _ _).mp hpaths).2
  have e2 := ((mem_pathsFrom _ _ _ _ _ _ _).mp hps).2
  rw [hv, List.length_map, e1, ← e2]
  exact hps2

/-- a group from the entry node of a site with at least two variants is an SNP group -/
theorem snp_of_groupsFrom (st : Strand k L g T PT T' PT') {starts ends : List Nat}
    (ex : Ext k starts ends T PT T' PT') {W : Nat} (hW : 2 * k ≤ W) (maxDepth : Nat)
    {t : List UInt8} (ht : t ∈ T) {p : Nat} (hp : p ∈ PT) {grp : (Nat × Nat) × List Variant}
    (hgrp : grp ∈ groupsFrom W (k - 1) (compactGraph g starts ends).1 (compactGraph g starts ends).2
      starts ends maxDepth (fN k t (p - k + 1))) (h2 : 2 ≤ grp.2.length) :
    grp ∈ (buildVariantGroups W (k - 1) g starts ends maxDepth).snpGroups := by
  have hkm : fN k t (p - k + 1) ∈ starts := (ex.st _).mpr (Or.inl ⟨p, hp, t, ht, rfl⟩)
  have hb : grp ∈ LOP.builtGroups W (k - 1) g starts ends maxDepth := by
    unfold LOP.builtGroups
    exact List.mem_flatMap.mpr ⟨_, hkm, hgrp⟩
  obtain ⟨p', _, _, _, _, hgg⟩ := st.group_good ex hW maxDepth ht hp hgrp
  have heq := gg_equal_length hgg
  rw [LOP.buildVariantGroups_eq]
  refine List.mem_filter.mpr ⟨hb, ?_⟩
  unfold LOP.clsSnp
  simp only [Bool.and_eq_true, Bool.not_eq_true', decide_eq_false_iff_not, Nat.not_lt, Bool.and_eq_false_iff,
    beq_eq_false_iff_ne, bne_eq_false_iff_eq]
  refine ⟨h2, ?_⟩
  by_cases h22 : grp.2.length = 2
  · right
    match hvs : grp.2, h22 with
    | [v0, v1], _ =>
      simp only [List.getD_cons_zero, List.getD_cons_succ]
      exact heq v0 (by rw [hvs]; simp) v1 (by rw [hvs]; simp)
  · exact Or.inl h22

/-- **the keys of the SNP groups of the strand `T`**: from the entry node of a site `p` to the exit node
of the site reached by at most `maxDepth` steps to the next site — all of them and no others -/
theorem snp_keys (st : Strand k L g T PT T' PT') {starts ends : List Nat}
    (ex : Ext k starts ends T PT T' PT') {W : Nat} (hW : 2 * k ≤ W) (maxDepth : Nat)
    {t : List UInt8} (ht : t ∈ T) {p : Nat} (hp : p ∈ PT) (key : Nat × Nat) (hkey : key.1 = fN k t (p - k + 1)) :
    (∃ grp ∈ (buildVariantGroups W (k - 1) g starts ends maxDepth).snpGroups, grp.1 = key) ↔
      ∃ qs : List Nat, SitesOK PT p qs ∧ qs.length ≤ maxDepth ∧
        key = (fN k t (p - k + 1), fN k t ((p :: qs).getLast (by simp) + 1)) := by
  constructor
  · rintro ⟨grp, hgrp, rfl⟩
    obtain ⟨kmer, _, hg⟩ := buildVariantGroups_mem (List.mem_append_left _ hgrp)
    obtain ⟨h1, _⟩ := groupsFrom_real (compactGraph_sound g starts ends) hg
    rw [← h1, hkey] at hg
    exact st.group_span ex hW maxDepth ht hp hg
  · rintro ⟨qs, hqs, hlen, rfl⟩
    obtain ⟨grp, hgrp, hk, h2⟩ := st.spanning ex hW maxDepth ht hp qs hqs hlen
    exact ⟨grp, st.snp_of_groupsFrom ex hW maxDepth ht hp hgrp h2, hk⟩

end Strand

end SkaModel.LOC
