/-
C17 completeness — the colour map of the table of a family (rows in any order, palindromic split k-mers
allowed): the colour set of a `k`-window of a sample, and of its reverse complement, is the set of the
samples that contain the window on one of the two strands.
-/
import SkaModel.Lemmas.LOCGraph

namespace SkaModel.LOC

open SkaModel SkaModel.Spec SkaModel.Props.C16 SkaModel.Skalo SkaModel.LOG SkaModel.Props.C17G

theorem rc_eq_iff {w X : List Nat} : rcCodes w = X ↔ w = rcCodes X := by
  constructor
  · intro h; rw [← h, rcCodes_rcCodes]
  · intro h; rw [h, rcCodes_rcCodes]

/-- "one of the two strands of `w` is `X`", for `X` one of the two strands of `c` -/
theorem strands_iff {w c X : List Nat} (hX : X = c ∨ X = rcCodes c) :
    (w = X ∨ rcCodes w = X) ↔ (w = c ∨ w = rcCodes c) := by
  rcases hX with rfl | rfl
  · rw [rc_eq_iff]
  · rw [rc_eq_iff, rcCodes_rcCodes, or_comm]

/-- **colours of a family's table** -/
theorem colour_fam {a : Arr} {k L : Nat} {names : List String} {S : List (List UInt8)}
    (ha : IsArrOf a k names S) (h : SFam L S) (hk : ValidK k) {W : Nat} (hw : WidthOk W k)
    (s : List UInt8) (hs : s ∈ S) (j : Nat) (hj : j + k ≤ L) (F : List Nat)
    (hF : F = cds (win s j k) ∨ F = rcCodes (cds (win s j k))) :
    ∃ Cs : List Nat,
      Assoc.lookup (buildGraph W a).2 (packL F) = some Cs ∧ Cs.Pairwise (· < ·) ∧
      ∀ i, i ∈ Cs ↔ ∃ t, S[i]? = some t ∧ ∃ j', j' + k ≤ L ∧
        (cds (win t j' k) = cds (win s j k) ∨ cds (win t j' k) = rcCodes (cds (win s j k))) := by
  obtain ⟨hh2, hkh, hkW⟩ := validK_bounds hk hw
  have hka := ha.hk
  have hk' : ValidK a.k := by rw [hka]; exact hk
  have hw' : WidthOk W a.k := by rw [hka]; exact hw
  have hkeys : ∀ key ∈ a.kmers, key < 4 ^ (a.k - 1) := by rw [hka]; exact ha.hkeys h hkh
  have hlenc : (cds (win s j k)).length = k := by rw [cds_length, win_length (by rw [h.len s hs]; exact hj)]
  have hFc : Codes F ∧ F.length = k := by
    rcases hF with e | e <;> rw [e]
    · exact ⟨cds_codes _, hlenc⟩
    · exact ⟨rcCodes_codes (cds_codes _), by rw [rcCodes_length]; exact hlenc⟩
  -- the k-mer is a key of the colour map
  obtain ⟨kv, hkv, u, l, n, e, hu, hl, hcu, hcl, hn, hc⟩ := ha.row_of_window h hkh s hs j hj
  have hcomp := LORL.colour_complete W a hk' hw' hkeys kv hkv u l e (by rw [hka]; exact hu) (by rw [hka]; exact hl)
    hcu hcl n hn
  rw [← hc] at hcomp
  have hex : ∃ S', Assoc.lookup (buildGraph W a).2 (packL F) = some S' := by
    rcases canonC_cases k s j with h1 | h1 <;> rcases hF with e' | e' <;> rw [e']
    · rw [← h1]; exact hcomp.1
    · rw [← h1]; exact hcomp.2
    · have : cds (win s j k) = rcCodes (canonC k s j) := by rw [h1, rcCodes_rcCodes]
      rw [this]; exact hcomp.2
    · rw [← h1]; exact hcomp.1
  obtain ⟨S', hS'⟩ := hex
  -- the entry that is found belongs to a row showing one of the two strands of `F`
  obtain ⟨kv', hkv', u', l', e', hu', hl', hcu', hcl', n', hn', hf', hSeq, _, _⟩ :=
    LORL.colour_sound W a hk' hw' hkeys _ _ hS'
  rw [hka] at hu' hl'
  have hn4 : n' ∈ ([65, 67, 71, 84] : List UInt8) := ((mem_shownBases kv'.2 n').mp hn').1
  have hfull : (u' ++ [code n'] ++ l') = F ∨ (u' ++ [code n'] ++ l') = rcCodes F := by
    have hcF := full_codes hcu' hcl' n'
    have hlF : (u' ++ [code n'] ++ l').length = k := full_length hu' hl' hkh (code n')
    rcases hf' with h1 | h1
    · left
      exact (packL_inj hFc.1 hcF (by rw [hFc.2, hlF]) h1).symm
    · right
      have := packL_inj hFc.1 (rcCodes_codes hcF) (by rw [hFc.2, rcCodes_length, hlF]) h1
      rw [this, rcCodes_rcCodes]
  have hfull' : (u' ++ [code n'] ++ l') = cds (win s j k) ∨ (u' ++ [code n'] ++ l') = rcCodes (cds (win s j k)) := by
    rcases hfull with h1 | h1 <;> rcases hF with h2 | h2 <;> rw [h1, h2]
    · exact Or.inl rfl
    · exact Or.inr rfl
    · exact Or.inr rfl
    · left; rw [rcCodes_rcCodes]
  refine ⟨S', hS', by rw [hSeq]; exact samplesOf_pairwise _ _, ?_⟩
  intro i
  rw [hSeq, ha.mem_samplesOf_row h hkh kv' hkv' u' l' e' hu' hl' hcu' hcl' n' hn4 i]
  constructor
  · rintro ⟨t, ht, j', hj', hsh⟩
    have htm : t ∈ S := List.mem_of_getElem? ht
    exact ⟨t, ht, j', by rw [← h.len t htm]; exact hj', (strands_iff hfull').mp hsh⟩
  · rintro ⟨t, ht, j', hj', hsh⟩
    have htm : t ∈ S := List.mem_of_getElem? ht
    exact ⟨t, ht, j', by rw [h.len t htm]; exact hj', (strands_iff hfull').mpr hsh⟩

end SkaModel.LOC
