/-
`ska lo` graph stage: from the path enumeration to the variant groups
(item 5 of `SkaModel/Props/C17Paths.lean`).
-/
import SkaModel.Lemmas.LOPathExplore

namespace SkaModel.LOG

open SkaModel SkaModel.Skalo SkaModel.Props.C17G

/-! ### `pathsFrom` -/

theorem mem_upsert_cases {ν : Type} (d : Assoc Nat ν) (key : Nat) (ins : ν) (f : ν → ν) (kv : Nat × ν)
    (h : kv ∈ Assoc.upsert d key ins f) :
    kv ∈ d ∨ kv = (key, ins) ∨ ∃ v, (key, v) ∈ d ∧ kv = (key, f v) := by
  induction d with
  | nil => right; left; simpa [Assoc.upsert] using h
  | cons e rest ih =>
    obtain ⟨k, w⟩ := e
    simp only [Assoc.upsert] at h
    by_cases hk : (k == key) = true
    · rw [if_pos hk] at h
      have e : k = key := eq_of_beq hk
      rcases List.mem_cons.1 h with h | h
      · right; right; exact ⟨w, by rw [← e]; exact List.mem_cons_self .., by rw [h, e]⟩
      · left; exact List.mem_cons_of_mem _ h
    · rw [if_neg hk] at h
      rcases List.mem_cons.1 h with h | h
      · left; rw [h]; exact List.mem_cons_self ..
      · rcases ih h with h | h | ⟨v, hv, h⟩
        · left; exact List.mem_cons_of_mem _ h
        · right; left; exact h
        · right; right; exact ⟨v, List.mem_cons_of_mem _ hv, h⟩

/-- the grouping by exit node keeps exactly the found pairs -/
theorem groupFold_mem (found : List (Nat × List Nat)) (e : Nat) (ps : List (List Nat))
    (h : (e, ps) ∈ found.foldl (fun (acc : List (Nat × List (List Nat))) ep =>
      Assoc.upsert acc ep.1 [ep.2] (fun l => l ++ [ep.2])) []) :
    ∀ p ∈ ps, (e, p) ∈ found := by
  have := foldl_invariant
    (fun (acc : List (Nat × List (List Nat))) => ∀ kv ∈ acc, ∀ p ∈ kv.2, (kv.1, p) ∈ found)
    (fun (acc : List (Nat × List (List Nat))) ep =>
      Assoc.upsert acc ep.1 [ep.2] (fun l => l ++ [ep.2])) found ?_ [] (by simp)
  · exact this (e, ps) h
  · intro acc ep hep hacc kv hkv p hp
    rcases mem_upsert_cases _ _ _ _ _ hkv with h | h | ⟨v, hv, h⟩
    · exact hacc kv h p hp
    · rw [h] at hp ⊢
      simp at hp
      rw [hp]; exact hep
    · rw [h] at hp ⊢
      simp only [List.mem_append, List.mem_singleton] at hp
      rcases hp with hp | hp
      · exact hacc _ hv p hp
      · rw [hp]; exact hep

/-- the paths of `pathsFrom`: `kmer`, a successor `s` of `kmer` in the compacted graph, and then an
`explore` result -/
theorem pathsFrom_mem {g' : Graph} {comp : List (Nat × List Nat)} {ends : List Nat} {maxDepth kmer : Nat}
    {e : Nat} {ps : List (List Nat)} (h : (e, ps) ∈ pathsFrom g' comp ends maxDepth kmer) :
    ∀ p ∈ ps, ∃ s, Edge g' kmer s ∧
      (e, p) ∈ explore g' comp ends maxDepth (edgeCount g' + 2) s [kmer, s]
        ([kmer] ++ s :: interior comp s) 0 := by
  intro p hp
  unfold pathsFrom at h
  have := groupFold_mem _ e ps h p hp
  rw [List.mem_flatMap] at this
  obtain ⟨s, hs, hm⟩ := this
  exact ⟨s, hs, hm⟩

theorem pathsFrom_shape {g' : Graph} {comp : List (Nat × List Nat)} {ends : List Nat} {maxDepth kmer : Nat}
    {e : Nat} {ps : List (List Nat)} (h : (e, ps) ∈ pathsFrom g' comp ends maxDepth kmer) :
    ∀ p ∈ ps, e ∈ ends ∧ ∃ s q, Edge g' kmer s ∧
      p = kmer :: s :: interior comp s ++ q ++ e :: interior comp e := by
  intro p hp
  obtain ⟨s, hs, hm⟩ := pathsFrom_mem h p hp
  obtain ⟨h1, q, h2⟩ := explore_shape _ _ _ _ _ _ _ _ _ _ hm
  exact ⟨h1, s, q, hs, by simpa using h2⟩

theorem pathsFrom_walk {g g' : Graph} {comp : List (Nat × List Nat)} (hs : Sound g g' comp)
    {ends : List Nat} {maxDepth kmer : Nat} (hk : Assoc.lookup comp kmer = none)
    {e : Nat} {ps : List (List Nat)} (h : (e, ps) ∈ pathsFrom g' comp ends maxDepth kmer) :
    ∀ p ∈ ps, Walk g p := by
  intro p hp
  obtain ⟨s, hedge, hm⟩ := pathsFrom_mem h p hp
  refine explore_walk_aux hs ends maxDepth _ s _ [kmer] 0 (e, p) ?_ hm
  have := hs.step kmer s hedge
  unfold expand interior at this
  rw [hk] at this
  exact this

/-! ### `groupsFrom` -/

theorem groupsFrom_mem {W kGraph : Nat} {g' : Graph} {comp : List (Nat × List Nat)}
    {starts ends : List Nat} {maxDepth kmer : Nat} {grp : (Nat × Nat) × List Variant}
    (h : grp ∈ groupsFrom W kGraph g' comp starts ends maxDepth kmer) :
    ∃ e paths, (e, paths) ∈ pathsFrom g' comp ends maxDepth kmer ∧ grp.1 = (kmer, e) ∧
      (paths.map (fun v => v.getD 1 0)).eraseDups.length > 1 ∧
      (paths.map (fun v => v.getD (v.length - 2) 0)).eraseDups.length > 1 ∧
      ∃ filtered : List (List Nat), (∀ p ∈ filtered, p ∈ paths) ∧
        grp.2 = filtered.map (buildVariant W kGraph starts ends kmer) := by
  unfold groupsFrom at h
  simp only at h
  split at h
  · revert grp
    refine foldl_invariant
      (fun (acc : List ((Nat × Nat) × List Variant)) => ∀ {grp}, grp ∈ acc →
        ∃ e paths, (e, paths) ∈ pathsFrom g' comp ends maxDepth kmer ∧ grp.1 = (kmer, e) ∧
          (paths.map (fun v => v.getD 1 0)).eraseDups.length > 1 ∧
          (paths.map (fun v => v.getD (v.length - 2) 0)).eraseDups.length > 1 ∧
          ∃ filtered : List (List Nat), (∀ p ∈ filtered, p ∈ paths) ∧
            grp.2 = filtered.map (buildVariant W kGraph starts ends kmer))
      _ _ ?_ [] (by simp)
    intro acc ep hep hacc grp hgrp
    split at hgrp
    · rename_i hcond
      rcases List.mem_append.1 hgrp with h | h
      · exact hacc h
      · simp only [List.mem_singleton] at h
        simp only [Bool.and_eq_true, decide_eq_true_eq] at hcond
        refine ⟨ep.1, ep.2, hep, by rw [h], hcond.1, hcond.2, ?_⟩
        rw [h]
        by_cases h2 : (ep.2.length == 2) = true
        · exact ⟨ep.2, fun p hp => hp, by simp [h2]⟩
        · exact ⟨ep.2.filter (fun v => v.length == mostCommonLength ep.2),
            fun p hp => (List.mem_filter.1 hp).1, by simp [h2]⟩
    · exact hacc hgrp
  · simp at h

/-! ### `buildVariantGroups` -/

theorem buildVariantGroups_mem {W kGraph : Nat} {g : Graph} {starts ends : List Nat} {maxDepth : Nat}
    {grp : (Nat × Nat) × List Variant}
    (h : grp ∈ (buildVariantGroups W kGraph g starts ends maxDepth).snpGroups ++
      (buildVariantGroups W kGraph g starts ends maxDepth).indelGroups) :
    ∃ kmer ∈ starts, grp ∈ groupsFrom W kGraph (compactGraph g starts ends).1
      (compactGraph g starts ends).2 starts ends maxDepth kmer := by
  unfold buildVariantGroups at h
  split at h
  rename_i g' comp hcg
  rw [hcg]
  simp only at h ⊢
  rw [← List.mem_flatMap]
  generalize starts.flatMap (groupsFrom W kGraph g' comp starts ends maxDepth) = built at h ⊢
  rw [List.mem_append] at h
  revert h
  refine foldl_invariant
    (fun (acc : List ((Nat × Nat) × List Variant) × List ((Nat × Nat) × List Variant)) =>
      grp ∈ acc.1 ∨ grp ∈ acc.2 → grp ∈ built) _ built ?_ ([], []) (by simp)
  intro acc kv hkv hacc
  split
  · exact hacc
  · split
    · split
      · intro h
        rcases h with h | h
        · exact hacc (Or.inl h)
        · rcases List.mem_append.1 h with h | h
          · exact hacc (Or.inr h)
          · simp at h; rw [h]; exact hkv
      · exact hacc
    · intro h
      rcases h with h | h
      · rcases List.mem_append.1 h with h | h
        · exact hacc (Or.inl h)
        · simp at h; rw [h]; exact hkv
      · exact hacc (Or.inr h)

/-! ### reported groups: entry and exit start no segment -/

theorem eraseDups_length_le_one (l : List Nat) (c : Nat) (h : ∀ x ∈ l, x = c) :
    l.eraseDups.length ≤ 1 := by
  cases l with
  | nil => simp
  | cons a t =>
    rw [List.eraseDups_cons]
    have : t.filter (fun b => !b == a) = [] := by
      rw [List.filter_eq_nil_iff]
      intro x hx
      have h1 := h x (List.mem_cons_of_mem _ hx)
      have h2 := h a (List.mem_cons_self ..)
      simp [h1, h2]
    rw [this]
    simp

theorem getD_append_len_sub_two (x y : List Nat) (hy : 2 ≤ y.length) :
    (x ++ y).getD ((x ++ y).length - 2) 0 = y.getD (y.length - 2) 0 := by
  rw [List.getD_eq_getElem?_getD, List.getD_eq_getElem?_getD,
    List.getElem?_append_right (by rw [List.length_append]; omega)]
  congr 2
  rw [List.length_append]
  omega

/-- **the groups of one entry node are real** (for any compacted graph that is `Sound`) -/
theorem groupsFrom_real {W kGraph : Nat} {g g' : Graph} {comp : List (Nat × List Nat)}
    (hs : Sound g g' comp) {starts ends : List Nat} {maxDepth kmer : Nat}
    {grp : (Nat × Nat) × List Variant}
    (h : grp ∈ groupsFrom W kGraph g' comp starts ends maxDepth kmer) :
    grp.1.1 = kmer ∧ grp.1.2 ∈ ends ∧
      Assoc.lookup comp kmer = none ∧ Assoc.lookup comp grp.1.2 = none ∧
      ∀ var ∈ grp.2, ∃ path, var = buildVariant W kGraph starts ends kmer path ∧
        Walk g path ∧ path.head? = some kmer ∧ path.getLast? = some grp.1.2 ∧ 3 ≤ path.length := by
  obtain ⟨e, paths, hmem, hkey, hsec, hlast, filtered, hsub, hvars⟩ := groupsFrom_mem h
  have hshape := pathsFrom_shape hmem
  -- the entry node starts no segment: two different second nodes
  have hk : Assoc.lookup comp kmer = none := by
    cases hl : Assoc.lookup comp kmer with
    | none => rfl
    | some I =>
      exfalso
      cases paths with
      | nil => simp at hsec
      | cons p0 t =>
        have := eraseDups_length_le_one (((p0 :: t).map (fun v => v.getD 1 0))) (p0.getD 1 0) ?_
        · omega
        · intro x hx
          rw [List.mem_map] at hx
          obtain ⟨p, hp, rfl⟩ := hx
          obtain ⟨_, s, q, hes, hp'⟩ := hshape p hp
          obtain ⟨_, s0, q0, hes0, hp0⟩ := hshape p0 (List.mem_cons_self ..)
          rw [hp', hp0]
          simp only [List.cons_append, List.getD_cons_succ, List.getD_cons_zero]
          exact hs.single kmer (by rw [hl]; simp) s s0 hes hes0
  -- the exit node starts no segment: two different second-last nodes
  have he : Assoc.lookup comp e = none := by
    cases hl : Assoc.lookup comp e with
    | none => rfl
    | some I =>
      exfalso
      have hne := hs.nonempty e I hl
      have hI : 2 ≤ (e :: I).length := by
        cases I with
        | nil => exact absurd rfl hne
        | cons a t => simp
      have := eraseDups_length_le_one ((paths.map (fun v => v.getD (v.length - 2) 0)))
        ((e :: I).getD ((e :: I).length - 2) 0) ?_
      · omega
      · intro x hx
        rw [List.mem_map] at hx
        obtain ⟨p, hp, rfl⟩ := hx
        obtain ⟨_, s, q, _, hp'⟩ := hshape p hp
        have : interior comp e = I := by unfold interior; rw [hl]; rfl
        rw [hp', this]
        exact getD_append_len_sub_two _ (e :: I) hI
  have hwalk := pathsFrom_walk hs hk hmem
  refine ⟨by rw [hkey], ?_, hk, by rw [hkey]; exact he, ?_⟩
  · rw [hkey]
    cases paths with
    | nil => simp at hsec
    | cons p0 t => exact (hshape p0 (List.mem_cons_self ..)).1
  · intro var hvar
    rw [hvars, List.mem_map] at hvar
    obtain ⟨p, hp, rfl⟩ := hvar
    have hp := hsub p hp
    refine ⟨p, rfl, hwalk p hp, ?_⟩
    obtain ⟨_, s, q, _, hp'⟩ := hshape p hp
    have : interior comp e = [] := by unfold interior; rw [he]; rfl
    rw [this] at hp'
    rw [hp', hkey]
    refine ⟨rfl, ?_, ?_⟩
    · have : kmer :: s :: interior comp s ++ q ++ [e] = (kmer :: s :: interior comp s ++ q) ++ [e] := by
        simp
      rw [this, List.getLast?_concat]
    · simp
      omega

end SkaModel.LOG
