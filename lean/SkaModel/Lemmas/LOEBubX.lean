/-
C18 completeness — the path enumeration from the entry node of a bubble: along each arm exactly one path to
the bubble's exit node is reported, every other reported path is longer than both and ends elsewhere.  The
groups of `groupsFrom` and the classification of `buildVariantGroups` on a graph of bubbles.
-/
import SkaModel.Lemmas.LOEBubC

namespace SkaModel.LOE

open SkaModel SkaModel.Skalo SkaModel.Props.C17G SkaModel.LOG SkaModel.LOC

theorem explore_step_single (g : Graph) (comp : List (Nat × List Nat)) (ends : List Nat) (maxDepth fuel cur : Nat)
    (visited vec : List Nat) (depth next : Nat)
    (hd : ¬ depth > maxDepth) (hg : (succs g cur).filter (fun n => !visited.contains n) = [next]) :
    explore g comp ends maxDepth (fuel + 1) cur visited vec depth =
      (if ends.contains next then [(next, vec ++ [next] ++ (Assoc.lookup comp next).getD [])] else []) ++
        explore g comp ends maxDepth fuel next (visited ++ [next])
          (vec ++ [next] ++ (Assoc.lookup comp next).getD []) depth := by
  rw [explore, if_neg hd]
  simp only [hg]

/-- the pairs found from the node `s` (a successor of the entry node `kmer`) -/
def foundFrom (g' : Graph) (comp : List (Nat × List Nat)) (ends : List Nat) (maxDepth kmer s : Nat) :
    List (Nat × List Nat) :=
  explore g' comp ends maxDepth (edgeCount g' + 2) s [kmer, s] ([kmer, s] ++ (Assoc.lookup comp s).getD []) 0

/-- a walk from an exit node that reaches an exit node again has at least `kG + 2` nodes -/
structure Far (kG : Nat) (g : Graph) (bs : List Bub) : Prop where
  far : ∀ β ∈ bs, ∀ p : List Nat, Walk g p → p.head? = some β.ex → (∃ β' ∈ bs, β'.ex ∈ p.tail) → kG + 2 ≤ p.length

namespace BG

variable {g : Graph} {bs : List Bub}

/-- the path of an arm is a walk -/
theorem walk_arm (bg : BG g bs) {β : Bub} (hβ : β ∈ bs) (r : List Nat) (hr : r = β.a ∨ r = β.b) :
    Walk g (β.en :: r ++ [β.ex]) := by
  have hch : Chain1 g (r ++ [β.ex]) := by rcases hr with rfl | rfl; exact bg.chA β hβ; exact bg.chB β hβ
  have hes : r.headD 0 ∈ succs g β.en := by
    rcases hr with rfl | rfl <;> rcases bg.ensucc β hβ with h | h <;> rw [h] <;> simp [Bub.ha, Bub.hb]
  have hne : r ≠ [] := by rcases hr with rfl | rfl; exact bg.a_ne hβ; exact bg.b_ne hβ
  cases r with
  | nil => exact absurd rfl hne
  | cons s t => exact ⟨hes, walk_of_chain1 hch⟩

/-- **the pairs found along one arm**: first the arm's path to the exit node, then pairs with another exit
node and a longer path -/
theorem found_arm (bg : BG g bs) {kG : Nat} (fr : Far kG g bs) {starts ends : List Nat} (ex : Ext bs starts ends)
    {β : Bub} (hβ : β ∈ bs) (maxDepth : Nat) (r : List Nat) (hr : r = β.a ∨ r = β.b) :
    ∃ R, foundFrom (compactGraph g starts ends).1 (compactGraph g starts ends).2 ends maxDepth β.en (r.headD 0) =
        (β.ex, β.en :: r ++ [β.ex]) :: R ∧
      ∀ ep ∈ R, ep.1 ≠ β.ex ∧ kG + 3 ≤ ep.2.length := by
  obtain ⟨hj1, hj2⟩ := bg.jump ex hβ r hr
  have hwalk := bg.walk_arm hβ r hr
  have hlen : 1 ≤ r.length := by rcases hr with rfl | rfl; exact bg.lenA β hβ; exact bg.lenB β hβ
  have hnd : (β.en :: r ++ [β.ex]).Nodup := by rcases hr with rfl | rfl; exact bg.ndA β hβ; exact bg.ndB β hβ
  obtain ⟨s, t, rfl⟩ : ∃ s t, r = s :: t := by
    cases r with
    | nil => simp at hlen
    | cons s t => exact ⟨s, t, rfl⟩
  simp only [List.headD_cons, List.tail_cons] at hj1 hj2 ⊢
  have hend : β.ex ∈ ends := (ex.en _).mpr ⟨β, hβ, rfl⟩
  have hexne : β.ex ≠ β.en ∧ β.ex ≠ s := by
    have h1 := hnd
    rw [List.cons_append, List.nodup_cons] at h1
    constructor
    · intro e
      apply h1.1
      rw [← e]
      simp
    · have h2 := h1.2
      rw [List.cons_append, List.nodup_cons] at h2
      intro e
      apply h2.1
      rw [← e]
      simp
  have hgood : (succs (compactGraph g starts ends).1 s).filter (fun n => !([β.en, s] : List Nat).contains n) = [β.ex] := by
    rw [hj1]
    simp [hexne.1, hexne.2]
  have hcx := bg.comp_ex ex hβ
  have hj2' : (Assoc.lookup (compactGraph g starts ends).2 s).getD [] = t := hj2
  unfold foundFrom
  rw [explore_step_single _ _ _ _ _ _ _ _ _ _ (by omega) hgood, hj2', hcx]
  simp only [Option.getD_none, List.append_nil]
  rw [if_pos (by simpa using hend)]
  refine ⟨explore (compactGraph g starts ends).1 (compactGraph g starts ends).2 ends maxDepth
    (edgeCount (compactGraph g starts ends).1 + 1) β.ex ([β.en, s] ++ [β.ex]) ([β.en, s] ++ t ++ [β.ex]) 0,
    by simp, ?_⟩
  · intro ep hep
    have hint : interior (compactGraph g starts ends).2 β.ex = [] := by unfold interior; rw [hcx]; rfl
    have hvec : [β.en, s] ++ t ++ [β.ex] = (β.en :: s :: t) ++ β.ex :: interior (compactGraph g starts ends).2 β.ex := by
      rw [hint]; simp
    have hW : Walk g ep.2 := by
      rw [hvec] at hep
      exact explore_walk_aux (T17_compact_sound g starts ends) ends maxDepth _ β.ex _ (β.en :: s :: t) 0 ep
        (by simpa using hwalk) hep
    obtain ⟨hepend, q, hq⟩ := explore_shape _ _ _ _ _ _ _ _ _ _ hep
    rw [explore_iff] at hep
    obtain ⟨w, _, hreach, he⟩ := hep
    obtain ⟨_, hfresh, _, _⟩ := reach_fresh w _ _ _ hreach
    constructor
    · have hw : w ≠ [] := by
        intro e; rw [e] at hreach; exact hreach
      have : w.getLastD 0 ∈ w := by
        rw [List.getLastD_eq_getLast?, List.getLast?_eq_some_getLast hw]
        exact List.getLast_mem hw
      have hnv := hfresh _ this
      rw [he]
      intro e
      apply hnv
      have e' : w.getLastD 0 = β.ex := e
      rw [e']
      simp
    · -- the walk from the exit node on reaches an exit node again
      have hsplit : ep.2 = (β.en :: s :: t) ++ (β.ex :: (q ++ ep.1 :: interior (compactGraph g starts ends).2 ep.1)) := by
        rw [hq]; simp
      have hW2 : Walk g (β.ex :: (q ++ ep.1 :: interior (compactGraph g starts ends).2 ep.1)) := by
        rw [hsplit] at hW
        exact walk_append_right _ _ hW
      obtain ⟨β', hβ', e'⟩ := (ex.en _).mp hepend
      have := fr.far β hβ _ hW2 rfl ⟨β', hβ', by rw [← e']; simp⟩
      rw [hsplit]
      simp only [List.length_append, List.length_cons] at this ⊢
      omega

/-- the found list from an entry node -/
theorem found_en (bg : BG g bs) {kG : Nat} (fr : Far kG g bs) {starts ends : List Nat} (ex : Ext bs starts ends)
    {β : Bub} (hβ : β ∈ bs) (maxDepth : Nat) :
    ∃ RA RB, (∀ ep ∈ RA, ep.1 ≠ β.ex ∧ kG + 3 ≤ ep.2.length) ∧
      (∀ ep ∈ RB, ep.1 ≠ β.ex ∧ kG + 3 ≤ ep.2.length) ∧
      ((succs (compactGraph g starts ends).1 β.en).flatMap (fun s =>
          explore (compactGraph g starts ends).1 (compactGraph g starts ends).2 ends maxDepth
            (edgeCount (compactGraph g starts ends).1 + 2) s [β.en, s]
            ([β.en, s] ++ (Assoc.lookup (compactGraph g starts ends).2 s).getD []) 0) =
        ((β.ex, β.pa) :: RA) ++ ((β.ex, β.pb) :: RB) ∨
       (succs (compactGraph g starts ends).1 β.en).flatMap (fun s =>
          explore (compactGraph g starts ends).1 (compactGraph g starts ends).2 ends maxDepth
            (edgeCount (compactGraph g starts ends).1 + 2) s [β.en, s]
            ([β.en, s] ++ (Assoc.lookup (compactGraph g starts ends).2 s).getD []) 0) =
        ((β.ex, β.pb) :: RB) ++ ((β.ex, β.pa) :: RA)) := by
  obtain ⟨RA, hA, hRA⟩ := bg.found_arm fr ex hβ maxDepth β.a (Or.inl rfl)
  obtain ⟨RB, hB, hRB⟩ := bg.found_arm fr ex hβ maxDepth β.b (Or.inr rfl)
  refine ⟨RA, RB, hRA, hRB, ?_⟩
  unfold foundFrom at hA hB
  rw [bg.compact_en starts ends hβ]
  rcases bg.ensucc β hβ with h | h
  · left
    rw [h]
    simp only [List.flatMap_cons, List.flatMap_nil, List.append_nil]
    rw [show β.ha = β.a.headD 0 from rfl, show β.hb = β.b.headD 0 from rfl, hA, hB]
    rfl
  · right
    rw [h]
    simp only [List.flatMap_cons, List.flatMap_nil, List.append_nil]
    rw [show β.ha = β.a.headD 0 from rfl, show β.hb = β.b.headD 0 from rfl, hA, hB]
    rfl

/-- the group of paths to the exit node: the two paths of the bubble -/
theorem paths_ex (bg : BG g bs) {kG : Nat} (fr : Far kG g bs) {starts ends : List Nat} (ex : Ext bs starts ends)
    {β : Bub} (hβ : β ∈ bs) (maxDepth : Nat) :
    (β.ex, [β.pa, β.pb]) ∈ pathsFrom (compactGraph g starts ends).1 (compactGraph g starts ends).2 ends maxDepth β.en ∨
    (β.ex, [β.pb, β.pa]) ∈ pathsFrom (compactGraph g starts ends).1 (compactGraph g starts ends).2 ends maxDepth β.en := by
  obtain ⟨RA, RB, hRA, hRB, hf⟩ := bg.found_en fr ex hβ maxDepth
  have hfa : RA.filter (fun ep => ep.1 == β.ex) = [] := by
    rw [List.filter_eq_nil_iff]
    intro ep hep
    simpa using (hRA ep hep).1
  have hfb : RB.filter (fun ep => ep.1 == β.ex) = [] := by
    rw [List.filter_eq_nil_iff]
    intro ep hep
    simpa using (hRB ep hep).1
  rcases hf with h | h
  · left
    rw [mem_pathsFrom, h]
    simp [hfa, hfb]
  · right
    rw [mem_pathsFrom, h]
    simp [hfa, hfb]

/-- every other group of paths from the entry node: all paths are longer than an arm's path -/
theorem paths_other (bg : BG g bs) {kG : Nat} (fr : Far kG g bs) {starts ends : List Nat} (ex : Ext bs starts ends)
    {β : Bub} (hβ : β ∈ bs) (maxDepth : Nat) {e : Nat} {ps : List (List Nat)}
    (h : (e, ps) ∈ pathsFrom (compactGraph g starts ends).1 (compactGraph g starts ends).2 ends maxDepth β.en)
    (hne : e ≠ β.ex) : ∀ p ∈ ps, kG + 3 ≤ p.length := by
  obtain ⟨RA, RB, hRA, hRB, hf⟩ := bg.found_en fr ex hβ maxDepth
  intro p hp
  rw [mem_pathsFrom_paths h] at hp
  have hcases : (e, p) ∈ RA ∨ (e, p) ∈ RB := by
    rcases hf with hf | hf <;> rw [hf] at hp <;>
      simp only [List.mem_append, List.mem_cons, Prod.mk.injEq] at hp <;>
      rcases hp with (⟨h1, _⟩ | h1) | (⟨h1, _⟩ | h1)
    · exact absurd h1 hne
    · exact Or.inl h1
    · exact absurd h1 hne
    · exact Or.inr h1
    · exact absurd h1 hne
    · exact Or.inr h1
    · exact absurd h1 hne
    · exact Or.inl h1
  rcases hcases with h1 | h1
  · exact (hRA _ h1).2
  · exact (hRB _ h1).2

theorem pa_getD1 (bg : BG g bs) {β : Bub} (hβ : β ∈ bs) : β.pa.getD 1 0 = β.ha := by
  unfold Bub.pa
  rw [bg.a_eq hβ]
  rfl

theorem pb_getD1 (bg : BG g bs) {β : Bub} (hβ : β ∈ bs) : β.pb.getD 1 0 = β.hb := by
  unfold Bub.pb
  rw [bg.b_eq hβ]
  rfl

theorem path_secondLast (e x : Nat) (r : List Nat) (hr : r ≠ []) :
    (e :: r ++ [x]).getD ((e :: r ++ [x]).length - 2) 0 = r.getLastD 0 := by
  have hpos := List.length_pos_iff.mpr hr
  have hlen : (e :: r ++ [x]).length - 2 = r.length := by simp
  rw [hlen, List.getD_eq_getElem?_getD, List.getLastD_eq_getLast?, List.getLast?_eq_getElem?]
  congr 1
  rw [show r.length = (r.length - 1) + 1 by omega, List.cons_append, List.getElem?_cons_succ,
    List.getElem?_append_left (by omega)]
  simp

end BG

end SkaModel.LOE
