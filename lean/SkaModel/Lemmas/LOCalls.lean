/-
`get_potential_snp`, VCF genotype indices, indel genotyping (`ska lo`).
-/
import SkaModel.Lemmas.LOCol

namespace SkaModel.LO

open SkaModel SkaModel.Skalo

/-! ### `get_potential_snp` -/

/-- the letters shown at position `p` by the variants whose sequence is longer than `p` -/
def seenAt (variants : List (List UInt8 × List Nat)) (p : Nat) : List UInt8 :=
  variants.filterMap (fun v => if p < v.1.length then some (v.1.getD p 0) else none)

theorem mem_seenAt (variants : List (List UInt8 × List Nat)) (p : Nat) (a : UInt8) :
    a ∈ seenAt variants p ↔ ∃ v ∈ variants, v.1[p]? = some a := by
  unfold seenAt
  rw [List.mem_filterMap]
  constructor
  · rintro ⟨v, hv, h⟩
    refine ⟨v, hv, ?_⟩
    by_cases hp : p < v.1.length
    · rw [if_pos hp] at h
      rw [List.getElem?_eq_getElem hp]
      rw [List.getD_eq_getElem?_getD, List.getElem?_eq_getElem hp] at h
      simpa using h
    · rw [if_neg hp] at h; cases h
  · rintro ⟨v, hv, h⟩
    refine ⟨v, hv, ?_⟩
    have hp : p < v.1.length := by
      apply Classical.byContradiction
      intro hn
      rw [List.getElem?_eq_none (by omega)] at h
      cases h
    rw [if_pos hp, List.getD_eq_getElem?_getD, h]
    rfl

theorem isACGT_iff' (b : UInt8) : isACGT b = true ↔ b ∈ ([65, 67, 71, 84] : List UInt8) := by
  rw [isACGT_iff]
  simp only [List.mem_cons, List.not_mem_nil, or_false]
  constructor
  · rintro (h | h | h | h) <;> simp [h]
  · rintro (h | h | h | h) <;> simp [h]

/-- the `real` test of `get_potential_snp` -/
theorem two_present_iff (seen : List UInt8) :
    (([65, 67, 71, 84] : List UInt8).filter (fun n => seen.contains n)).length > 1 ↔
      ∃ a b, a ≠ b ∧ isACGT a = true ∧ isACGT b = true ∧ a ∈ seen ∧ b ∈ seen := by
  rw [count_present ([65, 67, 71, 84] : List UInt8) (by decide) isACGT isACGT_iff' seen]
  show 2 ≤ _ ↔ _
  rw [two_le_length_iff (nodup_eraseDups _)]
  constructor
  · rintro ⟨a, b, hab, ha, hb⟩
    rw [List.mem_eraseDups, List.mem_filter] at ha hb
    exact ⟨a, b, hab, ha.2, hb.2, ha.1, hb.1⟩
  · rintro ⟨a, b, hab, ha, hb, hac, hbc⟩
    refine ⟨a, b, hab, ?_, ?_⟩ <;> rw [List.mem_eraseDups, List.mem_filter]
    · exact ⟨hac, ha⟩
    · exact ⟨hbc, hb⟩

theorem getPotentialSnp_eq (variants : List (List UInt8 × List Nat)) :
    getPotentialSnp variants = sortByKey id (((variants.flatMap (·.2)).eraseDups).filter (fun pos =>
      decide ((([65, 67, 71, 84] : List UInt8).filter (fun n => (seenAt variants pos).contains n)).length > 1))) :=
  rfl

theorem mem_getPotentialSnp (variants : List (List UInt8 × List Nat)) (p : Nat) :
    p ∈ getPotentialSnp variants ↔
      (∃ v ∈ variants, p ∈ v.2) ∧
      ∃ a b, a ≠ b ∧ isACGT a = true ∧ isACGT b = true ∧
        (∃ v ∈ variants, v.1[p]? = some a) ∧ (∃ v ∈ variants, v.1[p]? = some b) := by
  rw [getPotentialSnp_eq, mem_sortByKey, List.mem_filter, List.mem_eraseDups, List.mem_flatMap,
    decide_eq_true_eq, two_present_iff]
  simp only [mem_seenAt]

theorem getPotentialSnp_sorted (variants : List (List UInt8 × List Nat)) :
    (getPotentialSnp variants).Pairwise (fun a b => a < b) := by
  rw [getPotentialSnp_eq]
  apply sortByKey_id_strict
  exact List.Pairwise.filter _ (nodup_eraseDups _)

/-! ### VCF genotype index and its decoding -/

/-- `alt_bases` of `output_snps.rs`: the distinct entries other than REF, '-' and N
(the Rust collects them through a `HashSet`, so their order is arbitrary) -/
def altBases (rb : UInt8) (col : List UInt8) : List UInt8 :=
  (col.filter (fun c => c != rb && c != 45 && c != 78)).eraseDups

/-- genotype of an entry: `some 0` = "0", `none` = ".", `some (j+1)` = 1-based ALT index -/
def gtIndexWith (rb : UInt8) (alts : List UInt8) (b : UInt8) : Option Nat :=
  if b == rb then some 0
  else if b == 45 || b == 78 then none
  else (alts.findIdx? (fun a => a == b)).map (· + 1)

def gtIndex (rb : UInt8) (col : List UInt8) (b : UInt8) : Option Nat :=
  gtIndexWith rb (altBases rb col) b

/-- reading a genotype back through REF / ALT ('.' = 46) -/
def decode (rb : UInt8) (alts : List UInt8) : Option Nat → UInt8
  | none => 46
  | some 0 => rb
  | some (j + 1) => alts.getD j 46

theorem findIdx?_mem (l : List UInt8) (b : UInt8) (h : b ∈ l) :
    ∃ j, l.findIdx? (fun a => a == b) = some j ∧ l[j]? = some b := by
  induction l with
  | nil => cases h
  | cons x xs ih =>
    rw [List.findIdx?_cons]
    by_cases hx : x = b
    · subst hx
      exact ⟨0, by simp, rfl⟩
    · have hb : b ∈ xs := by
        rcases List.mem_cons.1 h with h | h
        · exact absurd h.symm hx
        · exact h
      obtain ⟨j, hj, hj'⟩ := ih hb
      refine ⟨j + 1, ?_, ?_⟩
      · have : (x == b) = false := by simpa using hx
        rw [this, hj]; rfl
      · simpa using hj'

theorem mem_altBases (rb : UInt8) (col : List UInt8) (c : UInt8) :
    c ∈ altBases rb col ↔ c ∈ col ∧ c ≠ rb ∧ c ≠ 45 ∧ c ≠ 78 := by
  unfold altBases
  rw [List.mem_eraseDups, List.mem_filter]
  simp [and_assoc]

theorem altBases_nodup (rb : UInt8) (col : List UInt8) : (altBases rb col).Nodup :=
  nodup_eraseDups _

/-- for any ordering `alts` of the alternative alleles -/
theorem decode_gtIndexWith (rb : UInt8) (col alts : List UInt8)
    (halts : ∀ c, c ∈ alts ↔ c ∈ col ∧ c ≠ rb ∧ c ≠ 45 ∧ c ≠ 78) (b : UInt8) (hb : b ∈ col) :
    decode rb alts (gtIndexWith rb alts b) = if b == rb then rb else vcfGenotypeChar b := by
  unfold gtIndexWith
  by_cases h1 : b = rb
  · subst h1; simp [decode]
  · have h1' : (b == rb) = false := by simpa using h1
    rw [h1']
    simp only [Bool.false_eq_true, if_false]
    unfold vcfGenotypeChar
    by_cases h2 : (b == 45 || b == 78) = true
    · rw [if_pos h2, if_pos h2]; rfl
    · rw [if_neg h2, if_neg h2]
      have h2' : b ≠ 45 ∧ b ≠ 78 := by simpa using h2
      obtain ⟨j, hj, hj'⟩ := findIdx?_mem alts b ((halts b).2 ⟨hb, h1, h2'.1, h2'.2⟩)
      rw [hj]
      show alts.getD j 46 = b
      rw [List.getD_eq_getElem?_getD, hj']
      rfl

theorem decode_gtIndex (rb : UInt8) (col : List UInt8) (b : UInt8) (hb : b ∈ col) :
    decode rb (altBases rb col) (gtIndex rb col b) = if b == rb then rb else vcfGenotypeChar b :=
  decode_gtIndexWith rb col _ (mem_altBases rb col) b hb

end SkaModel.LO
