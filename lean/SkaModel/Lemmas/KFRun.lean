/-
C12 helper: the count filter driven by a list of hash values.
`runFilter`, the occurrence-count specification `specRun`, the no-false-positive
hypothesis `NoFP`, and the invariants connecting them.
-/
import SkaModel.Lemmas.KFBloom

namespace SkaModel.KF

open SkaModel SkaModel.KmerFilter

/-- run the filter over a list of hashes, recording which observations pass -/
def runFilter (f : KmerFilter) : List Nat → KmerFilter × List Bool
  | [] => (f, [])
  | h :: hs => ((runFilter (f.filter h).1 hs).1, (f.filter h).2 :: (runFilter (f.filter h).1 hs).2)

@[simp] theorem runFilter_nil (f : KmerFilter) : runFilter f [] = (f, []) := rfl

@[simp] theorem runFilter_cons (f : KmerFilter) (h : Nat) (hs : List Nat) :
    runFilter f (h :: hs) =
      ((runFilter (f.filter h).1 hs).1, (f.filter h).2 :: (runFilter (f.filter h).1 hs).2) := rfl

@[simp] theorem runFilter_length (f : KmerFilter) (hs : List Nat) :
    (runFilter f hs).2.length = hs.length := by
  induction hs generalizing f with
  | nil => rfl
  | cons h hs ih => simp [ih]

@[simp] theorem runFilter_minCount (f : KmerFilter) (hs : List Nat) :
    (runFilter f hs).1.minCount = f.minCount := by
  induction hs generalizing f with
  | nil => rfl
  | cons h hs ih => simp [ih]

theorem runFilter_append (f : KmerFilter) (as bs : List Nat) :
    runFilter f (as ++ bs) =
      ((runFilter (runFilter f as).1 bs).1, (runFilter f as).2 ++ (runFilter (runFilter f as).1 bs).2) := by
  induction as generalizing f with
  | nil => simp
  | cons a as ih => simp [ih]

/-! ### the specification -/

/-- does an observation pass, given the number `n` of earlier observations of the same hash?
(`65535`: the count is a saturating `u16`) -/
def passSpec (m n : Nat) : Bool :=
  if m ≤ 1 then true
  else if m = 2 then decide (1 ≤ n)
  else decide (min (n + 1) 65535 = m)

/-- the pass flags predicted from occurrence counts alone (`pre` = earlier observations) -/
def specRun {α : Type} [BEq α] (m : Nat) (pre : List α) : List α → List Bool
  | [] => []
  | h :: hs => passSpec m (pre.count h) :: specRun m (h :: pre) hs

/-- `occ hs i`: number of `j < i` with `hs[j] = hs[i]` (0 when `i` is out of range) -/
def occ {α : Type} [BEq α] (hs : List α) (i : Nat) : Nat :=
  match hs[i]? with
  | some h => (hs.take i).count h
  | none => 0

@[simp] theorem specRun_length {α : Type} [BEq α] (m : Nat) (pre hs : List α) :
    (specRun m pre hs).length = hs.length := by
  induction hs generalizing pre with
  | nil => rfl
  | cons h hs ih => simp [specRun, ih]

theorem specRun_getElem? {α : Type} [BEq α] [LawfulBEq α] (m : Nat) (pre hs : List α) (i : Nat) :
    (specRun m pre hs)[i]? =
      (hs[i]?).map (fun h => passSpec m (pre.count h + (hs.take i).count h)) := by
  induction hs generalizing pre i with
  | nil => simp [specRun]
  | cons x xs ih =>
    cases i with
    | zero => simp [specRun]
    | succ i =>
      simp only [specRun, List.getElem?_cons_succ, List.take_succ_cons, ih]
      cases xs[i]? with
      | none => rfl
      | some h =>
        simp only [Option.map_some, List.count_cons]
        congr 2
        by_cases hx : x = h
        · subst hx; simp; omega
        · have : (x == h) = false := by simpa using hx
          simp [this]

theorem specRun_nil_getElem? {α : Type} [BEq α] [LawfulBEq α] (m : Nat) (hs : List α) (i : Nat) :
    (specRun m [] hs)[i]? = (hs[i]?).map (fun _ => passSpec m (occ hs i)) := by
  rw [specRun_getElem?]
  unfold occ
  cases hs[i]? <;> simp

/-! ### the count table -/

/-- the count the table stands for: an absent entry behaves like `1` (the next seen
occurrence writes `2`) -/
def val (f : KmerFilter) (h : Nat) : Nat := (f.counts.get? h).getD 1

theorem newCount_eq (f : KmerFilter) (h : Nat) : newCount f h = min (val f h + 1) 65535 := by
  unfold newCount val
  cases f.counts.get? h <;> simp

theorem filter_snd (f : KmerFilter) (h : Nat) :
    (f.filter h).2 =
      if f.minCount ≤ 1 then true
      else if f.minCount = 2 then decide (BloomHas f h)
      else (decide (BloomHas f h) && (f.minCount == newCount f h)) := by
  rw [filter_eq]
  split
  · rfl
  · split
    · exact bloom_snd f h
    · by_cases hb : BloomHas f h
      · have := (bloom_snd_true f h).2 hb
        simp [this, hb]
      · have : (f.bloomAddAndCheck h).2 = false := by
          rw [bloom_snd]; simpa using hb
        simp [this, hb]

theorem filter_counts (f : KmerFilter) (h : Nat) :
    (f.filter h).1.counts =
      if 3 ≤ f.minCount ∧ BloomHas f h then f.counts.insert h (newCount f h) else f.counts := by
  rw [filter_eq]
  by_cases h1 : f.minCount ≤ 1
  · have : ¬ 3 ≤ f.minCount := by omega
    simp [h1, this]
  · by_cases h2 : f.minCount = 2
    · simp [h2]
    · have h3 : 3 ≤ f.minCount := by omega
      by_cases hb : BloomHas f h
      · have := (bloom_snd_true f h).2 hb
        simp [h1, h2, h3, this, hb]
      · have : (f.bloomAddAndCheck h).2 = false := by
          rw [bloom_snd]; simpa using hb
        simp [h1, h2, this, hb]

theorem val_filter (f : KmerFilter) (h x : Nat) :
    val (f.filter h).1 x =
      if 3 ≤ f.minCount ∧ BloomHas f h ∧ h = x then min (val f h + 1) 65535 else val f x := by
  unfold val
  rw [filter_counts]
  by_cases hc : 3 ≤ f.minCount ∧ BloomHas f h
  · simp only [hc, and_self, ↓reduceIte, Std.HashMap.get?_insert, beq_iff_eq, true_and]
    by_cases hx : h = x
    · subst hx
      simp only [↓reduceIte, Option.getD_some]
      exact newCount_eq f h
    · simp [hx]
  · have : ¬ (3 ≤ f.minCount ∧ BloomHas f h ∧ h = x) := fun ⟨a, b, _⟩ => hc ⟨a, b⟩
    simp [hc, this]

/-! ### no Bloom false positives on the run -/

/-- `NoFPFrom f pre hs`: running `hs` from `f`, whose earlier observations were `pre`, the
Bloom check reports "seen" only for hashes that did occur earlier -/
def NoFPFrom (f : KmerFilter) (pre : List Nat) : List Nat → Prop
  | [] => True
  | h :: hs => (BloomHas f h → h ∈ pre) ∧ NoFPFrom (f.filter h).1 (h :: pre) hs

/-- no Bloom false positive among the observed hashes, for a fresh filter -/
def NoFP (m : Nat) (hs : List Nat) : Prop := NoFPFrom { minCount := m } [] hs

theorem noFPFrom_iff (f : KmerFilter) (pre hs : List Nat) :
    NoFPFrom f pre hs ↔
      ∀ i (hi : i < hs.length),
        ((runFilter f (hs.take i)).1.bloomAddAndCheck hs[i]).2 = true →
          hs[i] ∈ pre ∨ hs[i] ∈ hs.take i := by
  induction hs generalizing f pre with
  | nil => simp [NoFPFrom]
  | cons x xs ih =>
    simp only [NoFPFrom, ih]
    constructor
    · rintro ⟨h0, hrest⟩ i hi
      cases i with
      | zero =>
        simp only [List.take_zero, runFilter_nil, List.getElem_cons_zero, bloom_snd_true]
        intro hb; exact Or.inl (h0 hb)
      | succ i =>
        simp only [List.take_succ_cons, runFilter_cons, List.getElem_cons_succ]
        intro hb
        have := hrest i (by simpa using hi) hb
        simp only [List.mem_cons] at this ⊢
        rcases this with (h | h) | h
        · exact Or.inr (Or.inl h)
        · exact Or.inl h
        · exact Or.inr (Or.inr h)
    · intro hall
      refine ⟨?_, ?_⟩
      · intro hb
        have := hall 0 (by simp)
        simp only [List.take_zero, runFilter_nil, List.getElem_cons_zero, bloom_snd_true] at this
        simpa using this hb
      · intro i hi hb
        have := hall (i + 1) (by simpa using hi)
        simp only [List.take_succ_cons, runFilter_cons, List.getElem_cons_succ] at this
        have := this hb
        simp only [List.mem_cons] at this ⊢
        rcases this with h | h | h
        · exact Or.inl (Or.inr h)
        · exact Or.inl (Or.inl h)
        · exact Or.inr h

/-- `NoFP` stated on the run: for every prefix, the Bloom check of the next hash against the
state reached after that prefix reports `true` only if the hash occurs in the prefix -/
theorem noFP_iff_prefix (m : Nat) (hs : List Nat) :
    NoFP m hs ↔
      ∀ i (hi : i < hs.length),
        ((runFilter { minCount := m } (hs.take i)).1.bloomAddAndCheck hs[i]).2 = true →
          hs[i] ∈ hs.take i := by
  unfold NoFP
  rw [noFPFrom_iff]
  simp

/-! ### exact semantics under `NoFP` -/

/-- state invariant w.r.t. the earlier observations `pre`: everything observed is in the Bloom
filter, and the table holds exactly the saturated occurrence counts -/
def Inv (f : KmerFilter) (pre : List Nat) : Prop :=
  (2 ≤ f.minCount → ∀ x ∈ pre, BloomHas f x) ∧
  (3 ≤ f.minCount → ∀ x, val f x = max 1 (min (pre.count x) 65535))

theorem inv_fresh (m : Nat) : Inv { minCount := m } [] := by
  refine ⟨fun _ x hx => by simp at hx, fun _ x => ?_⟩
  simp [val]

theorem inv_step (f : KmerFilter) (pre : List Nat) (h : Nat) (hinv : Inv f pre)
    (hfp : BloomHas f h → h ∈ pre) :
    Inv (f.filter h).1 (h :: pre) ∧ (f.filter h).2 = passSpec f.minCount (pre.count h) := by
  obtain ⟨hB, hC⟩ := hinv
  refine ⟨⟨?_, ?_⟩, ?_⟩
  · intro hm x hx
    rw [filter_minCount] at hm
    rcases List.mem_cons.1 hx with rfl | hx
    · exact bloomHas_filter_self f x hm
    · exact bloomHas_filter f x h (hB hm x hx)
  · intro hm x
    rw [filter_minCount] at hm
    rw [val_filter, List.count_cons]
    have hCx := hC hm x
    have hCh := hC hm h
    by_cases hb : BloomHas f h
    · have hpos : 0 < pre.count h := List.count_pos_iff.2 (hfp hb)
      by_cases hx : h = x
      · subst hx
        simp only [hm, hb, and_self, ↓reduceIte, beq_self_eq_true]
        omega
      · have : (h == x) = false := by simpa using hx
        simp only [hx, and_false, ↓reduceIte, this, Bool.false_eq_true, Nat.add_zero]
        exact hCx
    · have hz : pre.count h = 0 := by
        apply List.count_eq_zero.2
        intro hmem; exact hb (hB (by omega) h hmem)
      by_cases hx : h = x
      · subst hx
        simp only [hb, false_and, and_false, ↓reduceIte, beq_self_eq_true]
        omega
      · have : (h == x) = false := by simpa using hx
        simp only [hb, false_and, and_false, ↓reduceIte, this, Bool.false_eq_true, Nat.add_zero]
        exact hCx
  · rw [filter_snd]
    unfold passSpec
    by_cases h1 : f.minCount ≤ 1
    · simp [h1]
    · by_cases h2 : f.minCount = 2
      · simp only [h2, show ¬ (2 ≤ 1) by omega, ↓reduceIte]
        have : BloomHas f h ↔ 1 ≤ pre.count h := by
          constructor
          · intro hb; exact List.count_pos_iff.2 (hfp hb)
          · intro hc; exact hB (by omega) h (List.count_pos_iff.1 hc)
        simp [this]
      · have hm : 3 ≤ f.minCount := by omega
        simp only [h1, h2, ↓reduceIte]
        have hCh := hC hm h
        rw [newCount_eq]
        by_cases hb : BloomHas f h
        · have hpos : 0 < pre.count h := List.count_pos_iff.2 (hfp hb)
          simp only [hb, decide_true, Bool.true_and]
          rw [hCh]
          have : max 1 (min (List.count h pre) 65535) + 1 = List.count h pre + 1 ∨
              (65535 ≤ List.count h pre) := by omega
          apply Bool.eq_iff_iff.2
          simp only [beq_iff_eq, decide_eq_true_eq]
          omega
        · have hz : pre.count h = 0 := by
            apply List.count_eq_zero.2
            intro hmem; exact hb (hB (by omega) h hmem)
          simp only [hb, decide_false, Bool.false_and, hz]
          symm
          simp only [decide_eq_false_iff_not]
          omega

/-- the pass flags of a run are the specified ones -/
theorem runFilter_eq_specRun (hs : List Nat) (f : KmerFilter) (pre : List Nat)
    (hinv : Inv f pre) (hfp : NoFPFrom f pre hs) :
    (runFilter f hs).2 = specRun f.minCount pre hs := by
  induction hs generalizing f pre with
  | nil => rfl
  | cons h hs ih =>
    obtain ⟨h0, hrest⟩ := hfp
    obtain ⟨hinv', hpass⟩ := inv_step f pre h hinv h0
    simp only [runFilter_cons, specRun, hpass]
    rw [ih _ _ hinv' hrest, filter_minCount]

/-- fresh filter: flags = specification -/
theorem runFilter_fresh (m : Nat) (hs : List Nat) (hfp : NoFP m hs) :
    (runFilter { minCount := m } hs).2 = specRun m [] hs :=
  runFilter_eq_specRun hs _ [] (inv_fresh m) hfp

end SkaModel.KF
