/-
C03 groundwork: families of equal-length A/C/G/T samples, their variable sites,
repeat-freeness and isolation; what one window and one cell of the joint-build
table look like under those hypotheses.
-/
import SkaModel.Spec.BuildTable
import SkaModel.Lemmas.MaskOf
import SkaModel.Lemmas.PackInj

namespace SkaModel.SNP

open SkaModel SkaModel.Spec

/-! ### bytes -/

/-- upper-case A, C, G, T -/
def acgt (b : UInt8) : Bool := b == 65 || b == 67 || b == 71 || b == 84

theorem acgt_cases {b : UInt8} (h : acgt b = true) : b = 65 ∨ b = 67 ∨ b = 71 ∨ b = 84 := by
  simpa [acgt, or_assoc] using h

theorem acgt_valid {b : UInt8} (h : acgt b = true) : validBase b = true := by
  rcases acgt_cases h with rfl | rfl | rfl | rfl <;> decide

/-- `decodeBase ∘ code` is the identity on upper-case A, C, G, T -/
theorem decode_code {b : UInt8} (h : acgt b = true) : decodeBase (code b) = b := by
  rcases acgt_cases h with rfl | rfl | rfl | rfl <;> decide

theorem code_inj {b b' : UInt8} (h : acgt b = true) (h' : acgt b' = true)
    (e : code b = code b') : b = b' := by
  rw [← decode_code h, ← decode_code h', e]

theorem decodeBase_inj {a b : Nat} (ha : a < 4) (hb : b < 4) (e : decodeBase a = decodeBase b) :
    a = b := by
  have h4 : ∀ a b : Fin 4, decodeBase a.val = decodeBase b.val → a.val = b.val := by decide
  exact h4 ⟨a, ha⟩ ⟨b, hb⟩ e

theorem decodeBase_ne_gap (a : Nat) : decodeBase a ≠ gap := by
  unfold decodeBase gap
  split
  · decide
  · split
    · decide
    · split <;> decide

theorem decodeBase_singleton {b : Nat} (hb : b < 4) :
    (1 <<< b ≠ 0) ∧ letterOfMask (1 <<< b) = decodeBase b := by
  have h4 : ∀ b : Fin 4, (1 <<< b.val ≠ 0) ∧ letterOfMask (1 <<< b.val) = decodeBase b.val := by
    decide
  exact h4 ⟨b, hb⟩

theorem xor2_inj {a b : Nat} (e : a ^^^ 2 = b ^^^ 2) : a = b := by
  rw [← xor2_xor2 a, ← xor2_xor2 b, e]

/-! ### families, variable sites, hypotheses -/

/-- some two samples differ at position `p` -/
def varSite (S : List (Array UInt8)) (p : Nat) : Bool :=
  S.any fun s => S.any fun s' => s.getD p 0 != s'.getD p 0

/-- the variable sites of a family of samples of length `L`, in increasing order -/
def varSites (L : Nat) (S : List (Array UInt8)) : List Nat :=
  (List.range L).filter (varSite S)

/-- all samples have length `L` and consist of upper-case A, C, G, T -/
structure Family (L : Nat) (S : List (Array UInt8)) : Prop where
  size : ∀ s ∈ S, s.size = L
  acgt : ∀ s ∈ S, ∀ p, p < L → acgt (s.getD p 0) = true

def familyB (L : Nat) (S : List (Array UInt8)) : Bool :=
  S.all fun s => s.size == L && (List.range L).all fun p => acgt (s.getD p 0)

theorem family_iff (L : Nat) (S : List (Array UInt8)) : familyB L S = true ↔ Family L S := by
  unfold familyB
  simp only [List.all_eq_true, Bool.and_eq_true, beq_iff_eq, List.mem_range]
  constructor
  · intro h
    exact ⟨fun s hs => (h s hs).1, fun s hs => (h s hs).2⟩
  · intro h s hs
    exact ⟨h.size s hs, h.acgt s hs⟩

/-- **Repeat-free on both strands**: a split k-mer key occurs at one coordinate
only, in every sample with the same arms (so on the same strand), and no window is
its own reverse complement. For `rc = false` the arms clause is automatic
(`RepeatFree.of_weak_rc_false`); for `rc = true` it cannot be dropped
(`Props/C03.lean`, `weak_repeatFree_counterexample`). -/
def RepeatFree (k : Nat) (rc : Bool) (L : Nat) (S : List (Array UInt8)) : Prop :=
  (∀ s ∈ S, ∀ s' ∈ S, ∀ j j', j + k ≤ L → j' + k ≤ L →
      (obs k rc s j).1 = (obs k rc s' j').1 → j = j' ∧ armsAt k s j = armsAt k s' j') ∧
  (∀ s ∈ S, ∀ j, j + k ≤ L → isPalin k rc s j = false)

/-- the literal reading of "every split k-mer is unique": equal keys only at equal coordinates -/
def RepeatFreeWeak (k : Nat) (rc : Bool) (L : Nat) (S : List (Array UInt8)) : Prop :=
  (∀ s ∈ S, ∀ s' ∈ S, ∀ j j', j + k ≤ L → j' + k ≤ L →
      (obs k rc s j).1 = (obs k rc s' j').1 → j = j') ∧
  (∀ s ∈ S, ∀ j, j + k ≤ L → isPalin k rc s j = false)

def repeatFreeB (k : Nat) (rc : Bool) (L : Nat) (S : List (Array UInt8)) : Bool :=
  (S.all fun s => S.all fun s' =>
    (List.range (L + 1 - k)).all fun j => (List.range (L + 1 - k)).all fun j' =>
      !((obs k rc s j).1 == (obs k rc s' j').1) || (j == j' && armsAt k s j == armsAt k s' j')) &&
  (S.all fun s => (List.range (L + 1 - k)).all fun j => !isPalin k rc s j)

def repeatFreeWeakB (k : Nat) (rc : Bool) (L : Nat) (S : List (Array UInt8)) : Bool :=
  (S.all fun s => S.all fun s' =>
    (List.range (L + 1 - k)).all fun j => (List.range (L + 1 - k)).all fun j' =>
      !((obs k rc s j).1 == (obs k rc s' j').1) || j == j') &&
  (S.all fun s => (List.range (L + 1 - k)).all fun j => !isPalin k rc s j)

theorem lt_windows_iff (k L j : Nat) : j < L + 1 - k ↔ j + k ≤ L := by omega

theorem repeatFree_iff (k : Nat) (rc : Bool) (L : Nat) (S : List (Array UInt8)) :
    repeatFreeB k rc L S = true ↔ RepeatFree k rc L S := by
  unfold repeatFreeB RepeatFree
  simp only [Bool.and_eq_true, List.all_eq_true, List.mem_range, lt_windows_iff,
    Bool.or_eq_true, Bool.not_eq_true', beq_eq_false_iff_ne, ne_eq, beq_iff_eq]
  constructor
  · rintro ⟨h1, h2⟩
    refine ⟨?_, h2⟩
    intro s hs s' hs' j j' hj hj' e
    rcases h1 s hs s' hs' j hj j' hj' with h | h
    · exact absurd e h
    · exact h
  · rintro ⟨h1, h2⟩
    refine ⟨?_, h2⟩
    intro s hs s' hs' j hj j' hj'
    by_cases e : (obs k rc s j).1 = (obs k rc s' j').1
    · exact Or.inr (h1 s hs s' hs' j j' hj hj' e)
    · exact Or.inl e

theorem repeatFreeWeak_iff (k : Nat) (rc : Bool) (L : Nat) (S : List (Array UInt8)) :
    repeatFreeWeakB k rc L S = true ↔ RepeatFreeWeak k rc L S := by
  unfold repeatFreeWeakB RepeatFreeWeak
  simp only [Bool.and_eq_true, List.all_eq_true, List.mem_range, lt_windows_iff,
    Bool.or_eq_true, Bool.not_eq_true', beq_eq_false_iff_ne, ne_eq, beq_iff_eq]
  constructor
  · rintro ⟨h1, h2⟩
    refine ⟨?_, h2⟩
    intro s hs s' hs' j j' hj hj' e
    rcases h1 s hs s' hs' j hj j' hj' with h | h
    · exact absurd e h
    · exact h
  · rintro ⟨h1, h2⟩
    refine ⟨?_, h2⟩
    intro s hs s' hs' j hj j' hj'
    by_cases e : (obs k rc s j).1 = (obs k rc s' j').1
    · exact Or.inr (h1 s hs s' hs' j j' hj hj' e)
    · exact Or.inl e

theorem RepeatFree.weak {k : Nat} {rc : Bool} {L : Nat} {S : List (Array UInt8)}
    (h : RepeatFree k rc L S) : RepeatFreeWeak k rc L S :=
  ⟨fun s hs s' hs' j j' hj hj' e => (h.1 s hs s' hs' j j' hj hj' e).1, h.2⟩

/-- on one strand the key determines the arms: the two notions coincide -/
theorem RepeatFree.of_weak_rc_false {k L : Nat} {S : List (Array UInt8)}
    (h : RepeatFreeWeak k false L S) : RepeatFree k false L S := by
  refine ⟨?_, h.2⟩
  intro s hs s' hs' j j' hj hj' e
  refine ⟨h.1 s hs s' hs' j j' hj hj' e, ?_⟩
  rw [obs_key, obs_key, if_neg (by simp), if_neg (by simp)] at e
  exact packL_inj (armsAt_codes k s j) (armsAt_codes k s' j')
    (by rw [armsAt_length, armsAt_length]) e

/-- **Isolated**: every variable site is at least `h = (k-1)/2` bases from both ends and
more than `h` bases from every other variable site -/
def Isolated (k L : Nat) (S : List (Array UInt8)) : Prop :=
  ∀ p ∈ varSites L S, (k - 1) / 2 ≤ p ∧ p + (k - 1) / 2 < L ∧
    ∀ q ∈ varSites L S, q ≠ p → p + (k - 1) / 2 < q ∨ q + (k - 1) / 2 < p

def isolatedB (k L : Nat) (S : List (Array UInt8)) : Bool :=
  (varSites L S).all fun p => decide ((k - 1) / 2 ≤ p) && decide (p + (k - 1) / 2 < L) &&
    (varSites L S).all fun q => q == p || decide (p + (k - 1) / 2 < q) || decide (q + (k - 1) / 2 < p)

theorem isolated_iff (k L : Nat) (S : List (Array UInt8)) :
    isolatedB k L S = true ↔ Isolated k L S := by
  unfold isolatedB Isolated
  simp only [List.all_eq_true, Bool.and_eq_true, decide_eq_true_eq, Bool.or_eq_true, beq_iff_eq]
  constructor
  · intro h p hp
    obtain ⟨⟨h1, h2⟩, h3⟩ := h p hp
    refine ⟨h1, h2, ?_⟩
    intro q hq hne
    rcases h3 q hq with (h | h) | h
    · exact absurd h hne
    · exact Or.inl h
    · exact Or.inr h
  · intro h p hp
    obtain ⟨h1, h2, h3⟩ := h p hp
    refine ⟨⟨h1, h2⟩, ?_⟩
    intro q hq
    by_cases hne : q = p
    · exact Or.inl (Or.inl hne)
    · rcases h3 q hq hne with h | h
      · exact Or.inl (Or.inr h)
      · exact Or.inr h

theorem varSite_true {S : List (Array UInt8)} {p : Nat} :
    varSite S p = true ↔ ∃ s ∈ S, ∃ s' ∈ S, s.getD p 0 ≠ s'.getD p 0 := by
  unfold varSite
  simp only [List.any_eq_true, bne_iff_ne, ne_eq]

theorem varSite_false {S : List (Array UInt8)} {p : Nat} (h : varSite S p = false)
    {s s' : Array UInt8} (hs : s ∈ S) (hs' : s' ∈ S) : s.getD p 0 = s'.getD p 0 := by
  apply Classical.byContradiction
  intro hne
  have : varSite S p = true := varSite_true.mpr ⟨s, hs, s', hs', hne⟩
  rw [h] at this
  cases this

theorem mem_varSites {L : Nat} {S : List (Array UInt8)} {p : Nat} :
    p ∈ varSites L S ↔ p < L ∧ varSite S p = true := by
  unfold varSites
  simp only [List.mem_filter, List.mem_range]

theorem varSites_nodup (L : Nat) (S : List (Array UInt8)) : (varSites L S).Nodup :=
  List.Pairwise.filter _ List.nodup_range

/-! ### one window -/

theorem armsAt_congr (k : Nat) (s s' : Array UInt8) (j : Nat)
    (h1 : ∀ t, t < (k - 1) / 2 → s.getD (j + t) 0 = s'.getD (j + t) 0)
    (h2 : ∀ t, t < (k - 1) / 2 →
      s.getD (j + (k - 1) / 2 + 1 + t) 0 = s'.getD (j + (k - 1) / 2 + 1 + t) 0) :
    armsAt k s j = armsAt k s' j := by
  unfold armsAt codesAt
  simp only
  congr 1
  · apply List.map_congr_left
    intro t ht
    rw [h1 t (List.mem_range.mp ht)]
  · apply List.map_congr_left
    intro t ht
    rw [h2 t (List.mem_range.mp ht)]

/-- equal arms: equal key, equal strand flag, and the reported middle bases are
equal exactly when the true middle bases are -/
theorem obs_of_arms_eq {k : Nat} {rc : Bool} {s s' : Array UInt8} {j j' : Nat}
    (h : armsAt k s j = armsAt k s' j') :
    (obs k rc s j).1 = (obs k rc s' j').1 ∧ (obs k rc s j).2.2 = (obs k rc s' j').2.2 ∧
    ((obs k rc s j).2.1 = (obs k rc s' j').2.1 ↔ midAt k s j = midAt k s' j') := by
  unfold obs
  simp only [h]
  split
  · refine ⟨rfl, rfl, ?_⟩
    exact ⟨xor2_inj, fun e => by rw [e]⟩
  · exact ⟨rfl, rfl, Iff.rfl⟩

/-- the reported middle base is the true one, complemented when the strand flag is set -/
theorem obs_mid (k : Nat) (rc : Bool) (s : Array UInt8) (j : Nat) :
    (obs k rc s j).2.1 = if (obs k rc s j).2.2 then midAt k s j ^^^ 2 else midAt k s j := by
  unfold obs
  simp only
  split <;> simp

theorem midAt_lt (k : Nat) (s : Array UInt8) (j : Nat) : midAt k s j < 4 := code_lt _

theorem obs_mid_lt (k : Nat) (rc : Bool) (s : Array UInt8) (j : Nat) : (obs k rc s j).2.1 < 4 := by
  rw [obs_mid]
  split
  · exact xor2_lt (midAt_lt k s j)
  · exact midAt_lt k s j

/-! ### one cell -/

theorem mem_windows_family {L : Nat} {S : List (Array UInt8)} (hF : Family L S) {k : Nat}
    {s : Array UInt8} (hs : s ∈ S) (j : Nat) : j ∈ windows k s ↔ j + k ≤ L := by
  rw [mem_windows, hF.size s hs]
  constructor
  · exact fun h => h.1
  · intro h
    refine ⟨h, ?_⟩
    intro t ht
    exact acgt_valid (hF.acgt s hs (j + t) (by omega))

theorem obsMask_of_not_palin {k : Nat} {rc : Bool} {s : Array UInt8} {j : Nat}
    (h : isPalin k rc s j = false) : obsMask k rc s j = 1 <<< (obs k rc s j).2.1 := by
  unfold obsMask
  simp [h]

/-- the sample's mask for a key it has at window `j` is the singleton of the reported base -/
theorem maskOf_at {L : Nat} {S : List (Array UInt8)} (hF : Family L S) {k : Nat} {rc : Bool}
    (hR : RepeatFreeWeak k rc L S) {s : Array UInt8} (hs : s ∈ S) {j : Nat} (hj : j + k ≤ L) :
    maskOf (observations k rc [s]) (obs k rc s j).1 = 1 <<< (obs k rc s j).2.1 := by
  apply Nat.eq_of_testBit_eq
  intro i
  rw [maskOf_testBit, Bool.eq_iff_iff, List.any_eq_true]
  constructor
  · rintro ⟨o, ho, hp⟩
    rw [mem_observations_single] at ho
    obtain ⟨j', hj', rfl⟩ := ho
    simp only [Bool.and_eq_true, beq_iff_eq] at hp
    have hj'' := (mem_windows_family hF hs j').mp hj'
    have e := hR.1 s hs s hs j' j hj'' hj hp.1
    subst e
    rw [← obsMask_of_not_palin (hR.2 s hs j' hj)]
    exact hp.2
  · intro hb
    refine ⟨((obs k rc s j).1, obsMask k rc s j), ?_, ?_⟩
    · rw [mem_observations_single]
      exact ⟨j, (mem_windows_family hF hs j).mpr hj, rfl⟩
    · simp only [beq_self_eq_true, Bool.true_and]
      rw [obsMask_of_not_palin (hR.2 s hs j hj)]
      exact hb

/-- cell of a sample that has the key at window `j` -/
theorem cell_at {L : Nat} {S : List (Array UInt8)} (hF : Family L S) {k : Nat} {rc : Bool}
    (hR : RepeatFreeWeak k rc L S) {s : Array UInt8} (hs : s ∈ S) {j : Nat} (hj : j + k ≤ L) :
    cellOfObs (observations k rc [s]) (obs k rc s j).1 = decodeBase (obs k rc s j).2.1 := by
  unfold cellOfObs
  simp only
  rw [maskOf_at hF hR hs hj]
  obtain ⟨h0, hl⟩ := decodeBase_singleton (obs_mid_lt k rc s j)
  rw [hl, if_neg (by simp [h0])]

/-- cell of a sample that has the key nowhere -/
theorem cell_absent {L : Nat} {S : List (Array UInt8)} (hF : Family L S) {k : Nat} {rc : Bool}
    {s : Array UInt8} (hs : s ∈ S) {key : Nat}
    (hno : ∀ j, j + k ≤ L → (obs k rc s j).1 ≠ key) :
    cellOfObs (observations k rc [s]) key = gap := by
  have h0 : maskOf (observations k rc [s]) key = 0 := by
    unfold maskOf
    have : (observations k rc [s]).filter (·.1 == key) = [] := by
      rw [List.filter_eq_nil_iff]
      intro o ho
      rw [mem_observations_single] at ho
      obtain ⟨j, hj, rfl⟩ := ho
      simpa using hno j ((mem_windows_family hF hs j).mp hj)
    rw [this]
    rfl
  unfold cellOfObs
  simp [h0]

/-- a non-gap cell means the sample has the key at some window -/
theorem cell_present {L : Nat} {S : List (Array UInt8)} (hF : Family L S) {k : Nat} {rc : Bool}
    {s : Array UInt8} (hs : s ∈ S) {key : Nat}
    (h : cellOfObs (observations k rc [s]) key ≠ gap) :
    ∃ j, j + k ≤ L ∧ (obs k rc s j).1 = key := by
  apply Classical.byContradiction
  intro hno
  apply h
  apply cell_absent hF hs
  intro j hj e
  exact hno ⟨j, hj, e⟩

end SkaModel.SNP
