/-
C17 (second sentence) — `groupSnpsPos` on a good group: as `groupSnps` (`LOCCall2.lean`), with the position
of every new site inside the group.
-/
import SkaModel.Lemmas.LODRef3

namespace SkaModel.LOD

open SkaModel SkaModel.Spec SkaModel.Props.C16 SkaModel.Skalo SkaModel.Props.C17G SkaModel.LOG SkaModel.LOC

/-- the body of the outer loop of `groupSnpsPos` -/
def posStepP (W kG n mNum mDen : Nat) (col : Colours) (done : List Nat) (vs : List Variant)
    (acc : List (Nat × List UInt8) × List Nat) (pos : Nat) : Option (List (Nat × List UInt8) × List Nat) :=
  if pos < kG then none
  else
    (vs.foldlM (LORL.inner W kG col done pos) (List.replicate n 45, [], true)).bind (fun st =>
      if st.2.2 then
        if (checkMissingData st.1).1 && ratioLe (checkMissingData st.1).2 n mNum mDen then
          some (acc.1 ++ [(pos, st.1)], acc.2 ++ st.2.1)
        else some acc
      else some acc)

theorem groupSnpsPos_eq (W kG n mNum mDen : Nat) (col : Colours) (done : List Nat) (vs : List Variant) :
    groupSnpsPos W kG n mNum mDen col done vs =
      (getPotentialSnp vs).foldlM (posStepP W kG n mNum mDen col done vs) ([], []) := by
  unfold groupSnpsPos
  simp only
  congr 1

variable {k L : Nat} {T : List (List UInt8)} {PT : List Nat}

/-- **`groupSnpsPos` on a good group**: the (position, column) pairs are those of the new sites (each once),
the saved k-mers belong to the new sites and include the k-mers that block them -/
theorem groupSnpsPos_good (pf : PFam k L T PT) (hk5 : 5 ≤ k) {W : Nat} (hW : 2 * k ≤ W) (hw : W = 64 ∨ W = 128)
    {col : Colours} (hc : ColOK k L col T) (done : List Nat) (mNum mDen : Nat) {c0 len : Nat} {vs : List Variant}
    (hg : GG k L T PT c0 len vs) (hne : vs ≠ [])
    (hdich : ∀ q ∈ PT, c0 ≤ q → q < c0 + len →
      (∀ t ∈ T, kmerAt k t (q - k + 1) ∈ done) ∨
      (∀ t ∈ T, kmerAt k t (q - k + 1) ∉ done ∧ rcKmerAt k t q ∉ done)) :
    ∃ (Qn : List Nat) (save : List Nat),
      groupSnpsPos W (k - 1) T.length mNum mDen col done vs = some (Qn.map (fun q => (q - c0, colT T q)), save) ∧
      Qn.Nodup ∧
      (∀ q, q ∈ Qn ↔ q ∈ PT ∧ c0 ≤ q ∧ q < c0 + len ∧ ∀ t ∈ T, kmerAt k t (q - k + 1) ∉ done) ∧
      (∀ x ∈ save, ∃ q ∈ Qn, Blk k T q x) ∧
      (∀ q ∈ Qn, ∀ t ∈ T, kmerAt k t (q - k + 1) ∈ save ∧ rcKmerAt k t q ∈ save) := by
  obtain ⟨t0, ht0⟩ := List.exists_mem_of_ne_nil T pf.ne
  rw [groupSnpsPos_eq]
  have loop : ∀ (ps : List Nat), ps.Nodup → (∀ pos ∈ ps, ∃ q ∈ PT, c0 ≤ q ∧ q < c0 + len ∧ pos = q - c0) →
      ∀ acc : List (Nat × List UInt8) × List Nat, ∃ (Qn : List Nat) (save : List Nat),
        ps.foldlM (posStepP W (k - 1) T.length mNum mDen col done vs) acc =
          some (acc.1 ++ Qn.map (fun q => (q - c0, colT T q)), acc.2 ++ save) ∧
        Qn.Nodup ∧
        (∀ q, q ∈ Qn ↔ q ∈ PT ∧ c0 ≤ q ∧ q < c0 + len ∧ q - c0 ∈ ps ∧ ∀ t ∈ T, kmerAt k t (q - k + 1) ∉ done) ∧
        (∀ x ∈ save, ∃ q ∈ Qn, Blk k T q x) ∧
        (∀ q ∈ Qn, ∀ t ∈ T, kmerAt k t (q - k + 1) ∈ save ∧ rcKmerAt k t q ∈ save) := by
    intro ps
    induction ps with
    | nil =>
      intro _ _ acc
      exact ⟨[], [], by simp, by simp, by simp, by simp, by simp⟩
    | cons pos rest ih =>
      intro hnd hps acc
      rw [List.nodup_cons] at hnd
      obtain ⟨q, hq, h1, h2, hpq⟩ := hps pos (List.mem_cons_self ..)
      obtain ⟨hr1, hr2⟩ := hg.room q hq h1 h2
      have hrest := fun acc' => ih hnd.2 (fun p hp => hps p (List.mem_cons_of_mem _ hp)) acc'
      have hposk : ¬ pos < k - 1 := by omega
      rw [List.foldlM_cons]
      rcases hdich q hq h1 h2 with hold | hnew
      · have hs : posStepP W (k - 1) T.length mNum mDen col done vs acc pos = some acc := by
          unfold posStepP
          rw [if_neg hposk, hpq, inner_old pf hk5 hW hw hg hne hq h1 h2 hold]
          rfl
        rw [hs]
        simp only [Option.bind_eq_bind, Option.bind_some]
        obtain ⟨Qn, save, hf, hQ1, hQ2, hQ3, hQ4⟩ := hrest acc
        refine ⟨Qn, save, hf, hQ1, ?_, hQ3, hQ4⟩
        intro q'
        rw [hQ2]
        constructor
        · rintro ⟨a, b, c, d, e⟩
          exact ⟨a, b, c, List.mem_cons_of_mem _ d, e⟩
        · rintro ⟨a, b, c, d, e⟩
          refine ⟨a, b, c, ?_, e⟩
          rcases List.mem_cons.mp d with d | d
          · exfalso
            have : q' = q := by omega
            rw [this] at e
            exact e t0 ht0 (hold t0 ht0)
          · exact d
      · obtain ⟨tmp, hfold, htmp1, htmp2⟩ := inner_new pf hk5 hW hw hc hg hq h1 h2 hnew
        have hcheck : checkMissingData (List.map (fun t => t.getD q 0) T) = (true, 0) := check_colT pf hq
        have hr : ratioLe 0 T.length mNum mDen = true := by unfold ratioLe; simp
        have hs : posStepP W (k - 1) T.length mNum mDen col done vs acc pos =
            some (acc.1 ++ [(q - c0, colT T q)], acc.2 ++ tmp) := by
          unfold posStepP
          rw [if_neg hposk, hpq, hfold]
          simp only [Option.bind_some, if_true, hcheck, hr, Bool.and_self]
          rfl
        rw [hs]
        simp only [Option.bind_eq_bind, Option.bind_some]
        obtain ⟨Qn, save, hf, hQ1, hQ2, hQ3, hQ4⟩ := hrest (acc.1 ++ [(q - c0, colT T q)], acc.2 ++ tmp)
        have hqn : q ∉ Qn := by
          intro hm
          have := ((hQ2 q).mp hm).2.2.2.1
          rw [← hpq] at this
          exact hnd.1 this
        refine ⟨q :: Qn, tmp ++ save, ?_, List.nodup_cons.mpr ⟨hqn, hQ1⟩, ?_, ?_, ?_⟩
        · rw [hf]
          simp
        · intro q'
          rw [List.mem_cons, hQ2]
          constructor
          · rintro (e | ⟨a, b, c, d, e⟩)
            · subst e
              exact ⟨hq, h1, h2, by rw [← hpq]; exact List.mem_cons_self .., fun t ht => (hnew t ht).1⟩
            · exact ⟨a, b, c, List.mem_cons_of_mem _ d, e⟩
          · rintro ⟨a, b, c, d, e⟩
            rcases List.mem_cons.mp d with d | d
            · left; omega
            · exact Or.inr ⟨a, b, c, d, e⟩
        · intro x hx
          rcases List.mem_append.mp hx with h | h
          · exact ⟨q, List.mem_cons_self .., htmp1 x h⟩
          · obtain ⟨q', hq', hb⟩ := hQ3 x h
            exact ⟨q', List.mem_cons_of_mem _ hq', hb⟩
        · intro q' hq' t ht
          rcases List.mem_cons.mp hq' with e | h
          · subst e
            exact ⟨List.mem_append_left _ (htmp2 t ht).1, List.mem_append_left _ (htmp2 t ht).2⟩
          · exact ⟨List.mem_append_right _ (hQ4 q' h t ht).1, List.mem_append_right _ (hQ4 q' h t ht).2⟩
  have hsorted := LO.getPotentialSnp_sorted vs
  obtain ⟨Qn, save, hf, hQ1, hQ2, hQ3, hQ4⟩ := loop (getPotentialSnp vs)
    (hsorted.imp (fun h => Nat.ne_of_lt h)) (fun pos hp => (gg_positions pf hk5 hg pos).mp hp) ([], [])
  refine ⟨Qn, save, by simpa using hf, hQ1, ?_, hQ3, hQ4⟩
  intro q
  rw [hQ2]
  constructor
  · rintro ⟨a, b, c, _, e⟩; exact ⟨a, b, c, e⟩
  · rintro ⟨a, b, c, e⟩
    exact ⟨a, b, c, (gg_positions pf hk5 hg _).mpr ⟨q, a, b, c, rfl⟩, e⟩

end SkaModel.LOD
