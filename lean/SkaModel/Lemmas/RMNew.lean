/-
`RefSka.new` in closed form, membership of the match list in terms of the
specification's `matchedBase`, well-formedness of the match list, and facts about
`contigOffset`.
-/
import SkaModel.Lemmas.RMMatch

namespace SkaModel.RM

open SkaModel SkaModel.Spec SkaModel.Props.C16 SkaModel.Props.C01

/-! ### `RefSka.new` -/

/-- the upper-cased reference -/
def upperRef (ref : List (Array UInt8)) : List (Array UInt8) := ref.map (fun r => r.map toUpper)

/-- the value of `repeatCoors` computed by `RefSka.new` -/
def newReps (k : Nat) (rc : Bool) (ref : List (Array UInt8)) (rmask : Bool) : List Nat :=
  if rmask then
    RefSka.repeatCoorsOf (halfK k) (upperRef ref) (RefSka.repeatsOf (refKeys k rc ref)) (kmersFrom k rc 0 ref)
  else []

theorem new_eq (W k : Nat) (rc : Bool) (hk : ValidK k) (hw : WidthOk W k) (names : List String)
    (ref : List (Array UInt8)) (amask rmask : Bool) :
    RefSka.new W k rc names ref amask rmask =
      if (kmersFrom k rc 0 ref).isEmpty then none
      else some { k := k, kmers := kmersFrom k rc 0 ref, ambigMask := amask, chromNames := names,
                  seq := upperRef ref, repeatCoors := newReps k rc ref rmask } := by
  unfold RefSka.new newReps upperRef
  simp only [new_kmers_eq W k rc hk hw ref, kmersFrom_keys]

theorem new_some (W k : Nat) (rc : Bool) (hk : ValidK k) (hw : WidthOk W k) (names : List String)
    (ref : List (Array UInt8)) (amask rmask : Bool) (r : RefSka)
    (h : RefSka.new W k rc names ref amask rmask = some r) :
    r = { k := k, kmers := kmersFrom k rc 0 ref, ambigMask := amask, chromNames := names,
          seq := upperRef ref, repeatCoors := newReps k rc ref rmask } := by
  rw [new_eq W k rc hk hw] at h
  split at h
  · cases h
  · cases h; rfl

theorem new_none_iff (W k : Nat) (rc : Bool) (hk : ValidK k) (hw : WidthOk W k) (names : List String)
    (ref : List (Array UInt8)) (amask rmask : Bool) :
    RefSka.new W k rc names ref amask rmask = none ↔ refKeys k rc ref = [] := by
  rw [new_eq W k rc hk hw, ← kmersFrom_keys k rc 0 ref]
  cases hkm : kmersFrom k rc 0 ref with
  | nil => simp
  | cons a l => simp

/-! ### the match list -/

theorem mem_ms (k : Nat) (rc : Bool) (d : MDict) (hgs : rc = true → GapSafe d) (s : Nat)
    (ref : List (Array UInt8)) (m : Match) :
    m ∈ (kmersFrom k rc 0 ref).filterMap (matchOf d s) ↔
      ∃ c, ref[m.1]? = some c ∧
        matchedBase k rc (fun key => Assoc.lookup d.kmers key) c s m.2.1 = some m.2.2 := by
  rw [List.mem_filterMap]
  constructor
  · rintro ⟨rk, hrk, hm⟩
    rw [mem_kmersFrom] at hrk
    obtain ⟨i, c, j, hi, hj, rfl⟩ := hrk
    rw [matchOf_window k rc d hgs s _ c j hj, Option.map_eq_some_iff] at hm
    obtain ⟨x, hx, rfl⟩ := hm
    refine ⟨c, ?_, hx⟩
    show ref[0 + i]? = some c
    rw [Nat.zero_add]; exact hi
  · rintro ⟨c, hc, hmb⟩
    have hcen := (isCentre_iff k c m.2.1).mp (matchedBase_isCentre hmb)
    refine ⟨mkRK k rc (0 + m.1) c (m.2.1 - halfK k), ?_, ?_⟩
    · rw [mem_kmersFrom]
      exact ⟨m.1, c, m.2.1 - halfK k, hc, hcen.2, rfl⟩
    · rw [matchOf_window k rc d hgs s _ c _ hcen.2]
      have e : m.2.1 - halfK k + halfK k = m.2.1 := by omega
      rw [e, hmb, Nat.zero_add]
      rfl

theorem upperRef_length (ref : List (Array UInt8)) : (upperRef ref).length = ref.length := by
  unfold upperRef; rw [List.length_map]

theorem upperRef_getD_size (ref : List (Array UInt8)) (c : Nat) :
    ((upperRef ref).getD c #[]).size = (ref.getD c #[]).size := by
  unfold upperRef
  rw [List.getD_eq_getElem?_getD, List.getD_eq_getElem?_getD, List.getElem?_map]
  cases ref[c]? with
  | none => rfl
  | some a => simp

theorem upperRef_getD_getD (ref : List (Array UInt8)) (c p : Nat) :
    ((upperRef ref).getD c #[]).getD p 0 = upperByte ((ref.getD c #[]).getD p 0) := by
  unfold upperRef
  rw [List.getD_eq_getElem?_getD, List.getD_eq_getElem?_getD, List.getElem?_map]
  cases ref[c]? with
  | none => rfl
  | some a =>
    simp only [Option.map_some, Option.getD_some, Array.getD_eq_getD_getElem?, Array.getElem?_map]
    cases a[p]? with
    | none => rfl
    | some b => rfl

theorem ms_bound (k : Nat) (rc : Bool) (hk : ValidK k) (d : MDict) (hgs : rc = true → GapSafe d) (s : Nat)
    (ref : List (Array UInt8)) (m : Match)
    (hm : m ∈ (kmersFrom k rc 0 ref).filterMap (matchOf d s)) :
    MBound (upperRef ref) (halfK k) m := by
  rw [mem_ms k rc d hgs] at hm
  obtain ⟨c, hc, hmb⟩ := hm
  have hcen := (isCentre_iff k c m.2.1).mp (matchedBase_isCentre hmb)
  have hw := (mem_windows k c _).mp hcen.2
  have hlt : m.1 < ref.length := by
    rcases Nat.lt_or_ge m.1 ref.length with h | h
    · exact h
    · rw [List.getElem?_eq_none h] at hc; cases hc
  refine ⟨by rw [upperRef_length]; exact hlt, hcen.1, ?_⟩
  rw [upperRef_getD_size, List.getD_eq_getElem?_getD, hc]
  show m.2.1 + halfK k < c.size
  have hk2 : k = 2 * halfK k + 1 := by unfold ValidK at hk; unfold halfK; omega
  omega

theorem ms_pairwise (k : Nat) (rc : Bool) (d : MDict) (s : Nat) (ref : List (Array UInt8)) :
    ((kmersFrom k rc 0 ref).filterMap (matchOf d s)).Pairwise Mlt := by
  refine List.Pairwise.filterMap (matchOf d s) ?_ (kmersFrom_pairwise k rc 0 ref)
  intro a a' haa b hb b' hb'
  obtain ⟨h1, h2⟩ := matchOf_chrom_pos hb
  obtain ⟨h1', h2'⟩ := matchOf_chrom_pos hb'
  unfold Mlt
  rw [h1, h2, h1', h2']
  exact haa

theorem ms_ok (k : Nat) (rc : Bool) (hk : ValidK k) (d : MDict) (hgs : rc = true → GapSafe d) (s : Nat)
    (ref : List (Array UInt8)) :
    MatchesOK (upperRef ref) (halfK k) ((kmersFrom k rc 0 ref).filterMap (matchOf d s)) :=
  matchesOK_of_pairwise _ _ _ (fun m hm => ms_bound k rc hk d hgs s ref m hm) (ms_pairwise k rc d s ref)

/-! ### `contigOffset` -/

theorem foldl_add_eq_sum (l : List Nat) (a : Nat) : l.foldl (· + ·) a = a + l.sum := by
  induction l generalizing a with
  | nil => simp
  | cons x l ih => rw [List.foldl_cons, ih, List.sum_cons]; omega

theorem contigOffset_eq_sum (ref : List (Array UInt8)) (c : Nat) :
    contigOffset ref c = ((ref.take c).map (·.size)).sum := by
  unfold contigOffset
  rw [foldl_add_eq_sum, Nat.zero_add]

theorem contigOffset_zero (ref : List (Array UInt8)) : contigOffset ref 0 = 0 := rfl

theorem contigOffset_succ (ref : List (Array UInt8)) (c : Nat) :
    contigOffset ref (c + 1) = contigOffset ref c + (ref.getD c #[]).size := by
  rw [contigOffset_eq_sum, contigOffset_eq_sum, List.take_add_one, List.map_append, List.sum_append,
    List.getD_eq_getElem?_getD]
  cases ref[c]? with
  | none => rfl
  | some a => simp

theorem contigOffset_add (ref : List (Array UInt8)) (c m : Nat) :
    contigOffset ref (c + m)
      = ((List.range m).map (fun d => (ref.getD (c + d) #[]).size)).foldl (· + ·) (contigOffset ref c) := by
  induction m with
  | zero => rfl
  | succ m ih =>
    rw [List.range_succ, List.map_append, List.foldl_append, ← ih, ← Nat.add_assoc, contigOffset_succ]
    rfl

theorem contigOffset_mono (ref : List (Array UInt8)) {c c' : Nat} (h : c ≤ c') :
    contigOffset ref c ≤ contigOffset ref c' := by
  induction c' with
  | zero => rw [Nat.le_zero.mp h]; exact Nat.le_refl _
  | succ n ih =>
    rcases Nat.lt_or_ge c (n + 1) with h1 | h1
    · have := ih (by omega)
      rw [contigOffset_succ]; omega
    · rw [show c = n + 1 by omega]; exact Nat.le_refl _

/-- an absolute index determines contig and position -/
theorem contigOffset_inj (ref : List (Array UInt8)) {c c' p p' : Nat}
    (hp : p < (ref.getD c #[]).size) (hp' : p' < (ref.getD c' #[]).size)
    (h : contigOffset ref c + p = contigOffset ref c' + p') : c = c' ∧ p = p' := by
  rcases Nat.lt_trichotomy c c' with hlt | heq | hgt
  · have := contigOffset_mono ref (show c + 1 ≤ c' from hlt)
    rw [contigOffset_succ] at this
    omega
  · subst heq; exact ⟨rfl, by omega⟩
  · have := contigOffset_mono ref (show c' + 1 ≤ c from hgt)
    rw [contigOffset_succ] at this
    omega

theorem contigOffset_upperRef (ref : List (Array UInt8)) (c : Nat) :
    contigOffset (upperRef ref) c = contigOffset ref c := by
  induction c with
  | zero => rfl
  | succ c ih => rw [contigOffset_succ, contigOffset_succ, ih, upperRef_getD_size]

end SkaModel.RM
