/-
`unionSorted` (`BitSet::union_with` on ascending lists of sample indices): members, order,
idempotence, commutativity, associativity; strictly increasing lists with the same members are equal;
the sample lists of `rowGraph` are strictly increasing.
-/
import SkaModel.Impl.SkaloUnion

namespace SkaModel.LOU

open SkaModel SkaModel.Skalo

/-- strictly increasing -/
abbrev SInc (l : List Nat) : Prop := l.Pairwise (· < ·)

theorem unionSorted_nil_left (ys : List Nat) : unionSorted [] ys = ys := by
  unfold unionSorted; rfl

theorem unionSorted_nil_right (xs : List Nat) : unionSorted xs [] = xs := by
  cases xs with
  | nil => exact unionSorted_nil_left []
  | cons x xs => unfold unionSorted; rfl

theorem unionSorted_cons_cons (x y : Nat) (xs ys : List Nat) :
    unionSorted (x :: xs) (y :: ys) =
      if x < y then x :: unionSorted xs (y :: ys)
      else if y < x then y :: unionSorted (x :: xs) ys
      else x :: unionSorted xs ys := by
  rw [unionSorted]

/-- the members of the union (any two lists) -/
theorem mem_unionSorted (xs ys : List Nat) (i : Nat) :
    i ∈ unionSorted xs ys ↔ i ∈ xs ∨ i ∈ ys := by
  induction xs, ys using unionSorted.induct with
  | case1 ys => rw [unionSorted_nil_left]; simp
  | case2 x xs => rw [unionSorted_nil_right]; simp
  | case3 x xs y ys h ih =>
    rw [unionSorted_cons_cons, if_pos h, List.mem_cons, ih]
    simp only [List.mem_cons]
    constructor
    · rintro (h | h | h | h)
      · exact Or.inl (Or.inl h)
      · exact Or.inl (Or.inr h)
      · exact Or.inr (Or.inl h)
      · exact Or.inr (Or.inr h)
    · rintro ((h | h) | h | h)
      · exact Or.inl h
      · exact Or.inr (Or.inl h)
      · exact Or.inr (Or.inr (Or.inl h))
      · exact Or.inr (Or.inr (Or.inr h))
  | case4 x xs y ys h1 h2 ih =>
    rw [unionSorted_cons_cons, if_neg h1, if_pos h2, List.mem_cons, ih]
    simp only [List.mem_cons]
    constructor
    · rintro (h | (h | h) | h)
      · exact Or.inr (Or.inl h)
      · exact Or.inl (Or.inl h)
      · exact Or.inl (Or.inr h)
      · exact Or.inr (Or.inr h)
    · rintro ((h | h) | h | h)
      · exact Or.inr (Or.inl (Or.inl h))
      · exact Or.inr (Or.inl (Or.inr h))
      · exact Or.inl h
      · exact Or.inr (Or.inr h)
  | case5 x xs y ys h1 h2 ih =>
    have e : x = y := by omega
    subst e
    rw [unionSorted_cons_cons, if_neg h1, if_neg h2, List.mem_cons, ih]
    simp only [List.mem_cons]
    constructor
    · rintro (h | h | h)
      · exact Or.inl (Or.inl h)
      · exact Or.inl (Or.inr h)
      · exact Or.inr (Or.inr h)
    · rintro ((h | h) | h | h)
      · exact Or.inl h
      · exact Or.inr (Or.inl h)
      · exact Or.inl h
      · exact Or.inr (Or.inr h)

/-- the union of strictly increasing lists is strictly increasing -/
theorem unionSorted_sorted (xs ys : List Nat) (hx : SInc xs) (hy : SInc ys) :
    SInc (unionSorted xs ys) := by
  induction xs, ys using unionSorted.induct with
  | case1 ys => rw [unionSorted_nil_left]; exact hy
  | case2 x xs => rw [unionSorted_nil_right]; exact hx
  | case3 x xs y ys h ih =>
    rw [unionSorted_cons_cons, if_pos h]
    have hx' := List.pairwise_cons.mp hx
    have hy' := List.pairwise_cons.mp hy
    refine List.pairwise_cons.mpr ⟨?_, ih hx'.2 hy⟩
    intro i hi
    rcases (mem_unionSorted _ _ _).mp hi with hi | hi
    · exact hx'.1 i hi
    · rcases List.mem_cons.mp hi with hi | hi
      · omega
      · have := hy'.1 i hi; omega
  | case4 x xs y ys h1 h2 ih =>
    rw [unionSorted_cons_cons, if_neg h1, if_pos h2]
    have hx' := List.pairwise_cons.mp hx
    have hy' := List.pairwise_cons.mp hy
    refine List.pairwise_cons.mpr ⟨?_, ih hx hy'.2⟩
    intro i hi
    rcases (mem_unionSorted _ _ _).mp hi with hi | hi
    · rcases List.mem_cons.mp hi with hi | hi
      · omega
      · have := hx'.1 i hi; omega
    · exact hy'.1 i hi
  | case5 x xs y ys h1 h2 ih =>
    have e : x = y := by omega
    subst e
    rw [unionSorted_cons_cons, if_neg h1, if_neg h2]
    have hx' := List.pairwise_cons.mp hx
    have hy' := List.pairwise_cons.mp hy
    refine List.pairwise_cons.mpr ⟨?_, ih hx'.2 hy'.2⟩
    intro i hi
    rcases (mem_unionSorted _ _ _).mp hi with hi | hi
    · exact hx'.1 i hi
    · exact hy'.1 i hi

/-- `s.union_with(&s)` changes nothing (any list) -/
theorem unionSorted_self (xs : List Nat) : unionSorted xs xs = xs := by
  induction xs with
  | nil => exact unionSorted_nil_left []
  | cons x xs ih =>
    rw [unionSorted_cons_cons, if_neg (Nat.lt_irrefl x), if_neg (Nat.lt_irrefl x), ih]

/-- **extensionality**: strictly increasing lists with the same members are equal -/
theorem sinc_ext : ∀ (xs ys : List Nat), SInc xs → SInc ys → (∀ i, i ∈ xs ↔ i ∈ ys) → xs = ys
  | [], [], _, _, _ => rfl
  | [], y :: ys, _, _, h => by have := (h y).mpr List.mem_cons_self; simp at this
  | x :: xs, [], _, _, h => by have := (h x).mp List.mem_cons_self; simp at this
  | x :: xs, y :: ys, hx, hy, h => by
    have hx' := List.pairwise_cons.mp hx
    have hy' := List.pairwise_cons.mp hy
    have e : x = y := by
      have h1 := (h x).mp List.mem_cons_self
      have h2 := (h y).mpr List.mem_cons_self
      rcases List.mem_cons.mp h1 with h1 | h1
      · exact h1
      · rcases List.mem_cons.mp h2 with h2 | h2
        · exact h2.symm
        · have := hx'.1 y h2
          have := hy'.1 x h1
          omega
    subst e
    congr 1
    apply sinc_ext xs ys hx'.2 hy'.2
    intro i
    have hi := h i
    simp only [List.mem_cons] at hi
    constructor
    · intro hm
      rcases hi.mp (Or.inr hm) with h' | h'
      · have := hx'.1 i hm; omega
      · exact h'
    · intro hm
      rcases hi.mpr (Or.inr hm) with h' | h'
      · have := hy'.1 i hm; omega
      · exact h'

theorem unionSorted_comm (xs ys : List Nat) (hx : SInc xs) (hy : SInc ys) :
    unionSorted xs ys = unionSorted ys xs := by
  apply sinc_ext _ _ (unionSorted_sorted _ _ hx hy) (unionSorted_sorted _ _ hy hx)
  intro i
  rw [mem_unionSorted, mem_unionSorted]
  exact Or.comm

theorem unionSorted_assoc (xs ys zs : List Nat) (hx : SInc xs) (hy : SInc ys) (hz : SInc zs) :
    unionSorted (unionSorted xs ys) zs = unionSorted xs (unionSorted ys zs) := by
  apply sinc_ext _ _ (unionSorted_sorted _ _ (unionSorted_sorted _ _ hx hy) hz)
    (unionSorted_sorted _ _ hx (unionSorted_sorted _ _ hy hz))
  intro i
  simp only [mem_unionSorted]
  exact or_assoc

/-- a set that is contained in the other is absorbed -/
theorem unionSorted_absorb (xs ys : List Nat) (hx : SInc xs) (hy : SInc ys) (h : ∀ i ∈ ys, i ∈ xs) :
    unionSorted xs ys = xs := by
  apply sinc_ext _ _ (unionSorted_sorted _ _ hx hy) hx
  intro i
  rw [mem_unionSorted]
  exact ⟨fun h' => h'.elim id (h i), Or.inl⟩

/-! ### the sample lists of `rowGraph` -/

/-- the indices of the cells that satisfy a predicate, ascending -/
theorem samples_sorted (cells : List UInt8) (p : UInt8 × Nat → Bool) :
    SInc ((cells.zipIdx.filter p).map (·.2)) := by
  have hs : ((cells.zipIdx.filter p).map (·.2)).Sublist (cells.zipIdx.map (·.2)) :=
    List.Sublist.map _ List.filter_sublist
  refine List.Pairwise.sublist hs ?_
  have : cells.zipIdx.map (·.2) = List.range' 0 cells.length := by
    simp
  rw [this]
  exact List.pairwise_lt_range'

/-- **rowGraph_samples_sorted**: every sample list a row contributes is strictly increasing -/
theorem rowGraph_samples_sorted (W k key : Nat) (cells : List UInt8) :
    ∀ e ∈ (rowGraph W k key cells).2, SInc e.2 := by
  unfold rowGraph
  generalize decodeKmer W k key = lr
  obtain ⟨left, right⟩ := lr
  simp only
  generalize ([65, 67, 71, 84] : List UInt8).filter
    (fun n => cells.any (fun c => c != 45 && (degenerate c).contains n)) = bases
  suffices H : ∀ (acc : List (Nat × Nat) × List (Nat × List Nat)), (∀ e ∈ acc.2, SInc e.2) →
      ∀ e ∈ (bases.foldl (fun (acc : List (Nat × Nat) × List (Nat × List Nat)) n =>
        let full := left ++ [n] ++ right
        let samples := (cells.zipIdx.filter (fun ci => ci.1 != 45 && (degenerate ci.1).contains n)).map (·.2)
        let k1 := encodeKmer W (full.take (k - 1))
        let k2 := encodeKmer W (full.drop 1)
        let f := encodeKmer W full
        (acc.1 ++ [(k1, k2), (revComp W k2 (k - 1), revComp W k1 (k - 1))],
         acc.2 ++ [(f, samples), (revComp W f k, samples)])) acc).2, SInc e.2 by
    exact H ([], []) (by simp)
  induction bases with
  | nil => intro acc h; exact h
  | cons n bases ih =>
    intro acc h
    rw [List.foldl_cons]
    apply ih
    intro e he
    simp only [List.mem_append, List.mem_cons, List.not_mem_nil, or_false] at he
    rcases he with he | he | he
    · exact h e he
    · rw [he]; exact samples_sorted _ _
    · rw [he]; exact samples_sorted _ _

end SkaModel.LOU
