/-
Single-bit flips in a byte string; the frame decoder on a damaged stream identifier.
-/
import SkaModel.Lemmas.FrameChunks
import SkaModel.Lemmas.CrcInj

namespace SkaModel.FR

open SkaModel

/-- flip bit `i` (0 = least significant) of a byte -/
def flipBit (b : UInt8) (i : Nat) : UInt8 := b ^^^ UInt8.ofNat (2 ^ i)

/-- flip bit `i` of byte `j` of a byte string -/
def flipAt : List UInt8 → Nat → Nat → List UInt8
  | [], _, _ => []
  | b :: l, 0, i => flipBit b i :: l
  | b :: l, j + 1, i => b :: flipAt l j i

theorem flipBit_ne (b : UInt8) {i : Nat} (hi : i < 8) : flipBit b i ≠ b := by
  intro h
  have h1 := congrArg UInt8.toNat h
  unfold flipBit at h1
  rw [UInt8.toNat_xor, UInt8.toNat_ofNat'] at h1
  have h2 : b.toNat ^^^ (2 ^ i % 2 ^ 8) = b.toNat ^^^ 0 := by simpa using h1
  have h3 := xor_cancel_left h2
  have h4 : 2 ^ i < 2 ^ 8 := Nat.pow_lt_pow_right (by decide) hi
  have h5 : 0 < 2 ^ i := Nat.pow_pos (by decide)
  rw [Nat.mod_eq_of_lt h4] at h3
  omega

/-- the flipped byte differs from the original in exactly bit `i` -/
theorem flipBit_toNat (b : UInt8) {i : Nat} (hi : i < 8) : (flipBit b i).toNat = b.toNat ^^^ 2 ^ i := by
  unfold flipBit
  rw [UInt8.toNat_xor, UInt8.toNat_ofNat', Nat.mod_eq_of_lt (Nat.pow_lt_pow_right (by decide) hi)]

theorem flipAt_length : ∀ (l : List UInt8) (j i : Nat), (flipAt l j i).length = l.length
  | [], _, _ => rfl
  | _ :: _, 0, _ => rfl
  | _ :: l, j + 1, i => by simp [flipAt, flipAt_length l j i]

theorem flipAt_append_left : ∀ (a b : List UInt8) (j i : Nat), j < a.length →
    flipAt (a ++ b) j i = flipAt a j i ++ b
  | [], _, _, _, h => by simp at h
  | _ :: _, _, 0, _, _ => rfl
  | x :: a, b, j + 1, i, h => by
    simp only [List.cons_append, flipAt]
    rw [flipAt_append_left a b j i (by simpa using h)]

theorem flipAt_append_right : ∀ (a b : List UInt8) (j i : Nat),
    flipAt (a ++ b) (a.length + j) i = a ++ flipAt b j i
  | [], _, _, _ => by simp
  | x :: a, b, j, i => by
    have : (x :: a).length + j = (a.length + j) + 1 := by simp; omega
    rw [this]
    simp only [List.cons_append, flipAt]
    rw [flipAt_append_right a b j i]

theorem flipAt_split : ∀ (l : List UInt8) (j i : Nat), j < l.length →
    ∃ pre x post, l = pre ++ x :: post ∧ flipAt l j i = pre ++ flipBit x i :: post
  | [], _, _, h => by simp at h
  | b :: l, 0, i, _ => ⟨[], b, l, rfl, rfl⟩
  | b :: l, j + 1, i, h => by
    obtain ⟨pre, x, post, h1, h2⟩ := flipAt_split l j i (by simpa using h)
    exact ⟨b :: pre, x, post, by rw [h1]; rfl, by simp only [flipAt]; rw [h2]; rfl⟩

theorem flipAt_ne (l : List UInt8) {j i : Nat} (hj : j < l.length) (hi : i < 8) : flipAt l j i ≠ l := by
  obtain ⟨pre, x, post, h1, h2⟩ := flipAt_split l j i hj
  rw [h2]
  intro h
  rw [h1] at h
  have := List.append_cancel_left h
  injection this with hx _
  exact flipBit_ne x hi hx

/-! ### a damaged stream identifier -/

/-- the error the decoder reports for a 10-byte stream header, if any -/
def identErr : List UInt8 → Option FrameErr
  | [a, b, c, d, e1, e2, e3, e4, e5, e6] =>
    if a.toNat ≠ 255 then some .streamHeader
    else if leNat [b, c, d] ≠ 6 then some .chunkLength
    else if [e1, e2, e3, e4, e5, e6] ≠ STREAM_BODY then some .headerMismatch
    else none
  | _ => none

theorem unframe_identErr (decomp : List UInt8 → Option (List UInt8)) (hdr rest : List UInt8)
    (e : FrameErr) (h : identErr hdr = some e) : unframe decomp (hdr ++ rest) = .error e := by
  match hdr, h with
  | [a, b, c, d, e1, e2, e3, e4, e5, e6], h =>
    rw [unframe_eq_run]
    apply run_err
    show step decomp false (a :: b :: c :: d :: ([e1, e2, e3, e4, e5, e6] ++ rest)) = _
    rw [step_cons4]
    have h : (if a.toNat ≠ 255 then some FrameErr.streamHeader
        else if leNat [b, c, d] ≠ 6 then some FrameErr.chunkLength
        else if [e1, e2, e3, e4, e5, e6] ≠ STREAM_BODY then some FrameErr.headerMismatch
        else none) = some e := h
    unfold stepBody
    by_cases h1 : a.toNat ≠ 255
    · rw [if_pos h1] at h
      injection h with h
      rw [if_pos (by simpa using h1), h]
    rw [if_neg h1] at h
    have h1 : a.toNat = 255 := by simpa using h1
    rw [h1, if_neg (by simp)]
    by_cases h2 : leNat [b, c, d] ≠ 6
    · rw [if_pos h2] at h
      injection h with h
      subst h
      split
      · rfl
      rw [if_neg (by decide), if_neg (by decide), if_pos (by decide)]
      unfold stepIdent
      rw [if_pos (by simpa using h2)]
    rw [if_neg h2] at h
    have h2 : leNat [b, c, d] = 6 := by simpa using h2
    rw [h2]
    by_cases h3 : [e1, e2, e3, e4, e5, e6] ≠ STREAM_BODY
    · rw [if_pos h3] at h
      injection h with h
      subst h
      rw [if_neg (by decide), if_neg (by decide), if_neg (by decide), if_pos (by decide)]
      unfold stepIdent
      have e1' : ([e1, e2, e3, e4, e5, e6] ++ rest).take 6 = [e1, e2, e3, e4, e5, e6] :=
        List.take_left' rfl
      rw [if_neg (by decide), if_neg (by simp), e1', if_pos (by simpa using h3)]
    · rw [if_neg h3] at h
      cases h

/-- the error reported after flipping a bit of byte `j` of the stream identifier -/
def identFlipErr (j : Nat) : FrameErr :=
  if j = 0 then .streamHeader else if j < 4 then .chunkLength else .headerMismatch

theorem identErr_flip : ∀ (j : Fin 10) (i : Fin 8),
    identErr (flipAt IDENT j.val i.val) = some (identFlipErr j.val) := by
  decide

end SkaModel.FR
