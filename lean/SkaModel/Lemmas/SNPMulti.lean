/-
C03, several contigs: samples are lists of records, record `c` of every sample being
that sample's version of contig `c`. The table of the joint build is, up to row order,
the union of the per-contig tables, so the single-contig result applies contig by contig.
-/
import SkaModel.Lemmas.SNPRows

namespace SkaModel.SNP

open SkaModel SkaModel.Spec

/-! ### lists -/

theorem perm_flatMap_congr {α β : Type _} {f g : α → List β} :
    ∀ {l : List α}, (∀ a ∈ l, (f a).Perm (g a)) → (l.flatMap f).Perm (l.flatMap g)
  | [], _ => by simp
  | a :: l, h => by
    rw [List.flatMap_cons, List.flatMap_cons]
    exact (h a List.mem_cons_self).append
      (perm_flatMap_congr (fun b hb => h b (List.mem_cons_of_mem _ hb)))

theorem mem_iff_getD {l : List (Array UInt8)} {r : Array UInt8} :
    r ∈ l ↔ ∃ c, c < l.length ∧ l.getD c #[] = r := by
  rw [List.mem_iff_getElem]
  constructor
  · rintro ⟨c, hc, rfl⟩
    exact ⟨c, hc, by simp [List.getD_eq_getElem?_getD, hc]⟩
  · rintro ⟨c, hc, rfl⟩
    exact ⟨c, hc, by simp [List.getD_eq_getElem?_getD, hc]⟩

/-! ### the single-contig result, on keys and rows -/

/-- `T03_align_single` before it is read off the table -/
theorem passing_rows_perm {L : Nat} {S : List (Array UInt8)} (hF : Family L S) {k : Nat}
    {rc : Bool} (hk : k % 2 = 1) (hR : RepeatFree k rc L S) (hI : Isolated k L S) :
    (((keysOf k rc S).filter fun key =>
        Table.passes S.length false .noConst false (rowOf k rc S key)).map (rowOf k rc S)).Perm
      ((varSites L S).map fun p => S.map fun s => decodeBase (obs k rc s (p - (k - 1) / 2)).2.1) := by
  have h := (passing_keys_perm hF hk hR hI).map (rowOf k rc S)
  rw [List.map_map] at h
  have e : (varSites L S).map (rowOf k rc S ∘ fun p => keyAt k rc S (p - (k - 1) / 2))
      = (varSites L S).map fun p => S.map fun s => decodeBase (obs k rc s (p - (k - 1) / 2)).2.1 := by
    apply List.map_congr_left
    intro p hp
    exact (row_at_site hF hk hR.weak hI hp).2.1
  rw [e] at h
  exact h

/-! ### families of multi-contig samples -/

/-- contig `c` of every sample -/
def contig (A : List (List (Array UInt8))) (c : Nat) : List (Array UInt8) :=
  A.map fun recs => recs.getD c #[]

theorem contig_length (A : List (List (Array UInt8))) (c : Nat) : (contig A c).length = A.length := by
  simp [contig]

/-- every sample has `m` records; record `c` of every sample has length `L c` and consists of
upper-case A, C, G, T -/
structure FamilyM (m : Nat) (L : Nat → Nat) (A : List (List (Array UInt8))) : Prop where
  width : ∀ recs ∈ A, recs.length = m
  fam : ∀ c, c < m → Family (L c) (contig A c)

/-- repeat-free on both strands, over all contigs: a key occurs in one contig only, there at
one coordinate only and always with the same arms; no window is its own reverse complement -/
def RepeatFreeM (k : Nat) (rc : Bool) (m : Nat) (L : Nat → Nat) (A : List (List (Array UInt8))) :
    Prop :=
  (∀ c c', c < m → c' < m → ∀ s ∈ contig A c, ∀ s' ∈ contig A c', ∀ j j',
      j + k ≤ L c → j' + k ≤ L c' → (obs k rc s j).1 = (obs k rc s' j').1 →
      c = c' ∧ j = j' ∧ armsAt k s j = armsAt k s' j') ∧
  (∀ c, c < m → ∀ s ∈ contig A c, ∀ j, j + k ≤ L c → isPalin k rc s j = false)

theorem RepeatFreeM.contig {k : Nat} {rc : Bool} {m : Nat} {L : Nat → Nat}
    {A : List (List (Array UInt8))} (h : RepeatFreeM k rc m L A) {c : Nat} (hc : c < m) :
    RepeatFree k rc (L c) (contig A c) :=
  ⟨fun s hs s' hs' j j' hj hj' e => (h.1 c c hc hc s hs s' hs' j j' hj hj' e).2, h.2 c hc⟩

def familyMB (m : Nat) (L : Nat → Nat) (A : List (List (Array UInt8))) : Bool :=
  (A.all fun recs => recs.length == m) && (List.range m).all fun c => familyB (L c) (contig A c)

theorem familyM_iff (m : Nat) (L : Nat → Nat) (A : List (List (Array UInt8))) :
    familyMB m L A = true ↔ FamilyM m L A := by
  unfold familyMB
  simp only [Bool.and_eq_true, List.all_eq_true, beq_iff_eq, List.mem_range, family_iff]
  exact ⟨fun h => ⟨h.1, h.2⟩, fun h => ⟨h.width, h.fam⟩⟩

def repeatFreeMB (k : Nat) (rc : Bool) (m : Nat) (L : Nat → Nat) (A : List (List (Array UInt8))) :
    Bool :=
  ((List.range m).all fun c => (List.range m).all fun c' =>
    (contig A c).all fun s => (contig A c').all fun s' =>
    (List.range (L c + 1 - k)).all fun j => (List.range (L c' + 1 - k)).all fun j' =>
      !((obs k rc s j).1 == (obs k rc s' j').1) ||
        (c == c' && j == j' && armsAt k s j == armsAt k s' j')) &&
  ((List.range m).all fun c => (contig A c).all fun s =>
    (List.range (L c + 1 - k)).all fun j => !isPalin k rc s j)

theorem repeatFreeM_iff (k : Nat) (rc : Bool) (m : Nat) (L : Nat → Nat)
    (A : List (List (Array UInt8))) :
    repeatFreeMB k rc m L A = true ↔ RepeatFreeM k rc m L A := by
  unfold repeatFreeMB RepeatFreeM
  simp only [Bool.and_eq_true, List.all_eq_true, List.mem_range, lt_windows_iff,
    Bool.or_eq_true, Bool.not_eq_true', beq_eq_false_iff_ne, ne_eq, beq_iff_eq]
  constructor
  · rintro ⟨h1, h2⟩
    refine ⟨?_, h2⟩
    intro c c' hc hc' s hs s' hs' j j' hj hj' e
    rcases h1 c hc c' hc' s hs s' hs' j hj j' hj' with h | h
    · exact absurd e h
    · exact ⟨h.1.1, h.1.2, h.2⟩
  · rintro ⟨h1, h2⟩
    refine ⟨?_, h2⟩
    intro c hc c' hc' s hs s' hs' j hj j' hj'
    by_cases e : (obs k rc s j).1 = (obs k rc s' j').1
    · obtain ⟨a, b, d⟩ := h1 c c' hc hc' s hs s' hs' j j' hj hj' e
      exact Or.inr ⟨⟨a, b⟩, d⟩
    · exact Or.inl e

/-! ### the table of a list of samples -/

/-- keys of the joint-build table, in first-seen order -/
def keysM (k : Nat) (rc : Bool) (A : List (List (Array UInt8))) : List Nat :=
  ((A.map (observations k rc)).flatMap fun o => o.map (·.1)).eraseDups

/-- row of the joint-build table for `key` -/
def rowM (k : Nat) (rc : Bool) (A : List (List (Array UInt8))) (key : Nat) : List UInt8 :=
  A.map fun recs => cellOfObs (observations k rc recs) key

theorem specTable_rowsM (k : Nat) (rc : Bool) (names : List String)
    (A : List (List (Array UInt8))) :
    (specTable k rc names A).rows = (keysM k rc A).map fun key => (key, rowM k rc A key) := by
  unfold specTable keysM rowM
  simp only [List.map_map, Function.comp_def]

theorem alignColumns_eqM (k : Nat) (rc : Bool) (names : List String)
    (A : List (List (Array UInt8))) (t : Nat) :
    (specTable k rc names A).alignColumns t false .noConst false false
      = ((keysM k rc A).filter fun key =>
          Table.passes t false .noConst false (rowM k rc A key)).map (rowM k rc A) := by
  unfold Table.alignColumns
  rw [specTable_rowsM]
  simp only [List.map_map, Function.comp_def, List.filter_map, Table.maskRow]
  simp

theorem keysM_nodup (k : Nat) (rc : Bool) (A : List (List (Array UInt8))) : (keysM k rc A).Nodup :=
  nodup_eraseDups _

theorem mem_keysM (k : Nat) (rc : Bool) (A : List (List (Array UInt8))) (key : Nat) :
    key ∈ keysM k rc A ↔ ∃ recs ∈ A, ∃ r ∈ recs, ∃ o ∈ observations k rc [r], o.1 = key := by
  unfold keysM
  rw [List.mem_eraseDups]
  simp only [List.mem_flatMap, List.mem_map]
  constructor
  · rintro ⟨_, ⟨recs, hrecs, rfl⟩, ⟨o, ho, rfl⟩⟩
    obtain ⟨r, hr, hor⟩ := (mem_observations k rc recs o).mp ho
    exact ⟨recs, hrecs, r, hr, o, hor, rfl⟩
  · rintro ⟨recs, hrecs, r, hr, o, ho, rfl⟩
    exact ⟨_, ⟨recs, hrecs, rfl⟩, o, (mem_observations k rc recs o).mpr ⟨r, hr, ho⟩, rfl⟩

theorem mem_keysOf' (k : Nat) (rc : Bool) (S : List (Array UInt8)) (key : Nat) :
    key ∈ keysOf k rc S ↔ ∃ s ∈ S, ∃ o ∈ observations k rc [s], o.1 = key := by
  unfold keysOf
  rw [List.mem_eraseDups]
  simp only [List.mem_flatMap, List.mem_map]
  constructor
  · rintro ⟨_, ⟨s, hs, rfl⟩, ⟨o, ho, rfl⟩⟩
    exact ⟨s, hs, o, ho, rfl⟩
  · rintro ⟨s, hs, o, ho, rfl⟩
    exact ⟨_, ⟨s, hs, rfl⟩, o, ho, rfl⟩

/-- the keys of the table are the keys of the per-contig tables -/
theorem mem_keysM_iff {m : Nat} {L : Nat → Nat} {A : List (List (Array UInt8))}
    (hF : FamilyM m L A) (k : Nat) (rc : Bool) (key : Nat) :
    key ∈ keysM k rc A ↔ ∃ c, c < m ∧ key ∈ keysOf k rc (contig A c) := by
  rw [mem_keysM]
  constructor
  · rintro ⟨recs, hrecs, r, hr, o, ho, e⟩
    obtain ⟨c, hc, rfl⟩ := mem_iff_getD.mp hr
    rw [hF.width recs hrecs] at hc
    refine ⟨c, hc, (mem_keysOf' k rc _ key).mpr ⟨_, ?_, o, ho, e⟩⟩
    exact List.mem_map.mpr ⟨recs, hrecs, rfl⟩
  · rintro ⟨c, hc, h⟩
    obtain ⟨s, hs, o, ho, e⟩ := (mem_keysOf' k rc _ key).mp h
    obtain ⟨recs, hrecs, rfl⟩ := List.mem_map.mp hs
    refine ⟨recs, hrecs, _, mem_iff_getD.mpr ⟨c, ?_, rfl⟩, o, ho, e⟩
    rw [hF.width recs hrecs]
    exact hc

/-- only record `c` contributes to the mask of a key that occurs in no other record -/
theorem maskOf_observations_select (k : Nat) (rc : Bool) (recs : List (Array UInt8)) (c : Nat)
    (hc : c < recs.length) (key : Nat)
    (hno : ∀ c', c' < recs.length → c' ≠ c →
      ∀ o ∈ observations k rc [recs.getD c' #[]], o.1 ≠ key) :
    maskOf (observations k rc recs) key = maskOf (observations k rc [recs.getD c #[]]) key := by
  apply Nat.eq_of_testBit_eq
  intro i
  rw [maskOf_testBit, maskOf_testBit, Bool.eq_iff_iff, List.any_eq_true, List.any_eq_true]
  constructor
  · rintro ⟨o, ho, hp⟩
    obtain ⟨r, hr, hor⟩ := (mem_observations k rc recs o).mp ho
    obtain ⟨c', hc', rfl⟩ := mem_iff_getD.mp hr
    by_cases e : c' = c
    · subst e
      exact ⟨o, hor, hp⟩
    · exfalso
      simp only [Bool.and_eq_true, beq_iff_eq] at hp
      exact hno c' hc' e o hor hp.1
  · rintro ⟨o, ho, hp⟩
    exact ⟨o, (mem_observations k rc recs o).mpr ⟨_, mem_iff_getD.mpr ⟨c, hc, rfl⟩, ho⟩, hp⟩

/-- the row of a key of contig `c` is its row in the table of contig `c` alone -/
theorem rowM_eq {m : Nat} {L : Nat → Nat} {A : List (List (Array UInt8))}
    (hF : FamilyM m L A) {k : Nat} {rc : Bool} (hR : RepeatFreeM k rc m L A) {c : Nat}
    (hc : c < m) {key : Nat} (hkey : key ∈ keysOf k rc (contig A c)) :
    rowM k rc A key = rowOf k rc (contig A c) key := by
  unfold rowM rowOf
  rw [contig, List.map_map]
  apply List.map_congr_left
  intro recs hrecs
  simp only [Function.comp]
  have hw := hF.width recs hrecs
  obtain ⟨s, hs, j, hj, ej⟩ := (mem_keysOf (hF.fam c hc) k rc key).mp hkey
  unfold cellOfObs
  rw [maskOf_observations_select k rc recs c (by omega) key]
  intro c' hc' hne o ho e
  rw [hw] at hc'
  have hs' : recs.getD c' #[] ∈ contig A c' := List.mem_map.mpr ⟨recs, hrecs, rfl⟩
  obtain ⟨j', hj', rfl⟩ := (mem_observations_single k rc _ o).mp ho
  have hj'' := (mem_windows_family (hF.fam c' hc') hs' j').mp hj'
  exact hne (hR.1 c c' hc hc' s hs _ hs' j j' hj hj'' (ej.trans e.symm)).1.symm

/-- the keys of the table are, up to order, those of the per-contig tables, contig by contig -/
theorem keysM_perm {m : Nat} {L : Nat → Nat} {A : List (List (Array UInt8))}
    (hF : FamilyM m L A) {k : Nat} {rc : Bool} (hR : RepeatFreeM k rc m L A) :
    (keysM k rc A).Perm ((List.range m).flatMap fun c => keysOf k rc (contig A c)) := by
  rw [List.perm_ext_iff_of_nodup (keysM_nodup k rc A)]
  · intro key
    rw [mem_keysM_iff hF, List.mem_flatMap]
    simp only [List.mem_range]
  · unfold List.Nodup
    rw [List.pairwise_flatMap]
    refine ⟨fun c _ => keysOf_nodup k rc _, ?_⟩
    apply List.Pairwise.imp_of_mem _ (List.nodup_range (n := m))
    intro c c' hc hc' hne x hx y hy e
    rw [List.mem_range] at hc hc'
    obtain ⟨s, hs, j, hj, ej⟩ := (mem_keysOf (hF.fam c hc) k rc x).mp hx
    obtain ⟨s', hs', j', hj', ej'⟩ := (mem_keysOf (hF.fam c' hc') k rc y).mp hy
    exact hne (hR.1 c c' hc hc' s hs s' hs' j j' hj hj' (by rw [ej, ej', e])).1

/-- **C03 for samples given contig by contig, in the same order and orientation.** -/
theorem align_contigs {m : Nat} {L : Nat → Nat} {A : List (List (Array UInt8))}
    (hF : FamilyM m L A) {k : Nat} {rc : Bool} (hk : k % 2 = 1) (hR : RepeatFreeM k rc m L A)
    (hI : ∀ c, c < m → Isolated k (L c) (contig A c)) (names : List String) :
    ((specTable k rc names A).alignColumns A.length false .noConst false false).Perm
      ((List.range m).flatMap fun c => (varSites (L c) (contig A c)).map fun p =>
        (contig A c).map fun s => decodeBase (obs k rc s (p - (k - 1) / 2)).2.1) := by
  rw [alignColumns_eqM]
  refine (((keysM_perm hF hR).filter _).map _).trans ?_
  rw [List.filter_flatMap, List.map_flatMap]
  apply perm_flatMap_congr
  intro c hc
  rw [List.mem_range] at hc
  have e : ((keysOf k rc (contig A c)).filter fun key =>
        Table.passes A.length false .noConst false (rowM k rc A key)).map (rowM k rc A)
      = ((keysOf k rc (contig A c)).filter fun key =>
          Table.passes (contig A c).length false .noConst false
            (rowOf k rc (contig A c) key)).map (rowOf k rc (contig A c)) := by
    have e1 : ((keysOf k rc (contig A c)).filter fun key =>
          Table.passes A.length false .noConst false (rowM k rc A key))
        = ((keysOf k rc (contig A c)).filter fun key =>
          Table.passes (contig A c).length false .noConst false
            (rowOf k rc (contig A c) key)) := by
      apply List.filter_congr
      intro key hkey
      rw [rowM_eq hF hR hc hkey, contig_length]
    rw [e1]
    apply List.map_congr_left
    intro key hkey
    exact rowM_eq hF hR hc (List.mem_filter.mp hkey).1
  rw [e]
  exact passing_rows_perm (hF.fam c hc) hk (hR.contig hc) (hI c hc)

/-! ### tables of samples with the same observation sets -/

/-- the two record lists contribute the same set of observations -/
def SameObsList (k : Nat) (rc : Bool) (a t : List (Array UInt8)) : Prop :=
  ∀ o, o ∈ observations k rc t ↔ o ∈ observations k rc a

theorem Pointwise.length_eq {α β : Type} {R : α → β → Prop} {l : List α} {l' : List β}
    (h : Pointwise R l l') : l'.length = l.length := by
  induction h with
  | nil => rfl
  | cons _ _ ih => simp [ih]

theorem rowM_congr {k : Nat} {rc : Bool} {A T : List (List (Array UInt8))}
    (h : Pointwise (SameObsList k rc) A T) (key : Nat) : rowM k rc T key = rowM k rc A key := by
  unfold rowM
  induction h with
  | nil => rfl
  | @cons a t l l' hab _ ih =>
    rw [List.map_cons, List.map_cons, ih]
    congr 1
    unfold cellOfObs
    rw [maskOf_congr_mem hab key]

theorem keyList_mem_congr {k : Nat} {rc : Bool} {A T : List (List (Array UInt8))}
    (h : Pointwise (SameObsList k rc) A T) (key : Nat) :
    key ∈ ((T.map (observations k rc)).flatMap fun o => o.map (·.1)) ↔
      key ∈ ((A.map (observations k rc)).flatMap fun o => o.map (·.1)) := by
  induction h with
  | nil => exact Iff.rfl
  | @cons a t l l' hab _ ih =>
    simp only [List.map_cons, List.flatMap_cons, List.mem_append]
    rw [ih]
    apply or_congr_left
    simp only [List.mem_map]
    constructor
    · rintro ⟨o, ho, e⟩; exact ⟨o, (hab o).mp ho, e⟩
    · rintro ⟨o, ho, e⟩; exact ⟨o, (hab o).mpr ho, e⟩

/-- samples with the same observation sets give the same table up to row order, hence the
same columns up to order -/
theorem alignColumns_perm_of_sameObs {k : Nat} {rc : Bool} {A T : List (List (Array UInt8))}
    (h : Pointwise (SameObsList k rc) A T) (namesT namesA : List String) (t : Nat) :
    ((specTable k rc namesT T).alignColumns t false .noConst false false).Perm
      ((specTable k rc namesA A).alignColumns t false .noConst false false) := by
  rw [alignColumns_eqM, alignColumns_eqM]
  have hrow : rowM k rc T = rowM k rc A := funext (rowM_congr h)
  rw [hrow]
  apply List.Perm.map
  apply List.Perm.filter
  rw [List.perm_ext_iff_of_nodup (keysM_nodup k rc T) (keysM_nodup k rc A)]
  intro key
  unfold keysM
  rw [List.mem_eraseDups, List.mem_eraseDups]
  exact keyList_mem_congr h key

end SkaModel.SNP
