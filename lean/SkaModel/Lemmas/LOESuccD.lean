/-
C18 completeness — successors of the nodes of the graph of a deletion family: on the samples' strand the
successors of a node are its `RE`-successors, on the other strand its `RE`-predecessors; the relation is
deterministic except at the node before a block (forwards) and at the node after a block (backwards).
-/
import SkaModel.Lemmas.LOEGraphD
import SkaModel.Lemmas.LOEBub

namespace SkaModel.LOE

open SkaModel SkaModel.Spec SkaModel.Props.C16 SkaModel.Skalo SkaModel.Props.C17G SkaModel.LOG SkaModel.LOC

/-- the setting: a deletion family and an array with the rows of its table -/
structure Ctx (W k : Nat) (F : List UInt8) (B : List (Nat × Nat)) (C : List (List Bool)) (a : Arr)
    (names : List String) : Prop where
  h : DFam k F B C
  ha : IsArrOf a k names (dsamples F B C)
  hk : ValidK k
  hw : WidthOk W k

/-- node numbers of nodes -/
def nF (k : Nat) (F : List UInt8) (B : List (Nat × Nat)) (n : Nd) : Nat := nuF F (n.cols k B)
def nR (k : Nat) (F : List UInt8) (B : List (Nat × Nat)) (n : Nd) : Nat := nuR F (n.cols k B)

/-! ### inversion of `RE` -/

theorem re_succ_c {k N : Nat} {B : List (Nat × Nat)} {m : Nat → Nat} {x : Nat} {n' : Nd} (h : RE k N B m (.c x) n') :
    (n' = .c (x + 1) ∧ x + k ≤ N) ∨ (∃ t, t < B.length ∧ x = bS B t + m t - (k - 1) ∧ n' = .g t (x + 1)) := by
  cases h with
  | cc _ hx => exact Or.inl ⟨rfl, hx⟩
  | cg t ht => exact Or.inr ⟨t, ht, rfl, rfl⟩

theorem re_succ_g {k N : Nat} {B : List (Nat × Nat)} {m : Nat → Nat} {t x : Nat} {n' : Nd} (h : RE k N B m (.g t x) n') :
    (n' = .g t (x + 1) ∧ bS B t + 1 + m t < x + k ∧ x + 1 < bS B t) ∨ (x = bS B t - 1 ∧ n' = .c (bE B t)) := by
  cases h with
  | gg _ _ _ h1 h2 => exact Or.inl ⟨rfl, h1, h2⟩
  | gc _ _ => exact Or.inr ⟨rfl, rfl⟩

theorem re_pred_c {k N : Nat} {B : List (Nat × Nat)} {m : Nat → Nat} {y : Nat} {n : Nd} (h : RE k N B m n (.c y)) :
    (∃ x, n = .c x ∧ y = x + 1 ∧ x + k ≤ N) ∨ (∃ t, t < B.length ∧ n = .g t (bS B t - 1) ∧ y = bE B t) := by
  cases h with
  | cc x hx => exact Or.inl ⟨x, rfl, rfl, hx⟩
  | gc t ht => exact Or.inr ⟨t, ht, rfl, rfl⟩

theorem re_pred_g {k N : Nat} {B : List (Nat × Nat)} {m : Nat → Nat} {t y : Nat} {n : Nd} (h : RE k N B m n (.g t y)) :
    t < B.length ∧ ((n = .c (bS B t + m t - (k - 1)) ∧ y = bS B t + m t - (k - 1) + 1) ∨
    (∃ x, n = .g t x ∧ y = x + 1 ∧ bS B t + 1 + m t < x + k ∧ x + 1 < bS B t)) := by
  cases h with
  | cg _ ht => exact ⟨ht, Or.inl ⟨rfl, rfl⟩⟩
  | gg _ x ht h1 h2 => exact ⟨ht, Or.inr ⟨x, rfl, rfl, h1, h2⟩⟩

/-- forwards the relation is deterministic except at the node before a block -/
theorem re_det_fw {k N : Nat} {B : List (Nat × Nat)} {m : Nat → Nat} {n n1 n2 : Nd} (h1 : RE k N B m n n1)
    (h2 : RE k N B m n n2) : n1 = n2 ∨ ∃ t, t < B.length ∧ n = .c (bS B t + m t - (k - 1)) := by
  cases n with
  | c x =>
    rcases re_succ_c h1 with ⟨rfl, _⟩ | ⟨t, ht, rfl, _⟩
    · rcases re_succ_c h2 with ⟨rfl, _⟩ | ⟨t, ht, rfl, _⟩
      · exact Or.inl rfl
      · exact Or.inr ⟨t, ht, rfl⟩
    · exact Or.inr ⟨t, ht, rfl⟩
  | g t x =>
    left
    rcases re_succ_g h1 with ⟨rfl, _, h3⟩ | ⟨rfl, rfl⟩
    · rcases re_succ_g h2 with ⟨rfl, _, _⟩ | ⟨rfl, rfl⟩
      · rfl
      · omega
    · rcases re_succ_g h2 with ⟨rfl, _, h3⟩ | ⟨_, rfl⟩
      · omega
      · rfl

/-- backwards the relation is deterministic except at the node after a block -/
theorem re_det_bw {k N : Nat} {B : List (Nat × Nat)} {m : Nat → Nat} (hB : ∀ t, t < B.length → k ≤ bS B t)
    {n n1 n2 : Nd} (h1 : RE k N B m n1 n) (h2 : RE k N B m n2 n) :
    n1 = n2 ∨ ∃ t, t < B.length ∧ n = .c (bE B t) := by
  cases n with
  | c y =>
    rcases re_pred_c h1 with ⟨x, rfl, rfl, _⟩ | ⟨t, ht, rfl, rfl⟩
    · rcases re_pred_c h2 with ⟨x', rfl, e, _⟩ | ⟨t, ht, rfl, e⟩
      · left; rw [show x = x' by omega]
      · exact Or.inr ⟨t, ht, by rw [e]⟩
    · exact Or.inr ⟨t, ht, rfl⟩
  | g t y =>
    left
    obtain ⟨ht, hc1⟩ := re_pred_g h1
    obtain ⟨_, hc2⟩ := re_pred_g h2
    have hb := hB t ht
    rcases hc1 with ⟨rfl, e1⟩ | ⟨x, rfl, e1, h3, _⟩
    · rcases hc2 with ⟨rfl, _⟩ | ⟨x', rfl, e2, h4, _⟩
      · rfl
      · omega
    · rcases hc2 with ⟨rfl, e2⟩ | ⟨x', rfl, e2, _, _⟩
      · omega
      · rw [show x = x' by omega]

theorem length_le_one_of_all_eq {l : List Nat} (hnd : l.Nodup) (h : ∀ a ∈ l, ∀ b ∈ l, a = b) : l.length ≤ 1 := by
  match l, hnd, h with
  | [], _, _ => simp
  | [_], _, _ => simp
  | x :: y :: rest, hnd, h =>
    exfalso
    rw [List.nodup_cons] at hnd
    apply hnd.1
    rw [h x (List.mem_cons_self ..) y (List.mem_cons_of_mem _ (List.mem_cons_self ..))]
    exact List.mem_cons_self ..

theorem eq_pair {l : List Nat} {y1 y2 : Nat} (hnd : l.Nodup) (hne : y1 ≠ y2)
    (h : ∀ y, y ∈ l ↔ y = y1 ∨ y = y2) : l = [y1, y2] ∨ l = [y2, y1] := by
  match l, hnd, h with
  | [], _, h => exact absurd ((h y1).mpr (Or.inl rfl)) (by simp)
  | [x], _, h =>
    have h1 := (h y1).mpr (Or.inl rfl)
    have h2 := (h y2).mpr (Or.inr rfl)
    simp only [List.mem_singleton] at h1 h2
    exact absurd (h1.trans h2.symm) hne
  | [x, y], hnd, h =>
    have hx := (h x).mp (by simp)
    have hy := (h y).mp (by simp)
    have hxy : x ≠ y := by
      intro e; rw [e] at hnd; simp at hnd
    rcases hx with rfl | rfl <;> rcases hy with rfl | rfl
    · exact absurd rfl hxy
    · exact Or.inl rfl
    · exact Or.inr rfl
    · exact absurd rfl hxy
  | x :: y :: z :: rest, hnd, h =>
    exfalso
    have hx := (h x).mp (by simp)
    have hy := (h y).mp (by simp)
    have hz := (h z).mp (by simp)
    rw [List.nodup_cons, List.nodup_cons] at hnd
    have hxy : x ≠ y := fun e => hnd.1 (by rw [e]; simp)
    have hxz : x ≠ z := fun e => hnd.1 (by rw [e]; simp)
    have hyz : y ≠ z := fun e => hnd.2.1 (by rw [e]; simp)
    rcases hx with rfl | rfl <;> rcases hy with rfl | rfl <;> rcases hz with rfl | rfl <;>
      first | exact hxy rfl | exact hxz rfl | exact hyz rfl

namespace Ctx

variable {W k : Nat} {F : List UInt8} {B : List (Nat × Nat)} {C : List (List Bool)} {a : Arr} {names : List String}

theorem nd (_cx : Ctx W k F B C a names) (x : Nat) : (succs (buildGraph W a).1 x).Nodup := succs_nodup W a x

theorem lk (_cx : Ctx W k F B C a names) (x : Nat) : Assoc.lookup (buildGraph W a).1 x =
    if succs (buildGraph W a).1 x = [] then none else some (succs (buildGraph W a).1 x) := lookup_buildGraph W a x

/-- successors on the samples' strand -/
theorem succF (cx : Ctx W k F B C a names) {n : Nd} (hv : n.valid k F.length B (shf k F B)) (Y : Nat) :
    Y ∈ succs (buildGraph W a).1 (nF k F B n) ↔ ∃ n', RE k F.length B (shf k F B) n n' ∧ Y = nF k F B n' := by
  have he := cx.h.edge_iff cx.ha cx.hk cx.hw (nF k F B n) Y
  unfold Edge at he
  rw [he]
  constructor
  · rintro ⟨m, m', hr, ⟨e1, e2⟩ | ⟨e1, _⟩⟩
    · obtain ⟨hvm, _⟩ := cx.h.re_valid hr
      have := cx.h.nuF_inj hv hvm e1
      subst this
      exact ⟨m', hr, e2⟩
    · obtain ⟨_, hvm'⟩ := cx.h.re_valid hr
      exact absurd e1 (cx.h.nuF_ne_nuR hv hvm')
  · rintro ⟨n', hr, rfl⟩
    exact ⟨n, n', hr, Or.inl ⟨rfl, rfl⟩⟩

/-- successors on the other strand -/
theorem succR (cx : Ctx W k F B C a names) {n : Nd} (hv : n.valid k F.length B (shf k F B)) (Y : Nat) :
    Y ∈ succs (buildGraph W a).1 (nR k F B n) ↔ ∃ n', RE k F.length B (shf k F B) n' n ∧ Y = nR k F B n' := by
  have he := cx.h.edge_iff cx.ha cx.hk cx.hw (nR k F B n) Y
  unfold Edge at he
  rw [he]
  constructor
  · rintro ⟨m, m', hr, ⟨e1, _⟩ | ⟨e1, e2⟩⟩
    · obtain ⟨hvm, _⟩ := cx.h.re_valid hr
      exact absurd e1.symm (cx.h.nuF_ne_nuR hvm hv)
    · obtain ⟨_, hvm'⟩ := cx.h.re_valid hr
      have := cx.h.nuR_inj hv hvm' e1
      subst this
      exact ⟨m, hr, e2⟩
  · rintro ⟨n', hr, rfl⟩
    exact ⟨n', n, hr, Or.inr ⟨rfl, rfl⟩⟩

/-- every node with a successor is a valid node of one of the strands -/
theorem source (cx : Ctx W k F B C a names) {X Y : Nat} (hY : Y ∈ succs (buildGraph W a).1 X) :
    ∃ n, n.valid k F.length B (shf k F B) ∧ (X = nF k F B n ∨ X = nR k F B n) := by
  have he := (cx.h.edge_iff cx.ha cx.hk cx.hw X Y).mp hY
  obtain ⟨m, m', hr, ⟨e1, _⟩ | ⟨e1, _⟩⟩ := he
  · exact ⟨m, (cx.h.re_valid hr).1, Or.inl e1⟩
  · exact ⟨m', (cx.h.re_valid hr).2, Or.inr e1⟩

/-- a unique `RE`-successor is the unique successor -/
theorem lookupF (cx : Ctx W k F B C a names) {n n' : Nd} (hr : RE k F.length B (shf k F B) n n')
    (hu : ∀ n'', RE k F.length B (shf k F B) n n'' → n'' = n') :
    Assoc.lookup (buildGraph W a).1 (nF k F B n) = some [nF k F B n'] := by
  have hv := (cx.h.re_valid hr).1
  have hs : succs (buildGraph W a).1 (nF k F B n) = [nF k F B n'] := by
    apply Strand.eq_singleton (cx.nd _) ((cx.succF hv _).mpr ⟨n', hr, rfl⟩)
    intro y hy
    obtain ⟨n'', hr'', rfl⟩ := (cx.succF hv y).mp hy
    rw [hu n'' hr'']
  rw [cx.lk, hs]
  simp

/-- a unique `RE`-predecessor is the unique successor on the other strand -/
theorem lookupR (cx : Ctx W k F B C a names) {n n' : Nd} (hr : RE k F.length B (shf k F B) n' n)
    (hu : ∀ n'', RE k F.length B (shf k F B) n'' n → n'' = n') :
    Assoc.lookup (buildGraph W a).1 (nR k F B n) = some [nR k F B n'] := by
  have hv := (cx.h.re_valid hr).2
  have hs : succs (buildGraph W a).1 (nR k F B n) = [nR k F B n'] := by
    apply Strand.eq_singleton (cx.nd _) ((cx.succR hv _).mpr ⟨n', hr, rfl⟩)
    intro y hy
    obtain ⟨n'', hr'', rfl⟩ := (cx.succR hv y).mp hy
    rw [hu n'' hr'']
  rw [cx.lk, hs]
  simp

/-- a node with two successors is the node before a block (samples' strand) or after a block (other strand) -/
theorem two_succs (cx : Ctx W k F B C a names) {X : Nat} (h2 : 2 ≤ (succs (buildGraph W a).1 X).length) :
    ∃ t, t < B.length ∧ (X = nF k F B (.c (bS B t + shf k F B t - (k - 1))) ∨ X = nR k F B (.c (bE B t))) := by
  have hne : succs (buildGraph W a).1 X ≠ [] := by
    intro e; rw [e] at h2; simp at h2
  obtain ⟨Y, hY⟩ := List.exists_mem_of_ne_nil _ hne
  obtain ⟨n, hv, rfl | rfl⟩ := cx.source hY
  · apply Classical.byContradiction
    intro hno
    have : (succs (buildGraph W a).1 (nF k F B n)).length ≤ 1 := by
      apply length_le_one_of_all_eq (cx.nd _)
      intro y1 hy1 y2 hy2
      obtain ⟨n1, hr1, rfl⟩ := (cx.succF hv y1).mp hy1
      obtain ⟨n2, hr2, rfl⟩ := (cx.succF hv y2).mp hy2
      rcases re_det_fw hr1 hr2 with e | ⟨t, ht, e⟩
      · rw [e]
      · exact absurd ⟨t, ht, Or.inl (by rw [e])⟩ hno
    omega
  · apply Classical.byContradiction
    intro hno
    have : (succs (buildGraph W a).1 (nR k F B n)).length ≤ 1 := by
      apply length_le_one_of_all_eq (cx.nd _)
      intro y1 hy1 y2 hy2
      obtain ⟨n1, hr1, rfl⟩ := (cx.succR hv y1).mp hy1
      obtain ⟨n2, hr2, rfl⟩ := (cx.succR hv y2).mp hy2
      rcases re_det_bw (fun t ht => by have := cx.h.bt ht; omega) hr1 hr2 with e | ⟨t, ht, e⟩
      · rw [e]
      · exact absurd ⟨t, ht, Or.inr (by rw [e])⟩ hno
    omega

end Ctx

end SkaModel.LOE
