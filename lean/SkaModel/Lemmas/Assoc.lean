/-
Generic facts about the association lists of `Impl/Assoc.lean`: lookup after
`upsert`, key set after `upsert`, `upsertM` as an `upsert` when the modification
cannot fail, and the insertion sort `sortByKey`.
-/
import SkaModel.Impl.Assoc

set_option linter.unusedSectionVars false

namespace SkaModel.Assoc

variable {κ ν : Type} [BEq κ] [LawfulBEq κ]

theorem lookup_cons (k : κ) (v : ν) (rest : Assoc κ ν) (key : κ) :
    lookup ((k, v) :: rest) key = if k == key then some v else lookup rest key := rfl

theorem upsert_cons (k : κ) (v : ν) (rest : Assoc κ ν) (key : κ) (ins : ν) (f : ν → ν) :
    upsert ((k, v) :: rest) key ins f
      = if k == key then (k, f v) :: rest else (k, v) :: upsert rest key ins f := rfl

theorem upsertM_cons (k : κ) (v : ν) (rest : Assoc κ ν) (key : κ) (ins : ν) (f : ν → Option ν) :
    upsertM ((k, v) :: rest) key ins f
      = if k == key then (f v).map (fun v' => (k, v') :: rest)
        else (upsertM rest key ins f).map (fun r => (k, v) :: r) := rfl

/-- the value found at `key` after an `upsert` at `key` -/
theorem lookup_upsert_self (d : Assoc κ ν) (key : κ) (ins : ν) (f : ν → ν) :
    lookup (upsert d key ins f) key
      = some (match lookup d key with | none => ins | some v => f v) := by
  induction d with
  | nil => simp [upsert, lookup]
  | cons p rest ih =>
    obtain ⟨k, v⟩ := p
    rw [upsert_cons, lookup_cons]
    by_cases h : (k == key) = true
    · rw [if_pos h, if_pos h, lookup_cons, if_pos h]
    · rw [if_neg h, if_neg h, lookup_cons, if_neg h, ih]

/-- other keys are not affected by an `upsert` -/
theorem lookup_upsert_ne (d : Assoc κ ν) {key key' : κ} (ins : ν) (f : ν → ν) (hne : key ≠ key') :
    lookup (upsert d key ins f) key' = lookup d key' := by
  induction d with
  | nil =>
    have : (key == key') = false := by simpa using hne
    simp [upsert, lookup, this]
  | cons p rest ih =>
    obtain ⟨k, v⟩ := p
    rw [upsert_cons, lookup_cons]
    by_cases h : (k == key) = true
    · have hk : k = key := by simpa using h
      have h' : (k == key') = false := by rw [hk]; simpa using hne
      rw [if_pos h, lookup_cons, h']
      rfl
    · rw [if_neg h, lookup_cons, ih]

theorem mem_keys_upsert (d : Assoc κ ν) (key : κ) (ins : ν) (f : ν → ν) (k' : κ) :
    k' ∈ keys (upsert d key ins f) ↔ k' = key ∨ k' ∈ keys d := by
  induction d with
  | nil => simp [upsert, keys]
  | cons p rest ih =>
    obtain ⟨k, v⟩ := p
    rw [upsert_cons]
    by_cases h : (k == key) = true
    · have hk : k = key := by simpa using h
      rw [if_pos h]
      simp only [keys, List.map_cons, List.mem_cons]
      rw [hk]
      constructor
      · intro h'; exact Or.inr h'
      · rintro (h' | h')
        · exact Or.inl h'
        · exact h'
    · rw [if_neg h]
      simp only [keys, List.map_cons, List.mem_cons] at ih ⊢
      rw [ih]
      constructor
      · rintro (h' | h' | h')
        · exact Or.inr (Or.inl h')
        · exact Or.inl h'
        · exact Or.inr (Or.inr h')
      · rintro (h' | h' | h')
        · exact Or.inr (Or.inl h')
        · exact Or.inl h'
        · exact Or.inr (Or.inr h')

/-- `upsert` keeps the keys distinct -/
theorem nodup_keys_upsert (d : Assoc κ ν) (key : κ) (ins : ν) (f : ν → ν)
    (hnd : (keys d).Nodup) : (keys (upsert d key ins f)).Nodup := by
  induction d with
  | nil => simp [upsert, keys]
  | cons p rest ih =>
    obtain ⟨k, v⟩ := p
    rw [upsert_cons]
    by_cases h : (k == key) = true
    · rw [if_pos h]; exact hnd
    · rw [if_neg h]
      have hk : k ≠ key := by simpa using h
      simp only [keys, List.map_cons, List.nodup_cons] at hnd ⊢
      refine ⟨?_, ih hnd.2⟩
      intro hm
      rcases (mem_keys_upsert rest key ins f k).1 hm with h' | h'
      · exact hk h'
      · exact hnd.1 h'

/-- when the fallible modification succeeds on the value stored at `key` (if any),
`upsertM` is an `upsert` -/
theorem upsertM_eq_upsert (d : Assoc κ ν) (key : κ) (ins : ν) (f : ν → Option ν) (g : ν → ν)
    (h : ∀ v, lookup d key = some v → f v = some (g v)) :
    upsertM d key ins f = some (upsert d key ins g) := by
  induction d with
  | nil => rfl
  | cons p rest ih =>
    obtain ⟨k, v⟩ := p
    rw [upsertM_cons, upsert_cons]
    by_cases hk : (k == key) = true
    · rw [if_pos hk, if_pos hk, h v (by rw [lookup_cons, if_pos hk])]
      rfl
    · rw [if_neg hk, if_neg hk, ih (fun v hv => h v (by rw [lookup_cons, if_neg hk]; exact hv))]
      rfl

theorem lookup_eq_none_iff (d : Assoc κ ν) (key : κ) :
    lookup d key = none ↔ key ∉ keys d := by
  induction d with
  | nil => simp [lookup, keys]
  | cons p rest ih =>
    obtain ⟨k, v⟩ := p
    rw [lookup_cons]
    simp only [keys, List.map_cons, List.mem_cons, not_or] at ih ⊢
    by_cases hk : (k == key) = true
    · have : k = key := by simpa using hk
      rw [if_pos hk]
      simp [this]
    · have hne : k ≠ key := by simpa using hk
      rw [if_neg hk, ih]
      constructor
      · intro h; exact ⟨fun e => hne e.symm, h⟩
      · intro h; exact h.2

theorem mem_keys_of_mem {d : Assoc κ ν} {key : κ} {v : ν} (h : (key, v) ∈ d) : key ∈ keys d :=
  List.mem_map.2 ⟨(key, v), h, rfl⟩

/-- with distinct keys, membership is lookup -/
theorem mem_iff_lookup (d : Assoc κ ν) (hnd : (keys d).Nodup) (key : κ) (v : ν) :
    (key, v) ∈ d ↔ lookup d key = some v := by
  induction d with
  | nil => simp [lookup]
  | cons p rest ih =>
    obtain ⟨k, w⟩ := p
    simp only [keys, List.map_cons, List.nodup_cons] at hnd
    rw [lookup_cons, List.mem_cons]
    by_cases hk : (k == key) = true
    · have hkk : k = key := by simpa using hk
      rw [if_pos hk]
      constructor
      · rintro (h | h)
        · rw [Prod.mk.injEq] at h; rw [h.2]
        · exact absurd (mem_keys_of_mem h) (by rw [← hkk]; exact hnd.1)
      · intro h
        have : w = v := by simpa using h
        exact Or.inl (by rw [hkk, this])
    · have hne : k ≠ key := by simpa using hk
      rw [if_neg hk, ← ih hnd.2]
      constructor
      · rintro (h | h)
        · rw [Prod.mk.injEq] at h; exact absurd h.1.symm hne
        · exact h
      · intro h; exact Or.inr h

/-- a dictionary in which no key is found is empty -/
theorem eq_nil_of_lookup_none (d : Assoc κ ν) (h : ∀ key, lookup d key = none) : d = [] := by
  cases d with
  | nil => rfl
  | cons p rest =>
    obtain ⟨k, v⟩ := p
    have := h k
    rw [lookup_cons] at this
    simp at this

end SkaModel.Assoc

namespace SkaModel

/-! ### `sortByKey` -/

variable {α : Type}

theorem nodup_of_map {β : Type} (f : α → β) {l : List α} (h : (l.map f).Nodup) : l.Nodup :=
  List.Pairwise.of_map f (fun _ _ hne e => hne (congrArg f e)) h

theorem mem_insertByKey (f : α → Nat) (x : α) (l : List α) (a : α) :
    a ∈ insertByKey f x l ↔ a = x ∨ a ∈ l := by
  induction l with
  | nil => simp [insertByKey]
  | cons y ys ih =>
    unfold insertByKey
    by_cases h : f x ≤ f y
    · rw [if_pos h]; simp
    · rw [if_neg h, List.mem_cons, ih, List.mem_cons]
      constructor
      · rintro (h' | h' | h')
        · exact Or.inr (Or.inl h')
        · exact Or.inl h'
        · exact Or.inr (Or.inr h')
      · rintro (h' | h' | h')
        · exact Or.inr (Or.inl h')
        · exact Or.inl h'
        · exact Or.inr (Or.inr h')

theorem sortByKey_cons (f : α → Nat) (x : α) (l : List α) :
    sortByKey f (x :: l) = insertByKey f x (sortByKey f l) := rfl

/-- the insertion sort keeps the elements -/
theorem mem_sortByKey (f : α → Nat) (l : List α) (a : α) : a ∈ sortByKey f l ↔ a ∈ l := by
  induction l with
  | nil => simp [sortByKey]
  | cons x xs ih => rw [sortByKey_cons, mem_insertByKey, ih, List.mem_cons]

theorem sortByKey_eq_nil_iff (f : α → Nat) (l : List α) : sortByKey f l = [] ↔ l = [] := by
  constructor
  · intro h
    cases l with
    | nil => rfl
    | cons x xs =>
      have : x ∈ sortByKey f (x :: xs) := (mem_sortByKey f _ x).2 List.mem_cons_self
      rw [h] at this
      cases this
  · intro h; rw [h]; rfl

/-- two insertions with different keys commute (on any list) -/
theorem insertByKey_comm (f : α → Nat) (x y : α) (hxy : f x ≠ f y) (l : List α) :
    insertByKey f x (insertByKey f y l) = insertByKey f y (insertByKey f x l) := by
  induction l with
  | nil =>
    simp only [insertByKey]
    by_cases h1 : f x ≤ f y
    · have h2 : ¬ f y ≤ f x := by omega
      simp [h1, h2]
    · have h2 : f y ≤ f x := by omega
      simp [h1, h2]
  | cons z zs ih =>
    by_cases hx : f x ≤ f z <;> by_cases hy : f y ≤ f z <;> by_cases h1 : f x ≤ f y
    all_goals simp [insertByKey, hx, hy, h1, ih]
    all_goals
      first
      | omega
      | (intro h; omega)

/-- with distinct keys the sorted list does not depend on the input order -/
theorem sortByKey_perm (f : α → Nat) {l₁ l₂ : List α} (hp : l₁.Perm l₂)
    (hnd : (l₁.map f).Nodup) : sortByKey f l₁ = sortByKey f l₂ := by
  induction hp with
  | nil => rfl
  | cons x _ ih =>
    rw [sortByKey_cons, sortByKey_cons, ih (by simpa using (List.nodup_cons.1 hnd).2)]
  | swap x y l =>
    rw [sortByKey_cons, sortByKey_cons, sortByKey_cons, sortByKey_cons]
    apply insertByKey_comm
    simp only [List.map_cons, List.nodup_cons, List.mem_cons, not_or] at hnd
    exact hnd.1.1
  | trans h₁ _ ih₁ ih₂ =>
    rw [ih₁ hnd, ih₂ ((h₁.map f).nodup_iff.1 hnd)]

end SkaModel
