/-
One-chunk step function for the Snappy frame decoder `unframeFrom`, the
equation relating the two, fuel independence and accumulator lemmas.
-/
import SkaModel.Impl.Frame

namespace SkaModel.FR

open SkaModel

/-- the result of reading one chunk -/
inductive Step where
  | done
  | err (e : FrameErr)
  | next (rest : List UInt8) (out : List UInt8)
  deriving DecidableEq

/-- skippable / padding chunk -/
def stepSkip (len : Nat) (body : List UInt8) : Step :=
  if body.length < len then .err .eof else .next (body.drop len) []

/-- stream identifier chunk -/
def stepIdent (len : Nat) (body : List UInt8) : Step :=
  if len != 6 then .err .chunkLength
  else if body.length < len then .err .eof
  else if body.take 6 != STREAM_BODY then .err .headerMismatch
  else .next (body.drop 6) []

/-- data chunk (0x00 compressed, 0x01 uncompressed) -/
def stepData (decomp : List UInt8 → Option (List UInt8)) (ty len : Nat) (body : List UInt8) : Step :=
  if len < 4 then .err .chunkLength
  else if body.length < 4 then .err .eof
  else
    if ty == 0x01 then
      if len - 4 > MAX_BLOCK then .err .chunkLength
      else if (body.drop 4).length < len - 4 then .err .eof
      else if crc32cMasked ((body.drop 4).take (len - 4)) != leNat (body.take 4) then .err .checksum
      else .next ((body.drop 4).drop (len - 4)) ((body.drop 4).take (len - 4))
    else
      if (body.drop 4).length < len - 4 then .err .eof
      else match decomp ((body.drop 4).take (len - 4)) with
        | none => .err .decompress
        | some out =>
          if crc32cMasked out != leNat (body.take 4) then .err .checksum
          else .next ((body.drop 4).drop (len - 4)) out

def stepBody (decomp : List UInt8 → Option (List UInt8)) (seen : Bool) (ty len : Nat)
    (body : List UInt8) : Step :=
  if !seen && ty != 0xFF then .err .streamHeader
  else if len > MAX_COMPRESS_BLOCK then .err .chunkLength
  else if 0x02 ≤ ty && ty ≤ 0x7F then .err .chunkType
  else if (0x80 ≤ ty && ty ≤ 0xFD) || ty == 0xFE then stepSkip len body
  else if ty == 0xFF then stepIdent len body
  else stepData decomp ty len body

def step (decomp : List UInt8 → Option (List UInt8)) (seen : Bool) (input : List UInt8) : Step :=
  if input.isEmpty then .done
  else if input.length < 4 then .err .eof
  else stepBody decomp seen (input.getD 0 0).toNat (leNat ((input.drop 1).take 3)) (input.drop 4)

/-- continue after one step -/
def Step.cont (k : List UInt8 → List UInt8 → Except FrameErr (List UInt8)) (acc : List UInt8) :
    Step → Except FrameErr (List UInt8)
  | .done => .ok acc
  | .err e => .error e
  | .next rest out => k rest (acc ++ out)

@[simp] theorem Step.cont_done (k acc) : Step.cont k acc .done = .ok acc := rfl
@[simp] theorem Step.cont_err (k acc e) : Step.cont k acc (.err e) = .error e := rfl
@[simp] theorem Step.cont_next (k acc rest out) : Step.cont k acc (.next rest out) = k rest (acc ++ out) := rfl

theorem unframeFrom_succ (decomp : List UInt8 → Option (List UInt8)) (fuel : Nat) (seen : Bool)
    (input acc : List UInt8) :
    unframeFrom decomp (fuel + 1) seen input acc =
      (step decomp seen input).cont (unframeFrom decomp fuel true) acc := by
  rw [unframeFrom]
  unfold step
  by_cases h1 : input.isEmpty = true
  · simp [h1]
  rw [if_neg h1, if_neg h1]
  by_cases h2 : input.length < 4
  · simp [h2]
  rw [if_neg h2, if_neg h2]
  unfold stepBody
  generalize (input.getD 0 0).toNat = ty
  generalize leNat (List.take 3 (List.drop 1 input)) = len
  generalize List.drop 4 input = body
  generalize unframeFrom decomp fuel true = k
  dsimp only
  by_cases c1 : (!seen && ty != 255) = true
  · rw [if_pos c1, if_pos c1]; rfl
  rw [if_neg c1, if_neg c1]
  by_cases c2 : len > MAX_COMPRESS_BLOCK
  · rw [if_pos c2, if_pos c2]; rfl
  rw [if_neg c2, if_neg c2]
  by_cases c3 : (decide (2 ≤ ty) && decide (ty ≤ 127)) = true
  · rw [if_pos c3, if_pos c3]; rfl
  rw [if_neg c3, if_neg c3]
  by_cases c4 : (decide (128 ≤ ty) && decide (ty ≤ 253) || ty == 254) = true
  · rw [if_pos c4, if_pos c4]
    unfold stepSkip
    by_cases d1 : body.length < len
    · rw [if_pos d1, if_pos d1]; rfl
    · rw [if_neg d1, if_neg d1]; simp [Step.cont]
  rw [if_neg c4, if_neg c4]
  by_cases c5 : (ty == 255) = true
  · rw [if_pos c5, if_pos c5]
    unfold stepIdent
    by_cases d1 : (len != 6) = true
    · rw [if_pos d1, if_pos d1]; rfl
    rw [if_neg d1, if_neg d1]
    by_cases d2 : body.length < len
    · rw [if_pos d2, if_pos d2]; rfl
    rw [if_neg d2, if_neg d2]
    by_cases d3 : (List.take 6 body != STREAM_BODY) = true
    · rw [if_pos d3, if_pos d3]; rfl
    rw [if_neg d3, if_neg d3]; simp [Step.cont]
  rw [if_neg c5, if_neg c5]
  unfold stepData
  generalize crc32cMasked = cm
  by_cases d1 : len < 4
  · rw [if_pos d1, if_pos d1]; rfl
  rw [if_neg d1, if_neg d1]
  by_cases d2 : body.length < 4
  · rw [if_pos d2, if_pos d2]; rfl
  rw [if_neg d2, if_neg d2]
  by_cases d3 : (ty == 1) = true
  · rw [if_pos d3, if_pos d3]
    by_cases e1 : len - 4 > MAX_BLOCK
    · rw [if_pos e1, if_pos e1]; rfl
    rw [if_neg e1, if_neg e1]
    by_cases e2 : (List.drop 4 body).length < len - 4
    · rw [if_pos e2, if_pos e2]; rfl
    rw [if_neg e2, if_neg e2]
    by_cases e3 : (cm (List.take (len - 4) (List.drop 4 body)) != leNat (List.take 4 body)) = true
    · rw [if_pos e3, if_pos e3]; rfl
    rw [if_neg e3, if_neg e3]; rfl
  · rw [if_neg d3, if_neg d3]
    by_cases e2 : (List.drop 4 body).length < len - 4
    · rw [if_pos e2, if_pos e2]; rfl
    rw [if_neg e2, if_neg e2]
    cases decomp (List.take (len - 4) (List.drop 4 body)) with
    | none => rfl
    | some out =>
      show (if (cm out != leNat (List.take 4 body)) = true then Except.error FrameErr.checksum
            else k (List.drop (len - 4) (List.drop 4 body)) (acc ++ out)) =
          Step.cont k acc (if (cm out != leNat (List.take 4 body)) = true then Step.err FrameErr.checksum
            else Step.next (List.drop (len - 4) (List.drop 4 body)) out)
      by_cases e3 : (cm out != leNat (List.take 4 body)) = true
      · rw [if_pos e3, if_pos e3]; rfl
      rw [if_neg e3, if_neg e3]; rfl

/-! ### where a successful step leaves the input -/

theorem stepSkip_next {len : Nat} {body rest out : List UInt8}
    (h : stepSkip len body = .next rest out) : rest = body.drop len ∧ len ≤ body.length ∧ out = [] := by
  unfold stepSkip at h
  split at h
  · cases h
  · injection h with h1 h2
    exact ⟨h1.symm, by omega, h2.symm⟩

theorem stepIdent_next {len : Nat} {body rest out : List UInt8}
    (h : stepIdent len body = .next rest out) :
    rest = body.drop len ∧ len ≤ body.length ∧ out = [] ∧ len = 6 ∧ body.take 6 = STREAM_BODY := by
  unfold stepIdent at h
  split at h
  · cases h
  rename_i h6
  have h6 : len = 6 := by simpa using h6
  subst h6
  split at h
  · cases h
  split at h
  · cases h
  rename_i hb
  injection h with h1 h2
  exact ⟨h1.symm, by omega, h2.symm, rfl, by simpa using hb⟩

theorem stepData_next {decomp : List UInt8 → Option (List UInt8)} {ty len : Nat}
    {body rest out : List UInt8}
    (h : stepData decomp ty len body = .next rest out) : rest = body.drop len ∧ len ≤ body.length := by
  unfold stepData at h
  split at h
  · cases h
  split at h
  · cases h
  have key : ∀ r, (body.drop 4).drop (len - 4) = r → ¬ (body.drop 4).length < len - 4 →
      r = body.drop len ∧ len ≤ body.length := by
    intro r hr hl
    subst hr
    rw [List.length_drop] at hl
    refine ⟨?_, by omega⟩
    rw [List.drop_drop]
    congr 1
    omega
  split at h
  · split at h
    · cases h
    split at h
    · cases h
    split at h
    · cases h
    rename_i hl _
    injection h with h1 h2
    exact key _ h1 hl
  · split at h
    · cases h
    rename_i hl
    split at h
    · cases h
    · split at h
      · cases h
      injection h with h1 h2
      exact key _ h1 hl

theorem stepBody_next {decomp : List UInt8 → Option (List UInt8)} {seen : Bool} {ty len : Nat}
    {body rest out : List UInt8}
    (h : stepBody decomp seen ty len body = .next rest out) : rest = body.drop len ∧ len ≤ body.length := by
  unfold stepBody at h
  split at h
  · cases h
  split at h
  · cases h
  split at h
  · cases h
  split at h
  · have := stepSkip_next h; exact ⟨this.1, this.2.1⟩
  split at h
  · have := stepIdent_next h; exact ⟨this.1, this.2.1⟩
  · exact stepData_next h

theorem step_next {decomp : List UInt8 → Option (List UInt8)} {seen : Bool}
    {input rest out : List UInt8}
    (h : step decomp seen input = .next rest out) :
    4 ≤ input.length ∧
    rest = input.drop (4 + leNat ((input.drop 1).take 3)) ∧
      4 + leNat ((input.drop 1).take 3) ≤ input.length := by
  unfold step at h
  split at h
  · cases h
  split at h
  · cases h
  have := stepBody_next h
  rw [List.length_drop, List.drop_drop] at this
  refine ⟨by omega, this.1, by omega⟩

theorem step_next_length {decomp : List UInt8 → Option (List UInt8)} {seen : Bool}
    {input rest out : List UInt8}
    (h : step decomp seen input = .next rest out) : rest.length < input.length := by
  have := step_next h
  rw [this.2.1, List.length_drop]
  omega

/-! ### fuel independence -/

theorem unframeFrom_fuel (decomp : List UInt8 → Option (List UInt8)) :
    ∀ (f1 f2 : Nat) (seen : Bool) (input acc : List UInt8),
      input.length < f1 → input.length < f2 →
      unframeFrom decomp f1 seen input acc = unframeFrom decomp f2 seen input acc := by
  intro f1
  induction f1 with
  | zero => intro f2 seen input acc h; omega
  | succ f1 ih =>
    intro f2 seen input acc h1 h2
    cases f2 with
    | zero => omega
    | succ f2 =>
      rw [unframeFrom_succ, unframeFrom_succ]
      cases hs : step decomp seen input with
      | done => rfl
      | err e => rfl
      | next rest out =>
        have := step_next_length hs
        simp only [Step.cont_next]
        exact ih f2 true rest (acc ++ out) (by omega) (by omega)

/-- the decoder with exactly the fuel `unframe` gives it -/
def run (decomp : List UInt8 → Option (List UInt8)) (seen : Bool) (input acc : List UInt8) :
    Except FrameErr (List UInt8) :=
  unframeFrom decomp (input.length + 1) seen input acc

theorem unframe_eq_run (decomp : List UInt8 → Option (List UInt8)) (file : List UInt8) :
    unframe decomp file = run decomp false file [] := rfl

theorem unframeFrom_eq_run (decomp : List UInt8 → Option (List UInt8)) (fuel : Nat) (seen : Bool)
    (input acc : List UInt8) (h : input.length < fuel) :
    unframeFrom decomp fuel seen input acc = run decomp seen input acc :=
  unframeFrom_fuel decomp _ _ _ _ _ h (Nat.lt_succ_self _)

/-- the fuel-free unfolding equation -/
theorem run_eq (decomp : List UInt8 → Option (List UInt8)) (seen : Bool) (input acc : List UInt8) :
    run decomp seen input acc = (step decomp seen input).cont (run decomp true) acc := by
  unfold run
  rw [unframeFrom_succ]
  cases hs : step decomp seen input with
  | done => rfl
  | err e => rfl
  | next rest out =>
    simp only [Step.cont_next]
    exact unframeFrom_fuel decomp _ _ _ _ _ (step_next_length hs) (Nat.lt_succ_self _)

theorem run_done {decomp : List UInt8 → Option (List UInt8)} {seen : Bool} {input : List UInt8}
    (acc : List UInt8) (h : step decomp seen input = .done) : run decomp seen input acc = .ok acc := by
  rw [run_eq, h]; rfl

theorem run_err {decomp : List UInt8 → Option (List UInt8)} {seen : Bool} {input : List UInt8}
    {e : FrameErr} (acc : List UInt8) (h : step decomp seen input = .err e) :
    run decomp seen input acc = .error e := by
  rw [run_eq, h]; rfl

theorem run_next {decomp : List UInt8 → Option (List UInt8)} {seen : Bool} {input rest out : List UInt8}
    (acc : List UInt8) (h : step decomp seen input = .next rest out) :
    run decomp seen input acc = run decomp true rest (acc ++ out) := by
  rw [run_eq, h]; rfl

/-! ### the accumulator is only ever appended to -/

theorem run_acc (decomp : List UInt8 → Option (List UInt8)) :
    ∀ (n : Nat) (seen : Bool) (input acc : List UInt8), input.length ≤ n →
      run decomp seen input acc = (run decomp seen input []).map (acc ++ ·) := by
  intro n
  induction n with
  | zero =>
    intro seen input acc h
    have : input = [] := List.eq_nil_of_length_eq_zero (by omega)
    subst this
    rw [run_done acc (by rfl), run_done [] (by rfl)]
    simp [Except.map]
  | succ n ih =>
    intro seen input acc h
    cases hs : step decomp seen input with
    | done => rw [run_done acc hs, run_done [] hs]; simp [Except.map]
    | err e => rw [run_err acc hs, run_err [] hs]; rfl
    | next rest out =>
      have hl := step_next_length hs
      rw [run_next acc hs, run_next [] hs, ih true rest (acc ++ out) (by omega),
        ih true rest ([] ++ out) (by omega)]
      cases run decomp true rest [] with
      | error e => rfl
      | ok v => simp [Except.map]

theorem run_acc' (decomp : List UInt8 → Option (List UInt8)) (seen : Bool) (input acc : List UInt8) :
    run decomp seen input acc = (run decomp seen input []).map (acc ++ ·) :=
  run_acc decomp input.length seen input acc (Nat.le_refl _)

theorem run_ok_acc {decomp : List UInt8 → Option (List UInt8)} {seen : Bool} {input acc b : List UInt8}
    (h : run decomp seen input [] = .ok b) : run decomp seen input acc = .ok (acc ++ b) := by
  rw [run_acc', h]; rfl

theorem run_error_acc {decomp : List UInt8 → Option (List UInt8)} {seen : Bool} {input : List UInt8}
    {e : FrameErr} (acc : List UInt8)
    (h : run decomp seen input [] = .error e) : run decomp seen input acc = .error e := by
  rw [run_acc', h]; rfl

end SkaModel.FR
