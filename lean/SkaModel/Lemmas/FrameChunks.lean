/-
Well-formed Snappy frame streams as lists of chunks, and what the decoder does on them.
-/
import SkaModel.Lemmas.FramePrefix

namespace SkaModel.FR

open SkaModel

/-! ### little-endian fields -/

def le3 (n : Nat) : List UInt8 := [UInt8.ofNat n, UInt8.ofNat (n / 256), UInt8.ofNat (n / 65536)]

def le4 (n : Nat) : List UInt8 :=
  [UInt8.ofNat n, UInt8.ofNat (n / 256), UInt8.ofNat (n / 65536), UInt8.ofNat (n / 16777216)]

theorem leNat3 (a b c : UInt8) : leNat [a, b, c] = a.toNat + 256 * (b.toNat + 256 * c.toNat) := by
  simp [leNat]

theorem leNat4 (a b c d : UInt8) :
    leNat [a, b, c, d] = a.toNat + 256 * (b.toNat + 256 * (c.toNat + 256 * d.toNat)) := by
  simp [leNat]

theorem leNat_le3 {n : Nat} (h : n < 2 ^ 24) : leNat (le3 n) = n := by
  unfold le3
  rw [leNat3]
  simp only [UInt8.toNat_ofNat']
  omega

theorem leNat_le4 {n : Nat} (h : n < 2 ^ 32) : leNat (le4 n) = n := by
  unfold le4
  rw [leNat4]
  simp only [UInt8.toNat_ofNat']
  omega

theorem le3_length (n : Nat) : (le3 n).length = 3 := rfl
theorem le4_length (n : Nat) : (le4 n).length = 4 := rfl

theorem leNat_cons (a : UInt8) (l : List UInt8) : leNat (a :: l) = a.toNat + 256 * leNat l := rfl

theorem leNat_inj : ∀ (l1 l2 : List UInt8), l1.length = l2.length → leNat l1 = leNat l2 → l1 = l2
  | [], [], _, _ => rfl
  | [], _ :: _, h, _ => by simp at h
  | _ :: _, [], h, _ => by simp at h
  | a :: l1, b :: l2, h, he => by
    rw [leNat_cons, leNat_cons] at he
    have ha := a.toNat_lt
    have hb := b.toNat_lt
    have h1 : a.toNat = b.toNat := by omega
    have h2 : leNat l1 = leNat l2 := by omega
    rw [UInt8.toNat_inj.mp h1, leNat_inj l1 l2 (by simpa using h) h2]

/-- a 4-byte field is the encoding of its value -/
theorem le4_leNat {l : List UInt8} (h : l.length = 4) : le4 (leNat l) = l := by
  match l, h with
  | [a, b, c, d], _ =>
    refine leNat_inj (le4 (leNat [a, b, c, d])) [a, b, c, d] rfl ?_
    apply leNat_le4
    rw [leNat4]
    have := a.toNat_lt; have := b.toNat_lt; have := c.toNat_lt; have := d.toNat_lt
    omega

/-! ### one chunk with an explicit header -/

theorem step_hdr (decomp : List UInt8 → Option (List UInt8)) (seen : Bool) (ty : UInt8) {n : Nat}
    (hn : n < 2 ^ 24) (body : List UInt8) :
    step decomp seen (ty :: (le3 n ++ body)) = stepBody decomp seen ty.toNat n body := by
  show step decomp seen (ty :: _ :: _ :: _ :: body) = _
  rw [step_cons4]
  show stepBody decomp seen ty.toNat (leNat (le3 n)) body = _
  rw [leNat_le3 hn]

theorem MAX_BLOCK_eq : MAX_BLOCK = 65536 := rfl
theorem MAX_COMPRESS_BLOCK_eq : MAX_COMPRESS_BLOCK = 76490 := rfl

/-- an uncompressed chunk with an arbitrary 4-byte checksum field -/
theorem step_raw (decomp : List UInt8 → Option (List UInt8)) (seen : Bool)
    (crc4 data t : List UInt8) (hc : crc4.length = 4) (hd : data.length ≤ MAX_BLOCK) (hs : seen = true) :
    step decomp seen (0x01 :: (le3 (data.length + 4) ++ (crc4 ++ (data ++ t)))) =
      if crc32cMasked data != leNat crc4 then .err .checksum else .next t data := by
  rw [MAX_BLOCK_eq] at hd
  rw [step_hdr _ _ _ (by omega)]
  subst hs
  have hty : (1 : UInt8).toNat = 1 := rfl
  rw [hty]
  unfold stepBody
  rw [if_neg (by decide), if_neg (by rw [MAX_COMPRESS_BLOCK_eq]; omega), if_neg (by decide),
    if_neg (by decide), if_neg (by decide)]
  unfold stepData
  have e1 : (crc4 ++ (data ++ t)).take 4 = crc4 := List.take_left' hc
  have e2 : (crc4 ++ (data ++ t)).drop 4 = data ++ t := List.drop_left' hc
  have e3 : data.length + 4 - 4 = data.length := by omega
  rw [e1, e2, e3, List.take_left, List.drop_left]
  rw [if_neg (by omega), if_neg (by simp; omega), if_pos (by decide),
    if_neg (by rw [MAX_BLOCK_eq]; omega), if_neg (by simp)]

/-- a compressed chunk with an arbitrary 4-byte checksum field -/
theorem step_comp (decomp : List UInt8 → Option (List UInt8)) (seen : Bool)
    (crc4 cdata t : List UInt8) (hc : crc4.length = 4) (hd : cdata.length + 4 ≤ MAX_COMPRESS_BLOCK)
    (hs : seen = true) :
    step decomp seen (0x00 :: (le3 (cdata.length + 4) ++ (crc4 ++ (cdata ++ t)))) =
      match decomp cdata with
      | none => .err .decompress
      | some out => if crc32cMasked out != leNat crc4 then .err .checksum else .next t out := by
  rw [MAX_COMPRESS_BLOCK_eq] at hd
  rw [step_hdr _ _ _ (by omega)]
  subst hs
  have hty : (0 : UInt8).toNat = 0 := rfl
  rw [hty]
  unfold stepBody
  rw [if_neg (by decide), if_neg (by rw [MAX_COMPRESS_BLOCK_eq]; omega), if_neg (by decide),
    if_neg (by decide), if_neg (by decide)]
  unfold stepData
  have e1 : (crc4 ++ (cdata ++ t)).take 4 = crc4 := List.take_left' hc
  have e2 : (crc4 ++ (cdata ++ t)).drop 4 = cdata ++ t := List.drop_left' hc
  have e3 : cdata.length + 4 - 4 = cdata.length := by omega
  rw [e1, e2, e3, List.take_left, List.drop_left]
  rw [if_neg (by omega), if_neg (by simp; omega), if_neg (by decide), if_neg (by simp)]
  cases decomp cdata <;> rfl

/-- a skippable or padding chunk -/
theorem step_skip (decomp : List UInt8 → Option (List UInt8)) (seen : Bool) (ty : UInt8)
    (body t : List UInt8) (h1 : 0x80 ≤ ty.toNat) (h2 : ty.toNat ≤ 0xFE)
    (hb : body.length ≤ MAX_COMPRESS_BLOCK) (hs : seen = true) :
    step decomp seen (ty :: (le3 body.length ++ (body ++ t))) = .next t [] := by
  rw [MAX_COMPRESS_BLOCK_eq] at hb
  rw [step_hdr _ _ _ (by omega)]
  subst hs
  unfold stepBody
  rw [if_neg (by simp), if_neg (by rw [MAX_COMPRESS_BLOCK_eq]; omega),
    if_neg (by simp; omega), if_pos (by simp; omega)]
  unfold stepSkip
  rw [if_neg (by simp), List.drop_left]

/-- the stream identifier chunk -/
def IDENT : List UInt8 := [0xff, 6, 0, 0, 0x73, 0x4e, 0x61, 0x50, 0x70, 0x59]

theorem step_ident (decomp : List UInt8 → Option (List UInt8)) (seen : Bool) (t : List UInt8) :
    step decomp seen (IDENT ++ t) = .next t [] := by
  show step decomp seen (0xff :: 6 :: 0 :: 0 :: (STREAM_BODY ++ t)) = _
  rw [step_cons4]
  have hty : (0xff : UInt8).toNat = 255 := rfl
  have hl : leNat [6, 0, 0] = 6 := by decide
  rw [hty, hl]
  unfold stepBody
  rw [if_neg (by simp), if_neg (by decide), if_neg (by decide), if_neg (by decide), if_pos (by decide)]
  unfold stepIdent
  have e1 : (STREAM_BODY ++ t).take 6 = STREAM_BODY := List.take_left' rfl
  have e2 : (STREAM_BODY ++ t).drop 6 = t := List.drop_left' rfl
  rw [e1, e2, if_neg (by decide), if_neg (by simp [STREAM_BODY]), if_neg (by simp)]

/-! ### chunk lists -/

inductive Chunk where
  /-- type 0x01: uncompressed data -/
  | raw (data : List UInt8)
  /-- type 0x00: compressed bytes `cdata`, which decompress to `out` -/
  | comp (cdata out : List UInt8)
  /-- types 0x80..0xfe: skippable / padding -/
  | skip (ty : UInt8) (body : List UInt8)
  /-- type 0xff: a repeated stream identifier -/
  | ident
  deriving Repr, DecidableEq

/-- the bytes of a chunk -/
def Chunk.render : Chunk → List UInt8
  | .raw data => 0x01 :: (le3 (data.length + 4) ++ (le4 (crc32cMasked data) ++ data))
  | .comp cdata out => 0x00 :: (le3 (cdata.length + 4) ++ (le4 (crc32cMasked out) ++ cdata))
  | .skip ty body => ty :: (le3 body.length ++ body)
  | .ident => IDENT

/-- the data a chunk contributes -/
def Chunk.out : Chunk → List UInt8
  | .raw data => data
  | .comp _ out => out
  | .skip _ _ => []
  | .ident => []

/-- sizes within the limits of the format, decompression succeeds -/
def Chunk.Valid (decomp : List UInt8 → Option (List UInt8)) : Chunk → Prop
  | .raw data => data.length ≤ MAX_BLOCK
  | .comp cdata out => cdata.length + 4 ≤ MAX_COMPRESS_BLOCK ∧ decomp cdata = some out
  | .skip ty body => 0x80 ≤ ty.toNat ∧ ty.toNat ≤ 0xFE ∧ body.length ≤ MAX_COMPRESS_BLOCK
  | .ident => True

def render (cs : List Chunk) : List UInt8 := (cs.map Chunk.render).flatten

def payload (cs : List Chunk) : List UInt8 := (cs.map Chunk.out).flatten

@[simp] theorem render_nil : render [] = [] := rfl
@[simp] theorem render_cons (c : Chunk) (cs : List Chunk) : render (c :: cs) = c.render ++ render cs := by
  simp [render]
@[simp] theorem payload_nil : payload [] = [] := rfl
@[simp] theorem payload_cons (c : Chunk) (cs : List Chunk) : payload (c :: cs) = c.out ++ payload cs := by
  simp [payload]

theorem maskNat_lt' (bs : List UInt8) : crc32cMasked bs < 2 ^ 32 := Nat.mod_lt _ (by decide)

theorem step_chunk (decomp : List UInt8 → Option (List UInt8)) (c : Chunk) (hv : c.Valid decomp)
    (t : List UInt8) : step decomp true (c.render ++ t) = .next t c.out := by
  cases c with
  | raw data =>
    have := step_raw decomp true (le4 (crc32cMasked data)) data t rfl hv rfl
    rw [leNat_le4 (maskNat_lt' _)] at this
    simpa [Chunk.render, Chunk.out] using this
  | comp cdata out =>
    have := step_comp decomp true (le4 (crc32cMasked out)) cdata t rfl hv.1 rfl
    rw [hv.2, leNat_le4 (maskNat_lt' _)] at this
    simpa [Chunk.render, Chunk.out] using this
  | skip ty body =>
    have := step_skip decomp true ty body t hv.1 hv.2.1 hv.2.2 rfl
    simpa [Chunk.render, Chunk.out] using this
  | ident => exact step_ident decomp true t

/-- the decoder passes over valid chunks, collecting their data -/
theorem run_chunks (decomp : List UInt8 → Option (List UInt8)) :
    ∀ (cs : List Chunk), (∀ c ∈ cs, c.Valid decomp) → ∀ (t acc : List UInt8),
      run decomp true (render cs ++ t) acc = run decomp true t (acc ++ payload cs) := by
  intro cs
  induction cs with
  | nil => intro _ t acc; simp
  | cons c cs ih =>
    intro hv t acc
    rw [render_cons, List.append_assoc,
      run_next acc (step_chunk decomp c (hv c (List.mem_cons_self ..)) _),
      ih (fun c' hc' => hv c' (List.mem_cons_of_mem _ hc')), payload_cons, List.append_assoc]

/-- a stream: identifier, valid chunks, then anything -/
theorem unframe_chunks (decomp : List UInt8 → Option (List UInt8)) (cs : List Chunk)
    (hv : ∀ c ∈ cs, c.Valid decomp) (t : List UInt8) :
    unframe decomp (IDENT ++ (render cs ++ t)) = run decomp true t (payload cs) := by
  rw [unframe_eq_run, run_next [] (step_ident decomp false _), run_chunks decomp cs hv]
  simp

theorem unframe_stream (decomp : List UInt8 → Option (List UInt8)) (cs : List Chunk)
    (hv : ∀ c ∈ cs, c.Valid decomp) :
    unframe decomp (IDENT ++ render cs) = .ok (payload cs) := by
  have := unframe_chunks decomp cs hv []
  rw [List.append_nil] at this
  rw [this, run_done _ (step_nil _ _)]

end SkaModel.FR
