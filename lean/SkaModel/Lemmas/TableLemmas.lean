/-
Facts about the plain-table operations of `Spec/Table.lean`: `concat` (lookup, explicit rows,
associativity, well-formedness).
-/
import SkaModel.Spec.Abs
import SkaModel.Lemmas.AssocLemmas

namespace SkaModel.Spec.Table

open SkaModel

theorem keys_eq (a : Table) : a.keys = Assoc.keys a.rows := rfl

theorem concat_names (a b : Table) : (a.concat b).names = a.names ++ b.names := rfl

theorem concat_width (a b : Table) : (a.concat b).width = a.width + b.width := by
  simp [width, concat]

theorem concat_keys (a b : Table) :
    (a.concat b).keys = a.keys ++ b.keys.filter (fun k => !a.keys.contains k) := by
  simp [keys, concat, List.map_map, Function.comp_def]

theorem mem_concat_keys (a b : Table) (k : Nat) : k ∈ (a.concat b).keys ↔ k ∈ a.keys ∨ k ∈ b.keys := by
  rw [concat_keys]
  simp only [List.mem_append, List.mem_filter, List.contains_eq_mem, Bool.not_eq_true',
    decide_eq_false_iff_not]
  constructor
  · rintro (h | h)
    · exact Or.inl h
    · exact Or.inr h.1
  · rintro (h | h)
    · exact Or.inl h
    · by_cases ha : k ∈ a.keys
      · exact Or.inl ha
      · exact Or.inr ⟨h, ha⟩

theorem lookupRow_none {a : Table} {k : Nat} (h : k ∉ a.keys) : a.lookupRow k = none :=
  Assoc.lookup_eq_none_of_not_mem h

theorem concat_lookup (a b : Table) (k : Nat) :
    (a.concat b).lookupRow k =
      if k ∈ a.keys ∨ k ∈ b.keys then
        some ((a.lookupRow k).getD (List.replicate a.width gap) ++ (b.lookupRow k).getD (List.replicate b.width gap))
      else none := by
  have hm := mem_concat_keys a b k
  rw [concat_keys] at hm
  simp only [lookupRow, concat]
  rw [Assoc.lookup_map_keys]
  by_cases h : k ∈ a.keys ∨ k ∈ b.keys
  · rw [if_pos (hm.mpr h), if_pos h]
  · rw [if_neg (fun h' => h (hm.mp h')), if_neg h]

/-- `concat` is associative on the nose (no well-formedness needed): same names, same key order,
same cells -/
theorem concat_assoc (a b c : Table) : (a.concat b).concat c = a.concat (b.concat c) := by
  have hks : (a.concat b).keys ++ c.keys.filter (fun k => !(a.concat b).keys.contains k)
      = a.keys ++ (b.concat c).keys.filter (fun k => !a.keys.contains k) := by
    rw [concat_keys, concat_keys, List.filter_append, List.filter_filter, List.append_assoc]
    congr 2
    apply List.filter_congr
    intro k _
    have := mem_concat_keys a b k
    rw [concat_keys] at this
    by_cases ha : k ∈ a.keys <;> by_cases hb : k ∈ b.keys <;> simp [ha, hb]
  have hrow : ∀ k,
      ((a.concat b).lookupRow k).getD (List.replicate (a.concat b).width gap) ++ (c.lookupRow k).getD (List.replicate c.width gap)
      = (a.lookupRow k).getD (List.replicate a.width gap) ++ ((b.concat c).lookupRow k).getD (List.replicate (b.concat c).width gap) := by
    intro k
    rw [concat_lookup, concat_lookup, concat_width, concat_width]
    by_cases ha : k ∈ a.keys <;> by_cases hb : k ∈ b.keys <;> by_cases hc : k ∈ c.keys <;>
      simp [ha, hb, hc, lookupRow_none, ← List.replicate_append_replicate]
  show Table.mk _ _ = Table.mk _ _
  congr 1
  · simp [concat_names, List.append_assoc]
  · show List.map _ ((a.concat b).keys ++ _) = List.map _ (a.keys ++ _)
    rw [hks]
    apply List.map_congr_left
    intro k _
    rw [hrow k]

/-- explicit rows of `concat` for tables without repeated keys -/
theorem concat_rows_eq (a b : Table) (ha : a.keys.Nodup) (hb : b.keys.Nodup) :
    (a.concat b).rows =
      a.rows.map (fun kv => (kv.1, kv.2 ++ (b.lookupRow kv.1).getD (List.replicate b.width gap)))
      ++ (b.rows.filter (fun kv => !a.keys.contains kv.1)).map (fun kv => (kv.1, List.replicate a.width gap ++ kv.2)) := by
  simp only [concat, List.map_append]
  congr 1
  · simp only [keys, List.map_map]
    apply List.map_congr_left
    intro kv hkv
    simp only [Function.comp_def, lookupRow]
    rw [Assoc.lookup_of_mem ha hkv]
    rfl
  · simp only [keys, List.filter_map, List.map_map]
    apply List.map_congr_left
    intro kv hkv
    simp only [List.mem_filter, Function.comp_def, List.contains_eq_mem, Bool.not_eq_true',
      decide_eq_false_iff_not] at hkv
    simp only [Function.comp_def, lookupRow]
    rw [Assoc.lookup_of_mem hb hkv.1, Assoc.lookup_eq_none_of_not_mem hkv.2]
    rfl

theorem concat_keys_nodup (a b : Table) (ha : a.keys.Nodup) (hb : b.keys.Nodup) : (a.concat b).keys.Nodup := by
  rw [concat_keys, List.nodup_append]
  refine ⟨ha, List.Nodup.sublist List.filter_sublist hb, ?_⟩
  intro x hx y hy e
  simp only [List.mem_filter, List.contains_eq_mem, Bool.not_eq_true', decide_eq_false_iff_not] at hy
  exact hy.2 (e ▸ hx)

theorem Equiv.of_eq {a b : Table} (h : a = b) : a.Equiv b := by
  subst h; exact ⟨rfl, List.Perm.refl _⟩

/-- every row has a non-gap cell -/
def RowsPresent (t : Table) : Prop := ∀ r ∈ t.rows, ∃ b ∈ r.2, b ≠ gap

theorem concat_wf (a b : Table) (ha : Table.WF a) (hb : Table.WF b) : Table.WF (a.concat b) := by
  have ha2 : a.keys.Nodup := ha.2
  have hb2 : b.keys.Nodup := hb.2
  refine ⟨?_, concat_keys_nodup a b ha2 hb2⟩
  intro r hr
  rw [concat_rows_eq a b ha2 hb2] at hr
  simp only [List.mem_append, List.mem_map] at hr
  rw [concat_names, List.length_append]
  rcases hr with ⟨x, hx, rfl⟩ | ⟨x, hx, rfl⟩
  · have hl := ha.1 x hx
    cases hlk : b.lookupRow x.1 with
    | none => simp [hl, width]
    | some v =>
      have hv := hb.1 _ (Assoc.mem_of_lookup_J hlk)
      simp at hv
      simp [hl, hv]
  · have hv := hb.1 x (List.mem_filter.mp hx).1
    simp [hv, width]

theorem concat_rowsPresent (a b : Table) (ha : a.keys.Nodup) (hb : b.keys.Nodup)
    (hpa : a.RowsPresent) (hpb : b.RowsPresent) : (a.concat b).RowsPresent := by
  intro r hr
  rw [concat_rows_eq a b ha hb] at hr
  simp only [List.mem_append, List.mem_map] at hr
  rcases hr with ⟨x, hx, rfl⟩ | ⟨x, hx, rfl⟩
  · obtain ⟨c, hc, hne⟩ := hpa x hx
    exact ⟨c, List.mem_append_left _ hc, hne⟩
  · obtain ⟨c, hc, hne⟩ := hpb x (List.mem_filter.mp hx).1
    exact ⟨c, List.mem_append_right _ hc, hne⟩

end SkaModel.Spec.Table

namespace SkaModel

open Spec

theorem gap_eq : Spec.gap = GAP := rfl

theorem map_swap_zip {α β : Type} (l₁ : List α) (l₂ : List β) :
    (l₁.zip l₂).map (fun rk => (rk.2, rk.1)) = l₂.zip l₁ := by
  induction l₁ generalizing l₂ with
  | nil => simp
  | cons x l₁ ih =>
    cases l₂ with
    | nil => simp
    | cons y l₂ => simp [ih]

instance Arr.decidableWF (a : Arr) : Decidable a.WF :=
  decidable_of_iff (a.variants.length = a.kmers.length ∧ a.counts.length = a.kmers.length
      ∧ (∀ row ∈ a.variants, row.length = a.names.length) ∧ a.kmers.Nodup)
    ⟨fun h => ⟨h.1, h.2.1, h.2.2.1, h.2.2.2⟩, fun h => ⟨h.lenV, h.lenC, h.rowLen, h.nodup⟩⟩

theorem Arr.abs_wf {a : Arr} (ha : a.WF) : Table.WF a.abs := by
  refine ⟨?_, ?_⟩
  · intro r hr
    exact ha.rowLen _ (List.of_mem_zip hr).2
  · show ((a.kmers.zip a.variants).map (·.1)).Nodup
    rw [List.map_fst_zip (by rw [ha.lenV]; exact Nat.le_refl _)]
    exact ha.nodup

theorem Arr.variants_eq {a : Arr} (h : a.variants.length = a.kmers.length) :
    a.variants = a.abs.rows.map (·.2) := by
  show _ = (a.kmers.zip a.variants).map (·.2)
  rw [List.map_snd_zip (by rw [h]; exact Nat.le_refl _)]

theorem Arr.rowsPresent_iff {a : Arr} (h : a.variants.length = a.kmers.length) :
    a.RowsPresent ↔ a.abs.RowsPresent := by
  unfold Arr.RowsPresent Table.RowsPresent
  rw [Arr.variants_eq h]
  simp only [List.mem_map]
  constructor
  · intro H r hr; exact H _ ⟨r, hr, rfl⟩
  · rintro H _ ⟨r, hr, rfl⟩; exact H r hr

end SkaModel
