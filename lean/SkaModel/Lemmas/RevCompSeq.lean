/-
Windows of the reverse complement of a record: the window at `j` of `r` is the
window at `n - k - j` of `revCompSeq r`, with the arms reverse-complemented and
the middle base complemented, so it contributes the same (key, mask).
-/
import SkaModel.Lemmas.Transforms

namespace SkaModel

open SkaModel.Spec

theorem code_revCompSeq_getD {r : Array UInt8} (hd : AllDna r) (p : Nat) (hp : p < r.size)
    (hv : validBase (r.getD (r.size - 1 - p) 0) = true) :
    code ((revCompSeq r).getD p 0) = code (r.getD (r.size - 1 - p) 0) ^^^ 2 := by
  rw [revCompSeq_getD r p hp]
  exact code_compByte _ (hd _ (by omega)) hv

theorem codesAt_length (r : Array UInt8) (s m : Nat) : (codesAt r s m).length = m := by
  simp [codesAt]

theorem codesAt_getElem (r : Array UInt8) (s m i : Nat) (h : i < (codesAt r s m).length) :
    (codesAt r s m)[i] = code (r.getD (s + i) 0) := by
  simp [codesAt]

theorem rcCodes_getElem (cs : List Nat) (i : Nat) (h : i < (rcCodes cs).length) :
    (rcCodes cs)[i] = cs[cs.length - 1 - i]'(by rw [rcCodes_length] at h; omega) ^^^ 2 := by
  simp [rcCodes]

/-- a run of `m` valid bases read from the reverse complement is the reverse complement of
the mirrored run -/
theorem codesAt_revCompSeq {r : Array UInt8} (hd : AllDna r) (s m : Nat) (hsm : s + m ≤ r.size)
    (hv : ∀ i, i < m → validBase (r.getD (r.size - s - m + i) 0) = true) :
    codesAt (revCompSeq r) s m = rcCodes (codesAt r (r.size - s - m) m) := by
  apply List.ext_getElem
  · rw [rcCodes_length, codesAt_length, codesAt_length]
  · intro i h1 h2
    have hi : i < m := by rwa [codesAt_length] at h1
    rw [codesAt_getElem, rcCodes_getElem, codesAt_getElem, codesAt_length]
    have e : r.size - 1 - (s + i) = r.size - s - m + (m - 1 - i) := by omega
    rw [code_revCompSeq_getD hd (s + i) (by omega) (by rw [e]; exact hv _ (by omega)), e]

/-- the hypotheses under which `j` is a window start of `r` -/
def IsWindow (k : Nat) (r : Array UInt8) (j : Nat) : Prop :=
  j + k ≤ r.size ∧ ∀ t, t < k → validBase (r.getD (j + t) 0) = true

theorem isWindow_revCompSeq {k : Nat} {r : Array UInt8} {j : Nat} (h : IsWindow k r j) :
    IsWindow k (revCompSeq r) (r.size - k - j) := by
  obtain ⟨hj, hv⟩ := h
  refine ⟨by rw [revCompSeq_size]; omega, fun t ht => ?_⟩
  rw [revCompSeq_getD r _ (by omega), validBase_compByte]
  have e : r.size - 1 - (r.size - k - j + t) = j + (k - 1 - t) := by omega
  rw [e]; exact hv _ (by omega)

theorem armsAt_revCompSeq {k : Nat} (hk : k % 2 = 1) {r : Array UInt8} (hd : AllDna r) {j : Nat}
    (h : IsWindow k r j) :
    armsAt k (revCompSeq r) (r.size - k - j) = rcCodes (armsAt k r j) := by
  obtain ⟨hj, hv⟩ := h
  unfold armsAt
  simp only
  rw [rcCodes_append]
  have e1 : r.size - (r.size - k - j) - (k - 1) / 2 = j + (k - 1) / 2 + 1 := by omega
  have e2 : r.size - (r.size - k - j + (k - 1) / 2 + 1) - (k - 1) / 2 = j := by omega
  rw [codesAt_revCompSeq hd _ _ (by omega) (fun i hi => by
        rw [e1, show j + (k - 1) / 2 + 1 + i = j + ((k - 1) / 2 + 1 + i) by omega]
        exact hv _ (by omega)),
    codesAt_revCompSeq hd _ _ (by omega) (fun i hi => by
        rw [e2]; exact hv _ (by omega)),
    e1, e2]

theorem midAt_revCompSeq {k : Nat} (hk : k % 2 = 1) {r : Array UInt8} (hd : AllDna r) {j : Nat}
    (h : IsWindow k r j) :
    midAt k (revCompSeq r) (r.size - k - j) = midAt k r j ^^^ 2 := by
  obtain ⟨hj, hv⟩ := h
  unfold midAt
  have e : r.size - 1 - (r.size - k - j + (k - 1) / 2) = j + (k - 1) / 2 := by omega
  rw [code_revCompSeq_getD hd _ (by omega) (by rw [e]; exact hv _ (by omega)), e]

/-- (key, mask) as a function of the arms and the middle base, both strands in use -/
def pairOf (arms : List Nat) (mid : Nat) : Nat × Nat :=
  let f := packL arms
  let r := packL (rcCodes arms)
  let b := if f > r then mid ^^^ 2 else mid
  (if f > r then r else f, if f == r then (1 <<< b) ||| (1 <<< (b ^^^ 2)) else 1 <<< b)

theorem obs_pair_eq (k : Nat) (r : Array UInt8) (j : Nat) :
    ((obs k true r j).1, obsMask k true r j) = pairOf (armsAt k r j) (midAt k r j) := by
  unfold obsMask isPalin obs pairOf
  simp only [Bool.true_and]
  by_cases h : packL (armsAt k r j) > packL (rcCodes (armsAt k r j))
  · simp [h]
  · simp [h]

/-- the pair is the same read from the other strand -/
theorem pairOf_rc (arms : List Nat) (mid : Nat) :
    pairOf (rcCodes arms) (mid ^^^ 2) = pairOf arms mid := by
  unfold pairOf
  simp only [rcCodes_rcCodes]
  generalize packL arms = f
  generalize packL (rcCodes arms) = g
  rcases Nat.lt_trichotomy f g with h | h | h
  · have h1 : ¬ f > g := by omega
    have h2 : g > f := h
    have h3 : (g == f) = false := by simp; omega
    have h4 : (f == g) = false := by simp; omega
    simp only [h1, h2, h3, h4, if_true, if_false, xor2_xor2]
  · subst h
    simp only [Nat.lt_irrefl, gt_iff_lt, if_false, beq_self_eq_true, if_true, xor2_xor2]
    rw [Nat.or_comm]
  · have h1 : f > g := h
    have h2 : ¬ g > f := by omega
    have h3 : (g == f) = false := by simp; omega
    have h4 : (f == g) = false := by simp; omega
    simp only [h1, h2, h3, h4, if_true, if_false]

theorem obs_pair_revCompSeq {k : Nat} (hk : k % 2 = 1) {r : Array UInt8} (hd : AllDna r)
    {j : Nat} (h : IsWindow k r j) :
    ((obs k true (revCompSeq r) (r.size - k - j)).1, obsMask k true (revCompSeq r) (r.size - k - j))
      = ((obs k true r j).1, obsMask k true r j) := by
  rw [obs_pair_eq, obs_pair_eq, armsAt_revCompSeq hk hd h, midAt_revCompSeq hk hd h, pairOf_rc]

theorem observations_revCompSeq_sub {k : Nat} (hk : k % 2 = 1) {r : Array UInt8} (hd : AllDna r)
    (o : Nat × Nat) (ho : o ∈ observations k true [r]) :
    o ∈ observations k true [revCompSeq r] := by
  rw [mem_observations_single] at ho ⊢
  obtain ⟨j, hj, rfl⟩ := ho
  have hw : IsWindow k r j := (mem_windows k r j).mp hj
  exact ⟨r.size - k - j, (mem_windows _ _ _).mpr (isWindow_revCompSeq hw),
    obs_pair_revCompSeq hk hd hw⟩

/-- a record and its reverse complement contribute the same set of observations -/
theorem sameObs_revCompSeq {k : Nat} (hk : k % 2 = 1) {r : Array UInt8} (hd : AllDna r) :
    SameObs k true r (revCompSeq r) := by
  intro o
  constructor
  · exact observations_revCompSeq_sub hk hd o
  · intro ho
    have := observations_revCompSeq_sub hk hd.revCompSeq o ho
    rwa [revCompSeq_revCompSeq] at this

end SkaModel
