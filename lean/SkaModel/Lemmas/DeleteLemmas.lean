/-
`delete_samples`: the kept-index fold (`Table.keepIdx`), and the closed form of
`Arr.deleteSamples`.
-/
import SkaModel.Lemmas.TableLemmas

namespace SkaModel

open Spec

namespace Dedup
/-! ### `eraseDups` (the set of distinct requested names) -/

theorem eraseDups_nodup_aux {α : Type _} [BEq α] [LawfulBEq α] :
    ∀ (n : Nat) (l : List α), l.length ≤ n → l.eraseDups.Nodup
  | _, [], _ => by simp
  | 0, _ :: _, h => by simp at h
  | n + 1, a :: as, h => by
    rw [List.eraseDups_cons, List.nodup_cons]
    refine ⟨?_, eraseDups_nodup_aux n _ ?_⟩
    · intro hm
      rw [List.mem_eraseDups, List.mem_filter] at hm
      simp at hm
    · have := List.length_filter_le (fun b => !b == a) as
      simp only [List.length_cons] at h
      omega

/-- the distinct entries of a list are pairwise distinct -/
theorem eraseDups_nodup {α : Type _} [BEq α] [LawfulBEq α] (l : List α) : l.eraseDups.Nodup :=
  eraseDups_nodup_aux l.length l (Nat.le_refl _)

/-- a list without repetitions is its own list of distinct entries -/
theorem eraseDups_of_nodup {α : Type _} [BEq α] [LawfulBEq α] {l : List α} (h : l.Nodup) : l.eraseDups = l := by
  induction l with
  | nil => simp
  | cons a as ih =>
    rw [List.nodup_cons] at h
    rw [List.eraseDups_cons]
    have hf : as.filter (fun b => !b == a) = as := by
      rw [List.filter_eq_self]
      intro b hb
      have : b ≠ a := fun e => h.1 (e ▸ hb)
      simpa using this
    rw [hf, ih h.2]

theorem eraseDups_idem {α : Type _} [BEq α] [LawfulBEq α] (l : List α) : l.eraseDups.eraseDups = l.eraseDups :=
  eraseDups_of_nodup (eraseDups_nodup l)

theorem eraseDups_isEmpty {α : Type _} [BEq α] [LawfulBEq α] (l : List α) : l.eraseDups.isEmpty = l.isEmpty := by
  cases l with
  | nil => simp
  | cons a as => simp [List.eraseDups_cons]

theorem eraseDups_eq_nil_iff {α : Type _} [BEq α] [LawfulBEq α] (l : List α) : l.eraseDups = [] ↔ l = [] := by
  cases l with
  | nil => simp
  | cons a as => simp [List.eraseDups_cons]

/-- two lists without repetitions and with the same members have the same length -/
theorem length_eq_of_nodup_of_mem_iff {α : Type _} {l₁ l₂ : List α} (h₁ : l₁.Nodup) (h₂ : l₂.Nodup)
    (h : ∀ a, a ∈ l₁ ↔ a ∈ l₂) : l₁.length = l₂.length :=
  ((List.perm_ext_iff_of_nodup h₁ h₂).mpr h).length_eq

end Dedup

/-- one step of the index fold of `delete_samples` -/
def keepStep (acc : List Nat × List String) (ni : String × Nat) : List Nat × List String :=
  if acc.2.contains ni.1 then (acc.1, acc.2.erase ni.1) else (acc.1 ++ [ni.2], acc.2)

theorem keepIdx_eq_fold (names del : List String) :
    Table.keepIdx names del = ((names.zipIdx).foldl keepStep ([], del.eraseDups)).1 := rfl

theorem mem_of_mem_zipIdx {α : Type} {l : List α} {k : Nat} {x : α × Nat} (h : x ∈ l.zipIdx k) : x.1 ∈ l := by
  obtain ⟨a, i⟩ := x
  obtain ⟨_, _, h3⟩ := List.mem_zipIdx h
  rw [h3]; exact List.getElem_mem _

/-- when the names are distinct the matched-name bookkeeping is invisible: the fold keeps, in order,
the positions whose name is not requested -/
theorem keepFold_nodup (names : List String) (hn : names.Nodup) (s : Nat) (acc : List Nat) (S : List String) :
    ((names.zipIdx s).foldl keepStep (acc, S)).1
      = acc ++ ((names.zipIdx s).filter (fun ni => !S.contains ni.1)).map (·.2) := by
  induction names generalizing s acc S with
  | nil => simp
  | cons n names ih =>
    simp only [List.nodup_cons] at hn
    rw [List.zipIdx_cons, List.foldl_cons]
    by_cases hc : S.contains n = true
    · have hm : n ∈ S := List.contains_iff_mem.mp hc
      have hstep : keepStep (acc, S) (n, s) = (acc, S.erase n) := by simp [keepStep, hm]
      rw [hstep, ih hn.2, List.filter_cons]
      simp only [hc, Bool.not_true, Bool.false_eq_true, if_false]
      congr 2
      apply List.filter_congr
      intro x hx
      have hne : x.1 ≠ n := fun e => hn.1 (e ▸ mem_of_mem_zipIdx hx)
      simp only [List.contains_eq_mem, List.mem_erase_of_ne hne]
    · have hm : n ∉ S := fun h => hc (List.contains_iff_mem.mpr h)
      have hstep : keepStep (acc, S) (n, s) = (acc ++ [s], S) := by simp [keepStep, hm]
      rw [hstep, ih hn.2, List.filter_cons]
      simp only [hc, Bool.not_false, if_true, List.map_cons, List.append_assoc, List.cons_append,
        List.nil_append]

theorem keepIdx_nodup (names del : List String) (hn : names.Nodup) :
    Table.keepIdx names del = ((names.zipIdx).filter (fun ni => !del.contains ni.1)).map (·.2) := by
  rw [keepIdx_eq_fold, keepFold_nodup names hn]
  simp only [List.nil_append]
  congr 1
  apply List.filter_congr
  intro x _
  simp [List.contains_eq_mem, List.mem_eraseDups]

/-- the remaining names are the names not requested, in order -/
theorem keepIdx_names (names del : List String) (hn : names.Nodup) :
    (Table.keepIdx names del).map (fun i => names.getD i "") = names.filter (fun n => !del.contains n) := by
  rw [keepIdx_nodup names del hn, List.map_map]
  have h1 : ∀ x ∈ (names.zipIdx).filter (fun ni => !del.contains ni.1),
      ((fun i => names.getD i "") ∘ (·.2)) x = x.1 := by
    intro x hx
    obtain ⟨h2, h3⟩ := List.mem_zipIdx' (List.mem_filter.mp hx).1
    simp only [Function.comp_def, List.getD_eq_getElem?_getD, List.getElem?_eq_getElem h2,
      Option.getD_some]
    exact h3.symm
  rw [List.map_congr_left h1]
  have h2 : (names.zipIdx).filter (fun ni => !del.contains ni.1)
      = (names.zipIdx).filter ((fun n => !del.contains n) ∘ (·.1)) := rfl
  rw [h2, ← List.filter_map]
  congr 1
  exact List.zipIdx_map_fst 0 names

/-- exactly the positions of the names not requested -/
theorem mem_keepIdx (names del : List String) (hn : names.Nodup) (i : Nat) :
    i ∈ Table.keepIdx names del ↔ ∃ h : i < names.length, names[i] ∉ del := by
  rw [keepIdx_nodup names del hn]
  simp only [List.mem_map, List.mem_filter, List.contains_eq_mem, Bool.not_eq_true',
    decide_eq_false_iff_not]
  constructor
  · rintro ⟨x, ⟨hx, hnd⟩, rfl⟩
    obtain ⟨h2, h3⟩ := List.mem_zipIdx' hx
    exact ⟨h2, h3 ▸ hnd⟩
  · rintro ⟨h, hnd⟩
    refine ⟨(names[i], i), ⟨?_, hnd⟩, rfl⟩
    rw [List.mem_zipIdx_iff_getElem?]
    simp [h]

/-- … in increasing order -/
theorem keepIdx_sorted (names del : List String) (hn : names.Nodup) :
    (Table.keepIdx names del).Pairwise (· < ·) := by
  rw [keepIdx_nodup names del hn]
  have hs : (((names.zipIdx).filter (fun ni => !del.contains ni.1)).map (·.2)).Sublist
      ((names.zipIdx).map (·.2)) := List.Sublist.map _ List.filter_sublist
  rw [List.zipIdx_map_snd] at hs
  exact List.Pairwise.sublist hs (List.pairwise_lt_range' 1)

/-! ### `delete_samples` -/

theorem cellCount_pos (row : List UInt8) :
    decide (Arr.cellCount false row > 0) = row.any Table.present := by
  rw [Bool.eq_iff_iff]
  simp only [Arr.cellCount, decide_eq_true_eq, gt_iff_lt, List.length_filter_pos_iff, List.any_eq_true,
    Table.present, gap_eq]
  constructor
  · rintro ⟨x, hx, h⟩; exact ⟨x, hx, by simpa using h⟩
  · rintro ⟨x, hx, h⟩; exact ⟨x, hx, by simpa using h⟩

/-- the array `delete_samples` returns when it does not panic -/
def Arr.deleteResult (a : Arr) (del : List String) : Arr :=
  let idx := Table.keepIdx a.names del
  ({ a with names := idx.map (fun i => a.names.getD i "")
            variants := a.variants.map (fun row => idx.map (fun i => row.getD i GAP)) } : Arr).updateCounts false

theorem deleteSamples_eq (a : Arr) (del : List String) :
    a.deleteSamples del =
      if del.isEmpty || del.eraseDups.length == a.names.length then none
      else if del.eraseDups.any (fun n => !a.names.contains n) then none
      else some (a.deleteResult del) := by
  unfold Arr.deleteSamples
  by_cases h1 : (del.isEmpty || del.eraseDups.length == a.names.length) = true
  · simp only [h1, if_true]
  · by_cases h2 : (del.eraseDups.any (fun n => !a.names.contains n)) = true
    · simp only [h1, h2, if_true]
    · simp only [h1, h2]
      rfl

theorem deleteResult_abs (a : Arr) (del : List String) :
    (a.deleteResult del).abs = a.abs.deleteSamples del := by
  simp only [Arr.deleteResult, Arr.updateCounts, Arr.abs, Table.deleteSamples, Table.selectCols]
  congr 1
  rw [List.zip_map', List.zip_map_left, ← map_swap_zip a.kmers a.variants, List.map_map,
    List.filter_map, List.map_map, List.filter_map]
  congr 1
  apply List.filter_congr
  intro r _
  simp only [Function.comp_def, Prod.map_fst, cellCount_pos]
  rfl

theorem deleteResult_counts (a : Arr) (del : List String) :
    (a.deleteResult del).counts = (a.deleteResult del).variants.map (Arr.cellCount false) := by
  simp [Arr.deleteResult, Arr.updateCounts, List.map_map, Function.comp_def]

theorem deleteResult_rowsPresent (a : Arr) (del : List String) : (a.deleteResult del).RowsPresent := by
  intro row hr
  simp only [Arr.deleteResult, Arr.updateCounts, List.mem_map, List.mem_filter] at hr
  obtain ⟨rk, ⟨_, hpos⟩, rfl⟩ := hr
  rw [cellCount_pos, List.any_eq_true] at hpos
  obtain ⟨b, hb, hp⟩ := hpos
  exact ⟨b, hb, by simpa [Table.present, gap_eq] using hp⟩

theorem deleteResult_names (a : Arr) (del : List String) :
    (a.deleteResult del).names = (Table.keepIdx a.names del).map (fun i => a.names.getD i "") := rfl

theorem deleteResult_wf (a : Arr) (del : List String) (ha : a.WF) : (a.deleteResult del).WF where
  lenV := by simp [Arr.deleteResult, Arr.updateCounts]
  lenC := by simp [Arr.deleteResult, Arr.updateCounts]
  rowLen := by
    intro row hr
    simp only [Arr.deleteResult, Arr.updateCounts, List.mem_map, List.mem_filter] at hr
    obtain ⟨rk, ⟨hrk, _⟩, rfl⟩ := hr
    have := (List.of_mem_zip hrk).1
    simp only [List.mem_map] at this
    obtain ⟨row0, _, h0⟩ := this
    rw [← h0, deleteResult_names]
    simp
  nodup := by
    have hsub : (a.deleteResult del).kmers.Sublist a.kmers := by
      simp only [Arr.deleteResult, Arr.updateCounts]
      have h1 := List.Sublist.map (fun rk : List UInt8 × Nat => rk.2)
        (List.filter_sublist (p := fun rk : List UInt8 × Nat => decide (Arr.cellCount false rk.1 > 0))
          (l := (a.variants.map (fun row => (Table.keepIdx a.names del).map (fun i => row.getD i GAP))).zip a.kmers))
      rw [List.map_snd_zip (by simp [ha.lenV])] at h1
      exact h1
    exact List.Nodup.sublist hsub ha.nodup

end SkaModel
