/-
Lemmas on the model of the `ska lo` pipeline (`SkaModel/Impl/SkaloPipe.lean`): the SNP
columns of `groupSnps` / `analyse` are well formed; `processIndels` and `analyse` do not
depend on the order of the group lists (hash maps); the records of `processIndels`;
the classification of `buildVariantGroups`.
-/
import SkaModel.Impl.SkaloPipe
import SkaModel.Lemmas.LOBasic
import SkaModel.Lemmas.LOIndel
import SkaModel.Props.C18Derep
namespace SkaModel.LOP
open SkaModel SkaModel.Skalo

theorem foldlM_inv {α β : Type} (f : β → α → Option β) (P : β → Prop)
    (hf : ∀ b a b', P b → f b a = some b' → P b') :
    ∀ (l : List α) (b b' : β), P b → l.foldlM f b = some b' → P b' := by
  intro l
  induction l with
  | nil => intro b b' hb h; simp [List.foldlM] at h; exact h ▸ hb
  | cons a l ih =>
    intro b b' hb h
    rw [List.foldlM_cons] at h
    cases hfa : f b a with
    | none => simp [hfa] at h
    | some b1 =>
      simp [hfa] at h
      exact ih b1 b' (hf b a b1 hb hfa) h

/-- the alphabet of an SNP column: '-', N, A, C, G, T -/
def okB (b : UInt8) : Prop := b = 45 ∨ b = 78 ∨ b = 65 ∨ b = 67 ∨ b = 71 ∨ b = 84

def ColWf (n : Nat) (c : List UInt8) : Prop := c.length = n ∧ ∀ b ∈ c, okB b

theorem okB_decodeBase (c : Nat) : okB (decodeBase c) := by
  unfold decodeBase okB
  split
  · simp
  · split
    · simp
    · split <;> simp

theorem colWf_replicate (n : Nat) : ColWf n (List.replicate n 45) := by
  refine ⟨by simp, ?_⟩
  intro b hb
  rw [List.mem_replicate] at hb
  exact Or.inl hb.2

theorem colWf_update (n : Nat) (nucl : UInt8) (hn : okB nucl) (samples : List Nat) :
    ∀ c : List UInt8, ColWf n c →
      ColWf n (samples.foldl (fun (c : List UInt8) i =>
          if c.getD i 0 == 45 || c.getD i 0 == nucl then c.set i nucl else c.set i 78) c) := by
  induction samples with
  | nil => intro c h; exact h
  | cons i rest ih =>
    intro c h
    rw [List.foldl_cons]
    apply ih
    split
    · refine ⟨by rw [List.length_set]; exact h.1, ?_⟩
      intro b hb
      rcases List.mem_or_eq_of_mem_set hb with hb | hb
      · exact h.2 b hb
      · exact hb ▸ hn
    · refine ⟨by rw [List.length_set]; exact h.1, ?_⟩
      intro b hb
      rcases List.mem_or_eq_of_mem_set hb with hb | hb
      · exact h.2 b hb
      · exact hb ▸ Or.inr (Or.inl rfl)

/-- well-formedness of one emitted column -/
def ColOk (nSamples mNum mDen : Nat) (c : List UInt8) : Prop :=
  ColWf nSamples c ∧ (checkMissingData c).1 = true ∧ ratioLe (checkMissingData c).2 nSamples mNum mDen = true

theorem groupSnps_cols (W kGraph nSamples mNum mDen : Nat) (col : Colours) (done : List Nat)
    (vs : List Variant) (r : List (List UInt8) × List Nat)
    (h : groupSnps W kGraph nSamples mNum mDen col done vs = some r) :
    ∀ c ∈ r.1, ColOk nSamples mNum mDen c := by
  unfold groupSnps at h
  simp only [] at h
  refine foldlM_inv _ (fun (acc : List (List UInt8) × List Nat) => ∀ c ∈ acc.1, ColOk nSamples mNum mDen c) ?_ _ _ _ (by simp) h
  clear h
  intro acc pos acc' hacc hstep
  split at hstep
  · simp at hstep
  · simp only [Option.bind_eq_bind, Option.bind_eq_some_iff] at hstep
    obtain ⟨st, hst, hstep⟩ := hstep
    have hwf : ColWf nSamples st.1 := by
      refine foldlM_inv _ (fun (st : List UInt8 × List Nat × Bool) => ColWf nSamples st.1) ?_ _ _ _ (colWf_replicate nSamples) hst
      clear hst
      intro st v st' hs hv
      simp only [Option.bind_eq_some_iff] at hv
      obtain ⟨fbS, _, faS, _, hv⟩ := hv
      split at hv
      · simp only [Option.bind_eq_some_iff] at hv
        obtain ⟨samples, _, hv⟩ := hv
        simp only [pure, Option.some.injEq] at hv
        subst hv
        exact colWf_update nSamples _ (okB_decodeBase _) _ _ hs
      · simp only [pure, Option.some.injEq] at hv
        subst hv
        exact hs
    clear hst
    split at hstep
    · split at hstep
      · rename_i hok
        simp only [pure, Option.some.injEq] at hstep
        subst hstep
        intro c hc
        rcases List.mem_append.mp hc with hc | hc
        · exact hacc c hc
        · rw [List.mem_singleton] at hc
          subst hc
          rw [Bool.and_eq_true] at hok
          exact ⟨hwf, hok.1, hok.2⟩
      · simp only [pure, Option.some.injEq] at hstep
        subst hstep
        exact hacc
    · simp only [pure, Option.some.injEq] at hstep
      subst hstep
      exact hacc

theorem analyse_cols (W kGraph nSamples mNum mDen ik : Nat) (col : Colours) (gr : Groups)
    (cols : List (List UInt8)) (recs : List IndelRec)
    (h : analyse W kGraph nSamples mNum mDen ik col gr = some (cols, recs)) :
    ∀ c ∈ cols, ColOk nSamples mNum mDen c := by
  unfold analyse at h
  simp only [Option.bind_eq_bind, Option.bind_eq_some_iff] at h
  obtain ⟨⟨recs', ext⟩, _, res, hres, h⟩ := h
  simp only [pure, Option.some.injEq, Prod.mk.injEq] at h
  obtain ⟨h1, _⟩ := h
  subst h1
  refine foldlM_inv _ (fun (acc : List (List UInt8) × List Nat) => ∀ c ∈ acc.1, ColOk nSamples mNum mDen c) ?_ _ _ _ (by simp) hres
  clear hres
  intro acc kv acc' hacc hstep
  split at hstep
  · split at hstep
    · simp only [pure, Option.some.injEq] at hstep
      subst hstep
      exact hacc
    · simp only [Option.bind_eq_some_iff] at hstep
      obtain ⟨⟨cs, save⟩, hg, hstep⟩ := hstep
      simp only [pure, Option.some.injEq] at hstep
      subst hstep
      intro c hc
      rcases List.mem_append.mp hc with hc | hc
      · exact hacc c hc
      · exact groupSnps_cols W kGraph nSamples mNum mDen col _ _ _ hg c hc
  · simp only [pure, Option.some.injEq] at hstep
    subst hstep
    exact hacc

/-! ### order independence -/

theorem eq_of_key_eq {α κ : Type} (f : α → κ) : ∀ (l : List α), (l.map f).Nodup →
    ∀ a b, a ∈ l → b ∈ l → f a = f b → a = b := by
  intro l
  induction l with
  | nil => intro _ a b ha; simp at ha
  | cons x xs ih =>
    intro hnd a b ha hb hab
    rw [List.map_cons, List.nodup_cons] at hnd
    rcases List.mem_cons.mp ha with ha | ha <;> rcases List.mem_cons.mp hb with hb | hb
    · rw [ha, hb]
    · exact absurd (by rw [← ha, hab]; exact List.mem_map_of_mem hb) hnd.1
    · exact absurd (by rw [← hb, ← hab]; exact List.mem_map_of_mem ha) hnd.1
    · exact ih hnd.2 a b ha hb hab

theorem lookup_eq_some_iff {κ ν : Type} [BEq κ] [LawfulBEq κ] : ∀ (l : Assoc κ ν), (l.map (·.1)).Nodup →
    ∀ k v, Assoc.lookup l k = some v ↔ (k, v) ∈ l := by
  intro l
  induction l with
  | nil => intro _ k v; simp [Assoc.lookup]
  | cons x xs ih =>
    intro hnd k v
    obtain ⟨k0, v0⟩ := x
    rw [List.map_cons, List.nodup_cons] at hnd
    unfold Assoc.lookup
    by_cases hk : k0 = k
    · subst hk
      simp only [beq_self_eq_true, if_true, Option.some.injEq, List.mem_cons, Prod.mk.injEq, true_and]
      constructor
      · intro h; exact Or.inl h.symm
      · rintro (h | h)
        · exact h.symm
        · exact absurd (List.mem_map_of_mem (f := (·.1)) h) hnd.1
    · have : (k0 == k) = false := by simpa using hk
      rw [this]
      simp only [Bool.false_eq_true, if_false, List.mem_cons, Prod.mk.injEq]
      rw [ih hnd.2]
      constructor
      · intro h; exact Or.inr h
      · rintro (h | h)
        · exact absurd h.1.symm hk
        · exact h

theorem lookup_perm {κ ν : Type} [BEq κ] [LawfulBEq κ] (l l' : Assoc κ ν) (hp : l.Perm l')
    (hnd : (l.map (·.1)).Nodup) (k : κ) : Assoc.lookup l k = Assoc.lookup l' k := by
  have hnd' : (l'.map (·.1)).Nodup := (hp.map _).nodup_iff.mp hnd
  apply Option.ext
  intro v
  rw [lookup_eq_some_iff l hnd, lookup_eq_some_iff l' hnd', hp.mem_iff]

theorem keyLe_trans (a b c : Nat × Nat) : keyLe a b = true → keyLe b c = true → keyLe a c = true := by
  simp only [keyLe, Bool.or_eq_true, decide_eq_true_eq, Bool.and_eq_true, beq_iff_eq]
  omega

theorem keyLe_total (a b : Nat × Nat) : (keyLe a b || keyLe b a) = true := by
  simp only [keyLe, Bool.or_eq_true, decide_eq_true_eq, Bool.and_eq_true, beq_iff_eq]
  omega

theorem keyLe_antisymm (a b : Nat × Nat) : keyLe a b = true → keyLe b a = true → a = b := by
  cases a; cases b
  simp only [keyLe, Bool.or_eq_true, decide_eq_true_eq, Bool.and_eq_true, beq_iff_eq, Prod.mk.injEq]
  omega

theorem mergeSort_key_perm {α : Type} (f : α → Nat × Nat) (l l' : List α) (hp : l.Perm l')
    (hnd : (l.map f).Nodup) :
    l.mergeSort (fun a b => keyLe (f a) (f b)) = l'.mergeSort (fun a b => keyLe (f a) (f b)) := by
  have hs := List.mergeSort_perm l (fun a b => keyLe (f a) (f b))
  have hs' := List.mergeSort_perm l' (fun a b => keyLe (f a) (f b))
  apply List.Perm.eq_of_pairwise (le := fun a b => keyLe (f a) (f b) = true)
  · intro a b ha hb hab hba
    have ha' : a ∈ l := hs.mem_iff.mp ha
    have hb' : b ∈ l := hp.mem_iff.mpr (hs'.mem_iff.mp hb)
    exact eq_of_key_eq f l hnd a b ha' hb' (keyLe_antisymm _ _ hab hba)
  · exact List.pairwise_mergeSort (le := fun a b => keyLe (f a) (f b)) (fun a b c => keyLe_trans _ _ _) (fun a b => keyLe_total _ _) l
  · exact List.pairwise_mergeSort (le := fun a b => keyLe (f a) (f b)) (fun a b c => keyLe_trans _ _ _) (fun a b => keyLe_total _ _) l'
  · exact hs.trans (hp.trans hs'.symm)

/-- the group record handed to `dereplicate` -/
def toGroup (kv : (Nat × Nat) × List Variant) : IndelGroup :=
  { entry := kv.1.1, exit := kv.1.2, len := (kv.2.map (·.1.length)).sum }

/-- the record (or `none` for a filtered group) of one kept indel group with variants `vs` -/
def recOf (W kGraph nSamples mNum mDen : Nat) (col : Colours) (vs : List Variant) : Option (Option IndelRec) := do
  let sets := vs.filterMap (fun v => Assoc.lookup col (encodeKmer W (v.1.take (kGraph + 1))))
  let s0 ← sets[0]?
  let s1 ← sets[1]?
  let (missing, rp, ap) := indelStats nSamples s0 s1
  if ratioLe missing nSamples mNum mDen && rp && ap then
    let seqs := vs.map (·.1)
    let (ins, last) := extractMiddleBases seqs kGraph
    let first := (seqs.headD []).take kGraph
    let (i0, i1) := (ins.getD 0 [], ins.getD 1 [])
    let (r, a, calls) := if bytesLt i1 i0 then indelCalls nSamples i1 i0 s1 s0 else indelCalls nSamples i0 i1 s0 s1
    pure (some ({ ref := r, alt := a, before := first, after := last, calls := calls } : IndelRec))
  else pure none

theorem processIndels_eq (W kGraph n mNum mDen : Nat) (col : Colours)
    (ig : List ((Nat × Nat) × List Variant)) :
    processIndels W kGraph n mNum mDen col ig =
      ((((dereplicate W kGraph (ig.map toGroup)).1.mergeSort
          (fun a b => keyLe (a.entry, a.exit) (b.entry, b.exit))).mapM
          (fun kg => recOf W kGraph n mNum mDen col ((Assoc.lookup ig (kg.entry, kg.exit)).getD []))).bind
        (fun recs => some (recs.filterMap id, (dereplicate W kGraph (ig.map toGroup)).2))) := rfl

theorem processIndels_perm (W kGraph n mNum mDen : Nat) (col : Colours)
    (ig ig' : List ((Nat × Nat) × List Variant)) (hp : ig.Perm ig') (hnd : (ig.map (·.1)).Nodup) :
    processIndels W kGraph n mNum mDen col ig = processIndels W kGraph n mNum mDen col ig' := by
  have hl : ∀ key, Assoc.lookup ig key = Assoc.lookup ig' key := lookup_perm ig ig' hp hnd
  rw [processIndels_eq, processIndels_eq,
    SkaModel.Props.C18.T18_derep_order W kGraph _ _ (hp.map toGroup)]
  simp only [hl]

theorem analyse_perm (W kGraph n mNum mDen ik : Nat) (col : Colours) (gr gr' : Groups)
    (hs : gr.snpGroups.Perm gr'.snpGroups) (hi : gr.indelGroups.Perm gr'.indelGroups)
    (hsn : (gr.snpGroups.map (·.1)).Nodup) (hin : (gr.indelGroups.map (·.1)).Nodup) :
    analyse W kGraph n mNum mDen ik col gr = analyse W kGraph n mNum mDen ik col gr' := by
  unfold analyse
  rw [processIndels_perm W kGraph n mNum mDen col _ _ hi hin]
  cases processIndels W kGraph n mNum mDen col gr'.indelGroups with
  | none => rfl
  | some re =>
    obtain ⟨recs, ext⟩ := re
    simp only [Option.bind_eq_bind, Option.bind_some]
    rw [mergeSort_key_perm (fun (kv : (Nat × Nat) × List Variant) => kv.1) _ _ (hs.map _) (by
      rw [List.map_map]; exact hsn)]

/-! ### the records of `processIndels` -/

theorem recOf_eq (W kGraph n mNum mDen : Nat) (col : Colours) (vs : List Variant) :
    recOf W kGraph n mNum mDen col vs =
      let sets := vs.filterMap (fun v => Assoc.lookup col (encodeKmer W (v.1.take (kGraph + 1))))
      (sets[0]?).bind fun s0 => (sets[1]?).bind fun s1 =>
        let st := indelStats n s0 s1
        if ratioLe st.1 n mNum mDen && st.2.1 && st.2.2 then
          let ex := extractMiddleBases (vs.map (·.1)) kGraph
          let i0 := ex.1.getD 0 []
          let i1 := ex.1.getD 1 []
          let c := if bytesLt i1 i0 then indelCalls n i1 i0 s1 s0 else indelCalls n i0 i1 s0 s1
          some (some { ref := c.1, alt := c.2.1, before := ((vs.map (·.1)).headD []).take kGraph,
                       after := ex.2, calls := c.2.2 })
        else some none := rfl

theorem mapM_some_mem {α β : Type} (f : α → Option β) : ∀ (l : List α) (ys : List β),
    l.mapM f = some ys → ∀ y ∈ ys, ∃ x ∈ l, f x = some y := by
  intro l
  induction l with
  | nil => intro ys h y hy; simp at h; subst h; simp at hy
  | cons a l ih =>
    intro ys h y hy
    rw [List.mapM_cons] at h
    simp only [Option.bind_eq_bind, Option.bind_eq_some_iff, pure, Option.some.injEq] at h
    obtain ⟨b, hb, bs, hbs, h⟩ := h
    subst h
    rcases List.mem_cons.mp hy with hy | hy
    · subst hy; exact ⟨a, List.mem_cons_self, hb⟩
    · obtain ⟨x, hx, hfx⟩ := ih bs hbs y hy
      exact ⟨x, List.mem_cons_of_mem _ hx, hfx⟩


/-- number of distinct samples of a colour set -/
def card (s : List Nat) : Nat := s.eraseDups.length

/-- allele 0 is reported as REF: it has more samples, or as many and its insert is not the
(bytewise) larger one -/
def refFirst (i0 i1 : List UInt8) (s0 s1 : List Nat) : Bool :=
  decide (card s1 < card s0 ∨ (card s0 = card s1 ∧ bytesLt i1 i0 = false))

/-- `r` genotypes the alleles (insert `i0`, samples `s0`) and (`i1`, `s1`) over `n` samples -/
structure Genotyped (n mNum mDen : Nat) (i0 i1 : List UInt8) (s0 s1 : List Nat) (r : IndelRec) : Prop where
  ref : r.ref = if refFirst i0 i1 s0 s1 then i0 else i1
  alt : r.alt = if refFirst i0 i1 s0 s1 then i1 else i0
  len : r.calls.length = n
  calls : ∀ i, i < n → ∃ g, r.calls[i]? = some g ∧
      (g = "0" ↔ i ∈ (if refFirst i0 i1 s0 s1 then s0 else s1) ∧ i ∉ (if refFirst i0 i1 s0 s1 then s1 else s0)) ∧
      (g = "1" ↔ i ∉ (if refFirst i0 i1 s0 s1 then s0 else s1) ∧ i ∈ (if refFirst i0 i1 s0 s1 then s1 else s0)) ∧
      (g = "0/1" ↔ i ∈ s0 ∧ i ∈ s1) ∧ (g = "." ↔ i ∉ s0 ∧ i ∉ s1)
  missing : ratioLe ((List.range n).filter
      (fun i => decide ((i ∈ s0 ∧ i ∈ s1) ∨ (i ∉ s0 ∧ i ∉ s1)))).length n mNum mDen = true
  pure0 : ∃ i, i < n ∧ i ∈ s0 ∧ i ∉ s1
  pure1 : ∃ i, i < n ∧ i ∉ s0 ∧ i ∈ s1

theorem genotyped_of_gtStrings (n mNum mDen : Nat) (i0 i1 : List UInt8) (s0 s1 : List Nat)
    (hst : (ratioLe (indelStats n s0 s1).1 n mNum mDen && (indelStats n s0 s1).2.1 && (indelStats n s0 s1).2.2) = true)
    (b : Bool) (hb : refFirst i0 i1 s0 s1 = b) (before after : List UInt8) :
    Genotyped n mNum mDen i0 i1 s0 s1
      { ref := if b then i0 else i1, alt := if b then i1 else i0, before := before, after := after,
        calls := LO.gtStrings n (if b then s0 else s1) (if b then s1 else s0) } := by
  obtain ⟨h1, h2, h3⟩ := LO.indelStats_spec n s0 s1
  simp only [Bool.and_eq_true] at hst
  obtain ⟨⟨hm, hr⟩, ha⟩ := hst
  refine ⟨by rw [hb], by rw [hb], LO.gtStrings_length _ _ _, ?_, ?_, h2.mp hr, h3.mp ha⟩
  · intro i hi
    obtain ⟨g, hg, g0, g1, g01, gd⟩ := LO.gtStrings_spec n (if b then s0 else s1) (if b then s1 else s0) i hi
    refine ⟨g, hg, ?_, ?_, ?_, ?_⟩
    · rw [hb]; exact g0
    · rw [hb]; exact g1
    · rw [g01]; cases b <;> simp [and_comm]
    · rw [gd]; cases b <;> simp [and_comm]
  · rw [← h1]; exact hm

theorem recOf_spec (W kGraph n mNum mDen : Nat) (col : Colours) (vs : List Variant) (r : IndelRec)
    (h : recOf W kGraph n mNum mDen col vs = some (some r)) :
    ∃ s0 s1,
      (vs.filterMap (fun v => Assoc.lookup col (encodeKmer W (v.1.take (kGraph + 1)))))[0]? = some s0 ∧
      (vs.filterMap (fun v => Assoc.lookup col (encodeKmer W (v.1.take (kGraph + 1)))))[1]? = some s1 ∧
      r.before = ((vs.map (·.1)).headD []).take kGraph ∧
      r.after = (extractMiddleBases (vs.map (·.1)) kGraph).2 ∧
      Genotyped n mNum mDen ((extractMiddleBases (vs.map (·.1)) kGraph).1.getD 0 [])
        ((extractMiddleBases (vs.map (·.1)) kGraph).1.getD 1 []) s0 s1 r := by
  rw [recOf_eq] at h
  simp only [Option.bind_eq_some_iff] at h
  obtain ⟨s0, hs0, s1, hs1, h⟩ := h
  refine ⟨s0, s1, hs0, hs1, ?_⟩
  split at h
  · rename_i hst
    simp only [Option.some.injEq] at h
    generalize hi0 : (extractMiddleBases (vs.map (·.1)) kGraph).1.getD 0 [] = i0 at h ⊢
    generalize hi1 : (extractMiddleBases (vs.map (·.1)) kGraph).1.getD 1 [] = i1 at h ⊢
    have key : ∀ b, refFirst i0 i1 s0 s1 = b →
        (if bytesLt i1 i0 then indelCalls n i1 i0 s1 s0 else indelCalls n i0 i1 s0 s1) =
          (if b then i0 else i1, if b then i1 else i0,
            LO.gtStrings n (if b then s0 else s1) (if b then s1 else s0)) := by
      intro b hb
      rw [LO.indelCalls_eq, LO.indelCalls_eq]
      unfold refFirst card at hb
      by_cases hlt : bytesLt i1 i0 = true
      · rw [if_pos hlt]
        by_cases hc : s1.eraseDups.length < s0.eraseDups.length
        · have : b = true := by rw [← hb]; simp [hc]
          subst this; simp [hc]
        · have : b = false := by rw [← hb]; simp [hc, hlt]
          subst this; simp [hc]
      · rw [if_neg hlt]
        by_cases hc : s0.eraseDups.length < s1.eraseDups.length
        · have : b = false := by rw [← hb]; simp; omega
          subst this; simp [hc]
        · have : b = true := by rw [← hb]; simp [hlt]; omega
          subst this; simp [hc]
    have hg := genotyped_of_gtStrings n mNum mDen i0 i1 s0 s1 hst _ rfl
      (((vs.map (·.1)).headD []).take kGraph) (extractMiddleBases (vs.map (·.1)) kGraph).2
    rw [key _ rfl] at h
    subst h
    exact ⟨rfl, rfl, hg⟩
  · simp at h


theorem mapM_some_mem' {α β : Type} (f : α → Option β) : ∀ (l : List α) (ys : List β),
    l.mapM f = some ys → ∀ x ∈ l, ∃ y ∈ ys, f x = some y := by
  intro l
  induction l with
  | nil => intro ys h x hx; simp at hx
  | cons a l ih =>
    intro ys h x hx
    rw [List.mapM_cons] at h
    simp only [Option.bind_eq_bind, Option.bind_eq_some_iff, pure, Option.some.injEq] at h
    obtain ⟨b, hb, bs, hbs, h⟩ := h
    subst h
    rcases List.mem_cons.mp hx with hx | hx
    · subst hx; exact ⟨b, List.mem_cons_self, hb⟩
    · obtain ⟨y, hy, hfx⟩ := ih bs hbs x hx
      exact ⟨y, List.mem_cons_of_mem _ hy, hfx⟩

theorem lookup_mem {κ ν : Type} [BEq κ] [LawfulBEq κ] : ∀ (l : Assoc κ ν) (k : κ) (v : ν),
    Assoc.lookup l k = some v → (k, v) ∈ l := by
  intro l
  induction l with
  | nil => intro k v h; simp [Assoc.lookup] at h
  | cons x xs ih =>
    intro k v h
    obtain ⟨k0, v0⟩ := x
    unfold Assoc.lookup at h
    split at h
    · rename_i hk
      have hk' : k0 = k := by simpa using hk
      simp only [Option.some.injEq] at h
      rw [hk', h]; exact List.mem_cons_self
    · exact List.mem_cons_of_mem _ (ih k v h)

theorem lookup_of_key_mem {κ ν : Type} [BEq κ] [LawfulBEq κ] : ∀ (l : Assoc κ ν) (k : κ),
    k ∈ l.map (·.1) → ∃ v, Assoc.lookup l k = some v := by
  intro l
  induction l with
  | nil => intro k h; simp at h
  | cons x xs ih =>
    intro k h
    obtain ⟨k0, v0⟩ := x
    unfold Assoc.lookup
    by_cases hk : (k0 == k) = true
    · rw [if_pos hk]; exact ⟨v0, rfl⟩
    · rw [if_neg hk]
      rw [List.map_cons, List.mem_cons] at h
      rcases h with h | h
      · exact absurd (by simp [h]) hk
      · exact ih k h

/-- the records of `processIndels`: the extremities are those of the de-replication, every record is
the record of a kept group, and every kept group yields its record or is filtered -/
theorem processIndels_spec (W kGraph n mNum mDen : Nat) (col : Colours)
    (ig : List ((Nat × Nat) × List Variant)) (recs : List IndelRec) (ext : List Nat)
    (h : processIndels W kGraph n mNum mDen col ig = some (recs, ext)) :
    ext = (dereplicate W kGraph (ig.map toGroup)).2 ∧
    (∀ r ∈ recs, ∃ kg ∈ (dereplicate W kGraph (ig.map toGroup)).1,
      recOf W kGraph n mNum mDen col ((Assoc.lookup ig (kg.entry, kg.exit)).getD []) = some (some r)) ∧
    (∀ kg ∈ (dereplicate W kGraph (ig.map toGroup)).1, ∃ o,
      recOf W kGraph n mNum mDen col ((Assoc.lookup ig (kg.entry, kg.exit)).getD []) = some o ∧
      ∀ r, o = some r → r ∈ recs) := by
  rw [processIndels_eq] at h
  simp only [Option.bind_eq_some_iff, Option.some.injEq, Prod.mk.injEq] at h
  obtain ⟨recs0, hm, hr, he⟩ := h
  have hperm := List.mergeSort_perm (dereplicate W kGraph (ig.map toGroup)).1
    (fun a b => keyLe (a.entry, a.exit) (b.entry, b.exit))
  refine ⟨he.symm, ?_, ?_⟩
  · intro r hr'
    rw [← hr, List.mem_filterMap] at hr'
    obtain ⟨o, ho, hid⟩ := hr'
    simp only [id] at hid
    subst hid
    obtain ⟨kg, hkg, hf⟩ := mapM_some_mem _ _ _ hm _ ho
    exact ⟨kg, hperm.mem_iff.mp hkg, hf⟩
  · intro kg hkg
    obtain ⟨o, ho, hf⟩ := mapM_some_mem' _ _ _ hm kg (hperm.mem_iff.mpr hkg)
    refine ⟨o, hf, ?_⟩
    intro r hor
    rw [← hr, List.mem_filterMap]
    exact ⟨o, ho, by simp [hor]⟩

/-- a kept group is an input group, found by the lookup of its key -/
theorem kept_lookup (W kGraph : Nat) (ig : List ((Nat × Nat) × List Variant)) (kg : IndelGroup)
    (hkg : kg ∈ (dereplicate W kGraph (ig.map toGroup)).1) :
    ∃ vs, Assoc.lookup ig (kg.entry, kg.exit) = some vs ∧ ((kg.entry, kg.exit), vs) ∈ ig := by
  have hin := (SkaModel.Props.C18.T18_derep W kGraph (ig.map toGroup)).1 kg hkg
  obtain ⟨kv, hkv, hto⟩ := List.mem_map.mp hin
  have hk : (kg.entry, kg.exit) = kv.1 := by rw [← hto]; rfl
  obtain ⟨vs, hvs⟩ := lookup_of_key_mem ig (kg.entry, kg.exit) (by rw [hk]; exact List.mem_map_of_mem hkv)
  exact ⟨vs, hvs, lookup_mem ig _ _ hvs⟩

/-- with exactly two paths, both colour sets exist and are those of the two paths -/
theorem recOf_two (W kGraph n mNum mDen : Nat) (col : Colours) (v0 v1 : Variant) (r : IndelRec)
    (h : recOf W kGraph n mNum mDen col [v0, v1] = some (some r)) :
    ∃ s0 s1, Assoc.lookup col (encodeKmer W (v0.1.take (kGraph + 1))) = some s0 ∧
      Assoc.lookup col (encodeKmer W (v1.1.take (kGraph + 1))) = some s1 ∧
      r.before = v0.1.take kGraph ∧
      r.after = (extractMiddleBases [v0.1, v1.1] kGraph).2 ∧
      ∃ i0 i1, (extractMiddleBases [v0.1, v1.1] kGraph).1 = [i0, i1] ∧
        Genotyped n mNum mDen i0 i1 s0 s1 r := by
  obtain ⟨s0, s1, h0, h1, hb, ha, hg⟩ := recOf_spec W kGraph n mNum mDen col [v0, v1] r h
  cases hl0 : Assoc.lookup col (encodeKmer W (v0.1.take (kGraph + 1))) with
  | none =>
    cases hl1 : Assoc.lookup col (encodeKmer W (v1.1.take (kGraph + 1))) <;>
      simp [hl0, hl1] at h1
  | some a0 =>
    cases hl1 : Assoc.lookup col (encodeKmer W (v1.1.take (kGraph + 1))) with
    | none => simp [hl0, hl1] at h1
    | some a1 =>
      simp [hl0, hl1] at h0 h1
      subst h0; subst h1
      refine ⟨a0, a1, rfl, rfl, hb, ha, _, _, ?_, hg⟩
      simp [extractMiddleBases]

/-! ### classification of the groups (`buildVariantGroups`) -/

/-- classification of a group by its variants: indel -/
def clsIndel (kGraph : Nat) (vs : List Variant) : Bool :=
  !decide (vs.length < 2) &&
    ((vs.length == 2 && (vs.getD 0 ([], [])).1.length != (vs.getD 1 ([], [])).1.length) &&
      vs.any (fun v => decide (v.1.length ≤ 2 * kGraph)))

/-- classification of a group by its variants: SNP group -/
def clsSnp (vs : List Variant) : Bool :=
  !decide (vs.length < 2) &&
    !(vs.length == 2 && (vs.getD 0 ([], [])).1.length != (vs.getD 1 ([], [])).1.length)

/-- all groups found, before classification -/
def builtGroups (W kGraph : Nat) (g0 : Graph) (starts ends : List Nat) (maxDepth : Nat) :
    List ((Nat × Nat) × List Variant) :=
  starts.flatMap (groupsFrom W kGraph (compactGraph g0 starts ends).1 (compactGraph g0 starts ends).2
    starts ends maxDepth)

theorem classify_fold (kGraph : Nat) (l : List ((Nat × Nat) × List Variant)) :
    ∀ acc : List ((Nat × Nat) × List Variant) × List ((Nat × Nat) × List Variant),
    l.foldl (fun (acc : List ((Nat × Nat) × List Variant) × List ((Nat × Nat) × List Variant)) kv =>
      let vs := kv.2
      if vs.length < 2 then acc
      else if vs.length == 2 && (vs.getD 0 ([], [])).1.length != (vs.getD 1 ([], [])).1.length then
        if vs.any (fun v => v.1.length ≤ 2 * kGraph) then (acc.1, acc.2 ++ [kv]) else acc
      else (acc.1 ++ [kv], acc.2)) acc =
    (acc.1 ++ l.filter (fun kv => clsSnp kv.2), acc.2 ++ l.filter (fun kv => clsIndel kGraph kv.2)) := by
  induction l with
  | nil => intro acc; simp
  | cons kv l ih =>
    intro acc
    rw [List.foldl_cons, ih]
    simp only [List.filter_cons, clsSnp, clsIndel]
    by_cases h1 : kv.2.length < 2
    · simp [h1]
    · by_cases h2 : (kv.2.length == 2 && (kv.2.getD 0 ([], [])).1.length != (kv.2.getD 1 ([], [])).1.length) = true
      · by_cases h3 : (kv.2.any (fun v => decide (v.1.length ≤ 2 * kGraph))) = true
        · simp only [h1, h2, h3, if_true, if_false]
          simp
        · simp only [h1, h2, h3, if_true, if_false]
          simp
      · simp only [h1, h2, if_false]
        simp

theorem buildVariantGroups_eq (W kGraph : Nat) (g0 : Graph) (starts ends : List Nat) (maxDepth : Nat) :
    buildVariantGroups W kGraph g0 starts ends maxDepth =
      { snpGroups := (builtGroups W kGraph g0 starts ends maxDepth).filter (fun kv => clsSnp kv.2),
        indelGroups := (builtGroups W kGraph g0 starts ends maxDepth).filter (fun kv => clsIndel kGraph kv.2) } := by
  unfold buildVariantGroups builtGroups
  simp only []
  rw [classify_fold]
  simp


theorem clsIndel_spec (kGraph : Nat) (vs : List Variant) (h : clsIndel kGraph vs = true) :
    ∃ v0 v1, vs = [v0, v1] ∧ v0.1.length ≠ v1.1.length ∧
      (v0.1.length ≤ 2 * kGraph ∨ v1.1.length ≤ 2 * kGraph) := by
  unfold clsIndel at h
  simp only [Bool.and_eq_true, beq_iff_eq, bne_iff_ne] at h
  obtain ⟨_, ⟨hl, hne⟩, hany⟩ := h
  match vs, hl with
  | [v0, v1], _ =>
    refine ⟨v0, v1, rfl, by simpa using hne, ?_⟩
    simpa using hany

theorem clsSnp_spec (vs : List Variant) (h : clsSnp vs = true) : 2 ≤ vs.length := by
  unfold clsSnp at h
  simp only [Bool.and_eq_true, Bool.not_eq_true', decide_eq_false_iff_not] at h
  omega

theorem cls_disjoint (kGraph : Nat) (vs : List Variant) (h : clsSnp vs = true) :
    clsIndel kGraph vs = false := by
  unfold clsSnp at h
  unfold clsIndel
  simp only [Bool.and_eq_true, Bool.not_eq_true'] at h
  rw [h.2]
  simp

/-! keys of the groups -/

theorem pathsFrom_keys_nodup (g : Graph) (comp : List (Nat × List Nat)) (ends : List Nat)
    (maxDepth kmer : Nat) : ((pathsFrom g comp ends maxDepth kmer).map (·.1)).Nodup := by
  unfold pathsFrom
  simp only []
  generalize (succs g kmer).flatMap _ = found
  have : ∀ (l : List (Nat × List Nat)) (acc : List (Nat × List (List Nat))), (Assoc.keys acc).Nodup →
      (Assoc.keys (l.foldl (fun (acc : List (Nat × List (List Nat))) ep =>
        Assoc.upsert acc ep.1 [ep.2] (fun l => l ++ [ep.2])) acc)).Nodup := by
    intro l
    induction l with
    | nil => intro acc h; exact h
    | cons ep l ih =>
      intro acc h
      rw [List.foldl_cons]
      exact ih _ (Assoc.nodup_keys_upsert acc _ _ _ h)
  exact this found [] (by simp [Assoc.keys])

theorem groupsFrom_fold {β : Type} (cond : Nat × List (List Nat) → Bool)
    (G : Nat × List (List Nat) → β) (l : List (Nat × List (List Nat))) :
    ∀ acc : List β, l.foldl (fun acc ep => if cond ep then acc ++ [G ep] else acc) acc =
      acc ++ (l.filter cond).map G := by
  induction l with
  | nil => intro acc; simp
  | cons ep l ih =>
    intro acc
    rw [List.foldl_cons, ih]
    by_cases h : cond ep = true
    · simp [h]
    · simp [h]

/-- every group of one entry node is `((kmer, exit), variants of the paths to exit)` for an entry of
the path container, whose keys are distinct -/
theorem groupsFrom_shape (W kGraph : Nat) (g : Graph) (comp : List (Nat × List Nat)) (starts ends : List Nat)
    (maxDepth kmer : Nat) :
    ∃ (cont : List (Nat × List (List Nat))) (F : Nat × List (List Nat) → List Variant),
      (cont.map (·.1)).Nodup ∧
      groupsFrom W kGraph g comp starts ends maxDepth kmer = cont.map (fun ep => ((kmer, ep.1), F ep)) := by
  unfold groupsFrom
  simp only []
  split
  · rw [groupsFrom_fold (fun ep =>
        ((ep.2.map (fun v => v.getD 1 0)).eraseDups.length > 1 &&
          (ep.2.map (fun v => v.getD (v.length - 2) 0)).eraseDups.length > 1))
        (fun ep => ((kmer, ep.1),
          (if ep.2.length == 2 then ep.2 else ep.2.filter (fun v => v.length == mostCommonLength ep.2)).map
            (buildVariant W kGraph starts ends kmer)))]
    refine ⟨(pathsFrom g comp ends maxDepth kmer).filter _, _, ?_, by rw [List.nil_append]⟩
    exact ((List.filter_sublist (l := pathsFrom g comp ends maxDepth kmer)).map (·.1)).nodup
      (pathsFrom_keys_nodup g comp ends maxDepth kmer)
  · exact ⟨[], fun _ => [], by simp, by simp⟩

theorem groupsFrom_keys (W kGraph : Nat) (g : Graph) (comp : List (Nat × List Nat)) (starts ends : List Nat)
    (maxDepth kmer : Nat) :
    ((groupsFrom W kGraph g comp starts ends maxDepth kmer).map (·.1)).Nodup ∧
    ∀ kv ∈ groupsFrom W kGraph g comp starts ends maxDepth kmer, kv.1.1 = kmer := by
  obtain ⟨cont, F, hnd, heq⟩ := groupsFrom_shape W kGraph g comp starts ends maxDepth kmer
  rw [heq]
  constructor
  · rw [List.map_map]
    have : ((fun (x : (Nat × Nat) × List Variant) => x.1) ∘ fun ep => ((kmer, ep.1), F ep)) =
        (fun (x : Nat) => (kmer, x)) ∘ (fun (ep : Nat × List (List Nat)) => ep.1) := rfl
    rw [this, ← List.map_map]
    exact List.Pairwise.map (fun x => (kmer, x)) (fun a b hab h => hab (by simpa using h)) hnd
  · intro kv hkv
    obtain ⟨ep, _, he⟩ := List.mem_map.mp hkv
    rw [← he]

theorem built_key_unique (W kGraph : Nat) (g0 : Graph) (starts ends : List Nat) (maxDepth : Nat)
    (kv kv' : (Nat × Nat) × List Variant)
    (h : kv ∈ builtGroups W kGraph g0 starts ends maxDepth)
    (h' : kv' ∈ builtGroups W kGraph g0 starts ends maxDepth) (hk : kv.1 = kv'.1) : kv = kv' := by
  unfold builtGroups at h h'
  obtain ⟨k1, _, h1⟩ := List.mem_flatMap.mp h
  obtain ⟨k2, _, h2⟩ := List.mem_flatMap.mp h'
  have e1 := (groupsFrom_keys _ _ _ _ _ _ _ _).2 kv h1
  have e2 := (groupsFrom_keys _ _ _ _ _ _ _ _).2 kv' h2
  have : k1 = k2 := by rw [← e1, ← e2, hk]
  subst this
  exact eq_of_key_eq (·.1) _ (groupsFrom_keys _ _ _ _ _ _ _ _).1 kv kv' h1 h2 hk

theorem built_keys_nodup (W kGraph : Nat) (g0 : Graph) (starts ends : List Nat) (maxDepth : Nat)
    (hs : starts.Nodup) : ((builtGroups W kGraph g0 starts ends maxDepth).map (·.1)).Nodup := by
  unfold builtGroups
  rw [List.map_flatMap]
  unfold List.Nodup
  rw [List.pairwise_flatMap]
  constructor
  · intro a _
    exact (groupsFrom_keys _ _ _ _ _ _ _ _).1
  · refine List.Pairwise.imp ?_ hs
    intro a b hab x hx y hy hxy
    obtain ⟨kv, hkv, rfl⟩ := List.mem_map.mp hx
    obtain ⟨kv', hkv', rfl⟩ := List.mem_map.mp hy
    have e1 := (groupsFrom_keys _ _ _ _ _ _ _ _).2 kv hkv
    have e2 := (groupsFrom_keys _ _ _ _ _ _ _ _).2 kv' hkv'
    exact hab (by rw [← e1, ← e2, hxy])

theorem filter_keys_nodup {α κ : Type} (f : α → κ) (p : α → Bool) (l : List α) (h : (l.map f).Nodup) :
    ((l.filter p).map f).Nodup :=
  ((List.filter_sublist (l := l)).map f).nodup h

/-! ### the entry nodes are distinct -/

theorem foldl_inv {α β : Type} (f : β → α → β) (P : β → Prop) (hf : ∀ b a, P b → P (f b a)) :
    ∀ (l : List α) (b : β), P b → P (l.foldl f b) := by
  intro l
  induction l with
  | nil => intro b hb; exact hb
  | cons a l ih => intro b hb; exact ih _ (hf b a hb)

/-- the graph of `buildGraph` is a map: its keys are distinct -/
theorem buildGraph_keys_nodup (W : Nat) (a : Arr) : ((buildGraph W a).1.map (·.1)).Nodup := by
  unfold buildGraph
  apply foldl_inv (P := fun (acc : Graph × Colours) => (acc.1.map (fun kn => kn.1)).Nodup)
  · intro acc kv hacc
    apply foldl_inv (P := fun (g : Graph) => (g.map (fun kn => kn.1)).Nodup)
    · intro g e hg
      exact Assoc.nodup_keys_upsert g _ _ _ hg
    · exact hacc
  · exact List.nodup_nil

theorem zip_fst_sublist {α β : Type} : ∀ (l : List α) (m : List β), ((l.zip m).map (·.1)).Sublist l := by
  intro l
  induction l with
  | nil => intro m; simp
  | cons x xs ih =>
    intro m
    cases m with
    | nil => simp
    | cons y ys =>
      simp only [List.zip_cons_cons, List.map_cons]
      exact (ih ys).cons_cons x

/-- the entry nodes are distinct when the graph's keys are -/
theorem identifyGoodKmers_nodup (W kGraph : Nat) (g : Graph) (col : Colours) (starts ends : List Nat)
    (h : identifyGoodKmers W kGraph g col = some (starts, ends)) (hg : (g.map (·.1)).Nodup) :
    starts.Nodup := by
  unfold identifyGoodKmers at h
  simp only [Option.bind_eq_bind, Option.bind_eq_some_iff, Option.some.injEq, Prod.mk.injEq] at h
  obtain ⟨flags, _, hs, _⟩ := h
  subst hs
  have h1 : (((g.zip flags).filter (·.2)).map (·.1)).Sublist ((g.zip flags).map (·.1)) :=
    (List.filter_sublist).map _
  have h2 := (h1.trans (zip_fst_sublist g flags)).map (·.1)
  rw [List.map_map] at h2
  exact h2.nodup hg
end SkaModel.LOP
