/-
`finalise`, the link to `Spec.writerChar`/`Spec.writerSpec`, and the induction over the match list.
-/
import SkaModel.Lemmas.AWStep

namespace SkaModel.AW

open SkaModel SkaModel.Spec

variable {ref : List (Array UInt8)} {h : Nat} {ma : Bool}

/-! ### `MatchesOK` -/

theorem MLt.trans {a b c : Match} (h1 : MLt a b) (h2 : MLt b c) : MLt a c := by
  unfold MLt at *; omega

theorem matchesOK_spec : ∀ ms : List Match, MatchesOK ref h ms →
    List.Pairwise MLt ms ∧ ∀ m ∈ ms, Bnd ref h m := by
  intro ms
  induction ms with
  | nil => intro _; exact ⟨List.Pairwise.nil, fun m hm => by cases hm⟩
  | cons m rest ih =>
    cases rest with
    | nil =>
      intro hok
      unfold MatchesOK at hok
      refine ⟨List.pairwise_singleton _ _, ?_⟩
      intro x hx
      rw [List.mem_singleton] at hx; subst hx
      exact hok
    | cons m' rest' =>
      intro hok
      unfold MatchesOK at hok
      obtain ⟨hb, hlt, hrest⟩ := hok
      obtain ⟨hp, hbs⟩ := ih hrest
      constructor
      · rw [List.pairwise_cons]
        refine ⟨?_, hp⟩
        intro a ha
        rcases List.mem_cons.1 ha with rfl | ha
        · exact hlt
        · exact MLt.trans hlt (List.rel_of_pairwise_cons hp ha)
      · intro x hx
        rcases List.mem_cons.1 hx with rfl | hx
        · exact hb
        · exact hbs x hx

theorem mlt_unique : ∀ l : List Match, List.Pairwise MLt l → ∀ x y, x ∈ l → y ∈ l →
    x.1 = y.1 → x.2.1 = y.2.1 → x = y := by
  intro l
  induction l with
  | nil => intro _ x y hx; cases hx
  | cons a l ih =>
    intro hp x y hx hy h1 h2
    rw [List.pairwise_cons] at hp
    rcases List.mem_cons.1 hx with hxa | hx
    · rcases List.mem_cons.1 hy with hya | hy
      · rw [hxa, hya]
      · have := hp.1 y hy; rw [← hxa] at this; unfold MLt at this; omega
    · rcases List.mem_cons.1 hy with hya | hy
      · have := hp.1 x hx; rw [← hya] at this; unfold MLt at this; omega
      · exact ih hp.2 x y hx hy h1 h2

/-! ### The fold over the matches -/

theorem base_new (k : Nat) : Base ref (halfK k) ma [] (AlnWriter.new ref k) ∧
    ModeA (halfK k) [] (AlnWriter.new ref k) ∧ (AlnWriter.new ref k).currChrom = 0 := by
  refine ⟨⟨?_, ?_, rfl, Nat.zero_le _, ?_⟩, ⟨Or.inl rfl, rfl, fun m hm => by cases hm⟩, rfl⟩
  · show (Array.replicate _ GAP).size = _
    rw [Array.size_replicate, total_eq]
  · show 0 = contigOffset ref 0
    rw [off_zero]
  · refine ⟨fun _ _ => False, ?_, ?_⟩
    · intro c p hc hp
      refine ⟨fun hf => hf.elim, fun _ => ?_⟩
      show (Array.replicate _ GAP).getD _ GAP = GAP
      rw [Array.getD_eq_getD_getElem?, Array.getElem?_replicate]
      split <;> rfl
    · intro c p _ _ _
      constructor
      · intro hf; exact hf.elim
      · rintro ⟨⟨m, hm, _⟩, _⟩; cases hm

theorem fold_inv (h1 : 1 ≤ h) : ∀ (rest done : List Match) (w : AlnWriter),
    Base ref h ma done w → (ModeB ref h done w ∨ (ModeA h done w ∧ w.currChrom = 0)) →
    List.Pairwise MLt (done ++ rest) → (∀ m ∈ rest, Bnd ref h m) →
    Base ref h ma (done ++ rest)
      (rest.foldl (fun w m => AlnWriter.writeSplitKmer ref h ma w m.2.1 m.1 m.2.2) w) ∧
    (ModeB ref h (done ++ rest)
      (rest.foldl (fun w m => AlnWriter.writeSplitKmer ref h ma w m.2.1 m.1 m.2.2) w) ∨
     (ModeA h (done ++ rest)
      (rest.foldl (fun w m => AlnWriter.writeSplitKmer ref h ma w m.2.1 m.1 m.2.2) w) ∧
      (rest.foldl (fun w m => AlnWriter.writeSplitKmer ref h ma w m.2.1 m.1 m.2.2) w).currChrom
        = 0)) := by
  intro rest
  induction rest with
  | nil =>
    intro done w hb hmode _ _
    rw [List.append_nil]
    exact ⟨hb, hmode⟩
  | cons m rest ih =>
    intro done w hb hmode hp hbnd
    have hlt : ∀ m' ∈ done, MLt m' m := fun m' hm' =>
      (List.pairwise_append.1 hp).2.2 m' hm' m List.mem_cons_self
    obtain ⟨hb', hB'⟩ := step hb hmode m (hbnd m List.mem_cons_self) hlt h1
    have e : done ++ m :: rest = (done ++ [m]) ++ rest := by
      rw [List.append_assoc]; rfl
    rw [List.foldl_cons, e]
    exact ih (done ++ [m]) _ hb' (Or.inl hB') (by rw [← e]; exact hp)
      (fun x hx => hbnd x (List.mem_cons_of_mem _ hx))

/-! ### Link to `writerChar` -/

theorem find_of_mid {ms : List Match} (hp : List.Pairwise MLt ms) {m : Match} (hm : m ∈ ms) :
    ms.find? (fun x => x.1 == m.1 && x.2.1 == m.2.1) = some m := by
  cases hf : ms.find? (fun x => x.1 == m.1 && x.2.1 == m.2.1) with
  | none =>
    rw [List.find?_eq_none] at hf
    exact absurd (by simp) (hf m hm)
  | some m' =>
    have h1 := List.mem_of_find?_eq_some hf
    have h2 := List.find?_some hf
    simp only [Bool.and_eq_true, beq_iff_eq] at h2
    rw [mlt_unique ms hp m' m h1 hm h2.1 h2.2]

theorem find_of_not_mid {ms : List Match} {c p : Nat} (hn : ¬ IsMid ms c p) :
    ms.find? (fun x => x.1 == c && x.2.1 == p) = none := by
  rw [List.find?_eq_none]
  intro x hx hpx
  simp only [Bool.and_eq_true, beq_iff_eq] at hpx
  exact hn ⟨x, hx, hpx.1, hpx.2⟩

theorem any_iff_cov (ms : List Match) (c p : Nat) :
    ms.any (fun m => m.1 == c && decide (p ≤ m.2.1 + h) && decide (m.2.1 ≤ p + h)) = true ↔
      Cov h ms c p := by
  rw [List.any_eq_true]
  constructor
  · rintro ⟨x, hx, hpx⟩
    simp only [Bool.and_eq_true, beq_iff_eq, decide_eq_true_eq] at hpx
    exact ⟨x, hx, hpx.1.1, hpx.1.2, hpx.2⟩
  · rintro ⟨x, hx, h1, h2, h3⟩
    refine ⟨x, hx, ?_⟩
    simp only [Bool.and_eq_true, beq_iff_eq, decide_eq_true_eq]
    exact ⟨⟨h1, h2⟩, h3⟩

/-- the character of the finalised output at position `p` of contig `c` -/
theorem final_char {ms : List Match} {w : AlnWriter} (reps : List Nat)
    (hb : Base ref h ma ms w) (hmode : ModeA h ms w ∨ ModeB ref h ms w)
    (hp : List.Pairwise MLt ms) (hbnd : ∀ m ∈ ms, Bnd ref h m)
    {c p : Nat} (hc : c < ref.length) (hpc : p < csize ref c) :
    (AlnWriter.finalise ref h reps w).getD (contigOffset ref c + p) GAP =
      writerChar ref h ma reps ms c p := by
  obtain ⟨hb', hcc', _⟩ := fillTo_spec (ma := ma) ref.length (Nat.le_refl _) (ref.length + 1) w hb
    hmode hb.chromLe (by omega)
  unfold AlnWriter.finalise
  simp only []
  generalize AlnWriter.fillTo ref h (ref.length + 1) w ref.length = wf at hb' hcc'
  rw [repFold_getD]
  unfold writerChar
  have hG : GAP = 45 := rfl
  simp only [hG]
  have key : (wf.middleOut.foldl (fun o bp => o.setIfInBounds bp.2 bp.1) wf.seqOut).getD
      (contigOffset ref c + p) 45 =
      (match ms.find? (fun m => m.1 == c && m.2.1 == p) with
        | some m => if isAmbiguous m.2.2 && ma then 78 else m.2.2
        | none =>
          if ms.any (fun m => m.1 == c && decide (p ≤ m.2.1 + h) && decide (m.2.1 ≤ p + h))
          then (ref.getD c #[]).getD p 0 else 45) := by
    have hidx : ∀ x ∈ ms, (midEntry ref ma x).2 = contigOffset ref c + p → x.1 = c ∧ x.2.1 = p := by
      intro x hx hxe
      obtain ⟨_, _, hx3⟩ := hbnd x hx
      have := abs_inj ref (c := x.1) (c' := c) (p := x.2.1) (p' := p) (by omega) hpc
        (by unfold midEntry at hxe; simp only [] at hxe; omega)
      exact this
    by_cases hmid : IsMid ms c p
    · obtain ⟨m, hm, hm1, hm2⟩ := hmid
      subst hm1; subst hm2
      rw [find_of_mid hp hm]
      simp only []
      refine midFold_some _ _ _ _ _ ?_ ?_ ?_
      · rw [hb'.size]; exact abs_lt_total ref hc hpc
      · rw [hb'.mid]
        refine ⟨midEntry ref ma m, List.mem_map.2 ⟨m, hm, rfl⟩, ?_⟩
        unfold midEntry; simp only []; omega
      · rw [hb'.mid]
        intro x hx hxe
        obtain ⟨m', hm', rfl⟩ := List.mem_map.1 hx
        obtain ⟨e1, e2⟩ := hidx m' hm' hxe
        rw [mlt_unique ms hp m' m hm' hm e1 e2]
        rfl
    · rw [find_of_not_mid hmid]
      simp only []
      rw [midFold_none]
      · obtain ⟨R, hH, hR⟩ := hb'.seq
        have hiff := hR c p hc hpc hmid
        have hHc := hH c p hc hpc
        rw [hG] at hHc
        by_cases hcov : Cov h ms c p
        · rw [if_pos ((any_iff_cov ms c p).2 hcov)]
          exact hHc.1 (hiff.2 ⟨hcov, Or.inl (by omega)⟩)
        · rw [if_neg (fun hx => hcov ((any_iff_cov ms c p).1 hx))]
          exact hHc.2 (fun hr => hcov (hiff.1 hr).1)
      · rw [hb'.mid]
        intro x hx hxe
        obtain ⟨m', hm', rfl⟩ := List.mem_map.1 hx
        obtain ⟨e1, e2⟩ := hidx m' hm' hxe
        exact hmid ⟨m', hm', e1, e2⟩
  rw [key]
  rfl

theorem finalise_size {ms : List Match} {w : AlnWriter} (reps : List Nat)
    (hb : Base ref h ma ms w) (hmode : ModeA h ms w ∨ ModeB ref h ms w) :
    (AlnWriter.finalise ref h reps w).size = contigOffset ref ref.length := by
  obtain ⟨hb', _, _⟩ := fillTo_spec (ma := ma) ref.length (Nat.le_refl _) (ref.length + 1) w hb
    hmode hb.chromLe (by omega)
  unfold AlnWriter.finalise
  simp only []
  rw [repFold_size, midFold_size, hb'.size]

/-! ### Flattening -/

theorem off_cons_succ (a : Array UInt8) (s : List (Array UInt8)) (j : Nat) :
    contigOffset (a :: s) (j + 1) = a.size + contigOffset s j := by
  unfold contigOffset
  simp only [List.take_succ_cons, List.map_cons, List.foldl_cons]
  rw [foldl_add_init]; omega

theorem flat_ext : ∀ (suffix : List (Array UInt8)) (n : Nat) (L : List UInt8)
    (g : Nat → Nat → UInt8),
    L.length = contigOffset suffix suffix.length →
    (∀ j p, j < suffix.length → p < csize suffix j →
      L[contigOffset suffix j + p]? = some (g (n + j) p)) →
    L = (suffix.zipIdx n).flatMap (fun ci => (List.range ci.1.size).map (g ci.2)) := by
  intro suffix
  induction suffix with
  | nil =>
    intro n L g hlen _
    rw [List.zipIdx_nil]
    exact List.eq_nil_of_length_eq_zero (by rw [hlen]; rfl)
  | cons a s ih =>
    intro n L g hlen hget
    rw [List.zipIdx_cons, List.flatMap_cons]
    simp only []
    have hlen' : L.length = a.size + contigOffset s s.length := by
      rw [hlen, List.length_cons, off_cons_succ]
    rw [← List.take_append_drop a.size L]
    congr 1
    · apply List.ext_getElem
      · rw [List.length_take, List.length_map, List.length_range]; omega
      · intro i hi1 hi2
        rw [List.length_map, List.length_range] at hi2
        rw [List.getElem_take, List.getElem_map, List.getElem_range]
        have := hget 0 i (Nat.zero_lt_succ _) hi2
        rw [off_zero, Nat.zero_add, Nat.add_zero] at this
        rw [List.getElem?_eq_getElem (by omega)] at this
        exact Option.some.inj this
    · apply ih (n + 1) (L.drop a.size) g
      · rw [List.length_drop]; omega
      · intro j p hj hp
        have := hget (j + 1) p (Nat.succ_lt_succ hj) hp
        rw [off_cons_succ] at this
        rw [List.getElem?_drop, ← Nat.add_assoc, this]
        congr 2; omega

end SkaModel.AW
