/-
`encodeKmer`, `decodeLoop`, and the mask operations, in terms of `packL`.
-/
import SkaModel.Lemmas.Pack

namespace SkaModel

open SkaModel.Spec

/-! ### shifts as arithmetic -/

theorem shl_eq_mul {W x n : Nat} (h : x * 2 ^ n < 2 ^ W) : shl W x n = x * 2 ^ n := by
  rw [shl_of_lt (by rwa [Nat.shiftLeft_eq]), Nat.shiftLeft_eq]

/-- `x << 2` when the result still fits -/
theorem shl_two {W x m : Nat} (hx : x < 4 ^ m) (hW : 2 * (m + 1) ≤ W) : shl W x 2 = 4 * x := by
  rw [shl_eq_mul]
  · omega
  · have : 4 ^ (m + 1) ≤ 2 ^ W := four_pow_le_of hW
    rw [Nat.pow_succ] at this
    omega

theorem or_code {a c : Nat} (hc : c < 4) : 4 * a ||| c = 4 * a + c := by
  rw [show 4 * a = a <<< 2 by rw [Nat.shiftLeft_eq]; omega,
    ← Nat.shiftLeft_add_eq_or_of_lt (i := 2) (by omega)]

/-- `a * 2^n ||| b = a * 2^n + b` for `b < 2^n` -/
theorem mul_pow_or {a b n : Nat} (hb : b < 2 ^ n) : a * 2 ^ n ||| b = a * 2 ^ n + b := by
  rw [← Nat.shiftLeft_eq, ← Nat.shiftLeft_add_eq_or_of_lt hb]

theorem mul_four_pow_or {a b n : Nat} (hb : b < 4 ^ n) : a * 4 ^ n ||| b = a * 4 ^ n + b := by
  rw [four_pow] at *
  exact mul_pow_or hb

/-! ### encode -/

theorem encode_foldl (W : Nat) (s : List UInt8) (r m : Nat) (hr : r < 4 ^ m)
    (hW : 2 * (m + s.length) ≤ W) :
    s.foldl (fun r nt => shl W r 2 ||| code nt) r = r * 4 ^ s.length + packL (s.map code) := by
  induction s generalizing r m with
  | nil => simp [packL]
  | cons b s ih =>
    simp only [List.foldl_cons, List.length_cons, List.map_cons] at *
    rw [shl_two hr (by omega), or_code (code_lt b)]
    have hr' : 4 * r + code b < 4 ^ (m + 1) := by
      have := code_lt b
      rw [Nat.pow_succ]; omega
    rw [ih (4 * r + code b) (m + 1) hr' (by omega), packL_cons, List.length_map, Nat.pow_succ]
    rw [Nat.add_mul, ← Nat.add_assoc]
    congr 2
    rw [Nat.mul_comm 4 r, Nat.mul_assoc, Nat.mul_comm 4]

theorem encodeKmer_eq (W : Nat) (s : List UInt8) (hW : 2 * s.length ≤ W) :
    encodeKmer W s = packL (s.map code) := by
  unfold encodeKmer
  rw [encode_foldl W s 0 0 (by simp) (by omega)]
  simp

/-! ### decode -/

theorem and_three (x : Nat) : x &&& 3 = x % 4 :=
  Nat.and_two_pow_sub_one_eq_mod x 2

theorem decodeLoop_rev (r : List Nat) (hr : Codes r) (y : Nat) (acc : List UInt8) :
    decodeLoop r.length (y * 4 ^ r.length + packL r.reverse) acc
      = r.reverse.map decodeBase ++ acc := by
  induction r generalizing acc with
  | nil => simp [decodeLoop]
  | cons c r ih =>
    have hc := hr.head
    simp only [List.length_cons, List.reverse_cons]
    rw [packL_snoc]
    unfold decodeLoop
    have e : y * 4 ^ (r.length + 1) + (4 * packL r.reverse + c)
        = 4 * (y * 4 ^ r.length + packL r.reverse) + c := by
      rw [Nat.pow_succ, Nat.mul_add, ← Nat.mul_assoc, Nat.mul_comm 4 (y * 4 ^ r.length)]
      rw [Nat.mul_assoc, Nat.add_assoc]
    rw [e, and_three, Nat.shiftRight_eq_div_pow]
    have h1 : (4 * (y * 4 ^ r.length + packL r.reverse) + c) % 4 = c := by omega
    have h2 : (4 * (y * 4 ^ r.length + packL r.reverse) + c) / 2 ^ 2
        = y * 4 ^ r.length + packL r.reverse := by omega
    rw [h1, h2, ih hr.tail]
    simp

theorem decodeLoop_packL (cs : List Nat) (hc : Codes cs) (y : Nat) (acc : List UInt8) :
    decodeLoop cs.length (y * 4 ^ cs.length + packL cs) acc = cs.map decodeBase ++ acc := by
  have := decodeLoop_rev cs.reverse hc.reverse y acc
  rwa [List.reverse_reverse, List.length_reverse] at this

theorem decodeLoop_packL' (cs : List Nat) (hc : Codes cs) (n : Nat) (hn : cs.length = n) :
    decodeLoop n (packL cs) [] = cs.map decodeBase := by
  subst hn
  have := decodeLoop_packL cs hc 0 []
  simpa using this

/-! ### masks -/

theorem and_lowMask (x h : Nat) : x &&& (4 ^ h - 1) = x % 4 ^ h := by
  rw [four_pow]; exact Nat.and_two_pow_sub_one_eq_mod x _

theorem and_upMask (x h : Nat) :
    x &&& ((4 ^ h - 1) * 4 ^ h) = (x / 4 ^ h % 4 ^ h) * 4 ^ h := by
  rw [four_pow]
  apply Nat.eq_of_testBit_eq
  intro i
  rw [← Nat.shiftLeft_eq, ← Nat.shiftLeft_eq, ← Nat.shiftRight_eq_div_pow,
    ← Nat.and_two_pow_sub_one_eq_mod]
  simp only [Nat.testBit_and, Nat.testBit_shiftLeft, Nat.testBit_shiftRight]
  by_cases hi : i ≥ 2 * h
  · simp [hi, show 2 * h + (i - 2 * h) = i by omega]
  · simp [hi]

theorem skaloMask_eq (W n : Nat) (h : n * 2 < W) : skaloMask W n = 4 ^ n - 1 := by
  unfold skaloMask
  rw [shl_one W _ h, two_pow_double]

end SkaModel
