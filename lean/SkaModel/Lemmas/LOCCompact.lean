/-
C17 completeness — generic facts about `compact_graph`: the successor lists after the graph edits, the
walk along a chain of single-successor nodes, which segments are recorded, and a lower bound of the
edge count (fuel).
-/
import SkaModel.Lemmas.LOCFold
import SkaModel.Lemmas.LOPathExplore

namespace SkaModel.LOC

open SkaModel SkaModel.Skalo SkaModel.Props.C17G SkaModel.LOG

/-! ### successor lists after the edits -/

theorem succs_removeEdge (g : Graph) (a b x : Nat) :
    succs (removeEdge g a b) x = if x = a then (succs g x).filter (· != b) else succs g x := by
  unfold succs
  rw [lookup_removeEdge]
  cases Assoc.lookup g x with
  | none => simp
  | some l =>
    by_cases h : x = a
    · simp [h]
    · simp [h]

theorem succs_addEdge (g : Graph) (a b x : Nat) :
    succs (addEdge g a b) x = if a = x then succs g a ++ [b] else succs g x := by
  unfold succs addEdge
  rw [Assoc.lookup_upsert]
  by_cases h : a = x
  · subst h
    simp only [beq_self_eq_true, if_true]
    cases Assoc.lookup g a <;> simp
  · simp [h]

theorem succs_foldRemove_other (ws : List (Nat × Nat)) (x : Nat) (hx : ∀ w ∈ ws, w.1 ≠ x) :
    ∀ g : Graph, succs (ws.foldl (fun g w => removeEdge g w.1 w.2) g) x = succs g x := by
  induction ws with
  | nil => intro g; rfl
  | cons w rest ih =>
    intro g
    rw [List.foldl_cons, ih (fun w' hw' => hx w' (List.mem_cons_of_mem _ hw')), succs_removeEdge,
      if_neg (fun e => hx w (List.mem_cons_self ..) e.symm)]

theorem windows2_fst (l : List Nat) : (windows2 l).map (·.1) = l.dropLast := by
  match l with
  | [] => rfl
  | [_] => rfl
  | x :: y :: rest =>
    rw [windows2, List.map_cons, windows2_fst (y :: rest), List.dropLast_cons_cons]

/-- a node that is neither the source of a segment nor one of its inner nodes keeps its successors -/
theorem succs_applySegment_other (g : Graph) (sv : Nat × List Nat) (x : Nat) (h1 : x ≠ sv.1)
    (h2 : x ∉ sv.2.dropLast.dropLast) : succs (applySegment g sv) x = succs g x := by
  unfold applySegment
  simp only
  rw [succs_addEdge, if_neg (fun e => h1 e.symm), succs_foldRemove_other, succs_removeEdge, if_neg h1]
  intro w hw e
  apply h2
  rw [← windows2_fst, ← e]
  exact List.mem_map.mpr ⟨w, hw, rfl⟩

/-- the source of a segment loses the first node of the walk and gains the last one -/
theorem succs_applySegment_src (g : Graph) (sv : Nat × List Nat) (h2 : sv.1 ∉ sv.2.dropLast.dropLast) :
    succs (applySegment g sv) sv.1 = (succs g sv.1).filter (· != sv.2.headD 0) ++ [sv.2.getLastD 0] := by
  unfold applySegment
  simp only
  rw [succs_addEdge, if_pos rfl, succs_foldRemove_other, succs_removeEdge, if_pos rfl]
  intro w hw e
  apply h2
  rw [← windows2_fst, ← e]
  exact List.mem_map.mpr ⟨w, hw, rfl⟩

theorem succs_foldSegments_other (segs : List (Nat × List Nat)) (x : Nat)
    (h : ∀ sv ∈ segs, x ≠ sv.1 ∧ x ∉ sv.2.dropLast.dropLast) :
    ∀ g : Graph, succs (segs.foldl applySegment g) x = succs g x := by
  induction segs with
  | nil => intro g; rfl
  | cons sv rest ih =>
    intro g
    rw [List.foldl_cons, ih (fun sv' hsv' => h sv' (List.mem_cons_of_mem _ hsv')),
      succs_applySegment_other g sv x (h sv (List.mem_cons_self ..)).1 (h sv (List.mem_cons_self ..)).2]

/-- the source of exactly one segment, inner node of none -/
theorem succs_foldSegments_src (segs : List (Nat × List Nat)) (sv : Nat × List Nat) (hsv : sv ∈ segs)
    (hkeys : (segs.map (·.1)).Nodup) (hin : ∀ sv' ∈ segs, sv.1 ∉ sv'.2.dropLast.dropLast) :
    ∀ g : Graph, succs (segs.foldl applySegment g) sv.1 =
      (succs g sv.1).filter (· != sv.2.headD 0) ++ [sv.2.getLastD 0] := by
  induction segs with
  | nil => simp at hsv
  | cons sv0 rest ih =>
    intro g
    rw [List.map_cons, List.nodup_cons] at hkeys
    rw [List.foldl_cons]
    rcases List.mem_cons.mp hsv with e | hmem
    · subst e
      rw [succs_foldSegments_other rest sv.1 ?_, succs_applySegment_src g sv (hin sv (List.mem_cons_self ..))]
      intro sv' hsv'
      refine ⟨?_, hin sv' (List.mem_cons_of_mem _ hsv')⟩
      intro e
      exact hkeys.1 (List.mem_map.mpr ⟨sv', hsv', e.symm⟩)
    · have hne : sv.1 ≠ sv0.1 := by
        intro e
        exact hkeys.1 (List.mem_map.mpr ⟨sv, hmem, e⟩)
      rw [ih hmem hkeys.2 (fun sv' hsv' => hin sv' (List.mem_cons_of_mem _ hsv')),
        succs_applySegment_other g sv0 sv.1 hne (hin sv0 (List.mem_cons_self ..))]

/-! ### the walk along a chain -/

/-- the walk from `cur` follows the chain `cs` of single-successor nodes: it stops at the last node of
`cs`, which is an entry or exit node or has no unique successor -/
theorem compactWalk_chain (g : Graph) (starts ends : List Nat) :
    ∀ (cs : List Nat) (cur : Nat) (acc : List Nat) (fuel : Nat), cs ≠ [] → cs.length + 1 ≤ fuel →
      Chain1 g (cur :: cs) → (∀ x ∈ cs.dropLast, x ∉ starts ∧ x ∉ ends) →
      (acc ++ cs).Nodup →
      (cs.getLastD 0 ∈ starts ∨ cs.getLastD 0 ∈ ends ∨ ∀ n, Assoc.lookup g (cs.getLastD 0) ≠ some [n]) →
      compactWalk g starts ends fuel cur acc = acc ++ cs := by
  intro cs
  induction cs with
  | nil => intro _ _ _ h; exact absurd rfl h
  | cons c rest ih =>
    intro cur acc fuel _ hf hch hmid hnd hlast
    match fuel, hf with
    | fuel + 1, hf =>
      have hlk : Assoc.lookup g cur = some [c] := hch.1
      have hc : c ∉ acc := by
        intro hc
        rw [List.nodup_append] at hnd
        exact hnd.2.2 c hc c (List.mem_cons_self ..) rfl
      rw [compactWalk, hlk]
      simp only
      rw [if_neg (by simpa using hc)]
      cases rest with
      | nil =>
        simp only [List.getLastD_cons, List.getLastD_nil] at hlast
        rcases hlast with h | h | h
        · rw [if_pos (by simp [h])]
        · rw [if_pos (by simp [h])]
        · have hce : ¬ (ends.contains c || starts.contains c) = true →
              compactWalk g starts ends fuel c (acc ++ [c]) = acc ++ [c] := by
            intro _
            match fuel, hf with
            | fuel + 1, _ =>
              rw [compactWalk]
              split
              · rename_i n hn
                exact absurd hn (h n)
              · rfl
          by_cases he : (ends.contains c || starts.contains c) = true
          · rw [if_pos he]
          · rw [if_neg he, hce he]
      | cons c2 rest2 =>
        have hm := hmid c (by simp [List.dropLast])
        rw [if_neg (by simp [hm.1, hm.2])]
        have := ih c (acc ++ [c]) fuel (by simp) (by simp at hf ⊢; omega) hch.2
          (fun x hx => hmid x (by rw [List.dropLast_cons_cons]; exact List.mem_cons_of_mem _ hx))
          (by simpa using hnd) (by simpa using hlast)
        rw [this]
        simp

/-! ### which segments are recorded -/

theorem mem_upsert_const_self {ν : Type} (d : Assoc Nat ν) (key : Nat) (v : ν) :
    (key, v) ∈ Assoc.upsert d key v (fun _ => v) := by
  induction d with
  | nil => simp [Assoc.upsert]
  | cons e rest ih =>
    obtain ⟨k, w⟩ := e
    simp only [Assoc.upsert]
    by_cases hk : (k == key) = true
    · rw [if_pos hk]
      have : k = key := eq_of_beq hk
      rw [this]
      exact List.mem_cons_self ..
    · rw [if_neg hk]
      exact List.mem_cons_of_mem _ ih

theorem mem_upsert_const_keep {ν : Type} (d : Assoc Nat ν) (key : Nat) (v : ν) (kv : Nat × ν) (h : kv ∈ d)
    (hne : kv.1 ≠ key) : kv ∈ Assoc.upsert d key v (fun _ => v) := by
  induction d with
  | nil => simp at h
  | cons e rest ih =>
    obtain ⟨k, w⟩ := e
    simp only [Assoc.upsert]
    by_cases hk : (k == key) = true
    · rw [if_pos hk]
      rcases List.mem_cons.mp h with h | h
      · exfalso
        have : k = key := eq_of_beq hk
        rw [h] at hne
        exact hne this
      · exact List.mem_cons_of_mem _ h
    · rw [if_neg hk]
      rcases List.mem_cons.mp h with h | h
      · rw [h]; exact List.mem_cons_self ..
      · exact List.mem_cons_of_mem _ (ih h)

/-- every successor of an entry or exit node whose walk has at least two nodes starts a segment -/
theorem compactSegments_complete (g : Graph) (starts ends : List Nat) (e s : Nat) (he : e ∈ starts ++ ends)
    (hs : s ∈ succs g e) (hl : (compactWalk g starts ends (edgeCount g + 1) s []).length > 1) :
    (s, compactWalk g starts ends (edgeCount g + 1) s []) ∈ compactSegments g starts ends := by
  unfold compactSegments
  simp only
  -- invariant: once recorded, a segment stays (the value for a key is always the walk from the key)
  have inner : ∀ (ss : List Nat) (acc : List (Nat × List Nat)),
      ((s, compactWalk g starts ends (edgeCount g + 1) s []) ∈ acc ∨ s ∈ ss) →
      (s, compactWalk g starts ends (edgeCount g + 1) s []) ∈
        ss.foldl (fun acc s =>
          let v := compactWalk g starts ends (edgeCount g + 1) s []
          if v.length > 1 then Assoc.upsert acc s v (fun _ => v) else acc) acc := by
    intro ss
    induction ss with
    | nil =>
      intro acc h
      rcases h with h | h
      · exact h
      · simp at h
    | cons s0 rest ih =>
      intro acc h
      rw [List.foldl_cons]
      apply ih
      by_cases hs0 : s0 = s
      · subst hs0
        left
        simp only
        rw [if_pos hl]
        exact mem_upsert_const_self _ _ _
      · rcases h with h | h
        · left
          simp only
          split
          · exact mem_upsert_const_keep _ _ _ _ h (fun e => hs0 e.symm)
          · exact h
        · right
          rcases List.mem_cons.mp h with h | h
          · exact absurd h.symm hs0
          · exact h
  have outer : ∀ (es : List Nat) (acc : List (Nat × List Nat)),
      ((s, compactWalk g starts ends (edgeCount g + 1) s []) ∈ acc ∨ e ∈ es) →
      (s, compactWalk g starts ends (edgeCount g + 1) s []) ∈
        es.foldl (fun acc kmer => (succs g kmer).foldl (fun acc s =>
          let v := compactWalk g starts ends (edgeCount g + 1) s []
          if v.length > 1 then Assoc.upsert acc s v (fun _ => v) else acc) acc) acc := by
    intro es
    induction es with
    | nil =>
      intro acc h
      rcases h with h | h
      · exact h
      · simp at h
    | cons e0 rest ih =>
      intro acc h
      rw [List.foldl_cons]
      apply ih
      rcases h with h | h
      · left; exact inner _ _ (Or.inl h)
      · rcases List.mem_cons.mp h with h | h
        · left; rw [← h]; exact inner _ _ (Or.inr hs)
        · right; exact h
  exact outer _ _ (Or.inr he)

/-! ### the edge count bounds the number of distinct nodes with a successor -/

theorem succs_cons (kn : Nat × List Nat) (g : Graph) (x : Nat) :
    succs (kn :: g) x = if kn.1 = x then kn.2 else succs g x := by
  unfold succs
  rw [show kn :: g = (kn.1, kn.2) :: g from rfl, Assoc.lookup_cons_L]
  by_cases h : kn.1 = x
  · simp [h]
  · simp [h]

theorem length_le_edgeCount (g : Graph) :
    ∀ xs : List Nat, xs.Nodup → (∀ x ∈ xs, succs g x ≠ []) → xs.length ≤ edgeCount g := by
  induction g with
  | nil =>
    intro xs _ h
    cases xs with
    | nil => simp
    | cons x _ => exact absurd rfl (h x (List.mem_cons_self ..))
  | cons kn g ih =>
    intro xs hnd h
    have hec : edgeCount (kn :: g) = kn.2.length + edgeCount g := by
      simp [edgeCount]
    rw [hec]
    by_cases hk : kn.1 ∈ xs
    · have hlen : kn.2.length ≥ 1 := by
        have := h kn.1 hk
        rw [succs_cons, if_pos rfl] at this
        exact List.length_pos_iff.mpr this
      have hrest := ih (xs.erase kn.1) (hnd.erase _) (by
        intro x hx
        have hx' := (List.Nodup.mem_erase_iff hnd).mp hx
        have := h x hx'.2
        rw [succs_cons, if_neg (fun e => hx'.1 e.symm)] at this
        exact this)
      rw [List.length_erase_of_mem hk] at hrest
      omega
    · have hrest := ih xs hnd (by
        intro x hx
        have := h x hx
        have hne : ¬ kn.1 = x := fun e => hk (by rw [e]; exact hx)
        rw [succs_cons, if_neg hne] at this
        exact this)
      omega

end SkaModel.LOC
