/-
Generic list facts (duplicate removal, counting distinct letters, insertion sort) and the
column helpers of `ska lo` (`check_missing_data`, `complement_snp`, `get_potential_snp`).
-/
import SkaModel.Impl.Skalo
import SkaModel.Lemmas.Assoc

namespace SkaModel.LO

open SkaModel SkaModel.Skalo

/-! ### `eraseDups` -/

theorem nodup_eraseDups_aux {α : Type} [BEq α] [LawfulBEq α] :
    ∀ (n : Nat) (l : List α), l.length ≤ n → l.eraseDups.Nodup := by
  intro n
  induction n with
  | zero =>
    intro l hl
    have : l = [] := List.eq_nil_of_length_eq_zero (by omega)
    subst this
    simp
  | succ n ih =>
    intro l hl
    cases l with
    | nil => simp
    | cons a as =>
      rw [List.eraseDups_cons, List.nodup_cons]
      refine ⟨?_, ih _ ?_⟩
      · intro hm
        rw [List.mem_eraseDups, List.mem_filter] at hm
        simp at hm
      · have := List.length_filter_le (fun b => !b == a) as
        simp only [List.length_cons] at hl
        omega

theorem nodup_eraseDups {α : Type} [BEq α] [LawfulBEq α] (l : List α) : l.eraseDups.Nodup :=
  nodup_eraseDups_aux l.length l (Nat.le_refl _)

theorem eraseDups_of_nodup {α : Type} [BEq α] [LawfulBEq α] :
    ∀ (l : List α), l.Nodup → l.eraseDups = l := by
  intro l
  induction l with
  | nil => intro _; rfl
  | cons a as ih =>
    intro h
    rw [List.nodup_cons] at h
    rw [List.eraseDups_cons]
    have hf : as.filter (fun b => !b == a) = as := by
      rw [List.filter_eq_self]
      intro b hb
      have : b ≠ a := fun e => h.1 (e ▸ hb)
      simpa using this
    rw [hf, ih h.2]

/-- a duplicate-free list has at least two elements iff it has two different members -/
theorem two_le_length_iff {α : Type} {l : List α} (h : l.Nodup) :
    2 ≤ l.length ↔ ∃ a b, a ≠ b ∧ a ∈ l ∧ b ∈ l := by
  constructor
  · intro hl
    match l, h, hl with
    | a :: b :: _, h, _ =>
      rw [List.nodup_cons] at h
      refine ⟨a, b, ?_, List.mem_cons_self, List.mem_cons_of_mem _ List.mem_cons_self⟩
      intro e
      exact h.1 (e ▸ List.mem_cons_self)
  · rintro ⟨a, b, hab, ha, hb⟩
    match l, h, ha, hb with
    | [], _, ha, _ => cases ha
    | [x], _, ha, hb =>
      rw [List.mem_singleton] at ha hb
      exact absurd (ha.trans hb.symm) hab
    | _ :: _ :: _, _, _, _ => simp

/-- the number of letters of a duplicate-free alphabet that occur in `l` is the number of
distinct members of `l` that belong to the alphabet -/
theorem count_present {α : Type} [BEq α] [LawfulBEq α] (alpha : List α) (hnd : alpha.Nodup)
    (p : α → Bool) (hp : ∀ a, p a = true ↔ a ∈ alpha) (l : List α) :
    (alpha.filter (fun a => l.contains a)).length = ((l.filter p).eraseDups).length := by
  apply List.Perm.length_eq
  rw [List.perm_ext_iff_of_nodup (List.Pairwise.filter _ hnd) (nodup_eraseDups _)]
  intro a
  rw [List.mem_filter, List.mem_eraseDups, List.mem_filter, List.contains_iff_mem, hp]
  exact And.comm

/-! ### insertion sort -/

theorem insertByKey_perm {α : Type} (f : α → Nat) (x : α) (l : List α) :
    (insertByKey f x l).Perm (x :: l) := by
  induction l with
  | nil => exact List.Perm.refl _
  | cons y ys ih =>
    unfold insertByKey
    by_cases h : f x ≤ f y
    · rw [if_pos h]
    · rw [if_neg h]
      exact ((List.Perm.cons y ih).trans (List.Perm.swap x y ys))

theorem sortByKey_perm_self {α : Type} (f : α → Nat) (l : List α) : (sortByKey f l).Perm l := by
  induction l with
  | nil => exact List.Perm.refl _
  | cons x xs ih =>
    rw [sortByKey_cons]
    exact (insertByKey_perm f x _).trans (List.Perm.cons x ih)

theorem insertByKey_sorted {α : Type} (f : α → Nat) (x : α) (l : List α)
    (h : l.Pairwise (fun a b => f a ≤ f b)) :
    (insertByKey f x l).Pairwise (fun a b => f a ≤ f b) := by
  induction l with
  | nil => simp [insertByKey]
  | cons y ys ih =>
    rw [List.pairwise_cons] at h
    unfold insertByKey
    by_cases hxy : f x ≤ f y
    · rw [if_pos hxy, List.pairwise_cons]
      refine ⟨?_, List.pairwise_cons.2 h⟩
      intro a ha
      rcases List.mem_cons.1 ha with rfl | ha
      · exact hxy
      · exact Nat.le_trans hxy (h.1 a ha)
    · rw [if_neg hxy, List.pairwise_cons]
      refine ⟨?_, ih h.2⟩
      intro a ha
      rcases (mem_insertByKey f x ys a).1 ha with rfl | ha
      · omega
      · exact h.1 a ha

theorem sortByKey_sorted {α : Type} (f : α → Nat) (l : List α) :
    (sortByKey f l).Pairwise (fun a b => f a ≤ f b) := by
  induction l with
  | nil => simp [sortByKey]
  | cons x xs ih => rw [sortByKey_cons]; exact insertByKey_sorted f x _ ih

/-- sorting a duplicate-free list of numbers gives a strictly increasing list -/
theorem sortByKey_id_strict (l : List Nat) (h : l.Nodup) :
    (sortByKey id l).Pairwise (fun a b => a < b) := by
  have hs := sortByKey_sorted id l
  have hn : (sortByKey id l).Nodup := ((sortByKey_perm_self id l).nodup_iff).2 h
  exact (hs.and hn).imp (fun {a b} hab => by
    have h1 : a ≤ b := hab.1
    have h2 : a ≠ b := hab.2
    omega)

/-! ### `check_missing_data` -/

theorem isACGT_iff (b : UInt8) : isACGT b = true ↔ b ∈ ([65, 84, 71, 67] : List UInt8) := by
  simp only [isACGT, Bool.or_eq_true, beq_iff_eq, List.mem_cons, List.not_mem_nil, or_false]
  constructor
  · rintro (((h | h) | h) | h) <;> simp [h]
  · rintro (h | h | h | h) <;> simp [h]

theorem length_filter_not {α : Type} (p : α → Bool) (l : List α) :
    (l.filter (fun b => !p b)).length = l.length - (l.filter p).length := by
  induction l with
  | nil => rfl
  | cons a as ih =>
    have hle := List.length_filter_le p as
    by_cases h : p a = true
    · simp only [List.filter_cons, h, Bool.not_true, if_pos, List.length_cons]
      simp only [Bool.false_eq_true, if_false]
      omega
    · have h' : p a = false := by simpa using h
      simp only [List.filter_cons, h', Bool.not_false, if_pos, List.length_cons]
      simp only [Bool.false_eq_true, if_false]
      omega

/-- the acceptance flag: at least two distinct A/C/G/T alleles -/
theorem check_fst (col : List UInt8) :
    (checkMissingData col).1 = true ↔ 2 ≤ ((col.filter isACGT).eraseDups).length := by
  have h := count_present ([65, 84, 71, 67] : List UInt8) (by decide) isACGT isACGT_iff col
  unfold checkMissingData
  simp only [decide_eq_true_eq, ge_iff_le]
  rw [h]

theorem check_snd (col : List UInt8) :
    (checkMissingData col).2 = col.length - (col.filter isACGT).length := by
  unfold checkMissingData
  exact length_filter_not isACGT col

/-- two different A/C/G/T letters occur -/
theorem check_fst_exists (col : List UInt8) :
    (checkMissingData col).1 = true ↔
      ∃ a b, a ≠ b ∧ isACGT a = true ∧ isACGT b = true ∧ a ∈ col ∧ b ∈ col := by
  rw [check_fst, two_le_length_iff (nodup_eraseDups _)]
  constructor
  · rintro ⟨a, b, hab, ha, hb⟩
    rw [List.mem_eraseDups, List.mem_filter] at ha hb
    exact ⟨a, b, hab, ha.2, hb.2, ha.1, hb.1⟩
  · rintro ⟨a, b, hab, ha, hb, hac, hbc⟩
    refine ⟨a, b, hab, ?_, ?_⟩ <;> rw [List.mem_eraseDups, List.mem_filter]
    · exact ⟨hac, ha⟩
    · exact ⟨hbc, hb⟩

end SkaModel.LO
