/-
CBOR layer of the `.skf` model: numeric facts about big-endian bytes, the
head round trip, and prefix-freeness of heads.
-/
import SkaModel.Impl.Skf

namespace SkaModel.CB

open SkaModel SkaModel.Cbor

theorem beBytes_length (n x : Nat) : (beBytes n x).length = n := by
  induction n generalizing x with
  | zero => simp [beBytes]
  | succ n ih => simp [beBytes, ih]

theorem beNat_snoc (l : List UInt8) (b : UInt8) : beNat (l ++ [b]) = beNat l * 256 + b.toNat := by
  simp [beNat, List.foldl_append]

theorem beNat_beBytes (n x : Nat) (h : x < 256 ^ n) : beNat (beBytes n x) = x := by
  induction n generalizing x with
  | zero =>
    have : x = 0 := by simpa using h
    simp [beBytes, beNat, this]
  | succ n ih =>
    rw [beBytes, beNat_snoc, ih]
    · simp
      omega
    · rw [Nat.pow_succ] at h
      omega

theorem beNat_cons_zero (l : List UInt8) : beNat (0 :: l) = beNat l := by
  simp [beNat]

theorem beNat_dropWhile_zero (l : List UInt8) : beNat (l.dropWhile (· == 0)) = beNat l := by
  induction l with
  | nil => rfl
  | cons b l ih =>
    by_cases hb : b = 0
    · subst hb
      rw [List.dropWhile_cons]
      simp only [beq_self_eq_true, if_true]
      rw [ih, beNat_cons_zero]
    · rw [List.dropWhile_cons]
      simp [hb]

theorem minBe_length_le (x : Nat) : (minBe x).length ≤ 16 := by
  have h := (List.dropWhile_sublist (l := beBytes 16 x) (· == 0)).length_le
  rw [beBytes_length] at h
  exact h

theorem beNat_minBe (x : Nat) (h : x < 2 ^ 128) : beNat (minBe x) = x := by
  rw [minBe, beNat_dropWhile_zero, beNat_beBytes]
  exact h

/-- number of argument bytes following an initial byte with additional information `ai` -/
def argLen (ai : Nat) : Nat :=
  if ai == 24 then 1 else if ai == 25 then 2 else if ai == 26 then 4 else if ai == 27 then 8 else 0

theorem parseHead_cons (b : UInt8) (l : List UInt8) :
    parseHead (b :: l) =
      if b.toNat % 32 < 24 then some (b.toNat / 32, b.toNat % 32, l)
      else if argLen (b.toNat % 32) == 0 then none
      else if l.length < argLen (b.toNat % 32) then none
      else some (b.toNat / 32, beNat (l.take (argLen (b.toNat % 32))), l.drop (argLen (b.toNat % 32))) := by
  rfl

/-- the shape of a head: one initial byte, then `argLen` bytes of argument -/
theorem head_shape (m n : Nat) (hm : m < 8) (hn : n < 2 ^ 64) :
    ∃ (b : UInt8) (arg : List UInt8), head m n = b :: arg ∧ b.toNat / 32 = m ∧
      ((b.toNat % 32 < 24 ∧ arg = [] ∧ b.toNat % 32 = n) ∨
       (24 ≤ b.toNat % 32 ∧ argLen (b.toNat % 32) ≠ 0 ∧ arg.length = argLen (b.toNat % 32) ∧ beNat arg = n)) := by
  unfold head
  split
  · refine ⟨_, _, rfl, ?_, Or.inl ⟨?_, rfl, ?_⟩⟩ <;> simp <;> omega
  split
  · refine ⟨_, [UInt8.ofNat n], rfl, ?_, Or.inr ?_⟩
    · simp <;> omega
    · have : (UInt8.ofNat (m * 32 + 24)).toNat % 32 = 24 := by simp <;> omega
      rw [this]
      refine ⟨by omega, by decide, by simp [argLen], ?_⟩
      simp [beNat]; omega
  split
  · refine ⟨_, _, rfl, ?_, Or.inr ?_⟩
    · simp <;> omega
    · have : (UInt8.ofNat (m * 32 + 25)).toNat % 32 = 25 := by simp <;> omega
      rw [this]
      exact ⟨by omega, by decide, by simp [argLen, beBytes_length], beNat_beBytes 2 n (by omega)⟩
  split
  · refine ⟨_, _, rfl, ?_, Or.inr ?_⟩
    · simp <;> omega
    · have : (UInt8.ofNat (m * 32 + 26)).toNat % 32 = 26 := by simp <;> omega
      rw [this]
      exact ⟨by omega, by decide, by simp [argLen, beBytes_length], beNat_beBytes 4 n (by omega)⟩
  · refine ⟨_, _, rfl, ?_, Or.inr ?_⟩
    · simp <;> omega
    · have : (UInt8.ofNat (m * 32 + 27)).toNat % 32 = 27 := by simp <;> omega
      rw [this]
      exact ⟨by omega, by decide, by simp [argLen, beBytes_length], beNat_beBytes 8 n (by omega)⟩

theorem parseHead_head (m n : Nat) (rest : List UInt8) (hm : m < 8) (hn : n < 2 ^ 64) :
    parseHead (head m n ++ rest) = some (m, n, rest) := by
  obtain ⟨b, arg, he, hb, h⟩ := head_shape m n hm hn
  rw [he, List.cons_append, parseHead_cons]
  rcases h with ⟨h1, h2, h3⟩ | ⟨h1, h2, h3, h4⟩
  · rw [if_pos h1]; simp [h2, h3, hb]
  · have h1' : ¬ b.toNat % 32 < 24 := by omega
    have h5 : ¬ (arg ++ rest).length < argLen (b.toNat % 32) := by simp [h3]
    simp only [h1', if_false, beq_iff_eq, h2, h5]
    rw [← h3]
    simp [hb, h4]

/-- heads are prefix-free: a proper prefix of a head is not a head -/
theorem parseHead_prefix (m n : Nat) (q t : List UInt8) (hm : m < 8) (hn : n < 2 ^ 64)
    (hq : q ++ t = head m n) (ht : t ≠ []) : parseHead q = none := by
  obtain ⟨b, arg, he, hb, h⟩ := head_shape m n hm hn
  rw [he] at hq
  cases q with
  | nil => rfl
  | cons c q =>
    rw [List.cons_append] at hq
    injection hq with hc hq
    subst hc
    rw [parseHead_cons]
    rcases h with ⟨h1, h2, h3⟩ | ⟨h1, h2, h3, h4⟩
    · subst h2
      simp at hq
      exact absurd hq.2 ht
    · have h1' : ¬ c.toNat % 32 < 24 := by omega
      have hl : q.length < argLen (c.toNat % 32) := by
        rw [← h3, ← hq]
        have : 0 < t.length := List.length_pos_iff.mpr ht
        simp; omega
      simp [h1', h2, hl]

end SkaModel.CB
