/-
Reference split k-mers of `RefSka.new` as a function of the specification's windows:
`contigKmers_spec`, the list of all reference k-mers, its membership
characterisation and its ordering.
-/
import SkaModel.Impl.RefSka
import SkaModel.Spec.MapSpec
import SkaModel.Spec.WriterSpec
import SkaModel.Props.C01Dict
import SkaModel.Lemmas.MaskOf

namespace SkaModel.RM

open SkaModel SkaModel.Spec SkaModel.Props.C16 SkaModel.Props.C01

/-- the reference k-mer of the window starting at `j` of contig number `chrom` -/
def mkRK (k : Nat) (rc : Bool) (chrom : Nat) (r : Array UInt8) (j : Nat) : RefKmer :=
  { kmer := (obs k rc r j).1, base := (obs k rc r j).2.1, pos := j + halfK k, chrom := chrom,
    rc := (obs k rc r j).2.2 }

/-- **contigKmers_spec.** -/
theorem contigKmers_spec (W k : Nat) (rc : Bool) (hk : ValidK k) (hw : WidthOk W k)
    (chrom : Nat) (r : Array UInt8) :
    RefSka.contigKmers W k rc chrom r = (windows k r).map (fun j =>
      let o := obs k rc r j
      { kmer := o.1, base := o.2.1, pos := j + halfK k, chrom := chrom, rc := o.2.2 }) := by
  have h := T01_iter W k rc hk hw r
  unfold RefSka.contigKmers
  show List.map (fun s => ((fun (t : (Nat × Nat × Bool) × Nat × Bool) =>
      ({ kmer := t.1.1, base := t.1.2.1, pos := t.2.1, chrom := chrom, rc := t.1.2.2 } : RefKmer)) ∘
      (fun s => (SKConf.currKmer { W := W, k := k, rc := rc, seq := r } s,
        SKConf.middlePos { W := W, k := k, rc := rc, seq := r } s,
        SKConf.selfPalindrome { W := W, k := k, rc := rc, seq := r } s))) s) _ = _
  rw [← List.map_map, h, List.map_map]
  rfl

theorem contigKmers_eq (W k : Nat) (rc : Bool) (hk : ValidK k) (hw : WidthOk W k)
    (chrom : Nat) (r : Array UInt8) :
    RefSka.contigKmers W k rc chrom r = (windows k r).map (mkRK k rc chrom r) :=
  contigKmers_spec W k rc hk hw chrom r

/-- all reference k-mers, contigs numbered from `n` -/
def kmersFrom (k : Nat) (rc : Bool) (n : Nat) (ref : List (Array UInt8)) : List RefKmer :=
  (ref.zipIdx n).flatMap (fun ci => (windows k ci.1).map (mkRK k rc ci.2 ci.1))

theorem new_kmers_eq (W k : Nat) (rc : Bool) (hk : ValidK k) (hw : WidthOk W k)
    (ref : List (Array UInt8)) :
    (ref.zipIdx.map (fun ci => RefSka.contigKmers W k rc ci.2 ci.1)).flatten = kmersFrom k rc 0 ref := by
  unfold kmersFrom
  rw [List.flatMap_def]
  congr 1
  apply List.map_congr_left
  intro ci _
  exact contigKmers_eq W k rc hk hw ci.2 ci.1

theorem kmersFrom_nil (k : Nat) (rc : Bool) (n : Nat) : kmersFrom k rc n [] = [] := rfl

theorem kmersFrom_cons (k : Nat) (rc : Bool) (n : Nat) (c : Array UInt8) (ref : List (Array UInt8)) :
    kmersFrom k rc n (c :: ref) = (windows k c).map (mkRK k rc n c) ++ kmersFrom k rc (n + 1) ref := by
  unfold kmersFrom
  rw [List.zipIdx_cons, List.flatMap_cons]

/-- membership in the list of reference k-mers -/
theorem mem_kmersFrom (k : Nat) (rc : Bool) (n : Nat) (ref : List (Array UInt8)) (rk : RefKmer) :
    rk ∈ kmersFrom k rc n ref ↔
      ∃ i c j, ref[i]? = some c ∧ j ∈ windows k c ∧ rk = mkRK k rc (n + i) c j := by
  induction ref generalizing n with
  | nil => simp [kmersFrom_nil]
  | cons c ref ih =>
    rw [kmersFrom_cons, List.mem_append, ih, List.mem_map]
    constructor
    · rintro (⟨j, hj, rfl⟩ | ⟨i, c', j, hi, hj, rfl⟩)
      · exact ⟨0, c, j, rfl, hj, rfl⟩
      · refine ⟨i + 1, c', j, by simpa using hi, hj, ?_⟩
        rw [show n + (i + 1) = n + 1 + i by omega]
    · rintro ⟨i, c', j, hi, hj, rfl⟩
      cases i with
      | zero =>
        simp only [List.getElem?_cons_zero, Option.some.injEq] at hi
        subst hi
        exact Or.inl ⟨j, hj, rfl⟩
      | succ i =>
        refine Or.inr ⟨i, c', j, by simpa using hi, hj, ?_⟩
        rw [show n + (i + 1) = n + 1 + i by omega]

/-- keys of the reference k-mers are the specification's `refKeys` -/
theorem kmersFrom_keys (k : Nat) (rc : Bool) (n : Nat) (ref : List (Array UInt8)) :
    (kmersFrom k rc n ref).map (·.kmer) = refKeys k rc ref := by
  induction ref generalizing n with
  | nil => rfl
  | cons c ref ih =>
    rw [kmersFrom_cons, List.map_append, ih, List.map_map]
    unfold refKeys
    rw [List.flatMap_cons]
    rfl

/-- lexicographic order on (contig, position) -/
def RKlt (a b : RefKmer) : Prop := a.chrom < b.chrom ∨ (a.chrom = b.chrom ∧ a.pos < b.pos)

theorem windowsBy_pairwise (k len : Nat) (ok : Nat → Bool) :
    (windowsBy k len ok).Pairwise (· < ·) := by
  unfold windowsBy
  exact List.Pairwise.sublist List.filter_sublist List.pairwise_lt_range

theorem windows_pairwise (k : Nat) (c : Array UInt8) : (windows k c).Pairwise (· < ·) :=
  windowsBy_pairwise _ _ _

theorem kmersFrom_pairwise (k : Nat) (rc : Bool) (n : Nat) (ref : List (Array UInt8)) :
    (kmersFrom k rc n ref).Pairwise RKlt := by
  induction ref generalizing n with
  | nil => exact List.Pairwise.nil
  | cons c ref ih =>
    rw [kmersFrom_cons, List.pairwise_append]
    refine ⟨?_, ih (n + 1), ?_⟩
    · rw [List.pairwise_map]
      refine List.Pairwise.imp ?_ (windows_pairwise k c)
      intro a b hab
      exact Or.inr ⟨rfl, by show a + halfK k < b + halfK k; omega⟩
    · intro a ha b hb
      rw [List.mem_map] at ha
      obtain ⟨j, _, rfl⟩ := ha
      rw [mem_kmersFrom] at hb
      obtain ⟨i, c', j', _, _, rfl⟩ := hb
      exact Or.inl (by show n < n + 1 + i; omega)

end SkaModel.RM
