/-
Helper lemmas for the end-to-end theorems (`Props/EndToEnd.lean`), part 2:
the rows of `Spec.specTable`, and its behaviour under column concatenation and
column selection.
-/
import SkaModel.Spec.BuildTable
import SkaModel.Lemmas.E2EBuild
import SkaModel.Lemmas.TableLemmas
import SkaModel.Lemmas.DeleteLemmas
import SkaModel.Lemmas.SNPRows

namespace SkaModel.E2E

open SkaModel SkaModel.Spec SkaModel.Props.C16

/-! ### cells -/

theorem letterOfMask_ne_gap (m : Nat) : letterOfMask m ≠ gap := by
  unfold letterOfMask
  split <;> decide

theorem cellOfObs_eq (o : List (Nat × Nat)) (key : Nat) :
    cellOfObs o key = if maskOf o key = 0 then gap else letterOfMask (maskOf o key) := by
  unfold cellOfObs
  by_cases h : maskOf o key = 0
  · simp [h]
  · simp [h]

theorem cellFor_eq (k : Nat) (rc : Bool) (recs : List (Array UInt8)) (key : Nat) :
    cellFor k rc recs key
      = if maskFor k rc recs key = 0 then gap else letterOfMask (maskFor k rc recs key) :=
  cellOfObs_eq _ key

theorem cellFor_eq_gap_iff (k : Nat) (rc : Bool) (recs : List (Array UInt8)) (key : Nat) :
    cellFor k rc recs key = gap ↔ maskFor k rc recs key = 0 := by
  rw [cellFor_eq]
  by_cases h : maskFor k rc recs key = 0
  · simp [h]
  · rw [if_neg h]
    exact ⟨fun e => absurd e (letterOfMask_ne_gap _), fun e => absurd e h⟩

theorem cellFor_nil (k : Nat) (rc : Bool) (key : Nat) : cellFor k rc [] key = gap := rfl

/-- the base set of a key is a 4-bit mask -/
theorem maskFor_lt (k : Nat) (rc : Bool) (recs : List (Array UInt8)) (key : Nat) :
    maskFor k rc recs key < 16 := by
  unfold maskFor
  rw [Props.C01.observations_eq]
  exact (maskOf_bounds (Props.C01.obsT_wf k rc recs) key).1

theorem letter_ge_fin : ∀ m : Fin 16, m.val ≠ 0 → max (letterOfMask m.val) GAP = letterOfMask m.val := by
  decide

theorem max_letter {m : Nat} (h : m < 16) (h0 : m ≠ 0) : max (letterOfMask m) GAP = letterOfMask m :=
  letter_ge_fin ⟨m, h⟩ h0

/-- the cell `MergeSkaArray::new` writes for the byte the joint dictionary holds
(the sample's letter, 0 when the sample lacks the k-mer) is the specification's cell -/
theorem max_dictLookup (k : Nat) (rc : Bool) (recs : List (Array UInt8)) (key : Nat) :
    max ((dictLookup k rc recs key).getD 0) GAP = cellFor k rc recs key := by
  rw [cellFor_eq]
  unfold dictLookup
  by_cases h : maskFor k rc recs key = 0
  · rw [if_pos h, if_pos h]; rfl
  · rw [if_neg h, if_neg h]
    exact max_letter (maskFor_lt k rc recs key) h

/-! ### rows of `specTable` -/

/-- the row of a key: one cell per sample -/
def cellRow (k : Nat) (rc : Bool) (samples : List (List (Array UInt8))) (key : Nat) : List UInt8 :=
  samples.map (fun recs => cellFor k rc recs key)

theorem specTable_rows (k : Nat) (rc : Bool) (names : List String)
    (samples : List (List (Array UInt8))) :
    (specTable k rc names samples).rows
      = (allKeys k rc samples).map (fun key => (key, cellRow k rc samples key)) := by
  simp only [specTable, allKeys, cellRow, cellFor, List.flatMap_map, List.map_map, Function.comp_def]

theorem specTable_names (k : Nat) (rc : Bool) (names : List String)
    (samples : List (List (Array UInt8))) : (specTable k rc names samples).names = names := rfl

theorem specTable_keys (k : Nat) (rc : Bool) (names : List String)
    (samples : List (List (Array UInt8))) :
    (specTable k rc names samples).keys = allKeys k rc samples := by
  unfold Table.keys
  rw [specTable_rows, List.map_map]
  exact List.map_id' _

theorem allKeys_nodup (k : Nat) (rc : Bool) (samples : List (List (Array UInt8))) :
    (allKeys k rc samples).Nodup := SNP.nodup_eraseDups _

theorem mem_allKeys (k : Nat) (rc : Bool) (samples : List (List (Array UInt8))) (key : Nat) :
    key ∈ allKeys k rc samples ↔ ∃ recs ∈ samples, maskFor k rc recs key ≠ 0 := by
  unfold allKeys
  rw [List.mem_eraseDups, List.mem_flatMap]
  constructor
  · rintro ⟨recs, hr, hm⟩
    obtain ⟨o, ho, rfl⟩ := List.mem_map.1 hm
    exact ⟨recs, hr, (Props.C01.maskFor_ne_zero_iff k rc recs o.1).2 ⟨o, ho, rfl⟩⟩
  · rintro ⟨recs, hr, h0⟩
    obtain ⟨o, ho, rfl⟩ := (Props.C01.maskFor_ne_zero_iff k rc recs key).1 h0
    exact ⟨recs, hr, List.mem_map.2 ⟨o, ho, rfl⟩⟩

theorem cellRow_length (k : Nat) (rc : Bool) (samples : List (List (Array UInt8))) (key : Nat) :
    (cellRow k rc samples key).length = samples.length := by
  unfold cellRow; rw [List.length_map]

theorem cellRow_append (k : Nat) (rc : Bool) (A B : List (List (Array UInt8))) (key : Nat) :
    cellRow k rc (A ++ B) key = cellRow k rc A key ++ cellRow k rc B key := by
  unfold cellRow; rw [List.map_append]

/-- a key that no sample has gives the all-gap row -/
theorem cellRow_of_not_mem (k : Nat) (rc : Bool) (samples : List (List (Array UInt8))) (key : Nat)
    (h : key ∉ allKeys k rc samples) :
    cellRow k rc samples key = List.replicate samples.length gap := by
  rw [List.eq_replicate_iff]
  refine ⟨cellRow_length k rc samples key, ?_⟩
  intro b hb
  unfold cellRow at hb
  obtain ⟨recs, hr, rfl⟩ := List.mem_map.1 hb
  rw [cellFor_eq_gap_iff]
  apply Classical.byContradiction
  intro h0
  exact h ((mem_allKeys k rc samples key).2 ⟨recs, hr, h0⟩)

theorem specTable_lookupRow (k : Nat) (rc : Bool) (names : List String)
    (samples : List (List (Array UInt8))) (key : Nat) :
    (specTable k rc names samples).lookupRow key
      = if key ∈ allKeys k rc samples then some (cellRow k rc samples key) else none := by
  unfold Table.lookupRow
  rw [specTable_rows]
  exact Assoc.lookup_map_keys _ _ key

/-- the row `concat` uses for a key: the stored row, or gaps -/
theorem specTable_rowOrGaps (k : Nat) (rc : Bool) (names : List String)
    (samples : List (List (Array UInt8))) (hlen : names.length = samples.length) (key : Nat) :
    ((specTable k rc names samples).lookupRow key).getD
        (List.replicate (specTable k rc names samples).width gap)
      = cellRow k rc samples key := by
  rw [specTable_lookupRow]
  by_cases h : key ∈ allKeys k rc samples
  · rw [if_pos h]; rfl
  · rw [if_neg h, cellRow_of_not_mem k rc samples key h]
    show List.replicate names.length gap = _
    rw [hlen]

theorem specTable_wf (k : Nat) (rc : Bool) (names : List String)
    (samples : List (List (Array UInt8))) (hlen : names.length = samples.length) :
    Table.WF (specTable k rc names samples) := by
  constructor
  · intro r hr
    rw [specTable_rows] at hr
    obtain ⟨key, _, rfl⟩ := List.mem_map.1 hr
    show (cellRow k rc samples key).length = names.length
    rw [cellRow_length, hlen]
  · have := specTable_keys k rc names samples
    unfold Table.keys at this
    rw [this]
    exact allKeys_nodup k rc samples

/-! ### concatenation: merging = building together -/

theorem mem_allKeys_append (k : Nat) (rc : Bool) (A B : List (List (Array UInt8))) (key : Nat) :
    key ∈ allKeys k rc (A ++ B) ↔ key ∈ allKeys k rc A ∨ key ∈ allKeys k rc B := by
  rw [mem_allKeys, mem_allKeys, mem_allKeys]
  constructor
  · rintro ⟨recs, hr, h0⟩
    rcases List.mem_append.1 hr with h | h
    · exact Or.inl ⟨recs, h, h0⟩
    · exact Or.inr ⟨recs, h, h0⟩
  · rintro (⟨recs, hr, h0⟩ | ⟨recs, hr, h0⟩)
    · exact ⟨recs, List.mem_append_left _ hr, h0⟩
    · exact ⟨recs, List.mem_append_right _ hr, h0⟩

theorem specTable_concat (k : Nat) (rc : Bool) (namesA namesB : List String)
    (A B : List (List (Array UInt8))) (hA : namesA.length = A.length) (hB : namesB.length = B.length) :
    ((specTable k rc namesA A).concat (specTable k rc namesB B)).Equiv
      (specTable k rc (namesA ++ namesB) (A ++ B)) := by
  refine ⟨rfl, ?_⟩
  have hkeys := Table.concat_keys (specTable k rc namesA A) (specTable k rc namesB B)
  have hnd : ((specTable k rc namesA A).concat (specTable k rc namesB B)).keys.Nodup :=
    Table.concat_keys_nodup _ _ (by rw [specTable_keys]; exact allKeys_nodup k rc A)
      (by rw [specTable_keys]; exact allKeys_nodup k rc B)
  have hmem := Table.mem_concat_keys (specTable k rc namesA A) (specTable k rc namesB B)
  rw [hkeys] at hnd hmem
  rw [specTable_rows]
  show (List.map _ _).Perm _
  apply perm_map_of_nodup_mem _ _ hnd (allKeys_nodup k rc (A ++ B))
  · intro key
    rw [hmem key, specTable_keys, specTable_keys, mem_allKeys_append]
  · intro key _
    show (key, _) = (key, _)
    rw [specTable_rowOrGaps k rc namesA A hA, specTable_rowOrGaps k rc namesB B hB, cellRow_append]

/-! ### column selection: deleting = building the rest -/

theorem cellRow_getD (k : Nat) (rc : Bool) (samples : List (List (Array UInt8))) (key i : Nat) :
    (cellRow k rc samples key).getD i gap = cellFor k rc (samples.getD i []) key := by
  unfold cellRow
  rw [List.getD_eq_getElem?_getD, List.getD_eq_getElem?_getD, List.getElem?_map]
  cases samples[i]? with
  | none => rfl
  | some recs => rfl

theorem cellRow_select (k : Nat) (rc : Bool) (samples : List (List (Array UInt8))) (idx : List Nat)
    (key : Nat) :
    idx.map (fun i => (cellRow k rc samples key).getD i gap)
      = cellRow k rc (idx.map (fun i => samples.getD i [])) key := by
  unfold cellRow
  rw [List.map_map]
  apply List.map_congr_left
  intro i _
  exact cellRow_getD k rc samples key i

theorem cellRow_any_present (k : Nat) (rc : Bool) (samples : List (List (Array UInt8))) (key : Nat) :
    (cellRow k rc samples key).any Table.present = true ↔ key ∈ allKeys k rc samples := by
  rw [mem_allKeys, List.any_eq_true]
  unfold cellRow
  constructor
  · rintro ⟨b, hb, hp⟩
    obtain ⟨recs, hr, rfl⟩ := List.mem_map.1 hb
    refine ⟨recs, hr, ?_⟩
    intro h0
    rw [(cellFor_eq_gap_iff k rc recs key).2 h0] at hp
    exact absurd hp (by decide)
  · rintro ⟨recs, hr, h0⟩
    refine ⟨_, List.mem_map.2 ⟨recs, hr, rfl⟩, ?_⟩
    unfold Table.present
    rw [bne_iff_ne]
    intro e
    exact h0 ((cellFor_eq_gap_iff k rc recs key).1 e)

/-- keys of selected samples are keys of the whole list -/
theorem allKeys_select_sub (k : Nat) (rc : Bool) (samples : List (List (Array UInt8)))
    (idx : List Nat) (key : Nat)
    (h : key ∈ allKeys k rc (idx.map (fun i => samples.getD i []))) : key ∈ allKeys k rc samples := by
  rw [mem_allKeys] at h ⊢
  obtain ⟨recs, hr, h0⟩ := h
  obtain ⟨i, _, rfl⟩ := List.mem_map.1 hr
  refine ⟨samples.getD i [], ?_, h0⟩
  rw [List.getD_eq_getElem?_getD]
  cases hi : samples[i]? with
  | none =>
    exfalso
    apply h0
    rw [List.getD_eq_getElem?_getD, hi]
    rfl
  | some recs => exact List.mem_of_getElem? hi

/-- **specTable_selectCols.** keeping the columns `idx` of the joint-build table (and dropping the
rows that became all-gap) gives, up to row order, the joint-build table of the selected samples;
no hypothesis on `idx`, the names or the lengths is needed -/
theorem specTable_selectCols (k : Nat) (rc : Bool) (names : List String)
    (samples : List (List (Array UInt8))) (idx : List Nat) :
    ((specTable k rc names samples).selectCols idx).Equiv
      (specTable k rc (idx.map (fun i => names.getD i "")) (idx.map (fun i => samples.getD i []))) := by
  refine ⟨rfl, ?_⟩
  unfold Table.selectCols
  rw [specTable_rows, specTable_rows]
  simp only [List.map_map, List.filter_map]
  apply perm_map_of_nodup_mem _ _ ((allKeys_nodup k rc samples).sublist List.filter_sublist)
    (allKeys_nodup k rc _)
  · intro key
    simp only [List.mem_filter, Function.comp_def]
    rw [cellRow_select, cellRow_any_present]
    constructor
    · exact fun h => h.2
    · exact fun h => ⟨allKeys_select_sub k rc samples idx key h, h⟩
  · intro key _
    simp only [Function.comp_def]
    rw [cellRow_select]

/-! ### the kept positions as a filter -/

theorem keepIdx_eq_filter (names del : List String) (hn : names.Nodup) :
    Table.keepIdx names del
      = (List.range names.length).filter (fun i => !del.contains (names.getD i "")) := by
  have hs := keepIdx_sorted names del hn
  have hm := mem_keepIdx names del hn
  apply List.Perm.eq_of_pairwise (le := (· < ·)) _ hs
    (List.Pairwise.sublist List.filter_sublist List.pairwise_lt_range)
  · apply perm_of_nodup_mem
    · exact hs.imp (fun h => Nat.ne_of_lt h)
    · exact (List.Pairwise.sublist List.filter_sublist List.pairwise_lt_range).imp
        (fun h => Nat.ne_of_lt h)
    · intro i
      rw [hm i, List.mem_filter, List.mem_range]
      constructor
      · rintro ⟨hi, hnot⟩
        refine ⟨hi, ?_⟩
        rw [List.getD_eq_getElem?_getD, List.getElem?_eq_getElem hi]
        simpa using hnot
      · rintro ⟨hi, hnot⟩
        refine ⟨hi, ?_⟩
        rw [List.getD_eq_getElem?_getD, List.getElem?_eq_getElem hi] at hnot
        simpa using hnot
  · intro a b _ _ h1 h2
    exact absurd h1 (Nat.lt_asymm h2)

/-- selecting by the positions that pass a test on the entries is filtering -/
theorem map_getD_range_filter {α : Type} (l : List α) (d : α) (p : α → Bool) :
    ((List.range l.length).filter (fun i => p (l.getD i d))).map (fun i => l.getD i d)
      = l.filter p := by
  induction l with
  | nil => rfl
  | cons a l ih =>
    rw [List.length_cons, List.range_succ_eq_map, List.filter_cons, List.filter_cons]
    have h0 : (a :: l).getD 0 d = a := rfl
    have hs : ((List.map Nat.succ (List.range l.length)).filter
          (fun i => p ((a :: l).getD i d))).map (fun i => (a :: l).getD i d) = l.filter p := by
      rw [List.filter_map, List.map_map, ← ih]
      rfl
    rw [h0]
    by_cases hp : p a = true
    · rw [if_pos hp, if_pos hp, List.map_cons, hs, h0]
    · rw [if_neg hp, if_neg hp, hs]

end SkaModel.E2E
