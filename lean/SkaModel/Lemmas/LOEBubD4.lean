/-
C18 completeness — the remaining fields of `BG` for the bubbles of a deletion family (arm nodes are no entry
or exit nodes, predecessors, distinct entries) and the assembly: the graph of a deletion family is a graph of
bubbles.
-/
import SkaModel.Lemmas.LOEBubD3

namespace SkaModel.LOE

open SkaModel SkaModel.Spec SkaModel.Props.C16 SkaModel.Skalo SkaModel.Props.C17G SkaModel.LOG SkaModel.LOC

namespace Ctx

variable {W k : Nat} {F : List UInt8} {B : List (Nat × Nat)} {C : List (List Bool)} {a : Arr} {names : List String}

/-- entry and exit nodes of all bubbles -/
theorem ext_cases (β' : Bub) (hβ' : β' ∈ allBubs k F B) :
    ∃ t', t' < B.length ∧
      ((β'.en = nF k F B (.c (eX k F B t')) ∧ β'.ex = nF k F B (.c (bE B t'))) ∨
       (β'.en = nR k F B (.c (bE B t')) ∧ β'.ex = nR k F B (.c (eX k F B t')))) := by
  obtain ⟨t', ht', rfl | rfl⟩ := (mem_allBubs k F B β').mp hβ'
  · exact ⟨t', ht', Or.inl ⟨rfl, rfl⟩⟩
  · exact ⟨t', ht', Or.inr ⟨rfl, rfl⟩⟩

/-- a contiguous node strictly between the entry and the exit of a bubble is no entry or exit node -/
theorem inner_c_fwd (cx : Ctx W k F B C a names) {t : Nat} (ht : t < B.length) {y : Nat}
    (h1 : eX k F B t < y) (h2 : y < bE B t) (β' : Bub) (hβ' : β' ∈ allBubs k F B) :
    nF k F B (.c y) ≠ β'.en ∧ nF k F B (.c y) ≠ β'.ex := by
  have hb := cx.h.bt ht
  have he := cx.ex_bounds ht
  have hk5 := cx.h.k5
  obtain ⟨t', ht', ⟨e1, e2⟩ | ⟨e1, e2⟩⟩ := ext_cases β' hβ'
  · have hb' := cx.h.bt ht'
    have he' := cx.ex_bounds ht'
    rw [e1, e2]
    constructor
    · intro e
      have := Nd.c.inj (cx.nF_inj (cx.vc ht (by omega)) (cx.vc ht' (by omega)) e)
      exact cx.not_entry ht h1 (by omega) ht' this
    · intro e
      have := Nd.c.inj (cx.nF_inj (cx.vc ht (by omega)) (cx.vc ht' (by omega)) e)
      exact cx.not_exit ht (by omega) h2 ht' this
  · have hb' := cx.h.bt ht'
    have he' := cx.ex_bounds ht'
    rw [e1, e2]
    exact ⟨cx.cross (cx.vc ht (by omega)) (cx.vc ht' (by omega)),
      cx.cross (cx.vc ht (by omega)) (cx.vc ht' (by omega))⟩

theorem inner_c_rev (cx : Ctx W k F B C a names) {t : Nat} (ht : t < B.length) {y : Nat}
    (h1 : eX k F B t < y) (h2 : y < bE B t) (β' : Bub) (hβ' : β' ∈ allBubs k F B) :
    nR k F B (.c y) ≠ β'.en ∧ nR k F B (.c y) ≠ β'.ex := by
  have hb := cx.h.bt ht
  have he := cx.ex_bounds ht
  have hk5 := cx.h.k5
  obtain ⟨t', ht', ⟨e1, e2⟩ | ⟨e1, e2⟩⟩ := ext_cases β' hβ'
  · have hb' := cx.h.bt ht'
    have he' := cx.ex_bounds ht'
    rw [e1, e2]
    exact ⟨fun e => cx.cross (cx.vc ht' (by omega)) (cx.vc ht (by omega)) e.symm,
      fun e => cx.cross (cx.vc ht' (by omega)) (cx.vc ht (by omega)) e.symm⟩
  · have hb' := cx.h.bt ht'
    have he' := cx.ex_bounds ht'
    rw [e1, e2]
    constructor
    · intro e
      have := Nd.c.inj (cx.nR_inj (cx.vc ht (by omega)) (cx.vc ht' (by omega)) e)
      exact cx.not_exit ht (by omega) h2 ht' this
    · intro e
      have := Nd.c.inj (cx.nR_inj (cx.vc ht (by omega)) (cx.vc ht' (by omega)) e)
      exact cx.not_entry ht h1 (by omega) ht' this

/-- a jumping node is no entry or exit node -/
theorem inner_g (cx : Ctx W k F B C a names) {t : Nat} (ht : t < B.length) {y : Nat}
    (h1 : eX k F B t + 1 ≤ y) (h2 : y < bS B t) (β' : Bub) (hβ' : β' ∈ allBubs k F B) :
    (nF k F B (.g t y) ≠ β'.en ∧ nF k F B (.g t y) ≠ β'.ex) ∧
    (nR k F B (.g t y) ≠ β'.en ∧ nR k F B (.g t y) ≠ β'.ex) := by
  have hb := cx.h.bt ht
  have he := cx.ex_bounds ht
  have hk5 := cx.h.k5
  have hv := cx.vg ht h1 h2
  obtain ⟨t', ht', ⟨e1, e2⟩ | ⟨e1, e2⟩⟩ := ext_cases β' hβ'
  · have hb' := cx.h.bt ht'
    have he' := cx.ex_bounds ht'
    rw [e1, e2]
    refine ⟨⟨?_, ?_⟩, ⟨?_, ?_⟩⟩
    · intro e; exact Nd.noConfusion (cx.nF_inj hv (cx.vc ht' (by omega)) e)
    · intro e; exact Nd.noConfusion (cx.nF_inj hv (cx.vc ht' (by omega)) e)
    · intro e; exact cx.cross (cx.vc ht' (by omega)) hv e.symm
    · intro e; exact cx.cross (cx.vc ht' (by omega)) hv e.symm
  · have hb' := cx.h.bt ht'
    have he' := cx.ex_bounds ht'
    rw [e1, e2]
    refine ⟨⟨?_, ?_⟩, ⟨?_, ?_⟩⟩
    · exact cx.cross hv (cx.vc ht' (by omega))
    · exact cx.cross hv (cx.vc ht' (by omega))
    · intro e; exact Nd.noConfusion (cx.nR_inj hv (cx.vc ht' (by omega)) e)
    · intro e; exact Nd.noConfusion (cx.nR_inj hv (cx.vc ht' (by omega)) e)

/-! ### predecessors -/

theorem predA_fwd (cx : Ctx W k F B C a names) {t : Nat} (ht : t < B.length) (Y : Nat)
    (hY : (fwdBub k F B t).ha ∈ succs (buildGraph W a).1 Y) : Y = (fwdBub k F B t).en := by
  have hb := cx.h.bt ht
  have he := cx.ex_bounds ht
  have hk5 := cx.h.k5
  rw [(cx.heads ht).1] at hY
  have hvh : (Nd.c (eX k F B t + 1)).valid k F.length B (shf k F B) := cx.vc ht (by omega)
  obtain ⟨n, hv, rfl | rfl⟩ := cx.source hY
  · obtain ⟨n', hr, e⟩ := (cx.succF hv _).mp hY
    have := cx.nF_inj hvh (cx.h.re_valid hr).2 e
    subst this
    rcases re_pred_c hr with ⟨x, rfl, e', _⟩ | ⟨t', ht', _, e'⟩
    · rw [show x = eX k F B t by omega]; rfl
    · exact absurd e' (cx.not_exit ht (by omega) (by omega) ht')
  · obtain ⟨n', hr, e⟩ := (cx.succR hv _).mp hY
    exact absurd e (cx.cross hvh (cx.h.re_valid hr).1)

theorem predB_fwd (cx : Ctx W k F B C a names) {t : Nat} (ht : t < B.length) (Y : Nat)
    (hY : (fwdBub k F B t).hb ∈ succs (buildGraph W a).1 Y) : Y = (fwdBub k F B t).en := by
  have hb := cx.h.bt ht
  have he := cx.ex_bounds ht
  have hk5 := cx.h.k5
  rw [(cx.heads ht).2.1] at hY
  have hvh : (Nd.g t (eX k F B t + 1)).valid k F.length B (shf k F B) := cx.vg ht (Nat.le_refl _) (by omega)
  obtain ⟨n, hv, rfl | rfl⟩ := cx.source hY
  · obtain ⟨n', hr, e⟩ := (cx.succF hv _).mp hY
    have := cx.nF_inj hvh (cx.h.re_valid hr).2 e
    subst this
    obtain ⟨_, hc⟩ := re_pred_g hr
    rcases hc with ⟨rfl, _⟩ | ⟨x, _, e', h3, _⟩
    · rfl
    · unfold eX at *; omega
  · obtain ⟨n', hr, e⟩ := (cx.succR hv _).mp hY
    exact absurd e (cx.cross hvh (cx.h.re_valid hr).1)

theorem predX_fwd (cx : Ctx W k F B C a names) {t : Nat} (ht : t < B.length) (Y : Nat)
    (hY : (fwdBub k F B t).ex ∈ succs (buildGraph W a).1 Y) :
    Y ∈ (fwdBub k F B t).a ∨ Y ∈ (fwdBub k F B t).b := by
  have hb := cx.h.bt ht
  have he := cx.ex_bounds ht
  have hk5 := cx.h.k5
  have hvh : (Nd.c (bE B t)).valid k F.length B (shf k F B) := cx.vc ht (by omega)
  obtain ⟨n, hv, rfl | rfl⟩ := cx.source hY
  · obtain ⟨n', hr, e⟩ := (cx.succF hv _).mp hY
    have := cx.nF_inj hvh (cx.h.re_valid hr).2 e
    subst this
    rcases re_pred_c hr with ⟨x, rfl, e', _⟩ | ⟨t', ht', rfl, e'⟩
    · left
      exact (mem_fa t _).mpr ⟨x, by omega, by omega, rfl⟩
    · right
      have : t = t' := cx.bE_inj ht ht' e'
      subst this
      exact (mem_fb t _).mpr ⟨bS B t - 1, by omega, by omega, rfl⟩
  · obtain ⟨n', hr, e⟩ := (cx.succR hv _).mp hY
    exact absurd e (cx.cross hvh (cx.h.re_valid hr).1)

theorem predA_rev (cx : Ctx W k F B C a names) {t : Nat} (ht : t < B.length) (Y : Nat)
    (hY : (revBub k F B t).ha ∈ succs (buildGraph W a).1 Y) : Y = (revBub k F B t).en := by
  have hb := cx.h.bt ht
  have he := cx.ex_bounds ht
  have hk5 := cx.h.k5
  rw [(cx.heads ht).2.2.2.2.1] at hY
  have hvh : (Nd.c (bE B t - 1)).valid k F.length B (shf k F B) := cx.vc ht (by omega)
  obtain ⟨n, hv, rfl | rfl⟩ := cx.source hY
  · obtain ⟨n', hr, e⟩ := (cx.succF hv _).mp hY
    exact absurd e.symm (cx.cross (cx.h.re_valid hr).2 hvh)
  · obtain ⟨n', hr, e⟩ := (cx.succR hv _).mp hY
    have := cx.nR_inj hvh (cx.h.re_valid hr).1 e
    subst this
    rcases re_succ_c hr with ⟨rfl, _⟩ | ⟨t', ht', e', _⟩
    · rw [show bE B t - 1 + 1 = bE B t by omega]; rfl
    · exact absurd e' (cx.not_entry ht (by omega) (by omega) ht')

theorem predB_rev (cx : Ctx W k F B C a names) {t : Nat} (ht : t < B.length) (Y : Nat)
    (hY : (revBub k F B t).hb ∈ succs (buildGraph W a).1 Y) : Y = (revBub k F B t).en := by
  have hb := cx.h.bt ht
  have he := cx.ex_bounds ht
  have hk5 := cx.h.k5
  rw [(cx.heads ht).2.2.2.2.2.1] at hY
  have hvh : (Nd.g t (bS B t - 1)).valid k F.length B (shf k F B) := cx.vg ht (by omega) (by omega)
  obtain ⟨n, hv, rfl | rfl⟩ := cx.source hY
  · obtain ⟨n', hr, e⟩ := (cx.succF hv _).mp hY
    exact absurd e.symm (cx.cross (cx.h.re_valid hr).2 hvh)
  · obtain ⟨n', hr, e⟩ := (cx.succR hv _).mp hY
    have := cx.nR_inj hvh (cx.h.re_valid hr).1 e
    subst this
    rcases re_succ_g hr with ⟨_, _, h3⟩ | ⟨_, rfl⟩
    · omega
    · rfl

theorem predX_rev (cx : Ctx W k F B C a names) {t : Nat} (ht : t < B.length) (Y : Nat)
    (hY : (revBub k F B t).ex ∈ succs (buildGraph W a).1 Y) :
    Y ∈ (revBub k F B t).a ∨ Y ∈ (revBub k F B t).b := by
  have hb := cx.h.bt ht
  have he := cx.ex_bounds ht
  have hk5 := cx.h.k5
  have hvh : (Nd.c (eX k F B t)).valid k F.length B (shf k F B) := cx.vc ht (by omega)
  obtain ⟨n, hv, rfl | rfl⟩ := cx.source hY
  · obtain ⟨n', hr, e⟩ := (cx.succF hv _).mp hY
    exact absurd e.symm (cx.cross (cx.h.re_valid hr).2 hvh)
  · obtain ⟨n', hr, e⟩ := (cx.succR hv _).mp hY
    have := cx.nR_inj hvh (cx.h.re_valid hr).1 e
    subst this
    rcases re_succ_c hr with ⟨rfl, _⟩ | ⟨t', ht', e', rfl⟩
    · left
      exact (mem_ra t _).mpr ⟨eX k F B t + 1, by omega, by omega, rfl⟩
    · right
      have : t = t' := by
        apply Classical.byContradiction
        intro htt
        have hb' := cx.h.bt ht'
        have he' := cx.ex_bounds ht'
        have := cx.h.sep_ne ht ht' htt
        unfold eX bS bE at *
        omega
      subst this
      exact (mem_rb t _).mpr ⟨eX k F B t + 1, by omega, by omega, rfl⟩

end Ctx

end SkaModel.LOE
