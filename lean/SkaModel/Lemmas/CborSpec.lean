/-
Prefix-safe parsers.  `Spec p e r` says how parser `p` behaves on the byte
string `e` and on everything comparable with it in the prefix order:

* on `e ++ rest` it returns `r` (and leaves exactly `rest`), for every `rest`;
* on every proper prefix of `e` it fails.

With `r = some x` this is "`e` is a prefix-free encoding of `x` for `p`"; with
`r = none` it says that `p` rejects `e`, all its extensions and all its proper
prefixes.  The property is preserved by sequencing and by `parseMany`.
-/
import SkaModel.Lemmas.CborCore

namespace SkaModel.CB

open SkaModel SkaModel.Cbor

abbrev Parser (α : Type) := List UInt8 → Option (α × List UInt8)

structure Spec {α : Type} (p : Parser α) (e : List UInt8) (r : Option α) : Prop where
  full : ∀ rest, p (e ++ rest) = r.map (fun x => (x, rest))
  pre : ∀ q t, q ++ t = e → t ≠ [] → p q = none

/-! ### combinators (definitionally the shapes produced by `do` over `Option`) -/

def andThen {α β : Type} (p : Parser α) (k : α → Parser β) : Parser β :=
  fun bs => (p bs).bind (fun y => k y.1 y.2)

def headThen {β : Type} (k : Nat → Nat → Parser β) : Parser β :=
  fun bs => (parseHead bs).bind (fun y => k y.1 y.2.1 y.2.2)

def expectThen {β : Type} (s : List UInt8) (k : Parser β) : Parser β :=
  fun bs => (expectKey s bs).bind k

def guardP {β : Type} (c : Bool) (k : Parser β) : Parser β :=
  fun bs => if c = true then none else k bs

/-- splitting `q ++ t = e₁ ++ e₂`: the cut is inside `e₁` (properly) or inside `e₂` -/
theorem cut_cases {q t e₁ e₂ : List UInt8} (h : q ++ t = e₁ ++ e₂) (_ht : t ≠ []) :
    (∃ a, q ++ a = e₁ ∧ a ≠ []) ∨ (∃ c, q = e₁ ++ c ∧ c ++ t = e₂) := by
  rcases List.append_eq_append_iff.mp h with ⟨a, h1, h2⟩ | ⟨c, h1, h2⟩
  · by_cases ha : a = []
    · subst ha
      right
      exact ⟨[], by simpa using h1.symm, by simpa using h2⟩
    · left
      exact ⟨a, h1.symm, ha⟩
  · right
    exact ⟨c, h1, h2.symm⟩

theorem Spec.andThen_some {α β : Type} {p : Parser α} {k : α → Parser β} {e₁ e₂ : List UInt8}
    {x : α} {r : Option β} (h₁ : Spec p e₁ (some x)) (h₂ : Spec (k x) e₂ r) :
    Spec (andThen p k) (e₁ ++ e₂) r := by
  constructor
  · intro rest
    simp only [andThen, List.append_assoc, h₁.full, Option.map_some, Option.bind_some]
    exact h₂.full rest
  · intro q t hq ht
    rcases cut_cases hq ht with ⟨a, h1, h2⟩ | ⟨c, h1, h2⟩
    · simp [andThen, h₁.pre q a h1 h2]
    · subst h1
      simp only [andThen, h₁.full, Option.map_some, Option.bind_some]
      exact h₂.pre c t h2 ht

theorem Spec.andThen_none {α β : Type} {p : Parser α} {k : α → Parser β} {e₁ e₂ : List UInt8}
    (h₁ : Spec p e₁ none) : Spec (andThen p k) (e₁ ++ e₂) none := by
  constructor
  · intro rest
    simp [andThen, List.append_assoc, h₁.full]
  · intro q t hq ht
    rcases cut_cases hq ht with ⟨a, h1, h2⟩ | ⟨c, h1, h2⟩
    · simp [andThen, h₁.pre q a h1 h2]
    · subst h1
      simp [andThen, h₁.full]

theorem Spec.head {β : Type} {k : Nat → Nat → Parser β} {m n : Nat} {e₂ : List UInt8} {r : Option β}
    (hm : m < 8) (hn : n < 2 ^ 64) (h₂ : Spec (k m n) e₂ r) :
    Spec (headThen k) (Cbor.head m n ++ e₂) r := by
  constructor
  · intro rest
    simp only [headThen, List.append_assoc, parseHead_head m n _ hm hn, Option.bind_some]
    exact h₂.full rest
  · intro q t hq ht
    rcases cut_cases hq ht with ⟨a, h1, h2⟩ | ⟨c, h1, h2⟩
    · simp [headThen, parseHead_prefix m n q a hm hn h1 h2]
    · subst h1
      simp only [headThen, parseHead_head m n _ hm hn, Option.bind_some]
      exact h₂.pre c t h2 ht

theorem Spec.guard_false {β : Type} {c : Bool} {k : Parser β} {e : List UInt8} {r : Option β}
    (hc : c = false) (h : Spec k e r) : Spec (guardP c k) e r := by
  subst hc
  exact ⟨fun rest => by simpa [guardP] using h.full rest, fun q t hq ht => by simpa [guardP] using h.pre q t hq ht⟩

theorem Spec.pure {β : Type} {p : Parser β} {r : Option β}
    (h : ∀ bs, p bs = r.map (fun x => (x, bs))) : Spec p [] r :=
  ⟨fun rest => by simpa using h rest, fun q t hq ht => by simp at hq; exact absurd hq.2 ht⟩

/-! ### element parsers -/

theorem spec_uint {n : Nat} (hn : n < 2 ^ 64) : Spec parseUint (uint n) (some n) := by
  constructor
  · intro rest
    simp [parseUint, uint, parseHead_head 0 n rest (by decide) hn]
  · intro q t hq ht
    simp [parseUint, parseHead_prefix 0 n q t (by decide) hn hq ht]

theorem spec_text {s : List UInt8} (hs : s.length < 2 ^ 64) : Spec parseText (text s) (some s) := by
  constructor
  · intro rest
    simp [parseText, text, List.append_assoc, parseHead_head 3 s.length _ (by decide) hs]
  · intro q t hq ht
    rcases cut_cases hq ht with ⟨a, h1, h2⟩ | ⟨c, h1, h2⟩
    · simp [parseText, parseHead_prefix 3 s.length q a (by decide) hs h1 h2]
    · subst h1
      have hlt : c.length < s.length := by
        rw [← h2]
        have : 0 < t.length := List.length_pos_iff.mpr ht
        simp; omega
      simp [parseText, parseHead_head 3 s.length _ (by decide) hs, hlt]

theorem spec_bool (b : Bool) : Spec parseBool (Cbor.bool b) (some b) := by
  constructor
  · intro rest
    cases b <;> rfl
  · intro q t hq ht
    cases q with
    | nil => rfl
    | cons c q =>
      cases b <;> simp [Cbor.bool] at hq <;> exact absurd hq.2.2 ht

theorem Spec.expect {β : Type} {s : List UInt8} {k : Parser β} {e₂ : List UInt8} {r : Option β}
    (hs : s.length < 2 ^ 64) (h₂ : Spec k e₂ r) : Spec (expectThen s k) (key s ++ e₂) r := by
  have hk := spec_text hs
  constructor
  · intro rest
    have := hk.full (e₂ ++ rest)
    simp only [expectThen, expectKey, key, List.append_assoc] at this ⊢
    rw [this]
    simp only [Option.map_some, beq_self_eq_true, if_true, Option.bind_some]
    exact h₂.full rest
  · intro q t hq ht
    rcases cut_cases hq ht with ⟨a, h1, h2⟩ | ⟨c, h1, h2⟩
    · simp [expectThen, expectKey, hk.pre q a h1 h2]
    · subst h1
      have := hk.full c
      simp only [expectThen, expectKey, key] at this ⊢
      rw [this]
      simp only [Option.map_some, beq_self_eq_true, if_true, Option.bind_some]
      exact h₂.pre c t h2 ht

end SkaModel.CB
