/-
`ska lo`, complements to `LOReal1`–`LOReal4`: the base a variant contributes to a column is its
letter at the position; `identify_good_kmers` does not panic on the graph of a table; with distinct
canonical keys two different rows never colour the same k-mer, and with strictly canonical keys every
colour set is exactly the sample set of its row and base.
-/
import SkaModel.Lemmas.LOReal4

namespace SkaModel.LORL

open SkaModel SkaModel.Skalo SkaModel.Spec SkaModel.Props.C16 SkaModel.Props.C17G SkaModel.LOG

/-! ### the base of a call is the letter at the position -/

theorem encode_snoc (W : Nat) (w : List UInt8) (x : UInt8) :
    encodeKmer W (w ++ [x]) = shl W (encodeKmer W w) 2 ||| code x := by
  unfold encodeKmer
  rw [List.foldl_append]
  rfl

theorem last_base (W : Nat) (hW : 2 ≤ W) (w : List UInt8) (x : UInt8) :
    encodeKmer W (w ++ [x]) &&& 3 = code x := by
  rw [encode_snoc, and_three]
  unfold shl
  have h4 : (4 : Nat) = 2 ^ 2 := rfl
  rw [h4, Nat.or_mod_two_pow, Nat.mod_mod_of_dvd _ (Nat.pow_dvd_pow 2 hW), Nat.shiftLeft_eq,
    Nat.mul_mod_left, Nat.zero_or, Nat.mod_eq_of_lt (code_lt x)]

theorem decode_code (x : UInt8) (h : isACGT x = true) : decodeBase (code x) = x := by
  simp only [isACGT, Bool.or_eq_true, beq_iff_eq] at h
  rcases h with ((h | h) | h) | h <;> subst h <;> decide

/-- the window `[pos - kGraph, pos]` ends with the letter at `pos`, which is the base of the call -/
theorem call_letter (W kGraph : Nat) (hW : 2 ≤ W) (s : List UInt8) (pos : Nat) (hk : kGraph ≤ pos)
    (w : List UInt8) (h : getRange s (pos - kGraph) (pos + 1) = some w) :
    ∃ x, s[pos]? = some x ∧ decodeBase (encodeKmer W w &&& 3) = decodeBase (code x) := by
  unfold getRange at h
  split at h
  · rename_i hc
    simp only [Bool.and_eq_true, decide_eq_true_eq] at hc
    have hlt : pos < s.length := by omega
    refine ⟨s[pos], List.getElem?_eq_getElem hlt, ?_⟩
    have e : pos + 1 - (pos - kGraph) = kGraph + 1 := by omega
    rw [e, List.take_add_one] at h
    have hg : (s.drop (pos - kGraph))[kGraph]? = some s[pos] := by
      rw [List.getElem?_drop, ← List.getElem?_eq_getElem hlt]
      congr 1
      omega
    rw [hg] at h
    simp only [Option.toList_some, Option.some.injEq] at h
    rw [← h, last_base W hW]
  · simp at h

/-! ### `identify_good_kmers` -/

theorem mem_pairsOf {α : Type} : ∀ (l : List α) (p : α × α), p ∈ pairsOf l → p.1 ∈ l ∧ p.2 ∈ l
  | [], p, h => by simp [pairsOf] at h
  | x :: xs, p, h => by
    unfold pairsOf at h
    rcases List.mem_append.mp h with h | h
    · obtain ⟨y, hy, rfl⟩ := List.mem_map.mp h
      exact ⟨List.mem_cons_self .., List.mem_cons_of_mem _ hy⟩
    · obtain ⟨h1, h2⟩ := mem_pairsOf xs p h
      exact ⟨List.mem_cons_of_mem _ h1, List.mem_cons_of_mem _ h2⟩

theorem go_some (W : Nat) (col : Colours) (kn : Nat × List Nat) :
    ∀ ps : List (Nat × Nat),
      (∀ p ∈ ps, (∃ s, Assoc.lookup col (combineKmers W kn.1 p.1) = some s) ∧
        (∃ s, Assoc.lookup col (combineKmers W kn.1 p.2) = some s)) →
      ∃ b, identifyGoodKmers.go W col kn ps = some b := by
  intro ps
  induction ps with
  | nil => intro _; exact ⟨false, by rw [identifyGoodKmers.go]⟩
  | cons p rest ih =>
    intro h
    obtain ⟨⟨s1, h1⟩, ⟨s2, h2⟩⟩ := h p (List.mem_cons_self ..)
    rw [identifyGoodKmers.go, h1, h2]
    simp only []
    split
    · exact ⟨true, rfl⟩
    · exact ih (fun q hq => h q (List.mem_cons_of_mem _ hq))

/-- `identify_good_kmers` succeeds when the k-mer of every edge is coloured -/
theorem identifyGoodKmers_some (W kGraph : Nat) (g : Graph) (col : Colours)
    (h : ∀ kn ∈ g, ∀ y ∈ kn.2, ∃ s, Assoc.lookup col (combineKmers W kn.1 y) = some s) :
    ∃ r, identifyGoodKmers W kGraph g col = some r := by
  unfold identifyGoodKmers
  simp only [Option.bind_eq_bind]
  refine bind_some _ _ (mapM_some _ _ ?_) (fun s => ⟨_, rfl⟩)
  intro kn hkn
  split
  · exact go_some W col kn _ (fun p hp =>
      ⟨h kn hkn p.1 (mem_pairsOf kn.2 p hp).1, h kn hkn p.2 (mem_pairsOf kn.2 p hp).2⟩)
  · exact ⟨false, rfl⟩

/-- **`identify_good_kmers` does not panic on the graph of a table** -/
theorem identifyGoodKmers_table_some (W : Nat) (a : Arr) (hk : ValidK a.k) (hw : WidthOk W a.k)
    (hkeys : ∀ key ∈ a.kmers, key < 4 ^ (a.k - 1)) (kGraph : Nat) :
    ∃ r, identifyGoodKmers W kGraph (buildGraph W a).1 (buildGraph W a).2 = some r := by
  apply identifyGoodKmers_some
  intro kn hkn y hy
  have hl : Assoc.lookup (buildGraph W a).1 kn.1 = some kn.2 :=
    Assoc.lookup_of_mem_nodup (LOP.buildGraph_keys_nodup W a) hkn
  have he : Edge (buildGraph W a).1 kn.1 y := by
    unfold Edge succs
    rw [hl]
    exact hy
  obtain ⟨S, hS, _⟩ := edge_coloured W a hk hw hkeys kn.1 y he
  exact ⟨S, hS⟩

/-! ### which row colours a k-mer -/

/-- the reverse complement of a packed split k-mer (both arms reversed and complemented, swapped) -/
def rcKey (k key : Nat) : Nat := packL (rcCodes (digs (k - 1) key))

theorem digs_packL (n : Nat) (cs : List Nat) (hc : Codes cs) (hl : cs.length = n) :
    digs n (packL cs) = cs := by
  apply packL_inj (digs_codes _ _) hc (by rw [digs_length, hl])
  rw [packL_digs, Nat.mod_eq_of_lt]
  rw [← hl]
  exact packL_lt hc

theorem rcKey_arms (k : Nat) (u l : List Nat) (hcu : Codes u) (hcl : Codes l)
    (hlen : (u ++ l).length = k - 1) :
    rcKey k (packL (u ++ l)) = packL (rcCodes l ++ rcCodes u) := by
  unfold rcKey
  rw [digs_packL (k - 1) (u ++ l) (Codes.append hcu hcl) hlen, rcCodes_append]

theorem split_full {u l u' l' : List Nat} {c c' : Nat} (hl : u.length = u'.length)
    (h : u ++ [c] ++ l = u' ++ [c'] ++ l') : u = u' ∧ c = c' ∧ l = l' := by
  rw [List.append_assoc, List.append_assoc] at h
  obtain ⟨h1, h2⟩ := List.append_inj h hl
  simp only [List.cons_append, List.nil_append, List.cons.injEq] at h2
  exact ⟨h1, h2.1, h2.2⟩

theorem row_eq_of_key {a : Arr} (hnd : a.kmers.Nodup) {kv kv' : Nat × List UInt8}
    (h : kv ∈ a.kmers.zip a.variants) (h' : kv' ∈ a.kmers.zip a.variants) (e : kv.1 = kv'.1) : kv = kv' :=
  LOP.eq_of_key_eq (·.1) _ ((LOP.zip_fst_sublist a.kmers a.variants).nodup hnd) kv kv' h h' e

/-- two (row, base) pairs that produce the same k-mer (directly or as reverse complement): the keys
are equal, or each is the reverse complement of the other; in the first case with the same
orientation the bases have equal codes -/
theorem same_kmer_cases (k : Nat) (u l u' l' : List Nat) (c c' : Nat)
    (hu : u.length = halfK k) (hl : l.length = halfK k) (hu' : u'.length = halfK k) (hl' : l'.length = halfK k)
    (hkh : k = 2 * halfK k + 1)
    (hcu : Codes u) (hcl : Codes l) (hcu' : Codes u') (hcl' : Codes l') (hc : c < 4) (hc' : c' < 4)
    (f : Nat)
    (hf : f = packL (u ++ [c] ++ l) ∨ f = packL (rcCodes (u ++ [c] ++ l)))
    (hf' : f = packL (u' ++ [c'] ++ l') ∨ f = packL (rcCodes (u' ++ [c'] ++ l'))) :
    (u = u' ∧ l = l' ∧ c = c') ∨
    (packL (u ++ l) = rcKey k (packL (u' ++ l')) ∧ packL (u' ++ l') = rcKey k (packL (u ++ l))) := by
  have hF : Codes (u ++ [c] ++ l) := Codes.append (Codes.append hcu (Codes.cons hc Codes.nil)) hcl
  have hF' : Codes (u' ++ [c'] ++ l') := Codes.append (Codes.append hcu' (Codes.cons hc' Codes.nil)) hcl'
  have hlen : (u ++ [c] ++ l).length = (u' ++ [c'] ++ l').length := by simp [hu, hl, hu', hl']
  have same : u ++ [c] ++ l = u' ++ [c'] ++ l' → (u = u' ∧ l = l' ∧ c = c') := by
    intro e
    obtain ⟨h1, h2, h3⟩ := split_full (by rw [hu, hu']) e
    exact ⟨h1, h3, h2⟩
  have cross : u ++ [c] ++ l = rcCodes (u' ++ [c'] ++ l') →
      (packL (u ++ l) = rcKey k (packL (u' ++ l')) ∧ packL (u' ++ l') = rcKey k (packL (u ++ l))) := by
    intro e
    rw [rcCodes_append, rcCodes_append, ← List.append_assoc] at e
    have e' : rcCodes [c'] = [c' ^^^ 2] := rfl
    rw [e'] at e
    obtain ⟨h1, _, h3⟩ := split_full (by rw [hu, rcCodes_length, hl']) e
    have hlen1 : (u ++ l).length = k - 1 := by simp [hu, hl]; omega
    have hlen2 : (u' ++ l').length = k - 1 := by simp [hu', hl']; omega
    rw [rcKey_arms k u' l' hcu' hcl' hlen2, rcKey_arms k u l hcu hcl hlen1, h1, h3, rcCodes_rcCodes,
      rcCodes_rcCodes]
    exact ⟨rfl, rfl⟩
  rcases hf with hf | hf <;> rcases hf' with hf' | hf'
  · exact Or.inl (same (packL_inj hF hF' hlen (hf.symm.trans hf')))
  · exact Or.inr (cross (packL_inj hF (rcCodes_codes hF') (by rw [rcCodes_length]; exact hlen)
      (hf.symm.trans hf')))
  · have := packL_inj (rcCodes_codes hF) hF' (by rw [rcCodes_length]; exact hlen) (hf.symm.trans hf')
    have e : u ++ [c] ++ l = rcCodes (u' ++ [c'] ++ l') := by
      rw [← this, rcCodes_rcCodes]
    exact Or.inr (cross e)
  · have := packL_inj (rcCodes_codes hF) (rcCodes_codes hF')
      (by rw [rcCodes_length, rcCodes_length]; exact hlen) (hf.symm.trans hf')
    have e : u ++ [c] ++ l = u' ++ [c'] ++ l' := by
      rw [← rcCodes_rcCodes (u ++ [c] ++ l), this, rcCodes_rcCodes]
    exact Or.inl (same e)

theorem code_inj_shown (cells cells' : List UInt8) (n n' : UInt8) (hn : n ∈ shownBases cells)
    (hn' : n' ∈ shownBases cells') (h : code n = code n') : n = n' := by
  have h1 := ((mem_shownBases cells n).mp hn).1
  have h2 := ((mem_shownBases cells' n').mp hn').1
  have key : ∀ n ∈ ([65, 67, 71, 84] : List UInt8), ∀ n' ∈ ([65, 67, 71, 84] : List UInt8),
      code n = code n' → n = n' := by decide
  exact key n h1 n' h2 h

/-- **with distinct canonical keys, the row that colours a k-mer is unique** -/
theorem colour_row_unique (W : Nat) (a : Arr) (hk : ValidK a.k) (hw : WidthOk W a.k)
    (hnd : a.kmers.Nodup) (hcanon : ∀ key ∈ a.kmers, key ≤ rcKey a.k key)
    (kv kv' : Nat × List UInt8) (hkv : kv ∈ a.kmers.zip a.variants) (hkv' : kv' ∈ a.kmers.zip a.variants)
    (u l u' l' : List Nat) (e : kv.1 = packL (u ++ l)) (e' : kv'.1 = packL (u' ++ l'))
    (hu : u.length = halfK a.k) (hl : l.length = halfK a.k) (hu' : u'.length = halfK a.k)
    (hl' : l'.length = halfK a.k) (hcu : Codes u) (hcl : Codes l) (hcu' : Codes u') (hcl' : Codes l')
    (n n' : UInt8) (f : Nat)
    (hf : f = packL (u ++ [code n] ++ l) ∨ f = packL (rcCodes (u ++ [code n] ++ l)))
    (hf' : f = packL (u' ++ [code n'] ++ l') ∨ f = packL (rcCodes (u' ++ [code n'] ++ l'))) :
    kv = kv' := by
  obtain ⟨_, hkh, _⟩ := validK_bounds hk hw
  apply row_eq_of_key hnd hkv hkv'
  rcases same_kmer_cases a.k u l u' l' (code n) (code n') hu hl hu' hl' hkh hcu hcl hcu' hcl'
    (code_lt n) (code_lt n') f hf hf' with ⟨h1, h2, _⟩ | ⟨h1, h2⟩
  · rw [e, e', h1, h2]
  · have c1 := hcanon kv.1 (List.of_mem_zip hkv).1
    have c2 := hcanon kv'.1 (List.of_mem_zip hkv').1
    rw [e, ← h2, ← e'] at c1
    rw [e', ← h1, ← e] at c2
    omega

/-- **with distinct strictly canonical keys (no key is its own reverse complement), every colour set
is exactly the sample set of its row and base** -/
theorem colour_exact (W : Nat) (a : Arr) (hk : ValidK a.k) (hw : WidthOk W a.k)
    (hkeys : ∀ key ∈ a.kmers, key < 4 ^ (a.k - 1))
    (hnd : a.kmers.Nodup) (hcanon : ∀ key ∈ a.kmers, key < rcKey a.k key)
    (kv : Nat × List UInt8) (hkv : kv ∈ a.kmers.zip a.variants)
    (u l : List Nat) (e : kv.1 = packL (u ++ l))
    (hu : u.length = halfK a.k) (hl : l.length = halfK a.k) (hcu : Codes u) (hcl : Codes l)
    (n : UInt8) (hn : n ∈ shownBases kv.2) :
    Assoc.lookup (buildGraph W a).2 (packL (u ++ [code n] ++ l)) = some (samplesOf kv.2 n) ∧
    Assoc.lookup (buildGraph W a).2 (packL (rcCodes (u ++ [code n] ++ l))) = some (samplesOf kv.2 n) := by
  obtain ⟨_, hkh, _⟩ := validK_bounds hk hw
  have key : ∀ f S, (f = packL (u ++ [code n] ++ l) ∨ f = packL (rcCodes (u ++ [code n] ++ l))) →
      Assoc.lookup (buildGraph W a).2 f = some S → S = samplesOf kv.2 n := by
    intro f S hf hS
    obtain ⟨kv', hkv', u', l', e', hu', hl', hcu', hcl', n', hn', hf', hS', _⟩ :=
      colour_sound W a hk hw hkeys f S hS
    have hrow : kv = kv' :=
      colour_row_unique W a hk hw hnd (fun key hkey => Nat.le_of_lt (hcanon key hkey)) kv kv' hkv hkv'
        u l u' l' e e' hu hl hu' hl' hcu hcl hcu' hcl' n n' f hf hf'
    subst hrow
    rcases same_kmer_cases a.k u l u' l' (code n) (code n') hu hl hu' hl' hkh hcu hcl hcu' hcl'
      (code_lt n) (code_lt n') f hf hf' with ⟨_, _, h3⟩ | ⟨h1, _⟩
    · rw [hS', code_inj_shown kv.2 kv.2 n n' hn hn' h3]
    · exfalso
      have c1 := hcanon kv.1 (List.of_mem_zip hkv).1
      rw [e', ← h1, ← e] at c1
      omega
  obtain ⟨⟨S1, h1⟩, ⟨S2, h2⟩⟩ := colour_complete W a hk hw hkeys kv hkv u l e hu hl hcu hcl n hn
  exact ⟨by rw [h1, key _ S1 (Or.inl rfl) h1], by rw [h2, key _ S2 (Or.inr rfl) h2]⟩

end SkaModel.LORL
