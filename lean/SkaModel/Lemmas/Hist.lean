/-
Helper lemmas for C10 (history independence): the cell invariant is kept by `delete_samples`
and `weed`; every table operation and every row-level filter pass respects row permutation.
-/
import SkaModel.Props.C06
import SkaModel.Props.C07
import SkaModel.Props.C08
import SkaModel.Props.C13
import SkaModel.Props.C14

namespace SkaModel.Hist

open SkaModel SkaModel.Spec

/-! ### the two cell predicates coincide -/

theorem cellsGE_iff (a : Arr) : a.CellsGE ↔ Props.C06.CellsGe45 a.variants := Iff.rfl

/-! ### the cell invariant through `weed` and `delete_samples` -/

theorem weed_variants_sub (a : Arr) (ks : List Nat) (rev : Bool) :
    ∀ row ∈ (a.weed ks rev).variants, row ∈ a.variants := by
  intro row hrow
  rw [Props.C13.weed_eq] at hrow
  simp only [List.mem_map] at hrow
  obtain ⟨x, hx, rfl⟩ := hrow
  have hx' := (List.mem_filter.mp hx).1
  obtain ⟨⟨k, v⟩, c⟩ := x
  exact (List.of_mem_zip (List.of_mem_zip hx').1).2

theorem weed_cellsGE (a : Arr) (h : a.CellsGE) (ks : List Nat) (rev : Bool) : (a.weed ks rev).CellsGE :=
  fun row hrow => h row (weed_variants_sub a ks rev row hrow)

theorem getD_gap_ge (row : List UInt8) (h : ∀ b ∈ row, GAP ≤ b) (i : Nat) : GAP ≤ row.getD i GAP := by
  rw [List.getD_eq_getElem?_getD]
  cases hi : row[i]? with
  | none => exact UInt8.le_refl _
  | some b => exact h b (List.mem_of_getElem? hi)

theorem deleteResult_cellsGE (a : Arr) (h : a.CellsGE) (del : List String) : (a.deleteResult del).CellsGE := by
  intro row hr b hb
  simp only [Arr.deleteResult, Arr.updateCounts, List.mem_map, List.mem_filter] at hr
  obtain ⟨rk, ⟨hrk, _⟩, rfl⟩ := hr
  have := (List.of_mem_zip hrk).1
  simp only [List.mem_map] at this
  obtain ⟨row0, hrow0, h0⟩ := this
  rw [← h0] at hb
  obtain ⟨i, _, rfl⟩ := List.mem_map.mp hb
  exact getD_gap_ge row0 (h row0 hrow0) i

theorem deleteSamples_some {a a' : Arr} {del : List String} (h : a.deleteSamples del = some a') :
    a' = a.deleteResult del := by
  rw [deleteSamples_eq] at h
  split at h
  · cases h
  · split at h
    · cases h
    · exact (Option.some.inj h).symm

/-! ### row permutation: containers -/

theorem variants_perm {a₁ a₂ : Arr} (h1 : a₁.variants.length = a₁.kmers.length)
    (h2 : a₂.variants.length = a₂.kmers.length) (hp : a₁.abs.rows.Perm a₂.abs.rows) :
    a₁.variants.Perm a₂.variants := by
  rw [Arr.variants_eq h1, Arr.variants_eq h2]
  exact hp.map _

theorem kmers_perm {a₁ a₂ : Arr} (h1 : a₁.variants.length = a₁.kmers.length)
    (h2 : a₂.variants.length = a₂.kmers.length) (hp : a₁.abs.rows.Perm a₂.abs.rows) :
    a₁.kmers.Perm a₂.kmers := by
  rw [← Props.C06.abs_rows_fst a₁ h1, ← Props.C06.abs_rows_fst a₂ h2]
  exact hp.map _

/-! ### row permutation: the filter passes of `distance` -/

open FV DM in
theorem nonEmpty_perm {famb : Bool} {v w : List (List UInt8)} (h : v.Perm w) :
    (nonEmpty famb v).Perm (nonEmpty famb w) := h.filter _

open FV DM in
theorem filtV_perm {t : Nat} {famb : Bool} {ft : FilterType} {gaps : Bool} {v w : List (List UInt8)}
    (h : v.Perm w) : (filtV t famb ft gaps v).Perm (filtV t famb ft gaps w) :=
  (h.filter _).filter _

open FV DM in
theorem maskV_perm {mask : Bool} {v w : List (List UInt8)} (h : v.Perm w) :
    (maskV mask v).Perm (maskV mask w) := by
  unfold maskV
  split
  · exact h.map _
  · exact h

open FV DM in
theorem V1_perm {t : Nat} {v w : List (List UInt8)} (h : v.Perm w) : (V1 t v).Perm (V1 t w) :=
  filtV_perm h

open FV DM in
theorem V2_perm {t : Nat} {v w : List (List UInt8)} (h : v.Perm w) : (V2 t v).Perm (V2 t w) :=
  filtV_perm (V1_perm h)

open FV DM in
theorem V3_perm {t : Nat} {ge1 filt : Bool} {v w : List (List UInt8)} (h : v.Perm w) :
    (V3 t ge1 filt v).Perm (V3 t ge1 filt w) := by
  unfold V3
  split
  · split
    · exact maskV_perm (filtV_perm (V2_perm h))
    · exact filtV_perm (V2_perm h)
  · exact V2_perm h

open FV DM in
theorem cstOf_perm {t : Nat} {v w : List (List UInt8)} (h : v.Perm w) : cstOf t v = cstOf t w := by
  unfold cstOf
  rw [(nonEmpty_perm (V1_perm h)).length_eq, (V2_perm (t := t) h).length_eq]

/-! ### row permutation: table operations -/

theorem equiv_refl (t : Table) : t.Equiv t := ⟨rfl, List.Perm.refl _⟩
theorem equiv_symm {s t : Table} (h : s.Equiv t) : t.Equiv s := ⟨h.1.symm, h.2.symm⟩
theorem equiv_trans {s t u : Table} (h : s.Equiv t) (h' : t.Equiv u) : s.Equiv u :=
  ⟨h.1.trans h'.1, h.2.trans h'.2⟩

theorem filterRows_equiv {s t : Table} (h : s.Equiv t) (p : Nat × List UInt8 → Bool) :
    (s.filterRows p).Equiv (t.filterRows p) := ⟨h.1, h.2.filter p⟩

theorem weed_equiv {s t : Table} (h : s.Equiv t) (ks : List Nat) (rev : Bool) :
    (s.weed ks rev).Equiv (t.weed ks rev) := filterRows_equiv h _

theorem selectCols_equiv {s t : Table} (h : s.Equiv t) (idx : List Nat) :
    (s.selectCols idx).Equiv (t.selectCols idx) := by
  refine ⟨?_, ?_⟩
  · simp only [Table.selectCols, h.1]
  · exact (h.2.map _).filter _

theorem deleteSamples_equiv {s t : Table} (h : s.Equiv t) (del : List String) :
    (s.deleteSamples del).Equiv (t.deleteSamples del) := by
  unfold Table.deleteSamples
  rw [h.1]
  exact selectCols_equiv h _

theorem alignColumns_perm {s t : Table} (h : s.Equiv t) (n : Nat) (famb : Bool) (ft : Table.SiteFilter)
    (mask gaps : Bool) :
    (s.alignColumns n famb ft mask gaps).Perm (t.alignColumns n famb ft mask gaps) :=
  ((h.2.map _).filter _).map _

theorem alignColumnsI_perm {s t : Table} (h : s.Equiv t) (n : Nat) (famb : Bool) (ft : FilterType)
    (mask gaps : Bool) :
    (Props.C06.alignColumnsI s n famb ft mask gaps).Perm (Props.C06.alignColumnsI t n famb ft mask gaps) :=
  ((h.2.map _).filter _).map _

/-! ### row permutation: `concat` (needs distinct keys) -/

theorem lookup_perm {ν : Type} {d e : Assoc Nat ν} (hp : d.Perm e) (hn : (Assoc.keys d).Nodup) (k : Nat) :
    Assoc.lookup d k = Assoc.lookup e k := by
  have hn' : (Assoc.keys e).Nodup := (hp.map _).nodup_iff.mp hn
  cases hd : Assoc.lookup d k with
  | none =>
    have : k ∉ Assoc.keys e := fun hk =>
      (Assoc.lookup_eq_none_iff_J.mp hd) ((hp.map (·.1)).mem_iff.mpr hk)
    exact (Assoc.lookup_eq_none_iff_J.mpr this).symm
  | some v =>
    have hm : (k, v) ∈ e := hp.mem_iff.mp (Assoc.mem_of_lookup_J hd)
    exact (Assoc.lookup_of_mem hn' hm).symm

theorem keys_perm {s t : Table} (h : s.Equiv t) : s.keys.Perm t.keys := h.2.map _

theorem lookupRow_equiv {s t : Table} (h : s.Equiv t) (hs : s.keys.Nodup) (k : Nat) :
    s.lookupRow k = t.lookupRow k := lookup_perm h.2 hs k

theorem width_equiv {s t : Table} (h : s.Equiv t) : s.width = t.width := by
  unfold Table.width; rw [h.1]

/-- column concatenation respects row order on both sides (tables with distinct keys) -/
theorem concat_equiv {s t u v : Table} (h : s.Equiv t) (h' : u.Equiv v)
    (hs : s.keys.Nodup) (hu : u.keys.Nodup) : (s.concat u).Equiv (t.concat v) := by
  refine ⟨?_, ?_⟩
  · simp only [Table.concat, h.1, h'.1]
  · have hf : (fun k => (k, (s.lookupRow k).getD (List.replicate s.width gap)
          ++ (u.lookupRow k).getD (List.replicate u.width gap)))
        = (fun k => (k, (t.lookupRow k).getD (List.replicate t.width gap)
          ++ (v.lookupRow k).getD (List.replicate v.width gap))) := by
      funext k
      rw [lookupRow_equiv h hs, lookupRow_equiv h' hu, width_equiv h, width_equiv h']
    have hp : (fun k => !s.keys.contains k) = (fun k => !t.keys.contains k) := by
      funext k
      simp only [List.contains_eq_mem, (keys_perm h).mem_iff]
    show (List.map _ _).Perm (List.map _ _)
    rw [hf, hp]
    exact ((keys_perm h).append ((keys_perm h').filter _)).map _

theorem foldl_concat_equiv (ts : List Table) (hts : ∀ u ∈ ts, Table.WF u) {s t : Table}
    (h : s.Equiv t) (hs : Table.WF s) :
    (ts.foldl Table.concat s).Equiv (ts.foldl Table.concat t) ∧ Table.WF (ts.foldl Table.concat s) := by
  induction ts generalizing s t with
  | nil => exact ⟨h, hs⟩
  | cons u ts ih =>
    simp only [List.foldl_cons]
    have hu := hts u (List.mem_cons_self ..)
    exact ih (fun w hw => hts w (List.mem_cons_of_mem _ hw))
      (concat_equiv h (equiv_refl u) hs.2 hu.2) (Table.concat_wf _ _ hs hu)

/-! ### table well-formedness through the table operations -/

theorem wf_equiv {s t : Table} (h : s.Equiv t) (hs : Table.WF s) : Table.WF t := by
  refine ⟨?_, ?_⟩
  · intro r hr
    rw [← h.1]
    exact hs.1 r (h.2.mem_iff.mpr hr)
  · exact (h.2.map _).nodup_iff.mp hs.2

theorem filterRows_wf {t : Table} (ht : Table.WF t) (p : Nat × List UInt8 → Bool) :
    Table.WF (t.filterRows p) := by
  refine ⟨?_, ?_⟩
  · intro r hr
    exact ht.1 r (List.mem_filter.mp hr).1
  · exact ht.2.sublist (List.filter_sublist.map _)

theorem selectCols_wf {t : Table} (ht : Table.WF t) (idx : List Nat) : Table.WF (t.selectCols idx) := by
  refine ⟨?_, ?_⟩
  · intro r hr
    simp only [Table.selectCols, List.mem_filter, List.mem_map] at hr
    obtain ⟨⟨r0, _, rfl⟩, _⟩ := hr
    simp [Table.selectCols]
  · have hsub : ((t.selectCols idx).rows.map (·.1)).Sublist
        ((t.rows.map (fun r => (r.1, idx.map (fun i => r.2.getD i gap)))).map (·.1)) :=
      List.filter_sublist.map _
    rw [List.map_map] at hsub
    exact ht.2.sublist hsub

theorem deleteSamples_wf {t : Table} (ht : Table.WF t) (del : List String) :
    Table.WF (t.deleteSamples del) := selectCols_wf ht _

end SkaModel.Hist
