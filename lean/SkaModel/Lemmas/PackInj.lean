/-
`Spec.packL` is injective on lists of 2-bit codes of equal length; a window's
palindrome flag is a function of its canonical key.
-/
import SkaModel.Lemmas.Pack
import SkaModel.Lemmas.Roll

namespace SkaModel

open SkaModel.Spec

theorem packL_inj {a b : List Nat} (ha : Codes a) (hb : Codes b) (hl : a.length = b.length)
    (h : packL a = packL b) : a = b := by
  induction a generalizing b with
  | nil =>
    cases b with
    | nil => rfl
    | cons _ _ => simp at hl
  | cons x xs ih =>
    cases b with
    | nil => simp at hl
    | cons y ys =>
      have hl' : xs.length = ys.length := by simpa using hl
      rw [packL_cons, packL_cons, hl'] at h
      have h1 := packL_lt ha.tail
      have h2 := packL_lt hb.tail
      rw [hl'] at h1
      have hP : 0 < 4 ^ ys.length := Nat.pow_pos (by omega)
      have hd : (x * 4 ^ ys.length + packL xs) / 4 ^ ys.length
          = (y * 4 ^ ys.length + packL ys) / 4 ^ ys.length := by rw [h]
      rw [Nat.mul_comm x, Nat.mul_comm y, Nat.mul_add_div hP, Nat.mul_add_div hP,
        Nat.div_eq_of_lt h1, Nat.div_eq_of_lt h2] at hd
      have hxy : x = y := by omega
      subst hxy
      have : packL xs = packL ys := by omega
      rw [ih ha.tail hb.tail hl' this]

theorem armsAt_length (k : Nat) (seq : Array UInt8) (j : Nat) :
    (armsAt k seq j).length = 2 * ((k - 1) / 2) := by
  unfold armsAt
  simp only [List.length_append, codesAt_length]
  omega

theorem armsAt_codes (k : Nat) (seq : Array UInt8) (j : Nat) : Codes (armsAt k seq j) := by
  unfold armsAt
  exact Codes.append (codesAt_codes _ _ _) (codesAt_codes _ _ _)

/-- the key of a window is the smaller of the two packings when both strands are used -/
theorem obs_key (k : Nat) (rc : Bool) (seq : Array UInt8) (j : Nat) :
    (obs k rc seq j).1
      = if rc = true ∧ packL (armsAt k seq j) > packL (rcCodes (armsAt k seq j))
        then packL (rcCodes (armsAt k seq j)) else packL (armsAt k seq j) := by
  unfold obs
  simp only
  by_cases h : rc = true ∧ packL (armsAt k seq j) > packL (rcCodes (armsAt k seq j))
  · rw [if_pos h, if_pos (by simpa using h)]
  · rw [if_neg h, if_neg (by simpa using h)]

theorem isPalin_iff (k : Nat) (rc : Bool) (seq : Array UInt8) (j : Nat) :
    isPalin k rc seq j = true ↔ rc = true ∧ rcCodes (armsAt k seq j) = armsAt k seq j := by
  unfold isPalin
  simp only [Bool.and_eq_true, beq_iff_eq]
  constructor
  · rintro ⟨h1, h2⟩
    refine ⟨h1, ?_⟩
    exact (packL_inj (armsAt_codes k seq j) (rcCodes_codes (armsAt_codes k seq j))
      (rcCodes_length _).symm h2).symm
  · rintro ⟨h1, h2⟩
    exact ⟨h1, by rw [h2]⟩

/-- one direction of `palin_of_key` -/
theorem palin_of_key_aux (k : Nat) (rc : Bool) (r r' : Array UInt8) (j j' : Nat)
    (hkey : (obs k rc r j).1 = (obs k rc r' j').1) (hp : isPalin k rc r j = true) :
    isPalin k rc r' j' = true := by
  rw [isPalin_iff] at hp ⊢
  obtain ⟨hrc, hself⟩ := hp
  refine ⟨hrc, ?_⟩
  rw [obs_key, obs_key, hself] at hkey
  have hlen : (armsAt k r j).length = (armsAt k r' j').length := by
    rw [armsAt_length, armsAt_length]
  have hc := armsAt_codes k r j
  have hc' := armsAt_codes k r' j'
  rw [if_neg (by omega)] at hkey
  by_cases h : rc = true ∧ packL (armsAt k r' j') > packL (rcCodes (armsAt k r' j'))
  · rw [if_pos h] at hkey
    have e : armsAt k r j = rcCodes (armsAt k r' j') :=
      packL_inj hc (rcCodes_codes hc') (by rw [rcCodes_length]; exact hlen) hkey
    have e' : armsAt k r' j' = armsAt k r j := by
      rw [← rcCodes_rcCodes (armsAt k r' j'), ← e, hself]
    rw [e', hself]
  · rw [if_neg h] at hkey
    have e : armsAt k r j = armsAt k r' j' := packL_inj hc hc' hlen hkey
    rw [← e, hself]

end SkaModel
