/-
C17 completeness — `groupSnps` on a good group: the retained positions are the sites of the group; a
new site contributes the column of the bases of all samples and blocks its k-mers, a blocked site
contributes nothing.
-/
import SkaModel.Lemmas.LOCCall1
import SkaModel.Lemmas.LOCalls

namespace SkaModel.LOC

open SkaModel SkaModel.Spec SkaModel.Props.C16 SkaModel.Skalo SkaModel.Props.C17G SkaModel.LOG

/-- the body of the outer loop of `groupSnps` -/
def posStep (W kG n mNum mDen : Nat) (col : Colours) (done : List Nat) (vs : List Variant)
    (acc : List (List UInt8) × List Nat) (pos : Nat) : Option (List (List UInt8) × List Nat) :=
  if pos < kG then none
  else
    (vs.foldlM (LORL.inner W kG col done pos) (List.replicate n 45, [], true)).bind (fun st =>
      if st.2.2 then
        if (checkMissingData st.1).1 && ratioLe (checkMissingData st.1).2 n mNum mDen then
          some (acc.1 ++ [st.1], acc.2 ++ st.2.1)
        else some acc
      else some acc)

theorem groupSnps_eq (W kG n mNum mDen : Nat) (col : Colours) (done : List Nat) (vs : List Variant) :
    groupSnps W kG n mNum mDen col done vs =
      (getPotentialSnp vs).foldlM (posStep W kG n mNum mDen col done vs) ([], []) := by
  unfold groupSnps
  simp only
  congr 1

variable {k L : Nat} {T : List (List UInt8)} {PT : List Nat}

/-- the column of a site: the base of every sample -/
def colT (T : List (List UInt8)) (q : Nat) : List UInt8 := T.map (fun t => t.getD q 0)

theorem check_colT (pf : PFam k L T PT) {q : Nat} (hq : q ∈ PT) :
    checkMissingData (colT T q) = (true, 0) := by
  have hqe := pf.ends q hq
  have hbase : ∀ b ∈ colT T q, isACGT b = true := by
    intro b hb
    obtain ⟨t, ht, rfl⟩ := List.mem_map.mp hb
    exact pf.base ht _ (getD_mem (by rw [pf.len ht]; omega))
  apply Prod.ext
  · obtain ⟨s, hs, s', hs', hne⟩ := pf.poly q hq
    exact (LO.check_fst_exists _).mpr ⟨_, _, hne, hbase _ (List.mem_map.mpr ⟨s, hs, rfl⟩),
      hbase _ (List.mem_map.mpr ⟨s', hs', rfl⟩), List.mem_map.mpr ⟨s, hs, rfl⟩, List.mem_map.mpr ⟨s', hs', rfl⟩⟩
  · rw [LO.check_snd]
    have : (colT T q).filter isACGT = colT T q := List.filter_eq_self.mpr hbase
    rw [this]
    simp

/-- the retained positions of a good group are the positions of its sites -/
theorem gg_positions (pf : PFam k L T PT) (hk5 : 5 ≤ k) {c0 len : Nat} {vs : List Variant}
    (hg : GG k L T PT c0 len vs) (pos : Nat) :
    pos ∈ getPotentialSnp vs ↔ ∃ q ∈ PT, c0 ≤ q ∧ q < c0 + len ∧ pos = q - c0 := by
  rw [LO.mem_getPotentialSnp]
  constructor
  · rintro ⟨_, a, b, hab, _, _, ⟨v, hv, hva⟩, ⟨v', hv', hvb⟩⟩
    obtain ⟨hlen, _, hw⟩ := hg.hv v hv
    obtain ⟨hlen', _, hw'⟩ := hg.hv v' hv'
    have hpos : pos < len := by rw [← hlen]; exact (List.getElem?_eq_some_iff.mp hva).1
    have hk := hg.hk
    have hL := hg.hL
    -- a window containing the position
    obtain ⟨t, ht, hwt⟩ := hw (min pos (len - k)) (by omega)
    obtain ⟨t', ht', hwt'⟩ := hw' (min pos (len - k)) (by omega)
    have e1 := PFam.win_getD (s := v.1) (t := t) (j := min pos (len - k)) (m := k) (p := pos)
    have hne : t.getD (c0 + pos) 0 ≠ t'.getD (c0 + pos) 0 := by
      have g1 := (win_eq_iff (by rw [hlen]; omega) (by rw [pf.len ht]; omega)).mp hwt (pos - min pos (len - k)) (by omega)
      have g2 := (win_eq_iff (by rw [hlen']; omega) (by rw [pf.len ht']; omega)).mp hwt' (pos - min pos (len - k)) (by omega)
      rw [show min pos (len - k) + (pos - min pos (len - k)) = pos by omega,
        show c0 + min pos (len - k) + (pos - min pos (len - k)) = c0 + pos by omega] at g1 g2
      rw [← g1, ← g2, List.getD_eq_getElem?_getD, List.getD_eq_getElem?_getD, hva, hvb]
      exact hab
    have hsite : c0 + pos ∈ PT := by
      apply Classical.byContradiction
      intro hno
      exact hne (pf.off t ht t' ht' (c0 + pos) (by omega) hno)
    exact ⟨c0 + pos, hsite, by omega, by omega, by omega⟩
  · rintro ⟨q, hq, h1, h2, rfl⟩
    obtain ⟨s, hs, s', hs', hne⟩ := pf.poly q hq
    obtain ⟨v, hv, hvl⟩ := hg.cov q hq h1 h2 s hs
    obtain ⟨v', hv', hvl'⟩ := hg.cov q hq h1 h2 s' hs'
    have hqe := pf.ends q hq
    have hget : ∀ u ∈ vs, u.1[q - c0]? = some (u.1.getD (q - c0) 0) := by
      intro u hu
      rw [List.getD_eq_getElem?_getD, List.getElem?_eq_getElem (by rw [(hg.hv u hu).1]; omega)]
      rfl
    refine ⟨hg.mark q hq h1 h2, s.getD q 0, s'.getD q 0, hne,
      pf.base hs _ (getD_mem (by rw [pf.len hs]; omega)), pf.base hs' _ (getD_mem (by rw [pf.len hs']; omega)),
      ⟨v, hv, by rw [hget v hv, hvl]⟩, ⟨v', hv', by rw [hget v' hv', hvl']⟩⟩

/-- **`groupSnps` on a good group**: every site of the group is either blocked (`old`) or untouched
(`new`); the columns are those of the new sites (each once), the saved k-mers belong to the new sites
and include the k-mers that block them -/
theorem groupSnps_good (pf : PFam k L T PT) (hk5 : 5 ≤ k) {W : Nat} (hW : 2 * k ≤ W) (hw : W = 64 ∨ W = 128)
    {col : Colours} (hc : ColOK k L col T) (done : List Nat) (mNum mDen : Nat) {c0 len : Nat} {vs : List Variant}
    (hg : GG k L T PT c0 len vs) (hne : vs ≠ [])
    (hdich : ∀ q ∈ PT, c0 ≤ q → q < c0 + len →
      (∀ t ∈ T, kmerAt k t (q - k + 1) ∈ done) ∨
      (∀ t ∈ T, kmerAt k t (q - k + 1) ∉ done ∧ rcKmerAt k t q ∉ done)) :
    ∃ (Qn : List Nat) (save : List Nat),
      groupSnps W (k - 1) T.length mNum mDen col done vs = some (Qn.map (colT T), save) ∧
      Qn.Nodup ∧
      (∀ q, q ∈ Qn ↔ q ∈ PT ∧ c0 ≤ q ∧ q < c0 + len ∧ ∀ t ∈ T, kmerAt k t (q - k + 1) ∉ done) ∧
      (∀ x ∈ save, ∃ q ∈ Qn, Blk k T q x) ∧
      (∀ q ∈ Qn, ∀ t ∈ T, kmerAt k t (q - k + 1) ∈ save ∧ rcKmerAt k t q ∈ save) := by
  obtain ⟨t0, ht0⟩ := List.exists_mem_of_ne_nil T pf.ne
  rw [groupSnps_eq]
  -- the loop over a list of positions of sites
  have loop : ∀ (ps : List Nat), ps.Nodup → (∀ pos ∈ ps, ∃ q ∈ PT, c0 ≤ q ∧ q < c0 + len ∧ pos = q - c0) →
      ∀ acc : List (List UInt8) × List Nat, ∃ (Qn : List Nat) (save : List Nat),
        ps.foldlM (posStep W (k - 1) T.length mNum mDen col done vs) acc =
          some (acc.1 ++ Qn.map (colT T), acc.2 ++ save) ∧
        Qn.Nodup ∧
        (∀ q, q ∈ Qn ↔ q ∈ PT ∧ c0 ≤ q ∧ q < c0 + len ∧ q - c0 ∈ ps ∧ ∀ t ∈ T, kmerAt k t (q - k + 1) ∉ done) ∧
        (∀ x ∈ save, ∃ q ∈ Qn, Blk k T q x) ∧
        (∀ q ∈ Qn, ∀ t ∈ T, kmerAt k t (q - k + 1) ∈ save ∧ rcKmerAt k t q ∈ save) := by
    intro ps
    induction ps with
    | nil =>
      intro _ _ acc
      exact ⟨[], [], by simp, by simp, by simp, by simp, by simp⟩
    | cons pos rest ih =>
      intro hnd hps acc
      rw [List.nodup_cons] at hnd
      obtain ⟨q, hq, h1, h2, hpq⟩ := hps pos (List.mem_cons_self ..)
      obtain ⟨hr1, hr2⟩ := hg.room q hq h1 h2
      have hrest := fun acc' => ih hnd.2 (fun p hp => hps p (List.mem_cons_of_mem _ hp)) acc'
      have hposk : ¬ pos < k - 1 := by omega
      rw [List.foldlM_cons]
      rcases hdich q hq h1 h2 with hold | hnew
      · -- blocked site
        have hs : posStep W (k - 1) T.length mNum mDen col done vs acc pos = some acc := by
          unfold posStep
          rw [if_neg hposk, hpq, inner_old pf hk5 hW hw hg hne hq h1 h2 hold]
          rfl
        rw [hs]
        simp only [Option.bind_eq_bind, Option.bind_some]
        obtain ⟨Qn, save, hf, hQ1, hQ2, hQ3, hQ4⟩ := hrest acc
        refine ⟨Qn, save, hf, hQ1, ?_, hQ3, hQ4⟩
        intro q'
        rw [hQ2]
        constructor
        · rintro ⟨a, b, c, d, e⟩
          exact ⟨a, b, c, List.mem_cons_of_mem _ d, e⟩
        · rintro ⟨a, b, c, d, e⟩
          refine ⟨a, b, c, ?_, e⟩
          rcases List.mem_cons.mp d with d | d
          · exfalso
            have : q' = q := by omega
            rw [this] at e
            exact e t0 ht0 (hold t0 ht0)
          · exact d
      · -- new site
        obtain ⟨tmp, hfold, htmp1, htmp2⟩ := inner_new pf hk5 hW hw hc hg hq h1 h2 hnew
        have hcheck : checkMissingData (List.map (fun t => t.getD q 0) T) = (true, 0) := check_colT pf hq
        have hr : ratioLe 0 T.length mNum mDen = true := by unfold ratioLe; simp
        have hs : posStep W (k - 1) T.length mNum mDen col done vs acc pos =
            some (acc.1 ++ [colT T q], acc.2 ++ tmp) := by
          unfold posStep
          rw [if_neg hposk, hpq, hfold]
          simp only [Option.bind_some, if_true, hcheck, hr, Bool.and_self]
          rfl
        rw [hs]
        simp only [Option.bind_eq_bind, Option.bind_some]
        obtain ⟨Qn, save, hf, hQ1, hQ2, hQ3, hQ4⟩ := hrest (acc.1 ++ [colT T q], acc.2 ++ tmp)
        have hqn : q ∉ Qn := by
          intro hm
          have := ((hQ2 q).mp hm).2.2.2.1
          rw [← hpq] at this
          exact hnd.1 this
        refine ⟨q :: Qn, tmp ++ save, ?_, List.nodup_cons.mpr ⟨hqn, hQ1⟩, ?_, ?_, ?_⟩
        · rw [hf]
          simp
        · intro q'
          rw [List.mem_cons, hQ2]
          constructor
          · rintro (e | ⟨a, b, c, d, e⟩)
            · subst e
              exact ⟨hq, h1, h2, by rw [← hpq]; exact List.mem_cons_self .., fun t ht => (hnew t ht).1⟩
            · exact ⟨a, b, c, List.mem_cons_of_mem _ d, e⟩
          · rintro ⟨a, b, c, d, e⟩
            rcases List.mem_cons.mp d with d | d
            · left; omega
            · exact Or.inr ⟨a, b, c, d, e⟩
        · intro x hx
          rcases List.mem_append.mp hx with h | h
          · exact ⟨q, List.mem_cons_self .., htmp1 x h⟩
          · obtain ⟨q', hq', hb⟩ := hQ3 x h
            exact ⟨q', List.mem_cons_of_mem _ hq', hb⟩
        · intro q' hq' t ht
          rcases List.mem_cons.mp hq' with e | h
          · subst e
            exact ⟨List.mem_append_left _ (htmp2 t ht).1, List.mem_append_left _ (htmp2 t ht).2⟩
          · exact ⟨List.mem_append_right _ (hQ4 q' h t ht).1, List.mem_append_right _ (hQ4 q' h t ht).2⟩
  have hsorted := LO.getPotentialSnp_sorted vs
  obtain ⟨Qn, save, hf, hQ1, hQ2, hQ3, hQ4⟩ := loop (getPotentialSnp vs)
    (hsorted.imp (fun h => Nat.ne_of_lt h)) (fun pos hp => (gg_positions pf hk5 hg pos).mp hp) ([], [])
  refine ⟨Qn, save, by simpa using hf, hQ1, ?_, hQ3, hQ4⟩
  intro q
  rw [hQ2]
  constructor
  · rintro ⟨a, b, c, _, e⟩; exact ⟨a, b, c, e⟩
  · rintro ⟨a, b, c, e⟩
    exact ⟨a, b, c, (gg_positions pf hk5 hg _).mpr ⟨q, a, b, c, rfl⟩, e⟩

end SkaModel.LOC
