/-
Per-column analysis of the VCF writer model (`RefSka.vcfRecords`): the genotype
strings are the decimal rendering of allele indices, and decoding them through
REF/ALT gives back the class of every sample's aligned character.
-/
import SkaModel.Impl.RefSka
import SkaModel.Spec.MapSpec
import SkaModel.Lemmas.Bytes
import Std.Data.String.ToNat

namespace SkaModel.VCF

open SkaModel SkaModel.Spec

/-! ### the column fold, with strings and with indices -/

/-- the loop body of `write_vcf` over one alignment column (as in `RefSka.vcfRecords`) -/
def gtStep (refBase : UInt8) (acc : List UInt8 × List String × Bool) (b : UInt8) :
    List UInt8 × List String × Bool :=
  let (alts, gts, v) := acc
  if b == refBase then (alts, gts ++ ["0"], v)
  else if b == GAP then (alts, gts ++ ["."], true)
  else
    let a := u8ToBase b
    let alts := if alts.contains a then alts else alts ++ [a]
    (alts, gts ++ [toString ((alts.idxOf a) + 1)], true)

/-- the same loop body producing allele indices: `none` = ".", `some 0` = REF, `some i` = ALT i -/
def gtIdxStep (refBase : UInt8) (acc : List UInt8 × List (Option Nat) × Bool) (b : UInt8) :
    List UInt8 × List (Option Nat) × Bool :=
  let (alts, gis, v) := acc
  if b == refBase then (alts, gis ++ [some 0], v)
  else if b == GAP then (alts, gis ++ [none], true)
  else
    let a := u8ToBase b
    let alts := if alts.contains a then alts else alts ++ [a]
    (alts, gis ++ [some ((alts.idxOf a) + 1)], true)

/-- the genotype string of an allele index -/
def render : Option Nat → String
  | none => "."
  | some n => toString n

/-- (ALT alleles, allele indices per sample, variant flag) of a column -/
def colIdx (refBase : UInt8) (col : List UInt8) : List UInt8 × List (Option Nat) × Bool :=
  col.foldl (gtIdxStep refBase) ([], [], false)

/-- the body of the `filterMap` in `RefSka.vcfRecords` -/
def vcfColumn (r : RefSka) (aln : List (Array UInt8)) (i chrom pos : Nat) : Option RefSka.VcfRecord :=
  let refBase := (r.seq.getD chrom #[]).getD pos 0
  let col := aln.map (fun s => s.getD i GAP)
  let (alts, gts, variant) := col.foldl (gtStep refBase) ([], [], false)
  if variant then some { chrom := r.chromNames.getD chrom "", pos := pos + 1, ref := u8ToBase refBase, alts := alts, gts := gts }
  else none

theorem vcfRecords_eq (r : RefSka) (aln : List (Array UInt8)) :
    RefSka.vcfRecords r aln =
      ((List.range (aln.headD #[]).size).zip (RefSka.idxCheck r.seq)).filterMap
        (fun ic => vcfColumn r aln ic.1 ic.2.1 ic.2.2) := rfl


/-! ### strings are the rendering of indices -/

theorem render_zero : render (some 0) = "0" := by decide

theorem gtStep_render (rb : UInt8) (alts : List UInt8) (gis : List (Option Nat)) (v : Bool) (b : UInt8) :
    gtStep rb (alts, gis.map render, v) b =
      ((gtIdxStep rb (alts, gis, v) b).1, (gtIdxStep rb (alts, gis, v) b).2.1.map render,
        (gtIdxStep rb (alts, gis, v) b).2.2) := by
  simp only [gtStep, gtIdxStep]
  split
  · simp [render_zero]
  · split
    · simp [render]
    · simp [render]

theorem foldl_gtStep_render (rb : UInt8) (col : List UInt8) :
    ∀ (alts : List UInt8) (gis : List (Option Nat)) (v : Bool),
      col.foldl (gtStep rb) (alts, gis.map render, v) =
        ((col.foldl (gtIdxStep rb) (alts, gis, v)).1,
          (col.foldl (gtIdxStep rb) (alts, gis, v)).2.1.map render,
          (col.foldl (gtIdxStep rb) (alts, gis, v)).2.2) := by
  induction col with
  | nil => intro alts gis v; rfl
  | cons b bs ih =>
    intro alts gis v
    simp only [List.foldl_cons]
    rw [gtStep_render, ih]

/-- the string fold of the frozen model is the rendering of the index fold -/
theorem foldl_gtStep_eq (rb : UInt8) (col : List UInt8) :
    col.foldl (gtStep rb) ([], [], false) =
      ((colIdx rb col).1, (colIdx rb col).2.1.map render, (colIdx rb col).2.2) :=
  foldl_gtStep_render rb col [] [] false

/-- `vcfColumn` through the index fold -/
theorem vcfColumn_eq (r : RefSka) (aln : List (Array UInt8)) (i chrom pos : Nat) :
    vcfColumn r aln i chrom pos =
      (let rb := (r.seq.getD chrom #[]).getD pos 0
       let res := colIdx rb (aln.map (fun s => s.getD i GAP))
       if res.2.2 then
         some { chrom := r.chromNames.getD chrom "", pos := pos + 1, ref := u8ToBase rb,
                alts := res.1, gts := res.2.1.map render }
       else none) := by
  simp only [vcfColumn]
  rw [foldl_gtStep_eq]

/-! ### decoding indices -/

/-- the allele a genotype index points to: '.', REF, or the (i-1)-th ALT -/
def decodeIdx (ref : UInt8) (alts : List UInt8) : Option Nat → UInt8
  | none => 46
  | some 0 => ref
  | some (i + 1) => alts.getD i 0

/-- what a genotype decodes to: a character equal to the reference byte is reported as REF
(`u8ToBase` of the reference byte), anything else by its class -/
def gtClass (rb b : UInt8) : UInt8 := if b == rb then u8ToBase rb else vcfClass b

theorem getD_idxOf_append (a : UInt8) (l ext : List UInt8) (h : a ∈ l) :
    (l ++ ext).getD (l.idxOf a) 0 = a := by
  have hlt : l.idxOf a < l.length := List.idxOf_lt_length_iff.mpr h
  rw [List.getD_eq_getElem?_getD, List.getElem?_append_left hlt, List.getElem?_eq_getElem hlt,
    List.getElem_idxOf hlt]
  rfl

theorem vcfClass_eq_u8ToBase (b : UInt8) (h : b ≠ 45) : vcfClass b = u8ToBase b := by
  revert b; exact forall_uint8 (by decide +kernel)

/-- invariant of the column loop after the samples `seen` -/
structure ColInv (rb : UInt8) (acc : List UInt8 × List (Option Nat) × Bool) (seen : List UInt8) : Prop where
  nodup : acc.1.Nodup
  decode : ∀ ext, acc.2.1.map (decodeIdx (u8ToBase rb) (acc.1 ++ ext)) = seen.map (gtClass rb)
  flag : acc.2.2 = seen.any (· != rb)
  src : ∀ a ∈ acc.1, ∃ b ∈ seen, b ≠ rb ∧ b ≠ 45 ∧ a = u8ToBase b
  used : ∀ j, j < acc.1.length → some (j + 1) ∈ acc.2.1
  bound : ∀ j, some (j + 1) ∈ acc.2.1 → j < acc.1.length

theorem colInv_init (rb : UInt8) : ColInv rb ([], [], false) [] :=
  ⟨List.nodup_nil, (by intro ext; rfl), rfl, (by intro a h; cases h), (by intro j h; cases h),
    (by intro j h; cases h)⟩

theorem colInv_step (rb : UInt8) (acc : List UInt8 × List (Option Nat) × Bool) (seen : List UInt8)
    (b : UInt8) (h : ColInv rb acc seen) : ColInv rb (gtIdxStep rb acc b) (seen ++ [b]) := by
  obtain ⟨alts, gis, v⟩ := acc
  obtain ⟨hnd, hdec, hflag, hsrc, hused, hbound⟩ := h
  simp only at hnd hdec hflag hsrc hused hbound
  by_cases h1 : b = rb
  · -- genotype "0"
    have e : gtIdxStep rb (alts, gis, v) b = (alts, gis ++ [some 0], v) := by
      simp [gtIdxStep, h1]
    rw [e]
    refine ⟨hnd, ?_, ?_, ?_, ?_, ?_⟩
    · intro ext
      simp only [List.map_append, hdec ext, List.map_cons, List.map_nil]
      simp [decodeIdx, gtClass, h1]
    · simp [hflag, h1]
    · intro a ha
      obtain ⟨b', hb', h'⟩ := hsrc a ha
      exact ⟨b', List.mem_append_left _ hb', h'⟩
    · intro j hj; exact List.mem_append_left _ (hused j hj)
    · intro j hj
      rcases List.mem_append.mp hj with hj | hj
      · exact hbound j hj
      · simp at hj
  · by_cases h2 : b = 45
    · -- genotype "."
      have e : gtIdxStep rb (alts, gis, v) b = (alts, gis ++ [none], true) := by
        have : ¬ (45 : UInt8) = rb := by rw [← h2]; exact h1
        simp [gtIdxStep, h2, GAP, this]
      rw [e]
      refine ⟨hnd, ?_, ?_, ?_, ?_, ?_⟩
      · intro ext
        have hne : ¬ (45 : UInt8) = rb := by rw [← h2]; exact h1
        simp only [List.map_append, hdec ext, List.map_cons, List.map_nil]
        simp [decodeIdx, gtClass, h2, hne, vcfClass]
      · simp [h1]
      · intro a ha
        obtain ⟨b', hb', h'⟩ := hsrc a ha
        exact ⟨b', List.mem_append_left _ hb', h'⟩
      · intro j hj; exact List.mem_append_left _ (hused j hj)
      · intro j hj
        rcases List.mem_append.mp hj with hj | hj
        · exact hbound j hj
        · simp at hj
    · -- an ALT allele
      have e : gtIdxStep rb (alts, gis, v) b =
          ((if alts.contains (u8ToBase b) then alts else alts ++ [u8ToBase b]),
            gis ++ [some ((if alts.contains (u8ToBase b) then alts else alts ++ [u8ToBase b]).idxOf (u8ToBase b) + 1)],
            true) := by
        simp [gtIdxStep, h1, h2, GAP]
      rw [e]
      generalize ha' : (if alts.contains (u8ToBase b) then alts else alts ++ [u8ToBase b]) = alts'
      have hprop : ∃ tail, alts' = alts ++ tail ∧ u8ToBase b ∈ alts' ∧ alts'.Nodup ∧
          (∀ x ∈ tail, x = u8ToBase b) := by
        by_cases hc : u8ToBase b ∈ alts
        · refine ⟨[], ?_, ?_, ?_, ?_⟩
          · rw [← ha']; simp [hc]
          · rw [← ha']; simp [hc]
          · rw [← ha']; simpa [hc] using hnd
          · intro x hx; cases hx
        · refine ⟨[u8ToBase b], ?_, ?_, ?_, ?_⟩
          · rw [← ha']; simp [hc]
          · rw [← ha']; simp [hc]
          · rw [← ha']
            simp only [List.contains_eq_mem, hc, decide_false, Bool.false_eq_true, if_false]
            rw [List.nodup_append]
            refine ⟨hnd, by simp, ?_⟩
            intro x hx y hy hxy
            simp only [List.mem_singleton] at hy
            subst hy; subst hxy; exact hc hx
          · intro x hx; simpa using hx
      obtain ⟨tail, htail, hmem, hnd', htl⟩ := hprop
      refine ⟨hnd', ?_, ?_, ?_, ?_, ?_⟩
      · intro ext
        simp only [List.map_append, List.map_cons, List.map_nil]
        have := hdec (tail ++ ext)
        rw [← List.append_assoc, ← htail] at this
        rw [this]
        congr 1
        simp only [decodeIdx, gtClass]
        rw [getD_idxOf_append _ _ _ hmem]
        simp [h1, vcfClass_eq_u8ToBase b h2]
      · simp [h1]
      · intro a ha
        rw [htail] at ha
        rcases List.mem_append.mp ha with ha | ha
        · obtain ⟨b', hb', h'⟩ := hsrc a ha
          exact ⟨b', List.mem_append_left _ hb', h'⟩
        · exact ⟨b, by simp, h1, h2, htl a ha⟩
      · intro j hj
        by_cases hjl : j < alts.length
        · exact List.mem_append_left _ (hused j hjl)
        · -- the new allele
          apply List.mem_append_right
          simp only [List.mem_singleton, Option.some.injEq, Nat.add_right_cancel_iff]
          have hlt : alts'.idxOf (u8ToBase b) < alts'.length := List.idxOf_lt_length_iff.mpr hmem
          cases tail with
          | nil => rw [htail] at hj; simp at hj; omega
          | cons t ts =>
            have ht : t = u8ToBase b := htl t (by simp)
            have hni : u8ToBase b ∉ alts := by
              intro hin
              rw [htail, List.nodup_append] at hnd'
              exact hnd'.2.2 _ hin t (by simp) ht.symm
            have hts : ts = [] := by
              cases ts with
              | nil => rfl
              | cons t2 ts2 =>
                have ht2 : t2 = u8ToBase b := htl t2 (by simp)
                rw [htail, List.nodup_append] at hnd'
                have := hnd'.2.1
                rw [ht, ht2] at this
                simp at this
            subst hts
            rw [htail] at hj ⊢
            rw [List.idxOf_append, if_neg hni, ht]
            simp at hj ⊢
            omega
      · intro j hj
        rcases List.mem_append.mp hj with hj | hj
        · have := hbound j hj
          rw [htail, List.length_append]; omega
        · simp only [List.mem_singleton, Option.some.injEq, Nat.add_right_cancel_iff] at hj
          rw [hj]; exact List.idxOf_lt_length_iff.mpr hmem

theorem colInv_foldl (rb : UInt8) (col : List UInt8) :
    ∀ (acc : List UInt8 × List (Option Nat) × Bool) (seen : List UInt8),
      ColInv rb acc seen → ColInv rb (col.foldl (gtIdxStep rb) acc) (seen ++ col) := by
  induction col with
  | nil => intro acc seen h; simpa using h
  | cons b bs ih =>
    intro acc seen h
    have := ih _ _ (colInv_step rb acc seen b h)
    simpa [List.append_assoc] using this

theorem colInv_colIdx (rb : UInt8) (col : List UInt8) : ColInv rb (colIdx rb col) col := by
  have := colInv_foldl rb col _ _ (colInv_init rb)
  simpa [colIdx] using this


/-! ### decoding genotype strings -/

/-- the allele character a genotype string stands for: '.' for ".", REF for "0",
the (i-1)-th ALT for the decimal string of `i ≥ 1` (0 for anything unparsable) -/
def decodeGt (rec : RefSka.VcfRecord) (g : String) : UInt8 :=
  if g = "." then 46 else
  match g.toNat? with
  | some 0 => rec.ref
  | some (i + 1) => rec.alts.getD i 0
  | none => 0

theorem repr_ne_dot (n : Nat) : Nat.repr n ≠ "." := by
  intro h
  have h1 : (Nat.repr n).toList = ".".toList := by rw [h]
  rw [Nat.toList_repr] at h1
  have h2 : '.' ∈ Nat.toDigits 10 n := by rw [h1]; simp
  have := Nat.isDigit_of_mem_toDigits (by decide) (by decide) h2
  exact absurd this (by decide)

/-- decoding the rendered genotype string = decoding the allele index -/
theorem decodeGt_render (rec : RefSka.VcfRecord) (gi : Option Nat) :
    decodeGt rec (render gi) = decodeIdx rec.ref rec.alts gi := by
  cases gi with
  | none => simp [decodeGt, render, decodeIdx]
  | some n =>
    have h1 : render (some n) = Nat.repr n := rfl
    rw [h1]
    unfold decodeGt
    rw [if_neg (repr_ne_dot n), Nat.toNat?_repr]
    cases n <;> rfl

end SkaModel.VCF
