/-
`Arr.variantDist` as three independent sums over the zipped cells, and the
concrete per-pair contributions on the alphabet {A, C, G, T, -}.
-/
import SkaModel.Impl.MergeArray

namespace SkaModel.VD

open SkaModel

/-- 36 × (overlap of the two weight vectors) -/
def ov (x y : UInt8) : Nat := ((List.range 4).map (fun j => prob6 x j * prob6 y j)).sum

/-- the fold step of `Arr.variantDist`, verbatim -/
def step (acc : Nat × Nat × Nat) (vv : UInt8 × UInt8) : Nat × Nat × Nat :=
  let (d, mm, m) := acc
  if vv.1 == GAP || vv.2 == GAP then
    if !(vv.1 == GAP && vv.2 == GAP) then (d, mm + 1, m) else (d, mm, m)
  else
    let overlap36 := ((List.range 4).map (fun j => prob6 vv.1 j * prob6 vv.2 j)).sum
    (d + (36 - overlap36), mm, m + 1)

theorem variantDist_eq_foldl (c1 c2 : List UInt8) (cst : Nat) :
    Arr.variantDist c1 c2 cst = (c1.zip c2).foldl step (0, 0, cst) := rfl

/-- contribution of one cell pair to the (36×) distance -/
def D (p : UInt8 × UInt8) : Nat := if p.1 == GAP || p.2 == GAP then 0 else 36 - ov p.1 p.2
/-- contribution to the mismatch count: exactly one of the two is a gap -/
def M (p : UInt8 × UInt8) : Nat := if (p.1 == GAP) != (p.2 == GAP) then 1 else 0
/-- contribution to the match count: neither is a gap -/
def B (p : UInt8 × UInt8) : Nat := if p.1 == GAP || p.2 == GAP then 0 else 1

theorem step_eq (acc : Nat × Nat × Nat) (p : UInt8 × UInt8) :
    step acc p = (acc.1 + D p, acc.2.1 + M p, acc.2.2 + B p) := by
  obtain ⟨d, mm, m⟩ := acc
  obtain ⟨x, y⟩ := p
  simp only [step, D, M, B, ov]
  cases hx : (x == GAP) <;> cases hy : (y == GAP) <;> simp

theorem foldl_step (l : List (UInt8 × UInt8)) (acc : Nat × Nat × Nat) :
    l.foldl step acc
      = (acc.1 + (l.map D).sum, acc.2.1 + (l.map M).sum, acc.2.2 + (l.map B).sum) := by
  induction l generalizing acc with
  | nil => simp
  | cons p ps ih =>
    simp only [List.foldl_cons, ih, step_eq, List.map_cons, List.sum_cons]
    simp only [Nat.add_assoc]

/-- `variantDist` is three sums over the zipped cells -/
theorem variantDist_sums (c1 c2 : List UInt8) (cst : Nat) :
    Arr.variantDist c1 c2 cst
      = (((c1.zip c2).map D).sum, ((c1.zip c2).map M).sum, cst + ((c1.zip c2).map B).sum) := by
  rw [variantDist_eq_foldl, foldl_step]; simp

theorem sum_map_ite_one {α : Type} (p : α → Bool) (l : List α) :
    (l.map (fun x => if p x then 1 else 0)).sum = (l.filter p).length := by
  induction l with
  | nil => rfl
  | cons x xs ih => cases hp : p x <;> simp [hp, ih] <;> omega

theorem sum_map_ite_k {α : Type} (k : Nat) (p : α → Bool) (l : List α) :
    (l.map (fun x => if p x then k else 0)).sum = k * (l.filter p).length := by
  induction l with
  | nil => rfl
  | cons x xs ih => cases hp : p x <;> simp [hp, ih, Nat.mul_add] <;> omega

theorem sum_map_congr {α : Type} (f g : α → Nat) (l : List α) (h : ∀ x ∈ l, f x = g x) :
    (l.map f).sum = (l.map g).sum := by
  rw [List.map_congr_left h]

theorem M_sum (l : List (UInt8 × UInt8)) :
    (l.map M).sum = (l.filter (fun p => (p.1 == GAP) != (p.2 == GAP))).length := by
  have : M = fun p => if (p.1 == GAP) != (p.2 == GAP) then 1 else 0 := rfl
  rw [this, sum_map_ite_one]

/-! ### Symmetry -/

theorem ov_comm (x y : UInt8) : ov x y = ov y x := by
  simp only [ov, Nat.mul_comm]

theorem D_swap (p : UInt8 × UInt8) : D p.swap = D p := by
  obtain ⟨x, y⟩ := p; simp only [D, Prod.swap, ov_comm y x, Bool.or_comm]

theorem M_swap (p : UInt8 × UInt8) : M p.swap = M p := by
  obtain ⟨x, y⟩ := p
  have h : ((y == GAP) != (x == GAP)) = ((x == GAP) != (y == GAP)) := bne_comm
  simp only [M, Prod.swap, h]

theorem B_swap (p : UInt8 × UInt8) : B p.swap = B p := by
  obtain ⟨x, y⟩ := p; simp only [B, Prod.swap, Bool.or_comm]

/-! ### The alphabet {A, C, G, T, -} -/

/-- cell is one of A C G T - -/
def Base5 (b : UInt8) : Prop := b = 65 ∨ b = 67 ∨ b = 71 ∨ b = 84 ∨ b = GAP

def alphabet : List UInt8 := [65, 67, 71, 84, 45]

theorem base5_mem {b : UInt8} (h : Base5 b) : b ∈ alphabet := by
  rcases h with h | h | h | h | h <;> subst h <;> decide

/-- the concrete weight vectors of A, C, T, G -/
theorem prob6_acgt :
    (List.range 4).map (prob6 65) = [6, 0, 0, 0] ∧ (List.range 4).map (prob6 67) = [0, 6, 0, 0]
    ∧ (List.range 4).map (prob6 84) = [0, 0, 6, 0] ∧ (List.range 4).map (prob6 71) = [0, 0, 0, 6] := by
  decide +kernel

/-- on unambiguous bases the overlap is 36 for equal bases and 0 otherwise -/
theorem ov_acgt : ∀ x ∈ [65, 67, 71, 84], ∀ y ∈ [65, 67, 71, 84],
    ov x y = if x = y then 36 else 0 := by
  decide +kernel

theorem D_alphabet : ∀ x ∈ alphabet, ∀ y ∈ alphabet,
    D (x, y) = if (x != GAP && y != GAP && x != y) then 36 else 0 := by
  decide +kernel

theorem D_base5 {p : UInt8 × UInt8} (h1 : Base5 p.1) (h2 : Base5 p.2) :
    D p = if (p.1 != GAP && p.2 != GAP && p.1 != p.2) then 36 else 0 :=
  D_alphabet p.1 (base5_mem h1) p.2 (base5_mem h2)

theorem isAmbiguous_alphabet : ∀ x ∈ alphabet, isAmbiguous x = false := by decide +kernel

theorem isAmbiguous_base5 {b : UInt8} (h : Base5 b) : isAmbiguous b = false :=
  isAmbiguous_alphabet b (base5_mem h)

theorem B_eq (p : UInt8 × UInt8) : B p = if (p.1 != GAP && p.2 != GAP) then 1 else 0 := by
  obtain ⟨x, y⟩ := p; simp only [B]
  cases hx : (x == GAP) <;> cases hy : (y == GAP) <;> simp [bne, hx, hy]

end SkaModel.VD
