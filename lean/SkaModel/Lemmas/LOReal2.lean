/-
`ska lo`: the colour map of `build_graph` (`kmer_2_samples`): its lookups are the lookups in the
list of coloured k-mers of the rows in table order (first insertion wins), every colour set is the
sample set of a row and a shown base, every edge of the graph is a coloured k-mer
(items 2 and 3 of `SkaModel/Props/C17Real.lean`).
-/
import SkaModel.Lemmas.LOPathBuild
import SkaModel.Lemmas.PackInj

namespace SkaModel.LORL

open SkaModel SkaModel.Skalo SkaModel.Spec SkaModel.Props.C16 SkaModel.Props.C17G SkaModel.LOG

/-! ### lookups in concatenations and in folds of `addColour` -/

theorem lookup_append {ν : Type} (l1 l2 : Assoc Nat ν) (f : Nat) :
    Assoc.lookup (l1 ++ l2) f = (Assoc.lookup l1 f).or (Assoc.lookup l2 f) := by
  induction l1 with
  | nil => simp [Assoc.lookup]
  | cons e l1 ih =>
    obtain ⟨k, v⟩ := e
    rw [List.cons_append, Assoc.lookup_cons_L, Assoc.lookup_cons_L]
    split
    · simp
    · exact ih

/-- first insertion wins: after inserting the entries `cs` in order, a lookup finds what was there
before, else the first entry of `cs` with that key -/
theorem lookup_foldl_addColour (cs : List (Nat × List Nat)) :
    ∀ (c : Colours) (f : Nat),
      Assoc.lookup (cs.foldl (fun c e => addColour c e.1 e.2) c) f =
        (Assoc.lookup c f).or (Assoc.lookup cs f) := by
  induction cs with
  | nil => intro c f; simp [Assoc.lookup]
  | cons e cs ih =>
    intro c f
    obtain ⟨k, s⟩ := e
    rw [List.foldl_cons, ih, Assoc.lookup_cons_L]
    unfold addColour
    rw [Assoc.lookup_upsert]
    by_cases hk : (k == f) = true
    · have e : k = f := eq_of_beq hk
      subst e
      simp only [hk, if_true]
      cases Assoc.lookup c k <;> simp
    · simp only [hk]
      rfl

/-- the coloured k-mers of all rows, in table order -/
def colourEntries (W : Nat) (a : Arr) : List (Nat × List Nat) :=
  (a.kmers.zip a.variants).flatMap (fun kv => (rowGraph W a.k kv.1 kv.2).2)

theorem buildGraph_fold_lookup (W k : Nat) (rows : List (Nat × List UInt8)) :
    ∀ (acc : Graph × Colours) (f : Nat),
      Assoc.lookup (rows.foldl (fun (acc : Graph × Colours) kv =>
        let (es, cs) := rowGraph W k kv.1 kv.2
        (es.foldl (fun g e => addEdgeOnce g e.1 e.2) acc.1, cs.foldl (fun c e => addColour c e.1 e.2) acc.2))
        acc).2 f =
      (Assoc.lookup acc.2 f).or
        (Assoc.lookup (rows.flatMap (fun kv => (rowGraph W k kv.1 kv.2).2)) f) := by
  induction rows with
  | nil => intro acc f; simp
  | cons kv rows ih =>
    intro acc f
    rw [List.foldl_cons, ih, List.flatMap_cons, lookup_append, ← Option.or_assoc]
    congr 1
    exact lookup_foldl_addColour _ _ _

/-- **the colour map is the first-match lookup in the rows' coloured k-mers** -/
theorem buildGraph_lookup (W : Nat) (a : Arr) (f : Nat) :
    Assoc.lookup (buildGraph W a).2 f = Assoc.lookup (colourEntries W a) f := by
  unfold buildGraph colourEntries
  rw [buildGraph_fold_lookup]
  simp

/-- a successful lookup finds the first entry with the key -/
theorem lookup_eq_some_split {ν : Type} (l : Assoc Nat ν) (f : Nat) (v : ν) :
    Assoc.lookup l f = some v ↔ ∃ l1 l2, l = l1 ++ (f, v) :: l2 ∧ ∀ e ∈ l1, e.1 ≠ f := by
  induction l with
  | nil => simp [Assoc.lookup]
  | cons e l ih =>
    obtain ⟨k, w⟩ := e
    rw [Assoc.lookup_cons_L]
    by_cases hk : (k == f) = true
    · have e : k = f := eq_of_beq hk
      subst e
      rw [if_pos hk]
      constructor
      · intro h
        have := Option.some.inj h
        subst this
        exact ⟨[], l, rfl, by simp⟩
      · rintro ⟨l1, l2, h, hne⟩
        cases l1 with
        | nil => simp at h; rw [h.1]
        | cons x l1 =>
          simp at h
          exact absurd (by rw [← h.1]) (hne x (List.mem_cons_self ..))
    · rw [if_neg hk, ih]
      have hne : k ≠ f := fun e => hk (by simp [e])
      constructor
      · rintro ⟨l1, l2, h, hn⟩
        refine ⟨(k, w) :: l1, l2, by rw [h]; rfl, ?_⟩
        intro e he
        rcases List.mem_cons.mp he with he | he
        · rw [he]; exact hne
        · exact hn e he
      · rintro ⟨l1, l2, h, hn⟩
        cases l1 with
        | nil => simp at h; exact absurd h.1.1 hne
        | cons x l1 =>
          simp at h
          exact ⟨l1, l2, h.2, fun e he => hn e (List.mem_cons_of_mem _ he)⟩

/-! ### the rows' coloured k-mers -/

/-- the arms of the key of a row -/
theorem row_arms (W : Nat) (a : Arr) (hk : ValidK a.k) (hw : WidthOk W a.k)
    (hkeys : ∀ key ∈ a.kmers, key < 4 ^ (a.k - 1)) (kv : Nat × List UInt8)
    (hkv : kv ∈ a.kmers.zip a.variants) :
    ∃ u l, kv.1 = packL (u ++ l) ∧ u.length = halfK a.k ∧ l.length = halfK a.k ∧ Codes u ∧ Codes l := by
  obtain ⟨_, hkh, _⟩ := validK_bounds hk hw
  exact key_arms a.k kv.1 hkh (hkeys kv.1 (List.of_mem_zip hkv).1)

/-- the colour entries: `(f, S)` is an entry iff some row `(packL (u ++ l), cells)` and some base `n`
shown in it have `f` = the k-mer `u n l` or its reverse complement and `S` = the samples showing `n` -/
theorem mem_colourEntries (W : Nat) (a : Arr) (hk : ValidK a.k) (hw : WidthOk W a.k)
    (hkeys : ∀ key ∈ a.kmers, key < 4 ^ (a.k - 1)) (f : Nat) (S : List Nat) :
    (f, S) ∈ colourEntries W a ↔
      ∃ kv ∈ a.kmers.zip a.variants, ∃ u l, kv.1 = packL (u ++ l) ∧ u.length = halfK a.k ∧
        l.length = halfK a.k ∧ Codes u ∧ Codes l ∧ ∃ n ∈ shownBases kv.2,
          (f = packL (u ++ [code n] ++ l) ∨ f = packL (rcCodes (u ++ [code n] ++ l))) ∧
          S = samplesOf kv.2 n := by
  unfold colourEntries
  rw [List.mem_flatMap]
  constructor
  · rintro ⟨kv, hkv, hmem⟩
    obtain ⟨u, l, e, hu, hl, hcu, hcl⟩ := row_arms W a hk hw hkeys kv hkv
    rw [e, mem_rowGraph_colors W a.k hk hw u l hu hl hcu hcl] at hmem
    obtain ⟨n, hn, h⟩ := hmem
    refine ⟨kv, hkv, u, l, e, hu, hl, hcu, hcl, n, hn, ?_⟩
    rcases h with h | h <;> simp only [Prod.mk.injEq] at h
    · exact ⟨Or.inl h.1, h.2⟩
    · exact ⟨Or.inr h.1, h.2⟩
  · rintro ⟨kv, hkv, u, l, e, hu, hl, hcu, hcl, n, hn, hf, hS⟩
    refine ⟨kv, hkv, ?_⟩
    rw [e, mem_rowGraph_colors W a.k hk hw u l hu hl hcu hcl]
    refine ⟨n, hn, ?_⟩
    rcases hf with hf | hf
    · exact Or.inl (by rw [hf, hS])
    · exact Or.inr (by rw [hf, hS])

theorem samplesOf_ne_nil (cells : List UInt8) (n : UInt8) (hn : n ∈ shownBases cells) :
    samplesOf cells n ≠ [] := by
  obtain ⟨_, i, hi⟩ := (mem_shownBases cells n).mp hn
  intro h
  have := (mem_samplesOf cells n i).mpr hi
  rw [h] at this
  simp at this

/-- **soundness of the colours**: a colour set is the sample set of some row and shown base whose
k-mer (or its reverse complement) is the key; every sample in it shows that base in that row -/
theorem colour_sound (W : Nat) (a : Arr) (hk : ValidK a.k) (hw : WidthOk W a.k)
    (hkeys : ∀ key ∈ a.kmers, key < 4 ^ (a.k - 1)) (f : Nat) (S : List Nat)
    (h : Assoc.lookup (buildGraph W a).2 f = some S) :
    ∃ kv ∈ a.kmers.zip a.variants, ∃ u l, kv.1 = packL (u ++ l) ∧ u.length = halfK a.k ∧
      l.length = halfK a.k ∧ Codes u ∧ Codes l ∧ ∃ n ∈ shownBases kv.2,
        (f = packL (u ++ [code n] ++ l) ∨ f = packL (rcCodes (u ++ [code n] ++ l))) ∧
        S = samplesOf kv.2 n ∧ S ≠ [] ∧
        ∀ i ∈ S, i < kv.2.length ∧ kv.2.getD i 45 ≠ 45 ∧ n ∈ degenerate (kv.2.getD i 45) := by
  rw [buildGraph_lookup] at h
  obtain ⟨kv, hkv, u, l, e, hu, hl, hcu, hcl, n, hn, hf, hS⟩ :=
    (mem_colourEntries W a hk hw hkeys f S).mp (Assoc.mem_of_lookup h)
  refine ⟨kv, hkv, u, l, e, hu, hl, hcu, hcl, n, hn, hf, hS, ?_, ?_⟩
  · rw [hS]; exact samplesOf_ne_nil _ _ hn
  · intro i hi
    rw [hS] at hi
    exact (mem_samplesOf kv.2 n i).mp hi

/-- **completeness of the colours**: both k-mers of every row and shown base are keys -/
theorem colour_complete (W : Nat) (a : Arr) (hk : ValidK a.k) (hw : WidthOk W a.k)
    (hkeys : ∀ key ∈ a.kmers, key < 4 ^ (a.k - 1)) (kv : Nat × List UInt8)
    (hkv : kv ∈ a.kmers.zip a.variants) (u l : List Nat) (e : kv.1 = packL (u ++ l))
    (hu : u.length = halfK a.k) (hl : l.length = halfK a.k) (hcu : Codes u) (hcl : Codes l)
    (n : UInt8) (hn : n ∈ shownBases kv.2) :
    (∃ S, Assoc.lookup (buildGraph W a).2 (packL (u ++ [code n] ++ l)) = some S) ∧
    (∃ S, Assoc.lookup (buildGraph W a).2 (packL (rcCodes (u ++ [code n] ++ l))) = some S) := by
  constructor
  · rw [buildGraph_lookup]
    apply Assoc.exists_lookup_of_mem_keys
    have := (mem_colourEntries W a hk hw hkeys (packL (u ++ [code n] ++ l)) (samplesOf kv.2 n)).mpr
      ⟨kv, hkv, u, l, e, hu, hl, hcu, hcl, n, hn, Or.inl rfl, rfl⟩
    exact List.mem_map_of_mem (f := (·.1)) this
  · rw [buildGraph_lookup]
    apply Assoc.exists_lookup_of_mem_keys
    have := (mem_colourEntries W a hk hw hkeys (packL (rcCodes (u ++ [code n] ++ l))) (samplesOf kv.2 n)).mpr
      ⟨kv, hkv, u, l, e, hu, hl, hcu, hcl, n, hn, Or.inr rfl, rfl⟩
    exact List.mem_map_of_mem (f := (·.1)) this

/-! ### edges are coloured k-mers -/

/-- joining the prefix and the suffix node of a word of `n + 1` codes gives the word -/
theorem combine_pack (W n : Nat) (hn : 1 ≤ n) (F : List Nat) (hF : Codes F) (hlen : F.length = n + 1)
    (hW : 2 * (n + 1) ≤ W) :
    combineKmers W (packL (F.take n)) (packL (F.drop 1)) = packL F := by
  have e : F = F.take n ++ F.drop n := (List.take_append_drop n F).symm
  have hd : (F.drop n).length = 1 := by rw [List.length_drop]; omega
  match hD : F.drop n, hd with
  | [c], _ =>
    rw [hD] at e
    have hA : (F.take n).length = n := by rw [List.length_take]; omega
    generalize F.take n = A at e hA
    subst e
    have hc : c < 4 := hF c (by simp)
    have hcA : Codes A := fun x hx => hF x (List.mem_append_left _ hx)
    cases A with
    | nil => simp at hA; omega
    | cons a0 A' =>
      rw [List.cons_append, List.drop_succ_cons, List.drop_zero, ← List.cons_append, packL_snoc, packL_snoc]
      unfold combineKmers
      have hlt : packL (a0 :: A') < 4 ^ n := by
        have := packL_lt hcA
        rwa [hA] at this
      rw [shl_two hlt hW, and_three, or_code (Nat.mod_lt _ (by omega))]
      omega

/-- every edge of the graph of a table is a k-mer of a row: `combine_kmers` of its ends is a key of
the colour map -/
theorem edge_kmer (W : Nat) (a : Arr) (hk : ValidK a.k) (hw : WidthOk W a.k)
    (hkeys : ∀ key ∈ a.kmers, key < 4 ^ (a.k - 1)) (x y : Nat) (h : Edge (buildGraph W a).1 x y) :
    ∃ kv ∈ a.kmers.zip a.variants, ∃ u l, kv.1 = packL (u ++ l) ∧ u.length = halfK a.k ∧
      l.length = halfK a.k ∧ Codes u ∧ Codes l ∧ ∃ n ∈ shownBases kv.2,
        (combineKmers W x y = packL (u ++ [code n] ++ l) ∨
         combineKmers W x y = packL (rcCodes (u ++ [code n] ++ l))) := by
  obtain ⟨hh2, hkh, hkW⟩ := validK_bounds hk hw
  obtain ⟨kv, hkv, hmem⟩ := buildGraph_edge W a x y h
  obtain ⟨u, l, e, hu, hl, hcu, hcl⟩ := row_arms W a hk hw hkeys kv hkv
  rw [e, mem_rowGraph_edges W a.k hk hw u l hu hl hcu hcl] at hmem
  obtain ⟨n, hn, hxy⟩ := hmem
  refine ⟨kv, hkv, u, l, e, hu, hl, hcu, hcl, n, hn, ?_⟩
  have hF : Codes (u ++ [code n] ++ l) :=
    Codes.append (Codes.append hcu (Codes.cons (code_lt n) Codes.nil)) hcl
  have hlen : (u ++ [code n] ++ l).length = (a.k - 1) + 1 := by
    simp [hu, hl]; omega
  rcases hxy with hxy | hxy
  · simp only [Prod.mk.injEq] at hxy
    left
    rw [hxy.1, hxy.2]
    exact combine_pack W (a.k - 1) (by omega) _ hF hlen (by omega)
  · simp only [Prod.mk.injEq] at hxy
    right
    obtain ⟨r1, r2⟩ := rcCodes_drop_one (u ++ [code n] ++ l) (a.k - 1) hlen
    rw [hxy.1, hxy.2, r1, r2]
    exact combine_pack W (a.k - 1) (by omega) _ (rcCodes_codes hF)
      (by rw [rcCodes_length]; exact hlen) (by omega)

/-- **edges are coloured**: the k-mer of every edge has a non-empty colour set -/
theorem edge_coloured (W : Nat) (a : Arr) (hk : ValidK a.k) (hw : WidthOk W a.k)
    (hkeys : ∀ key ∈ a.kmers, key < 4 ^ (a.k - 1)) (x y : Nat) (h : Edge (buildGraph W a).1 x y) :
    ∃ S, Assoc.lookup (buildGraph W a).2 (combineKmers W x y) = some S ∧ S ≠ [] := by
  obtain ⟨kv, hkv, u, l, e, hu, hl, hcu, hcl, n, hn, hc⟩ := edge_kmer W a hk hw hkeys x y h
  obtain ⟨⟨S1, h1⟩, ⟨S2, h2⟩⟩ := colour_complete W a hk hw hkeys kv hkv u l e hu hl hcu hcl n hn
  rcases hc with hc | hc
  · rw [hc]
    obtain ⟨_, _, _, _, _, _, _, _, _, _, _, _, _, hne, _⟩ := colour_sound W a hk hw hkeys _ _ h1
    exact ⟨S1, h1, hne⟩
  · rw [hc]
    obtain ⟨_, _, _, _, _, _, _, _, _, _, _, _, _, hne, _⟩ := colour_sound W a hk hw hkeys _ _ h2
    exact ⟨S2, h2, hne⟩

/-! ### the windows of a spelled sequence -/

/-- if the windows of `kGraph` letters of `s` at `i` and `i + 1` encode to `x` and `y`, the window of
`kGraph + 1` letters at `i` encodes to `combine_kmers x y` -/
theorem window_combine (W kGraph : Nat) (hk1 : 1 ≤ kGraph) (hW : 2 * (kGraph + 1) ≤ W) (s : List UInt8)
    (i x y : Nat) (hi : i + kGraph + 1 ≤ s.length)
    (hx : encodeKmer W ((s.drop i).take kGraph) = x)
    (hy : encodeKmer W ((s.drop (i + 1)).take kGraph) = y) :
    encodeKmer W ((s.drop i).take (kGraph + 1)) = combineKmers W x y := by
  have hwl : ((s.drop i).take (kGraph + 1)).length = kGraph + 1 := by
    rw [List.length_take, List.length_drop]; omega
  rw [T16_encode W _ (by rw [hwl]; exact hW)]
  have hF : Codes (((s.drop i).take (kGraph + 1)).map code) := Codes.map_of _ _ code_lt
  rw [← combine_pack W kGraph hk1 _ hF (by rw [List.length_map, hwl]) hW]
  congr 1
  · rw [← hx, T16_encode W _ (by rw [List.length_take]; omega), ← List.map_take, List.take_take]
    congr 3
    omega
  · rw [← hy, T16_encode W _ (by rw [List.length_take]; omega), ← List.map_drop]
    congr 2
    rw [List.drop_take, List.drop_drop]
    congr 1

end SkaModel.LORL
