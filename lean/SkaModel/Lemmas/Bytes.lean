/-
Lifting complete enumerations over `Fin 256` to statements about every byte.
-/
namespace SkaModel

theorem forall_uint8 {p : UInt8 → Prop} (h : ∀ i : Fin 256, p (UInt8.ofNat i.val)) : ∀ c : UInt8, p c := by
  intro c
  have := h ⟨c.toNat, c.toNat_lt⟩
  simpa using this

theorem forall_code {p : Nat → Prop} (h : ∀ i : Fin 4, p i.val) : ∀ c, c < 4 → p c := by
  intro c hc
  exact h ⟨c, hc⟩

end SkaModel
