/-
C18 completeness — every expected record is sound (`recSoundB`): its REF sequence (or the reverse complement)
occurs in exactly the samples genotyped `0`, its ALT sequence in exactly those genotyped `1`, and every sample
is genotyped `0` or `1`.
-/
import SkaModel.Lemmas.LOESound

namespace SkaModel.LOE

open SkaModel SkaModel.Spec SkaModel.Props.C16 SkaModel.Skalo SkaModel.Props.C17G SkaModel.LOG SkaModel.LOC

/-- the core of the check: `g1` tells the keepers, `g2` the deleters -/
theorem sound_core (C : List (List Bool)) (t : Nat) (S : List Bool → List UInt8) (w1 w2 : List UInt8)
    (h1 : ∀ c ∈ C, (occursIn w1 (S c) || occursIn (rcSeq w1) (S c)) = c.getD t false)
    (h2 : ∀ c ∈ C, (occursIn w2 (S c) || occursIn (rcSeq w2) (S c)) = !c.getD t false) (insRef : Bool) :
    ((C.map S).zip (C.map (fun c => if c.getD t false == insRef then "0" else "1"))).all (fun sc =>
      let hasR := occursIn (if insRef then w1 else w2) sc.1 || occursIn (rcSeq (if insRef then w1 else w2)) sc.1
      let hasA := occursIn (if insRef then w2 else w1) sc.1 || occursIn (rcSeq (if insRef then w2 else w1)) sc.1
      (sc.2 == "0" && hasR && !hasA) || (sc.2 == "1" && hasA && !hasR)) = true := by
  rw [List.zip_map', List.all_map, List.all_eq_true]
  intro c hc
  have e1 := h1 c hc
  have e2 := h2 c hc
  cases insRef
  · simp only [Bool.false_eq_true, if_false, Function.comp]
    rw [e1, e2]
    cases c.getD t false <;> decide
  · simp only [if_true, Function.comp]
    rw [e1, e2]
    cases c.getD t false <;> decide

namespace Ctx

variable {W k : Nat} {F : List UInt8} {B : List (Nat × Nat)} {C : List (List Bool)} {a : Arr} {names : List String}

theorem lI_ne (cx : Ctx W k F B C a names) {t : Nat} (ht : t < B.length) :
    (lI k F B t == [45]) = false ∧ (rcSeq (lI2 F B t) == [45]) = false := by
  have hb := cx.h.bt ht
  have hI : lI k F B t = getF F (bS B t + shf k F B t) ::
      lets F (List.range' (bS B t + shf k F B t + 1) (bE B t - bS B t - 1)) := by
    unfold lI
    rw [show bE B t - bS B t = (bE B t - bS B t - 1) + 1 by omega, List.range'_succ]
    rfl
  have hIe : lI2 F B t = lets F (List.range' (bS B t) (bE B t - bS B t - 1)) ++ [getF F (bE B t - 1)] := by
    unfold lI2
    rw [show bE B t - bS B t = (bE B t - bS B t - 1) + 1 by omega, DFam.range'_snoc, lets_append]
    congr 1
    unfold lets
    rw [List.map_singleton]
    congr 2
    omega
  constructor
  · rw [beq_eq_false_iff_ne, hI]
    intro e
    have := (List.cons.inj e).1
    have h45 := (cx.getF_gt (x := bS B t + shf k F B t) (by omega)).1
    rw [this] at h45
    exact absurd h45 (by decide)
  · rw [beq_eq_false_iff_ne, hIe, rcSeq_snoc]
    intro e
    have := (List.cons.inj e).1
    have h45 := (cx.getF_gt (x := bE B t - 1) (by omega)).2
    rw [this] at h45
    exact absurd h45 (by decide)

theorem w_base (cx : Ctx W k F B C a names) {t : Nat} (ht : t < B.length) :
    AllBase (w1 k F B t) ∧ AllBase (w2 k F B t) := by
  have hb := cx.h.bt ht
  have he := cx.ex_bounds ht
  have hk5 := cx.h.k5
  constructor
  · apply map_getF_base cx.h.base
    intro x hx
    rw [List.mem_range'_1] at hx
    omega
  · apply map_getF_base cx.h.base
    intro x hx
    rw [List.mem_append, List.mem_range'_1, List.mem_range'_1] at hx
    omega

/-- **every expected record is sound** -/
theorem rec_sound (cx : Ctx W k F B C a names) {t : Nat} (ht : t < B.length) (f : Bool) :
    recSoundB (dsamples F B C) (dexpRec k F B C t f) = true := by
  obtain ⟨hne1, hne2⟩ := cx.lI_ne ht
  obtain ⟨hbase1, hbase2⟩ := cx.w_base ht
  obtain ⟨hw1a, hw1b⟩ := cx.w1_eq ht
  obtain ⟨hw2a, hw2b⟩ := cx.w2_eq ht
  unfold recSoundB
  rw [Bool.and_eq_true, decide_eq_true_eq]
  cases f
  · -- the record of the samples' strand
    rw [← cx.recFw_eq ht]
    unfold recFw indelRec alleleSeq dsamples
    simp only [List.length_map, calls_eq]
    refine ⟨trivial, ?_⟩
    have := sound_core C t (dsample F B) (w1 k F B t) (w2 k F B t)
      (fun c hc => cx.occ_keep ht hc) (fun c hc => cx.occ_del ht hc)
      (decide ((keepIdx C t).length > (delIdx C t).length))
    by_cases hd : (keepIdx C t).length > (delIdx C t).length
    · simp only [hd, decide_true, if_true, hne1, Bool.false_eq_true, if_false, beq_self_eq_true,
        List.append_nil, hw1a, hw2a] at this ⊢
      exact this
    · simp only [hd, decide_false, Bool.false_eq_true, if_false, hne1, beq_self_eq_true, if_true,
        List.append_nil, hw1a, hw2a] at this ⊢
      exact this
  · -- the record of the other strand: the reverse complements
    rw [← cx.recRv_eq ht]
    unfold recRv indelRec alleleSeq dsamples
    simp only [List.length_map, calls_eq]
    refine ⟨trivial, ?_⟩
    have hr1 : rcSeq (lX2 k F B t) ++ rcSeq (lI2 F B t) ++ rcSeq (lE2 k F B t) = rcSeq (w1 k F B t) := by
      rw [← hw1b, rcSeq_append, rcSeq_append, List.append_assoc]
    have hr2 : rcSeq (lX2 k F B t) ++ rcSeq (lE2 k F B t) = rcSeq (w2 k F B t) := by
      rw [← hw2b, rcSeq_append]
    have := sound_core C t (dsample F B) (rcSeq (w1 k F B t)) (rcSeq (w2 k F B t))
      (fun c hc => by rw [rcSeq_rcSeq hbase1, Bool.or_comm]; exact cx.occ_keep ht hc)
      (fun c hc => by rw [rcSeq_rcSeq hbase2, Bool.or_comm]; exact cx.occ_del ht hc)
      (decide ((keepIdx C t).length > (delIdx C t).length))
    by_cases hd : (keepIdx C t).length > (delIdx C t).length
    · simp only [hd, decide_true, if_true, hne2, Bool.false_eq_true, if_false, beq_self_eq_true,
        List.append_nil, hr1, hr2] at this ⊢
      exact this
    · simp only [hd, decide_false, Bool.false_eq_true, if_false, hne2, beq_self_eq_true, if_true,
        List.append_nil, hr1, hr2] at this ⊢
      exact this

/-- all records of the pipeline are sound -/
theorem recs_sound (cx : Ctx W k F B C a names) {recs : List IndelRec} (h : RecsMatch k F B C recs) :
    recs.all (recSoundB (dsamples F B C)) = true := by
  obtain ⟨flips, hfl, hperm⟩ := h
  rw [List.all_eq_true]
  intro r hr
  rw [hperm.mem_iff, List.mem_map] at hr
  obtain ⟨ft, hft, rfl⟩ := hr
  have hlt : ft.2 < B.length := by
    have := List.mem_zipIdx hft
    omega
  exact cx.rec_sound hlt ft.1

end Ctx

end SkaModel.LOE
