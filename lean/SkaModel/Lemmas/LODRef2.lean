/-
C17 (second sentence) — counting the votes of a group of sequences along the family of the reference, and
the decision of `scanVariants`: at least `k + 3` votes, all for the same coordinate, on the strand of the
reference; none on the other strand.
-/
import SkaModel.Lemmas.LODRef1

namespace SkaModel.LOD

open SkaModel SkaModel.Spec SkaModel.Props.C16 SkaModel.Skalo SkaModel.LOC

/-! ### counting -/

theorem flatMap_ite_length (l : List Nat) (M : Nat → Prop) [DecidablePred M] (x : Nat) :
    (l.flatMap (fun i => if M i then [x] else [])).length = (l.filter (fun i => decide (M i))).length := by
  induction l with
  | nil => rfl
  | cons a l ih =>
    rw [List.flatMap_cons, List.length_append, ih, List.filter_cons]
    by_cases h : M a
    · simp [h]; omega
    · simp [h]

theorem mem_flatMap_ite (l : List Nat) (M : Nat → Prop) [DecidablePred M] (x y : Nat)
    (h : y ∈ l.flatMap (fun i => if M i then [x] else [])) : y = x := by
  obtain ⟨i, _, hi⟩ := List.mem_flatMap.mp h
  split at hi
  · simpa using hi
  · simp at hi

/-- a duplicate-free list contained in another list is not longer -/
theorem nodup_subset_length : ∀ (I l : List Nat), I.Nodup → (∀ x ∈ I, x ∈ l) → I.length ≤ l.length
  | [], _, _, _ => by simp
  | x :: I, l, hnd, hsub => by
    rw [List.nodup_cons] at hnd
    have hx : x ∈ l := hsub x (List.mem_cons_self ..)
    have ih := nodup_subset_length I (l.erase x) hnd.2 (fun y hy => by
      have hne : y ≠ x := fun e => hnd.1 (e ▸ hy)
      exact (List.mem_erase_of_ne hne).mpr (hsub y (List.mem_cons_of_mem _ hy)))
    rw [List.length_erase_of_mem hx] at ih
    have : 0 < l.length := List.length_pos_of_mem hx
    rw [List.length_cons]
    omega

/-- votes from the windows of a duplicate-free list of coordinates -/
theorem votes_count (n : Nat) (M : Nat → Prop) [DecidablePred M] (x : Nat) (I : List Nat) (hnd : I.Nodup)
    (hI : ∀ i ∈ I, i < n ∧ M i) :
    I.length ≤ ((List.range n).flatMap (fun i => if M i then [x] else [])).length := by
  rw [flatMap_ite_length]
  apply nodup_subset_length I _ hnd
  intro i hi
  rw [List.mem_filter, List.mem_range]
  exact ⟨(hI i hi).1, by simpa using (hI i hi).2⟩

theorem length_le_flatMap {α β : Type} (f : α → List β) (l : List α) (x : α) (hx : x ∈ l) :
    (f x).length ≤ (l.flatMap f).length := by
  obtain ⟨a, b, rfl⟩ := List.append_of_mem hx
  rw [List.flatMap_append, List.flatMap_cons, List.length_append, List.length_append]
  omega

/-- one member contributes `a`, another at least `b` -/
theorem flatMap_two {α β : Type} (f : α → List β) (l : List α) (x : α) (hx : x ∈ l) (h2 : 2 ≤ l.length)
    (a b : Nat) (ha : a ≤ (f x).length) (hb : ∀ y ∈ l, b ≤ (f y).length) :
    a + b ≤ (l.flatMap f).length := by
  obtain ⟨l1, l2, rfl⟩ := List.append_of_mem hx
  rw [List.flatMap_append, List.flatMap_cons, List.length_append, List.length_append]
  cases l1 with
  | nil =>
    cases l2 with
    | nil => simp at h2
    | cons u l2 =>
      have h1 := hb u (by simp)
      have h3 := length_le_flatMap f (u :: l2) u (List.mem_cons_self ..)
      simp only [List.flatMap_nil, List.length_nil]
      omega
  | cons u l1 =>
    have h1 := hb u (by simp)
    have h3 := length_le_flatMap f (u :: l1) u (List.mem_cons_self ..)
    omega

/-! ### windows of a member of the family that equal the reference -/

section votes

variable {k L : Nat} {R : List UInt8} {T : List (List UInt8)} {PT : List Nat}

/-- a window of a member of the family equals the window of the reference when the member shows the
base of the reference at every site inside -/
theorem win_ref (pf : PFam k L (R :: T) PT) {t : List UInt8} (ht : t ∈ T) {j m : Nat} (hj : j + m ≤ L)
    (h : ∀ p ∈ PT, j ≤ p → p < j + m → t.getD p 0 = R.getD p 0) : win t j m = win R j m := by
  have hR : R ∈ R :: T := List.mem_cons_self ..
  have ht' : t ∈ R :: T := List.mem_cons_of_mem _ ht
  rw [win_eq_iff (by rw [pf.len ht']; exact hj) (by rw [pf.len hR]; exact hj)]
  intro i hi
  by_cases hp : j + i ∈ PT
  · exact h _ hp (by omega) (by omega)
  · exact pf.off t ht' R hR _ (by omega) hp

/-- around a site `q` (at least `k - 1` letters from the start and `k` from the end of the sequence), the
windows just before and just after the site equal the reference; all `k + 1` windows from the one just
before to the one just after do when the sequence shows the base of the reference at `q` -/
theorem along_site (pf : PFam k L (R :: T) PT) (hk5 : 5 ≤ k) {c len : Nat} {w : List UInt8}
    (ha : Along (k - 1) L T c len w) {q : Nat} (hq : q ∈ PT) (h1 : c + (k - 1) ≤ q) (h2 : q + k ≤ c + len) :
    win w (q - c - (k - 1)) (k - 1) = win R (c + (q - c - (k - 1))) (k - 1) ∧
    win w (q - c + 1) (k - 1) = win R (c + (q - c + 1)) (k - 1) ∧
    (w.getD (q - c) 0 = R.getD q 0 → ∀ i, q - c - (k - 1) ≤ i → i ≤ q - c + 1 →
      win w i (k - 1) = win R (c + i) (k - 1)) := by
  have hLc := ha.hL
  have hlen := ha.hlen
  -- a window near the site contains no other site
  have honly : ∀ i, q - c - (k - 1) ≤ i → i ≤ q - c + 1 → ∀ p ∈ PT, c + i ≤ p → p < c + i + (k - 1) → p = q := by
    intro i hi1 hi2 p hp h3 h4
    apply Classical.byContradiction
    intro hne
    rcases pf.sep hp hq hne with h | h <;> omega
  have hgen : ∀ i, q - c - (k - 1) ≤ i → i ≤ q - c + 1 →
      (c + i ≤ q → q < c + i + (k - 1) → w.getD (q - c) 0 = R.getD q 0) →
      win w i (k - 1) = win R (c + i) (k - 1) := by
    intro i hi1 hi2 hsite
    obtain ⟨t, ht, hwt⟩ := ha.hwin i (by omega)
    rw [hwt]
    apply win_ref pf ht (by omega)
    intro p hp h3 h4
    have := honly i hi1 hi2 p hp h3 h4
    subst this
    rw [← hsite h3 h4]
    have ht' : t ∈ R :: T := List.mem_cons_of_mem _ ht
    have := (win_eq_iff (by rw [hlen]; omega) (by rw [pf.len ht']; omega)).mp hwt (p - c - i) (by omega)
    rw [show i + (p - c - i) = p - c by omega, show c + i + (p - c - i) = p by omega] at this
    exact this.symm
  refine ⟨hgen _ (Nat.le_refl _) (by omega) (fun _ h => by omega), hgen _ (by omega) (Nat.le_refl _) (fun h _ => by omega), ?_⟩
  intro hw i hi1 hi2
  exact hgen i hi1 hi2 (fun _ _ => hw)

/-- a window that contains no site equals the reference -/
theorem along_nosite (pf : PFam k L (R :: T) PT) {c len : Nat} {w : List UInt8}
    (ha : Along (k - 1) L T c len w) {i : Nat} (hi : i + (k - 1) ≤ len)
    (hno : ∀ p ∈ PT, ¬ (c + i ≤ p ∧ p < c + i + (k - 1))) : win w i (k - 1) = win R (c + i) (k - 1) := by
  have hLc := ha.hL
  obtain ⟨t, ht, hwt⟩ := ha.hwin i hi
  rw [hwt]
  apply win_ref pf ht (by omega)
  intro p hp h3 h4
  exact absurd ⟨h3, h4⟩ (hno p hp)

/-- **the number of votes of one sequence** of a group around a site `q`: at least 2 (the windows just before and
just after the site); at least `k + 1` when it shows the base of the reference at `q`, or when the group extends
`2k` letters beyond the site on either side (towards another site) -/
theorem votes_ge (pf : PFam k L (R :: T) PT) (hk5 : 5 ≤ k) (hk : 2 * (k - 1) ≤ 128) (hLU : L < U32)
    {c len : Nat} {w : List UInt8} (ha : Along (k - 1) L T c len w)
    {q : Nat} (hq : q ∈ PT) (h1 : c + (k - 1) ≤ q) (h2q : q + k ≤ c + len) :
    2 ≤ (strandVotes 128 (k - 1) (genomicKmers 128 (k - 1) R) w).length ∧
    (w.getD (q - c) 0 = R.getD q 0 → k + 1 ≤ (strandVotes 128 (k - 1) (genomicKmers 128 (k - 1) R) w).length) ∧
    (q + 2 * k ≤ c + len → k + 1 ≤ (strandVotes 128 (k - 1) (genomicKmers 128 (k - 1) R) w).length) ∧
    (c + 2 * k - 1 ≤ q → k + 1 ≤ (strandVotes 128 (k - 1) (genomicKmers 128 (k - 1) R) w).length) := by
  rw [votes_along pf hk hLU ha]
  obtain ⟨h3, h4, h5⟩ := along_site pf hk5 ha hq h1 h2q
  have hrun : ∀ lo, lo + k + (k - 1) ≤ len → (∀ i, lo ≤ i → i ≤ lo + k → win w i (k - 1) = win R (c + i) (k - 1)) →
      k + 1 ≤ ((List.range (len - (k - 1) + 1)).flatMap (fun i =>
        if win w i (k - 1) = win R (c + i) (k - 1) then [c + (k - 1)] else [])).length := by
    intro lo hlo hall
    have := votes_count (len - (k - 1) + 1) (fun i => win w i (k - 1) = win R (c + i) (k - 1)) (c + (k - 1))
      (List.range' lo (k + 1)) (List.nodup_range' ..) (by
        intro i hi
        rw [List.mem_range'_1] at hi
        exact ⟨by omega, hall i (by omega) (by omega)⟩)
    rw [List.length_range'] at this
    exact this
  refine ⟨?_, ?_, ?_, ?_⟩
  · have := votes_count (len - (k - 1) + 1) (fun i => win w i (k - 1) = win R (c + i) (k - 1)) (c + (k - 1))
      [q - c - (k - 1), q - c + 1] (by
        rw [List.nodup_cons]
        refine ⟨?_, by simp⟩
        simp only [List.mem_singleton]
        omega) (by
        intro i hi
        simp only [List.mem_cons, List.not_mem_nil, or_false] at hi
        rcases hi with rfl | rfl
        · exact ⟨by omega, h3⟩
        · exact ⟨by omega, h4⟩)
    simpa using this
  · intro hw
    exact hrun (q - c - (k - 1)) (by omega) (fun i hi1 hi2 => h5 hw i hi1 (by omega))
  · intro hext
    apply hrun (q - c + 1) (by omega)
    intro i hi1 hi2
    apply along_nosite pf ha (by omega)
    intro p hp ⟨h6, h7⟩
    have hne : p ≠ q := by omega
    rcases pf.sep hp hq hne with h | h <;> omega
  · intro hext
    apply hrun (q - c - (k - 1) - k) (by omega)
    intro i hi1 hi2
    apply along_nosite pf ha (by omega)
    intro p hp ⟨h6, h7⟩
    have hne : p ≠ q := by omega
    rcases pf.sep hp hq hne with h | h <;> omega

/-- the votes of a duplicate-free sublist -/
theorem flatMap_nodup_sub {α β : Type} [DecidableEq α] (f : α → List β) :
    ∀ (us ws : List α), us.Nodup → (∀ u ∈ us, u ∈ ws) → (us.flatMap f).length ≤ (ws.flatMap f).length
  | [], _, _, _ => by simp
  | x :: us, ws, hnd, hsub => by
    rw [List.nodup_cons] at hnd
    have hx : x ∈ ws := hsub x (List.mem_cons_self ..)
    have ih := flatMap_nodup_sub f us (ws.erase x) hnd.2 (fun y hy => by
      have hne : y ≠ x := fun e => hnd.1 (e ▸ hy)
      exact (List.mem_erase_of_ne hne).mpr (hsub y (List.mem_cons_of_mem _ hy)))
    have hperm : (ws.flatMap f).Perm ((x :: ws.erase x).flatMap f) := (List.perm_cons_erase hx).flatMap_right f
    rw [hperm.length_eq, List.flatMap_cons, List.flatMap_cons, List.length_append, List.length_append]
    omega

/-- **the votes of a group of sequences along the family of the reference**, around a site `q` at which one of
them shows the base of the reference: all votes are for the coordinate of the first `(k-1)`-mer's end, the reverse
complements get no vote, and there are at least 10 votes when `7 ≤ k`, or the group extends `2k` letters beyond
the site on one side, or three different sequences are present -/
theorem group_votes (pf : PFam k L (R :: T) PT) (hk5 : 5 ≤ k) (hk : 2 * (k - 1) ≤ 128) (hLU : L < U32)
    {c len : Nat} {ws : List (List UInt8)} (hws : ∀ w ∈ ws, Along (k - 1) L T c len w) (h2 : 2 ≤ ws.length)
    {q : Nat} (hq : q ∈ PT) (h1 : c + (k - 1) ≤ q) (h2q : q + k ≤ c + len)
    {w0 : List UInt8} (hw0 : w0 ∈ ws) (hanc : w0.getD (q - c) 0 = R.getD q 0)
    (hten : 7 ≤ k ∨ q + 2 * k ≤ c + len ∨ c + 2 * k - 1 ≤ q ∨
      ∃ w1 ∈ ws, ∃ w2 ∈ ws, w1 ≠ w2 ∧ w1 ≠ w0 ∧ w2 ≠ w0) :
    (∀ x ∈ ws.flatMap (strandVotes 128 (k - 1) (genomicKmers 128 (k - 1) R)), x = c + (k - 1)) ∧
    10 ≤ (ws.flatMap (strandVotes 128 (k - 1) (genomicKmers 128 (k - 1) R))).length ∧
    ws.flatMap (fun w => strandVotes 128 (k - 1) (genomicKmers 128 (k - 1) R) (rcSeq w)) = [] := by
  have hge := fun w hw => votes_ge pf hk5 hk hLU (hws w hw) hq h1 h2q
  refine ⟨?_, ?_, ?_⟩
  · intro x hx
    obtain ⟨w, hw, hxw⟩ := List.mem_flatMap.mp hx
    rw [votes_along pf hk hLU (hws w hw)] at hxw
    exact mem_flatMap_ite _ _ _ _ hxw
  · rcases hten with h7 | hext | hext | ⟨w1, hw1, w2, hw2, h12, h10, h20⟩
    · have := flatMap_two (strandVotes 128 (k - 1) (genomicKmers 128 (k - 1) R)) ws w0 hw0 h2 (k + 1) 2
        ((hge w0 hw0).2.1 hanc) (fun w hw => (hge w hw).1)
      omega
    · have := flatMap_two (strandVotes 128 (k - 1) (genomicKmers 128 (k - 1) R)) ws w0 hw0 h2 (k + 1) (k + 1)
        ((hge w0 hw0).2.2.1 hext) (fun w hw => (hge w hw).2.2.1 hext)
      omega
    · have := flatMap_two (strandVotes 128 (k - 1) (genomicKmers 128 (k - 1) R)) ws w0 hw0 h2 (k + 1) (k + 1)
        ((hge w0 hw0).2.2.2 hext) (fun w hw => (hge w hw).2.2.2 hext)
      omega
    · have := flatMap_nodup_sub (strandVotes 128 (k - 1) (genomicKmers 128 (k - 1) R)) [w0, w1, w2] ws (by
          simp only [List.nodup_cons, List.mem_cons, List.not_mem_nil, or_false, not_or, List.nodup_nil, and_true,
            not_false_eq_true]
          exact ⟨⟨fun e => h10 e.symm, fun e => h20 e.symm⟩, h12⟩) (by
          intro u hu
          simp only [List.mem_cons, List.not_mem_nil, or_false] at hu
          rcases hu with rfl | rfl | rfl
          · exact hw0
          · exact hw1
          · exact hw2)
      simp only [List.flatMap_cons, List.flatMap_nil, List.append_nil, List.length_append] at this
      have a0 := (hge w0 hw0).2.1 hanc
      have a1 := (hge w1 hw1).1
      have a2 := (hge w2 hw2).1
      omega
  · rw [List.flatMap_eq_nil_iff]
    intro w hw
    have ha := hws w hw
    have hLc := ha.hL
    have hmm := ha.hm
    exact votes_against pf hk (by omega) ha.hbase.rcSeq (along_rc_against ha)

end votes

/-! ### the decision of `scanVariants` -/

theorem revComplStr_base {s : List UInt8} (h : AllBase s) : revComplStr s = some (rcSeq s) := by
  unfold revComplStr rcSeq
  apply mapM_eq_map
  intro b hb
  rcases isBase_cases (h b (List.mem_reverse.mp hb)) with rfl | rfl | rfl | rfl <;> decide

theorem mapM_revCompl {vs : List Variant} (h : ∀ v ∈ vs, AllBase v.1) :
    vs.mapM (fun v => revComplStr v.1) = some (vs.map (fun v => rcSeq v.1)) :=
  mapM_eq_map _ _ _ (fun v hv => revComplStr_base (h v hv))

/-- all votes for one coordinate, at least ten of them -/
theorem mfp_all (F : List Nat) (p : Nat) (hall : ∀ x ∈ F, x = p) (h10 : 10 ≤ F.length) :
    mostFrequentPosition F = (p, F.length) := by
  have hc : F.count p = F.length := List.count_eq_length.mpr (fun x hx => (hall x hx).symm)
  have := LOR.mfp_complete F p (by omega) (fun q hq hne => absurd (hall q hq) hne)
  rw [hc] at this
  exact this

theorem scanOf_fwd (F : List Nat) (p n : Nat) (hF : mostFrequentPosition F = (p, n)) (hn : n ≠ 0) :
    LOR.scanOf F [] = (true, p, true) := by
  rw [LOR.scanOf_eq, hF, LOR.mfp_nil]
  simp [hn]

theorem scanOf_rev (R : List Nat) (p n : Nat) (hR : mostFrequentPosition R = (p, n)) (hn : n ≠ 0) :
    LOR.scanOf [] R = (true, p, false) := by
  rw [LOR.scanOf_eq, hR, LOR.mfp_nil]
  simp [hn]

/-- votes on the forward strand only -/
theorem scan_forward (k : Nat) (kmap : List (Nat × List Nat)) (vs : List Variant) (hb : ∀ v ∈ vs, AllBase v.1)
    (p : Nat) (hall : ∀ x ∈ vs.flatMap (fun v => strandVotes 128 k kmap v.1), x = p)
    (h10 : 10 ≤ (vs.flatMap (fun v => strandVotes 128 k kmap v.1)).length)
    (hrev : (vs.map (fun v => rcSeq v.1)).flatMap (fun s => strandVotes 128 k kmap s) = []) :
    scanVariants 128 k kmap vs = some (true, p, true) := by
  rw [LOR.scan_eq, mapM_revCompl hb, Option.bind_some, hrev]
  exact congrArg some (scanOf_fwd _ p _ (mfp_all _ p hall h10) (by omega))

/-- votes on the reverse strand only -/
theorem scan_reverse (k : Nat) (kmap : List (Nat × List Nat)) (vs : List Variant) (hb : ∀ v ∈ vs, AllBase v.1)
    (p : Nat) (hfwd : vs.flatMap (fun v => strandVotes 128 k kmap v.1) = [])
    (hall : ∀ x ∈ (vs.map (fun v => rcSeq v.1)).flatMap (fun s => strandVotes 128 k kmap s), x = p)
    (h10 : 10 ≤ ((vs.map (fun v => rcSeq v.1)).flatMap (fun s => strandVotes 128 k kmap s)).length) :
    scanVariants 128 k kmap vs = some (true, p, false) := by
  rw [LOR.scan_eq, mapM_revCompl hb, Option.bind_some, hfwd]
  exact congrArg some (scanOf_rev _ p _ (mfp_all _ p hall h10) (by omega))

end SkaModel.LOD
