/-
C18 completeness — assembly: the colours of the edges out of the entry nodes, the record of every bubble as a
function of the bubble, the pipeline on a deletion family, and the records in the vocabulary of the statement
(`dexpRec`, `RecsMatch`).
-/
import SkaModel.Lemmas.LOEHrec2

namespace SkaModel.LOE

open SkaModel SkaModel.Spec SkaModel.Props.C16 SkaModel.Skalo SkaModel.Props.C17G SkaModel.LOG SkaModel.LOC

instance : Inhabited IndelRec := ⟨⟨[], [], [], [], []⟩⟩

/-- the record of a bubble: what `process_indels` computes for its two variants -/
def recOfBub (W k : Nat) (C : List (List Bool)) (col : Colours) (β : Bub) : IndelRec :=
  match LOP.recOf W (k - 1) C.length 0 1 col (bubVs W (k - 1) [] [] β false) with
  | some (some r) => r
  | _ => default

theorem zip_range_zipIdx {α β γ : Type} (P : Nat → β) (g : β × α → γ) :
    ∀ (l : List α) (s : Nat), (((List.range' s l.length).map P).zip l).map g =
      (l.zipIdx s).map (fun ft => g (P ft.2, ft.1)) := by
  intro l
  induction l with
  | nil => intro s; rfl
  | cons x l ih =>
    intro s
    rw [List.length_cons, List.range'_succ, List.map_cons, List.zip_cons_cons, List.map_cons, List.zipIdx_cons,
      List.map_cons, ih (s + 1)]

theorem lets_range' (F : List UInt8) (x n : Nat) (hx : x + n ≤ F.length) : lets F (List.range' x n) = win F x n := by
  unfold lets win
  apply List.ext_getElem?
  intro i
  rw [List.getElem?_map]
  by_cases hi : i < n
  · rw [List.getElem?_range' hi, List.getElem?_take_of_lt hi, List.getElem?_drop]
    simp only [Nat.one_mul, Option.map_some, getF, List.getD_eq_getElem?_getD]
    rw [List.getElem?_eq_getElem (show x + i < F.length by omega)]
    rfl
  · rw [List.getElem?_eq_none (by simp; omega), List.getElem?_eq_none (by
      rw [List.length_take, List.length_drop]; omega)]
    rfl

theorem filter_range_length {α : Type} (d : α) (p : α → Bool) (l : List α) :
    ((List.range l.length).filter (fun i => p (l.getD i d))).length = (l.filter p).length := by
  have hl : l = (List.range l.length).map (fun i => l.getD i d) := by
    apply List.ext_getElem?
    intro i
    rw [List.getElem?_map]
    by_cases hi : i < l.length
    · rw [List.getElem?_range hi, List.getElem?_eq_getElem hi]
      simp [List.getD_eq_getElem?_getD, List.getElem?_eq_getElem hi]
    · rw [List.getElem?_eq_none (by omega), List.getElem?_eq_none (by simp; omega)]
      rfl
  conv => rhs; rw [hl]
  rw [← List.countP_eq_length_filter, ← List.countP_eq_length_filter, List.countP_map]
  rfl

theorem map_range_getD {α β : Type} (d : α) (f : α → β) (l : List α) :
    l.map f = (List.range l.length).map (fun i => f (l.getD i d)) := by
  apply List.ext_getElem?
  intro i
  rw [List.getElem?_map, List.getElem?_map]
  by_cases hi : i < l.length
  · rw [List.getElem?_range hi, List.getElem?_eq_getElem hi]
    simp [List.getD_eq_getElem?_getD, List.getElem?_eq_getElem hi]
  · rw [List.getElem?_eq_none (by omega), List.getElem?_eq_none (by simp; omega)]
    rfl

theorem keepIdx_length (C : List (List Bool)) (t : Nat) : (keepIdx C t).length = carriers C t :=
  filter_range_length [] (fun c => c.getD t false) C

theorem filter_compl_length {α : Type} (p : α → Bool) (l : List α) :
    (l.filter p).length + (l.filter (fun x => !p x)).length = l.length := by
  induction l with
  | nil => rfl
  | cons c l ih =>
    simp only [List.filter_cons, List.length_cons]
    cases p c <;> simp <;> omega

theorem delIdx_length (C : List (List Bool)) (t : Nat) : (delIdx C t).length = C.length - carriers C t := by
  have h1 : (delIdx C t).length = (C.filter (fun c => !c.getD t false)).length :=
    filter_range_length [] (fun c => !c.getD t false) C
  have h2 := filter_compl_length (fun (c : List Bool) => c.getD t false) C
  unfold carriers
  omega

/-- the genotype strings of the expected record -/
theorem calls_eq (C : List (List Bool)) (t : Nat) (D : Bool) :
    (List.range C.length).map (fun i => if (decide (i ∈ keepIdx C t)) == D then "0" else "1") =
      C.map (fun c => if c.getD t false == D then "0" else "1") := by
  rw [map_range_getD [] (fun c => if c.getD t false == D then "0" else "1") C]
  apply List.map_congr_left
  intro i hi
  rw [List.mem_range] at hi
  have : decide (i ∈ keepIdx C t) = (C.getD i []).getD t false := by
    rw [Bool.eq_iff_iff, decide_eq_true_eq, mem_keepIdx]
    constructor
    · rintro ⟨c, hc, h⟩
      rw [getD_of_getElem? hc]; exact h
    · intro h
      exact ⟨C[i], List.getElem?_eq_getElem hi, by rw [← getD_of_getElem? (List.getElem?_eq_getElem hi)]; exact h⟩
  rw [this]

namespace Ctx

variable {W k : Nat} {F : List UInt8} {B : List (Nat × Nat)} {C : List (List Bool)} {a : Arr} {names : List String}

/-- the records in the vocabulary of the statement -/
theorem recFw_eq (cx : Ctx W k F B C a names) {t : Nat} (ht : t < B.length) :
    recFw k F B C t = dexpRec k F B C t false := by
  have hb := cx.h.bt ht
  have he := cx.ex_bounds ht
  have hk5 := cx.h.k5
  unfold recFw indelRec dexpRec expRec dexpFw
  simp only [Bool.false_eq_true, if_false]
  have hm : shOf k F (B.getD t (0, 0)) = shf k F B t := rfl
  have e1 : lE k F B t = win F ((B.getD t (0, 0)).1 + shOf k F (B.getD t (0, 0)) - (k - 1)) (k - 1) := by
    rw [hm]
    exact lets_range' F _ _ (by unfold eX bS bE at *; omega)
  have e2 : lI k F B t = win F ((B.getD t (0, 0)).1 + shOf k F (B.getD t (0, 0))) (B.getD t (0, 0)).2 := by
    rw [hm]
    unfold lI
    rw [lets_range' F _ _ (by omega)]
    unfold bS bE
    congr 1
    omega
  have e3 : lX k F B t = win F ((B.getD t (0, 0)).1 + (B.getD t (0, 0)).2 + shOf k F (B.getD t (0, 0)))
      (k - 1 - shOf k F (B.getD t (0, 0))) := by
    rw [hm]
    exact lets_range' F _ _ (by unfold bS bE at *; omega)
  rw [e1, e2, e3, calls_eq, keepIdx_length, delIdx_length]
  simp only [gt_iff_lt, decide_eq_true_eq]

theorem recRv_eq (cx : Ctx W k F B C a names) {t : Nat} (ht : t < B.length) :
    recRv k F B C t = dexpRec k F B C t true := by
  have hb := cx.h.bt ht
  have he := cx.ex_bounds ht
  have hk5 := cx.h.k5
  unfold recRv indelRec dexpRec expRec dexpRv
  simp only [if_true]
  have hm : shOf k F (B.getD t (0, 0)) = shf k F B t := rfl
  have e1 : lE2 k F B t = win F ((B.getD t (0, 0)).1 + shOf k F (B.getD t (0, 0)) - (k - 1))
      (k - 1 - shOf k F (B.getD t (0, 0))) := by
    rw [hm]
    unfold lE2
    rw [lets_range' F _ _ (by omega)]
    unfold eX bS at *
    congr 1
    omega
  have e2 : lI2 F B t = win F (B.getD t (0, 0)).1 (B.getD t (0, 0)).2 := by
    unfold lI2
    rw [lets_range' F _ _ (by omega)]
    unfold bS bE
    congr 1
    omega
  have e3 : lX2 k F B t = win F ((B.getD t (0, 0)).1 + (B.getD t (0, 0)).2) (k - 1) :=
    lets_range' F _ _ (by unfold bS bE at *; omega)
  rw [e1, e2, e3, calls_eq, keepIdx_length, delIdx_length]
  simp only [gt_iff_lt, decide_eq_true_eq]

end Ctx

end SkaModel.LOE
