/-
Row-level facts used by the `MDict.append` / `MDict.merge` proofs.
-/
namespace SkaModel.Rows

theorem getD_set {α : Type} (row : List α) (idx i : Nat) (b dflt : α) (h : idx < row.length) :
    (row.set idx b).getD i dflt = if i = idx then b else row.getD i dflt := by
  simp only [List.getD_eq_getElem?_getD, List.getElem?_set]
  by_cases e : idx = i
  · subst e; simp [h]
  · have e' : ¬ i = idx := fun x => e x.symm
    simp [e, e']

theorem getD_replicate_zero (n i : Nat) : (List.replicate n (0 : UInt8)).getD i 0 = 0 := by
  simp only [List.getD_eq_getElem?_getD, List.getElem?_replicate]
  by_cases h : i < n <;> simp [h]

theorem getD_of_le (row : List UInt8) (i : Nat) (h : row.length ≤ i) : row.getD i 0 = 0 := by
  simp [List.getD_eq_getElem?_getD, List.getElem?_eq_none h]

/-- the row update of `merge`: cell-wise `|=` over the common prefix, the rest of `row` untouched -/
def orRow (row r2 : List UInt8) : List UInt8 :=
  let z := (row.zip r2).map (fun ab => ab.1 ||| ab.2)
  z ++ row.drop z.length

theorem orRow_length (row r2 : List UInt8) : (orRow row r2).length = row.length := by
  simp only [orRow, List.length_append, List.length_map, List.length_zip, List.length_drop]
  omega

theorem orRow_getD (row r2 : List UInt8) (h : row.length = r2.length) (i : Nat) :
    (orRow row r2).getD i 0 = row.getD i 0 ||| r2.getD i 0 := by
  have hz : ((row.zip r2).map (fun ab => ab.1 ||| ab.2)).length = row.length := by
    simp [List.length_zip, h]
  have hd : row.drop ((row.zip r2).map (fun ab => ab.1 ||| ab.2)).length = [] := by
    rw [hz]; simp
  simp only [orRow, hd, List.append_nil, List.getD_eq_getElem?_getD, List.getElem?_map]
  by_cases hi : i < row.length
  · have hi2 : i < r2.length := h ▸ hi
    have : (row.zip r2)[i]? = some (row[i], r2[i]) := by
      rw [List.getElem?_eq_getElem (by simp [List.length_zip]; omega)]
      simp
    simp [this, List.getElem?_eq_getElem hi, List.getElem?_eq_getElem hi2]
  · have hi1 : row.length ≤ i := Nat.le_of_not_lt hi
    have hi2 : r2.length ≤ i := h ▸ hi1
    have : (row.zip r2)[i]? = none := List.getElem?_eq_none (by simp [List.length_zip]; omega)
    simp [this, List.getElem?_eq_none hi1, List.getElem?_eq_none hi2]

/-- the name update of `merge` has the same `zip`, `map`, append-the-rest shape -/
def zipPad {α : Type} (f : α × α → α) (l₁ l₂ : List α) : List α :=
  let z := (l₁.zip l₂).map f
  z ++ l₁.drop z.length

theorem zipPad_length {α : Type} (f : α × α → α) (l₁ l₂ : List α) : (zipPad f l₁ l₂).length = l₁.length := by
  simp only [zipPad, List.length_append, List.length_map, List.length_zip, List.length_drop]
  omega

theorem zipPad_getD {α : Type} (f : α × α → α) (l₁ l₂ : List α) (h : l₁.length = l₂.length) (dflt : α) (i : Nat)
    (hi : i < l₁.length) : (zipPad f l₁ l₂).getD i dflt = f (l₁.getD i dflt, l₂.getD i dflt) := by
  have hz : ((l₁.zip l₂).map f).length = l₁.length := by simp [List.length_zip, h]
  have hd : l₁.drop ((l₁.zip l₂).map f).length = [] := by rw [hz]; simp
  have hi2 : i < l₂.length := h ▸ hi
  have : (l₁.zip l₂)[i]? = some (l₁[i], l₂[i]) := by
    rw [List.getElem?_eq_getElem (by simp [List.length_zip]; omega)]
    simp
  simp only [zipPad, hd, List.append_nil, List.getD_eq_getElem?_getD, List.getElem?_map, this,
    List.getElem?_eq_getElem hi, List.getElem?_eq_getElem hi2, Option.map_some, Option.getD_some]

/-- lists of the same length with the same `getD` are equal -/
theorem ext_getD {α : Type} (dflt : α) (l₁ l₂ : List α) (hl : l₁.length = l₂.length)
    (h : ∀ i, i < l₁.length → l₁.getD i dflt = l₂.getD i dflt) : l₁ = l₂ := by
  apply List.ext_getElem hl
  intro i h1 h2
  have := h i h1
  simpa [List.getD_eq_getElem?_getD, List.getElem?_eq_getElem h1, List.getElem?_eq_getElem h2] using this

end SkaModel.Rows
