/-
`Spec.maskOf` depends only on the set of observations; membership in
`Spec.windows` and `Spec.observations`.
-/
import SkaModel.Spec.Windows
import SkaModel.Spec.Transforms

namespace SkaModel

open SkaModel.Spec

theorem foldl_or_testBit (l : List (Nat × Nat)) (m0 i : Nat) :
    (l.foldl (fun m o => m ||| o.2) m0).testBit i
      = (m0.testBit i || l.any (fun o => o.2.testBit i)) := by
  induction l generalizing m0 with
  | nil => simp
  | cons a l ih => simp [List.foldl_cons, ih, Nat.testBit_or, Bool.or_assoc]

/-- bit `i` of the mask of `key`: some observation of `key` has bit `i` -/
theorem maskOf_testBit (obs : List (Nat × Nat)) (key i : Nat) :
    (maskOf obs key).testBit i = obs.any (fun o => o.1 == key && o.2.testBit i) := by
  unfold maskOf
  rw [foldl_or_testBit]
  simp [List.any_filter]

theorem maskOf_append (a b : List (Nat × Nat)) (key : Nat) :
    maskOf (a ++ b) key = maskOf a key ||| maskOf b key := by
  apply Nat.eq_of_testBit_eq
  intro i
  rw [Nat.testBit_or, maskOf_testBit, maskOf_testBit, maskOf_testBit, List.any_append]

/-- the mask depends only on the set of observations -/
theorem maskOf_congr_mem {a b : List (Nat × Nat)} (h : ∀ o, o ∈ a ↔ o ∈ b) (key : Nat) :
    maskOf a key = maskOf b key := by
  apply Nat.eq_of_testBit_eq
  intro i
  rw [maskOf_testBit, maskOf_testBit, Bool.eq_iff_iff, List.any_eq_true, List.any_eq_true]
  constructor
  · rintro ⟨o, ho, hp⟩; exact ⟨o, (h o).mp ho, hp⟩
  · rintro ⟨o, ho, hp⟩; exact ⟨o, (h o).mpr ho, hp⟩

/-! ### windows -/

theorem mem_windowsBy (k len : Nat) (ok : Nat → Bool) (j : Nat) :
    j ∈ windowsBy k len ok ↔ j + k ≤ len ∧ ∀ t, t < k → ok (j + t) = true := by
  unfold windowsBy validStart
  simp only [List.mem_filter, List.mem_range, Bool.and_eq_true, decide_eq_true_eq,
    List.all_eq_true]
  constructor
  · rintro ⟨_, h1, h2⟩; exact ⟨h1, h2⟩
  · rintro ⟨h1, h2⟩; exact ⟨by omega, h1, h2⟩

theorem mem_windows (k : Nat) (seq : Array UInt8) (j : Nat) :
    j ∈ windows k seq ↔ j + k ≤ seq.size ∧ ∀ t, t < k → validBase (seq.getD (j + t) 0) = true :=
  mem_windowsBy k seq.size _ j

/-! ### observations -/

theorem observations_nil (k : Nat) (rc : Bool) : observations k rc [] = [] := rfl

theorem observations_append (k : Nat) (rc : Bool) (a b : List (Array UInt8)) :
    observations k rc (a ++ b) = observations k rc a ++ observations k rc b := by
  unfold observations
  rw [List.flatMap_append]

theorem observations_cons (k : Nat) (rc : Bool) (r : Array UInt8) (rs : List (Array UInt8)) :
    observations k rc (r :: rs) = observations k rc [r] ++ observations k rc rs :=
  observations_append k rc [r] rs

theorem observations_single (k : Nat) (rc : Bool) (r : Array UInt8) :
    observations k rc [r]
      = (windows k r).map (fun j => ((obs k rc r j).1, obsMask k rc r j)) := by
  simp [observations]

theorem mem_observations_single (k : Nat) (rc : Bool) (r : Array UInt8) (o : Nat × Nat) :
    o ∈ observations k rc [r]
      ↔ ∃ j, j ∈ windows k r ∧ ((obs k rc r j).1, obsMask k rc r j) = o := by
  rw [observations_single, List.mem_map]

theorem mem_observations (k : Nat) (rc : Bool) (recs : List (Array UInt8)) (o : Nat × Nat) :
    o ∈ observations k rc recs ↔ ∃ r, r ∈ recs ∧ o ∈ observations k rc [r] := by
  induction recs with
  | nil => simp [observations_nil]
  | cons r rs ih =>
    rw [observations_cons, List.mem_append, ih]
    constructor
    · rintro (h | ⟨r', hr', h⟩)
      · exact ⟨r, List.mem_cons_self, h⟩
      · exact ⟨r', List.mem_cons_of_mem _ hr', h⟩
    · rintro ⟨r', hr', h⟩
      rcases List.mem_cons.mp hr' with rfl | hr'
      · exact Or.inl h
      · exact Or.inr ⟨r', hr', h⟩

/-- two records contribute the same set of observations -/
def SameObs (k : Nat) (rc : Bool) (a b : Array UInt8) : Prop :=
  ∀ o, o ∈ observations k rc [a] ↔ o ∈ observations k rc [b]

theorem SameObs.refl (k : Nat) (rc : Bool) (a : Array UInt8) : SameObs k rc a a :=
  fun _ => Iff.rfl

theorem Spec.Pointwise.of_getElem {α β : Type} {R : α → β → Prop} :
    ∀ {l : List α} {l' : List β} (hlen : l'.length = l.length),
      (∀ i (h : i < l.length), R l[i] (l'[i]'(hlen ▸ h))) → Pointwise R l l'
  | [], [], _, _ => Pointwise.nil
  | [], _ :: _, hlen, _ => by simp at hlen
  | _ :: _, [], hlen, _ => by simp at hlen
  | a :: l, b :: l', hlen, h => by
    refine Pointwise.cons (h 0 (by simp)) (Pointwise.of_getElem (by simpa using hlen) ?_)
    intro i hi
    exact h (i + 1) (by simpa using hi)

theorem Spec.Pointwise.refl {α : Type} {R : α → α → Prop} (hrefl : ∀ a, R a a) :
    ∀ l : List α, Pointwise R l l
  | [] => Pointwise.nil
  | a :: l => Pointwise.cons (hrefl a) (Pointwise.refl hrefl l)

theorem Spec.Pointwise.mono_mem {α β : Type} {R S : α → β → Prop} {l : List α} {l' : List β}
    (h : Pointwise R l l') : (∀ a, a ∈ l → ∀ b, R a b → S a b) → Pointwise S l l' := by
  induction h with
  | nil => intro _; exact Pointwise.nil
  | cons hab _ ih =>
    intro hm
    exact Pointwise.cons (hm _ List.mem_cons_self _ hab)
      (ih (fun a ha => hm a (List.mem_cons_of_mem _ ha)))

/-- record-wise equal observation sets give equal observation sets of the lists -/
theorem observations_mem_congr {k : Nat} {rc : Bool} {recs recs' : List (Array UInt8)}
    (h : Pointwise (SameObs k rc) recs recs') :
    ∀ o, o ∈ observations k rc recs ↔ o ∈ observations k rc recs' := by
  induction h with
  | nil => intro o; exact Iff.rfl
  | @cons a b l l' hab _ ih =>
    intro o
    rw [observations_cons k rc a l, observations_cons k rc b l',
      List.mem_append, List.mem_append, hab o, ih o]

theorem maskFor_congr {k : Nat} {rc : Bool} {recs recs' : List (Array UInt8)}
    (h : Pointwise (SameObs k rc) recs recs') (key : Nat) :
    maskFor k rc recs key = maskFor k rc recs' key :=
  maskOf_congr_mem (observations_mem_congr h) key

end SkaModel
