/-
C17 completeness — the fold of `analyse` over all groups and the final count: every site is called
exactly once, on one of the two strands.
-/
import SkaModel.Lemmas.LOCCall4

namespace SkaModel.LOC

open SkaModel SkaModel.Spec SkaModel.Props.C16 SkaModel.Skalo SkaModel.Props.C17G SkaModel.LOG

variable {k L : Nat} {S : List (List UInt8)} {P : List Nat}

/-- the body of the fold of `analyse` when there are no indel extremities -/
def grpStep (W kG n mNum mDen : Nat) (col : Colours) (acc : List (List UInt8) × List Nat)
    (kv : (Nat × Nat) × List Variant) : Option (List (List UInt8) × List Nat) :=
  if kv.2.length < 2 then some acc
  else (groupSnps W kG n mNum mDen col acc.2 kv.2).bind (fun r => some (acc.1 ++ r.1, acc.2 ++ r.2))

/-- **the fold over good groups, in any order** -/
theorem fold_groups (pf : PFam k L S P) (hk5 : 5 ≤ k) {W : Nat} (hW : 2 * k ≤ W)
    (hw : W = 64 ∨ W = 128) {col : Colours} (hc : ColOK k L col S) (hc' : ColOK k L col (rcFam S))
    (mNum mDen : Nat) :
    ∀ (gs : List ((Nat × Nat) × List Variant)),
      (∀ kv ∈ gs, 2 ≤ kv.2.length ∧
        ((∃ c0 len, GG k L S P c0 len kv.2) ∨ (∃ c0 len, GG k L (rcFam S) (mirrorP L P) c0 len kv.2))) →
      ∀ (Called : List (Nat × Bool)) (acc : List (List UInt8) × List Nat), CInv k S P Called acc →
      ∃ (Called' : List (Nat × Bool)) (acc' : List (List UInt8) × List Nat),
        gs.foldlM (grpStep W (k - 1) S.length mNum mDen col) acc = some acc' ∧ CInv k S P Called' acc' ∧
        (∀ x ∈ Called, x ∈ Called') ∧
        ∀ kv ∈ gs, ∀ c0 len, GG k L S P c0 len kv.2 → ∀ q ∈ P, c0 ≤ q → q < c0 + len → q ∈ Called'.map (·.1) := by
  intro gs
  induction gs with
  | nil =>
    intro _ Called acc hI
    exact ⟨Called, acc, rfl, hI, fun x hx => hx, by simp⟩
  | cons kv rest ih =>
    intro hgs Called acc hI
    obtain ⟨h2, hcase⟩ := hgs kv (List.mem_cons_self ..)
    have hne : kv.2 ≠ [] := by
      intro e; rw [e] at h2; simp at h2
    have hrest := ih (fun kv' hkv' => hgs kv' (List.mem_cons_of_mem _ hkv'))
    rw [List.foldlM_cons]
    -- the step
    have hstep : ∃ (Called1 : List (Nat × Bool)) (acc1 : List (List UInt8) × List Nat),
        grpStep W (k - 1) S.length mNum mDen col acc kv = some acc1 ∧ CInv k S P Called1 acc1 ∧
        (∀ x ∈ Called, x ∈ Called1) ∧
        ∀ c0 len, GG k L S P c0 len kv.2 → ∀ q ∈ P, c0 ≤ q → q < c0 + len → q ∈ Called1.map (·.1) := by
      unfold grpStep
      rw [if_neg (by omega)]
      rcases hcase with ⟨c0, len, hg⟩ | ⟨c0, len, hg⟩
      · obtain ⟨Called1, cols', save, hgs', hI1, hmono, _⟩ := step_fwd pf hk5 hW hw hc mNum mDen hI hg hne
        refine ⟨Called1, _, by rw [hgs']; rfl, hI1, hmono, ?_⟩
        -- coverage for any description of this group as a group of the strand of the samples
        intro c0' len' hg' q hq h1 h2'
        obtain ⟨Called2, cols2, save2, hgs2, hI2, _, hcov2⟩ := step_fwd pf hk5 hW hw hc mNum mDen hI hg' hne
        rw [hgs'] at hgs2
        simp only [Option.some.injEq, Prod.mk.injEq] at hgs2
        -- both invariants describe the same accumulator: the called sites are the blocked ones
        have hq2 := hcov2 q hq h1 h2'
        obtain ⟨s0, hs0⟩ := List.exists_mem_of_ne_nil S pf.ne
        have hin := (hI2.has q hq2 s0 hs0).1
        rw [← hgs2.2] at hin
        obtain ⟨q3, hq3, hb⟩ := hI1.blk _ hin
        obtain ⟨y, hy, rfl⟩ := List.mem_map.mp hq3
        have := blk_site pf hk5 hq (hI1.sub y hy) ⟨s0, hs0, Or.inl rfl⟩ hb
        rw [this]
        exact hq3
      · obtain ⟨Called1, cols', save, hgs', hI1, hmono⟩ := step_rev pf hk5 hW hw hc' mNum mDen hI hg hne
        refine ⟨Called1, _, by rw [hgs']; rfl, hI1, hmono, ?_⟩
        intro c0' len' hg' q hq h1 h2'
        obtain ⟨Called2, cols2, save2, hgs2, hI2, _, hcov2⟩ := step_fwd pf hk5 hW hw hc mNum mDen hI hg' hne
        rw [hgs'] at hgs2
        simp only [Option.some.injEq, Prod.mk.injEq] at hgs2
        have hq2 := hcov2 q hq h1 h2'
        obtain ⟨s0, hs0⟩ := List.exists_mem_of_ne_nil S pf.ne
        have hin := (hI2.has q hq2 s0 hs0).1
        rw [← hgs2.2] at hin
        obtain ⟨q3, hq3, hb⟩ := hI1.blk _ hin
        obtain ⟨y, hy, rfl⟩ := List.mem_map.mp hq3
        have := blk_site pf hk5 hq (hI1.sub y hy) ⟨s0, hs0, Or.inl rfl⟩ hb
        rw [this]
        exact hq3
    obtain ⟨Called1, acc1, hs1, hI1, hmono1, hcov1⟩ := hstep
    rw [hs1]
    simp only [Option.bind_eq_bind, Option.bind_some]
    obtain ⟨Called2, acc2, hf2, hI2, hmono2, hcov2⟩ := hrest Called1 acc1 hI1
    refine ⟨Called2, acc2, hf2, hI2, fun x hx => hmono2 x (hmono1 x hx), ?_⟩
    intro kv' hkv' c0 len hg q hq h1 h2'
    rcases List.mem_cons.mp hkv' with e | hkv''
    · subst e
      have := hcov1 c0 len hg q hq h1 h2'
      obtain ⟨y, hy, rfl⟩ := List.mem_map.mp this
      exact List.mem_map.mpr ⟨y, hmono2 y hy, rfl⟩
    · exact hcov2 kv' hkv'' c0 len hg q hq h1 h2'

/-! ### the columns of a complete set of called sites -/

/-- the strand on which a site was called -/
def flipOf (Called : List (Nat × Bool)) (p : Nat) : Bool := (Assoc.lookup Called p).getD false

theorem called_eq {Called : List (Nat × Bool)} (hnd : (Called.map (·.1)).Nodup) :
    Called = (Called.map (·.1)).map (fun p => (p, flipOf Called p)) := by
  rw [List.map_map]
  have : ∀ x ∈ Called, ((fun p => (p, flipOf Called p)) ∘ fun x => x.1) x = x := by
    intro x hx
    simp only [Function.comp, flipOf]
    rw [Assoc.lookup_of_mem_nodup (d := Called) (key := x.1) (v := x.2) hnd hx]
    rfl
  conv => lhs; rw [← List.map_id Called]
  apply List.map_congr_left
  intro x hx
  exact (this x hx).symm

/-- when exactly the sites `P` have been called, the columns match the true columns -/
theorem colsMatch_of_called {Called : List (Nat × Bool)} (hnd : (Called.map (·.1)).Nodup) (hP : P.Nodup)
    (hsub : ∀ x ∈ Called, x.1 ∈ P) (hall : ∀ p ∈ P, p ∈ Called.map (·.1)) :
    ColsMatch (Called.map (colf S)) (trueCols S P) := by
  refine ⟨P.map (flipOf Called), by simp [trueCols], ?_⟩
  have hperm : (Called.map (·.1)).Perm P := by
    rw [List.perm_ext_iff_of_nodup hnd hP]
    intro p
    constructor
    · intro hp
      obtain ⟨x, hx, rfl⟩ := List.mem_map.mp hp
      exact hsub x hx
    · exact hall p
  have h1 : Called.map (colf S) = (Called.map (·.1)).map (fun p => colf S (p, flipOf Called p)) := by
    conv => lhs; rw [called_eq hnd]
    rw [List.map_map]
    rfl
  have h2 : List.zipWith (fun (b : Bool) t => if b then complCol t else t) (P.map (flipOf Called)) (trueCols S P) =
      P.map (fun p => colf S (p, flipOf Called p)) := by
    unfold trueCols
    rw [List.zipWith_map_left, List.zipWith_map_right, List.zipWith_self]
    apply List.map_congr_left
    intro p _
    simp only [colf, colT]
  rw [h1, h2]
  exact hperm.map _

end SkaModel.LOC
