/-
C18 completeness — the sequences of the two paths of the bubble of a block and of its twin:
`E ++ I ++ X` and `E ++ X` (`E`, `X` the `(k-1)`-mers before and after the block, `I` the block), and their
reverse complements.
-/
import SkaModel.Lemmas.LOESeq

namespace SkaModel.LOE

open SkaModel SkaModel.Spec SkaModel.Props.C16 SkaModel.Skalo SkaModel.Props.C17G SkaModel.LOG SkaModel.LOC

theorem map_getF_shift (F : List UInt8) (s n d : Nat) :
    (List.range' s n).map (fun x => getF F (x + d)) = lets F (List.range' (s + d) n) := by
  unfold lets
  rw [show s + d = d + s by omega, ← List.map_add_range', List.map_map]
  apply List.map_congr_left
  intro x _
  show getF F (x + d) = getF F (d + x)
  rw [Nat.add_comm]

theorem c_last (k : Nat) (B : List (Nat × Nat)) (x : Nat) (hk : 2 ≤ k) :
    (Nd.cols k B (.c x)).getLastD 0 = x + (k - 1) - 1 := by
  simp only [Nd.cols]
  obtain ⟨m, hm⟩ : ∃ m, k - 1 = m + 1 := ⟨k - 2, by omega⟩
  rw [hm, DFam.range'_snoc, getLastD_append_singleton]
  omega

theorem g_last (k : Nat) (B : List (Nat × Nat)) (t x : Nat) (h1 : bS B t + 1 < x + k) (h2 : x < bS B t) :
    (Nd.cols k B (.g t x)).getLastD 0 = bE B t + (k - 1 - (bS B t - x)) - 1 := by
  simp only [Nd.cols]
  obtain ⟨m, hm⟩ : ∃ m, k - 1 - (bS B t - x) = m + 1 := ⟨k - 1 - (bS B t - x) - 1, by omega⟩
  rw [hm, DFam.range'_snoc, ← List.append_assoc, getLastD_append_singleton]
  omega

theorem c_head (k : Nat) (B : List (Nat × Nat)) (x : Nat) (hk : 2 ≤ k) : (Nd.cols k B (.c x)).headD 0 = x := by
  simp only [Nd.cols]
  obtain ⟨m, hm⟩ : ∃ m, k - 1 = m + 1 := ⟨k - 2, by omega⟩
  rw [hm, List.range'_succ]
  rfl

theorem g_head (k : Nat) (B : List (Nat × Nat)) (t x : Nat) (h2 : x < bS B t) :
    (Nd.cols k B (.g t x)).headD 0 = x := by
  simp only [Nd.cols]
  obtain ⟨m, hm⟩ : ∃ m, bS B t - x = m + 1 := ⟨bS B t - x - 1, by omega⟩
  rw [hm, List.range'_succ]
  rfl

theorem rcSeq_lets_rev (F : List UInt8) (w : List Nat) :
    w.reverse.map (fun x => compl (getF F x)) = rcSeq (lets F w) := by
  unfold rcSeq lets
  rw [← List.map_reverse, List.map_map]
  rfl

/-- the letters around block `t` (shift `m`): the `(k-1)`-mer that ends at the rightmost placement, the block
there, and the `k-1-m` letters behind it -/
def lE (k : Nat) (F : List UInt8) (B : List (Nat × Nat)) (t : Nat) : List UInt8 :=
  lets F (List.range' (eX k F B t) (k - 1))
def lI (k : Nat) (F : List UInt8) (B : List (Nat × Nat)) (t : Nat) : List UInt8 :=
  lets F (List.range' (bS B t + shf k F B t) (bE B t - bS B t))
def lX (k : Nat) (F : List UInt8) (B : List (Nat × Nat)) (t : Nat) : List UInt8 :=
  lets F (List.range' (bE B t + shf k F B t) (k - 1 - shf k F B t))

/-- the same at the leftmost placement: the `k-1-m` letters before the block, the block, the `(k-1)`-mer
behind it -/
def lE2 (k : Nat) (F : List UInt8) (B : List (Nat × Nat)) (t : Nat) : List UInt8 :=
  lets F (List.range' (eX k F B t) (bS B t - eX k F B t))
def lI2 (F : List UInt8) (B : List (Nat × Nat)) (t : Nat) : List UInt8 :=
  lets F (List.range' (bS B t) (bE B t - bS B t))
def lX2 (k : Nat) (F : List UInt8) (B : List (Nat × Nat)) (t : Nat) : List UInt8 :=
  lets F (List.range' (bE B t) (k - 1))

namespace Ctx

variable {W k : Nat} {F : List UInt8} {B : List (Nat × Nat)} {C : List (List Bool)} {a : Arr} {names : List String}

theorem seq_fa (cx : Ctx W k F B C a names) (starts ends : List Nat) {t : Nat} (ht : t < B.length) :
    (buildVariant W (k - 1) starts ends (fwdBub k F B t).en (fwdBub k F B t).pa).1 =
      lE k F B t ++ lI k F B t ++ lX k F B t := by
  have hb := cx.h.bt ht
  have he := cx.ex_bounds ht
  have hk5 := cx.h.k5
  have hp : (fwdBub k F B t).pa = (Nd.c (eX k F B t) ::
      ((List.range' (eX k F B t + 1) (bE B t - eX k F B t - 1)).map Nd.c ++ [Nd.c (bE B t)])).map
        (nF k F B) := by
    unfold Bub.pa fwdBub
    simp only [List.map_cons, List.map_append, List.map_map, List.map_nil]
    rfl
  rw [hp]
  show (buildVariant W (k - 1) starts ends (nF k F B (.c (eX k F B t))) _).1 = _
  rw [cx.bv_fwd starts ends _ _ (cx.vc ht (by omega)) (by
    intro n hn
    rw [List.mem_append, List.mem_map, List.mem_singleton] at hn
    rcases hn with ⟨x, hx, rfl⟩ | rfl
    · rw [List.mem_range'_1] at hx
      exact cx.vc ht (by omega)
    · exact cx.vc ht (by omega))]
  rw [List.append_assoc]
  congr 1
  rw [List.map_append, List.map_map, List.map_singleton]
  have h1 : (List.range' (eX k F B t + 1) (bE B t - eX k F B t - 1)).map
      ((fun n => getF F ((Nd.cols k B n).getLastD 0)) ∘ Nd.c) =
      lets F (List.range' (bS B t + shf k F B t) (bE B t - eX k F B t - 1)) := by
    have hsh := map_getF_shift F (eX k F B t + 1) (bE B t - eX k F B t - 1) (k - 2)
    rw [show eX k F B t + 1 + (k - 2) = bS B t + shf k F B t by omega] at hsh
    rw [← hsh]
    apply List.map_congr_left
    intro x _
    show getF F ((Nd.cols k B (.c x)).getLastD 0) = _
    rw [c_last k B x (by omega)]
    congr 1
    omega
  rw [h1, c_last k B _ (by omega)]
  unfold lI lX
  have hr : List.range' (bS B t + shf k F B t) (bE B t - bS B t) ++
      List.range' (bE B t + shf k F B t) (k - 1 - shf k F B t) =
      List.range' (bS B t + shf k F B t) (bE B t - eX k F B t - 1) ++ [bE B t + (k - 1) - 1] := by
    have h2 := @List.range'_append_1 (bS B t + shf k F B t) (bE B t - bS B t) (k - 1 - shf k F B t)
    rw [show bS B t + shf k F B t + (bE B t - bS B t) = bE B t + shf k F B t by omega] at h2
    rw [h2, show bE B t - bS B t + (k - 1 - shf k F B t) = (bE B t - eX k F B t - 1) + 1 by omega,
      DFam.range'_snoc]
    congr 2
    omega
  rw [← lets_append, hr, lets_append]
  rfl

theorem seq_fb (cx : Ctx W k F B C a names) (starts ends : List Nat) {t : Nat} (ht : t < B.length) :
    (buildVariant W (k - 1) starts ends (fwdBub k F B t).en (fwdBub k F B t).pb).1 =
      lE k F B t ++ lX k F B t := by
  have hb := cx.h.bt ht
  have he := cx.ex_bounds ht
  have hk5 := cx.h.k5
  have hp : (fwdBub k F B t).pb = (Nd.c (eX k F B t) ::
      ((List.range' (eX k F B t + 1) (bS B t - eX k F B t - 1)).map (Nd.g t) ++ [Nd.c (bE B t)])).map
        (nF k F B) := by
    unfold Bub.pb fwdBub
    simp only [List.map_cons, List.map_append, List.map_map, List.map_nil]
    rfl
  rw [hp]
  show (buildVariant W (k - 1) starts ends (nF k F B (.c (eX k F B t))) _).1 = _
  rw [cx.bv_fwd starts ends _ _ (cx.vc ht (by omega)) (by
    intro n hn
    rw [List.mem_append, List.mem_map, List.mem_singleton] at hn
    rcases hn with ⟨x, hx, rfl⟩ | rfl
    · rw [List.mem_range'_1] at hx
      exact cx.vg ht hx.1 (by omega)
    · exact cx.vc ht (by omega))]
  congr 1
  rw [List.map_append, List.map_map, List.map_singleton]
  have h1 : (List.range' (eX k F B t + 1) (bS B t - eX k F B t - 1)).map
      ((fun n => getF F ((Nd.cols k B n).getLastD 0)) ∘ Nd.g t) =
      lets F (List.range' (bE B t + shf k F B t) (bS B t - eX k F B t - 1)) := by
    have hsh := map_getF_shift F (eX k F B t + 1) (bS B t - eX k F B t - 1) (bE B t + (k - 1) - 1 - bS B t)
    rw [show eX k F B t + 1 + (bE B t + (k - 1) - 1 - bS B t) = bE B t + shf k F B t by omega] at hsh
    rw [← hsh]
    apply List.map_congr_left
    intro x hx
    rw [List.mem_range'_1] at hx
    show getF F ((Nd.cols k B (.g t x)).getLastD 0) = _
    rw [g_last k B t x (by omega) (by omega)]
    congr 1
    omega
  rw [h1, c_last k B _ (by omega)]
  unfold lX
  have hr : List.range' (bE B t + shf k F B t) (k - 1 - shf k F B t) =
      List.range' (bE B t + shf k F B t) (bS B t - eX k F B t - 1) ++ [bE B t + (k - 1) - 1] := by
    rw [show k - 1 - shf k F B t = (bS B t - eX k F B t - 1) + 1 by omega, DFam.range'_snoc]
    congr 2
    omega
  rw [hr, lets_append]
  rfl

theorem seq_ra (cx : Ctx W k F B C a names) (starts ends : List Nat) {t : Nat} (ht : t < B.length) :
    (buildVariant W (k - 1) starts ends (revBub k F B t).en (revBub k F B t).pa).1 =
      rcSeq (lX2 k F B t) ++ rcSeq (lI2 F B t) ++ rcSeq (lE2 k F B t) := by
  have hb := cx.h.bt ht
  have he := cx.ex_bounds ht
  have hk5 := cx.h.k5
  have hp : (revBub k F B t).pa = (Nd.c (bE B t) ::
      ((List.range' (eX k F B t + 1) (bE B t - eX k F B t - 1)).reverse.map Nd.c ++
        [Nd.c (eX k F B t)])).map (nR k F B) := by
    unfold Bub.pa revBub
    simp only [List.map_cons, List.map_append, List.map_map, List.map_nil]
    rfl
  rw [hp]
  show (buildVariant W (k - 1) starts ends (nR k F B (.c (bE B t))) _).1 = _
  rw [cx.bv_rev starts ends _ _ (cx.vc ht (by omega)) (by
    intro n hn
    rw [List.mem_append, List.mem_map, List.mem_singleton] at hn
    rcases hn with ⟨x, hx, rfl⟩ | rfl
    · rw [List.mem_reverse, List.mem_range'_1] at hx
      exact cx.vc ht (by omega)
    · exact cx.vc ht (by omega))]
  rw [List.append_assoc]
  congr 1
  rw [← rcSeq_append]
  unfold lE2 lI2
  have hr : List.range' (eX k F B t) (bS B t - eX k F B t) ++ List.range' (bS B t) (bE B t - bS B t) =
      (eX k F B t) :: List.range' (eX k F B t + 1) (bE B t - eX k F B t - 1) := by
    have h2 := @List.range'_append_1 (eX k F B t) (bS B t - eX k F B t) (bE B t - bS B t)
    rw [show eX k F B t + (bS B t - eX k F B t) = bS B t by omega] at h2
    rw [h2, show bS B t - eX k F B t + (bE B t - bS B t) = (bE B t - eX k F B t - 1) + 1 by omega, List.range'_succ]
  rw [← lets_append, hr, ← rcSeq_lets_rev, List.reverse_cons, List.map_append, List.map_singleton,
    List.map_append, List.map_map, List.map_singleton, c_head k B _ (by omega)]
  congr 1
  apply List.map_congr_left
  intro x _
  show compl (getF F ((Nd.cols k B (.c x)).headD 0)) = _
  rw [c_head k B x (by omega)]

theorem seq_rb (cx : Ctx W k F B C a names) (starts ends : List Nat) {t : Nat} (ht : t < B.length) :
    (buildVariant W (k - 1) starts ends (revBub k F B t).en (revBub k F B t).pb).1 =
      rcSeq (lX2 k F B t) ++ rcSeq (lE2 k F B t) := by
  have hb := cx.h.bt ht
  have he := cx.ex_bounds ht
  have hk5 := cx.h.k5
  have hp : (revBub k F B t).pb = (Nd.c (bE B t) ::
      ((List.range' (eX k F B t + 1) (bS B t - eX k F B t - 1)).reverse.map (Nd.g t) ++
        [Nd.c (eX k F B t)])).map (nR k F B) := by
    unfold Bub.pb revBub
    simp only [List.map_cons, List.map_append, List.map_map, List.map_nil]
    rfl
  rw [hp]
  show (buildVariant W (k - 1) starts ends (nR k F B (.c (bE B t))) _).1 = _
  rw [cx.bv_rev starts ends _ _ (cx.vc ht (by omega)) (by
    intro n hn
    rw [List.mem_append, List.mem_map, List.mem_singleton] at hn
    rcases hn with ⟨x, hx, rfl⟩ | rfl
    · rw [List.mem_reverse, List.mem_range'_1] at hx
      exact cx.vg ht hx.1 (by omega)
    · exact cx.vc ht (by omega))]
  congr 1
  unfold lE2
  rw [← rcSeq_lets_rev]
  rw [show bS B t - eX k F B t = (bS B t - eX k F B t - 1) + 1 by omega, List.range'_succ,
    List.reverse_cons, List.map_append, List.map_singleton, List.map_append, List.map_map, List.map_singleton]
  rw [c_head k B _ (by omega)]
  congr 1
  apply List.map_congr_left
  intro x hx
  rw [List.mem_reverse, List.mem_range'_1] at hx
  show compl (getF F ((Nd.cols k B (.g t x)).headD 0)) = _
  rw [g_head k B t x (by omega)]

end Ctx

end SkaModel.LOE
