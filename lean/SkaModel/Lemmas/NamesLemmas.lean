import SkaModel.Impl.Names
namespace SkaModel.NamesLemmas
open SkaModel.Names

theorem len_app (pre e' : List Char) : (pre ++ '.' :: e').length = pre.length + 1 + e'.length := by
  simp; omega

/-- the length-`k` suffix of `pre ++ '.' :: e'` for `k ≤ e'.length` -/
theorem drop_suffix (pre e' : List Char) (k : Nat) (hk : k ≤ e'.length) :
    (pre ++ '.' :: e').drop ((pre ++ '.' :: e').length - k) = e'.drop (e'.length - k) := by
  have h : (pre ++ '.' :: e').length - k = (pre ++ ['.']).length + (e'.length - k) := by
    simp; omega
  rw [h, show pre ++ '.' :: e' = (pre ++ ['.']) ++ e' by simp, List.drop_append]
  simp

theorem getD_dot (pre e' : List Char) : (pre ++ '.' :: e').getD pre.length 'x' = '.' := by
  simp [List.getD_eq_getElem?_getD]

theorem endsWithExt_self (pre e' e : List Char) (need : Nat) (h : e'.map fold = e) :
    endsWithExt (pre ++ '.' :: e') e need = decide (need ≤ pre.length) := by
  have hl : e.length = e'.length := by rw [← h, List.length_map]
  unfold endsWithExt
  rw [hl, drop_suffix pre e' e'.length (Nat.le_refl _)]
  have h2 : (pre ++ '.' :: e').length - e'.length - 1 = pre.length := by simp; omega
  rw [h2, getD_dot]
  simp [h]
  omega

theorem endsWithExt_shorter (pre e' e1 : List Char) (need : Nat) (hk : e1.length ≤ e'.length)
    (hne : (e'.map fold).drop (e'.length - e1.length) ≠ e1) :
    endsWithExt (pre ++ '.' :: e') e1 need = false := by
  unfold endsWithExt
  rw [drop_suffix pre e' e1.length hk]
  have : (List.map fold (List.drop (e'.length - e1.length) e') == e1) = false := by
    rw [List.map_drop]; simpa using hne
  rw [this]; simp

theorem matchExt_ext (pre e' : List Char) (hp : pre ≠ []) (he : e'.map fold ∈ exts) :
    matchExt (pre ++ '.' :: e') = some (e'.map fold) := by
  have hpl : 1 ≤ pre.length := by
    cases pre with
    | nil => exact absurd rfl hp
    | cons a t => simp
  have hlen : (e'.map fold).length = e'.length := List.length_map _
  unfold matchExt
  simp only [exts] at he ⊢
  simp only [List.mem_cons, List.not_mem_nil, or_false] at he
  rcases he with he | he | he | he
  · rw [List.find?_cons, endsWithExt_self pre e' _ 1 he]; simp [hpl, he]
  · rw [he] at hlen
    rw [List.find?_cons, endsWithExt_shorter pre e' _ 1 (by rw [← hlen]; decide) (by rw [he, ← hlen]; decide)]
    rw [List.find?_cons, endsWithExt_self pre e' _ 1 he]; simp [hpl, he]
  · rw [he] at hlen
    rw [List.find?_cons, endsWithExt_shorter pre e' _ 1 (by rw [← hlen]; decide) (by rw [he, ← hlen]; decide)]
    rw [List.find?_cons, endsWithExt_shorter pre e' _ 1 (by rw [← hlen]; decide) (by rw [he, ← hlen]; decide)]
    rw [List.find?_cons, endsWithExt_self pre e' _ 1 he]; simp [hpl, he]
  · rw [he] at hlen
    rw [List.find?_cons, endsWithExt_shorter pre e' _ 1 (by rw [← hlen]; decide) (by rw [he, ← hlen]; decide)]
    rw [List.find?_cons, endsWithExt_shorter pre e' _ 1 (by rw [← hlen]; decide) (by rw [he, ← hlen]; decide)]
    rw [List.find?_cons, endsWithExt_shorter pre e' _ 1 (by rw [← hlen]; decide) (by rw [he, ← hlen]; decide)]
    rw [List.find?_cons, endsWithExt_self pre e' _ 1 he]; simp [hpl, he]

theorem nl_not_mem_ext (e' : List Char) (he : e'.map fold ∈ exts) : '\n' ∉ e' := by
  intro hm
  have h1 : fold '\n' ∈ e'.map fold := List.mem_map_of_mem hm
  have h2 : fold '\n' = '\n' := by decide
  rw [h2] at h1
  simp only [exts, List.mem_cons, List.not_mem_nil, or_false] at he
  rcases he with he | he | he | he <;> (rw [he] at h1; revert h1; decide)

theorem find_rev_range_some (p : Nat → Bool) (n i : Nat) (hi : i < n) (hp : p i = true)
    (hlater : ∀ j, i < j → j < n → p j = false) :
    ((List.range n).reverse).find? p = some i := by
  induction n with
  | zero => omega
  | succ n ih =>
    rw [List.range_succ, List.reverse_append]
    simp only [List.reverse_cons, List.reverse_nil, List.nil_append, List.singleton_append, List.find?_cons]
    by_cases hin : i = n
    · subst hin; rw [hp]
    · rw [hlater n (by omega) (by omega)]
      exact ih (by omega) (fun j h1 h2 => hlater j h1 (by omega))

theorem find_rev_range_none (p : Nat → Bool) (n : Nat) (h : ∀ j, j < n → p j = false) :
    ((List.range n).reverse).find? p = none := by
  rw [List.find?_eq_none]
  intro x hx
  simp only [List.mem_reverse, List.mem_range] at hx
  simp [h x hx]

theorem getD_ne_slash (a stem rest : List Char) (hs : '/' ∉ stem) (j : Nat) (h1 : a.length ≤ j)
    (h2 : j < a.length + stem.length) : ((a ++ (stem ++ rest)).getD j 'x' == '/') = false := by
  rw [List.getD_eq_getElem?_getD, List.getElem?_append_right h1,
    List.getElem?_append_left (by omega)]
  have hlt : j - a.length < stem.length := by omega
  rw [List.getElem?_eq_getElem hlt]
  simp only [Option.getD_some, beq_eq_false_iff_ne, ne_eq]
  intro heq
  exact hs (heq ▸ List.getElem_mem hlt)

theorem lastSlash_plain (stem rest : List Char) (hs : '/' ∉ stem) :
    lastSlash (stem ++ rest) stem.length = none := by
  unfold lastSlash
  apply find_rev_range_none
  intro j hj
  have := getD_ne_slash [] stem rest hs j (by simp) (by simpa using hj)
  simp only [List.nil_append] at this
  rw [this]; simp

theorem lastSlash_path (dir stem rest : List Char) (hd : dir ≠ []) (hne : stem ≠ []) (hs : '/' ∉ stem) :
    lastSlash (dir ++ '/' :: (stem ++ rest)) (dir.length + 1 + stem.length) = some dir.length := by
  have hdl : 1 ≤ dir.length := by
    cases dir with
    | nil => exact absurd rfl hd
    | cons a t => simp
  have hsl : 1 ≤ stem.length := by
    cases stem with
    | nil => exact absurd rfl hne
    | cons a t => simp
  unfold lastSlash
  apply find_rev_range_some
  · omega
  · have : (dir ++ '/' :: (stem ++ rest)).getD dir.length 'x' = '/' := by
      simp [List.getD_eq_getElem?_getD]
    rw [this]; simp; omega
  · intro j h1 h2
    have := getD_ne_slash (dir ++ ['/']) stem rest hs j (by simp; omega) (by simp; omega)
    rw [show (dir ++ ['/']) ++ (stem ++ rest) = dir ++ '/' :: (stem ++ rest) by simp] at this
    rw [this]; simp

/-- a successful suffix test exhibits the decomposition -/
theorem endsWithExt_decomp (s e : List Char) (h : endsWithExt s e 1 = true) :
    ∃ stem e', stem ≠ [] ∧ e'.map fold = e ∧ s = stem ++ '.' :: e' := by
  unfold endsWithExt at h
  simp only [Bool.and_eq_true, decide_eq_true_eq, beq_iff_eq] at h
  obtain ⟨⟨hlen, hmap⟩, hdot⟩ := h
  refine ⟨s.take (s.length - e.length - 1), s.drop (s.length - e.length), ?_, hmap, ?_⟩
  · intro h0
    have := congrArg List.length h0
    rw [List.length_take, List.length_nil] at this
    omega
  · have hi : s.length - e.length - 1 < s.length := by omega
    rw [List.getD_eq_getElem?_getD, List.getElem?_eq_getElem hi] at hdot
    simp only [Option.getD_some] at hdot
    have h1 : s.drop (s.length - e.length - 1) = '.' :: s.drop (s.length - e.length) := by
      rw [List.drop_eq_getElem_cons hi, hdot]
      congr 2
      omega
    rw [← h1, List.take_append_drop]

theorem matchExt_decomp (s e : List Char) (h : matchExt s = some e) :
    ∃ stem e', stem ≠ [] ∧ e'.map fold ∈ exts ∧ s = stem ++ '.' :: e' := by
  unfold matchExt at h
  have hm := List.mem_of_find?_eq_some h
  have hp := List.find?_some h
  obtain ⟨stem, e', h1, h2, h3⟩ := endsWithExt_decomp s e hp
  exact ⟨stem, e', h1, h2 ▸ hm, h3⟩

theorem contains_nl_false (s : List Char) (h : '\n' ∉ s) : s.contains '\n' = false := by
  simpa [List.contains_iff_mem] using h

end SkaModel.NamesLemmas
