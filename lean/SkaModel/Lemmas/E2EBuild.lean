/-
Helper lemmas for the end-to-end theorems (`Props/EndToEnd.lean`), part 1:
generic list facts, the dictionary `buildDict` returns as a lookup function of
`maskFor`, and the weed k-mers `Modes.refKmers` as the keys of the observations.
-/
import SkaModel.Props.C01Dict
import SkaModel.Impl.Modes

namespace SkaModel.E2E

open SkaModel SkaModel.Spec SkaModel.Props.C16

/-! ### lists -/

theorem perm_of_nodup_mem {α : Type} {l₁ l₂ : List α} (h₁ : l₁.Nodup) (h₂ : l₂.Nodup)
    (h : ∀ x, x ∈ l₁ ↔ x ∈ l₂) : l₁.Perm l₂ :=
  (List.perm_ext_iff_of_nodup h₁ h₂).2 h

/-- two duplicate-free lists with the same members, mapped by functions that agree on the
members, are permutations of each other -/
theorem perm_map_of_nodup_mem {α β : Type} {l₁ l₂ : List α} (f g : α → β)
    (h₁ : l₁.Nodup) (h₂ : l₂.Nodup) (h : ∀ x, x ∈ l₁ ↔ x ∈ l₂) (hfg : ∀ x ∈ l₁, f x = g x) :
    (l₁.map f).Perm (l₂.map g) := by
  rw [List.map_congr_left hfg]
  exact (perm_of_nodup_mem h₁ h₂ h).map g

theorem insertByKey_perm {α : Type} (f : α → Nat) (x : α) (l : List α) :
    (insertByKey f x l).Perm (x :: l) := by
  induction l with
  | nil => exact List.Perm.refl _
  | cons y ys ih =>
    unfold insertByKey
    by_cases h : f x ≤ f y
    · rw [if_pos h]
    · rw [if_neg h]
      exact (List.Perm.cons y ih).trans (List.Perm.swap x y ys)

/-- the insertion sort permutes its input -/
theorem sortByKey_perm_self {α : Type} (f : α → Nat) (l : List α) : (sortByKey f l).Perm l := by
  induction l with
  | nil => exact List.Perm.refl _
  | cons x xs ih =>
    rw [sortByKey_cons]
    exact (insertByKey_perm f x _).trans (List.Perm.cons x ih)

theorem keys_sortByKey_nodup {ν : Type} (d : Assoc Nat ν) (h : (Assoc.keys d).Nodup) :
    (Assoc.keys (sortByKey (·.1) d)).Nodup :=
  (((sortByKey_perm_self (fun kv : Nat × ν => kv.1) d).map (fun kv : Nat × ν => kv.1)).nodup_iff).2 h

/-- `lookup` of a list with distinct keys does not depend on the order -/
theorem lookup_of_perm {ν : Type} {d e : Assoc Nat ν} (hp : d.Perm e) (hd : (Assoc.keys d).Nodup)
    (key : Nat) : Assoc.lookup d key = Assoc.lookup e key := by
  have hpk : (Assoc.keys d).Perm (Assoc.keys e) := hp.map (fun kv : Nat × ν => kv.1)
  have he : (Assoc.keys e).Nodup := hpk.nodup_iff.1 hd
  cases h : Assoc.lookup e key with
  | none =>
    rw [Assoc.lookup_eq_none_iff] at h ⊢
    intro hm
    exact h (hpk.mem_iff.1 hm)
  | some v =>
    rw [← Assoc.mem_iff_lookup _ he] at h
    rw [← Assoc.mem_iff_lookup _ hd]
    exact hp.mem_iff.2 h

/-! ### what `buildDict` returns -/

/-- the lookup function a sample's dictionary must have -/
def dictLookup (k : Nat) (rc : Bool) (recs : List (Array UInt8)) (key : Nat) : Option UInt8 :=
  if maskFor k rc recs key = 0 then none else some (letterOfMask (maskFor k rc recs key))

/-- **buildDict_lookup.** whenever `buildDict` returns a dictionary, it has distinct keys, is not
empty, and stores for every key the letter of the key's base set (nothing for absent keys) -/
theorem buildDict_lookup (W k : Nat) (rc : Bool) (hk : ValidK k) (hw : WidthOk W k)
    (recs : List (Array UInt8)) (d : List (Nat × UInt8)) (hb : buildDict W k rc recs = .dict d) :
    (Assoc.keys d).Nodup ∧ d ≠ [] ∧ ∀ key, Assoc.lookup d key = dictLookup k rc recs key := by
  obtain ⟨d0, hd0, hnd, hl⟩ := Props.C01.T01_dict_lookup W k rc hk hw recs
  unfold buildDict at hb
  rw [hd0] at hb
  cases d0 with
  | nil => cases hb
  | cons p rest =>
    simp only [BuildResult.dict.injEq] at hb
    subst hb
    refine ⟨keys_sortByKey_nodup _ hnd, ?_, ?_⟩
    · intro h
      have := (sortByKey_eq_nil_iff _ _).1 h
      cases this
    · intro key
      rw [lookup_of_perm (sortByKey_perm_self _ _) (keys_sortByKey_nodup _ hnd), hl key]
      rfl

/-- a sample with at least one window builds to a dictionary -/
theorem buildDict_ok (W k : Nat) (rc : Bool) (hk : ValidK k) (hw : WidthOk W k)
    (recs : List (Array UInt8)) (hne : observations k rc recs ≠ []) :
    buildDict W k rc recs = .dict (specDict k rc recs) := by
  rw [Props.C01.T01_build_eq_spec W k rc hk hw, if_neg hne]

/-- there is no window iff every base set is empty -/
theorem observations_nil_iff (k : Nat) (rc : Bool) (recs : List (Array UInt8)) :
    observations k rc recs = [] ↔ ∀ key, maskFor k rc recs key = 0 := by
  constructor
  · intro h key
    unfold maskFor
    rw [h]
    rfl
  · intro h
    cases hobs : observations k rc recs with
    | nil => rfl
    | cons o os =>
      exfalso
      exact (Props.C01.maskFor_ne_zero_iff k rc recs o.1).2
        ⟨o, by rw [hobs]; exact List.mem_cons_self, rfl⟩ (h o.1)

/-- the list `specDict` sorts -/
def dictList (k : Nat) (rc : Bool) (recs : List (Array UInt8)) : List (Nat × UInt8) :=
  (distinctKeys (observations k rc recs)).map
    (fun key => (key, letterOfMask (maskOf (observations k rc recs) key)))

theorem specDict_eq (k : Nat) (rc : Bool) (recs : List (Array UInt8)) :
    specDict k rc recs = sortByKey (·.1) (dictList k rc recs) := rfl

theorem dictList_keys (k : Nat) (rc : Bool) (recs : List (Array UInt8)) :
    (dictList k rc recs).map (·.1) = distinctKeys (observations k rc recs) := by
  unfold dictList
  rw [List.map_map]
  exact List.map_id' _

theorem dictList_keys_nodup (k : Nat) (rc : Bool) (recs : List (Array UInt8)) :
    ((dictList k rc recs).map (·.1)).Nodup := by
  rw [dictList_keys]
  exact distinctKeys_nodup _

theorem mem_dictList (k : Nat) (rc : Bool) (recs : List (Array UInt8)) (key : Nat) (b : UInt8) :
    (key, b) ∈ dictList k rc recs
      ↔ maskFor k rc recs key ≠ 0 ∧ b = letterOfMask (maskFor k rc recs key) := by
  unfold dictList
  rw [List.mem_map]
  constructor
  · rintro ⟨key', hm, he⟩
    rw [Prod.mk.injEq] at he
    obtain ⟨rfl, hb⟩ := he
    rw [mem_distinctKeys] at hm
    exact ⟨(Props.C01.maskFor_ne_zero_iff k rc recs key').2 hm, hb.symm⟩
  · rintro ⟨h0, hb⟩
    refine ⟨key, ?_, ?_⟩
    · rw [mem_distinctKeys]
      exact (Props.C01.maskFor_ne_zero_iff k rc recs key).1 h0
    · rw [hb]; rfl

/-- `specDict` depends on the records only through the function `key ↦ maskFor k rc recs key` -/
theorem specDict_congr (k : Nat) (rc : Bool) (recs recs' : List (Array UInt8))
    (h : ∀ key, maskFor k rc recs' key = maskFor k rc recs key) :
    specDict k rc recs' = specDict k rc recs := by
  rw [specDict_eq, specDict_eq]
  apply sortByKey_perm _ _ (dictList_keys_nodup k rc recs')
  apply perm_of_nodup_mem (nodup_of_map _ (dictList_keys_nodup k rc recs'))
    (nodup_of_map _ (dictList_keys_nodup k rc recs))
  rintro ⟨key, b⟩
  rw [mem_dictList, mem_dictList, h key]

/-! ### the weed k-mers of a FASTA file -/

theorem refKmers_eq (W k : Nat) (rc : Bool) (hk : ValidK k) (hw : WidthOk W k)
    (recs : List (Array UInt8)) :
    Modes.refKmers W k rc recs = (observations k rc recs).map (·.1) := by
  unfold Modes.refKmers observations
  rw [List.map_flatMap]
  congr 1
  funext r
  have hiter := Props.C01.T01_iter W k rc hk hw r
  simp only at hiter
  have := congrArg (List.map (fun t : (Nat × Nat × Bool) × Nat × Bool => t.1.1)) hiter
  rw [List.map_map, List.map_map] at this
  rw [List.map_map]
  exact this

end SkaModel.E2E
