/-
C17 completeness — `analyse` without indel groups, and the completeness of the whole reference-free
pipeline on a planted family.
-/
import SkaModel.Lemmas.LOCCall5

namespace SkaModel.LOC

open SkaModel SkaModel.Spec SkaModel.Props.C16 SkaModel.Skalo SkaModel.Props.C17G SkaModel.LOG

theorem processIndels_nil (W kG n mNum mDen : Nat) (col : Colours) :
    processIndels W kG n mNum mDen col [] = some ([], []) := by
  rw [LOP.processIndels_eq]
  simp [dereplicate]

theorem internalIndels_nil (W kG : Nat) (seq : List UInt8) : internalIndels W kG [] seq = 0 := by
  unfold internalIndels
  simp

/-- the groups in the order in which `analyse` processes them -/
def sortedGroups (gr : Groups) : List ((Nat × Nat) × List Variant) :=
  ((gr.snpGroups.mergeSort (fun a b => keyLe a.1 b.1)).filter (fun kv => !kv.2.isEmpty)).foldr insertByRatio []

theorem mem_sortedGroups (gr : Groups) (x : (Nat × Nat) × List Variant) :
    x ∈ sortedGroups gr ↔ x ∈ gr.snpGroups ∧ x.2 ≠ [] := by
  unfold sortedGroups
  rw [LORL.mem_foldr_insertByRatio, List.mem_filter, List.mem_mergeSort]
  simp

/-- `analyse` when there is no indel group -/
theorem analyse_noindel (W kG n mNum mDen ik : Nat) (col : Colours) (gr : Groups) (h : gr.indelGroups = []) :
    analyse W kG n mNum mDen ik col gr =
      ((sortedGroups gr).foldlM (grpStep W kG n mNum mDen col) ([], [])).bind (fun res => some (res.1, [])) := by
  unfold analyse
  rw [h, processIndels_nil]
  simp only [Option.bind_eq_bind, Option.bind_some]
  have hmap : gr.snpGroups.map (fun kv =>
      (kv.1, kv.2.filter (fun v => !decide (internalIndels W kG [] v.1 > ik)))) = gr.snpGroups := by
    conv => rhs; rw [← List.map_id gr.snpGroups]
    apply List.map_congr_left
    intro kv _
    have : kv.2.filter (fun v => !decide (internalIndels W kG [] v.1 > ik)) = kv.2 := by
      rw [List.filter_eq_self]
      intro v _
      rw [internalIndels_nil]
      simp
    rw [this]
    rfl
  rw [hmap]
  unfold sortedGroups
  congr 1

/-- **completeness of the reference-free pipeline on a planted family** (rows of the table in any order) -/
theorem lo_complete {a : Arr} {k L : Nat} {names : List String} {S : List (List UInt8)} {P : List Nat}
    (ha : IsArrOf a k names S) (pf : PFam k L S P) (hk : ValidK k)
    {W : Nat} (hw : WidthOk W k) (mNum mDen ik maxDepth : Nat) :
    ∃ cols, lo W k S.length mNum mDen ik maxDepth a = some (cols, []) ∧
      ColsMatch cols (trueCols S P) := by
  obtain ⟨hh2, hkh, hkW⟩ := validK_bounds hk hw
  have hk5 := hk.1
  have st := strand_of_fam ha pf hk hw
  have hc := colOK_fam ha pf hk hw
  have hc' := colOK_rc ha pf hk hw
  obtain ⟨starts, ends, hid, ex⟩ := st.identify hc hc' (widthOk_cases hw) hkW
  obtain ⟨hind, hsnp, hcov⟩ := st.groups_spec ex hkW maxDepth
  unfold lo
  simp only [Option.bind_eq_bind]
  rw [hid]
  simp only [Option.bind_some]
  rw [analyse_noindel _ _ _ _ _ _ _ _ hind]
  obtain ⟨Called, acc, hfold, hI, _, hcover⟩ :=
    fold_groups pf hk5 hkW (widthOk_cases hw) hc hc' mNum mDen
      (sortedGroups (buildVariantGroups W (k - 1) (buildGraph W a).1 starts ends maxDepth))
      (fun kv hkv => hsnp kv ((mem_sortedGroups _ kv).mp hkv).1) [] ([], []) (cinv_nil k S P)
  rw [hfold]
  refine ⟨acc.1, rfl, ?_⟩
  rw [hI.cols]
  apply colsMatch_of_called hI.nd ((pf.sorted (by omega)).imp (fun h => Nat.ne_of_lt h)) hI.sub
  intro p hp
  obtain ⟨grp, hgrp, _, c0, len, hg, h1, h2⟩ := hcov p hp
  have h2len := (hsnp grp hgrp).1
  have hne : grp.2 ≠ [] := by
    intro e; rw [e] at h2len; simp at h2len
  exact hcover grp ((mem_sortedGroups _ grp).mpr ⟨hgrp, hne⟩) c0 len hg p hp h1 h2

end SkaModel.LOC
