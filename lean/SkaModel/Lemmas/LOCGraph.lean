/-
C17 completeness — the edges of the graph of a table: no edge is listed twice (distinct, strictly
canonical keys), and for the table of a family of samples the edges are exactly the forward and the
reverse-complement edge of every `k`-window of every sample.
-/
import SkaModel.Lemmas.LOCArr

namespace SkaModel.LOC

open SkaModel SkaModel.Spec SkaModel.Props.C16 SkaModel.Skalo SkaModel.LOG SkaModel.Props.C17G

/-- the edge of a `k`-mer given by its codes: prefix `(k-1)`-mer → suffix `(k-1)`-mer -/
def e1 (k : Nat) (F : List Nat) : Nat × Nat := (packL (F.take (k - 1)), packL (F.drop 1))

theorem edgesOf_eq (k : Nat) (u l : List Nat) (n : UInt8) (hlen : (u ++ [code n] ++ l).length = k) (hk : 1 ≤ k) :
    edgesOf k u l n = [e1 k (u ++ [code n] ++ l), e1 k (rcCodes (u ++ [code n] ++ l))] := by
  unfold edgesOf e1
  simp only
  obtain ⟨r1, r2⟩ := rcCodes_drop_one (u ++ [code n] ++ l) (k - 1) (by omega)
  rw [r1, r2]

/-- a `k`-mer is determined by its edge -/
theorem e1_inj {k : Nat} (hk : 2 ≤ k) {F F' : List Nat} (hF : Codes F) (hF' : Codes F')
    (hl : F.length = k) (hl' : F'.length = k) (h : e1 k F = e1 k F') : F = F' := by
  unfold e1 at h
  simp only [Prod.mk.injEq] at h
  have ht := packL_inj (hF.take _) (hF'.take _) (by rw [List.length_take, List.length_take, hl, hl']) h.1
  have hd := packL_inj (hF.drop _) (hF'.drop _) (by rw [List.length_drop, List.length_drop, hl, hl']) h.2
  apply List.ext_getElem?
  intro i
  by_cases hi : i < k - 1
  · have := congrArg (fun w => w[i]?) ht
    simpa [List.getElem?_take_of_lt hi] using this
  · have := congrArg (fun w => w[i - 1]?) hd
    simp only [List.getElem?_drop] at this
    have e : 1 + (i - 1) = i := by omega
    rw [e] at this
    exact this

theorem full_codes {u l : List Nat} (hcu : Codes u) (hcl : Codes l) (n : UInt8) : Codes (u ++ [code n] ++ l) :=
  Codes.append (Codes.append hcu (Codes.cons (code_lt n) Codes.nil)) hcl

theorem full_length {k : Nat} {u l : List Nat} (hu : u.length = halfK k) (hl : l.length = halfK k)
    (hkh : k = 2 * halfK k + 1) (c : Nat) : (u ++ [c] ++ l).length = k := by
  simp [hu, hl]; omega

theorem full_ne_rc {k : Nat} {u l : List Nat} (hu : u.length = halfK k) (hl : l.length = halfK k) (c : Nat)
    (hc : c < 4) : u ++ [c] ++ l ≠ rcCodes (u ++ [c] ++ l) := by
  intro e
  rw [rcCodes_append, rcCodes_append, ← List.append_assoc] at e
  have e' : rcCodes [c] = [c ^^^ 2] := rfl
  rw [e'] at e
  obtain ⟨_, h2, _⟩ := LORL.split_full (by rw [hu, rcCodes_length, hl]) e
  have : ∀ c < 4, c ≠ c ^^^ 2 := by decide
  exact this c hc h2

/-- **no edge is listed twice** -/
theorem allEdges_nodup (W : Nat) (a : Arr) (hk : ValidK a.k) (hw : WidthOk W a.k)
    (hkeys : ∀ key ∈ a.kmers, key < 4 ^ (a.k - 1)) (hnd : a.kmers.Nodup)
    (hcanon : ∀ key ∈ a.kmers, key < LORL.rcKey a.k key) : (allEdges W a).Nodup := by
  obtain ⟨hh2, hkh, hkW⟩ := validK_bounds hk hw
  -- the common core: the same edge from two (row, base) pairs
  have core : ∀ kv ∈ a.kmers.zip a.variants, ∀ kv' ∈ a.kmers.zip a.variants,
      ∀ u l u' l', kv.1 = packL (u ++ l) → kv'.1 = packL (u' ++ l') → u.length = halfK a.k →
      l.length = halfK a.k → u'.length = halfK a.k → l'.length = halfK a.k → Codes u → Codes l →
      Codes u' → Codes l' → ∀ n ∈ shownBases kv.2, ∀ n' ∈ shownBases kv'.2,
      ∀ x, x ∈ edgesOf a.k u l n → x ∈ edgesOf a.k u' l' n' → kv = kv' ∧ n = n' := by
    intro kv hkv kv' hkv' u l u' l' e e' hu hl hu' hl' hcu hcl hcu' hcl' n hn n' hn' x hx hx'
    have hF := full_codes hcu hcl n
    have hF' := full_codes hcu' hcl' n'
    have hlF := full_length hu hl hkh (code n)
    have hlF' := full_length hu' hl' hkh (code n')
    rw [edgesOf_eq a.k u l n hlF (by omega)] at hx
    rw [edgesOf_eq a.k u' l' n' hlF' (by omega)] at hx'
    -- the k-mer of the edge, from both sides
    have hG : ∃ G, (G = u ++ [code n] ++ l ∨ G = rcCodes (u ++ [code n] ++ l)) ∧ x = e1 a.k G := by
      rcases List.mem_cons.mp hx with h | h
      · exact ⟨_, Or.inl rfl, h⟩
      · exact ⟨_, Or.inr rfl, by simpa using h⟩
    have hG' : ∃ G, (G = u' ++ [code n'] ++ l' ∨ G = rcCodes (u' ++ [code n'] ++ l')) ∧ x = e1 a.k G := by
      rcases List.mem_cons.mp hx' with h | h
      · exact ⟨_, Or.inl rfl, h⟩
      · exact ⟨_, Or.inr rfl, by simpa using h⟩
    obtain ⟨G, hGc, hxG⟩ := hG
    obtain ⟨G', hGc', hxG'⟩ := hG'
    have hGcodes : Codes G ∧ G.length = a.k := by
      rcases hGc with h | h <;> rw [h]
      · exact ⟨hF, hlF⟩
      · exact ⟨rcCodes_codes hF, by rw [rcCodes_length]; exact hlF⟩
    have hGcodes' : Codes G' ∧ G'.length = a.k := by
      rcases hGc' with h | h <;> rw [h]
      · exact ⟨hF', hlF'⟩
      · exact ⟨rcCodes_codes hF', by rw [rcCodes_length]; exact hlF'⟩
    have hGG : G = G' := e1_inj (by omega) hGcodes.1 hGcodes'.1 hGcodes.2 hGcodes'.2 (hxG.symm.trans hxG')
    have hf : packL G = packL (u ++ [code n] ++ l) ∨ packL G = packL (rcCodes (u ++ [code n] ++ l)) := by
      rcases hGc with h | h <;> rw [h]
      · exact Or.inl rfl
      · exact Or.inr rfl
    have hf' : packL G = packL (u' ++ [code n'] ++ l') ∨ packL G = packL (rcCodes (u' ++ [code n'] ++ l')) := by
      rw [hGG]
      rcases hGc' with h | h <;> rw [h]
      · exact Or.inl rfl
      · exact Or.inr rfl
    rcases LORL.same_kmer_cases a.k u l u' l' (code n) (code n') hu hl hu' hl' hkh hcu hcl hcu' hcl'
      (code_lt n) (code_lt n') (packL G) hf hf' with ⟨h1, h2, h3⟩ | ⟨h1, h2⟩
    · have hrow : kv = kv' := LORL.row_eq_of_key hnd hkv hkv' (by rw [e, e', h1, h2])
      exact ⟨hrow, LORL.code_inj_shown kv.2 kv'.2 n n' hn hn' h3⟩
    · exfalso
      have c1 := hcanon kv.1 (List.of_mem_zip hkv).1
      have c2 := hcanon kv'.1 (List.of_mem_zip hkv').1
      rw [e] at c1
      rw [e'] at c2
      rw [← h2] at c1
      rw [← h1] at c2
      omega
  unfold allEdges
  rw [List.Nodup, List.pairwise_flatMap]
  constructor
  · -- inside one row
    intro kv hkv
    obtain ⟨u, l, e, hu, hl, hcu, hcl⟩ := LORL.row_arms W a hk hw hkeys kv hkv
    rw [e, rowGraph_spec' W a.k hk hw u l hu hl hcu hcl]
    simp only
    rw [List.pairwise_flatMap]
    constructor
    · intro n _
      rw [edgesOf_eq a.k u l n (full_length hu hl hkh (code n)) (by omega)]
      simp only [List.pairwise_cons, List.mem_cons, List.not_mem_nil, or_false, forall_eq, ne_eq,
        List.Pairwise.nil, and_true, false_imp_iff, implies_true]
      intro h
      have := e1_inj (k := a.k) (by omega) (full_codes hcu hcl n) (rcCodes_codes (full_codes hcu hcl n))
        (full_length hu hl hkh (code n)) (by rw [rcCodes_length]; exact full_length hu hl hkh (code n)) h
      exact full_ne_rc hu hl (code n) (code_lt n) this
    · have hsn : (shownBases kv.2).Pairwise (· ≠ ·) := by
        unfold shownBases
        exact List.Pairwise.filter _ (by decide)
      refine hsn.imp_of_mem ?_
      intro n n' hn hn' hne x hx y hy hxy
      subst hxy
      exact hne (core kv hkv kv hkv u l u l e e hu hl hu hl hcu hcl hcu hcl n hn n' hn' x hx hy).2
  · -- two rows
    have hp : (a.kmers.zip a.variants).Pairwise (fun kv kv' => kv.1 ≠ kv'.1) := by
      have := (LOP.zip_fst_sublist a.kmers a.variants).nodup hnd
      rw [List.Nodup, List.pairwise_map] at this
      exact this
    refine hp.imp_of_mem ?_
    intro kv kv' hkv hkv' hne x hx y hy hxy
    subst hxy
    obtain ⟨u, l, e, hu, hl, hcu, hcl⟩ := LORL.row_arms W a hk hw hkeys kv hkv
    obtain ⟨u', l', e', hu', hl', hcu', hcl'⟩ := LORL.row_arms W a hk hw hkeys kv' hkv'
    rw [e, rowGraph_spec' W a.k hk hw u l hu hl hcu hcl] at hx
    rw [e', rowGraph_spec' W a.k hk hw u' l' hu' hl' hcu' hcl'] at hy
    simp only [List.mem_flatMap] at hx hy
    obtain ⟨n, hn, hx⟩ := hx
    obtain ⟨n', hn', hy⟩ := hy
    have := (core kv hkv kv' hkv' u l u' l' e e' hu hl hu' hl' hcu hcl hcu' hcl' n hn n' hn' x hx hy).1
    exact hne (by rw [this])

/-! ### the edges of a family's table -/

/-- forward node: the packed `(k-1)`-mer of `s` at `j` -/
def fN (k : Nat) (s : List UInt8) (j : Nat) : Nat := packL (cds (win s j (k - 1)))
/-- reverse node: its reverse complement -/
def rN (k : Nat) (s : List UInt8) (j : Nat) : Nat := packL (rcCodes (cds (win s j (k - 1))))

theorem e1_window {k : Nat} (hk : 1 ≤ k) (s : List UInt8) (j : Nat) :
    e1 k (cds (win s j k)) = (fN k s j, fN k s (j + 1)) := by
  unfold e1 fN cds
  rw [← List.map_take, ← List.map_drop, win_take _ _ _ _ (by omega), win_drop]

theorem e1_window_rc {k : Nat} (hk : 1 ≤ k) {s : List UInt8} {j : Nat} (hj : j + k ≤ s.length) :
    e1 k (rcCodes (cds (win s j k))) = (rN k s (j + 1), rN k s j) := by
  unfold e1 rN
  have hlen : (cds (win s j k)).length = (k - 1) + 1 := by rw [cds_length, win_length hj]; omega
  obtain ⟨r1, r2⟩ := rcCodes_drop_one (cds (win s j k)) (k - 1) hlen
  rw [← r1, ← r2]
  unfold cds
  rw [← List.map_take, ← List.map_drop, win_take _ _ _ _ (by omega), win_drop]

/-- the two edges of a shown base are the forward and the reverse edge of any window it comes from -/
theorem mem_edgesOf_window {k : Nat} (hk : 1 ≤ k) {s : List UInt8} {j : Nat} (hj : j + k ≤ s.length)
    (u l : List Nat) (n : UInt8)
    (hc : cds (win s j k) = u ++ [code n] ++ l ∨ rcCodes (cds (win s j k)) = u ++ [code n] ++ l) (x : Nat × Nat) :
    x ∈ edgesOf k u l n ↔ x = (fN k s j, fN k s (j + 1)) ∨ x = (rN k s (j + 1), rN k s j) := by
  have hlen : (u ++ [code n] ++ l).length = k := by
    rcases hc with h | h <;> rw [← h]
    · rw [cds_length, win_length hj]
    · rw [rcCodes_length, cds_length, win_length hj]
  rw [edgesOf_eq k u l n hlen hk]
  rcases hc with h | h <;> rw [← h]
  · rw [e1_window hk, e1_window_rc hk hj]
    simp
  · rw [rcCodes_rcCodes, e1_window hk, e1_window_rc hk hj]
    simp [or_comm]

/-- **the edges of the graph of a family's table** -/
theorem mem_allEdges_fam {a : Arr} {k L : Nat} {names : List String} {S : List (List UInt8)}
    (ha : IsArrOf a k names S) (h : SFam L S) (hk : ValidK k) {W : Nat} (hw : WidthOk W k) (x : Nat × Nat) :
    x ∈ allEdges W a ↔
      ∃ s ∈ S, ∃ j, j + k ≤ L ∧ (x = (fN k s j, fN k s (j + 1)) ∨ x = (rN k s (j + 1), rN k s j)) := by
  obtain ⟨hh2, hkh, hkW⟩ := validK_bounds hk hw
  have hka := ha.hk
  have hk' : ValidK a.k := by rw [hka]; exact hk
  have hw' : WidthOk W a.k := by rw [hka]; exact hw
  have hkeys : ∀ key ∈ a.kmers, key < 4 ^ (a.k - 1) := by rw [hka]; exact ha.hkeys h hkh
  unfold allEdges
  rw [List.mem_flatMap]
  constructor
  · rintro ⟨kv, hkv, hx⟩
    obtain ⟨u, l, e, hu, hl, hcu, hcl⟩ := LORL.row_arms W a hk' hw' hkeys kv hkv
    rw [hka] at hu hl hx
    rw [e, rowGraph_spec' W k hk hw u l hu hl hcu hcl] at hx
    simp only [List.mem_flatMap] at hx
    obtain ⟨n, hn, hx⟩ := hx
    obtain ⟨_, s, hs, j, hj, hc⟩ := (ha.mem_shown_row h hkh kv hkv u l e hu hl hcu hcl n).mp hn
    exact ⟨s, hs, j, by rw [← h.len s hs]; exact hj, (mem_edgesOf_window (by omega) hj u l n hc x).mp hx⟩
  · rintro ⟨s, hs, j, hj, hx⟩
    obtain ⟨kv, hkv, u, l, n, e, hu, hl, hcu, hcl, hn, hc⟩ := ha.row_of_window h hkh s hs j hj
    refine ⟨kv, hkv, ?_⟩
    rw [hka, e, rowGraph_spec' W k hk hw u l hu hl hcu hcl]
    simp only [List.mem_flatMap]
    have hc' : cds (win s j k) = u ++ [code n] ++ l ∨ rcCodes (cds (win s j k)) = u ++ [code n] ++ l := by
      rw [← hc]
      rcases canonC_cases k s j with h1 | h1
      · exact Or.inl h1.symm
      · right; rw [h1]
    exact ⟨n, hn, (mem_edgesOf_window (by omega) (by rw [h.len s hs]; exact hj) u l n hc' x).mpr hx⟩

end SkaModel.LOC
