/-
C18 completeness — the hypotheses of the theorem as a structure (`DFam`), which columns a sample keeps near a
block, the step from one column of a sample to the next, and the classification of the windows of at most `k`
consecutive columns of a sample: contiguous in `F`, or jumping over exactly one deleted block.
-/
import SkaModel.Lemmas.LOECols

namespace SkaModel.LOE

open SkaModel SkaModel.Skalo SkaModel.Spec SkaModel.LOC

/-! ### the shift of a block -/

theorem shiftR_le (F : List UInt8) : ∀ (fuel b e : Nat), shiftR F b e fuel ≤ fuel
  | 0, _, _ => Nat.le_refl _
  | fuel + 1, b, e => by
    rw [shiftR]
    split
    · exact Nat.succ_le_succ (shiftR_le F fuel (b + 1) (e + 1))
    · omega

theorem shiftR_eq (F : List UInt8) : ∀ (fuel b e i : Nat), i < shiftR F b e fuel → getF F (b + i) = getF F (e + i)
  | 0, _, _, _, h => by simp [shiftR] at h
  | fuel + 1, b, e, i, h => by
    rw [shiftR] at h
    split at h
    · rename_i heq
      cases i with
      | zero => simpa using heq
      | succ i =>
        have := shiftR_eq F fuel (b + 1) (e + 1) i (by omega)
        rw [show b + 1 + i = b + (i + 1) by omega, show e + 1 + i = e + (i + 1) by omega] at this
        exact this
    · omega

theorem shiftR_ne (F : List UInt8) : ∀ (fuel b e : Nat), shiftR F b e fuel < fuel →
    getF F (b + shiftR F b e fuel) ≠ getF F (e + shiftR F b e fuel)
  | 0, _, _, h => by omega
  | fuel + 1, b, e, h => by
    rw [shiftR] at h ⊢
    split
    · rename_i heq
      rw [if_pos heq] at h
      have := shiftR_ne F fuel (b + 1) (e + 1) (by omega)
      rw [show b + 1 + shiftR F (b + 1) (e + 1) fuel = b + (shiftR F (b + 1) (e + 1) fuel + 1) by omega,
        show e + 1 + shiftR F (b + 1) (e + 1) fuel = e + (shiftR F (b + 1) (e + 1) fuel + 1) by omega] at this
      exact this
    · rename_i hne
      simpa using hne

/-- the shift of block number `t` -/
def shf (k : Nat) (F : List UInt8) (B : List (Nat × Nat)) (t : Nat) : Nat := shOf k F (B.getD t (0, 0))

/-- the hypotheses of the theorem -/
structure DFam (k : Nat) (F : List UInt8) (B : List (Nat × Nat)) (C : List (List Bool)) : Prop where
  k5 : 5 ≤ k
  kodd : k % 2 = 1
  base : AllBase F
  nS : 2 ≤ C.length
  clen : ∀ c ∈ C, c.length = B.length
  kept : ∀ t, t < B.length → ∃ c ∈ C, c.getD t false = true
  del : ∀ t, t < B.length → ∃ c ∈ C, c.getD t false = false
  blk : ∀ b ∈ B, 1 ≤ b.2 ∧ b.2 < k ∧ 4 * k ≤ b.1 ∧ b.1 + b.2 + 4 * k ≤ F.length ∧ shOf k F b + 3 ≤ k
  sep : B.Pairwise (fun b b' => b.1 + b.2 + 4 * k ≤ b'.1)
  uniq : ∀ a ∈ colWindows (k - 1) F.length B C, ∀ b ∈ colWindows (k - 1) F.length B C,
    (a.map (getF F) = b.map (getF F) → canonW F a = canonW F b) ∧ a.map (getF F) ≠ rcSeq (b.map (getF F))

theorem dfam_of_planted {k : Nat} {F : List UInt8} {B : List (Nat × Nat)} {C : List (List Bool)}
    (h : DPlanted k F B C) : DFam k F B C := by
  unfold DPlanted dplantedB dplantedSB at h
  simp only [Bool.and_eq_true, decide_eq_true_eq, List.all_eq_true, List.mem_range, List.any_eq_true,
    Bool.not_eq_true'] at h
  obtain ⟨⟨⟨⟨⟨⟨⟨⟨h5, hodd⟩, hbase⟩, htwo⟩, hclen⟩, hkd⟩, hblk⟩, hsep⟩, huniq⟩ := h
  refine ⟨h5, hodd, fun b hb => hbase b hb, htwo, hclen, fun t ht => (hkd t ht).1, fun t ht => (hkd t ht).2,
    ?_, ?_, ?_⟩
  · intro b hb
    obtain ⟨⟨⟨⟨h1, h2⟩, h3⟩, h4⟩, h5'⟩ := hblk b hb
    exact ⟨h1, h2, h3, h4, by omega⟩
  · simpa using hsep
  · unfold dalignedSB at huniq
    simp only [List.all_eq_true, Bool.and_eq_true, Bool.or_eq_true, bne_iff_ne, ne_eq, beq_iff_eq] at huniq
    intro a ha b hb
    have := huniq a ha b hb
    refine ⟨fun e => ?_, this.2⟩
    rcases this.1 with h1 | h1
    · exact absurd e h1
    · exact h1

namespace DFam

variable {k : Nat} {F : List UInt8} {B : List (Nat × Nat)} {C : List (List Bool)}

theorem getD_mem {t : Nat} (ht : t < B.length) : B.getD t (0, 0) ∈ B := by
  rw [List.getD_eq_getElem?_getD, List.getElem?_eq_getElem ht]
  exact List.getElem_mem _

theorem blk_t (h : DFam k F B C) {t : Nat} (ht : t < B.length) :
    1 ≤ (B.getD t (0, 0)).2 ∧ (B.getD t (0, 0)).2 < k ∧ 4 * k ≤ (B.getD t (0, 0)).1 ∧
      (B.getD t (0, 0)).1 + (B.getD t (0, 0)).2 + 4 * k ≤ F.length ∧ shf k F B t + 3 ≤ k :=
  h.blk _ (getD_mem ht)

/-- the letters of a block repeat behind it for `shf` positions, and not further -/
theorem sh_eq (_h : DFam k F B C) {t : Nat} (_ht : t < B.length) {i : Nat} (hi : i < shf k F B t) :
    getF F ((B.getD t (0, 0)).1 + i) = getF F ((B.getD t (0, 0)).1 + (B.getD t (0, 0)).2 + i) :=
  shiftR_eq F k _ _ i hi

theorem sh_ne (h : DFam k F B C) {t : Nat} (ht : t < B.length) :
    getF F ((B.getD t (0, 0)).1 + shf k F B t) ≠ getF F ((B.getD t (0, 0)).1 + (B.getD t (0, 0)).2 + shf k F B t) := by
  have := (h.blk_t ht).2.2.2.2
  exact shiftR_ne F k _ _ (by unfold shf shOf at this; omega)

theorem sep_lt (h : DFam k F B C) {t t' : Nat} (h1 : t < t') (h2 : t' < B.length) :
    (B.getD t (0, 0)).1 + (B.getD t (0, 0)).2 + 4 * k ≤ (B.getD t' (0, 0)).1 := by
  have := List.pairwise_iff_getElem.mp h.sep t t' (by omega) h2 h1
  rw [List.getD_eq_getElem?_getD, List.getElem?_eq_getElem (by omega), List.getD_eq_getElem?_getD,
    List.getElem?_eq_getElem h2]
  exact this

theorem sep_ne (h : DFam k F B C) {t t' : Nat} (ht : t < B.length) (ht' : t' < B.length) (hne : t ≠ t') :
    (B.getD t (0, 0)).1 + (B.getD t (0, 0)).2 + 4 * k ≤ (B.getD t' (0, 0)).1 ∨
    (B.getD t' (0, 0)).1 + (B.getD t' (0, 0)).2 + 4 * k ≤ (B.getD t (0, 0)).1 := by
  rcases Nat.lt_or_gt_of_ne hne with h1 | h1
  · exact Or.inl (h.sep_lt h1 ht')
  · exact Or.inr (h.sep_lt h1 ht)

/-- a column close to block `t` and outside it is kept by every sample -/
theorem keep_near (h : DFam k F B C) (c : List Bool) {t : Nat} (ht : t < B.length) {x : Nat}
    (h1 : (B.getD t (0, 0)).1 < x + 4 * k) (h2 : x < (B.getD t (0, 0)).1 + (B.getD t (0, 0)).2 + 4 * k)
    (hout : ¬ inBlk (B.getD t (0, 0)) x) : keepB B c x = true := by
  rw [keepB_iff]
  intro t' ht' _ hin
  by_cases e : t' = t
  · subst e; exact hout hin
  · unfold inBlk at hin
    rcases h.sep_ne ht ht' (fun e' => e e'.symm) with h3 | h3 <;> omega

/-- a column of block `t` is kept exactly by the samples that keep the block -/
theorem keep_in (h : DFam k F B C) (c : List Bool) {t : Nat} (ht : t < B.length) {x : Nat}
    (hin : inBlk (B.getD t (0, 0)) x) : keepB B c x = c.getD t false := by
  cases hc : c.getD t false with
  | false =>
    rw [keepB_false_iff]
    exact ⟨t, ht, hc, hin⟩
  | true =>
    rw [keepB_iff]
    intro t' ht' hc' hin'
    by_cases e : t' = t
    · subst e; rw [hc] at hc'; exact absurd hc' (by simp)
    · unfold inBlk at hin hin'
      rcases h.sep_ne ht ht' (fun e' => e e'.symm) with h3 | h3 <;> omega

/-- **the step to the next column of a sample**: the next column of `F`, or over a deleted block -/
theorem next_col (h : DFam k F B C) {c : List Bool} {j z y : Nat}
    (hz : (keepCols F.length B c)[j]? = some z) (hy : (keepCols F.length B c)[j + 1]? = some y) :
    y = z + 1 ∨ ∃ t, t < B.length ∧ c.getD t false = false ∧ z + 1 = (B.getD t (0, 0)).1 ∧
      y = (B.getD t (0, 0)).1 + (B.getD t (0, 0)).2 := by
  obtain ⟨hzy, hyN, hkz, hky, hbetween⟩ := next_kept hz hy
  by_cases hk1 : keepB B c (z + 1) = true
  · left
    apply Classical.byContradiction
    intro hne
    have := hbetween (z + 1) (by omega) (by omega)
    rw [hk1] at this
    exact absurd this (by simp)
  · right
    have hk1' : keepB B c (z + 1) = false := by simpa using hk1
    obtain ⟨t, ht, hc, hin⟩ := (keepB_false_iff B c (z + 1)).mp hk1'
    have hb := h.blk_t ht
    have hzout : ¬ inBlk (B.getD t (0, 0)) z := by
      intro hzin
      have := (keepB_false_iff B c z).mpr ⟨t, ht, hc, hzin⟩
      rw [hkz] at this
      exact absurd this (by simp)
    have hyout : ¬ inBlk (B.getD t (0, 0)) y := by
      intro hyin
      have := (keepB_false_iff B c y).mpr ⟨t, ht, hc, hyin⟩
      rw [hky] at this
      exact absurd this (by simp)
    unfold inBlk at hin hzout hyout
    have hbz : z + 1 = (B.getD t (0, 0)).1 := by omega
    refine ⟨t, ht, hc, hbz, ?_⟩
    have hke : keepB B c ((B.getD t (0, 0)).1 + (B.getD t (0, 0)).2) = true :=
      h.keep_near c ht (by omega) (by omega) (by unfold inBlk; omega)
    apply Classical.byContradiction
    intro hne
    have := hbetween ((B.getD t (0, 0)).1 + (B.getD t (0, 0)).2) (by omega) (by omega)
    rw [hke] at this
    exact absurd this (by simp)

/-- the shape of a window of `n` columns starting at column `x`: contiguous, or jumping over block `t` -/
def Shape (B : List (Nat × Nat)) (c : List Bool) (w : List Nat) (x n : Nat) : Prop :=
  w = List.range' x n ∨
  ∃ t, t < B.length ∧ c.getD t false = false ∧ x < (B.getD t (0, 0)).1 ∧ (B.getD t (0, 0)).1 < x + n ∧
    w = List.range' x ((B.getD t (0, 0)).1 - x) ++
      List.range' ((B.getD t (0, 0)).1 + (B.getD t (0, 0)).2) (n - ((B.getD t (0, 0)).1 - x))

theorem range'_snoc (x n : Nat) : List.range' x (n + 1) = List.range' x n ++ [x + n] := by
  rw [List.range'_concat]
  simp

/-- **classification of the windows of a sample** -/
theorem win_class_aux (h : DFam k F B C) (c : List Bool) :
    ∀ m, m + 1 ≤ k → ∀ j, j + (m + 1) ≤ (keepCols F.length B c).length →
      ∃ x, (keepCols F.length B c)[j]? = some x ∧ Shape B c (cwin (keepCols F.length B c) j (m + 1)) x (m + 1) := by
  intro m
  induction m with
  | zero =>
    intro _ j hj
    have hlt : j < (keepCols F.length B c).length := by omega
    refine ⟨(keepCols F.length B c)[j], List.getElem?_eq_getElem hlt, Or.inl ?_⟩
    have := cwin_succ (K := keepCols F.length B c) (j := j) (m := 0) (y := (keepCols F.length B c)[j])
      (by rw [Nat.add_zero]; exact List.getElem?_eq_getElem hlt)
    rw [this]
    simp [cwin]
  | succ m ih =>
    intro hnk j hj
    obtain ⟨x, hx, hsh⟩ := ih (by omega) j (by omega)
    generalize hn : m + 1 = n at hsh hnk hj ⊢
    have hn1 : 1 ≤ n := by omega
    refine ⟨x, hx, ?_⟩
    have hlt : j + n < (keepCols F.length B c).length := by omega
    have hy : (keepCols F.length B c)[j + n]? = some (keepCols F.length B c)[j + n] := List.getElem?_eq_getElem hlt
    have hlen : (cwin (keepCols F.length B c) j n).length = n := cwin_length (by omega)
    -- the last column of the window of `n` columns
    have hlast : (keepCols F.length B c)[j + (n - 1)]? = (cwin (keepCols F.length B c) j n)[n - 1]? :=
      (cwin_getElem? _ _ _ _ (by omega)).symm
    rw [cwin_succ hy]
    rcases hsh with hc | ⟨t, ht, hct, hxt, htn, hc⟩
    · -- contiguous so far
      rw [hc] at hlast ⊢
      rw [List.getElem?_range' (by omega)] at hlast
      have hstep := h.next_col (j := j + (n - 1)) hlast (by rw [show j + (n - 1) + 1 = j + n by omega]; exact hy)
      rcases hstep with e | ⟨t, ht, hct, hb, e⟩
      · left
        rw [e, range'_snoc]
        congr 2
        omega
      · right
        refine ⟨t, ht, hct, by omega, by omega, ?_⟩
        rw [e, show (B.getD t (0, 0)).1 - x = n by omega, show n + 1 - n = 1 by omega]
        rfl
    · -- already over block `t`
      have hb := h.blk_t ht
      rw [hc] at hlast ⊢
      have hlen1 : (List.range' x ((B.getD t (0, 0)).1 - x)).length = (B.getD t (0, 0)).1 - x := List.length_range'
      rw [List.getElem?_append_right (by rw [hlen1]; omega), hlen1,
        List.getElem?_range' (by omega)] at hlast
      have hstep := h.next_col (j := j + (n - 1)) hlast (by rw [show j + (n - 1) + 1 = j + n by omega]; exact hy)
      right
      refine ⟨t, ht, hct, hxt, by omega, ?_⟩
      rcases hstep with e | ⟨t', ht', _, hb', _⟩
      · rw [e, List.append_assoc]
        congr 1
        rw [show n + 1 - ((B.getD t (0, 0)).1 - x) = (n - ((B.getD t (0, 0)).1 - x)) + 1 by omega, range'_snoc]
        congr 2
        omega
      · exfalso
        have hne : t ≠ t' := by
          intro e; subst e; omega
        rcases h.sep_ne ht ht' hne with h3 | h3 <;> omega

theorem win_class (h : DFam k F B C) (c : List Bool) {n : Nat} (hn1 : 1 ≤ n) (hnk : n ≤ k) {j : Nat}
    (hj : j + n ≤ (keepCols F.length B c).length) :
    ∃ x, (keepCols F.length B c)[j]? = some x ∧ Shape B c (cwin (keepCols F.length B c) j n) x n := by
  obtain ⟨m, rfl⟩ : ∃ m, n = m + 1 := ⟨n - 1, by omega⟩
  exact h.win_class_aux c m hnk j hj

end DFam

end SkaModel.LOE
