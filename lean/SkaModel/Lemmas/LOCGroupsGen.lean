/-
C17 completeness — generic facts about the grouping of the found paths (`pathsFrom`, `groupsFrom`,
`mostCommonLength`) and about the marked positions of `buildVariant`.
-/
import SkaModel.Lemmas.LOCExplore
import SkaModel.Lemmas.LOPathGroups

namespace SkaModel.LOC

open SkaModel SkaModel.Skalo SkaModel.Props.C17G SkaModel.LOG

/-! ### grouping by exit node -/

/-- the grouping fold -/
def groupFold (found : List (Nat × List Nat)) (acc : List (Nat × List (List Nat))) :
    List (Nat × List (List Nat)) :=
  found.foldl (fun (acc : List (Nat × List (List Nat))) ep => Assoc.upsert acc ep.1 [ep.2] (fun l => l ++ [ep.2])) acc

theorem lookup_groupFold (found : List (Nat × List Nat)) (e : Nat) :
    ∀ acc : List (Nat × List (List Nat)),
      Assoc.lookup (groupFold found acc) e =
        if found.filter (fun ep => ep.1 == e) = [] then Assoc.lookup acc e
        else some ((Assoc.lookup acc e).getD [] ++ (found.filter (fun ep => ep.1 == e)).map (·.2)) := by
  induction found with
  | nil => intro acc; simp [groupFold]
  | cons x rest ih =>
    intro acc
    unfold groupFold at ih ⊢
    rw [List.foldl_cons, ih, Assoc.lookup_upsert]
    by_cases hx : x.1 = e
    · have hf : (x :: rest).filter (fun ep => ep.1 == e) = x :: rest.filter (fun ep => ep.1 == e) := by
        rw [List.filter_cons, if_pos (by simpa using hx)]
      have hne : ¬ (x :: rest.filter (fun ep => ep.1 == e)) = [] := by simp
      rw [hf, if_neg hne]
      simp only [hx, beq_self_eq_true, if_true]
      by_cases hr : rest.filter (fun ep => ep.1 == e) = []
      · rw [if_pos hr, hr]
        cases Assoc.lookup acc e <;> simp
      · rw [if_neg hr]
        cases Assoc.lookup acc e <;> simp
    · have hf : (x :: rest).filter (fun ep => ep.1 == e) = rest.filter (fun ep => ep.1 == e) := by
        rw [List.filter_cons, if_neg (by simpa using hx)]
      rw [hf]
      simp [hx]

theorem groupFold_keys_nodup (found : List (Nat × List Nat)) :
    ∀ acc : List (Nat × List (List Nat)), (Assoc.keys acc).Nodup → (Assoc.keys (groupFold found acc)).Nodup := by
  induction found with
  | nil => intro acc h; exact h
  | cons x rest ih =>
    intro acc h
    unfold groupFold at ih ⊢
    rw [List.foldl_cons]
    exact ih _ (Assoc.nodup_keys_upsert_L _ _ _ h)

/-- the groups of `pathsFrom`: for every exit node found, all the paths found with it, in order -/
theorem mem_pathsFrom (g' : Graph) (comp : List (Nat × List Nat)) (ends : List Nat) (maxDepth kmer : Nat)
    (e : Nat) (ps : List (List Nat)) :
    (e, ps) ∈ pathsFrom g' comp ends maxDepth kmer ↔
      ps ≠ [] ∧ ps = (((succs g' kmer).flatMap (fun s =>
        explore g' comp ends maxDepth (edgeCount g' + 2) s [kmer, s]
          ([kmer, s] ++ (Assoc.lookup comp s).getD []) 0)).filter (fun ep => ep.1 == e)).map (·.2) := by
  unfold pathsFrom
  simp only
  generalize (succs g' kmer).flatMap (fun s =>
    explore g' comp ends maxDepth (edgeCount g' + 2) s [kmer, s]
      ([kmer, s] ++ (Assoc.lookup comp s).getD []) 0) = found
  have hnd := groupFold_keys_nodup found [] (by simp [Assoc.keys])
  have hl := lookup_groupFold found e []
  unfold groupFold at hnd hl
  constructor
  · intro h
    have := Assoc.lookup_of_mem_nodup hnd h
    rw [hl] at this
    by_cases hf : found.filter (fun ep => ep.1 == e) = []
    · rw [if_pos hf] at this
      simp [Assoc.lookup] at this
    · rw [if_neg hf] at this
      simp only [Assoc.lookup_nil, Option.getD_none, List.nil_append, Option.some.injEq] at this
      refine ⟨?_, this.symm⟩
      rw [← this]
      simpa using hf
  · rintro ⟨hne, rfl⟩
    have hf : ¬ found.filter (fun ep => ep.1 == e) = [] := by
      intro e'
      rw [e'] at hne
      exact hne rfl
    rw [if_neg hf] at hl
    simp only [Assoc.lookup_nil, Option.getD_none, List.nil_append] at hl
    exact Assoc.mem_of_lookup hl

/-- membership in a group of `pathsFrom` -/
theorem mem_pathsFrom_paths {g' : Graph} {comp : List (Nat × List Nat)} {ends : List Nat} {maxDepth kmer : Nat}
    {e : Nat} {ps : List (List Nat)} (h : (e, ps) ∈ pathsFrom g' comp ends maxDepth kmer) (p : List Nat) :
    p ∈ ps ↔ (e, p) ∈ (succs g' kmer).flatMap (fun s =>
        explore g' comp ends maxDepth (edgeCount g' + 2) s [kmer, s]
          ([kmer, s] ++ (Assoc.lookup comp s).getD []) 0) := by
  obtain ⟨_, rfl⟩ := (mem_pathsFrom g' comp ends maxDepth kmer e ps).mp h
  rw [List.mem_map]
  constructor
  · rintro ⟨ep, hep, rfl⟩
    rw [List.mem_filter] at hep
    have : ep.1 = e := by simpa using hep.2
    rw [← this]
    exact hep.1
  · intro hm
    exact ⟨(e, p), List.mem_filter.mpr ⟨hm, by simp⟩, rfl⟩

/-- a found pair lies in a group -/
theorem pathsFrom_of_found {g' : Graph} {comp : List (Nat × List Nat)} {ends : List Nat} {maxDepth kmer : Nat}
    {e : Nat} {p : List Nat} (h : (e, p) ∈ (succs g' kmer).flatMap (fun s =>
        explore g' comp ends maxDepth (edgeCount g' + 2) s [kmer, s]
          ([kmer, s] ++ (Assoc.lookup comp s).getD []) 0)) :
    ∃ ps, (e, ps) ∈ pathsFrom g' comp ends maxDepth kmer ∧ p ∈ ps := by
  refine ⟨_, (mem_pathsFrom g' comp ends maxDepth kmer e _).mpr ⟨?_, rfl⟩, ?_⟩
  · intro hnil
    have : p ∈ ((((succs g' kmer).flatMap (fun s =>
        explore g' comp ends maxDepth (edgeCount g' + 2) s [kmer, s]
          ([kmer, s] ++ (Assoc.lookup comp s).getD []) 0)).filter (fun ep => ep.1 == e)).map (·.2)) :=
      List.mem_map.mpr ⟨(e, p), List.mem_filter.mpr ⟨h, by simp⟩, rfl⟩
    rw [hnil] at this
    simp at this
  · exact List.mem_map.mpr ⟨(e, p), List.mem_filter.mpr ⟨h, by simp⟩, rfl⟩

/-! ### `mostCommonLength` of paths of one length -/

theorem eraseDups_const {l : List Nat} {c : Nat} (hne : l ≠ []) (h : ∀ x ∈ l, x = c) : l.eraseDups = [c] := by
  have h1 : ∀ x ∈ l.eraseDups, x = c := fun x hx => h x (List.mem_eraseDups.mp hx)
  have h2 : c ∈ l.eraseDups := by
    cases l with
    | nil => exact absurd rfl hne
    | cons a t =>
      rw [List.mem_eraseDups, ← h a (List.mem_cons_self ..)]
      exact List.mem_cons_self ..
  have h3 := LO.nodup_eraseDups l
  match hl : l.eraseDups, h1, h2, h3 with
  | [x], h1, _, _ => rw [h1 x (List.mem_cons_self ..)]
  | x :: y :: rest, h1, _, h3 =>
    exfalso
    rw [List.nodup_cons] at h3
    apply h3.1
    rw [h1 x (List.mem_cons_self ..), ← h1 y (List.mem_cons_of_mem _ (List.mem_cons_self ..))]
    exact List.mem_cons_self ..

theorem mostCommonLength_const {paths : List (List Nat)} {n : Nat} (hne : paths ≠ [])
    (h : ∀ p ∈ paths, p.length = n) : mostCommonLength paths = n := by
  unfold mostCommonLength
  have hl : (paths.map List.length).eraseDups = [n] := by
    apply eraseDups_const
    · simpa using hne
    · intro x hx
      obtain ⟨p, hp, rfl⟩ := List.mem_map.mp hx
      exact h p hp
  simp only [hl, List.map_cons, List.map_nil, List.foldl_cons, List.foldl_nil, List.filter_cons, List.filter_nil]
  have hmax : max 0 (paths.filter (fun p => p.length == n)).length = (paths.filter (fun p => p.length == n)).length :=
    Nat.max_eq_right (Nat.zero_le _)
  rw [hmax]
  simp

/-- the variants of a group whose paths all have the same length: all paths are kept -/
theorem filtered_all {paths : List (List Nat)} {n : Nat} (hne : paths ≠ []) (h : ∀ p ∈ paths, p.length = n) :
    (if paths.length == 2 then paths else paths.filter (fun v => v.length == mostCommonLength paths)) = paths := by
  split
  · rfl
  · rw [mostCommonLength_const hne h, List.filter_eq_self]
    intro p hp
    simpa using h p hp

/-! ### `groupsFrom` -/

/-- the exact form of the groups of one entry node -/
theorem mem_groupsFrom (W kGraph : Nat) (g' : Graph) (comp : List (Nat × List Nat)) (starts ends : List Nat)
    (maxDepth kmer : Nat) (grp : (Nat × Nat) × List Variant) :
    grp ∈ groupsFrom W kGraph g' comp starts ends maxDepth kmer ↔
      (pathsFrom g' comp ends maxDepth kmer).any (fun ep => ep.2.length > 1) = true ∧
      ∃ e paths, (e, paths) ∈ pathsFrom g' comp ends maxDepth kmer ∧
        (paths.map (fun v => v.getD 1 0)).eraseDups.length > 1 ∧
        (paths.map (fun v => v.getD (v.length - 2) 0)).eraseDups.length > 1 ∧
        grp = ((kmer, e), (if paths.length == 2 then paths
          else paths.filter (fun v => v.length == mostCommonLength paths)).map
            (buildVariant W kGraph starts ends kmer)) := by
  unfold groupsFrom
  simp only
  generalize pathsFrom g' comp ends maxDepth kmer = cont
  by_cases hany : cont.any (fun ep => decide (ep.2.length > 1)) = true
  · rw [if_pos hany]
    simp only [hany, true_and]
    -- the fold keeps the groups of the entries that pass the test
    have key : ∀ (l : List (Nat × List (List Nat))) (acc : List ((Nat × Nat) × List Variant)),
        grp ∈ l.foldl (fun (acc : List ((Nat × Nat) × List Variant)) ep =>
          let paths := ep.2
          let second := (paths.map (fun v => v.getD 1 0)).eraseDups
          let secondLast := (paths.map (fun v => v.getD (v.length - 2) 0)).eraseDups
          if second.length > 1 && secondLast.length > 1 then
            let mcl := mostCommonLength paths
            let filtered := if paths.length == 2 then paths else paths.filter (fun v => v.length == mcl)
            acc ++ [((kmer, ep.1), filtered.map (buildVariant W kGraph starts ends kmer))]
          else acc) acc ↔
        grp ∈ acc ∨ ∃ e paths, (e, paths) ∈ l ∧
          (paths.map (fun v => v.getD 1 0)).eraseDups.length > 1 ∧
          (paths.map (fun v => v.getD (v.length - 2) 0)).eraseDups.length > 1 ∧
          grp = ((kmer, e), (if paths.length == 2 then paths
            else paths.filter (fun v => v.length == mostCommonLength paths)).map
              (buildVariant W kGraph starts ends kmer)) := by
      intro l
      induction l with
      | nil => intro acc; simp
      | cons ep rest ih =>
        intro acc
        rw [List.foldl_cons, ih]
        simp only
        by_cases hc : ((ep.2.map (fun v => v.getD 1 0)).eraseDups.length > 1 &&
            (ep.2.map (fun v => v.getD (v.length - 2) 0)).eraseDups.length > 1) = true
        · rw [if_pos hc]
          simp only [Bool.and_eq_true, decide_eq_true_eq] at hc
          constructor
          · rintro (h | ⟨e, paths, hm, h1, h2, h3⟩)
            · rcases List.mem_append.mp h with h | h
              · exact Or.inl h
              · right
                refine ⟨ep.1, ep.2, List.mem_cons_self .., hc.1, hc.2, ?_⟩
                simpa using h
            · exact Or.inr ⟨e, paths, List.mem_cons_of_mem _ hm, h1, h2, h3⟩
          · rintro (h | ⟨e, paths, hm, h1, h2, h3⟩)
            · exact Or.inl (List.mem_append_left _ h)
            · rcases List.mem_cons.mp hm with hm | hm
              · left
                rw [List.mem_append]
                right
                rw [h3, ← hm]
                simp
              · exact Or.inr ⟨e, paths, hm, h1, h2, h3⟩
        · rw [if_neg hc]
          constructor
          · rintro (h | ⟨e, paths, hm, h1, h2, h3⟩)
            · exact Or.inl h
            · exact Or.inr ⟨e, paths, List.mem_cons_of_mem _ hm, h1, h2, h3⟩
          · rintro (h | ⟨e, paths, hm, h1, h2, h3⟩)
            · exact Or.inl h
            · rcases List.mem_cons.mp hm with hm | hm
              · exfalso
                apply hc
                rw [← hm]
                simp only [Bool.and_eq_true, decide_eq_true_eq]
                exact ⟨h1, h2⟩
              · exact Or.inr ⟨e, paths, hm, h1, h2, h3⟩
    rw [key]
    simp
  · rw [if_neg hany]
    simp [hany]

/-! ### marked positions -/

/-- the marking step of `buildVariant` -/
def markStep (kGraph : Nat) (starts ends : List Nat) (len : Nat) (acc : List Nat) (ni : Nat × Nat) : List Nat :=
  if starts.contains ni.1 && (len < kGraph || ni.2 ≤ len - kGraph) then acc ++ [ni.2 + kGraph]
  else if ends.contains ni.1 then acc ++ [ni.2 - 1]
  else acc

theorem buildVariant_marks (W kGraph : Nat) (starts ends : List Nat) (kmer : Nat) (path : List Nat) :
    (buildVariant W kGraph starts ends kmer path).2 =
      path.zipIdx.foldl (markStep kGraph starts ends path.length) [] := rfl

theorem markFold_mono (kGraph : Nat) (starts ends : List Nat) (len : Nat) (l : List (Nat × Nat)) :
    ∀ acc : List Nat, ∀ m ∈ acc, m ∈ l.foldl (markStep kGraph starts ends len) acc := by
  induction l with
  | nil => intro acc m hm; exact hm
  | cons x rest ih =>
    intro acc m hm
    rw [List.foldl_cons]
    apply ih
    unfold markStep
    split
    · exact List.mem_append_left _ hm
    · split
      · exact List.mem_append_left _ hm
      · exact hm

theorem markFold_start (kGraph : Nat) (starts ends : List Nat) (len : Nat) (l : List (Nat × Nat)) (x idx : Nat)
    (hx : (x, idx) ∈ l) (hs : x ∈ starts) (hc : len < kGraph ∨ idx ≤ len - kGraph) :
    ∀ acc : List Nat, idx + kGraph ∈ l.foldl (markStep kGraph starts ends len) acc := by
  induction l with
  | nil => simp at hx
  | cons y rest ih =>
    intro acc
    rw [List.foldl_cons]
    rcases List.mem_cons.mp hx with e | hx'
    · apply markFold_mono
      rw [← e]
      unfold markStep
      rw [if_pos (by simp [hs]; exact hc)]
      simp
    · exact ih hx' _

/-- a node of the path that is an entry node marks its position plus `kGraph` -/
theorem mark_of_start (W kGraph : Nat) (starts ends : List Nat) (kmer : Nat) (path : List Nat) (idx x : Nat)
    (hx : path[idx]? = some x) (hs : x ∈ starts) (hc : path.length < kGraph ∨ idx ≤ path.length - kGraph) :
    idx + kGraph ∈ (buildVariant W kGraph starts ends kmer path).2 := by
  rw [buildVariant_marks]
  apply markFold_start kGraph starts ends path.length path.zipIdx x idx ?_ hs hc
  rw [List.mem_zipIdx_iff_getElem?]
  simpa using hx

end SkaModel.LOC
