/-
C17 completeness — the table of a family of samples (one record each, both strands): which rows it has
and what the cells are, in terms of the canonical `k`-windows of the samples.
-/
import SkaModel.Lemmas.LOCStr
import SkaModel.Lemmas.SNPRows
import SkaModel.Lemmas.E2ETable
import SkaModel.Lemmas.LOReal5

namespace SkaModel.LOC

open SkaModel SkaModel.Spec SkaModel.Props.C16 SkaModel.Skalo SkaModel.SNP

/-! ### `codesAt`, `armsAt`, `midAt` of a list -/

theorem toArray_getD (s : List UInt8) (i : Nat) : s.toArray.getD i 0 = s.getD i 0 := by
  simp [Array.getD, List.getD_eq_getElem?_getD]
  split <;> rename_i h
  · rw [List.getElem?_eq_getElem h]; rfl
  · rw [List.getElem?_eq_none (by omega)]; rfl

theorem codesAt_toArray (s : List UInt8) (a n : Nat) (h : a + n ≤ s.length) :
    codesAt s.toArray a n = cds (win s a n) := by
  unfold codesAt cds
  apply List.ext_getElem?
  intro i
  rw [List.getElem?_map, List.getElem?_map]
  by_cases hi : i < n
  · rw [List.getElem?_range hi, win_getElem? _ _ _ _ hi]
    simp only [Option.map_some, toArray_getD]
    rw [List.getD_eq_getElem?_getD, List.getElem?_eq_getElem (by omega)]
    rfl
  · rw [List.getElem?_eq_none (by simp; omega), List.getElem?_eq_none (by rw [win_length h]; omega)]
    rfl

theorem win_append (s : List UInt8) (j m n : Nat) : win s j (m + n) = win s j m ++ win s (j + m) n := by
  unfold win
  rw [List.take_add, List.drop_drop]

/-- a window of `2h+1` letters: left arm, middle base, right arm -/
theorem win_split {s : List UInt8} {j h : Nat} (hj : j + (2 * h + 1) ≤ s.length) :
    win s j (2 * h + 1) = win s j h ++ [s.getD (j + h) 0] ++ win s (j + h + 1) h := by
  have e : 2 * h + 1 = (h + 1) + h := by omega
  rw [e, win_append, win_succ (by omega), Nat.add_assoc]

theorem cds_win_split {s : List UInt8} {j h : Nat} (hj : j + (2 * h + 1) ≤ s.length) :
    cds (win s j (2 * h + 1)) = cds (win s j h) ++ [code (s.getD (j + h) 0)] ++ cds (win s (j + h + 1) h) := by
  rw [win_split hj, cds_append, cds_append]
  rfl

theorem armsAt_toArray {k : Nat} {s : List UInt8} {j : Nat} (hj : j + k ≤ s.length) (hk : k = 2 * halfK k + 1) :
    armsAt k s.toArray j = cds (win s j (halfK k)) ++ cds (win s (j + halfK k + 1) (halfK k)) := by
  unfold armsAt
  simp only
  rw [show (k - 1) / 2 = halfK k from rfl, codesAt_toArray _ _ _ (by omega), codesAt_toArray _ _ _ (by omega)]

theorem midAt_toArray (k : Nat) (s : List UInt8) (j : Nat) :
    midAt k s.toArray j = code (s.getD (j + halfK k) 0) := by
  unfold midAt
  rw [toArray_getD]
  rfl

/-! ### the canonical window -/

/-- the codes of the `k`-window of `s` at `j`, on the strand whose arms pack to the smaller number -/
def canonC (k : Nat) (s : List UInt8) (j : Nat) : List Nat :=
  let u := cds (win s j (halfK k))
  let l := cds (win s (j + halfK k + 1) (halfK k))
  if packL (u ++ l) > packL (rcCodes (u ++ l)) then rcCodes (cds (win s j k)) else cds (win s j k)

theorem canonC_cases (k : Nat) (s : List UInt8) (j : Nat) :
    canonC k s j = cds (win s j k) ∨ canonC k s j = rcCodes (cds (win s j k)) := by
  unfold canonC
  simp only
  split
  · exact Or.inr rfl
  · exact Or.inl rfl

theorem getD_mem' {s : List UInt8} {j : Nat} (h : j < s.length) : s.getD j 0 ∈ s := by
  rw [List.getD_eq_getElem?_getD, List.getElem?_eq_getElem h]
  exact List.getElem_mem _

/-- what `obs` reports for a window, through the canonical window: key = the packed arms, base = the
middle code -/
theorem obs_canon {k : Nat} {s : List UInt8} {j : Nat} (hj : j + k ≤ s.length) (hk : k = 2 * halfK k + 1) :
    ∃ u c l, canonC k s j = u ++ [c] ++ l ∧ u.length = halfK k ∧ l.length = halfK k ∧
      Codes u ∧ Codes l ∧ c < 4 ∧
      (obs k true s.toArray j).1 = packL (u ++ l) ∧ (obs k true s.toArray j).2.1 = c := by
  have hsp := cds_win_split (s := s) (j := j) (h := halfK k) (by omega)
  rw [← hk] at hsp
  have hlu : (cds (win s j (halfK k))).length = halfK k := by rw [cds_length, win_length (by omega)]
  have hll : (cds (win s (j + halfK k + 1) (halfK k))).length = halfK k := by
    rw [cds_length, win_length (by omega)]
  unfold obs canonC
  simp only [Bool.true_and]
  rw [armsAt_toArray hj hk, midAt_toArray]
  by_cases hgt : packL (cds (win s j (halfK k)) ++ cds (win s (j + halfK k + 1) (halfK k))) >
      packL (rcCodes (cds (win s j (halfK k)) ++ cds (win s (j + halfK k + 1) (halfK k))))
  · rw [if_pos hgt, if_pos (by simpa using hgt)]
    refine ⟨rcCodes (cds (win s (j + halfK k + 1) (halfK k))), code (s.getD (j + halfK k) 0) ^^^ 2,
      rcCodes (cds (win s j (halfK k))), ?_, ?_, ?_, rcCodes_codes (cds_codes _), rcCodes_codes (cds_codes _),
      xor2_lt (code_lt _), ?_, rfl⟩
    · rw [hsp, rcCodes_append, rcCodes_append, List.append_assoc]
      rfl
    · rw [rcCodes_length, hll]
    · rw [rcCodes_length, hlu]
    · rw [rcCodes_append]
  · rw [if_neg hgt, if_neg (by simpa using hgt)]
    exact ⟨_, _, _, hsp, hlu, hll, cds_codes _, cds_codes _, code_lt _, rfl, rfl⟩

/-- no window of `k` letters of `s` is a palindromic split k-mer (not needed for the theorems; kept for
the discussion of the counterexample of the unrepaired program) -/
def NoPalin (k : Nat) (s : List UInt8) : Prop :=
  ∀ j, j + k ≤ s.length → win s j (halfK k) ≠ rcSeq (win s (j + halfK k + 1) (halfK k))

theorem noPalinB_iff (k : Nat) (T : List (List UInt8)) : noPalinB k T = true ↔ ∀ s ∈ T, NoPalin k s := by
  unfold noPalinB NoPalin
  simp only [List.all_eq_true, List.mem_range, bne_iff_ne, ne_eq]
  constructor
  · intro h s hs j hj
    exact h s hs j (by omega)
  · intro h s hs j hj
    exact h s hs j (by omega)

/-! ### what a window contributes to the table -/

/-- key, reported base and base set of a window, through its two arms `a1`, `a2` and its middle code `m` -/
theorem obs_window {k : Nat} {s : List UInt8} {j : Nat} (hj : j + k ≤ s.length) (hk : k = 2 * halfK k + 1) :
    let a1 := cds (win s j (halfK k))
    let a2 := cds (win s (j + halfK k + 1) (halfK k))
    let m := code (s.getD (j + halfK k) 0)
    cds (win s j k) = a1 ++ [m] ++ a2 ∧ a1.length = halfK k ∧ a2.length = halfK k ∧
    obs k true s.toArray j =
      (if packL (a1 ++ a2) > packL (rcCodes (a1 ++ a2)) then (packL (rcCodes (a1 ++ a2)), m ^^^ 2, true)
        else (packL (a1 ++ a2), m, false)) ∧
    obsMask k true s.toArray j =
      (if packL (a1 ++ a2) = packL (rcCodes (a1 ++ a2)) then (1 <<< m) ||| (1 <<< (m ^^^ 2))
        else 1 <<< (obs k true s.toArray j).2.1) := by
  intro a1 a2 m
  have hsp := cds_win_split (s := s) (j := j) (h := halfK k) (by omega)
  rw [← hk] at hsp
  have hlu : a1.length = halfK k := by show (cds _).length = _; rw [cds_length, win_length (by omega)]
  have hll : a2.length = halfK k := by show (cds _).length = _; rw [cds_length, win_length (by omega)]
  have hobs : obs k true s.toArray j =
      (if packL (a1 ++ a2) > packL (rcCodes (a1 ++ a2)) then (packL (rcCodes (a1 ++ a2)), m ^^^ 2, true)
        else (packL (a1 ++ a2), m, false)) := by
    unfold obs
    simp only [Bool.true_and]
    rw [armsAt_toArray hj hk, midAt_toArray]
    by_cases hgt : packL (a1 ++ a2) > packL (rcCodes (a1 ++ a2))
    · rw [if_pos hgt, if_pos (by simpa using hgt)]
    · rw [if_neg hgt, if_neg (by simpa using hgt)]
  refine ⟨hsp, hlu, hll, hobs, ?_⟩
  unfold obsMask isPalin
  simp only [Bool.true_and]
  rw [armsAt_toArray hj hk]
  by_cases he : packL (a1 ++ a2) = packL (rcCodes (a1 ++ a2))
  · have hng : ¬ packL (a1 ++ a2) > packL (rcCodes (a1 ++ a2)) := by omega
    rw [if_pos he, if_pos (by simpa using he), hobs, if_neg hng]
  · rw [if_neg he, if_neg (by simpa using he)]

/-- sample `s` contains the k-mer `u n l` on one of the two strands -/
def Shows (k : Nat) (s : List UInt8) (u : List Nat) (n : UInt8) (l : List Nat) : Prop :=
  ∃ j, j + k ≤ s.length ∧
    (cds (win s j k) = u ++ [code n] ++ l ∨ rcCodes (cds (win s j k)) = u ++ [code n] ++ l)

theorem letter_fin : ∀ m : Fin 16, ∀ n ∈ ([65, 67, 71, 84] : List UInt8),
    (((if m.val == 0 then gap else letterOfMask m.val) ≠ 45 ∧
      n ∈ degenerate (if m.val == 0 then gap else letterOfMask m.val)) ↔ m.val.testBit (code n) = true) := by
  decide +kernel

theorem testBit_one_shl (b c : Nat) : (1 <<< b).testBit c = decide (b = c) := by
  rw [Nat.one_shiftLeft, Nat.testBit_two_pow]

theorem rcCodes_full (u l : List Nat) (c : Nat) :
    rcCodes (u ++ [c] ++ l) = rcCodes l ++ [c ^^^ 2] ++ rcCodes u := by
  rw [rcCodes_append, rcCodes_append, ← List.append_assoc]
  rfl

/-- the cell of a sample for a canonical key `packL (u ++ l)` shows base `n` iff the sample contains the
k-mer `u n l` on one of the two strands -/
theorem cell_shows {k : Nat} {s : List UInt8} (hb : AllBase s)
    (hk : k = 2 * halfK k + 1) (u l : List Nat) (hu : u.length = halfK k) (hl : l.length = halfK k)
    (hcu : Codes u) (hcl : Codes l) (hcan : packL (u ++ l) ≤ packL (rcCodes (u ++ l)))
    (n : UInt8) (hn4 : n ∈ ([65, 67, 71, 84] : List UInt8)) :
    (cellOfObs (observations k true [s.toArray]) (packL (u ++ l)) ≠ 45 ∧
      n ∈ degenerate (cellOfObs (observations k true [s.toArray]) (packL (u ++ l)))) ↔ Shows k s u n l := by
  have hm : maskOf (observations k true [s.toArray]) (packL (u ++ l)) < 16 :=
    E2E.maskFor_lt k true [s.toArray] (packL (u ++ l))
  have hfin := letter_fin ⟨_, hm⟩ n hn4
  have hx2 : ∀ c < 4, ∀ c' < 4, c ^^^ 2 = c' → c = c' ^^^ 2 := by decide
  have hwin : ∀ j, j + k ≤ s.length → j ∈ windows k s.toArray := by
    intro j hj
    rw [mem_windows]
    refine ⟨by simpa using hj, ?_⟩
    intro t ht
    rw [toArray_getD]
    exact SNP.acgt_valid (hb _ (getD_mem' (by omega)))
  unfold cellOfObs
  simp only at hfin ⊢
  rw [hfin, maskOf_testBit, List.any_eq_true]
  constructor
  · rintro ⟨o, ho, hp⟩
    rw [mem_observations_single] at ho
    obtain ⟨j, hj, rfl⟩ := ho
    rw [mem_windows] at hj
    have hj' : j + k ≤ s.length := by simpa using hj.1
    simp only [Bool.and_eq_true, beq_iff_eq] at hp
    obtain ⟨hsp, hl1, hl2, hobs, hmask⟩ := obs_window hj' hk
    refine ⟨j, hj', ?_⟩
    rw [hsp]
    have hc1 := cds_codes (win s j (halfK k))
    have hc2 := cds_codes (win s (j + halfK k + 1) (halfK k))
    by_cases hgt : packL (cds (win s j (halfK k)) ++ cds (win s (j + halfK k + 1) (halfK k))) >
        packL (rcCodes (cds (win s j (halfK k)) ++ cds (win s (j + halfK k + 1) (halfK k))))
    · -- the window is read on the other strand
      rw [if_pos hgt] at hobs
      rw [if_neg (by omega), hobs] at hmask
      rw [hobs, hmask] at hp
      simp only at hp
      obtain ⟨hp1, hp2⟩ := hp
      rw [testBit_one_shl, decide_eq_true_eq] at hp2
      have hkey := packL_inj (rcCodes_codes (Codes.append hc1 hc2)) (Codes.append hcu hcl)
        (by rw [rcCodes_length, List.length_append, List.length_append, hl1, hl2, hu, hl]) hp1
      rw [rcCodes_append] at hkey
      obtain ⟨e1, e2⟩ := List.append_inj hkey (by rw [rcCodes_length, hl2, hu])
      right
      rw [rcCodes_full, e1, e2, hp2]
    · rw [if_neg hgt] at hobs
      by_cases hpal : packL (cds (win s j (halfK k)) ++ cds (win s (j + halfK k + 1) (halfK k))) =
          packL (rcCodes (cds (win s j (halfK k)) ++ cds (win s (j + halfK k + 1) (halfK k))))
      · rw [if_pos hpal] at hmask
        rw [hobs, hmask] at hp
        simp only at hp
        obtain ⟨hp1, hp2⟩ := hp
        rw [Nat.testBit_or, testBit_one_shl, testBit_one_shl, Bool.or_eq_true, decide_eq_true_eq,
          decide_eq_true_eq] at hp2
        have hkey := packL_inj (Codes.append hc1 hc2) (Codes.append hcu hcl)
          (by rw [List.length_append, List.length_append, hl1, hl2, hu, hl]) hp1
        obtain ⟨e1, e2⟩ := List.append_inj hkey (by rw [hl1, hu])
        rcases hp2 with h | h
        · left; rw [e1, e2, h]
        · right
          have harms := packL_inj (Codes.append hc1 hc2) (rcCodes_codes (Codes.append hc1 hc2))
            (by rw [rcCodes_length]) hpal
          rw [rcCodes_append] at harms
          obtain ⟨f1, f2⟩ := List.append_inj harms (by rw [rcCodes_length, hl1, hl2])
          rw [rcCodes_full, ← f1, ← f2, e1, e2, h]
      · rw [if_neg hpal, hobs] at hmask
        rw [hobs, hmask] at hp
        simp only at hp
        obtain ⟨hp1, hp2⟩ := hp
        rw [testBit_one_shl, decide_eq_true_eq] at hp2
        have hkey := packL_inj (Codes.append hc1 hc2) (Codes.append hcu hcl)
          (by rw [List.length_append, List.length_append, hl1, hl2, hu, hl]) hp1
        obtain ⟨e1, e2⟩ := List.append_inj hkey (by rw [hl1, hu])
        left; rw [e1, e2, hp2]
  · rintro ⟨j, hj, hc⟩
    obtain ⟨hsp, hl1, hl2, hobs, hmask⟩ := obs_window hj hk
    refine ⟨((obs k true s.toArray j).1, obsMask k true s.toArray j), ?_, ?_⟩
    · rw [mem_observations_single]
      exact ⟨j, hwin j hj, rfl⟩
    · simp only [Bool.and_eq_true, beq_iff_eq]
      rw [hsp] at hc
      rcases hc with hc | hc
      · -- the window itself is `u n l`
        obtain ⟨e1, e2, e3⟩ := LORL.split_full (by rw [hl1, hu]) hc
        rw [e1, e3] at hobs hmask
        rw [e2] at hobs hmask
        rw [if_neg (by omega)] at hobs
        constructor
        · rw [hobs]
        · rw [hmask]
          split
          · rw [Nat.testBit_or, testBit_one_shl]; simp
          · rw [hobs, testBit_one_shl]; simp
      · -- its reverse complement is `u n l`
        rw [rcCodes_full] at hc
        obtain ⟨e1, e2, e3⟩ := LORL.split_full (by rw [rcCodes_length, hl2, hu]) hc
        have ea2 : cds (win s (j + halfK k + 1) (halfK k)) = rcCodes u := by
          rw [← e1, rcCodes_rcCodes]
        have ea1 : cds (win s j (halfK k)) = rcCodes l := by
          rw [← e3, rcCodes_rcCodes]
        have em : code (s.getD (j + halfK k) 0) = code n ^^^ 2 :=
          hx2 _ (code_lt _) _ (code_lt _) e2
        rw [ea1, ea2, em] at hobs hmask
        have hrc : rcCodes (rcCodes l ++ rcCodes u) = u ++ l := by
          rw [rcCodes_append, rcCodes_rcCodes, rcCodes_rcCodes]
        have hcan' : packL (u ++ l) ≤ packL (rcCodes l ++ rcCodes u) := by
          rw [rcCodes_append] at hcan; exact hcan
        rw [hrc] at hobs hmask
        by_cases hgt : packL (rcCodes l ++ rcCodes u) > packL (u ++ l)
        · rw [if_pos hgt] at hobs
          constructor
          · rw [hobs]
          · rw [hmask, if_neg (by omega), hobs, testBit_one_shl]
            simp [xor2_xor2]
        · have heq : packL (rcCodes l ++ rcCodes u) = packL (u ++ l) := by omega
          rw [if_neg hgt] at hobs
          constructor
          · rw [hobs]; exact heq
          · rw [hmask, if_pos heq, Nat.testBit_or, testBit_one_shl, testBit_one_shl]
            simp [xor2_xor2]

/-- the key of a window is canonical: not greater than its reverse complement -/
theorem key_le_rcKey {k : Nat} {s : List UInt8} {j : Nat} (hk : k = 2 * halfK k + 1) :
    (obs k true s.toArray j).1 ≤ LORL.rcKey k (obs k true s.toArray j).1 := by
  rw [obs_key]
  have hlen : (armsAt k s.toArray j).length = k - 1 := by rw [armsAt_length]; unfold halfK at hk; omega
  have hr : LORL.rcKey k (packL (armsAt k s.toArray j)) = packL (rcCodes (armsAt k s.toArray j)) := by
    unfold LORL.rcKey
    rw [LORL.digs_packL (k - 1) _ (armsAt_codes _ _ _) hlen]
  have hr' : LORL.rcKey k (packL (rcCodes (armsAt k s.toArray j))) = packL (armsAt k s.toArray j) := by
    unfold LORL.rcKey
    rw [LORL.digs_packL (k - 1) _ (rcCodes_codes (armsAt_codes _ _ _)) (by rw [rcCodes_length, hlen]),
      rcCodes_rcCodes]
  by_cases hgt : packL (armsAt k s.toArray j) > packL (rcCodes (armsAt k s.toArray j))
  · rw [if_pos ⟨rfl, hgt⟩, hr']
    omega
  · rw [if_neg (by simp [hgt]), hr]
    omega

end SkaModel.LOC
