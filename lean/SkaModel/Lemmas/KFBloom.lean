/-
C12 helper: the Bloom layer of `KmerFilter`. Bits are only ever set, so a key that was
added is reported as seen by every later check (no false negatives).
-/
import SkaModel.Impl.Reads

namespace SkaModel.KF

open SkaModel SkaModel.KmerFilter

/-- all fingerprint bits of `key` are set in its Bloom word -/
def BloomHas (f : KmerFilter) (key : Nat) : Prop :=
  (f.buffer.getD (location key) 0) &&& fingerprint key = fingerprint key

instance (f : KmerFilter) (key : Nat) : Decidable (BloomHas f key) := by
  unfold BloomHas; infer_instance

theorem or_and_self (w fp : Nat) : (w ||| fp) &&& fp = fp := by
  apply Nat.eq_of_testBit_eq
  intro i
  simp only [Nat.testBit_and, Nat.testBit_or]
  cases w.testBit i <;> cases fp.testBit i <;> rfl

theorem or_and_of_and (w fp' fp : Nat) (h : w &&& fp = fp) : (w ||| fp') &&& fp = fp := by
  apply Nat.eq_of_testBit_eq
  intro i
  have hi : (w &&& fp).testBit i = fp.testBit i := by rw [h]
  simp only [Nat.testBit_and, Nat.testBit_or] at hi ⊢
  cases hw : w.testBit i <;> cases hf : fp.testBit i <;> cases fp'.testBit i <;> simp_all

/-- `bloomAddAndCheck` without the `let`s -/
theorem bloom_eq (f : KmerFilter) (key : Nat) :
    f.bloomAddAndCheck key =
      if f.buffer.getD (location key) 0 &&& fingerprint key = fingerprint key then (f, true)
      else ({ f with buffer :=
          f.buffer.insert (location key) (f.buffer.getD (location key) 0 ||| fingerprint key) },
        false) := by
  unfold bloomAddAndCheck
  simp only [beq_iff_eq]

/-- the count written by `filter` when the Bloom filter has seen the hash -/
def newCount (f : KmerFilter) (h : Nat) : Nat :=
  match f.counts.get? h with
  | some c => min (c + 1) 65535
  | none => 2

/-- `filter` without the `let`s -/
theorem filter_eq (f : KmerFilter) (h : Nat) :
    f.filter h =
      if f.minCount ≤ 1 then (f, true)
      else if f.minCount = 2 then f.bloomAddAndCheck h
      else if (f.bloomAddAndCheck h).2 = true then
        ({ (f.bloomAddAndCheck h).1 with counts := f.counts.insert h (newCount f h) },
          f.minCount == newCount f h)
      else ((f.bloomAddAndCheck h).1, false) := by
  unfold KmerFilter.filter newCount
  have hc : (f.bloomAddAndCheck h).1.counts = f.counts := by
    rw [bloom_eq]; split <;> rfl
  have hm : (f.bloomAddAndCheck h).1.minCount = f.minCount := by
    rw [bloom_eq]; split <;> rfl
  simp only [beq_iff_eq, hc, hm]
  split
  · rfl
  · split
    · rfl
    · cases hs : (f.bloomAddAndCheck h).2
      · simp only [Bool.false_eq_true, ↓reduceIte]
      · simp only [↓reduceIte]
        rfl

/-- the result flag of `bloomAddAndCheck` is exactly `BloomHas` of the old state -/
theorem bloom_snd (f : KmerFilter) (key : Nat) :
    (f.bloomAddAndCheck key).2 = decide (BloomHas f key) := by
  unfold bloomAddAndCheck BloomHas
  by_cases h : (f.buffer.getD (location key) 0 &&& fingerprint key) = fingerprint key
  · simp [h]
  · simp [h]

theorem bloom_snd_true (f : KmerFilter) (key : Nat) :
    (f.bloomAddAndCheck key).2 = true ↔ BloomHas f key := by
  rw [bloom_snd]; simp

@[simp] theorem bloom_minCount (f : KmerFilter) (key : Nat) :
    (f.bloomAddAndCheck key).1.minCount = f.minCount := by
  rw [bloom_eq]
  split <;> rfl

@[simp] theorem bloom_counts (f : KmerFilter) (key : Nat) :
    (f.bloomAddAndCheck key).1.counts = f.counts := by
  rw [bloom_eq]
  split <;> rfl

/-- the buffer after a Bloom step, word by word: only the word of `key` changes, by `|||` -/
theorem bloom_buffer_getD (f : KmerFilter) (key loc : Nat) :
    (f.bloomAddAndCheck key).1.buffer.getD loc 0 =
      if location key = loc then f.buffer.getD loc 0 ||| fingerprint key
      else f.buffer.getD loc 0 := by
  unfold bloomAddAndCheck
  by_cases h : (f.buffer.getD (location key) 0 &&& fingerprint key) = fingerprint key
  · simp only [h, beq_self_eq_true, ↓reduceIte]
    by_cases hl : location key = loc
    · subst hl
      simp only [↓reduceIte]
      apply Nat.eq_of_testBit_eq
      intro i
      have hi : (f.buffer.getD (location key) 0 &&& fingerprint key).testBit i
          = (fingerprint key).testBit i := by rw [h]
      simp only [Nat.testBit_and, Nat.testBit_or] at hi ⊢
      cases hw : (f.buffer.getD (location key) 0).testBit i <;>
        cases hf : (fingerprint key).testBit i <;> simp_all
    · simp [hl]
  · have h' : (f.buffer.getD (location key) 0 &&& fingerprint key == fingerprint key) = false := by
      simpa using h
    simp only [h', Bool.false_eq_true, ↓reduceIte, Std.HashMap.getD_insert, beq_iff_eq]
    by_cases hl : location key = loc
    · subst hl; simp
    · simp [hl]

/-- words only grow: every bit set before a Bloom step is set after it -/
theorem bloom_buffer_mono (f : KmerFilter) (key loc w : Nat)
    (h : f.buffer.getD loc 0 &&& w = w) :
    (f.bloomAddAndCheck key).1.buffer.getD loc 0 &&& w = w := by
  rw [bloom_buffer_getD]
  split
  · exact or_and_of_and _ _ _ h
  · exact h

/-- `bloomAddAndCheck key` establishes `BloomHas · key` -/
theorem bloomHas_establish (f : KmerFilter) (key : Nat) :
    BloomHas (f.bloomAddAndCheck key).1 key := by
  unfold BloomHas
  rw [bloom_buffer_getD]
  simp only [↓reduceIte]
  exact or_and_self _ _

/-- `bloomAddAndCheck key'` preserves `BloomHas · key` -/
theorem bloomHas_bloom (f : KmerFilter) (key key' : Nat) (h : BloomHas f key) :
    BloomHas (f.bloomAddAndCheck key').1 key :=
  bloom_buffer_mono f key' (location key) (fingerprint key) h

/-! ### `filter` in terms of the Bloom step -/

@[simp] theorem filter_minCount (f : KmerFilter) (h : Nat) :
    (f.filter h).1.minCount = f.minCount := by
  unfold KmerFilter.filter
  split
  · rfl
  · split
    · simp
    · split
      rename_i f' seen heq
      have : f'.minCount = f.minCount := by
        have := congrArg (fun p => p.1.minCount) heq
        simpa using this.symm
      split <;> simp [this]

theorem filter_buffer (f : KmerFilter) (h : Nat) :
    (f.filter h).1.buffer =
      if f.minCount ≤ 1 then f.buffer else (f.bloomAddAndCheck h).1.buffer := by
  unfold KmerFilter.filter
  split
  · rfl
  · split
    · rfl
    · split
      rename_i f' seen heq
      have : f' = (f.bloomAddAndCheck h).1 := by rw [heq]
      split <;> simp [this]

/-- `filter h` preserves `BloomHas · key` -/
theorem bloomHas_filter (f : KmerFilter) (key h : Nat) (hk : BloomHas f key) :
    BloomHas (f.filter h).1 key := by
  unfold BloomHas
  rw [filter_buffer]
  split
  · exact hk
  · exact bloomHas_bloom f key h hk

/-- for `minCount ≥ 2`, `filter h` establishes `BloomHas · h` -/
theorem bloomHas_filter_self (f : KmerFilter) (h : Nat) (hm : 2 ≤ f.minCount) :
    BloomHas (f.filter h).1 h := by
  unfold BloomHas
  rw [filter_buffer]
  have : ¬ f.minCount ≤ 1 := by omega
  simp only [this, ↓reduceIte]
  exact bloomHas_establish f h

/-! ### arbitrary later operations -/

/-- the operations that touch the Bloom words -/
inductive Op where
  | bloom (key : Nat)
  | filt (hash : Nat)

def applyOp (f : KmerFilter) : Op → KmerFilter
  | .bloom k => (f.bloomAddAndCheck k).1
  | .filt h => (f.filter h).1

def applyOps (f : KmerFilter) (ops : List Op) : KmerFilter := ops.foldl applyOp f

theorem bloomHas_applyOps (ops : List Op) (f : KmerFilter) (key : Nat) (h : BloomHas f key) :
    BloomHas (applyOps f ops) key := by
  induction ops generalizing f with
  | nil => exact h
  | cons o os ih =>
    simp only [applyOps, List.foldl_cons]
    apply ih
    cases o with
    | bloom k => exact bloomHas_bloom f key k h
    | filt x => exact bloomHas_filter f key x h

/-- **No Bloom false negative.** Once `bloomAddAndCheck key` has run, every later
`bloomAddAndCheck key` — after any sequence of other Bloom steps and `filter` calls —
reports `true`. -/
theorem bloom_no_false_negative (f : KmerFilter) (key : Nat) (ops : List Op) :
    ((applyOps (f.bloomAddAndCheck key).1 ops).bloomAddAndCheck key).2 = true := by
  rw [bloom_snd_true]
  exact bloomHas_applyOps ops _ key (bloomHas_establish f key)

/-- the fingerprint always has a bit set -/
theorem fingerprint_ne_zero (key : Nat) : fingerprint key ≠ 0 := by
  unfold fingerprint
  intro h
  have h1 : (1 <<< (key &&& 63)) = 0 := by
    have := congrArg (fun x => x &&& (1 <<< (key &&& 63))) h
    simp only [Nat.zero_and] at this
    rw [← this]
    apply Nat.eq_of_testBit_eq
    intro i
    simp only [Nat.testBit_and, Nat.testBit_or]
    cases (1 <<< (key &&& 63)).testBit i <;> simp
  simp [Nat.shiftLeft_eq] at h1

/-- an empty Bloom buffer has seen nothing -/
theorem not_bloomHas_empty (f : KmerFilter) (hb : f.buffer = {}) (key : Nat) :
    ¬ BloomHas f key := by
  unfold BloomHas
  rw [hb]
  simp only [Std.HashMap.getD_empty, Nat.zero_and]
  exact fun h => fingerprint_ne_zero key h.symm

end SkaModel.KF
