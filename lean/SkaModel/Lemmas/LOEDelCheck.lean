/-
C18 completeness — executable checkers of the intermediate statements (graph, entry nodes, groups),
evaluated on the test families before the statements are proved.
-/
import SkaModel.Lemmas.LOEDel
import SkaModel.Lemmas.LOCCheck

namespace SkaModel.LOE

open SkaModel SkaModel.Skalo SkaModel.Spec SkaModel.LOC

/-- the columns of the contiguous window at `x` -/
def contCols (k x : Nat) : List Nat := List.range' x (k - 1)

/-- the columns of the window at `x` that jumps over the block `[b, e)` -/
def gapCols (k b e x : Nat) : List Nat := List.range' x (b - x) ++ List.range' e (k - 1 - (b - x))

/-- the node (forward / reverse) spelled by a list of columns -/
def nodeFw (W : Nat) (F : List UInt8) (w : List Nat) : Nat := encodeKmer W (w.map (getF F))
def nodeRv (W : Nat) (F : List UInt8) (w : List Nat) : Nat := encodeKmer W (rcSeq (w.map (getF F)))

/-- the first column of the entry node of a block (shift `m`): the `(k-1)`-mer ending at the rightmost placement -/
def entryCol (k : Nat) (F : List UInt8) (b : Nat × Nat) : Nat := b.1 + shOf k F b - (k - 1)

/-- the expected edges of the samples' strand, as pairs of column lists: the main line and the bypass of
every block (from the entry node over the jumping windows to the node after the block) -/
def dexpEdgeCols (k : Nat) (F : List UInt8) (B : List (Nat × Nat)) : List (List Nat × List Nat) :=
  (List.range (F.length + 1 - k)).map (fun x => (contCols k x, contCols k (x + 1))) ++
  B.flatMap (fun b =>
    let e := b.1 + b.2
    let x0 := entryCol k F b
    (List.range (b.1 - x0)).map (fun i =>
      let x := x0 + i
      ((if i == 0 then contCols k x else gapCols k b.1 e x),
       (if x + 1 == b.1 then contCols k e else gapCols k b.1 e (x + 1)))))

structure DFamT where
  k : Nat
  F : List UInt8
  B : List (Nat × Nat)
  C : List (List Bool)
  deriving Repr, Inhabited, BEq

def DFamT.S (f : DFamT) : List (List UInt8) := dsamples f.F f.B f.C
def DFamT.names (f : DFamT) : List String := (List.range f.C.length).map (fun i => s!"s{i}")
def DFamT.arr (W : Nat) (f : DFamT) : Arr := arrOf W f.k f.names f.S
def IFam.toD (f : IFam) : DFamT := ⟨f.k, f.toF, f.toB, f.C⟩

def checkDEdges (W : Nat) (f : DFamT) : Bool :=
  let g := (buildGraph W (f.arr W)).1
  let ec := dexpEdgeCols f.k f.F f.B
  let ee := ec.flatMap (fun xy => [(nodeFw W f.F xy.1, nodeFw W f.F xy.2), (nodeRv W f.F xy.2, nodeRv W f.F xy.1)])
  (graphEdges g).all (fun e => ee.contains e) && ee.all (fun e => (succs g e.1).contains e.2) &&
    g.all (fun kn => decNodup kn.2)

def sameSet (a b : List Nat) : Bool := a.all (b.contains ·) && b.all (a.contains ·)

def dEntries (W : Nat) (f : DFamT) : List Nat :=
  f.B.map (fun b => nodeFw W f.F (contCols f.k (entryCol f.k f.F b))) ++ f.B.map (fun b => nodeRv W f.F (contCols f.k (b.1 + b.2)))
def dExits (W : Nat) (f : DFamT) : List Nat :=
  f.B.map (fun b => nodeFw W f.F (contCols f.k (b.1 + b.2))) ++ f.B.map (fun b => nodeRv W f.F (contCols f.k (entryCol f.k f.F b)))

def checkDEntries (W : Nat) (f : DFamT) : Bool :=
  let (g, col) := buildGraph W (f.arr W)
  match identifyGoodKmers W (f.k - 1) g col with
  | some (st, en) => decNodup st && sameSet st (dEntries W f) && sameSet en (dExits W f)
  | none => false

/-- the two sequences of the bubble of a block on the samples' strand: through the block and over it -/
def bubbleSeqs (k : Nat) (F : List UInt8) (b : Nat × Nat) : List UInt8 × List UInt8 :=
  let x0 := entryCol k F b
  (win F x0 (b.1 + b.2 + (k - 1) - x0), win F x0 (b.1 - x0) ++ win F (b.1 + b.2) (k - 1))

def checkDGroups (W : Nat) (f : DFamT) (maxDepth : Nat) : Bool :=
  let (g, col) := buildGraph W (f.arr W)
  match identifyGoodKmers W (f.k - 1) g col with
  | some (st, en) =>
    let gr := buildVariantGroups W (f.k - 1) g st en maxDepth
    let expected : List ((Nat × Nat) × List UInt8 × List UInt8) := f.B.flatMap (fun b =>
      let sq := bubbleSeqs f.k f.F b
      [((nodeFw W f.F (contCols f.k (entryCol f.k f.F b)), nodeFw W f.F (contCols f.k (b.1 + b.2))), sq),
       ((nodeRv W f.F (contCols f.k (b.1 + b.2)), nodeRv W f.F (contCols f.k (entryCol f.k f.F b))), (rcSeq sq.1, rcSeq sq.2))])
    decide (gr.indelGroups.length = expected.length) &&
    expected.all (fun e => gr.indelGroups.any (fun kv => kv.1 == e.1 &&
      (kv.2.map (·.1) == [e.2.1, e.2.2] || kv.2.map (·.1) == [e.2.2, e.2.1]))) &&
    gr.snpGroups.all (fun kv => st.contains kv.1.1)
  | none => false

end SkaModel.LOE
