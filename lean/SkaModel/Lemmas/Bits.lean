/-
Arithmetic view of the W-bit shift/mask operations.
-/
import SkaModel.Impl.Bits

namespace SkaModel

theorem shl_of_lt {W x n : Nat} (h : x <<< n < 2 ^ W) : shl W x n = x <<< n := by
  unfold shl
  exact Nat.mod_eq_of_lt h

theorem shl_one (W n : Nat) (h : n < W) : shl W 1 n = 2 ^ n := by
  rw [shl_of_lt]
  · simp [Nat.shiftLeft_eq]
  · simp only [Nat.shiftLeft_eq, Nat.one_mul]
    exact Nat.pow_lt_pow_right (by omega) h

theorem two_pow_double (h : Nat) : 2 ^ (h * 2) = 4 ^ h := by
  rw [Nat.mul_comm, Nat.pow_mul]

theorem lowerMask_eq (W k : Nat) (h : halfK k * 2 < W) : lowerMask W k = 4 ^ halfK k - 1 := by
  unfold lowerMask
  rw [shl_one W _ h, two_pow_double]

theorem upperMask_eq (W k : Nat) (h : halfK k * 4 ≤ W) (hk : 0 < halfK k) :
    upperMask W k = (4 ^ halfK k - 1) * 4 ^ halfK k := by
  unfold upperMask
  rw [lowerMask_eq W k (by omega)]
  have h1 : 1 ≤ 4 ^ halfK k := Nat.pow_pos (by omega)
  rw [shl_of_lt]
  · rw [Nat.shiftLeft_eq, two_pow_double]
  · rw [Nat.shiftLeft_eq, two_pow_double]
    calc (4 ^ halfK k - 1) * 4 ^ halfK k < 4 ^ halfK k * 4 ^ halfK k := by
          apply Nat.mul_lt_mul_of_pos_right (by omega) (by omega)
      _ = 2 ^ (halfK k * 4) := by
          rw [← Nat.pow_add, ← two_pow_double]; congr 1; omega
      _ ≤ 2 ^ W := Nat.pow_le_pow_right (by omega) h

end SkaModel
