/-
C17 completeness — the invariant of the fold of `analyse` over good groups of both strands, in any order:
the columns found so far are those of a set of distinct sites (complemented for groups of the other strand)
and the blocked k-mers are exactly those of these sites.
-/
import SkaModel.Lemmas.LOCCall3

namespace SkaModel.LOC

open SkaModel SkaModel.Spec SkaModel.Props.C16 SkaModel.Skalo SkaModel.Props.C17G SkaModel.LOG

variable {k L : Nat} {S : List (List UInt8)} {P : List Nat}

/-- the column reported for a called site: complemented when called on the other strand -/
def colf (S : List (List UInt8)) (x : Nat × Bool) : List UInt8 :=
  if x.2 then complCol (colT S x.1) else colT S x.1

/-- the invariant: `Called` lists the sites called so far with their strand -/
structure CInv (k : Nat) (S : List (List UInt8)) (P : List Nat) (Called : List (Nat × Bool))
    (acc : List (List UInt8) × List Nat) : Prop where
  nd : (Called.map (·.1)).Nodup
  sub : ∀ x ∈ Called, x.1 ∈ P
  blk : ∀ x ∈ acc.2, ∃ q ∈ Called.map (·.1), Blk k S q x
  has : ∀ q ∈ Called.map (·.1), ∀ s ∈ S, kmerAt k s (q - k + 1) ∈ acc.2 ∧ rcKmerAt k s q ∈ acc.2
  cols : acc.1 = Called.map (colf S)

theorem cinv_nil (k : Nat) (S : List (List UInt8)) (P : List Nat) : CInv k S P [] ([], []) :=
  ⟨by simp, by simp, by simp, by simp, rfl⟩

/-- a site that is not called is not blocked -/
theorem not_blocked (pf : PFam k L S P) (hk5 : 5 ≤ k) {Called : List (Nat × Bool)}
    {acc : List (List UInt8) × List Nat} (hI : CInv k S P Called acc) {q : Nat} (hq : q ∈ P)
    (hn : q ∉ Called.map (·.1)) {x : Nat} (hx : Blk k S q x) : x ∉ acc.2 := by
  intro hm
  obtain ⟨q2, hq2, hb⟩ := hI.blk x hm
  obtain ⟨y, hy, rfl⟩ := List.mem_map.mp hq2
  have := blk_site pf hk5 hq (hI.sub y hy) hx hb
  exact hn (this ▸ hq2)

/-- **a group of the strand of the samples** -/
theorem step_fwd (pf : PFam k L S P) (hk5 : 5 ≤ k) {W : Nat} (hW : 2 * k ≤ W) (hw : W = 64 ∨ W = 128)
    {col : Colours} (hc : ColOK k L col S) (mNum mDen : Nat) {Called : List (Nat × Bool)}
    {acc : List (List UInt8) × List Nat} (hI : CInv k S P Called acc) {c0 len : Nat} {vs : List Variant}
    (hg : GG k L S P c0 len vs) (hne : vs ≠ []) :
    ∃ (Called' : List (Nat × Bool)) (cols' : List (List UInt8)) (save : List Nat),
      groupSnps W (k - 1) S.length mNum mDen col acc.2 vs = some (cols', save) ∧
      CInv k S P Called' (acc.1 ++ cols', acc.2 ++ save) ∧ (∀ x ∈ Called, x ∈ Called') ∧
      ∀ q ∈ P, c0 ≤ q → q < c0 + len → q ∈ Called'.map (·.1) := by
  obtain ⟨s0, hs0⟩ := List.exists_mem_of_ne_nil S pf.ne
  have hdich : ∀ q ∈ P, c0 ≤ q → q < c0 + len →
      (∀ t ∈ S, kmerAt k t (q - k + 1) ∈ acc.2) ∨
      (∀ t ∈ S, kmerAt k t (q - k + 1) ∉ acc.2 ∧ rcKmerAt k t q ∉ acc.2) := by
    intro q hq _ _
    by_cases hc : q ∈ Called.map (·.1)
    · exact Or.inl (fun t ht => (hI.has q hc t ht).1)
    · right
      intro t ht
      exact ⟨not_blocked pf hk5 hI hq hc ⟨t, ht, Or.inl rfl⟩,
        not_blocked pf hk5 hI hq hc ⟨t, ht, Or.inr (Or.inr (Or.inr rfl))⟩⟩
  obtain ⟨Qn, save, hgs, hQ1, hQ2, hQ3, hQ4⟩ := groupSnps_good pf hk5 hW hw hc acc.2 mNum mDen hg hne hdich
  have hdisj : ∀ q ∈ Qn, q ∉ Called.map (·.1) := by
    intro q hq hcm
    exact ((hQ2 q).mp hq).2.2.2 s0 hs0 (hI.has q hcm s0 hs0).1
  refine ⟨Called ++ Qn.map (fun q => (q, false)), Qn.map (colT S), save, hgs, ⟨?_, ?_, ?_, ?_, ?_⟩,
    fun x hx => List.mem_append_left _ hx, ?_⟩
  · rw [List.map_append, List.map_map]
    have : (Qn.map ((fun x => x.1) ∘ fun q => (q, false))) = Qn := by
      rw [show ((fun (x : Nat × Bool) => x.1) ∘ fun q => (q, false)) = id from rfl]
      exact List.map_id _
    rw [this, List.nodup_append]
    exact ⟨hI.nd, hQ1, fun a ha b hb e => hdisj b hb (e ▸ ha)⟩
  · intro x hx
    rcases List.mem_append.mp hx with h | h
    · exact hI.sub x h
    · obtain ⟨q, hq, rfl⟩ := List.mem_map.mp h
      exact ((hQ2 q).mp hq).1
  · intro x hx
    rcases List.mem_append.mp hx with h | h
    · obtain ⟨q, hq, hb⟩ := hI.blk x h
      exact ⟨q, by rw [List.map_append]; exact List.mem_append_left _ hq, hb⟩
    · obtain ⟨q, hq, hb⟩ := hQ3 x h
      exact ⟨q, by rw [List.map_append, List.map_map]; exact List.mem_append_right _ (by simpa [Function.comp] using hq), hb⟩
  · intro q hq s hs
    rw [List.map_append, List.map_map, List.mem_append] at hq
    rcases hq with h | h
    · exact ⟨List.mem_append_left _ (hI.has q h s hs).1, List.mem_append_left _ (hI.has q h s hs).2⟩
    · have hq' : q ∈ Qn := by simpa [Function.comp] using h
      exact ⟨List.mem_append_right _ (hQ4 q hq' s hs).1, List.mem_append_right _ (hQ4 q hq' s hs).2⟩
  · show acc.1 ++ Qn.map (colT S) = (Called ++ Qn.map (fun q => (q, false))).map (colf S)
    rw [List.map_append, List.map_map, hI.cols]
    congr 1
  · intro q hq h1 h2
    rw [List.map_append, List.map_map, List.mem_append]
    by_cases hc : q ∈ Called.map (·.1)
    · exact Or.inl hc
    · right
      have : q ∈ Qn := (hQ2 q).mpr ⟨hq, h1, h2, fun t ht => not_blocked pf hk5 hI hq hc ⟨t, ht, Or.inl rfl⟩⟩
      simpa [Function.comp] using this

/-- **a group of the other strand** -/
theorem step_rev (pf : PFam k L S P) (hk5 : 5 ≤ k) {W : Nat} (hW : 2 * k ≤ W)
    (hw : W = 64 ∨ W = 128) {col : Colours} (hc : ColOK k L col (rcFam S)) (mNum mDen : Nat)
    {Called : List (Nat × Bool)} {acc : List (List UInt8) × List Nat} (hI : CInv k S P Called acc)
    {c0 len : Nat} {vs : List Variant} (hg : GG k L (rcFam S) (mirrorP L P) c0 len vs) (hne : vs ≠ []) :
    ∃ (Called' : List (Nat × Bool)) (cols' : List (List UInt8)) (save : List Nat),
      groupSnps W (k - 1) S.length mNum mDen col acc.2 vs = some (cols', save) ∧
      CInv k S P Called' (acc.1 ++ cols', acc.2 ++ save) ∧ (∀ x ∈ Called, x ∈ Called') := by
  obtain ⟨s0, hs0⟩ := List.exists_mem_of_ne_nil S pf.ne
  have pf' := pf.mirror
  have hlen' : (rcFam S).length = S.length := by simp [rcFam]
  -- a site of the other strand and its mirror image
  have hmir : ∀ q' ∈ mirrorP L P, L - 1 - q' ∈ P ∧ L - 1 - (L - 1 - q') = q' := by
    intro q' hq'
    obtain ⟨p, hp, rfl⟩ := (mem_mirrorP L P q').mp hq'
    have := pf.ends p hp
    rw [show L - 1 - (L - 1 - p) = p by omega]
    exact ⟨hp, rfl⟩
  have hkm : ∀ q' ∈ mirrorP L P, ∀ s ∈ S,
      kmerAt k (rcSeq s) (q' - k + 1) = rcKmerAt k s (L - 1 - q') ∧
      rcKmerAt k (rcSeq s) q' = kmerAt k s (L - 1 - q' - k + 1) := by
    intro q' hq' s hs
    obtain ⟨hp, hpp⟩ := hmir q' hq'
    obtain ⟨e1, _, _, e4⟩ := mirror_kmers pf hk5 hp hs
    rw [hpp] at e1 e4
    exact ⟨e1, e4⟩
  have hdich : ∀ q' ∈ mirrorP L P, c0 ≤ q' → q' < c0 + len →
      (∀ t ∈ rcFam S, kmerAt k t (q' - k + 1) ∈ acc.2) ∨
      (∀ t ∈ rcFam S, kmerAt k t (q' - k + 1) ∉ acc.2 ∧ rcKmerAt k t q' ∉ acc.2) := by
    intro q' hq' _ _
    obtain ⟨hp, hpp⟩ := hmir q' hq'
    by_cases hcm : L - 1 - q' ∈ Called.map (·.1)
    · left
      intro t ht
      obtain ⟨s, hs, rfl⟩ := List.mem_map.mp ht
      rw [(hkm q' hq' s hs).1]
      exact (hI.has _ hcm s hs).2
    · right
      intro t ht
      obtain ⟨s, hs, rfl⟩ := List.mem_map.mp ht
      rw [(hkm q' hq' s hs).1, (hkm q' hq' s hs).2]
      exact ⟨not_blocked pf hk5 hI hp hcm ⟨s, hs, Or.inr (Or.inr (Or.inr rfl))⟩,
        not_blocked pf hk5 hI hp hcm ⟨s, hs, Or.inl rfl⟩⟩
  obtain ⟨Qn, save, hgs, hQ1, hQ2, hQ3, hQ4⟩ := groupSnps_good pf' hk5 hW hw hc acc.2 mNum mDen hg hne hdich
  rw [hlen'] at hgs
  have hQsub : ∀ q' ∈ Qn, q' ∈ mirrorP L P := fun q' hq' => ((hQ2 q').mp hq').1
  have hdisj : ∀ q' ∈ Qn, L - 1 - q' ∉ Called.map (·.1) := by
    intro q' hq' hcm
    have := ((hQ2 q').mp hq').2.2.2 (rcSeq s0) (List.mem_map.mpr ⟨s0, hs0, rfl⟩)
    rw [(hkm q' (hQsub q' hq') s0 hs0).1] at this
    exact this (hI.has _ hcm s0 hs0).2
  have hmapfst : (Qn.map (fun q' => (L - 1 - q', true))).map (·.1) = Qn.map (fun q' => L - 1 - q') := by
    rw [List.map_map]; rfl
  refine ⟨Called ++ Qn.map (fun q' => (L - 1 - q', true)), Qn.map (colT (rcFam S)), save, hgs,
    ⟨?_, ?_, ?_, ?_, ?_⟩, fun x hx => List.mem_append_left _ hx⟩
  · rw [List.map_append, hmapfst, List.nodup_append]
    refine ⟨hI.nd, ?_, ?_⟩
    · rw [List.Nodup, List.pairwise_map]
      refine hQ1.imp_of_mem ?_
      intro a b ha hb hab e
      apply hab
      have h1 := (hmir a (hQsub a ha)).2
      have h2 := (hmir b (hQsub b hb)).2
      rw [← h1, ← h2, e]
    · intro a ha b hb e
      obtain ⟨q', hq', rfl⟩ := List.mem_map.mp hb
      exact hdisj q' hq' (e ▸ ha)
  · intro x hx
    rcases List.mem_append.mp hx with h | h
    · exact hI.sub x h
    · obtain ⟨q', hq', rfl⟩ := List.mem_map.mp h
      exact (hmir q' (hQsub q' hq')).1
  · intro x hx
    rcases List.mem_append.mp hx with h | h
    · obtain ⟨q, hq, hb⟩ := hI.blk x h
      exact ⟨q, by rw [List.map_append]; exact List.mem_append_left _ hq, hb⟩
    · obtain ⟨q', hq', hb⟩ := hQ3 x h
      obtain ⟨hp, hpp⟩ := hmir q' (hQsub q' hq')
      refine ⟨L - 1 - q', ?_, ?_⟩
      · rw [List.map_append, hmapfst]
        exact List.mem_append_right _ (List.mem_map.mpr ⟨q', hq', rfl⟩)
      · rw [← blk_mirror pf hk5 hp, hpp]
        exact hb
  · intro q hq s hs
    rw [List.map_append, hmapfst, List.mem_append] at hq
    rcases hq with h | h
    · exact ⟨List.mem_append_left _ (hI.has q h s hs).1, List.mem_append_left _ (hI.has q h s hs).2⟩
    · obtain ⟨q', hq', rfl⟩ := List.mem_map.mp h
      obtain ⟨m1, m2⟩ := hQ4 q' hq' (rcSeq s) (List.mem_map.mpr ⟨s, hs, rfl⟩)
      rw [(hkm q' (hQsub q' hq') s hs).1] at m1
      rw [(hkm q' (hQsub q' hq') s hs).2] at m2
      exact ⟨List.mem_append_right _ m2, List.mem_append_right _ m1⟩
  · show acc.1 ++ Qn.map (colT (rcFam S)) = (Called ++ Qn.map (fun q' => (L - 1 - q', true))).map (colf S)
    rw [List.map_append, List.map_map, hI.cols]
    congr 1
    apply List.map_congr_left
    intro q' hq'
    obtain ⟨hp, hpp⟩ := hmir q' (hQsub q' hq')
    simp only [Function.comp, colf, if_true]
    rw [← colT_mirror pf hp, hpp]

end SkaModel.LOC
