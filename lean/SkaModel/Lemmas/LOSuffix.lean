/-
Specification proofs for `Skalo.commonSuffixLen` and `Skalo.extractMiddleBases`.
-/
import SkaModel.Impl.Skalo

namespace SkaModel.LOS
open SkaModel SkaModel.Skalo

/-! ### the fuelled loop -/

/-- all sequences agree with `first` at reversed index `j` -/
def Agree (seqs : List (List UInt8)) (first : List UInt8) (j : Nat) : Prop :=
  ∀ s ∈ seqs, s.reverse.getD j 0 = first.getD j 0

theorem all_iff_agree (seqs : List (List UInt8)) (first : List UInt8) (j : Nat) :
    (seqs.all fun s => s.reverse.getD j 0 == first.getD j 0) = true ↔ Agree seqs first j := by
  simp [Agree, List.all_eq_true]

theorem go_spec (seqs : List (List UInt8)) (minLen : Nat) (first : List UInt8) :
    ∀ (fuel n0 : Nat), n0 ≤ minLen → (∀ j, j < n0 → Agree seqs first j) →
      n0 ≤ commonSuffixLen.go seqs minLen first n0 fuel ∧
      commonSuffixLen.go seqs minLen first n0 fuel ≤ minLen ∧
      (∀ j, j < commonSuffixLen.go seqs minLen first n0 fuel → Agree seqs first j) ∧
      (commonSuffixLen.go seqs minLen first n0 fuel = n0 + fuel ∨
       commonSuffixLen.go seqs minLen first n0 fuel = minLen ∨
       (commonSuffixLen.go seqs minLen first n0 fuel < minLen ∧
        ¬ Agree seqs first (commonSuffixLen.go seqs minLen first n0 fuel))) := by
  intro fuel
  induction fuel with
  | zero =>
    intro n0 h0 hA
    rw [commonSuffixLen.go.eq_1]
    exact ⟨Nat.le_refl _, h0, hA, Or.inl rfl⟩
  | succ fuel ih =>
    intro n0 h0 hA
    rw [commonSuffixLen.go.eq_2]
    by_cases hlt : n0 < minLen
    · by_cases hag : Agree seqs first n0
      · have hc : (decide (n0 < minLen) && seqs.all fun s => s.reverse.getD n0 0 == first.getD n0 0) = true := by
          rw [Bool.and_eq_true]
          exact ⟨decide_eq_true hlt, (all_iff_agree seqs first n0).2 hag⟩
        rw [if_pos hc]
        have hA' : ∀ j, j < n0 + 1 → Agree seqs first j := by
          intro j hj
          by_cases hjn : j = n0
          · subst hjn; exact hag
          · exact hA j (by omega)
        obtain ⟨h1, h2, h3, h4⟩ := ih (n0 + 1) hlt hA'
        refine ⟨by omega, h2, h3, ?_⟩
        rcases h4 with h4 | h4 | h4
        · exact Or.inl (by omega)
        · exact Or.inr (Or.inl h4)
        · exact Or.inr (Or.inr h4)
      · have hc : ¬ (decide (n0 < minLen) && seqs.all fun s => s.reverse.getD n0 0 == first.getD n0 0) = true := by
          rw [Bool.and_eq_true]
          intro h
          exact hag ((all_iff_agree seqs first n0).1 h.2)
        rw [if_neg hc]
        exact ⟨Nat.le_refl _, h0, hA, Or.inr (Or.inr ⟨hlt, hag⟩)⟩
    · have hc : ¬ (decide (n0 < minLen) && seqs.all fun s => s.reverse.getD n0 0 == first.getD n0 0) = true := by
        rw [Bool.and_eq_true]
        intro h
        exact hlt (of_decide_eq_true h.1)
      rw [if_neg hc]
      exact ⟨Nat.le_refl _, h0, hA, Or.inr (Or.inl (by omega))⟩

/-! ### the minimum length -/

theorem foldl_min_le_acc (l : List Nat) : ∀ a, l.foldl min a ≤ a := by
  induction l with
  | nil => intro a; exact Nat.le_refl _
  | cons x xs ih =>
    intro a
    rw [List.foldl_cons]
    exact Nat.le_trans (ih _) (Nat.min_le_left _ _)

theorem foldl_min_le_mem (l : List Nat) : ∀ a, ∀ x ∈ l, l.foldl min a ≤ x := by
  induction l with
  | nil => intro a x hx; cases hx
  | cons y ys ih =>
    intro a x hx
    rw [List.foldl_cons]
    rcases List.mem_cons.1 hx with h | h
    · subst h
      exact Nat.le_trans (foldl_min_le_acc ys _) (Nat.min_le_right _ _)
    · exact ih _ x h

theorem foldl_min_attained (l : List Nat) : ∀ a, l.foldl min a = a ∨ l.foldl min a ∈ l := by
  induction l with
  | nil => intro a; exact Or.inl rfl
  | cons y ys ih =>
    intro a
    rw [List.foldl_cons]
    rcases ih (min a y) with h | h
    · rw [h]
      rcases Nat.le_total a y with hay | hay
      · rw [Nat.min_eq_left hay]; exact Or.inl rfl
      · rw [Nat.min_eq_right hay]; exact Or.inr (List.mem_cons_self)
    · exact Or.inr (List.mem_cons_of_mem _ h)

/-- the `minLen` of `commonSuffixLen` -/
def minLen (seqs : List (List UInt8)) : Nat :=
  (seqs.map List.length).foldl min ((seqs.headD []).length)

theorem headD_mem (seqs : List (List UInt8)) (hne : seqs ≠ []) : seqs.headD [] ∈ seqs := by
  cases seqs with
  | nil => exact absurd rfl hne
  | cons x xs => exact List.mem_cons_self

theorem minLen_le (seqs : List (List UInt8)) : ∀ s ∈ seqs, minLen seqs ≤ s.length := by
  intro s hs
  exact foldl_min_le_mem _ _ _ (List.mem_map_of_mem hs)

theorem minLen_attained (seqs : List (List UInt8)) (hne : seqs ≠ []) :
    ∃ s ∈ seqs, s.length = minLen seqs := by
  rcases foldl_min_attained (seqs.map List.length) ((seqs.headD []).length) with h | h
  · exact ⟨seqs.headD [], headD_mem seqs hne, h.symm⟩
  · obtain ⟨s, hs, hl⟩ := List.mem_map.1 h
    exact ⟨s, hs, hl⟩

theorem commonSuffixLen_eq (seqs : List (List UInt8)) :
    commonSuffixLen seqs = commonSuffixLen.go seqs (minLen seqs) (seqs.headD []).reverse 0 (minLen seqs) := rfl

/-! ### reversed indices and suffixes -/

theorem getD_reverse (s : List UInt8) (j : Nat) (hj : j < s.length) :
    s.reverse.getD j 0 = (s[s.length - 1 - j]?).getD 0 := by
  rw [List.getD_eq_getElem?_getD, List.getElem?_reverse hj]

theorem take_eq_of_getD (u v : List UInt8) (n : Nat) (hu : n ≤ u.length) (hv : n ≤ v.length)
    (h : ∀ j, j < n → u.getD j 0 = v.getD j 0) : u.take n = v.take n := by
  apply List.ext_getElem
  · rw [List.length_take, List.length_take, Nat.min_eq_left hu, Nat.min_eq_left hv]
  · intro i h1 h2
    rw [List.length_take] at h1
    have hin : i < n := Nat.lt_of_lt_of_le h1 (Nat.min_le_left _ _)
    have hiu : i < u.length := Nat.lt_of_lt_of_le hin hu
    have hiv : i < v.length := Nat.lt_of_lt_of_le hin hv
    rw [List.getElem_take, List.getElem_take]
    have := h i hin
    rw [List.getD_eq_getElem?_getD, List.getD_eq_getElem?_getD,
      List.getElem?_eq_getElem hiu, List.getElem?_eq_getElem hiv] at this
    exact this

theorem drop_eq_of_agree (s t : List UInt8) (n : Nat) (hs : n ≤ s.length) (ht : n ≤ t.length)
    (h : ∀ j, j < n → s.reverse.getD j 0 = t.reverse.getD j 0) :
    s.drop (s.length - n) = t.drop (t.length - n) := by
  have h1 := take_eq_of_getD s.reverse t.reverse n (by rw [List.length_reverse]; exact hs)
    (by rw [List.length_reverse]; exact ht) h
  rw [List.take_reverse, List.take_reverse] at h1
  exact List.reverse_inj.1 h1

theorem getElem?_of_drop_eq (s t : List UInt8) (m n : Nat) (hs : m ≤ s.length) (ht : m ≤ t.length)
    (hnm : n < m) (h : s.drop (s.length - m) = t.drop (t.length - m)) :
    s[s.length - 1 - n]? = t[t.length - 1 - n]? := by
  have h1 : (s.drop (s.length - m))[m - 1 - n]? = (t.drop (t.length - m))[m - 1 - n]? := by rw [h]
  rw [List.getElem?_drop, List.getElem?_drop] at h1
  have e1 : s.length - m + (m - 1 - n) = s.length - 1 - n := by omega
  have e2 : t.length - m + (m - 1 - n) = t.length - 1 - n := by omega
  rw [e1, e2] at h1
  exact h1

/-! ### `commonSuffixLen` -/

theorem commonSuffixLen_facts (seqs : List (List UInt8)) :
    commonSuffixLen seqs ≤ minLen seqs ∧
    (∀ j, j < commonSuffixLen seqs → Agree seqs (seqs.headD []).reverse j) ∧
    (commonSuffixLen seqs = minLen seqs ∨
      (commonSuffixLen seqs < minLen seqs ∧
        ¬ Agree seqs (seqs.headD []).reverse (commonSuffixLen seqs))) := by
  rw [commonSuffixLen_eq]
  obtain ⟨_, h2, h3, h4⟩ := go_spec seqs (minLen seqs) (seqs.headD []).reverse (minLen seqs) 0
    (Nat.zero_le _) (fun j hj => absurd hj (Nat.not_lt_zero j))
  refine ⟨h2, h3, ?_⟩
  rcases h4 with h4 | h4 | h4
  · rw [Nat.zero_add] at h4; exact Or.inl h4
  · exact Or.inl h4
  · exact Or.inr h4

theorem suffix_le (seqs : List (List UInt8)) : ∀ s ∈ seqs, commonSuffixLen seqs ≤ s.length :=
  fun s hs => Nat.le_trans (commonSuffixLen_facts seqs).1 (minLen_le seqs s hs)

theorem suffix_common (seqs : List (List UInt8)) :
    ∀ s ∈ seqs, ∀ t ∈ seqs,
      s.drop (s.length - commonSuffixLen seqs) = t.drop (t.length - commonSuffixLen seqs) := by
  intro s hs t ht
  apply drop_eq_of_agree s t _ (suffix_le seqs s hs) (suffix_le seqs t ht)
  intro j hj
  have hA := (commonSuffixLen_facts seqs).2.1 j hj
  rw [hA s hs, hA t ht]

theorem suffix_stop (seqs : List (List UInt8)) (hne : seqs ≠ []) :
    (∃ s ∈ seqs, s.length = commonSuffixLen seqs) ∨
    (∃ s ∈ seqs, ∃ t ∈ seqs, commonSuffixLen seqs < s.length ∧ commonSuffixLen seqs < t.length ∧
      s[s.length - 1 - commonSuffixLen seqs]? ≠ t[t.length - 1 - commonSuffixLen seqs]?) := by
  rcases (commonSuffixLen_facts seqs).2.2 with h | ⟨hlt, hna⟩
  · obtain ⟨s, hs, hl⟩ := minLen_attained seqs hne
    exact Or.inl ⟨s, hs, by rw [hl, h]⟩
  · right
    have hex : ∃ s ∈ seqs, s.reverse.getD (commonSuffixLen seqs) 0 ≠
        (seqs.headD []).reverse.getD (commonSuffixLen seqs) 0 := by
      apply Classical.byContradiction
      intro hcon
      apply hna
      intro s hs
      apply Classical.byContradiction
      intro hne'
      exact hcon ⟨s, hs, hne'⟩
    obtain ⟨s, hs, hd⟩ := hex
    have hh := headD_mem seqs hne
    have h1 : commonSuffixLen seqs < s.length := Nat.lt_of_lt_of_le hlt (minLen_le seqs s hs)
    have h2 : commonSuffixLen seqs < (seqs.headD []).length :=
      Nat.lt_of_lt_of_le hlt (minLen_le seqs _ hh)
    refine ⟨s, hs, seqs.headD [], hh, h1, h2, ?_⟩
    intro heq
    apply hd
    rw [getD_reverse s _ h1, getD_reverse _ _ h2, heq]

/-- `commonSuffixLen` is the length of the longest common suffix -/
theorem suffix_spec (seqs : List (List UInt8)) (hne : seqs ≠ []) :
    let n := commonSuffixLen seqs
    (∀ s ∈ seqs, n ≤ s.length) ∧
    (∀ s ∈ seqs, ∀ t ∈ seqs, s.drop (s.length - n) = t.drop (t.length - n)) ∧
    ((∃ s ∈ seqs, s.length = n) ∨
     (∃ s ∈ seqs, ∃ t ∈ seqs, n < s.length ∧ n < t.length ∧
        s[s.length - 1 - n]? ≠ t[t.length - 1 - n]?)) :=
  ⟨suffix_le seqs, suffix_common seqs, suffix_stop seqs hne⟩

/-- maximality: any common suffix length is at most `commonSuffixLen` -/
theorem suffix_max (seqs : List (List UInt8)) (hne : seqs ≠ []) (m : Nat)
    (hlen : ∀ s ∈ seqs, m ≤ s.length)
    (hsuf : ∀ s ∈ seqs, ∀ t ∈ seqs, s.drop (s.length - m) = t.drop (t.length - m)) :
    m ≤ commonSuffixLen seqs := by
  rcases suffix_stop seqs hne with ⟨s, hs, hl⟩ | ⟨s, hs, t, ht, _, _, hd⟩
  · rw [← hl]; exact hlen s hs
  · apply Classical.byContradiction
    intro hlt
    exact hd (getElem?_of_drop_eq s t m _ (hlen s hs) (hlen t ht) (by omega) (hsuf s hs t ht))

example : commonSuffixLen [[65,67,71],[84,67,71]] = 2 := by decide
example : commonSuffixLen [[65,67,71],[67,71]] = 2 := by decide
example : commonSuffixLen [[65,67,71]] = 3 := by decide
example : commonSuffixLen [[],[65]] = 0 := by decide
example : commonSuffixLen [[65,67],[71,84]] = 0 := by decide

/-! ### `extractMiddleBases` -/

/-- '-' (45) as a stored insert denotes the empty insert -/
def insOf (m : List UInt8) : List UInt8 := if m = [45] then [] else m

/-- the stored insert of a tail `t` (path minus first k-mer) for common suffix length `n` -/
def stored (n : Nat) (t : List UInt8) : List UInt8 :=
  if (t.take (t.length - n)).isEmpty then [45] else t.take (t.length - n)

theorem extract_eq (seqs : List (List UInt8)) (kGraph : Nat) :
    extractMiddleBases seqs kGraph =
      ((seqs.map (fun s => s.drop kGraph)).map
          (stored (commonSuffixLen (seqs.map (fun s => s.drop kGraph)))),
       (((seqs.map (fun s => s.drop kGraph)).headD []).drop
          (((seqs.map (fun s => s.drop kGraph)).headD []).length -
            commonSuffixLen (seqs.map (fun s => s.drop kGraph)))).take kGraph) := rfl

theorem insOf_stored (n : Nat) (t : List UInt8) (hdash : ∀ b ∈ t, b ≠ 45) :
    insOf (stored n t) = t.take (t.length - n) := by
  unfold stored
  cases hm : t.take (t.length - n) with
  | nil => simp [insOf]
  | cons a l =>
    have ha : a ∈ t := List.mem_of_mem_take (by rw [hm]; exact List.mem_cons_self)
    have hne : a ≠ 45 := hdash a ha
    have : ¬ (a :: l = [45]) := by
      intro h
      injection h with h1 _
      exact hne h1
    simp [insOf, this]

theorem extract_core (seqs : List (List UInt8)) (kGraph : Nat) (first : List UInt8) (hne : seqs ≠ [])
    (hfirst : ∀ s ∈ seqs, s.take kGraph = first)
    (hdash : ∀ s ∈ seqs, ∀ b ∈ s, b ≠ 45) :
    ∃ suf : List UInt8,
      suf.length = commonSuffixLen (seqs.map (fun s => s.drop kGraph)) ∧
      (extractMiddleBases seqs kGraph).2 = suf.take kGraph ∧
      ∀ i (hi : i < seqs.length),
        (extractMiddleBases seqs kGraph).1[i]? =
          some (stored (commonSuffixLen (seqs.map (fun s => s.drop kGraph))) (seqs[i].drop kGraph)) ∧
        seqs[i] = first ++
          insOf (stored (commonSuffixLen (seqs.map (fun s => s.drop kGraph))) (seqs[i].drop kGraph)) ++
          suf := by
  rw [extract_eq]
  generalize hred : seqs.map (fun s => s.drop kGraph) = reduced
  have hrne : reduced ≠ [] := by
    intro h
    rw [h] at hred
    exact hne (List.map_eq_nil_iff.1 hred)
  have hh := headD_mem reduced hrne
  refine ⟨(reduced.headD []).drop ((reduced.headD []).length - commonSuffixLen reduced), ?_, rfl, ?_⟩
  · rw [List.length_drop]
    have := suffix_le reduced _ hh
    omega
  · intro i hi
    have hsi : seqs[i] ∈ seqs := List.getElem_mem hi
    have hti : seqs[i].drop kGraph ∈ reduced := by
      rw [← hred]; exact List.mem_map_of_mem hsi
    refine ⟨?_, ?_⟩
    · show (reduced.map (stored (commonSuffixLen reduced)))[i]? = _
      rw [← hred, List.getElem?_map, List.getElem?_map, List.getElem?_eq_getElem hi]
      rfl
    · rw [insOf_stored _ _ (fun b hb => hdash _ hsi b (List.mem_of_mem_drop hb)),
        ← suffix_common reduced _ hti _ hh, List.append_assoc, List.take_append_drop,
        ← hfirst _ hsi, List.take_append_drop]

theorem extract_spec (seqs : List (List UInt8)) (kGraph : Nat) (first : List UInt8) (hne : seqs ≠ [])
    (hfirst : ∀ s ∈ seqs, s.take kGraph = first)
    (hdash : ∀ s ∈ seqs, ∀ b ∈ s, b ≠ 45) :
    let n := commonSuffixLen (seqs.map (fun s => s.drop kGraph))
    let r := extractMiddleBases seqs kGraph
    r.1.length = seqs.length ∧
    (∃ suf : List UInt8, suf.length = n ∧ r.2 = suf.take kGraph ∧
       ∀ i (hi : i < seqs.length), ∃ m, r.1[i]? = some m ∧ seqs[i] = first ++ insOf m ++ suf) ∧
    (n ≤ kGraph → r.2.length = n ∧
       ∀ i (hi : i < seqs.length), ∃ m, r.1[i]? = some m ∧ seqs[i] = first ++ insOf m ++ r.2) ∧
    (kGraph < n → r.2.length = kGraph) ∧
    (∀ i j (hi : i < seqs.length) (hj : j < seqs.length), seqs[i] ≠ seqs[j] →
       r.1[i]? ≠ r.1[j]? ∧ (r.1[i]?).map insOf ≠ (r.1[j]?).map insOf) := by
  intro n r
  obtain ⟨suf, hlen, h2, hall⟩ := extract_core seqs kGraph first hne hfirst hdash
  refine ⟨?_, ⟨suf, hlen, h2, fun i hi => ⟨_, hall i hi⟩⟩, ?_, ?_, ?_⟩
  · show (extractMiddleBases seqs kGraph).1.length = seqs.length
    rw [extract_eq, List.length_map, List.length_map]
  · intro hn
    have hsuf : (extractMiddleBases seqs kGraph).2 = suf := by
      rw [h2]; exact List.take_of_length_le (by rw [hlen]; exact hn)
    refine ⟨?_, ?_⟩
    · show (extractMiddleBases seqs kGraph).2.length = _
      rw [hsuf]; exact hlen
    · intro i hi
      refine ⟨_, (hall i hi).1, ?_⟩
      show seqs[i] = first ++ _ ++ (extractMiddleBases seqs kGraph).2
      rw [hsuf]; exact (hall i hi).2
  · intro hn
    show (extractMiddleBases seqs kGraph).2.length = kGraph
    rw [h2, List.length_take, hlen]
    exact Nat.min_eq_left (Nat.le_of_lt hn)
  · intro i j hi hj hij
    have hins : insOf (stored n (seqs[i].drop kGraph)) ≠ insOf (stored n (seqs[j].drop kGraph)) := by
      intro heq
      apply hij
      rw [(hall i hi).2, (hall j hj).2]
      show first ++ insOf (stored n _) ++ suf = first ++ insOf (stored n _) ++ suf
      rw [heq]
    show (extractMiddleBases seqs kGraph).1[i]? ≠ (extractMiddleBases seqs kGraph).1[j]? ∧
      ((extractMiddleBases seqs kGraph).1[i]?).map insOf ≠ ((extractMiddleBases seqs kGraph).1[j]?).map insOf
    rw [(hall i hi).1, (hall j hj).1]
    refine ⟨?_, ?_⟩
    · intro h
      injection h with h
      exact hins (by show insOf (stored n _) = insOf (stored n _); rw [h])
    · intro h
      rw [Option.map_some, Option.map_some] at h
      injection h with h
      exact hins h

-- non-vacuity: plain insert, empty insert stored as '-', truncation (common suffix longer than kGraph)
example : extractMiddleBases [[65,67,71,84,65,67],[65,67,84,84,65,67]] 2 = ([[71], [84]], [84,65]) := by decide
example : extractMiddleBases [[65,67,65,67],[65,67,84,84,65,67]] 2 = ([[45], [84,84]], [65,67]) := by decide
example : extractMiddleBases [[65,67,71,65,67,71],[65,67,84,65,67,71]] 2 = ([[71], [84]], [65,67]) := by decide
example : commonSuffixLen ([[65,67,71,65,67,71],[65,67,84,65,67,71]].map (fun s => s.drop 2)) = 3 := by decide
example : extractMiddleBases [[65,67,71]] 2 = ([[45]], [71]) := by decide

-- `hdash` is necessary: a literal '-' insert collides with the empty-insert marker
-- (two different paths, identical stored inserts)
example : (extractMiddleBases [[65,67,45,71],[65,67,71]] 2).1 = [[45], [45]] := by decide

end SkaModel.LOS
