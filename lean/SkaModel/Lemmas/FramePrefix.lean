/-
Behaviour of the frame decoder on a prefix of a stream it accepts.
-/
import SkaModel.Lemmas.FrameStep

namespace SkaModel.FR

open SkaModel

theorem step_nil (decomp : List UInt8 → Option (List UInt8)) (seen : Bool) :
    step decomp seen [] = .done := rfl

theorem step_cons4 (decomp : List UInt8 → Option (List UInt8)) (seen : Bool) (a b c d : UInt8)
    (body : List UInt8) :
    step decomp seen (a :: b :: c :: d :: body) = stepBody decomp seen a.toNat (leNat [b, c, d]) body := by
  simp [step]
  intro h; omega

theorem step_short (decomp : List UInt8 → Option (List UInt8)) (seen : Bool) (p : List UInt8)
    (h0 : p ≠ []) (h : p.length < 4) : step decomp seen p = .err .eof := by
  unfold step
  have : p.isEmpty = false := by cases p <;> simp_all
  simp [this, h]

/-! ### one chunk, cut short or not -/

theorem stepSkip_append {len : Nat} {body t rest out : List UInt8}
    (h : stepSkip len (body ++ t) = .next rest out) :
    (stepSkip len body = .err .eof) ∨ (∃ p', rest = p' ++ t ∧ stepSkip len body = .next p' out) := by
  by_cases hl : body.length < len
  · left; simp [stepSkip, hl]
  · right
    have h' := stepSkip_next h
    refine ⟨body.drop len, ?_, ?_⟩
    · rw [h'.1, List.drop_append_of_le_length (by omega)]
    · rw [h'.2.2]; simp [stepSkip, hl]

theorem stepIdent_append {len : Nat} {body t rest out : List UInt8}
    (h : stepIdent len (body ++ t) = .next rest out) :
    (stepIdent len body = .err .eof) ∨ (∃ p', rest = p' ++ t ∧ stepIdent len body = .next p' out) := by
  have h' := stepIdent_next h
  obtain ⟨h1, h2, h3, h4, h5⟩ := h'
  subst h4
  by_cases hl : body.length < 6
  · left; simp [stepIdent, hl]
  · right
    refine ⟨body.drop 6, ?_, ?_⟩
    · rw [h1, List.drop_append_of_le_length (by omega)]
    · rw [List.take_append_of_le_length (by omega)] at h5
      rw [h3]; simp [stepIdent, hl, h5]

theorem stepData_append {decomp : List UInt8 → Option (List UInt8)} {ty len : Nat}
    {body t rest out : List UInt8}
    (h : stepData decomp ty len (body ++ t) = .next rest out) :
    (stepData decomp ty len body = .err .eof) ∨
      (∃ p', rest = p' ++ t ∧ stepData decomp ty len body = .next p' out) := by
  have h' := stepData_next h
  by_cases hl : body.length < len
  · left
    unfold stepData at h ⊢
    split at h
    · cases h
    rename_i hlen
    rw [if_neg hlen]
    split
    · rfl
    rename_i hb4
    split at h
    · cases h
    split at h
    · rename_i hty
      rw [if_pos hty]
      split at h
      · cases h
      rename_i hmb
      rw [if_neg hmb]
      have : (body.drop 4).length < len - 4 := by rw [List.length_drop]; omega
      rw [if_pos this]
    · rename_i hty
      rw [if_neg hty]
      have : (body.drop 4).length < len - 4 := by rw [List.length_drop]; omega
      rw [if_pos this]
  · right
    have hge : len ≤ body.length := by omega
    refine ⟨body.drop len, ?_, ?_⟩
    · rw [h'.1, List.drop_append_of_le_length hge]
    · unfold stepData at h ⊢
      split at h
      · cases h
      rename_i hlen
      rw [if_neg hlen]
      have hb4 : ¬ body.length < 4 := by omega
      rw [if_neg hb4]
      have e1 : (body ++ t).take 4 = body.take 4 := List.take_append_of_le_length (by omega)
      have e2 : ((body ++ t).drop 4).take (len - 4) = (body.drop 4).take (len - 4) := by
        rw [List.drop_append_of_le_length (by omega)]
        exact List.take_append_of_le_length (by rw [List.length_drop]; omega)
      have e3 : ¬ (body.drop 4).length < len - 4 := by rw [List.length_drop]; omega
      have e4 : (body.drop 4).drop (len - 4) = body.drop len := by
        rw [List.drop_drop]; congr 1; omega
      rw [e1, e2] at h
      rw [e4, if_neg e3]
      split at h
      · cases h
      split at h
      · rename_i hty
        rw [if_pos hty]
        split at h
        · cases h
        rename_i hmb
        rw [if_neg hmb]
        split at h
        · cases h
        split at h
        · cases h
        rename_i hcrc
        rw [if_neg hcrc]
        injection h with _ ho
        rw [ho]
      · rename_i hty
        rw [if_neg hty]
        split at h
        · cases h
        split at h
        · cases h
        · rename_i o hd
          rw [if_neg e3]
          split at h
          · cases h
          rename_i hcrc
          rw [if_neg hcrc]
          injection h with _ ho
          rw [ho]

theorem stepBody_append {decomp : List UInt8 → Option (List UInt8)} {seen : Bool} {ty len : Nat}
    {body t rest out : List UInt8}
    (h : stepBody decomp seen ty len (body ++ t) = .next rest out) :
    (stepBody decomp seen ty len body = .err .eof) ∨
      (∃ p', rest = p' ++ t ∧ stepBody decomp seen ty len body = .next p' out) := by
  unfold stepBody at h ⊢
  split at h
  · cases h
  rename_i c1; rw [if_neg c1]
  split at h
  · cases h
  rename_i c2; rw [if_neg c2]
  split at h
  · cases h
  rename_i c3; rw [if_neg c3]
  split at h
  · rename_i c4; rw [if_pos c4]; exact stepSkip_append h
  rename_i c4; rw [if_neg c4]
  split at h
  · rename_i c5; rw [if_pos c5]; exact stepIdent_append h
  rename_i c5; rw [if_neg c5]
  exact stepData_append h

/-- a successful step, seen from a prefix `p` of the input `p ++ t`: the prefix is empty, or it is
cut inside the chunk (error), or it contains the whole chunk -/
theorem step_append {decomp : List UInt8 → Option (List UInt8)} {seen : Bool}
    {p t rest out : List UInt8}
    (h : step decomp seen (p ++ t) = .next rest out) :
    p = [] ∨ (step decomp seen p = .err .eof) ∨
      (∃ p', rest = p' ++ t ∧ step decomp seen p = .next p' out) := by
  by_cases h0 : p = []
  · exact .inl h0
  right
  by_cases h4 : p.length < 4
  · exact .inl (step_short decomp seen p h0 h4)
  match p, h4 with
  | a :: b :: c :: d :: body, _ =>
    simp only [List.cons_append] at h
    rw [step_cons4] at h ⊢
    exact stepBody_append h
  | [], h4 => simp at h4
  | [_], h4 => simp at h4
  | [_, _], h4 => simp at h4
  | [_, _, _], h4 => simp at h4

theorem stepSkip_ne_done (len : Nat) (body : List UInt8) : stepSkip len body ≠ .done := by
  intro h; unfold stepSkip at h
  split at h <;> cases h

theorem stepIdent_ne_done (len : Nat) (body : List UInt8) : stepIdent len body ≠ .done := by
  intro h; unfold stepIdent at h
  split at h
  · cases h
  split at h
  · cases h
  split at h <;> cases h

theorem stepData_ne_done (decomp : List UInt8 → Option (List UInt8)) (ty len : Nat) (body : List UInt8) :
    stepData decomp ty len body ≠ .done := by
  intro h; unfold stepData at h
  split at h
  · cases h
  split at h
  · cases h
  split at h
  · split at h
    · cases h
    split at h
    · cases h
    split at h <;> cases h
  · split at h
    · cases h
    split at h
    · cases h
    · split at h <;> cases h

theorem stepBody_ne_done (decomp : List UInt8 → Option (List UInt8)) (seen : Bool) (ty len : Nat)
    (body : List UInt8) : stepBody decomp seen ty len body ≠ .done := by
  intro h; unfold stepBody at h
  split at h
  · cases h
  split at h
  · cases h
  split at h
  · cases h
  split at h
  · exact stepSkip_ne_done _ _ h
  split at h
  · exact stepIdent_ne_done _ _ h
  · exact stepData_ne_done _ _ _ _ h

theorem step_done_iff {decomp : List UInt8 → Option (List UInt8)} {seen : Bool} {input : List UInt8} :
    step decomp seen input = .done ↔ input = [] := by
  constructor
  · intro h
    cases input with
    | nil => rfl
    | cons a l =>
      exfalso
      by_cases h4 : (a :: l).length < 4
      · rw [step_short decomp seen _ (by simp) h4] at h; cases h
      · unfold step at h
        rw [if_neg (by simp), if_neg h4] at h
        exact stepBody_ne_done _ _ _ _ _ h
  · intro h; subst h; rfl

theorem run_ok_inv {decomp : List UInt8 → Option (List UInt8)} {seen : Bool} {input acc bytes : List UInt8}
    (h : run decomp seen input acc = .ok bytes) :
    ∃ b, run decomp seen input [] = .ok b ∧ bytes = acc ++ b := by
  rw [run_acc'] at h
  cases hr : run decomp seen input [] with
  | error e => rw [hr] at h; cases h
  | ok b =>
    rw [hr] at h
    refine ⟨b, rfl, ?_⟩
    have : Except.ok (acc ++ b) = (Except.ok bytes : Except FrameErr _) := h
    injection this with this
    exact this.symm

/-- the decoder on a prefix `p` of an accepted stream `p ++ t`: an error, or the bytes of the
whole chunks inside `p`, the remaining bytes being those the decoder gets from `t` alone -/
theorem run_append (decomp : List UInt8 → Option (List UInt8)) :
    ∀ (n : Nat) (seen : Bool) (p t bytes : List UInt8), p.length ≤ n →
      run decomp seen (p ++ t) [] = .ok bytes →
      (run decomp seen p [] = .error .eof) ∨
        (∃ b1 b2, run decomp seen p [] = .ok b1 ∧
          run decomp (seen || !p.isEmpty) t [] = .ok b2 ∧ bytes = b1 ++ b2) := by
  intro n
  induction n with
  | zero =>
    intro seen p t bytes hn h
    have : p = [] := List.eq_nil_of_length_eq_zero (by omega)
    subst this
    right
    exact ⟨[], bytes, run_done [] (step_nil _ _), by simpa using h, rfl⟩
  | succ n ih =>
    intro seen p t bytes hn h
    by_cases h0 : p = []
    · subst h0
      right
      exact ⟨[], bytes, run_done [] (step_nil _ _), by simpa using h, rfl⟩
    cases hs : step decomp seen (p ++ t) with
    | done =>
      have := step_done_iff.mp hs
      simp [h0] at this
    | err e => rw [run_err [] hs] at h; cases h
    | next rest out =>
      rw [run_next [] hs] at h
      obtain ⟨bytes0, hr0, hb0⟩ := run_ok_inv h
      rcases step_append hs with hp | he | ⟨p', hrest, hp'⟩
      · exact absurd hp h0
      · left; exact run_err [] he
      · subst hrest
        have hlen : p'.length < p.length := step_next_length hp'
        rw [run_next [] hp']
        have hne : (seen || !p.isEmpty) = true := by
          cases p with
          | nil => exact absurd rfl h0
          | cons _ _ => simp
        rw [hne]
        rcases ih true p' t bytes0 (by omega) hr0 with he | ⟨b1, b2, h1, h2, h3⟩
        · left; exact run_error_acc _ he
        · right
          refine ⟨([] ++ out) ++ b1, b2, run_ok_acc h1, ?_, ?_⟩
          · have : (true || !p'.isEmpty) = true := rfl
            rw [this] at h2; exact h2
          · rw [hb0, h3]; simp

/-- a tail that contributes no data consists of chunks without data -/
theorem run_nil_step {decomp : List UInt8 → Option (List UInt8)} {seen : Bool} {t rest out : List UInt8}
    (h : run decomp seen t [] = .ok []) (hs : step decomp seen t = .next rest out) :
    out = [] ∧ run decomp true rest [] = .ok [] := by
  rw [run_next [] hs] at h
  obtain ⟨b, hb, he⟩ := run_ok_inv h
  have : out = [] ∧ b = [] := by
    have := congrArg List.length he
    simp at this
    exact ⟨List.eq_nil_of_length_eq_zero (by omega), List.eq_nil_of_length_eq_zero (by omega)⟩
  rw [this.2] at hb
  exact ⟨this.1, hb⟩

end SkaModel.FR
