/-
C12 helper: consequences of the occurrence-count specification (`specRun`), and the
no-false-negative theorem that holds without the `NoFP` hypothesis.
-/
import SkaModel.Lemmas.KFRun

namespace SkaModel.KF

open SkaModel SkaModel.KmerFilter

/-! ### counting occurrences in lists -/

/-- the `(n+1)`-th occurrence exists when there are more than `n` occurrences -/
theorem exists_nth_occ {α : Type} [BEq α] [LawfulBEq α] (h : α) (hs : List α) (n : Nat)
    (hc : n + 1 ≤ hs.count h) : ∃ i, hs[i]? = some h ∧ (hs.take i).count h = n := by
  induction hs generalizing n with
  | nil => simp at hc
  | cons x xs ih =>
    rw [List.count_cons] at hc
    by_cases hx : x = h
    · subst hx
      cases n with
      | zero => exact ⟨0, by simp, by simp⟩
      | succ n =>
        simp only [beq_self_eq_true, ↓reduceIte] at hc
        obtain ⟨i, hi, hn⟩ := ih n (by omega)
        exact ⟨i + 1, by simpa using hi, by simp [List.take_succ_cons, hn]⟩
    · have hb : (x == h) = false := by simpa using hx
      simp only [hb, Bool.false_eq_true, ↓reduceIte, Nat.add_zero] at hc
      obtain ⟨i, hi, hn⟩ := ih n hc
      exact ⟨i + 1, by simpa using hi, by simp [List.take_succ_cons, hn, List.count_cons, hb]⟩

theorem count_take_lt {α : Type} [BEq α] [LawfulBEq α] (h : α) (hs : List α) (i : Nat)
    (hi : hs[i]? = some h) : (hs.take i).count h + 1 ≤ hs.count h := by
  induction hs generalizing i with
  | nil => simp at hi
  | cons x xs ih =>
    cases i with
    | zero =>
      simp only [List.getElem?_cons_zero, Option.some.injEq] at hi
      subst hi; simp
    | succ i =>
      simp only [List.getElem?_cons_succ] at hi
      have := ih i hi
      simp only [List.take_succ_cons, List.count_cons]
      omega

theorem count_take_lt_take {α : Type} [BEq α] [LawfulBEq α] (h : α) (hs : List α) (i j : Nat)
    (hij : i < j) (hi : hs[i]? = some h) : (hs.take i).count h + 1 ≤ (hs.take j).count h := by
  have h1 : (hs.take j)[i]? = some h := by
    rw [List.getElem?_take]; simp [hij, hi]
  have := count_take_lt h (hs.take j) i h1
  rw [List.take_take] at this
  rwa [Nat.min_eq_left (Nat.le_of_lt hij)] at this

/-! ### `passSpec` -/

theorem passSpec_lower (m n : Nat) (h : passSpec m n = true) : max 1 m ≤ n + 1 := by
  unfold passSpec at h
  split at h
  · omega
  · split at h
    · simp only [decide_eq_true_eq] at h; omega
    · simp only [decide_eq_true_eq] at h; omega

theorem passSpec_at (m : Nat) (hm : m ≤ 65535) : passSpec m (max 1 m - 1) = true := by
  unfold passSpec
  split
  · rfl
  · split
    · simp only [decide_eq_true_eq]; omega
    · simp only [decide_eq_true_eq]; omega

theorem passSpec_le_one (m n : Nat) (hm : m ≤ 1) : passSpec m n = true := by
  simp [passSpec, hm]

theorem passSpec_two (n : Nat) : passSpec 2 n = decide (1 ≤ n) := by
  simp [passSpec]

/-- for `3 ≤ m < 65535` an observation passes iff it is exactly the `m`-th of its hash -/
theorem passSpec_ge_three (m n : Nat) (h3 : 3 ≤ m) (hm : m < 65535) :
    passSpec m n = decide (n + 1 = m) := by
  unfold passSpec
  have h1 : ¬ m ≤ 1 := by omega
  have h2 : ¬ m = 2 := by omega
  simp only [h1, h2, ↓reduceIte]
  apply Bool.eq_iff_iff.2
  simp only [decide_eq_true_eq]
  omega

/-- `m = 65535`: the saturated count keeps comparing equal, so every occurrence from the
65535-th on passes -/
theorem passSpec_sat (n : Nat) : passSpec 65535 n = decide (65535 ≤ n + 1) := by
  unfold passSpec
  simp only [show ¬ (65535 ≤ 1) by omega, show ¬ (65535 = 2) by omega, ↓reduceIte]
  apply Bool.eq_iff_iff.2
  simp only [decide_eq_true_eq]
  omega

/-- above the `u16` range nothing ever passes -/
theorem passSpec_above (m n : Nat) (hm : 65535 < m) : passSpec m n = false := by
  unfold passSpec
  have h1 : ¬ m ≤ 1 := by omega
  have h2 : ¬ m = 2 := by omega
  simp only [h1, h2, ↓reduceIte, decide_eq_false_iff_not]
  omega

/-! ### the specification keeps exactly the elements with enough occurrences -/

/-- some observation of `h` passes -/
def PassesIn {α : Type} (h : α) (hs : List α) (flags : List Bool) : Prop :=
  ∃ i : Nat, hs[i]? = some h ∧ flags[i]? = some true

theorem spec_exact {α : Type} [BEq α] [LawfulBEq α] (m : Nat) (hm : m ≤ 65535) (h : α)
    (hs : List α) : PassesIn h hs (specRun m [] hs) ↔ max 1 m ≤ hs.count h := by
  unfold PassesIn
  constructor
  · rintro ⟨i, hi, hp⟩
    rw [specRun_getElem?, hi] at hp
    simp only [List.count_nil, Nat.zero_add, Option.map_some, Option.some.injEq] at hp
    have := passSpec_lower _ _ hp
    have := count_take_lt h hs i hi
    omega
  · intro hc
    obtain ⟨i, hi, hn⟩ := exists_nth_occ h hs (max 1 m - 1) (by omega)
    refine ⟨i, hi, ?_⟩
    rw [specRun_getElem?, hi]
    simp only [List.count_nil, Nat.zero_add, Option.map_some, Option.some.injEq, hn]
    exact passSpec_at m hm

/-- for `3 ≤ m < 65535` the passing observation of a hash is unique -/
theorem spec_unique {α : Type} [BEq α] [LawfulBEq α] (m : Nat) (h3 : 3 ≤ m) (hm : m < 65535)
    (h : α) (hs : List α) (i j : Nat)
    (hi : hs[i]? = some h) (hj : hs[j]? = some h)
    (pi : (specRun m [] hs)[i]? = some true) (pj : (specRun m [] hs)[j]? = some true) :
    i = j := by
  rw [specRun_getElem?, hi] at pi
  rw [specRun_getElem?, hj] at pj
  simp only [List.count_nil, Nat.zero_add, Option.map_some, Option.some.injEq,
    passSpec_ge_three m _ h3 hm, decide_eq_true_eq] at pi pj
  rcases Nat.lt_trichotomy i j with hlt | heq | hgt
  · have := count_take_lt_take h hs i j hlt hi; omega
  · exact heq
  · have := count_take_lt_take h hs j i hgt hj; omega

/-! ### no false negatives, without `NoFP` -/

/-- weak invariant (no hypothesis on Bloom false positives): observed hashes are in the Bloom
filter and the table value is at least the saturated number of occurrences -/
def InvLB (f : KmerFilter) (pre : List Nat) : Prop :=
  (∀ x ∈ pre, BloomHas f x) ∧ ∀ x, 1 ≤ val f x ∧ min (pre.count x) 65535 ≤ val f x

theorem invLB_start (f : KmerFilter) (hc : f.counts = {}) : InvLB f [] := by
  refine ⟨fun x hx => by simp at hx, fun x => ?_⟩
  simp [val, hc]

theorem invLB_step (f : KmerFilter) (pre : List Nat) (h : Nat) (hm : 3 ≤ f.minCount)
    (hinv : InvLB f pre) : InvLB (f.filter h).1 (h :: pre) := by
  obtain ⟨hB, hC⟩ := hinv
  refine ⟨?_, ?_⟩
  · intro x hx
    rcases List.mem_cons.1 hx with rfl | hx
    · exact bloomHas_filter_self f x (by omega)
    · exact bloomHas_filter f x h (hB x hx)
  · intro x
    rw [val_filter, List.count_cons]
    have hCx := hC x
    have hCh := hC h
    by_cases hx : h = x
    · subst hx
      simp only [beq_self_eq_true, ↓reduceIte, and_true, hm, true_and]
      by_cases hb : BloomHas f h
      · simp only [hb, ↓reduceIte]; omega
      · have hz : pre.count h = 0 := by
          apply List.count_eq_zero.2
          intro hmem; exact hb (hB h hmem)
        simp only [hb, ↓reduceIte]; omega
    · have : (h == x) = false := by simpa using hx
      simp only [hx, and_false, ↓reduceIte, this, Bool.false_eq_true, Nat.add_zero]
      exact hCx

theorem invLB_run (hs : List Nat) (f : KmerFilter) (pre : List Nat) (hm : 3 ≤ f.minCount)
    (hinv : InvLB f pre) : InvLB (runFilter f hs).1 (hs.reverse ++ pre) := by
  induction hs generalizing f pre with
  | nil => simpa using hinv
  | cons h hs ih =>
    have := ih (f.filter h).1 (h :: pre) (by simpa using hm) (invLB_step f pre h hm hinv)
    simpa using this

/-- the table value only moves in unit steps, and each step is compared with `minCount`:
if it starts below `minCount` and ends at or above it, some observation of `h` passed -/
theorem crossing (hs : List Nat) (f : KmerFilter) (h : Nat) (hm : 3 ≤ f.minCount)
    (hlo : val f h < f.minCount) (hhi : f.minCount ≤ val (runFilter f hs).1 h) :
    PassesIn h hs (runFilter f hs).2 := by
  induction hs generalizing f with
  | nil => simp at hhi; omega
  | cons x xs ih =>
    simp only [runFilter_cons] at hhi ⊢
    by_cases hp : x = h ∧ (f.filter x).2 = true
    · exact ⟨0, by simp [hp.1], by simp [hp.2]⟩
    · have hlo' : val (f.filter x).1 h < (f.filter x).1.minCount := by
        rw [filter_minCount, val_filter]
        split
        · rename_i hc
          obtain ⟨_, hb, hx⟩ := hc
          have hne : ¬ (f.filter x).2 = true := fun h' => hp ⟨hx, h'⟩
          rw [filter_snd] at hne
          have h1 : ¬ f.minCount ≤ 1 := by omega
          have h2 : ¬ f.minCount = 2 := by omega
          simp only [h1, h2, ↓reduceIte, hb, decide_true, Bool.true_and, beq_iff_eq,
            newCount_eq] at hne
          subst hx
          omega
        · exact hlo
      obtain ⟨i, hi, hpi⟩ := ih (f.filter x).1 (by simpa using hm) hlo' (by simpa using hhi)
      exact ⟨i + 1, by simpa using hi, by simpa using hpi⟩

/-- **No false negatives (count table, `minCount ≥ 3`).** Empty count table, arbitrary Bloom
content, arbitrary hash list, no `NoFP` hypothesis: a hash occurring at least `minCount`
times passes at least once. -/
theorem nofn_ge_three (f : KmerFilter) (hc : f.counts = {}) (hm : 3 ≤ f.minCount)
    (hmax : f.minCount ≤ 65535) (h : Nat) (hs : List Nat) (hocc : f.minCount ≤ hs.count h) :
    PassesIn h hs (runFilter f hs).2 := by
  apply crossing hs f h hm
  · simp only [val, hc]
    show ((∅ : Std.HashMap Nat Nat).get? h).getD 1 < _
    simp; omega
  · have := (invLB_run hs f [] hm (invLB_start f hc)).2 h
    simp only [List.append_nil, List.count_reverse] at this
    omega

/-- `minCount = 2`: every observation whose hash occurred before passes (any Bloom content) -/
theorem two_pass (hs : List Nat) (f : KmerFilter) (hm : f.minCount = 2) (i : Nat) (h : Nat)
    (hi : hs[i]? = some h) (hprev : h ∈ hs.take i ∨ BloomHas f h) :
    (runFilter f hs).2[i]? = some true := by
  induction hs generalizing f i with
  | nil => simp at hi
  | cons x xs ih =>
    cases i with
    | zero =>
      simp only [List.getElem?_cons_zero, Option.some.injEq] at hi
      subst hi
      simp only [List.take_zero, List.not_mem_nil, false_or] at hprev
      simp [filter_snd, hm, hprev]
    | succ i =>
      simp only [List.getElem?_cons_succ] at hi
      simp only [runFilter_cons, List.getElem?_cons_succ]
      apply ih (f.filter x).1 (by simpa using hm) i hi
      simp only [List.take_succ_cons, List.mem_cons] at hprev
      rcases hprev with (rfl | hmem) | hb
      · exact Or.inr (bloomHas_filter_self f h (by omega))
      · exact Or.inl hmem
      · exact Or.inr (bloomHas_filter f h x hb)

theorem nofn_two (f : KmerFilter) (hm : f.minCount = 2) (h : Nat) (hs : List Nat)
    (hocc : 2 ≤ hs.count h) : PassesIn h hs (runFilter f hs).2 := by
  obtain ⟨i, hi, hn⟩ := exists_nth_occ h hs 1 hocc
  refine ⟨i, hi, two_pass hs f hm i h hi (Or.inl ?_)⟩
  apply List.count_pos_iff.1
  omega

/-! ### where the pass happens (without `NoFP`) -/

/-- upper bound: a Bloom false positive can start the count at most one occurrence early -/
def InvUB (f : KmerFilter) (pre : List Nat) : Prop :=
  ∀ x, val f x ≤ min (pre.count x + 1) 65535

theorem invUB_start (f : KmerFilter) (hc : f.counts = {}) : InvUB f [] := by
  intro x
  simp [val, hc]

theorem invUB_step (f : KmerFilter) (pre : List Nat) (h : Nat)
    (hinv : InvUB f pre) : InvUB (f.filter h).1 (h :: pre) := by
  intro x
  rw [val_filter, List.count_cons]
  have hCx := hinv x
  have hCh := hinv h
  by_cases hx : h = x
  · subst hx
    simp only [beq_self_eq_true, ↓reduceIte, and_true]
    split <;> omega
  · have : (h == x) = false := by simpa using hx
    simp only [hx, and_false, ↓reduceIte, this, Bool.false_eq_true, Nat.add_zero]
    exact hCx

theorem invUB_run (hs : List Nat) (f : KmerFilter) (pre : List Nat)
    (hinv : InvUB f pre) : InvUB (runFilter f hs).1 (hs.reverse ++ pre) := by
  induction hs generalizing f pre with
  | nil => simpa using hinv
  | cons h hs ih =>
    have := ih (f.filter h).1 (h :: pre) (invUB_step f pre h hinv)
    simpa using this

/-- the `i`-th flag is the `filter` result in the state reached after the first `i` hashes -/
theorem runFilter_getElem? (hs : List Nat) (f : KmerFilter) (i : Nat) (h : Nat)
    (hi : hs[i]? = some h) :
    (runFilter f hs).2[i]? = some ((runFilter f (hs.take i)).1.filter h).2 := by
  induction hs generalizing f i with
  | nil => simp at hi
  | cons x xs ih =>
    cases i with
    | zero =>
      simp only [List.getElem?_cons_zero, Option.some.injEq] at hi
      subst hi; simp
    | succ i =>
      simp only [List.getElem?_cons_succ] at hi
      simp only [runFilter_cons, List.getElem?_cons_succ, List.take_succ_cons]
      exact ih _ i hi

/-- **Position of the pass (no `NoFP`).** Empty count table, `3 ≤ minCount < 65535`: an
observation can only pass as the `minCount`-th or — after a Bloom false positive at the first
occurrence — the `(minCount−1)`-th occurrence of its hash. -/
theorem pass_position (f : KmerFilter) (hc : f.counts = {}) (hm : 3 ≤ f.minCount)
    (hmax : f.minCount < 65535) (hs : List Nat) (i : Nat) (h : Nat) (hi : hs[i]? = some h)
    (hp : (runFilter f hs).2[i]? = some true) :
    (hs.take i).count h + 1 = f.minCount ∨ (hs.take i).count h + 2 = f.minCount := by
  rw [runFilter_getElem? hs f i h hi] at hp
  simp only [Option.some.injEq] at hp
  rw [filter_snd] at hp
  have h1 : ¬ f.minCount ≤ 1 := by omega
  have h2 : ¬ f.minCount = 2 := by omega
  simp only [runFilter_minCount, h1, h2, ↓reduceIte, Bool.and_eq_true, decide_eq_true_eq,
    beq_iff_eq, newCount_eq] at hp
  have hub := invUB_run (hs.take i) f [] (invUB_start f hc) h
  have hlb := (invLB_run (hs.take i) f [] hm (invLB_start f hc)).2 h
  simp only [List.append_nil, List.count_reverse] at hub hlb
  omega

end SkaModel.KF
