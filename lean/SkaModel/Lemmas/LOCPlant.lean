/-
C17 completeness — planted families as a proposition (`PFam`), obtained from the decidable hypotheses
`plantedB` and `noPalinB`; windows of a planted family and its sites.
-/
import SkaModel.Lemmas.LOCArr

namespace SkaModel.LOC

open SkaModel SkaModel.Spec SkaModel.Props.C16 SkaModel.Skalo

/-- a planted family: samples of length `L` over A, C, G, T that agree outside the sites `P`; every site
is polymorphic; the sites are increasing, `2k` apart and `2k` from both ends; the `(k-1)`-mers are unique
on both strands -/
structure PFam (k L : Nat) (S : List (List UInt8)) (P : List Nat) : Prop where
  sf : SFam L S
  ne : S ≠ []
  off : ∀ s ∈ S, ∀ t ∈ S, ∀ j, j < L → j ∉ P → s.getD j 0 = t.getD j 0
  poly : ∀ p ∈ P, ∃ s ∈ S, ∃ t ∈ S, s.getD p 0 ≠ t.getD p 0
  ends : ∀ p ∈ P, 2 * k ≤ p ∧ p + 2 * k < L
  apart : P.Pairwise (fun p q => p + 2 * k ≤ q)
  uniq : ∀ s ∈ S, ∀ t ∈ S, ∀ j j', j + (k - 1) ≤ L → j' + (k - 1) ≤ L →
    (win s j (k - 1) = win t j' (k - 1) → j = j') ∧ win s j (k - 1) ≠ rcSeq (win t j' (k - 1))

theorem mem_windowsOf (m : Nat) (T : List (List UInt8)) (a : Nat × List UInt8) :
    a ∈ windowsOf m T ↔ ∃ s ∈ T, ∃ j, j + m ≤ s.length ∧ a = (j, win s j m) := by
  unfold windowsOf
  simp only [List.mem_flatMap, List.mem_map, List.mem_range]
  constructor
  · rintro ⟨s, hs, j, hj, rfl⟩
    exact ⟨s, hs, j, by omega, rfl⟩
  · rintro ⟨s, hs, j, hj, rfl⟩
    exact ⟨s, hs, j, by omega, rfl⟩

theorem uniqueB_spec {m : Nat} {T : List (List UInt8)} (h : uniqueB m T = true) :
    ∀ s ∈ T, ∀ t ∈ T, ∀ j j', j + m ≤ s.length → j' + m ≤ t.length →
      (win s j m = win t j' m → j = j') ∧ win s j m ≠ rcSeq (win t j' m) := by
  unfold uniqueB at h
  simp only [List.all_eq_true, Bool.and_eq_true, Bool.or_eq_true, bne_iff_ne, ne_eq, beq_iff_eq] at h
  intro s hs t ht j j' hj hj'
  have := h (j, win s j m) ((mem_windowsOf m T _).mpr ⟨s, hs, j, hj, rfl⟩)
    (j', win t j' m) ((mem_windowsOf m T _).mpr ⟨t, ht, j', hj', rfl⟩)
  simp only at this
  refine ⟨fun e => ?_, this.2⟩
  rcases this.1 with h1 | h1
  · exact absurd e h1
  · exact h1

/-- the decidable hypotheses give a planted family -/
theorem pfam_of_planted {k L : Nat} {A : List UInt8} {S : List (List UInt8)} {P : List Nat}
    (h : plantedB k L A S P = true) : PFam k L S P := by
  unfold plantedB at h
  simp only [Bool.and_eq_true, decide_eq_true_eq, List.all_eq_true, List.mem_range, Bool.or_eq_true,
    List.contains_eq_mem, beq_iff_eq, List.any_eq_true, bne_iff_ne, ne_eq] at h
  obtain ⟨⟨⟨⟨⟨⟨⟨⟨⟨h5, hodd⟩, hlenA⟩, hbaseA⟩, htwo⟩, hS⟩, hpoly⟩, hends⟩, hapart⟩, huniq⟩ := h
  have hlen : ∀ s ∈ S, s.length = L := fun s hs => (hS s hs).1.1
  refine ⟨⟨hlen, fun s hs b hb => (hS s hs).1.2 b hb⟩, ?_, ?_, ?_, ?_, ?_, ?_⟩
  · intro e
    rw [e] at htwo
    simp at htwo
  · intro s hs t ht j hj hjP
    have h1 := (hS s hs).2 j hj
    have h2 := (hS t ht).2 j hj
    rcases h1 with h1 | h1
    · exact absurd h1 hjP
    · rcases h2 with h2 | h2
      · exact absurd h2 hjP
      · rw [h1, h2]
  · intro p hp
    obtain ⟨s, hs, t, ht, hne⟩ := hpoly p hp
    exact ⟨s, hs, t, ht, hne⟩
  · exact hends
  · exact hapart
  · intro s hs t ht j j' hj hj'
    exact uniqueB_spec huniq s (List.mem_cons_of_mem _ hs) t (List.mem_cons_of_mem _ ht) j j'
      (by rw [hlen s hs]; exact hj) (by rw [hlen t ht]; exact hj')

namespace PFam

variable {k L : Nat} {S : List (List UInt8)} {P : List Nat}

theorem len (h : PFam k L S P) {s : List UInt8} (hs : s ∈ S) : s.length = L := h.sf.len s hs

theorem base (h : PFam k L S P) {s : List UInt8} (hs : s ∈ S) : AllBase s := h.sf.base s hs

/-- two different sites are `2k` apart -/
theorem sep (h : PFam k L S P) {p q : Nat} (hp : p ∈ P) (hq : q ∈ P) (hne : p ≠ q) :
    p + 2 * k ≤ q ∨ q + 2 * k ≤ p := by
  have := h.apart
  rw [List.pairwise_iff_getElem] at this
  obtain ⟨i, hi, rfl⟩ := List.getElem_of_mem hp
  obtain ⟨i', hi', rfl⟩ := List.getElem_of_mem hq
  rcases Nat.lt_trichotomy i i' with hlt | heq | hgt
  · exact Or.inl (this i i' hi hi' hlt)
  · subst heq; exact absurd rfl hne
  · exact Or.inr (this i' i hi' hi hgt)

/-- windows without a site agree in all samples -/
theorem win_agree (h : PFam k L S P) {s t : List UInt8} (hs : s ∈ S) (ht : t ∈ S) {j m : Nat}
    (hj : j + m ≤ L) (hno : ∀ p ∈ P, ¬ (j ≤ p ∧ p < j + m)) : win s j m = win t j m := by
  rw [win_eq_iff (by rw [h.len hs]; exact hj) (by rw [h.len ht]; exact hj)]
  intro i hi
  apply h.off s hs t ht (j + i) (by omega)
  intro hp
  exact hno _ hp ⟨by omega, by omega⟩

/-- windows of at most `2k` letters around a site agree in the samples that agree at the site -/
theorem win_agree_site (h : PFam k L S P) {s t : List UInt8} (hs : s ∈ S) (ht : t ∈ S) {j m p : Nat}
    (hj : j + m ≤ L) (hm : m ≤ 2 * k) (hp : p ∈ P) (hjp : j ≤ p) (hpm : p < j + m)
    (hst : s.getD p 0 = t.getD p 0) : win s j m = win t j m := by
  rw [win_eq_iff (by rw [h.len hs]; exact hj) (by rw [h.len ht]; exact hj)]
  intro i hi
  by_cases hpi : j + i = p
  · rw [hpi]; exact hst
  · apply h.off s hs t ht (j + i) (by omega)
    intro hq
    rcases h.sep hp hq (by omega) with h1 | h1 <;> omega

/-- and conversely windows that agree show the same base at every position -/
theorem win_getD {s t : List UInt8} {j m : Nat} (hs : j + m ≤ s.length) (ht : j + m ≤ t.length)
    (e : win s j m = win t j m) {p : Nat} (hjp : j ≤ p) (hpm : p < j + m) : s.getD p 0 = t.getD p 0 := by
  have := (win_eq_iff hs ht).mp e (p - j) (by omega)
  rwa [show j + (p - j) = p by omega] at this

end PFam

end SkaModel.LOC
