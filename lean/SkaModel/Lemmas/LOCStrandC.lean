/-
C17 completeness — the compacted graph of a pair of strands: entry nodes, exit nodes and the last node
of a strand keep their successors; the successor of an entry or exit node jumps to the end of its chain.
-/
import SkaModel.Lemmas.LOCIdent
import SkaModel.Lemmas.LOCExplore
import SkaModel.Props.C17Paths

namespace SkaModel.LOC

open SkaModel SkaModel.Spec SkaModel.Props.C16 SkaModel.Skalo SkaModel.Props.C17G SkaModel.LOG

/-! ### generic chain facts -/

theorem chain1_pred {g : Graph} : ∀ (a : Nat) (l : List Nat), Chain1 g (a :: l) → ∀ x ∈ l,
    ∃ y, y ∈ (a :: l).dropLast ∧ Assoc.lookup g y = some [x]
  | _, [], _, x, hx => by simp at hx
  | a, b :: rest, h, x, hx => by
    rcases List.mem_cons.mp hx with e | hx'
    · subst e
      exact ⟨a, by simp [List.dropLast], h.1⟩
    · obtain ⟨y, hy, hl⟩ := chain1_pred b rest h.2 x hx'
      exact ⟨y, by rw [List.dropLast_cons_cons]; exact List.mem_cons_of_mem _ hy, hl⟩

theorem chain1_succ {g : Graph} : ∀ (a : Nat) (l : List Nat), Chain1 g (a :: l) → ∀ x ∈ (a :: l).dropLast,
    ∃ n, Assoc.lookup g x = some [n]
  | _, [], _, x, hx => by simp [List.dropLast] at hx
  | a, b :: rest, h, x, hx => by
    rw [List.dropLast_cons_cons] at hx
    rcases List.mem_cons.mp hx with e | hx'
    · subst e
      exact ⟨b, h.1⟩
    · exact chain1_succ b rest h.2 x hx'

theorem dropLast_cons_of_ne {α : Type} (a : α) (l : List α) (h : l ≠ []) : (a :: l).dropLast = a :: l.dropLast := by
  cases l with
  | nil => exact absurd rfl h
  | cons b t => rfl

theorem mem_of_mem_dropLast' {α : Type} {x : α} {l : List α} (h : x ∈ l.dropLast) : x ∈ l :=
  List.dropLast_subset l h

/-- an inner node of a segment: a single-successor node that is neither an entry nor an exit node, and
the only successor of the source or of another such node of the segment -/
theorem seg_inner {g : Graph} {starts ends : List Nat} {sv : Nat × List Nat} (h : SegOk g starts ends sv)
    {x : Nat} (hx : x ∈ sv.2.dropLast) :
    x ∉ starts ∧ x ∉ ends ∧ (∃ n, Assoc.lookup g x = some [n]) ∧
      ∃ y, Assoc.lookup g y = some [x] ∧ (y = sv.1 ∨ (y ∈ sv.2.dropLast ∧ y ∉ starts ∧ y ∉ ends)) := by
  obtain ⟨hch, _, hmid, hne, _, _⟩ := seg_chain h
  have hne2 : sv.2 ≠ [] := by intro e; rw [e] at hne; exact hne rfl
  refine ⟨(hmid x hx).1, (hmid x hx).2, ?_, ?_⟩
  · apply chain1_succ sv.1 sv.2 hch
    rw [dropLast_cons_of_ne _ _ hne2]
    exact List.mem_cons_of_mem _ hx
  · obtain ⟨y, hy, hl⟩ := chain1_pred sv.1 sv.2 hch x (mem_of_mem_dropLast' hx)
    rw [dropLast_cons_of_ne _ _ hne2] at hy
    refine ⟨y, hl, ?_⟩
    rcases List.mem_cons.mp hy with e | hy'
    · exact Or.inl e
    · exact Or.inr ⟨hy', hmid y hy'⟩

namespace Strand

variable {k L : Nat} {g : Graph} {T T' : List (List UInt8)} {PT PT' : List Nat}

theorem lookup_some_iff (st : Strand k L g T PT T' PT') (x : Nat) (l : List Nat) :
    Assoc.lookup g x = some l ↔ succs g x = l ∧ l ≠ [] := by
  rw [st.lk]
  by_cases h : succs g x = []
  · rw [if_pos h]
    constructor
    · intro e; exact absurd e (by simp)
    · rintro ⟨e, hne⟩; rw [h] at e; exact absurd e.symm hne
  · rw [if_neg h]
    constructor
    · intro e
      have := Option.some.inj e
      exact ⟨this, by rw [← this]; exact h⟩
    · rintro ⟨e, _⟩; rw [e]

/-- entry nodes on the strand `T`, by coordinate -/
theorem mem_starts_iff (st : Strand k L g T PT T' PT') {starts ends : List Nat}
    (ex : Ext k starts ends T PT T' PT') {t : List UInt8} (ht : t ∈ T) {j : Nat} (hj : j + (k - 1) ≤ L) :
    fN k t j ∈ starts ↔ ∃ p ∈ PT, j = p - k + 1 := by
  have hk5 := st.k5
  rw [ex.st]
  constructor
  · rintro (⟨p, hp, t', ht', e⟩ | ⟨p, hp, t', ht', e⟩)
    · have hpe := st.pf.ends p hp
      exact ⟨p, hp, (st.node_level ht ht' hj (by omega) e).1⟩
    · have hpe := st.pf'.ends p hp
      exact absurd e (st.node_cross ht ht' hj (by omega))
  · rintro ⟨p, hp, rfl⟩
    exact Or.inl ⟨p, hp, t, ht, rfl⟩

/-- exit nodes on the strand `T`, by coordinate -/
theorem mem_ends_iff (st : Strand k L g T PT T' PT') {starts ends : List Nat}
    (ex : Ext k starts ends T PT T' PT') {t : List UInt8} (ht : t ∈ T) {j : Nat} (hj : j + (k - 1) ≤ L) :
    fN k t j ∈ ends ↔ ∃ p ∈ PT, j = p + 1 := by
  have hk5 := st.k5
  rw [ex.en]
  constructor
  · rintro (⟨p, hp, t', ht', e⟩ | ⟨p, hp, t', ht', e⟩)
    · have hpe := st.pf.ends p hp
      exact ⟨p, hp, (st.node_level ht ht' hj (by omega) e).1⟩
    · have hpe := st.pf'.ends p hp
      exact absurd e (st.node_cross ht ht' hj (by omega))
  · rintro ⟨p, hp, rfl⟩
    exact Or.inl ⟨p, hp, t, ht, rfl⟩

end Strand

/-! ### chains of nodes of one sample -/

/-- the nodes of `t` at the coordinates `a, a+1, …, a+n-1` -/
def chainN (k : Nat) (t : List UInt8) (a n : Nat) : List Nat := (List.range n).map (fun i => fN k t (a + i))

theorem chainN_length (k : Nat) (t : List UInt8) (a n : Nat) : (chainN k t a n).length = n := by
  simp [chainN]

theorem mem_chainN (k : Nat) (t : List UInt8) (a n x : Nat) :
    x ∈ chainN k t a n ↔ ∃ i, i < n ∧ x = fN k t (a + i) := by
  unfold chainN
  rw [List.mem_map]
  constructor
  · rintro ⟨i, hi, rfl⟩; exact ⟨i, List.mem_range.mp hi, rfl⟩
  · rintro ⟨i, hi, rfl⟩; exact ⟨i, List.mem_range.mpr hi, rfl⟩

theorem chainN_succ (k : Nat) (t : List UInt8) (a n : Nat) :
    chainN k t a (n + 1) = fN k t a :: chainN k t (a + 1) n := by
  unfold chainN
  rw [List.range_succ_eq_map, List.map_cons, List.map_map]
  congr 1
  apply List.map_congr_left
  intro i _
  simp only [Function.comp]
  congr 1
  omega

theorem chainN_snoc (k : Nat) (t : List UInt8) (a n : Nat) :
    chainN k t a (n + 1) = chainN k t a n ++ [fN k t (a + n)] := by
  unfold chainN
  rw [List.range_succ, List.map_append]
  rfl

theorem chainN_dropLast (k : Nat) (t : List UInt8) (a n : Nat) :
    (chainN k t a (n + 1)).dropLast = chainN k t a n := by
  rw [chainN_snoc, List.dropLast_concat]

theorem chainN_getLastD (k : Nat) (t : List UInt8) (a n : Nat) :
    (chainN k t a (n + 1)).getLastD 0 = fN k t (a + n) := by
  rw [chainN_snoc]
  simp

namespace Strand

variable {k L : Nat} {g : Graph} {T T' : List (List UInt8)} {PT PT' : List Nat}

theorem chainN_nodup (st : Strand k L g T PT T' PT') {t : List UInt8} (ht : t ∈ T) (a n : Nat)
    (h : a + n + (k - 1) ≤ L + 1) : (chainN k t a n).Nodup := by
  unfold chainN
  rw [List.Nodup, List.pairwise_map]
  refine List.Pairwise.imp_of_mem ?_ (List.nodup_range (n := n))
  intro i i' hi hi' hne e
  rw [List.mem_range] at hi hi'
  have := (st.node_level ht ht (by omega) (by omega) e).1
  omega

/-- consecutive nodes of a sample without an entry node form a chain of single-successor nodes -/
theorem chain1_levels (st : Strand k L g T PT T' PT') {t : List UInt8} (ht : t ∈ T) :
    ∀ (n a : Nat), (∀ j, a ≤ j → j < a + n → j + k ≤ L ∧ j + k - 1 ∉ PT) → Chain1 g (chainN k t a (n + 1)) := by
  intro n
  induction n with
  | zero => intro a _; rw [chainN_succ]; trivial
  | succ n ih =>
    intro a h
    rw [chainN_succ, chainN_succ]
    refine ⟨?_, ?_⟩
    · rw [st.lookup_some_iff]
      obtain ⟨h1, h2⟩ := h a (by omega) (by omega)
      exact ⟨st.succs_single ht h1 h2, by simp⟩
    · rw [← chainN_succ]
      exact ih (a + 1) (fun j hj1 hj2 => h j (by omega) (by omega))

/-- a node without a unique successor is not touched by the compaction -/
theorem compact_untouched (_st : Strand k L g T PT T' PT') (starts ends : List Nat) (x : Nat)
    (h : ∀ n, Assoc.lookup g x ≠ some [n]) :
    succs (compactGraph g starts ends).1 x = succs g x := by
  obtain ⟨hok, _⟩ := compactSegments_inv g starts ends
  unfold compactGraph
  simp only
  apply succs_foldSegments_other
  intro sv hsv
  constructor
  · intro e
    obtain ⟨_, _, _, _, _, hlk⟩ := seg_chain (hok sv hsv)
    rw [← e] at hlk
    exact h _ hlk
  · intro hx
    obtain ⟨_, _, ⟨n, hn⟩, _⟩ := seg_inner (hok sv hsv) (mem_of_mem_dropLast' hx)
    exact h n hn

/-- entry nodes keep their successors -/
theorem compact_entry (st : Strand k L g T PT T' PT') (starts ends : List Nat) {t : List UInt8} (ht : t ∈ T)
    {p : Nat} (hp : p ∈ PT) :
    succs (compactGraph g starts ends).1 (fN k t (p - k + 1)) = succs g (fN k t (p - k + 1)) := by
  apply st.compact_untouched
  intro n hn
  have h2 := st.succs_site_two ht hp
  rw [(st.lookup_some_iff _ _).mp hn |>.1] at h2
  simp at h2

/-- the last node of the strand keeps its (empty) successor list -/
theorem compact_last (st : Strand k L g T PT T' PT') (starts ends : List Nat) {t : List UInt8} (ht : t ∈ T)
    {j : Nat} (hj : j + (k - 1) ≤ L) (hl : L < j + k) :
    succs (compactGraph g starts ends).1 (fN k t j) = [] := by
  rw [st.compact_untouched starts ends _ ?_, st.succs_last ht hj hl]
  intro n hn
  have := (st.lookup_some_iff _ _).mp hn
  rw [st.succs_last ht hj hl] at this
  exact absurd this.1.symm this.2

/-- an exit node is not the source of a segment -/
theorem exit_not_src (st : Strand k L g T PT T' PT') {starts ends : List Nat}
    (ex : Ext k starts ends T PT T' PT') {t : List UInt8} (ht : t ∈ T) {p : Nat} (hp : p ∈ PT) :
    ∀ sv ∈ compactSegments g starts ends, sv.1 ≠ fN k t (p + 1) := by
  have hk5 := st.k5
  have hpe := st.pf.ends p hp
  obtain ⟨hok, _⟩ := compactSegments_inv g starts ends
  intro sv hsv e
  obtain ⟨_, _, e', he', hedge⟩ := hok sv hsv
  rw [e] at hedge
  have hlv : p + 1 + (k - 1) ≤ L := by omega
  obtain ⟨t', ht', _, he'eq, _⟩ := st.pred_level ht hlv hedge
  rw [he'eq, Nat.add_sub_cancel] at he'
  have hlv2 : p + (k - 1) ≤ L := by omega
  rcases List.mem_append.mp he' with h | h
  · obtain ⟨q, hq, e2⟩ := (st.mem_starts_iff ex ht' hlv2).mp h
    have hqe := st.pf.ends q hq
    rcases st.pf.sep hp hq (by omega) with h3 | h3 <;> omega
  · obtain ⟨q, hq, e2⟩ := (st.mem_ends_iff ex ht' hlv2).mp h
    rcases st.pf.sep hp hq (by omega) with h3 | h3 <;> omega

/-- an entry node is not the source of a segment -/
theorem entry_not_src (st : Strand k L g T PT T' PT') (starts ends : List Nat) {t : List UInt8} (ht : t ∈ T)
    {p : Nat} (hp : p ∈ PT) : ∀ sv ∈ compactSegments g starts ends, sv.1 ≠ fN k t (p - k + 1) := by
  obtain ⟨hok, _⟩ := compactSegments_inv g starts ends
  intro sv hsv e
  obtain ⟨_, _, _, _, _, hlk⟩ := seg_chain (hok sv hsv)
  rw [e] at hlk
  have h2 := st.succs_site_two ht hp
  rw [(st.lookup_some_iff _ _).mp hlk |>.1] at h2
  simp at h2

/-- a node that is not the source of a segment has no recorded interior -/
theorem comp_none (g : Graph) (starts ends : List Nat) (x : Nat)
    (h : ∀ sv ∈ compactSegments g starts ends, sv.1 ≠ x) :
    Assoc.lookup (compactGraph g starts ends).2 x = none := by
  rw [Assoc.lookup_eq_none_iff_L]
  unfold compactGraph Assoc.keys
  simp only [List.map_map]
  intro hm
  obtain ⟨sv, hsv, e⟩ := List.mem_map.mp hm
  exact h sv hsv e

/-- exit nodes keep their successors -/
theorem compact_exit (st : Strand k L g T PT T' PT') {starts ends : List Nat}
    (ex : Ext k starts ends T PT T' PT') {t : List UInt8} (ht : t ∈ T) {p : Nat} (hp : p ∈ PT) :
    succs (compactGraph g starts ends).1 (fN k t (p + 1)) = succs g (fN k t (p + 1)) := by
  have hk5 := st.k5
  have hpe := st.pf.ends p hp
  obtain ⟨hok, _⟩ := compactSegments_inv g starts ends
  unfold compactGraph
  simp only
  apply succs_foldSegments_other
  intro sv hsv
  have hend : fN k t (p + 1) ∈ ends := (st.mem_ends_iff ex ht (by omega)).mpr ⟨p, hp, rfl⟩
  constructor
  · exact fun e => st.exit_not_src ex ht hp sv hsv e.symm
  · intro hx
    exact (seg_inner (hok sv hsv) (mem_of_mem_dropLast' hx)).2.1 hend

/-- **the successor of an entry or exit node jumps to the end of its chain** -/
theorem compact_jump (st : Strand k L g T PT T' PT') {starts ends : List Nat}
    (ex : Ext k starts ends T PT T' PT') {t : List UInt8} (ht : t ∈ T) {a b : Nat} (hab : a + 2 ≤ b)
    (hb : b + (k - 1) ≤ L) {e : Nat} (he : e ∈ starts ++ ends) (hes : fN k t a ∈ succs g e)
    (hsingle : ∀ j, a ≤ j → j < b → ∀ p ∈ PT, j ≠ p - k + 1)
    (hnoexit : ∀ j, a < j → j < b → ∀ p ∈ PT, j ≠ p + 1)
    (hstop : (∃ p ∈ PT, b = p - k + 1) ∨ (∃ p ∈ PT, b = p + 1) ∨ L < b + k)
    (ha2 : 2 ≤ a) (hpred : a - 1 ∉ PT) (hnoext : ∀ p ∈ PT, a - 2 ≠ p - k + 1 ∧ a - 2 ≠ p + 1) :
    succs (compactGraph g starts ends).1 (fN k t a) = [fN k t b] := by
  have hk5 := st.k5
  obtain ⟨hok, hkeys⟩ := compactSegments_inv g starts ends
  have hsing : ∀ j, a ≤ j → j < b → j + k ≤ L ∧ j + k - 1 ∉ PT := by
    intro j h1 h2
    refine ⟨by omega, fun hp => ?_⟩
    have hpe := st.pf.ends _ hp
    exact hsingle j h1 h2 _ hp (by omega)
  -- the chain
  have hn : b - a = (b - a - 1) + 1 := by omega
  have hcs : chainN k t (a + 1) (b - a) = chainN k t (a + 1) (b - a - 1 + 1) := by rw [← hn]
  have hchain : Chain1 g (fN k t a :: chainN k t (a + 1) (b - a)) := by
    rw [← chainN_succ]
    exact st.chain1_levels ht (b - a) a (fun j h1 h2 => hsing j h1 (by omega))
  have hlast : (chainN k t (a + 1) (b - a)).getLastD 0 = fN k t b := by
    rw [hcs, chainN_getLastD]
    congr 1
    omega
  have hdl : (chainN k t (a + 1) (b - a)).dropLast = chainN k t (a + 1) (b - a - 1) := by
    rw [hcs, chainN_dropLast]
  have hmid : ∀ x ∈ (chainN k t (a + 1) (b - a)).dropLast, x ∉ starts ∧ x ∉ ends := by
    intro x hx
    rw [hdl, mem_chainN] at hx
    obtain ⟨i, hi, rfl⟩ := hx
    constructor
    · intro hs
      obtain ⟨p, hp, e⟩ := (st.mem_starts_iff ex ht (by omega)).mp hs
      exact hsingle (a + 1 + i) (by omega) (by omega) p hp e
    · intro hs
      obtain ⟨p, hp, e⟩ := (st.mem_ends_iff ex ht (by omega)).mp hs
      exact hnoexit (a + 1 + i) (by omega) (by omega) p hp e
  have hnd : ([] ++ chainN k t (a + 1) (b - a)).Nodup := by
    rw [List.nil_append]
    exact st.chainN_nodup ht _ _ (by omega)
  have hstop' : (chainN k t (a + 1) (b - a)).getLastD 0 ∈ starts ∨
      (chainN k t (a + 1) (b - a)).getLastD 0 ∈ ends ∨
      ∀ n, Assoc.lookup g ((chainN k t (a + 1) (b - a)).getLastD 0) ≠ some [n] := by
    rw [hlast]
    rcases hstop with ⟨p, hp, e⟩ | ⟨p, hp, e⟩ | h
    · exact Or.inl ((st.mem_starts_iff ex ht hb).mpr ⟨p, hp, e⟩)
    · exact Or.inr (Or.inl ((st.mem_ends_iff ex ht hb).mpr ⟨p, hp, e⟩))
    · right; right
      intro n hn
      have := (st.lookup_some_iff _ _).mp hn
      rw [st.succs_last ht hb h] at this
      exact absurd this.1.symm this.2
  clear hstop
  -- fuel
  have hfuel : (chainN k t (a + 1) (b - a)).length + 1 ≤ edgeCount g + 1 := by
    have := length_le_edgeCount g (chainN k t a (b - a)) (st.chainN_nodup ht _ _ (by omega)) (by
      intro x hx
      rw [mem_chainN] at hx
      obtain ⟨i, hi, rfl⟩ := hx
      obtain ⟨h1, h2⟩ := hsing (a + i) (by omega) (by omega)
      rw [st.succs_single ht h1 h2]
      simp)
    rw [chainN_length] at this ⊢
    omega
  have hne : chainN k t (a + 1) (b - a) ≠ [] := by
    intro e
    have := congrArg List.length e
    rw [chainN_length] at this
    simp at this
    omega
  have hwalk := compactWalk_chain g starts ends (chainN k t (a + 1) (b - a)) (fN k t a) [] (edgeCount g + 1)
    hne hfuel hchain hmid hnd hstop'
  rw [List.nil_append] at hwalk
  have hseg : (fN k t a, chainN k t (a + 1) (b - a)) ∈ compactSegments g starts ends := by
    have := compactSegments_complete g starts ends e (fN k t a) he hes (by rw [hwalk, chainN_length]; omega)
    rw [hwalk] at this
    exact this
  -- the source is no inner node of a segment
  have hea : e = fN k t (a - 1) := by
    have := st.pred_unique (j := a - 1) ht (by omega) hpred (x := e) (by
      rw [show a - 1 + 1 = a by omega]; exact hes)
    exact this
  have hnotin : ∀ sv' ∈ compactSegments g starts ends,
      (fN k t a, chainN k t (a + 1) (b - a)).1 ∉ sv'.2.dropLast.dropLast := by
    intro sv' hsv' hin
    obtain ⟨_, _, _, y, hy, hcase⟩ := seg_inner (hok sv' hsv') (mem_of_mem_dropLast' hin)
    have hyedge : Edge g y (fN k t a) := by
      have := (st.lookup_some_iff _ _).mp hy
      show fN k t a ∈ succs g y
      rw [this.1]
      exact List.mem_singleton.mpr rfl
    have hya : y = fN k t (a - 1) := by
      have := st.pred_unique (j := a - 1) ht (by omega) hpred (x := y) (by
        rw [show a - 1 + 1 = a by omega]; exact hyedge)
      exact this
    rcases hcase with hsrc | ⟨_, hns, hne⟩
    · obtain ⟨_, _, e', he', hedge'⟩ := hok sv' hsv'
      rw [← hsrc, hya] at hedge'
      have hlv : a - 1 + (k - 1) ≤ L := by omega
      obtain ⟨t', ht', h1a, he'eq, _⟩ := st.pred_level ht hlv hedge'
      have hlv2 : a - 2 + (k - 1) ≤ L := by omega
      rw [he'eq, show a - 1 - 1 = a - 2 by omega] at he'
      rcases List.mem_append.mp he' with h | h
      · obtain ⟨p, hp, e2⟩ := (st.mem_starts_iff ex ht' hlv2).mp h
        exact (hnoext p hp).1 e2
      · obtain ⟨p, hp, e2⟩ := (st.mem_ends_iff ex ht' hlv2).mp h
        exact (hnoext p hp).2 e2
    · rw [hya, ← hea] at hns hne
      rcases List.mem_append.mp he with h | h
      · exact hns h
      · exact hne h
  unfold compactGraph
  simp only
  have := succs_foldSegments_src (compactSegments g starts ends) _ hseg hkeys hnotin g
  simp only at this
  rw [this, hlast]
  obtain ⟨h1, h2⟩ := hsing a (by omega) (by omega)
  rw [st.succs_single ht h1 h2]
  have hhead : (chainN k t (a + 1) (b - a)).headD 0 = fN k t (a + 1) := by
    rw [hcs, chainN_succ]
    rfl
  rw [hhead]
  simp

end Strand

end SkaModel.LOC
