/-
Indel genotyping of `ska lo` (`process_indels.rs`): `indelCalls`, `indelStats`.
-/
import SkaModel.Lemmas.LOBasic

namespace SkaModel.LO

open SkaModel SkaModel.Skalo

/-- genotype string from (in REF set, in ALT set) -/
def gtOf (r a : Bool) : String :=
  match r, a with
  | true, true => "0/1"
  | true, false => "0"
  | false, true => "1"
  | false, false => "."

def gtStrings (n : Nat) (refS altS : List Nat) : List String :=
  (List.range n).map (fun i => gtOf (refS.contains i) (altS.contains i))

theorem indelCalls_eq (n : Nat) (ins0 ins1 : List UInt8) (set0 set1 : List Nat) :
    indelCalls n ins0 ins1 set0 set1 =
      if set0.eraseDups.length < set1.eraseDups.length then (ins1, ins0, gtStrings n set1 set0)
      else (ins0, ins1, gtStrings n set0 set1) := by
  unfold indelCalls
  by_cases h : set0.eraseDups.length < set1.eraseDups.length
  · have h' : set1.eraseDups.length > set0.eraseDups.length := h
    simp only [h', if_true]
    rfl
  · have h' : ¬ set1.eraseDups.length > set0.eraseDups.length := h
    simp only [h', if_false]
    rfl

theorem contains_false_iff (l : List Nat) (i : Nat) : l.contains i = false ↔ i ∉ l := by
  rw [← List.contains_iff_mem]
  simp

theorem gtOf_spec (r a : Bool) :
    (gtOf r a = "0" ↔ r = true ∧ a = false) ∧ (gtOf r a = "1" ↔ r = false ∧ a = true) ∧
    (gtOf r a = "0/1" ↔ r = true ∧ a = true) ∧ (gtOf r a = "." ↔ r = false ∧ a = false) := by
  cases r <;> cases a <;> decide

theorem gtStrings_length (n : Nat) (refS altS : List Nat) : (gtStrings n refS altS).length = n := by
  simp [gtStrings]

theorem gtStrings_spec (n : Nat) (refS altS : List Nat) (i : Nat) (hi : i < n) :
    ∃ g, (gtStrings n refS altS)[i]? = some g ∧
      (g = "0" ↔ i ∈ refS ∧ i ∉ altS) ∧ (g = "1" ↔ i ∉ refS ∧ i ∈ altS) ∧
      (g = "0/1" ↔ i ∈ refS ∧ i ∈ altS) ∧ (g = "." ↔ i ∉ refS ∧ i ∉ altS) := by
  refine ⟨gtOf (refS.contains i) (altS.contains i), ?_, ?_⟩
  · unfold gtStrings
    rw [List.getElem?_map, List.getElem?_range hi]
    rfl
  · have h := gtOf_spec (refS.contains i) (altS.contains i)
    simp only [List.contains_iff_mem, contains_false_iff] at h
    exact h

/-- REF is the larger sample set (ties: the first); genotypes per sample -/
theorem indelCalls_spec (n : Nat) (ins0 ins1 : List UInt8) (set0 set1 : List Nat) :
    let swap := set0.eraseDups.length < set1.eraseDups.length
    let refS := if swap then set1 else set0
    let altS := if swap then set0 else set1
    let r := indelCalls n ins0 ins1 set0 set1
    r.1 = (if swap then ins1 else ins0) ∧ r.2.1 = (if swap then ins0 else ins1) ∧
    r.2.2.length = n ∧
    ∀ i, i < n → ∃ g, r.2.2[i]? = some g ∧
      (g = "0" ↔ i ∈ refS ∧ i ∉ altS) ∧ (g = "1" ↔ i ∉ refS ∧ i ∈ altS) ∧
      (g = "0/1" ↔ i ∈ refS ∧ i ∈ altS) ∧ (g = "." ↔ i ∉ refS ∧ i ∉ altS) := by
  intro swap refS altS r
  by_cases h : set0.eraseDups.length < set1.eraseDups.length
  · have hr : r = (ins1, ins0, gtStrings n set1 set0) := by
      show indelCalls n ins0 ins1 set0 set1 = _
      rw [indelCalls_eq, if_pos h]
    have hR : refS = set1 := if_pos h
    have hA : altS = set0 := if_pos h
    rw [hr, hR, hA]
    refine ⟨(if_pos h).symm, (if_pos h).symm, gtStrings_length _ _ _, ?_⟩
    intro i hi
    exact gtStrings_spec n set1 set0 i hi
  · have hr : r = (ins0, ins1, gtStrings n set0 set1) := by
      show indelCalls n ins0 ins1 set0 set1 = _
      rw [indelCalls_eq, if_neg h]
    have hR : refS = set0 := if_neg h
    have hA : altS = set1 := if_neg h
    rw [hr, hR, hA]
    refine ⟨(if_neg h).symm, (if_neg h).symm, gtStrings_length _ _ _, ?_⟩
    intro i hi
    exact gtStrings_spec n set0 set1 i hi

/-! ### `indelStats` -/

def statStep (set0 set1 : List Nat) (acc : Nat × Bool × Bool) (i : Nat) : Nat × Bool × Bool :=
  let (m, rp, ap) := acc
  let a := set0.contains i
  let b := set1.contains i
  if !a && !b then (m + 1, rp, ap) else if a && b then (m + 1, rp, ap)
  else if a then (m, true, ap) else (m, rp, true)

theorem indelStats_eq_fold (n : Nat) (set0 set1 : List Nat) :
    indelStats n set0 set1 = (List.range n).foldl (statStep set0 set1) (0, false, false) := rfl

/-- closed form with Boolean tests -/
theorem indelStats_closed (n : Nat) (set0 set1 : List Nat) :
    indelStats n set0 set1 =
      (((List.range n).filter (fun i => set0.contains i == set1.contains i)).length,
       (List.range n).any (fun i => set0.contains i && !set1.contains i),
       (List.range n).any (fun i => !set0.contains i && set1.contains i)) := by
  rw [indelStats_eq_fold]
  induction n with
  | zero => rfl
  | succ n ih =>
    rw [List.range_succ, List.foldl_append, ih, List.filter_append, List.any_append, List.any_append,
      List.length_append]
    simp only [List.foldl_cons, List.foldl_nil, statStep, List.filter_cons, List.filter_nil,
      List.any_cons, List.any_nil]
    cases set0.contains n <;> cases set1.contains n <;> simp

theorem indelStats_spec (n : Nat) (set0 set1 : List Nat) :
    let r := indelStats n set0 set1
    r.1 = ((List.range n).filter (fun i => decide ((i ∈ set0 ∧ i ∈ set1) ∨ (i ∉ set0 ∧ i ∉ set1)))).length ∧
    (r.2.1 = true ↔ ∃ i, i < n ∧ i ∈ set0 ∧ i ∉ set1) ∧
    (r.2.2 = true ↔ ∃ i, i < n ∧ i ∉ set0 ∧ i ∈ set1) := by
  intro r
  have hr : r = _ := indelStats_closed n set0 set1
  rw [hr]
  refine ⟨?_, ?_, ?_⟩
  · show ((List.range n).filter _).length = _
    congr 1
    apply List.filter_congr
    intro i _
    rw [Bool.eq_iff_iff]
    simp only [beq_iff_eq, decide_eq_true_eq]
    by_cases h0 : i ∈ set0 <;> by_cases h1 : i ∈ set1 <;> simp [h0, h1]
  · show (List.range n).any _ = true ↔ _
    rw [List.any_eq_true]
    simp only [List.mem_range, Bool.and_eq_true, List.contains_iff_mem, Bool.not_eq_true',
      contains_false_iff]
  · show (List.range n).any _ = true ↔ _
    rw [List.any_eq_true]
    simp only [List.mem_range, Bool.and_eq_true, List.contains_iff_mem, Bool.not_eq_true',
      contains_false_iff]

end SkaModel.LO
