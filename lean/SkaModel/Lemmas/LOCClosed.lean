/-
C17 completeness — closed form of the explored walks on a strand: a walk from the arm of site `p`
is given by the list of the following sites it crosses and the arm (sample) chosen at each of them;
the fuel of `pathsFrom` always suffices.
-/
import SkaModel.Lemmas.LOCReach

namespace SkaModel.LOC

open SkaModel SkaModel.Spec SkaModel.Props.C16 SkaModel.Skalo SkaModel.Props.C17G SkaModel.LOG

/-! ### the fuel suffices -/

theorem reach_fresh {g : Graph} {ends : List Nat} {maxDepth : Nat} :
    ∀ (w : List Nat) (cur : Nat) (V : List Nat) (d : Nat), Reach g ends maxDepth w cur V d →
      w.Nodup ∧ (∀ x ∈ w, x ∉ V) ∧ (∀ x ∈ w.dropLast, succs g x ≠ []) ∧ succs g cur ≠ [] := by
  intro w
  induction w with
  | nil => intro cur V d h; exact absurd h (by simp [Reach])
  | cons n w' ih =>
    intro cur V d h
    rw [reach_cons] at h
    obtain ⟨_, h2, h3, h4⟩ := h
    have hcur : succs g cur ≠ [] := List.ne_nil_of_mem h2
    rcases h4 with ⟨rfl, _⟩ | ⟨hne, hr⟩
    · refine ⟨by simp, ?_, by simp, hcur⟩
      intro x hx
      rw [List.mem_singleton] at hx
      rw [hx]; exact h3
    · obtain ⟨i1, i2, i3, i4⟩ := ih n _ _ hr
      refine ⟨?_, ?_, ?_, hcur⟩
      · rw [List.nodup_cons]
        refine ⟨fun hm => ?_, i1⟩
        exact i2 n hm (by simp)
      · intro x hx
        rcases List.mem_cons.mp hx with e | hx'
        · rw [e]; exact h3
        · intro hxV
          exact i2 x hx' (List.mem_append_left _ hxV)
      · intro x hx
        rw [dropLast_cons_of_ne _ _ hne] at hx
        rcases List.mem_cons.mp hx with e | hx'
        · rw [e]; exact i4
        · exact i3 x hx'

theorem reach_length {g : Graph} {ends : List Nat} {maxDepth : Nat} {w : List Nat} {cur : Nat} {V : List Nat}
    {d : Nat} (h : Reach g ends maxDepth w cur V d) : w.length ≤ edgeCount g + 1 := by
  obtain ⟨h1, _, h3, _⟩ := reach_fresh w cur V d h
  have := length_le_edgeCount g w.dropLast (h1.sublist (List.dropLast_sublist w)) h3
  rw [List.length_dropLast] at this
  omega

/-- the pairs found from an entry node: the walks explored from its successors -/
theorem mem_found (g' : Graph) (comp : List (Nat × List Nat)) (ends : List Nat) (maxDepth kmer : Nat)
    (ep : Nat × List Nat) :
    ep ∈ (succs g' kmer).flatMap (fun s =>
        explore g' comp ends maxDepth (edgeCount g' + 2) s [kmer, s] ([kmer, s] ++ (Assoc.lookup comp s).getD []) 0) ↔
      ∃ s ∈ succs g' kmer, ∃ w, Reach g' ends maxDepth w s [kmer, s] 0 ∧
        ep = (w.getLastD 0, pathOf comp ([kmer, s] ++ interior comp s) w) := by
  rw [List.mem_flatMap]
  constructor
  · rintro ⟨s, hs, h⟩
    rw [explore_iff] at h
    obtain ⟨w, _, hr, he⟩ := h
    exact ⟨s, hs, w, hr, he⟩
  · rintro ⟨s, hs, w, hr, he⟩
    refine ⟨s, hs, ?_⟩
    rw [explore_iff]
    exact ⟨w, by have := reach_length hr; omega, hr, he⟩

/-! ### closed form -/

/-- `qs` are the sites following `p`, one after the other -/
def SitesOK (PT : List Nat) : Nat → List Nat → Prop
  | _, [] => True
  | p, q :: rest => IsNext PT p q ∧ SitesOK PT q rest

/-- the walk from the arm of `t` at `p` through the arms chosen at the following sites -/
def walkOf (k : Nat) : List UInt8 → Nat → List (Nat × List UInt8) → List Nat
  | t, p, [] => [fN k t (p + 1)]
  | t, p, (q, tq) :: rest =>
    fN k t (p + 1) :: fN k t (p + 2) :: fN k t (q - k + 1) :: fN k tq (q - k + 2) :: walkOf k tq q rest

theorem walkOf_ne_nil (k : Nat) (t : List UInt8) (p : Nat) (ch : List (Nat × List UInt8)) : walkOf k t p ch ≠ [] := by
  cases ch with
  | nil => simp [walkOf]
  | cons x rest => obtain ⟨q, tq⟩ := x; simp [walkOf]

namespace Strand

variable {k L : Nat} {g : Graph} {T T' : List (List UInt8)} {PT PT' : List Nat}

theorem fresh_step (st : Strand k L g T PT T' PT') {t tq : List UInt8} (ht : t ∈ T) (htq : tq ∈ T) {p q : Nat}
    (hp : p ∈ PT) (hn : IsNext PT p q) {V : List Nat} (hV : Fresh k L T V p) :
    Fresh k L T (V ++ [fN k t (p + 1), fN k t (p + 2), fN k t (q - k + 1), fN k tq (q - k + 2)]) q := by
  have hk5 := st.k5
  obtain ⟨hq, hpq, _⟩ := hn
  have hqe := st.pf.ends q hq
  have hpe := st.pf.ends p hp
  have hsep : p + 2 * k ≤ q := by
    rcases st.pf.sep hp hq (by omega) with h3 | h3 <;> omega
  intro t' ht' j hj1 hj2
  simp only [List.mem_append, List.mem_cons, List.not_mem_nil, or_false]
  rintro (h | h | h | h | h)
  · exact hV t' ht' j (by omega) hj2 h
  · have := (st.node_level ht' ht hj2 (by omega) h).1; omega
  · have := (st.node_level ht' ht hj2 (by omega) h).1; omega
  · have := (st.node_level ht' ht hj2 (by omega) h).1; omega
  · have := (st.node_level ht' htq hj2 (by omega) h).1; omega

/-- **closed form of the walks explored from an arm** -/
theorem reach_closed (st : Strand k L g T PT T' PT') {starts ends : List Nat}
    (ex : Ext k starts ends T PT T' PT') (maxDepth : Nat) :
    ∀ (n : Nat) (w : List Nat), w.length ≤ n → ∀ (t : List UInt8), t ∈ T → ∀ (p : Nat), p ∈ PT →
      ∀ (V : List Nat), Fresh k L T V p → ∀ (d : Nat),
      (Reach (compactGraph g starts ends).1 ends maxDepth w (fN k t (p - k + 2)) V d ↔
        ∃ ch : List (Nat × List UInt8), SitesOK PT p (ch.map (·.1)) ∧ (∀ x ∈ ch, x.2 ∈ T) ∧
          w = walkOf k t p ch ∧ d + ch.length ≤ maxDepth) := by
  intro n
  induction n with
  | zero =>
    intro w hw t ht p hp V hV d
    have : w = [] := List.length_eq_zero_iff.mp (by omega)
    subst this
    constructor
    · intro h; exact absurd h (by simp [Reach])
    · rintro ⟨ch, _, _, h, _⟩
      exact absurd h.symm (walkOf_ne_nil k t p ch)
  | succ n ih =>
    intro w hw t ht p hp V hV d
    rw [st.reach_unfold ex maxDepth ht hp hV]
    constructor
    · rintro ⟨hd, rfl | ⟨q, tq, w', hn, htq, _, rfl, hr⟩⟩
      · exact ⟨[], trivial, by simp, rfl, by simpa using hd⟩
      · have := (ih w' (by simp at hw; omega) tq htq q hn.1 _ (st.fresh_step ht htq hp hn hV) (d + 1)).mp hr
        obtain ⟨ch, h1, h2, rfl, h4⟩ := this
        refine ⟨(q, tq) :: ch, ⟨hn, h1⟩, ?_, rfl, by simp; omega⟩
        intro x hx
        rcases List.mem_cons.mp hx with e | hx'
        · rw [e]; exact htq
        · exact h2 x hx'
    · rintro ⟨ch, h1, h2, rfl, h4⟩
      cases ch with
      | nil => exact ⟨by simpa using h4, Or.inl rfl⟩
      | cons x rest =>
        obtain ⟨q, tq⟩ := x
        obtain ⟨hn, h1'⟩ := h1
        have htq : tq ∈ T := h2 (q, tq) (List.mem_cons_self ..)
        refine ⟨by simp at h4; omega, Or.inr ⟨q, tq, walkOf k tq q rest, hn, htq, walkOf_ne_nil k tq q rest, rfl, ?_⟩⟩
        apply (ih _ (by simp [walkOf] at hw; omega) tq htq q hn.1 _ (st.fresh_step ht htq hp hn hV) (d + 1)).mpr
        exact ⟨rest, h1', fun x hx => h2 x (List.mem_cons_of_mem _ hx), rfl, by simp at h4; omega⟩

/-- the start of `pathsFrom` is fresh -/
theorem fresh_start (st : Strand k L g T PT T' PT') {t t2 : List UInt8} (ht : t ∈ T) (ht2 : t2 ∈ T) {p : Nat}
    (hp : p ∈ PT) : Fresh k L T [fN k t (p - k + 1), fN k t2 (p - k + 2)] p := by
  have hk5 := st.k5
  have hpe := st.pf.ends p hp
  intro t' ht' j hj1 hj2
  simp only [List.mem_cons, List.not_mem_nil, or_false]
  rintro (h | h)
  · have := (st.node_level ht' ht hj2 (by omega) h).1; omega
  · have := (st.node_level ht' ht2 hj2 (by omega) h).1; omega

/-- **the pairs found from the entry node of site `p`** -/
theorem found_strand (st : Strand k L g T PT T' PT') {starts ends : List Nat}
    (ex : Ext k starts ends T PT T' PT') (maxDepth : Nat) (comp : List (Nat × List Nat))
    {t : List UInt8} (ht : t ∈ T) {p : Nat} (hp : p ∈ PT) (ep : Nat × List Nat) :
    ep ∈ (succs (compactGraph g starts ends).1 (fN k t (p - k + 1))).flatMap (fun s =>
        explore (compactGraph g starts ends).1 comp ends maxDepth (edgeCount (compactGraph g starts ends).1 + 2) s
          [fN k t (p - k + 1), s] ([fN k t (p - k + 1), s] ++ (Assoc.lookup comp s).getD []) 0) ↔
      ∃ t2 ∈ T, ∃ ch : List (Nat × List UInt8), SitesOK PT p (ch.map (·.1)) ∧ (∀ x ∈ ch, x.2 ∈ T) ∧
        ch.length ≤ maxDepth ∧
        ep = ((walkOf k t2 p ch).getLastD 0,
          pathOf comp ([fN k t (p - k + 1), fN k t2 (p - k + 2)] ++ interior comp (fN k t2 (p - k + 2)))
            (walkOf k t2 p ch)) := by
  rw [mem_found, st.compact_entry starts ends ht hp]
  constructor
  · rintro ⟨s, hs, w, hr, he⟩
    obtain ⟨t2, ht2, rfl⟩ := (st.mem_succs_site ht hp s).mp hs
    obtain ⟨ch, h1, h2, rfl, h4⟩ := (st.reach_closed ex maxDepth w.length w (Nat.le_refl _) t2 ht2 p hp _
      (st.fresh_start ht ht2 hp) 0).mp hr
    exact ⟨t2, ht2, ch, h1, h2, by omega, he⟩
  · rintro ⟨t2, ht2, ch, h1, h2, h3, he⟩
    refine ⟨fN k t2 (p - k + 2), (st.mem_succs_site ht hp _).mpr ⟨t2, ht2, rfl⟩, walkOf k t2 p ch, ?_, he⟩
    exact (st.reach_closed ex maxDepth _ _ (Nat.le_refl _) t2 ht2 p hp _ (st.fresh_start ht ht2 hp) 0).mpr
      ⟨ch, h1, h2, rfl, by omega⟩

end Strand

end SkaModel.LOC
