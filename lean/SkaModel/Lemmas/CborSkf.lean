/-
The `.skf` decoder as a chain of prefix-safe parsers: `SkfFile.decode W'` on
the encoding of a file that is well formed at width `W` (`Valid W f`).
-/
import SkaModel.Lemmas.CborItems

namespace SkaModel.CB
open SkaModel SkaModel.Cbor

/-- the tail of `SkfFile.decode`: consistency checks and assembly -/
def final (W k : Nat) (rc : Bool) (names : List (List UInt8)) (kmers dim data counts : List Nat)
    (version : List UInt8) (kBits : Nat) : Parser SkfFile := fun bs =>
  match dim with
  | [r, c] =>
    if data.length != r * c then none
    else if data.any (· ≥ 256) then none
    else if kBits != W then none
    else
      match names.mapM (fun t => String.fromUTF8? (ByteArray.mk t.toArray)) with
      | none => none
      | some ns =>
        some ({ arr := { k := k, rc := rc, names := ns, kmers := kmers
                         variants := chunkRows r c (data.map UInt8.ofNat), counts := counts, kBits := kBits }
                version := version }, bs)
  | _ => none

/-- `SkfFile.decode` as a chain of combinators -/
def decode' (W : Nat) : Parser SkfFile :=
  headThen fun m n =>
  guardP (m != 5 || n != 8) <|
  expectThen kK <|
  andThen parseUint fun k =>
  expectThen kRc <|
  andThen parseBool fun rc =>
  expectThen kNames <|
  andThen (parseArray parseText) fun names =>
  expectThen kSplitKmers <|
  andThen (parseArray (parseKmer W)) fun kmers =>
  expectThen kVariants <|
  headThen fun m n =>
  guardP (m != 5 || n != 3) <|
  expectThen kV <|
  andThen parseUint fun v =>
  guardP (v != 1) <|
  expectThen kDim <|
  andThen (parseArray parseUint) fun dim =>
  expectThen kData <|
  andThen (parseArray parseUint) fun data =>
  expectThen kVariantCount <|
  andThen (parseArray parseUint) fun counts =>
  expectThen kSkaVersion <|
  andThen parseText fun version =>
  expectThen kKBits <|
  andThen parseUint fun kBits =>
  final W k rc names kmers dim data counts version kBits

theorem decode_eq (W : Nat) (bs : List UInt8) : SkfFile.decode W bs = decode' W bs := by
  rfl


/-- well-formedness of a file written at integer width `W` -/
structure Valid (W : Nat) (f : SkfFile) : Prop where
  kBits : f.arr.kBits = W
  width : W = 64 ∨ W = 128
  kmers : ∀ x ∈ f.arr.kmers, x < 2 ^ W
  k : f.arr.k < 2 ^ 64
  counts : ∀ c ∈ f.arr.counts, c < 2 ^ 64
  nNames : f.arr.names.length < 2 ^ 64
  nKmers : f.arr.kmers.length < 2 ^ 64
  nCounts : f.arr.counts.length < 2 ^ 64
  nRows : f.arr.variants.length < 2 ^ 64
  nCells : f.arr.variants.flatten.length < 2 ^ 64
  nameLen : ∀ n ∈ f.arr.names, n.utf8ByteSize < 2 ^ 64
  versionLen : f.version.length < 2 ^ 64
  rows : ∀ r ∈ f.arr.variants, r.length = f.arr.names.length

def nameBytes (f : SkfFile) : List (List UInt8) := f.arr.names.map (fun n => n.toUTF8.toList)
def cellNats (f : SkfFile) : List Nat := f.arr.variants.flatten.map (fun b => b.toNat)

/-- `SkfFile.encode`, grouped field by field -/
def encode' (f : SkfFile) : List UInt8 :=
  head 5 8 ++ (key kK ++ (uint f.arr.k ++ (key kRc ++ (Cbor.bool f.arr.rc ++
  (key kNames ++ ((head 4 f.arr.names.length ++ ((nameBytes f).map text).flatten) ++
  (key kSplitKmers ++ ((head 4 f.arr.kmers.length ++ (f.arr.kmers.map kmer).flatten) ++
  (key kVariants ++ (head 5 3 ++ (key kV ++ (uint 1 ++
  (key kDim ++ ((head 4 2 ++ ([f.arr.variants.length, f.arr.names.length].map uint).flatten) ++
  (key kData ++ ((head 4 f.arr.variants.flatten.length ++ ((cellNats f).map uint).flatten) ++
  (key kVariantCount ++ ((head 4 f.arr.counts.length ++ (f.arr.counts.map uint).flatten) ++
  (key kSkaVersion ++ (text f.version ++
  (key kKBits ++ (uint f.arr.kBits ++ []))))))))))))))))))))))

theorem encode_eq (f : SkfFile) : f.encode = encode' f := by
  unfold SkfFile.encode encode' nameBytes cellNats SkfFile.ncols
  simp only [List.map_map, Function.comp_def, List.map_cons, List.map_nil, List.flatten_cons,
    List.flatten_nil, List.append_nil]
  simp only [List.append_assoc]


theorem mapM_names (names : List String) :
    (names.map (fun n => n.toUTF8.toList)).mapM (fun t => String.fromUTF8? (ByteArray.mk t.toArray))
      = some names := by
  induction names with
  | nil => rfl
  | cons n ns ih =>
    rw [List.map_cons, List.mapM_cons, fromUTF8_toUTF8, ih]
    rfl

theorem any_ge_256 (l : List UInt8) : (l.map (fun b => b.toNat)).any (fun x => decide (x ≥ 256)) = false := by
  induction l with
  | nil => rfl
  | cons b l ih =>
    have := b.toNat_lt
    simp only [List.map_cons, List.any_cons, ih, Bool.or_false, decide_eq_false_iff_not]
    omega

theorem map_ofNat_toNat (l : List UInt8) : (l.map (fun b => b.toNat)).map UInt8.ofNat = l := by
  induction l with
  | nil => rfl
  | cons b l ih => simp [ih]

theorem final_eval {W : Nat} {f : SkfFile} (hv : Valid W f) (W' : Nat) (bs : List UInt8) :
    final W' f.arr.k f.arr.rc (nameBytes f) f.arr.kmers [f.arr.variants.length, f.arr.names.length]
      (cellNats f) f.arr.counts f.version f.arr.kBits bs
      = (if W' = W then some f else none).map (fun x => (x, bs)) := by
  have h1 : ((cellNats f).length != f.arr.variants.length * f.arr.names.length) = false := by
    rw [cellNats, List.length_map, flatten_length_of_rows _ _ hv.rows]
    simp
  have h2 : (cellNats f).any (fun x => decide (x ≥ 256)) = false := any_ge_256 _
  have h3 : chunkRows f.arr.variants.length f.arr.names.length ((cellNats f).map UInt8.ofNat) = f.arr.variants := by
    rw [cellNats, map_ofNat_toNat, chunkRows_flatten _ _ hv.rows]
  simp only [final, h1, h2, h3, nameBytes, mapM_names, Bool.false_eq_true, if_false, hv.kBits]
  by_cases hW : W' = W
  · subst hW
    simp [← hv.kBits]
  · have : (W != W') = true := by simp; exact fun h => hW h.symm
    simp [hW, this]


/-- all split k-mers are readable at width `W'` -/
def Fits (W' : Nat) (f : SkfFile) : Prop := ∀ x ∈ f.arr.kmers, x < 2 ^ 64 ∨ W' = 128

theorem kmer_lt_128 {W : Nat} {f : SkfFile} (hv : Valid W f) : ∀ x ∈ f.arr.kmers, x < 2 ^ 128 := by
  intro x hx
  have := hv.kmers x hx
  rcases hv.width with rfl | rfl
  · exact Nat.lt_trans this (by decide)
  · exact this

/-- the tail of the decoder after the k-mer array, on the tail of the encoding -/
theorem spec_kmers {W : Nat} {f : SkfFile} (hv : Valid W f) (W' : Nat) :
    Spec (parseArray (parseKmer W')) (head 4 f.arr.kmers.length ++ (f.arr.kmers.map kmer).flatten)
      (allSome (kmerRes W') f.arr.kmers) :=
  Spec.array hv.nKmers (Spec.many _ (fun x hx => spec_kmer W' x (kmer_lt_128 hv x hx)))

theorem allSome_kmers_fits {W' : Nat} {f : SkfFile} (h : Fits W' f) :
    allSome (kmerRes W') f.arr.kmers = some f.arr.kmers := by
  have := allSome_some (r := kmerRes W') (g := id) f.arr.kmers (fun x hx => by simp [kmerRes, h x hx])
  simpa using this

theorem allSome_kmers_not_fits {W' : Nat} {f : SkfFile} (h : ¬ Fits W' f) :
    allSome (kmerRes W') f.arr.kmers = none := by
  apply allSome_none
  apply Classical.byContradiction
  intro hc
  apply h
  intro x hx
  apply Classical.byContradiction
  intro hn
  exact hc ⟨x, hx, by simp [kmerRes, hn]⟩

theorem allSome_id {α : Type} (xs : List α) : allSome (fun x => some x) xs = some xs := by
  simpa using allSome_some (r := fun x => some x) (g := fun x => x) xs (fun _ _ => rfl)

theorem spec_uints (xs : List Nat) (h : ∀ x ∈ xs, x < 2 ^ 64) (hl : xs.length < 2 ^ 64) :
    Spec (parseArray parseUint) (head 4 xs.length ++ (xs.map uint).flatten) (some xs) := by
  have := Spec.array hl (Spec.many (r := fun x => some x) xs (fun x hx => spec_uint (h x hx)))
  rwa [allSome_id] at this

theorem spec_texts (xs : List (List UInt8)) (h : ∀ x ∈ xs, x.length < 2 ^ 64) (hl : xs.length < 2 ^ 64) :
    Spec (parseArray parseText) (head 4 xs.length ++ (xs.map text).flatten) (some xs) := by
  have := Spec.array hl (Spec.many (r := fun x => some x) xs (fun x hx => spec_text (h x hx)))
  rwa [allSome_id] at this

open Classical in
/-- behaviour of the decoder at width `W'` on a file written at width `W` -/
theorem decode'_spec {W : Nat} {f : SkfFile} (hv : Valid W f) (W' : Nat) :
    Spec (decode' W') (encode' f) (if Fits W' f ∧ W' = W then some f else none) := by
  have hnames : Spec (parseArray parseText)
      (head 4 f.arr.names.length ++ ((nameBytes f).map text).flatten) (some (nameBytes f)) := by
    have := spec_texts (nameBytes f)
      (by
        intro x hx
        simp only [nameBytes, List.mem_map] at hx
        obtain ⟨n, hn, rfl⟩ := hx
        rw [toUTF8_toList_length]
        exact hv.nameLen n hn)
      (by rw [nameBytes, List.length_map]; exact hv.nNames)
    have hl : (nameBytes f).length = f.arr.names.length := by rw [nameBytes, List.length_map]
    rwa [hl] at this
  have hdim : Spec (parseArray parseUint)
      (head 4 2 ++ ([f.arr.variants.length, f.arr.names.length].map uint).flatten)
      (some [f.arr.variants.length, f.arr.names.length]) :=
    spec_uints [f.arr.variants.length, f.arr.names.length]
      (by
        intro x hx
        simp only [List.mem_cons, List.not_mem_nil, or_false] at hx
        rcases hx with rfl | rfl
        · exact hv.nRows
        · exact hv.nNames)
      (by simp)
  have hdata : Spec (parseArray parseUint)
      (head 4 f.arr.variants.flatten.length ++ ((cellNats f).map uint).flatten) (some (cellNats f)) := by
    have := spec_uints (cellNats f)
      (by
        intro x hx
        simp only [cellNats, List.mem_map] at hx
        obtain ⟨b, _, rfl⟩ := hx
        exact Nat.lt_trans b.toNat_lt (by decide))
      (by rw [cellNats, List.length_map]; exact hv.nCells)
    have hl : (cellNats f).length = f.arr.variants.flatten.length := by rw [cellNats, List.length_map]
    rwa [hl] at this
  have hcounts := spec_uints f.arr.counts hv.counts hv.nCounts
  have hkb : f.arr.kBits < 2 ^ 64 := by
    rw [hv.kBits]
    rcases hv.width with rfl | rfl <;> decide
  unfold decode' encode'
  refine Spec.head (by decide) (by decide) (Spec.guard_false rfl ?_)
  refine Spec.expect (by decide) (Spec.andThen_some (spec_uint hv.k) ?_)
  refine Spec.expect (by decide) (Spec.andThen_some (spec_bool _) ?_)
  refine Spec.expect (by decide) (Spec.andThen_some hnames ?_)
  refine Spec.expect (by decide) ?_
  by_cases hfit : Fits W' f
  · have hk := spec_kmers hv W'
    rw [allSome_kmers_fits hfit] at hk
    refine Spec.andThen_some hk ?_
    refine Spec.expect (by decide) (Spec.head (by decide) (by decide) (Spec.guard_false rfl ?_))
    refine Spec.expect (by decide) (Spec.andThen_some (spec_uint (by decide)) (Spec.guard_false rfl ?_))
    refine Spec.expect (by decide) (Spec.andThen_some hdim ?_)
    refine Spec.expect (by decide) (Spec.andThen_some hdata ?_)
    refine Spec.expect (by decide) (Spec.andThen_some hcounts ?_)
    refine Spec.expect (by decide) (Spec.andThen_some (spec_text hv.versionLen) ?_)
    refine Spec.expect (by decide) (Spec.andThen_some (spec_uint hkb) ?_)
    refine Spec.pure (fun bs => ?_)
    rw [final_eval hv W' bs]
    simp [hfit]
  · have hk := spec_kmers hv W'
    rw [allSome_kmers_not_fits hfit] at hk
    simp only [hfit, false_and, if_false]
    exact Spec.andThen_none hk

end SkaModel.CB
