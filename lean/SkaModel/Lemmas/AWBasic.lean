/-
Basic facts for the `AlnWriter` refinement (`T04_writer`): contig offsets, disjointness of
contig ranges, and `getD` characterisations of `copyRef` and of the two folds of `finalise`.
-/
import SkaModel.Impl.RefSka
import SkaModel.Spec.WriterSpec

namespace SkaModel.AW

open SkaModel SkaModel.Spec

/-- size of contig `c` (0 when out of range) -/
def csize (ref : List (Array UInt8)) (c : Nat) : Nat := (ref.getD c #[]).size

theorem foldl_add_init (l : List Nat) (n : Nat) :
    l.foldl (· + ·) n = n + l.foldl (· + ·) 0 := by
  induction l generalizing n with
  | nil => simp
  | cons a l ih =>
    simp only [List.foldl_cons]
    rw [ih (n + a), ih (0 + a)]
    omega

theorem off_zero (ref : List (Array UInt8)) : contigOffset ref 0 = 0 := by
  simp [contigOffset]

theorem off_succ (ref : List (Array UInt8)) (c : Nat) :
    contigOffset ref (c + 1) = contigOffset ref c + csize ref c := by
  unfold contigOffset csize
  rw [List.take_add_one, List.map_append, List.foldl_append, List.getD_eq_getElem?_getD]
  cases hc : ref[c]? with
  | none => simp
  | some a => simp

theorem off_mono (ref : List (Array UInt8)) {c c' : Nat} (hcc : c ≤ c') :
    contigOffset ref c ≤ contigOffset ref c' := by
  induction c' with
  | zero =>
    have : c = 0 := by omega
    subst this; exact Nat.le_refl _
  | succ n ih =>
    by_cases hcn : c = n + 1
    · subst hcn; exact Nat.le_refl _
    · have := ih (by omega)
      rw [off_succ]; omega

theorem off_succ_le (ref : List (Array UInt8)) {c c' : Nat} (hcc : c < c') :
    contigOffset ref c + csize ref c ≤ contigOffset ref c' := by
  rw [← off_succ]; exact off_mono ref hcc

/-- total length of the output, as computed by `AlnWriter.new` -/
theorem total_eq (ref : List (Array UInt8)) :
    (ref.map (·.size)).foldl (· + ·) 0 = contigOffset ref ref.length := by
  simp [contigOffset]

theorem abs_lt_total (ref : List (Array UInt8)) {c p : Nat} (hc : c < ref.length)
    (hp : p < csize ref c) : contigOffset ref c + p < contigOffset ref ref.length := by
  have := off_succ_le ref hc
  omega

/-- the ranges of different contigs are disjoint: which copied range an absolute index is in -/
theorem region_iff (ref : List (Array UInt8)) {c c' p start stop : Nat}
    (hp : p < csize ref c') (hstop : stop ≤ csize ref c) :
    (contigOffset ref c + start ≤ contigOffset ref c' + p ∧
      contigOffset ref c' + p < contigOffset ref c + stop) ↔
    (c' = c ∧ start ≤ p ∧ p < stop) := by
  constructor
  · rintro ⟨h1, h2⟩
    by_cases hlt : c' < c
    · have := off_succ_le ref hlt; omega
    · by_cases hgt : c < c'
      · have := off_succ_le ref hgt; omega
      · have : c' = c := by omega
        subst this; omega
  · rintro ⟨rfl, h1, h2⟩; omega

theorem abs_inj (ref : List (Array UInt8)) {c c' p p' : Nat}
    (hp : p < csize ref c) (hp' : p' < csize ref c')
    (heq : contigOffset ref c + p = contigOffset ref c' + p') : c = c' ∧ p = p' := by
  have := (region_iff ref (c := c') (c' := c) (p := p) (start := p') (stop := p' + 1) hp
    (by omega)).1 (by omega)
  omega

theorem getD_setIfInBounds (a : Array UInt8) (i j : Nat) (v d : UInt8) :
    (a.setIfInBounds i v).getD j d = if i = j ∧ j < a.size then v else a.getD j d := by
  rw [Array.getD_eq_getD_getElem?, Array.getD_eq_getD_getElem?, Array.getElem?_setIfInBounds]
  by_cases hij : i = j
  · subst hij
    by_cases hi : i < a.size
    · simp [hi]
    · simp [hi]
  · simp [hij]

theorem copyRef_size (out contig : Array UInt8) (off start stop : Nat) :
    (AlnWriter.copyRef out contig off start stop).size = out.size := by
  unfold AlnWriter.copyRef
  generalize List.range (stop - start) = l
  induction l generalizing out with
  | nil => rfl
  | cons t l ih => simp only [List.foldl_cons]; rw [ih]; simp

theorem copyRef_getD (out contig : Array UInt8) (off start stop i : Nat) (d : UInt8)
    (hi : i < out.size) :
    (AlnWriter.copyRef out contig off start stop).getD i d =
      if off + start ≤ i ∧ i < off + stop then contig.getD (i - off) 0 else out.getD i d := by
  unfold AlnWriter.copyRef
  have key : ∀ n, ((List.range n).foldl (fun o t => o.setIfInBounds (off + start + t)
        (contig.getD (start + t) 0)) out).size = out.size ∧
      ((List.range n).foldl (fun o t => o.setIfInBounds (off + start + t)
        (contig.getD (start + t) 0)) out).getD i d =
      if off + start ≤ i ∧ i < off + start + n then contig.getD (i - off) 0 else out.getD i d := by
    intro n
    induction n with
    | zero =>
      refine ⟨rfl, ?_⟩
      have : ¬ (off + start ≤ i ∧ i < off + start + 0) := by omega
      rw [if_neg this]; rfl
    | succ n ih =>
      obtain ⟨ih1, ih2⟩ := ih
      rw [List.range_succ, List.foldl_append]
      simp only [List.foldl_cons, List.foldl_nil]
      refine ⟨by rw [Array.size_setIfInBounds, ih1], ?_⟩
      rw [getD_setIfInBounds, ih1, ih2]
      by_cases h1 : off + start + n = i
      · have e : start + n = i - off := by omega
        have c2 : off + start ≤ i ∧ i < off + start + (n + 1) := by omega
        rw [if_pos ⟨h1, hi⟩, if_pos c2, e]
      · rw [if_neg (fun h => h1 h.1)]
        by_cases c1 : off + start ≤ i ∧ i < off + start + n
        · have c2 : off + start ≤ i ∧ i < off + start + (n + 1) := by omega
          rw [if_pos c1, if_pos c2]
        · have c2 : ¬ (off + start ≤ i ∧ i < off + start + (n + 1)) := by omega
          rw [if_neg c1, if_neg c2]
  rw [(key (stop - start)).2]
  by_cases c1 : off + start ≤ i ∧ i < off + stop
  · have c2 : off + start ≤ i ∧ i < off + start + (stop - start) := by omega
    rw [if_pos c1, if_pos c2]
  · have c2 : ¬ (off + start ≤ i ∧ i < off + start + (stop - start)) := by omega
    rw [if_neg c1, if_neg c2]

/-- `copyRef` from the contig at its own offset, queried at position `p` of contig `c'` -/
theorem copyRef_query (ref : List (Array UInt8)) (out : Array UInt8) {c c' p : Nat}
    (start stop : Nat) (hsize : out.size = contigOffset ref ref.length)
    (hc' : c' < ref.length) (hp : p < csize ref c') (hstop : stop ≤ csize ref c) :
    (AlnWriter.copyRef out (ref.getD c #[]) (contigOffset ref c) start stop).getD
        (contigOffset ref c' + p) GAP =
      if c' = c ∧ start ≤ p ∧ p < stop then (ref.getD c' #[]).getD p 0
      else out.getD (contigOffset ref c' + p) GAP := by
  rw [copyRef_getD _ _ _ _ _ _ _ (by rw [hsize]; exact abs_lt_total ref hc' hp)]
  have := region_iff ref (c := c) (c' := c') (p := p) (start := start) (stop := stop) hp hstop
  by_cases hr : c' = c ∧ start ≤ p ∧ p < stop
  · rw [if_pos hr, if_pos (this.2 hr)]
    obtain ⟨rfl, _, _⟩ := hr
    congr 1; omega
  · rw [if_neg hr, if_neg (fun h => hr (this.1 h))]

/-- the middle-base pass of `finalise` -/
theorem midFold_size (l : List (UInt8 × Nat)) (a : Array UInt8) :
    (l.foldl (fun o bp => o.setIfInBounds bp.2 bp.1) a).size = a.size := by
  induction l generalizing a with
  | nil => rfl
  | cons x l ih => simp only [List.foldl_cons]; rw [ih]; simp

theorem midFold_none (l : List (UInt8 × Nat)) (a : Array UInt8) (i : Nat) (d : UInt8)
    (hno : ∀ x ∈ l, x.2 ≠ i) :
    (l.foldl (fun o bp => o.setIfInBounds bp.2 bp.1) a).getD i d = a.getD i d := by
  induction l generalizing a with
  | nil => rfl
  | cons x l ih =>
    simp only [List.foldl_cons]
    rw [ih _ (fun y hy => hno y (List.mem_cons_of_mem _ hy)), getD_setIfInBounds]
    have := hno x List.mem_cons_self
    rw [if_neg (fun h => this h.1)]

theorem midFold_some (l : List (UInt8 × Nat)) (a : Array UInt8) (i : Nat) (d b : UInt8)
    (hi : i < a.size) (hex : ∃ x ∈ l, x.2 = i) (hall : ∀ x ∈ l, x.2 = i → x.1 = b) :
    (l.foldl (fun o bp => o.setIfInBounds bp.2 bp.1) a).getD i d = b := by
  induction l generalizing a with
  | nil => obtain ⟨x, hx, _⟩ := hex; cases hx
  | cons x l ih =>
    simp only [List.foldl_cons]
    by_cases hl : ∃ y ∈ l, y.2 = i
    · exact ih _ (by simpa using hi) hl (fun y hy => hall y (List.mem_cons_of_mem _ hy))
    · have hx : x.2 = i := by
        obtain ⟨y, hy, hyi⟩ := hex
        rcases List.mem_cons.1 hy with rfl | hy'
        · exact hyi
        · exact absurd ⟨y, hy', hyi⟩ hl
      rw [midFold_none _ _ _ _ (fun y hy hyi => hl ⟨y, hy, hyi⟩), getD_setIfInBounds,
        if_pos ⟨hx, hi⟩]
      exact hall x List.mem_cons_self hx

/-- the repeat-mask pass of `finalise` -/
theorem repFold_size (reps : List Nat) (a : Array UInt8) :
    (reps.foldl (fun o r => if o.getD r GAP != GAP then o.setIfInBounds r 78 else o) a).size
      = a.size := by
  induction reps generalizing a with
  | nil => rfl
  | cons r reps ih =>
    simp only [List.foldl_cons]; rw [ih]
    split <;> simp

theorem repStep_getD (a : Array UInt8) (r i : Nat) :
    (if a.getD r GAP != GAP then a.setIfInBounds r 78 else a).getD i GAP
      = if r = i ∧ a.getD i GAP ≠ GAP then 78 else a.getD i GAP := by
  by_cases hg : a.getD r GAP = GAP
  · have : (a.getD r GAP != GAP) = false := by rw [hg]; decide
    rw [this, if_neg (by decide)]
    by_cases hri : r = i
    · subst hri; rw [if_neg (fun h => h.2 hg)]
    · rw [if_neg (fun h => hri h.1)]
  · have : (a.getD r GAP != GAP) = true := bne_iff_ne.2 hg
    rw [this, if_pos rfl, getD_setIfInBounds]
    by_cases hri : r = i
    · subst hri
      have hsz : r < a.size := by
        apply Classical.byContradiction
        intro hsz
        apply hg
        unfold Array.getD
        rw [dif_neg hsz]
      rw [if_pos ⟨rfl, hsz⟩, if_pos ⟨rfl, hg⟩]
    · rw [if_neg (fun h => hri h.1), if_neg (fun h => hri h.1)]

theorem repFold_getD' (reps : List Nat) (a : Array UInt8) (i : Nat) :
    (reps.foldl (fun o r => if o.getD r GAP != GAP then o.setIfInBounds r 78 else o) a).getD i GAP
      = if a.getD i GAP ≠ GAP ∧ i ∈ reps then 78 else a.getD i GAP := by
  induction reps generalizing a with
  | nil => simp
  | cons r reps ih =>
    simp only [List.foldl_cons]
    rw [ih, repStep_getD]
    have h78 : (78 : UInt8) ≠ GAP := by decide
    generalize a.getD i GAP = x
    by_cases hri : r = i
    · subst hri
      by_cases hg : x = GAP
      · simp [hg]
      · simp [hg, h78]
    · have hir : ¬ i = r := fun h => hri h.symm
      by_cases hg : x = GAP
      · simp [hg, hri]
      · simp [hg, hri, hir]

theorem repFold_getD (reps : List Nat) (a : Array UInt8) (i : Nat) :
    (reps.foldl (fun o r => if o.getD r GAP != GAP then o.setIfInBounds r 78 else o) a).getD i GAP
      = if a.getD i GAP != GAP && reps.contains i then 78 else a.getD i GAP := by
  rw [repFold_getD']
  generalize a.getD i GAP = x
  by_cases hg : x = GAP
  · simp [hg]
  · by_cases hm : i ∈ reps
    · simp [hg, hm]
    · simp [hg, hm]

end SkaModel.AW
