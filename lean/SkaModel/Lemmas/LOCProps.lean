/-
C17 completeness — the statements of Stages 1 and 2 in the vocabulary of the program: nodes as
`encodeKmer` of windows (`fwN`, `rvN`), successor counts, colour sets, entry and exit nodes.
-/
import SkaModel.Lemmas.LOCFinal
import SkaModel.Lemmas.LOCLink
import SkaModel.Lemmas.LOCSpan
import SkaModel.Lemmas.LOCCheck

namespace SkaModel.LOC

open SkaModel SkaModel.Spec SkaModel.Props.C16 SkaModel.Skalo SkaModel.Props.C17G SkaModel.LOG

theorem fwN_eq {W k : Nat} (hW : 2 * k ≤ W) (s : List UInt8) (j : Nat) : fwN W k s j = fN k s j := by
  unfold fwN fN
  exact enc_win W s j (k - 1) (by omega)

theorem rvN_eq {W k : Nat} (hW : 2 * k ≤ W) {s : List UInt8} (hb : AllBase s) (j : Nat) :
    rvN W k s j = rN k s j := by
  unfold rvN rN
  rw [enc_eq W _ (by rw [rcSeq_length]; have := win_length_le s j (k - 1); omega), cds_rcSeq (hb.win _ _)]

/-- two strictly increasing lists with the same members are equal -/
theorem eq_of_sorted_mem {l1 l2 : List Nat} (h1 : l1.Pairwise (· < ·)) (h2 : l2.Pairwise (· < ·))
    (h : ∀ i, i ∈ l1 ↔ i ∈ l2) : l1 = l2 := by
  have hp : l1.Perm l2 := by
    rw [List.perm_ext_iff_of_nodup (h1.imp (fun hab => Nat.ne_of_lt hab)) (h2.imp (fun hab => Nat.ne_of_lt hab))]
    exact h
  exact hp.eq_of_pairwise (fun a b _ _ hab hba => by omega) h1 h2

namespace Strand

variable {k L : Nat} {g : Graph} {T T' : List (List UInt8)} {PT PT' : List Nat}

/-- on a strand: a node has at least two successors iff the next letter is a site -/
theorem branching_iff (st : Strand k L g T PT T' PT') {t : List UInt8} (ht : t ∈ T) {j : Nat} (hj : j + k ≤ L) :
    2 ≤ (succs g (fN k t j)).length ↔ j + k - 1 ∈ PT := by
  have hk5 := st.k5
  constructor
  · intro h2
    apply Classical.byContradiction
    intro hno
    rw [st.succs_single ht hj hno] at h2
    simp at h2
  · intro hp
    have hpe := st.pf.ends _ hp
    have := st.succs_site_two ht hp
    rw [show j + k - 1 - k + 1 = j by omega] at this
    exact this

end Strand

end SkaModel.LOC
