/-
C18 completeness — the abstract shape of the graph of an indel-planted family: every node with two or more
successors is the entry node of a bubble; a bubble has two arms (chains of single-successor nodes) that meet
again at its exit node.  `identify_good_kmers` on such a graph.
-/
import SkaModel.Lemmas.LOCProps

namespace SkaModel.LOE

open SkaModel SkaModel.Skalo SkaModel.Props.C17G SkaModel.LOG SkaModel.LOC

/-- a bubble: entry node, exit node, the nodes strictly between them on the two arms -/
structure Bub where
  en : Nat
  ex : Nat
  a : List Nat
  b : List Nat
  deriving Repr, DecidableEq

def Bub.ha (β : Bub) : Nat := β.a.headD 0
def Bub.hb (β : Bub) : Nat := β.b.headD 0
def Bub.la (β : Bub) : Nat := β.a.getLastD 0
def Bub.lb (β : Bub) : Nat := β.b.getLastD 0
/-- the two paths of the bubble -/
def Bub.pa (β : Bub) : List Nat := β.en :: β.a ++ [β.ex]
def Bub.pb (β : Bub) : List Nat := β.en :: β.b ++ [β.ex]

/-- the graph `g` is a graph of bubbles `bs` -/
structure BG (g : Graph) (bs : List Bub) : Prop where
  nd : ∀ x, (succs g x).Nodup
  lk : ∀ x, Assoc.lookup g x = if succs g x = [] then none else some (succs g x)
  knd : (g.map (·.1)).Nodup
  single : ∀ x, 2 ≤ (succs g x).length → ∃ β ∈ bs, x = β.en
  lenA : ∀ β ∈ bs, 1 ≤ β.a.length
  lenB : ∀ β ∈ bs, 1 ≤ β.b.length
  ensucc : ∀ β ∈ bs, succs g β.en = [β.ha, β.hb] ∨ succs g β.en = [β.hb, β.ha]
  chA : ∀ β ∈ bs, Chain1 g (β.a ++ [β.ex])
  chB : ∀ β ∈ bs, Chain1 g (β.b ++ [β.ex])
  ndA : ∀ β ∈ bs, (β.en :: β.a ++ [β.ex]).Nodup
  ndB : ∀ β ∈ bs, (β.en :: β.b ++ [β.ex]).Nodup
  lastne : ∀ β ∈ bs, β.la ≠ β.lb
  armA : ∀ β ∈ bs, ∀ x ∈ β.a, ∀ β' ∈ bs, x ≠ β'.en ∧ x ≠ β'.ex
  armB : ∀ β ∈ bs, ∀ x ∈ β.b, ∀ β' ∈ bs, x ≠ β'.en ∧ x ≠ β'.ex
  predA : ∀ β ∈ bs, ∀ y, β.ha ∈ succs g y → y = β.en
  predB : ∀ β ∈ bs, ∀ y, β.hb ∈ succs g y → y = β.en
  predX : ∀ β ∈ bs, ∀ y, β.ex ∈ succs g y → y ∈ β.a ∨ y ∈ β.b
  enInj : ∀ β ∈ bs, ∀ β' ∈ bs, β.en = β'.en → β = β'

/-- the entry and exit nodes found: the entries and the exits of the bubbles -/
structure Ext (bs : List Bub) (starts ends : List Nat) : Prop where
  st : ∀ x, x ∈ starts ↔ ∃ β ∈ bs, x = β.en
  en : ∀ x, x ∈ ends ↔ ∃ β ∈ bs, x = β.ex
  snd : starts.Nodup

namespace BG

variable {g : Graph} {bs : List Bub}

theorem lookup_some_iff (bg : BG g bs) (x : Nat) (l : List Nat) :
    Assoc.lookup g x = some l ↔ succs g x = l ∧ l ≠ [] := by
  rw [bg.lk]
  by_cases h : succs g x = []
  · rw [if_pos h]
    constructor
    · intro e; exact absurd e (by simp)
    · rintro ⟨e, hne⟩; rw [h] at e; exact absurd e.symm hne
  · rw [if_neg h]
    constructor
    · intro e
      have := Option.some.inj e
      exact ⟨this, by rw [← this]; exact h⟩
    · rintro ⟨e, _⟩; rw [e]

theorem a_ne (bg : BG g bs) {β : Bub} (hβ : β ∈ bs) : β.a ≠ [] := by
  intro e
  have := bg.lenA β hβ
  rw [e] at this
  simp at this

theorem b_ne (bg : BG g bs) {β : Bub} (hβ : β ∈ bs) : β.b ≠ [] := by
  intro e
  have := bg.lenB β hβ
  rw [e] at this
  simp at this

theorem a_eq (bg : BG g bs) {β : Bub} (hβ : β ∈ bs) : β.a = β.ha :: β.a.tail := by
  unfold Bub.ha
  cases h : β.a with
  | nil => exact absurd h (bg.a_ne hβ)
  | cons x t => rfl

theorem b_eq (bg : BG g bs) {β : Bub} (hβ : β ∈ bs) : β.b = β.hb :: β.b.tail := by
  unfold Bub.hb
  cases h : β.b with
  | nil => exact absurd h (bg.b_ne hβ)
  | cons x t => rfl

theorem ha_mem (bg : BG g bs) {β : Bub} (hβ : β ∈ bs) : β.ha ∈ β.a := by
  rw [bg.a_eq hβ]; exact List.mem_cons_self ..

theorem hb_mem (bg : BG g bs) {β : Bub} (hβ : β ∈ bs) : β.hb ∈ β.b := by
  rw [bg.b_eq hβ]; exact List.mem_cons_self ..

theorem ha_ne_hb (bg : BG g bs) {β : Bub} (hβ : β ∈ bs) : β.ha ≠ β.hb := by
  have hnd := bg.nd β.en
  rcases bg.ensucc β hβ with h | h <;> rw [h] at hnd
  · intro e; rw [e] at hnd; simp at hnd
  · intro e; rw [e] at hnd; simp at hnd

theorem en_two (bg : BG g bs) {β : Bub} (hβ : β ∈ bs) : (succs g β.en).length = 2 := by
  rcases bg.ensucc β hβ with h | h <;> rw [h] <;> rfl

/-- an entry node has no unique successor -/
theorem en_not_single (bg : BG g bs) {β : Bub} (hβ : β ∈ bs) (n : Nat) : Assoc.lookup g β.en ≠ some [n] := by
  intro h
  have := (bg.lookup_some_iff _ _).mp h
  have h2 := bg.en_two hβ
  rw [this.1] at h2
  simp at h2

/-- **`identify_good_kmers` on a graph of bubbles** whose arms start with k-mers of different colours and
whose exits are the reverse complements of the entries -/
theorem identify (bg : BG g bs) {W kG : Nat} {col : Colours}
    (hcol : ∀ β ∈ bs, ∃ s1 s2, Assoc.lookup col (combineKmers W β.en β.ha) = some s1 ∧
      Assoc.lookup col (combineKmers W β.en β.hb) = some s2 ∧ s1 ≠ s2)
    (htw : ∀ β ∈ bs, ∃ β' ∈ bs, revComp W β.en kG = β'.ex)
    (htw' : ∀ β' ∈ bs, ∃ β ∈ bs, revComp W β.en kG = β'.ex) :
    ∃ starts ends, identifyGoodKmers W kG g col = some (starts, ends) ∧ Ext bs starts ends := by
  have hgo : ∀ kn ∈ g, kn.2.length > 1 → identifyGoodKmers.go W col kn (pairsOf kn.2) = some true := by
    intro kn hkn hl
    obtain ⟨hs, _⟩ := mem_graph_succs bg.knd bg.lk kn hkn
    obtain ⟨β, hβ, hx⟩ := bg.single kn.1 (by rw [← hs]; exact hl)
    obtain ⟨s1, s2, h1, h2, hne⟩ := hcol β hβ
    rw [← hx] at h1 h2
    rcases bg.ensucc β hβ with h | h
    · exact go_first W col kn β.ha β.hb [] (by rw [hs, hx, h]) s1 s2 h1 h2 hne
    · exact go_first W col kn β.hb β.ha [] (by rw [hs, hx, h]) s2 s1 h2 h1 (fun e => hne e.symm)
  refine ⟨_, _, identify_eq W kG g col hgo, ?_⟩
  have hst : ∀ x, x ∈ (g.filter (fun kn => decide (kn.2.length > 1))).map (·.1) ↔ ∃ β ∈ bs, x = β.en := by
    intro x
    rw [List.mem_map]
    constructor
    · rintro ⟨kn, hkn, rfl⟩
      rw [List.mem_filter, decide_eq_true_eq] at hkn
      apply bg.single
      rw [← (mem_graph_succs bg.knd bg.lk kn hkn.1).1]
      exact hkn.2
    · rintro ⟨β, hβ, rfl⟩
      have h2 := bg.en_two hβ
      have hne : succs g β.en ≠ [] := by
        intro e; rw [e] at h2; simp at h2
      have hl := bg.lk β.en
      rw [if_neg hne] at hl
      refine ⟨(β.en, succs g β.en), ?_, rfl⟩
      rw [List.mem_filter, decide_eq_true_eq]
      exact ⟨Assoc.mem_of_lookup hl, by show 1 < (succs g β.en).length; omega⟩
  refine ⟨hst, ?_, ?_⟩
  · intro x
    rw [List.mem_map]
    constructor
    · rintro ⟨e, he, rfl⟩
      obtain ⟨β, hβ, rfl⟩ := (hst e).mp he
      obtain ⟨β', hβ', e'⟩ := htw β hβ
      exact ⟨β', hβ', e'⟩
    · rintro ⟨β', hβ', rfl⟩
      obtain ⟨β, hβ, e'⟩ := htw' β' hβ'
      exact ⟨β.en, (hst _).mpr ⟨β, hβ, rfl⟩, e'⟩
  · have h1 : ((g.filter (fun kn => decide (kn.2.length > 1))).map (·.1)).Sublist (g.map (·.1)) :=
      (List.filter_sublist).map _
    exact h1.nodup bg.knd

end BG

end SkaModel.LOE
