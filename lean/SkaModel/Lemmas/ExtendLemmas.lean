/-
`MergeSkaDict::extend` refines `Table.concat` (dictionary level).
-/
import SkaModel.Lemmas.MergeLemmas

namespace SkaModel

open Spec

/-- the dictionary `extend` returns -/
def MDict.extendKmers (d o : MDict) : Assoc Nat (List UInt8) :=
  d.kmers.map (fun kv => (kv.1, kv.2 ++ (Assoc.lookup o.kmers kv.1).getD (List.replicate o.nSamples 0)))
  ++ (o.kmers.filter (fun kv => !(Assoc.keys d.kmers).contains kv.1)).map
      (fun kv => (kv.1, List.replicate d.nSamples 0 ++ kv.2))

def MDict.extendResult (d o : MDict) : MDict :=
  { d with names := d.names ++ o.names, nSamples := d.nSamples + o.nSamples, kmers := d.extendKmers o }

theorem extend_eq (d o : MDict) (hd : d.WF) (ho : o.WF) (hk : o.k = d.k) (hrc : o.rc = d.rc) :
    d.extend o = .ok (d.extendResult o) := by
  unfold MDict.extend
  simp only [hk, hrc, bne_self_eq_false, Bool.false_eq_true, if_false]
  congr 1
  simp only [MDict.extendResult, MDict.extendKmers]
  congr 1
  rw [Assoc.extFold_eq _ _ _ hd.nodup ho.nodup]
  simp only [List.map_append, List.map_map]
  congr 1
  · apply List.map_congr_left
    intro kv hkv
    have hl := hd.rowLen kv hkv
    simp only [Function.comp_def]
    cases hlk : Assoc.lookup o.kmers kv.1 with
    | none =>
      simp only [Option.getD_none, List.append_nil]
      by_cases hz : o.nSamples = 0
      · simp [hl, hz]
      · simp [hl, hz]
    | some v =>
      have hv := ho.rowLen _ (Assoc.mem_of_lookup_J hlk)
      simp only [Option.getD_some, List.length_append, hl]
      simp at hv
      simp [hv]
  · apply List.map_congr_left
    intro kv hkv
    have hv := ho.rowLen kv (List.mem_filter.mp hkv).1
    simp [hv]

theorem extendResult_wf (d o : MDict) (hd : d.WF) (ho : o.WF) : (d.extendResult o).WF where
  nS := by simp [MDict.extendResult, hd.nS, ho.nS]
  rowLen := by
    intro kv hkv
    simp only [MDict.extendResult, MDict.extendKmers, List.mem_append, List.mem_map] at hkv ⊢
    rcases hkv with ⟨x, hx, rfl⟩ | ⟨x, hx, rfl⟩
    · have hl := hd.rowLen x hx
      cases hlk : Assoc.lookup o.kmers x.1 with
      | none => simp [hl]
      | some v =>
        have hv := ho.rowLen _ (Assoc.mem_of_lookup_J hlk)
        simp at hv
        simp [hl, hv]
    · have hv := ho.rowLen x (List.mem_filter.mp hx).1
      simp [hv]
  nodup := by
    simp only [MDict.extendResult, MDict.extendKmers, Assoc.keys_append]
    rw [Assoc.keys_map_val (fun kv => kv.2 ++ (Assoc.lookup o.kmers kv.1).getD (List.replicate o.nSamples 0)),
      Assoc.keys_map_val (fun kv => List.replicate d.nSamples 0 ++ kv.2)]
    rw [List.nodup_append]
    refine ⟨hd.nodup, ?_, ?_⟩
    · refine List.Nodup.sublist ?_ ho.nodup
      exact List.Sublist.map _ List.filter_sublist
    · intro a ha b hb e
      simp only [Assoc.keys, List.mem_map, List.mem_filter] at hb
      obtain ⟨x, ⟨_, hx⟩, rfl⟩ := hb
      simp only [List.contains_eq_mem, Bool.not_eq_true', decide_eq_false_iff_not] at hx
      exact hx (e ▸ ha)

theorem extendResult_cells (d o : MDict) (hd : d.Cells) (ho : o.Cells) : (d.extendResult o).Cells := by
  intro kv hkv b hb
  simp only [MDict.extendResult, MDict.extendKmers, List.mem_append, List.mem_map] at hkv
  rcases hkv with ⟨x, hx, rfl⟩ | ⟨x, hx, rfl⟩
  · simp only [List.mem_append] at hb
    rcases hb with hb | hb
    · exact hd x hx b hb
    · cases hlk : Assoc.lookup o.kmers x.1 with
      | none =>
        rw [hlk] at hb
        simp only [Option.getD_none, List.mem_replicate] at hb
        exact Or.inl hb.2
      | some v =>
        rw [hlk] at hb
        exact ho _ (Assoc.mem_of_lookup_J hlk) b hb
  · simp only [List.mem_append, List.mem_replicate] at hb
    rcases hb with hb | hb
    · exact Or.inl hb.2
    · exact ho x (List.mem_filter.mp hx).1 b hb

theorem MDict.abs_keys (d : MDict) : d.abs.keys = Assoc.keys d.kmers := by
  simp [MDict.abs, Table.keys, Assoc.keys, List.map_map, Function.comp_def]

theorem MDict.abs_width (d : MDict) (hd : d.WF) : d.abs.width = d.nSamples := by
  simp [MDict.abs, Table.width, hd.nS]

theorem MDict.abs_lookup (d : MDict) (k : Nat) :
    d.abs.lookupRow k = (Assoc.lookup d.kmers k).map (fun r => r.map fixCell) :=
  Assoc.lookup_map_val _ _ _

/-- one `extend` step is column concatenation of the tables the dictionaries stand for -/
theorem extendResult_abs (d o : MDict) (hd : d.WF) (ho : o.WF) :
    (d.extendResult o).abs = d.abs.concat o.abs := by
  show Table.mk _ _ = Table.mk _ _
  congr 1
  have h1 : d.abs.keys.Nodup := by rw [MDict.abs_keys]; exact hd.nodup
  have h2 : o.abs.keys.Nodup := by rw [MDict.abs_keys]; exact ho.nodup
  change _ = (d.abs.concat o.abs).rows
  rw [Table.concat_rows_eq _ _ h1 h2, MDict.abs_width d hd, MDict.abs_width o ho, MDict.abs_keys]
  simp only [MDict.extendResult, MDict.extendKmers, List.map_append, List.map_map]
  congr 1
  · simp only [MDict.abs, List.map_map]
    apply List.map_congr_left
    intro kv _
    simp only [Function.comp_def, List.map_append]
    have := MDict.abs_lookup o kv.1
    simp only [MDict.abs] at this
    rw [this]
    cases Assoc.lookup o.kmers kv.1 with
    | none => simp [fixCell_zero, gap_eq]
    | some v => simp
  · simp only [MDict.abs, List.filter_map, List.map_map]
    apply List.map_congr_left
    intro kv _
    simp [fixCell_zero, gap_eq]

theorem extend_refines (d o : MDict) (hd : d.WF) (ho : o.WF) (hk : o.k = d.k) (hrc : o.rc = d.rc) :
    ∃ d', d.extend o = .ok d' ∧ d'.WF ∧ d'.k = d.k ∧ d'.rc = d.rc ∧ d'.names = d.names ++ o.names
      ∧ d'.abs = d.abs.concat o.abs ∧ (d.Cells → o.Cells → d'.Cells) :=
  ⟨_, extend_eq d o hd ho hk hrc, extendResult_wf d o hd ho, rfl, rfl, rfl, extendResult_abs d o hd ho,
    extendResult_cells d o⟩

end SkaModel
