/-
The dictionary loop of `ska build` over an abstract stream of observations
`(key, middle base, palindrome flag)`: after any stream in which the palindrome
flag is a function of the key, the dictionary holds, for every key, the IUPAC
letter of the union of the observed base sets, and the `panic!` is not reached.
-/
import SkaModel.Impl.SkaDict
import SkaModel.Spec.Dict
import SkaModel.Lemmas.Assoc
import SkaModel.Props.C15

namespace SkaModel

open SkaModel.Spec SkaModel.Props.C15

/-! ### `maskOf` -/

theorem foldl_or_acc (l : List (Nat × Nat)) (acc : Nat) :
    l.foldl (fun m o => m ||| o.2) acc = acc ||| l.foldl (fun m o => m ||| o.2) 0 := by
  induction l generalizing acc with
  | nil => simp
  | cons o os ih =>
    simp only [List.foldl_cons]
    rw [ih (acc ||| o.2), ih (0 ||| o.2), Nat.zero_or, Nat.or_assoc]

theorem maskOf_nil (key : Nat) : maskOf [] key = 0 := rfl

theorem maskOf_cons (o : Nat × Nat) (os : List (Nat × Nat)) (key : Nat) :
    maskOf (o :: os) key = if o.1 = key then o.2 ||| maskOf os key else maskOf os key := by
  unfold maskOf
  by_cases h : o.1 = key
  · have hb : (o.1 == key) = true := by simpa using h
    have hf : List.filter (fun x : Nat × Nat => x.1 == key) (o :: os)
        = o :: List.filter (fun x : Nat × Nat => x.1 == key) os := by
      simp [List.filter, hb]
    rw [if_pos h, hf, List.foldl_cons, foldl_or_acc, Nat.zero_or]
  · have hb : (o.1 == key) = false := by simpa using h
    have hf : List.filter (fun x : Nat × Nat => x.1 == key) (o :: os)
        = List.filter (fun x : Nat × Nat => x.1 == key) os := by
      simp [List.filter, hb]
    rw [if_neg h, hf]

theorem maskOf_snoc (os : List (Nat × Nat)) (o : Nat × Nat) (key : Nat) :
    maskOf (os ++ [o]) key = if o.1 = key then maskOf os key ||| o.2 else maskOf os key := by
  unfold maskOf
  rw [List.filter_append, List.foldl_append]
  by_cases h : o.1 = key
  · have hb : (o.1 == key) = true := by simpa using h
    have hf : List.filter (fun x : Nat × Nat => x.1 == key) [o] = [o] := by
      simp [List.filter, hb]
    rw [if_pos h, hf]
    rfl
  · have hb : (o.1 == key) = false := by simpa using h
    have hf : List.filter (fun x : Nat × Nat => x.1 == key) [o] = [] := by
      simp [List.filter, hb]
    rw [if_neg h, hf]
    rfl

/-- a key with an observation of non-empty base set has a non-empty base set -/
theorem maskOf_ne_zero_of_mem {os : List (Nat × Nat)} {o : Nat × Nat} (hm : o ∈ os)
    (h0 : o.2 ≠ 0) : maskOf os o.1 ≠ 0 := by
  induction os with
  | nil => cases hm
  | cons x xs ih =>
    rw [maskOf_cons]
    rcases List.mem_cons.1 hm with rfl | hm'
    · rw [if_pos rfl]
      intro h
      exact h0 (Nat.or_eq_zero_iff.1 h).1
    · by_cases hx : x.1 = o.1
      · rw [if_pos hx]
        intro h
        exact ih hm' (Nat.or_eq_zero_iff.1 h).2
      · rw [if_neg hx]; exact ih hm'

/-- a key without observations has the empty base set -/
theorem maskOf_eq_zero_of_not_mem {os : List (Nat × Nat)} {key : Nat}
    (h : ∀ o ∈ os, o.1 ≠ key) : maskOf os key = 0 := by
  induction os with
  | nil => rfl
  | cons x xs ih =>
    rw [maskOf_cons, if_neg (h x List.mem_cons_self)]
    exact ih (fun o ho => h o (List.mem_cons_of_mem _ ho))

/-! ### `distinctKeys` -/

theorem distinctKeys_foldl (os : List (Nat × Nat)) (acc : List Nat) (hacc : acc.Nodup) :
    (os.foldl (fun acc o => if acc.contains o.1 then acc else acc ++ [o.1]) acc).Nodup ∧
    ∀ key, key ∈ os.foldl (fun acc o => if acc.contains o.1 then acc else acc ++ [o.1]) acc
      ↔ key ∈ acc ∨ ∃ o ∈ os, o.1 = key := by
  induction os generalizing acc with
  | nil => exact ⟨hacc, fun key => by simp⟩
  | cons o os ih =>
    rw [List.foldl_cons]
    by_cases hc : acc.contains o.1 = true
    · rw [if_pos hc]
      have hmem : o.1 ∈ acc := by simpa using hc
      obtain ⟨h1, h2⟩ := ih acc hacc
      refine ⟨h1, fun key => ?_⟩
      rw [h2 key]
      constructor
      · rintro (h | ⟨x, hx, hk⟩)
        · exact Or.inl h
        · exact Or.inr ⟨x, List.mem_cons_of_mem _ hx, hk⟩
      · rintro (h | ⟨x, hx, hk⟩)
        · exact Or.inl h
        · rcases List.mem_cons.1 hx with rfl | hx'
          · exact Or.inl (hk ▸ hmem)
          · exact Or.inr ⟨x, hx', hk⟩
    · rw [if_neg hc]
      have hmem : o.1 ∉ acc := by simpa using hc
      have hacc' : (acc ++ [o.1]).Nodup := by
        rw [List.nodup_append]
        refine ⟨hacc, by simp, ?_⟩
        intro a ha b hb
        have : b = o.1 := by simpa using hb
        rw [this]; intro e; exact hmem (e ▸ ha)
      obtain ⟨h1, h2⟩ := ih (acc ++ [o.1]) hacc'
      refine ⟨h1, fun key => ?_⟩
      rw [h2 key, List.mem_append, List.mem_singleton]
      constructor
      · rintro ((h | h) | ⟨x, hx, hk⟩)
        · exact Or.inl h
        · exact Or.inr ⟨o, List.mem_cons_self, h.symm⟩
        · exact Or.inr ⟨x, List.mem_cons_of_mem _ hx, hk⟩
      · rintro (h | ⟨x, hx, hk⟩)
        · exact Or.inl (Or.inl h)
        · rcases List.mem_cons.1 hx with rfl | hx'
          · exact Or.inl (Or.inr hk.symm)
          · exact Or.inr ⟨x, hx', hk⟩

theorem distinctKeys_nodup (os : List (Nat × Nat)) : (distinctKeys os).Nodup :=
  (distinctKeys_foldl os [] List.nodup_nil).1

theorem mem_distinctKeys (os : List (Nat × Nat)) (key : Nat) :
    key ∈ distinctKeys os ↔ ∃ o ∈ os, o.1 = key := by
  unfold distinctKeys
  rw [(distinctKeys_foldl os [] List.nodup_nil).2 key]
  simp

/-! ### the abstract loop -/

/-- base set of a palindromic window: the middle base and its complement -/
def palMask (b : Nat) : Nat := (1 <<< b) ||| (1 <<< (b ^^^ 2))

/-- one abstract observation `(key, base, palindrome)` added to the dictionary -/
def stepO (d : Assoc Nat UInt8) (o : Nat × Nat × Bool) : Option (Assoc Nat UInt8) :=
  if o.2.2 then addPalindromeToDict d o.1 o.2.1 else some (addToDict d o.1 o.2.1)

def foldO : Assoc Nat UInt8 → List (Nat × Nat × Bool) → Option (Assoc Nat UInt8)
  | d, [] => some d
  | d, o :: os =>
    match stepO d o with
    | none => none
    | some d' => foldO d' os

theorem foldO_append (d : Assoc Nat UInt8) (a b : List (Nat × Nat × Bool)) :
    foldO d (a ++ b) = (foldO d a).bind (fun d' => foldO d' b) := by
  induction a generalizing d with
  | nil => rfl
  | cons o os ih =>
    simp only [List.cons_append, foldO]
    cases stepO d o with
    | none => rfl
    | some d' => exact ih d'

/-- the (key, base set) pair of an abstract observation -/
def maskO (o : Nat × Nat × Bool) : Nat × Nat :=
  (o.1, if o.2.2 then palMask o.2.1 else 1 <<< o.2.1)

/-- bases are 2-bit codes and the palindrome flag is the predicate `P` of the key -/
def WF (P : Nat → Prop) (os : List (Nat × Nat × Bool)) : Prop :=
  ∀ o ∈ os, o.2.1 < 4 ∧ (o.2.2 = true ↔ P o.1)

theorem WF.append {P : Nat → Prop} {a b : List (Nat × Nat × Bool)} (ha : WF P a) (hb : WF P b) :
    WF P (a ++ b) := by
  intro o ho
  rcases List.mem_append.1 ho with h | h
  · exact ha o h
  · exact hb o h

theorem WF.left {P : Nat → Prop} {a b : List (Nat × Nat × Bool)} (h : WF P (a ++ b)) : WF P a :=
  fun o ho => h o (List.mem_append_left _ ho)

theorem WF.right {P : Nat → Prop} {a b : List (Nat × Nat × Bool)} (h : WF P (a ++ b)) : WF P b :=
  fun o ho => h o (List.mem_append_right _ ho)

theorem shift_cases {b : Nat} (hb : b < 4) :
    (1 <<< b = 1 ∨ 1 <<< b = 2 ∨ 1 <<< b = 4 ∨ 1 <<< b = 8) ∧
    (palMask b = 5 ∨ palMask b = 10) := by
  have : b = 0 ∨ b = 1 ∨ b = 2 ∨ b = 3 := by omega
  rcases this with rfl | rfl | rfl | rfl <;> decide

theorem maskO_snd_cases {o : Nat × Nat × Bool} (hb : o.2.1 < 4) :
    (o.2.2 = false ∧ ((maskO o).2 = 1 ∨ (maskO o).2 = 2 ∨ (maskO o).2 = 4 ∨ (maskO o).2 = 8)) ∨
    (o.2.2 = true ∧ ((maskO o).2 = 5 ∨ (maskO o).2 = 10)) := by
  have h := shift_cases hb
  unfold maskO
  by_cases hp : o.2.2 = true
  · right
    refine ⟨hp, ?_⟩
    simp only [hp, if_true]
    exact h.2
  · left
    have hp' : o.2.2 = false := by simpa using hp
    refine ⟨hp', ?_⟩
    simp only [hp']
    exact h.1

theorem maskO_ne_zero {o : Nat × Nat × Bool} (hb : o.2.1 < 4) : (maskO o).2 ≠ 0 := by
  rcases maskO_snd_cases hb with ⟨_, e | e | e | e⟩ | ⟨_, e | e⟩ <;> rw [e] <;> decide

theorem maskO_lt {o : Nat × Nat × Bool} (hb : o.2.1 < 4) : (maskO o).2 < 16 := by
  rcases maskO_snd_cases hb with ⟨_, e | e | e | e⟩ | ⟨_, e | e⟩ <;> rw [e] <;> decide

theorem or_lt_16 {a b : Nat} (ha : a < 16) (hb : b < 16) : a ||| b < 16 :=
  Nat.or_lt_two_pow (n := 4) ha hb

/-- the base set of a key is a 4-bit mask; of a palindromic key, one of {}, W, S, N -/
theorem maskOf_bounds {P : Nat → Prop} {os : List (Nat × Nat × Bool)} (hwf : WF P os) (key : Nat) :
    maskOf (os.map maskO) key < 16 ∧
    (P key → (maskOf (os.map maskO) key = 0 ∨ maskOf (os.map maskO) key = 5 ∨
              maskOf (os.map maskO) key = 10 ∨ maskOf (os.map maskO) key = 15)) := by
  induction os with
  | nil => exact ⟨by rw [List.map_nil, maskOf_nil]; decide, fun _ => Or.inl rfl⟩
  | cons o os ih =>
    have ih' := ih (fun x hx => hwf x (List.mem_cons_of_mem _ hx))
    obtain ⟨hb, hp⟩ := hwf o List.mem_cons_self
    rw [List.map_cons, maskOf_cons]
    by_cases hk : (maskO o).1 = key
    · rw [if_pos hk]
      have hk' : o.1 = key := hk
      have hs := shift_cases hb
      constructor
      · exact or_lt_16 (maskO_lt hb) ih'.1
      · intro hP
        have hpp : o.2.2 = true := hp.2 (by rw [hk']; exact hP)
        have hm : (maskO o).2 = palMask o.2.1 := by unfold maskO; simp [hpp]
        rw [hm]
        rcases hs.2 with e | e <;> rcases ih'.2 hP with e' | e' | e' | e' <;> rw [e, e'] <;> decide
    · rw [if_neg hk]; exact ih'

/-! ### finite checks on letters -/

theorem pal_insert : ∀ b : Fin 4,
    (if (b.val == 0 || b.val == 2) then (87 : UInt8) else 83) = letterOfMask (palMask b.val) := by
  decide

theorem pal_update : ∀ b : Fin 4, ∀ M : Fin 16, (M.val = 5 ∨ M.val = 10 ∨ M.val = 15) →
    palindromeUpdate b.val (letterOfMask M.val) = some (letterOfMask (M.val ||| palMask b.val)) := by
  decide

theorem add_update {b M : Nat} (hb : b < 4) (hM : M < 16) (h0 : M ≠ 0) :
    iupacAdd b (letterOfMask M) = letterOfMask (M ||| (1 <<< b)) := by
  rw [T15_add b hb (letterOfMask M), mask_letter_roundtrip ⟨M, hM⟩ h0]

/-! ### the invariant -/

/-- keys are distinct and each key holds the letter of its base set -/
def DictInv (d : Assoc Nat UInt8) (ms : List (Nat × Nat)) : Prop :=
  (Assoc.keys d).Nodup ∧
  ∀ key, Assoc.lookup d key
    = if maskOf ms key = 0 then none else some (letterOfMask (maskOf ms key))

theorem DictInv.nil : DictInv [] [] :=
  ⟨by simp [Assoc.keys], fun _ => rfl⟩

theorem stepO_inv {P : Nat → Prop} (d : Assoc Nat UInt8) (pre : List (Nat × Nat × Bool))
    (o : Nat × Nat × Bool) (hwf : WF P (pre ++ [o])) (hinv : DictInv d (pre.map maskO)) :
    ∃ d', stepO d o = some d' ∧ DictInv d' ((pre ++ [o]).map maskO) := by
  obtain ⟨key, b, p⟩ := o
  obtain ⟨hb, hp⟩ := hwf (key, b, p) (List.mem_append_right _ List.mem_cons_self)
  simp only at hb hp
  have hbound := maskOf_bounds hwf.left key
  have hlk := hinv.2 key
  -- generic conclusion for an `upsert` that stores the right letter at `key`
  have concl : ∀ (ins : UInt8) (g : UInt8 → UInt8) (m : Nat), (maskO (key, b, p)).2 = m → m ≠ 0 →
      ins = letterOfMask m →
      (maskOf (pre.map maskO) key ≠ 0 →
        g (letterOfMask (maskOf (pre.map maskO) key))
          = letterOfMask (maskOf (pre.map maskO) key ||| m)) →
      DictInv (Assoc.upsert d key ins g) ((pre ++ [(key, b, p)]).map maskO) := by
    intro ins g m hm hm0 hins hg
    refine ⟨Assoc.nodup_keys_upsert d key ins g hinv.1, ?_⟩
    intro key'
    rw [List.map_append, List.map_cons, List.map_nil, maskOf_snoc]
    by_cases hk : key = key'
    · subst hk
      have hk1 : (maskO (key, b, p)).1 = key := rfl
      rw [if_pos hk1, Assoc.lookup_upsert_self, hlk, hm]
      have hne : maskOf (pre.map maskO) key ||| m ≠ 0 := by
        intro h; exact hm0 (Nat.or_eq_zero_iff.1 h).2
      rw [if_neg hne]
      by_cases h0 : maskOf (pre.map maskO) key = 0
      · rw [if_pos h0, h0, Nat.zero_or]
        simp only
        rw [hins]
      · rw [if_neg h0]
        simp only
        rw [hg h0]
    · have hk1 : ¬ (maskO (key, b, p)).1 = key' := hk
      rw [if_neg hk1, Assoc.lookup_upsert_ne d _ _ hk]
      exact hinv.2 key'
  have hs := shift_cases hb
  by_cases hpp : p = true
  · -- palindromic window
    subst hpp
    have hP : P key := hp.1 rfl
    have hM := hbound.2 hP
    let g : UInt8 → UInt8 := fun v => (palindromeUpdate b v).getD 0
    have hupd : maskOf (pre.map maskO) key ≠ 0 →
        palindromeUpdate b (letterOfMask (maskOf (pre.map maskO) key))
          = some (letterOfMask (maskOf (pre.map maskO) key ||| palMask b)) := by
      intro h0
      exact pal_update ⟨b, hb⟩ ⟨_, hbound.1⟩ (by
        rcases hM with e | e | e | e
        · exact absurd e h0
        · exact Or.inl e
        · exact Or.inr (Or.inl e)
        · exact Or.inr (Or.inr e))
    refine ⟨Assoc.upsert d key (if (b == 0 || b == 2) then 87 else 83) g, ?_, ?_⟩
    · show addPalindromeToDict d key b = _
      unfold addPalindromeToDict
      apply Assoc.upsertM_eq_upsert
      intro v hv
      rw [hlk] at hv
      by_cases h0 : maskOf (pre.map maskO) key = 0
      · rw [if_pos h0] at hv; cases hv
      · rw [if_neg h0] at hv
        have : letterOfMask (maskOf (pre.map maskO) key) = v := by simpa using hv
        subst this
        show _ = some ((palindromeUpdate b _).getD 0)
        rw [hupd h0]; rfl
    · apply concl _ g (palMask b) rfl
      · rcases hs.2 with e | e <;> rw [e] <;> decide
      · exact pal_insert ⟨b, hb⟩
      · intro h0
        show (palindromeUpdate b _).getD 0 = _
        rw [hupd h0]; rfl
  · -- ordinary window
    have hpf : p = false := by simpa using hpp
    subst hpf
    refine ⟨addToDict d key b, rfl, ?_⟩
    unfold addToDict
    apply concl _ _ (1 <<< b) rfl
    · rcases hs.1 with e | e | e | e <;> rw [e] <;> decide
    · exact decode_is_singleton b hb
    · intro h0
      exact add_update hb hbound.1 h0

/-- the abstract loop never panics and maintains the invariant -/
theorem foldO_inv {P : Nat → Prop} (os : List (Nat × Nat × Bool)) :
    ∀ (d : Assoc Nat UInt8) (pre : List (Nat × Nat × Bool)),
      WF P (pre ++ os) → DictInv d (pre.map maskO) →
      ∃ d', foldO d os = some d' ∧ DictInv d' ((pre ++ os).map maskO) := by
  induction os with
  | nil =>
    intro d pre _ hinv
    exact ⟨d, rfl, by rw [List.append_nil]; exact hinv⟩
  | cons o os ih =>
    intro d pre hwf hinv
    have hwf' : WF P ((pre ++ [o]) ++ os) := by rw [List.append_assoc]; exact hwf
    obtain ⟨d1, h1, hinv1⟩ := stepO_inv d pre o hwf'.left hinv
    obtain ⟨d2, h2, hinv2⟩ := ih d1 (pre ++ [o]) hwf' hinv1
    refine ⟨d2, ?_, ?_⟩
    · simp only [foldO, h1]; exact h2
    · rw [List.append_assoc] at hinv2; exact hinv2

end SkaModel
