/-
The records of `RefSka.vcfRecords`, decoded, against `Spec.vcfSpec`.
-/
import SkaModel.Lemmas.IdxCheck
import SkaModel.Lemmas.VcfColumn

namespace SkaModel.VCF

open SkaModel SkaModel.Spec

/-! ### list helpers -/

theorem filterMap_congr' {α β : Type} {f g : α → Option β} {l : List α} (h : ∀ x ∈ l, f x = g x) :
    l.filterMap f = l.filterMap g := by
  induction l with
  | nil => rfl
  | cons a l ih =>
    have ha := h a (by simp)
    have hl := ih (fun x hx => h x (List.mem_cons_of_mem _ hx))
    simp only [List.filterMap_cons, ha, hl]

theorem flatMap_congr' {α β : Type} {f g : α → List β} {l : List α} (h : ∀ x ∈ l, f x = g x) :
    l.flatMap f = l.flatMap g := by
  induction l with
  | nil => rfl
  | cons a l ih =>
    have ha := h a (by simp)
    have hl := ih (fun x hx => h x (List.mem_cons_of_mem _ hx))
    simp only [List.flatMap_cons, ha, hl]

theorem zip_eq_map_swap {α β : Type} (l₁ : List α) (l₂ : List β) :
    l₁.zip l₂ = (l₂.zip l₁).map (fun x => (x.2, x.1)) := by
  induction l₁ generalizing l₂ with
  | nil => simp
  | cons a l₁ ih =>
    cases l₂ with
    | nil => simp
    | cons b l₂ => simp [ih l₂]

theorem zip_range_eq {α : Type} (l : List α) (n : Nat) (h : n = l.length) :
    (List.range n).zip l = l.zipIdx.map (fun x => (x.2, x.1)) := by
  subst h
  rw [List.zipIdx_eq_zip_range', List.range_eq_range']
  exact zip_eq_map_swap _ _

/-! ### the coordinate list -/

/-- (contig, position) of every absolute index, in order -/
def coords (seq : List (Array UInt8)) : List (Nat × Nat) :=
  seq.zipIdx.flatMap (fun ci => (List.range ci.1.size).map (fun p => (ci.2, p)))

theorem coordsTo_length_eq (seq : List (Array UInt8)) :
    ∀ k, k ≤ seq.length → (coordsTo seq k).length = offset seq k := by
  intro k
  induction k with
  | zero => intro _; rw [coordsTo_zero, offset_zero]; rfl
  | succ k ih =>
    intro h
    rw [coordsTo_succ seq k h, offset_succ seq k h, List.length_append, ih (by omega)]
    simp

theorem coords_length (seq : List (Array UInt8)) :
    (coords seq).length = (seq.map (·.size)).sum := by
  have := coordsTo_length_eq seq seq.length (Nat.le_refl _)
  rw [coordsTo_length] at this
  rw [coords, this, offset, List.take_length]

theorem mem_zipIdx_getD (seq : List (Array UInt8)) (ci : Array UInt8 × Nat) (h : ci ∈ seq.zipIdx) :
    ∃ hlt : ci.2 < seq.length, seq[ci.2] = ci.1 := by
  obtain ⟨x, i⟩ := ci
  have := List.mem_zipIdx h
  simp only [Nat.zero_add, Nat.sub_zero] at this
  exact ⟨this.2.1, this.2.2.symm⟩

theorem mem_coords (seq : List (Array UInt8)) (cp : Nat × Nat) (h : cp ∈ coords seq) :
    ∃ hlt : cp.1 < seq.length, cp.2 < seq[cp.1].size := by
  simp only [coords, List.mem_flatMap, List.mem_map, List.mem_range] at h
  obtain ⟨ci, hci, p, hp, rfl⟩ := h
  obtain ⟨hlt, he⟩ := mem_zipIdx_getD seq ci hci
  exact ⟨hlt, by rw [he]; exact hp⟩

/-- the reference byte at a coordinate of the list is a byte of one of the contigs -/
theorem refByte_mem (seq : List (Array UInt8)) (cp : Nat × Nat) (h : cp ∈ coords seq) :
    ∃ c ∈ seq, (seq.getD cp.1 #[]).getD cp.2 0 ∈ c.toList := by
  obtain ⟨hlt, hp⟩ := mem_coords seq cp h
  refine ⟨seq[cp.1], List.getElem_mem hlt, ?_⟩
  have h1 : seq.getD cp.1 #[] = seq[cp.1] := by
    rw [List.getD_eq_getElem?_getD, List.getElem?_eq_getElem hlt]; rfl
  have h2 : (seq[cp.1]).getD cp.2 0 = (seq[cp.1])[cp.2] := by
    rw [Array.getD_eq_getD_getElem?, Array.getElem?_eq_getElem hp]; rfl
  rw [h1, h2]
  exact Array.getElem_mem_toList hp

/-- the spec's coordinate list (with the upper-cased reference byte) over `coords` -/
theorem spec_coords_eq (seq : List (Array UInt8)) :
    seq.zipIdx.flatMap (fun ci => (List.range ci.1.size).map (fun p => (ci.2, p, upperByte (ci.1.getD p 0))))
      = (coords seq).map (fun cp => (cp.1, cp.2, upperByte ((seq.getD cp.1 #[]).getD cp.2 0))) := by
  rw [coords, List.map_flatMap]
  apply flatMap_congr'
  intro ci hci
  obtain ⟨hlt, he⟩ := mem_zipIdx_getD seq ci hci
  rw [List.map_map]
  apply List.map_congr_left
  intro p _
  have h1 : seq.getD ci.2 #[] = ci.1 := by
    rw [List.getD_eq_getElem?_getD, List.getElem?_eq_getElem hlt, ← he]; rfl
  simp only [Function.comp, h1]


/-! ### one column -/

/-- what a reader of the VCF sees of a record: contig name, 1-based position, REF and the
allele character every sample's genotype stands for -/
def recTuple (rec : RefSka.VcfRecord) : String × Nat × UInt8 × List UInt8 :=
  (rec.chrom, rec.pos, rec.ref, rec.gts.map (decodeGt rec))

theorem gtClass_eq_vcfClass (rb b : UInt8) (h : rb ≠ 45) : gtClass rb b = vcfClass b := by
  unfold gtClass
  by_cases hb : b = rb
  · subst hb; simp [vcfClass_eq_u8ToBase b h]
  · simp [hb]

/-- decoded genotypes of a column = `gtClass` of the samples' characters -/
theorem decode_colIdx (rb : UInt8) (col : List UInt8) (chrom : String) (pos : Nat) :
    ((colIdx rb col).2.1.map render).map
        (decodeGt { chrom := chrom, pos := pos, ref := u8ToBase rb, alts := (colIdx rb col).1,
                    gts := (colIdx rb col).2.1.map render })
      = col.map (gtClass rb) := by
  rw [List.map_map]
  have h := (colInv_colIdx rb col).decode []
  rw [List.append_nil] at h
  rw [← h]
  apply List.map_congr_left
  intro gi _
  simp only [Function.comp, decodeGt_render]

theorem vcfColumn_tuple (r : RefSka) (aln : List (Array UInt8)) (i c p : Nat) :
    (vcfColumn r aln i c p).map recTuple =
      (let rb := (r.seq.getD c #[]).getD p 0
       let col := aln.map (fun s => s.getD i GAP)
       if col.any (· != rb) then
         some (r.chromNames.getD c "", p + 1, u8ToBase rb, col.map (gtClass rb))
       else none) := by
  rw [vcfColumn_eq]
  simp only
  rw [(colInv_colIdx _ _).flag]
  split
  · simp only [Option.map_some, recTuple, decode_colIdx]
  · rfl

/-! ### all columns -/

theorem toList_getD (s : Array UInt8) (i : Nat) (d : UInt8) : s.toList.getD i d = s.getD i d := by
  rw [List.getD_eq_getElem?_getD, Array.getD_eq_getD_getElem?, Array.getElem?_toList]

/-- the spec's per-coordinate function -/
def specCol (aln : List (List UInt8)) (ci : (Nat × Nat × UInt8) × Nat) : Option (Nat × Nat × UInt8 × List UInt8) :=
  let ((c, p, rb), i) := ci
  let col := aln.map (fun s => s.getD i 45)
  if col.any (· != rb) then
    some (c, p + 1, (if rb == 65 || rb == 67 || rb == 71 || rb == 84 then rb else 78), col.map vcfClass)
  else none

theorem vcfSpec_eq (ref : List (Array UInt8)) (aln : List (List UInt8)) :
    vcfSpec ref aln =
      ((ref.zipIdx.flatMap (fun ci => (List.range ci.1.size).map
          (fun p => (ci.2, p, upperByte (ci.1.getD p 0))))).zipIdx).filterMap (specCol aln) := rfl

/-- the records of `vcfRecords`, as a reader decodes them, over the coordinate list -/
theorem records_tuple (r : RefSka) (aln : List (Array UInt8))
    (hidx : RefSka.idxCheck r.seq = coords r.seq)
    (hlen : (aln.headD #[]).size = (coords r.seq).length) :
    (RefSka.vcfRecords r aln).map recTuple =
      (coords r.seq).zipIdx.filterMap (fun x => (vcfColumn r aln x.2 x.1.1 x.1.2).map recTuple) := by
  rw [vcfRecords_eq, hidx, zip_range_eq _ _ hlen, List.filterMap_map, List.map_filterMap]
  rfl

theorem spec_tuple (seq : List (Array UInt8)) (aln : List (List UInt8)) (name : Nat → String) :
    (vcfSpec seq aln).map (fun x => (name x.1, x.2.1, x.2.2.1, x.2.2.2)) =
      (coords seq).zipIdx.filterMap (fun x =>
        (specCol aln ((x.1.1, x.1.2, upperByte ((seq.getD x.1.1 #[]).getD x.1.2 0)), x.2)).map
          (fun x => (name x.1, x.2.1, x.2.2.1, x.2.2.2))) := by
  rw [vcfSpec_eq, spec_coords_eq, List.zipIdx_map, List.filterMap_map, List.map_filterMap]
  rfl

/-- main relation, for a reference whose bytes are upper-case and not '-' -/
theorem records_eq_spec (r : RefSka) (aln : List (Array UInt8))
    (hsz : ∀ c ∈ r.seq, 1 ≤ c.size)
    (hup : ∀ c ∈ r.seq, ∀ b ∈ c.toList, upperByte b = b)
    (hgap : ∀ c ∈ r.seq, ∀ b ∈ c.toList, b ≠ 45)
    (haln : ∀ s ∈ aln, s.size = (r.seq.map (·.size)).sum) :
    (RefSka.vcfRecords r aln).map recTuple =
      (vcfSpec r.seq (aln.map Array.toList)).map
        (fun x => (r.chromNames.getD x.1 "", x.2.1, x.2.2.1, x.2.2.2)) := by
  have hidx : RefSka.idxCheck r.seq = coords r.seq := idxCheck_eq_coords r.seq hsz
  rw [spec_tuple r.seq _ (fun c => r.chromNames.getD c "")]
  cases aln with
  | nil =>
    have h1 : RefSka.vcfRecords r [] = [] := by
      rw [vcfRecords_eq]; rfl
    rw [h1]
    symm
    show _ = []
    rw [List.filterMap_eq_nil_iff]
    intro x _
    rfl
  | cons s rest =>
    have hlen : (List.headD (s :: rest) #[]).size = (coords r.seq).length := by
      rw [coords_length]; exact haln s (by simp)
    rw [records_tuple r _ hidx hlen]
    apply filterMap_congr'
    intro x hx
    have hx1 : x.1 ∈ coords r.seq := by
      obtain ⟨cp, i⟩ := x
      have := List.mem_zipIdx hx
      rw [this.2.2]
      exact List.getElem_mem _
    obtain ⟨c, hc, hb⟩ := refByte_mem r.seq x.1 hx1
    have hu := hup c hc _ hb
    have hg := hgap c hc _ hb
    have hcol : List.map (fun s => s.getD x.2 45) (List.map Array.toList (s :: rest))
        = List.map (fun s => s.getD x.2 GAP) (s :: rest) := by
      rw [List.map_map]
      apply List.map_congr_left
      intro t _
      simp only [Function.comp, toList_getD, GAP]
    have hcls : ∀ col : List UInt8,
        col.map (gtClass ((r.seq.getD x.1.1 #[]).getD x.1.2 0)) = col.map vcfClass := by
      intro col
      apply List.map_congr_left
      intro b _
      exact gtClass_eq_vcfClass _ _ hg
    rw [vcfColumn_tuple]
    simp only [specCol, hu]
    rw [hcol, hcls]
    split
    · rfl
    · rfl


/-! ### the stored reference is the upper-cased input -/

theorem upperByte_toUpper : ∀ b : UInt8, upperByte (toUpper b) = upperByte b :=
  forall_uint8 (by decide +kernel)

theorem upperByte_toUpper_fix : ∀ b : UInt8, upperByte (toUpper b) = toUpper b :=
  forall_uint8 (by decide +kernel)

theorem toUpper_ne_gap : ∀ b : UInt8, b ≠ 45 → toUpper b ≠ 45 :=
  forall_uint8 (by decide +kernel)

theorem toUpper_eq_upperByte (b : UInt8) : toUpper b = upperByte b := rfl

/-- the specification does not see the case of the reference -/
theorem vcfSpec_map_toUpper (ref : List (Array UInt8)) (aln : List (List UInt8)) :
    vcfSpec (ref.map (fun c => c.map toUpper)) aln = vcfSpec ref aln := by
  rw [vcfSpec_eq, vcfSpec_eq, List.zipIdx_map, List.flatMap_map]
  congr 2
  apply flatMap_congr'
  intro ci _
  simp only [Prod.map, id, Array.size_map]
  apply List.map_congr_left
  intro p hp
  have hp' : p < ci.1.size := List.mem_range.mp hp
  have : (Array.map toUpper ci.1).getD p 0 = toUpper (ci.1.getD p 0) := by
    rw [Array.getD_eq_getD_getElem?, Array.getD_eq_getD_getElem?, Array.getElem?_map,
      Array.getElem?_eq_getElem hp']
    rfl
  rw [this, upperByte_toUpper]

theorem records_eq_spec_ref (r : RefSka) (ref : List (Array UInt8)) (aln : List (Array UInt8))
    (hr : r.seq = ref.map (fun c => c.map toUpper))
    (hsz : ∀ c ∈ ref, 1 ≤ c.size)
    (hgap : ∀ c ∈ ref, ∀ b ∈ c.toList, b ≠ 45)
    (haln : ∀ s ∈ aln, s.size = (ref.map (·.size)).sum) :
    (RefSka.vcfRecords r aln).map recTuple =
      (vcfSpec ref (aln.map Array.toList)).map
        (fun x => (r.chromNames.getD x.1 "", x.2.1, x.2.2.1, x.2.2.2)) := by
  rw [← vcfSpec_map_toUpper ref, ← hr]
  apply records_eq_spec
  · intro c hc
    rw [hr, List.mem_map] at hc
    obtain ⟨c0, hc0, rfl⟩ := hc
    rw [Array.size_map]; exact hsz c0 hc0
  · intro c hc b hb
    rw [hr, List.mem_map] at hc
    obtain ⟨c0, hc0, rfl⟩ := hc
    rw [Array.toList_map, List.mem_map] at hb
    obtain ⟨b0, _, rfl⟩ := hb
    exact upperByte_toUpper_fix b0
  · intro c hc b hb
    rw [hr, List.mem_map] at hc
    obtain ⟨c0, hc0, rfl⟩ := hc
    rw [Array.toList_map, List.mem_map] at hb
    obtain ⟨b0, hb0, rfl⟩ := hb
    exact toUpper_ne_gap b0 (hgap c0 hc0 b0 hb0)
  · intro s hs
    rw [haln s hs, hr, List.map_map]
    congr 1
    apply List.map_congr_left
    intro c _
    simp

end SkaModel.VCF
