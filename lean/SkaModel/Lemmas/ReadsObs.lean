/-
Helper lemmas for `Props/C12Spec.lean` (namespace `SkaModel.RDS`): generic list facts,
the read configuration's position test and middle-base test in specification terms.
-/
import SkaModel.Lemmas.KFDict
import SkaModel.Spec.ReadsSpec

namespace SkaModel.RDS

open SkaModel SkaModel.Spec SkaModel.KF

/-- filtering and mapping a list through a key: when predicate and function depend on the
element only through `key` -/
theorem filter_map_via {α β γ : Type} (l : List α) (key : α → β) (p : α → Bool) (f : α → γ)
    (P : β → Bool) (F : β → γ) (hp : ∀ a ∈ l, p a = P (key a)) (hf : ∀ a ∈ l, f a = F (key a)) :
    (l.filter p).map f = ((l.map key).filter P).map F := by
  induction l with
  | nil => rfl
  | cons a l ih =>
    have ih' := ih (fun x hx => hp x (List.mem_cons_of_mem _ hx)) (fun x hx => hf x (List.mem_cons_of_mem _ hx))
    have hpa := hp a List.mem_cons_self
    have hfa := hf a List.mem_cons_self
    simp only [List.map_cons, List.filter_cons]
    rw [← hpa]
    cases p a
    · simpa using ih'
    · simp only [↓reduceIte, List.map_cons, ih', hfa]

/-- the quality rule a `--qual-filter` setting stands for -/
def ruleOf : QualFilter → QualRule
  | .noFilter => .none
  | .middle => .middle
  | .strict => .strict

/-- the position test of the specification -/
def okPos (rule : QualRule) (minQual : Nat) (seq qual : Array UInt8) (p : Nat) : Bool :=
  validBase (seq.getD p 0) && (rule != .strict || decide (qualAt qual p ≥ minQual))

theorem passWindows_eq (k : Nat) (rule : QualRule) (minQual : Nat) (seq qual : Array UInt8) :
    passWindows k rule minQual seq qual =
      (windowsBy k seq.size (okPos rule minQual seq qual)).filter (fun j =>
        rule == .none || decide (qualAt qual (j + (k - 1) / 2) ≥ minQual)) := rfl

theorem readConf_validQual (W k : Nat) (rc : Bool) (minQual : Nat) (qf : QualFilter) (r : Read) (p : Nat) :
    (readConf W k rc minQual qf r).validQual p = decide (qualAt r.qual p ≥ minQual) := rfl

/-- `okAt` of the read configuration is the specification's position test -/
theorem readConf_okAt (W k : Nat) (rc : Bool) (minQual : Nat) (qf : QualFilter) (r : Read) :
    (readConf W k rc minQual qf r).okAt = okPos (ruleOf qf) minQual r.seq r.qual := by
  funext p
  unfold SKConf.okAt okPos
  rw [readConf_validQual]
  cases qf <;> rfl

/-- `middle_base_qual` of the read configuration, given the middle position -/
theorem readConf_middleBaseQual (W k : Nat) (rc : Bool) (minQual : Nat) (qf : QualFilter) (r : Read)
    (s : SKState) :
    (readConf W k rc minQual qf r).middleBaseQual s =
      (ruleOf qf == .none ||
        decide (qualAt r.qual ((readConf W k rc minQual qf r).middlePos s) ≥ minQual)) := by
  unfold SKConf.middleBaseQual
  cases qf
  · rfl
  · show (readConf W k rc minQual .middle r).validQual _ = _
    rw [readConf_validQual]; rfl
  · show (readConf W k rc minQual .strict r).validQual _ = _
    rw [readConf_validQual]; rfl

end SkaModel.RDS
