/-
`repeatsOf` (keys seen at least twice) and the `repeat_coors` loop of `RefSka::new`.
-/
import SkaModel.Lemmas.RMNew

namespace SkaModel.RM

open SkaModel SkaModel.Spec

/-! ### fold invariants -/

theorem foldl_inv_full {α σ : Type} (step : σ → α → σ) (Inv : List α → σ → Prop) (full : List α)
    (hstep : ∀ pre x post st, full = pre ++ x :: post → Inv pre st → Inv (pre ++ [x]) (step st x)) :
    ∀ (l pre : List α) (st : σ), full = pre ++ l → Inv pre st → Inv full (l.foldl step st) := by
  intro l
  induction l with
  | nil => intro pre st hf hi; rw [List.append_nil] at hf; rw [hf]; exact hi
  | cons x l ih =>
    intro pre st hf hi
    rw [List.foldl_cons]
    exact ih (pre ++ [x]) (step st x) (by rw [hf, List.append_assoc]; rfl) (hstep pre x l st hf hi)

/-! ### `repeatsOf` -/

def repStep (acc : List Nat × List Nat) (k : Nat) : List Nat × List Nat :=
  if acc.2.contains k then acc
  else if acc.1.contains k then (acc.1, k :: acc.2)
  else (k :: acc.1, acc.2)

theorem repeatsOf_eq (ks : List Nat) : RefSka.repeatsOf ks = (ks.foldl repStep ([], [])).2 := rfl

structure RInv (pre : List Nat) (st : List Nat × List Nat) : Prop where
  single : ∀ x, x ∈ st.1 ↔ 1 ≤ pre.count x
  rep : ∀ x, x ∈ st.2 ↔ 2 ≤ pre.count x
  nd1 : st.1.Nodup
  nd2 : st.2.Nodup

theorem count_snoc (pre : List Nat) (x y : Nat) :
    (pre ++ [x]).count y = pre.count y + (if x = y then 1 else 0) := by
  rw [List.count_append, List.count_singleton]
  by_cases h : x = y
  · subst h; simp
  · have : (x == y) = false := by simpa using h
    simp [this, h]

theorem rinv_step (pre : List Nat) (st : List Nat × List Nat) (x : Nat) (hi : RInv pre st) :
    RInv (pre ++ [x]) (repStep st x) := by
  obtain ⟨S, R⟩ := st
  obtain ⟨h1, h2, n1, n2⟩ := hi
  simp only at h1 h2 n1 n2
  unfold repStep
  by_cases hR : R.contains x = true
  · rw [if_pos hR]
    have hx : 2 ≤ pre.count x := (h2 x).mp (by simpa using hR)
    refine ⟨fun y => ?_, fun y => ?_, n1, n2⟩
    · show y ∈ S ↔ _
      rw [h1 y, count_snoc]
      by_cases hxy : x = y
      · subst hxy; simp only [if_true]; omega
      · simp only [if_neg hxy]; omega
    · show y ∈ R ↔ _
      rw [h2 y, count_snoc]
      by_cases hxy : x = y
      · subst hxy; simp only [if_true]; omega
      · simp only [if_neg hxy]; omega
  · rw [if_neg hR]
    have hxR : x ∉ R := by simpa using hR
    have hx2 : ¬ 2 ≤ pre.count x := fun h => hxR ((h2 x).mpr h)
    by_cases hS : S.contains x = true
    · rw [if_pos hS]
      have hx1 : 1 ≤ pre.count x := (h1 x).mp (by simpa using hS)
      refine ⟨fun y => ?_, fun y => ?_, n1, List.nodup_cons.mpr ⟨hxR, n2⟩⟩
      · show y ∈ S ↔ _
        rw [h1 y, count_snoc]
        by_cases hxy : x = y
        · subst hxy; simp only [if_true]; omega
        · simp only [if_neg hxy]; omega
      · show y ∈ x :: R ↔ _
        rw [List.mem_cons, h2 y, count_snoc]
        by_cases hxy : x = y
        · subst hxy; simp only [if_true]; exact ⟨fun _ => by omega, fun _ => Or.inl (by first | rfl | trivial)⟩
        · simp only [if_neg hxy]
          have : ¬ y = x := fun h => hxy h.symm
          simp only [this, false_or]; omega
    · rw [if_neg hS]
      have hxS : x ∉ S := by simpa using hS
      have hx1 : ¬ 1 ≤ pre.count x := fun h => hxS ((h1 x).mpr h)
      refine ⟨fun y => ?_, fun y => ?_, List.nodup_cons.mpr ⟨hxS, n1⟩, n2⟩
      · show y ∈ x :: S ↔ _
        rw [List.mem_cons, h1 y, count_snoc]
        by_cases hxy : x = y
        · subst hxy; simp only [if_true]; exact ⟨fun _ => by omega, fun _ => Or.inl (by first | rfl | trivial)⟩
        · simp only [if_neg hxy]
          have : ¬ y = x := fun h => hxy h.symm
          simp only [this, false_or]; omega
      · show y ∈ R ↔ _
        rw [h2 y, count_snoc]
        by_cases hxy : x = y
        · subst hxy; simp only [if_true]; omega
        · simp only [if_neg hxy]; omega

theorem rinv_repeatsOf (ks : List Nat) : RInv ks (ks.foldl repStep ([], [])) := by
  refine foldl_inv_full repStep RInv ks (fun pre x _ st _ hi => rinv_step pre st x hi) ks [] ([], []) rfl ?_
  exact ⟨by simp, by simp, List.nodup_nil, List.nodup_nil⟩

/-- `repeatsOf ks` holds exactly the keys occurring at least twice -/
theorem mem_repeatsOf (ks : List Nat) (x : Nat) : x ∈ RefSka.repeatsOf ks ↔ 2 ≤ ks.count x := by
  rw [repeatsOf_eq]; exact (rinv_repeatsOf ks).rep x

theorem repeatsOf_nodup (ks : List Nat) : (RefSka.repeatsOf ks).Nodup := by
  rw [repeatsOf_eq]; exact (rinv_repeatsOf ks).nd2

theorem count_eq_filter (ks : List Nat) (x : Nat) : ks.count x = (ks.filter (· == x)).length :=
  List.count_eq_length_filter

/-! ### the abstract `repeat_coors` loop over (is repeat, absolute centre) -/

def absStep (h : Nat) (st : Nat × List Nat) (ia : Bool × Nat) : Nat × List Nat :=
  if ia.1 then
    (ia.2 + h, st.2 ++ (List.range (ia.2 + h + 1 -
        (if ia.2 - h > st.1 || ia.2 - h == 0 then ia.2 - h else st.1 + 1))).map
      (· + (if ia.2 - h > st.1 || ia.2 - h == 0 then ia.2 - h else st.1 + 1)))
  else st

theorem mem_rangeFrom (stop f q : Nat) :
    q ∈ (List.range (stop + 1 - f)).map (· + f) ↔ f ≤ q ∧ q ≤ stop := by
  rw [List.mem_map]
  constructor
  · rintro ⟨t, ht, rfl⟩
    rw [List.mem_range] at ht
    omega
  · intro hq
    exact ⟨q - f, by rw [List.mem_range]; omega, by omega⟩

theorem rangeFrom_pairwise (n f : Nat) : ((List.range n).map (· + f)).Pairwise (· < ·) := by
  rw [List.pairwise_map]
  exact List.Pairwise.imp (fun {a b} (h : a < b) => by omega) List.pairwise_lt_range

structure AInv (h : Nat) (pre : List (Bool × Nat)) (st : Nat × List Nat) : Prop where
  mem : ∀ q, q ∈ st.2 ↔ ∃ ia ∈ pre, ia.1 = true ∧ ia.2 ≤ q + h ∧ q ≤ ia.2 + h
  sorted : st.2.Pairwise (· < ·)
  le_end : ∀ q ∈ st.2, q ≤ st.1
  last : (st.2 = [] ∧ st.1 = 0) ∨ ∃ ia ∈ pre, ia.1 = true ∧ st.1 = ia.2 + h

theorem ainv_step (h : Nat) (full : List (Bool × Nat)) (hp : full.Pairwise (fun a b => a.2 < b.2))
    (hb : ∀ ia ∈ full, h ≤ ia.2)
    (pre : List (Bool × Nat)) (x : Bool × Nat) (post : List (Bool × Nat)) (st : Nat × List Nat)
    (hf : full = pre ++ x :: post) (hi : AInv h pre st) : AInv h (pre ++ [x]) (absStep h st x) := by
  obtain ⟨le, out⟩ := st
  obtain ⟨b, a⟩ := x
  obtain ⟨hmem, hsort, hle, hlast⟩ := hi
  simp only at hmem hsort hle hlast
  have hlt : ∀ ia ∈ pre, ia.2 < a := by
    intro ia hia
    rw [hf, List.pairwise_append] at hp
    exact hp.2.2 ia hia (b, a) (List.mem_cons_self ..)
  have hha : h ≤ a := hb (b, a) (by rw [hf]; simp)
  have hhpre : ∀ ia ∈ pre, h ≤ ia.2 := fun ia hia => hb ia (by rw [hf]; simp [hia])
  unfold absStep
  cases b with
  | false =>
    simp only [Bool.false_eq_true, if_false]
    refine ⟨fun q => ?_, hsort, hle, ?_⟩
    · rw [hmem q]
      constructor
      · rintro ⟨ia, hia, h1⟩; exact ⟨ia, List.mem_append_left _ hia, h1⟩
      · rintro ⟨ia, hia, h1, h2⟩
        rw [List.mem_append, List.mem_singleton] at hia
        rcases hia with hia | rfl
        · exact ⟨ia, hia, h1, h2⟩
        · cases h1
    · rcases hlast with h0 | ⟨ia, hia, h1⟩
      · exact Or.inl h0
      · exact Or.inr ⟨ia, List.mem_append_left _ hia, h1⟩
  | true =>
    simp only [if_true]
    -- the previous end is before the new stop
    have hle_stop : le ≤ a + h := by
      rcases hlast with ⟨_, h0⟩ | ⟨ia, hia, _, h1⟩
      · omega
      · have := hlt ia hia; omega
    -- membership in the old output, in arithmetic form
    have hex : ∀ q, (∃ ia ∈ pre ++ [(true, a)], ia.1 = true ∧ ia.2 ≤ q + h ∧ q ≤ ia.2 + h) ↔
        (q ∈ out ∨ (a ≤ q + h ∧ q ≤ a + h)) := by
      intro q
      rw [hmem q]
      constructor
      · rintro ⟨ia, hia, h1, h2⟩
        rw [List.mem_append, List.mem_singleton] at hia
        rcases hia with hia | rfl
        · exact Or.inl ⟨ia, hia, h1, h2⟩
        · exact Or.inr h2
      · rintro (⟨ia, hia, h1⟩ | h2)
        · exact ⟨ia, List.mem_append_left _ hia, h1⟩
        · exact ⟨(true, a), by simp, rfl, h2⟩
    by_cases hc : (decide (a - h > le) || (a - h == 0)) = true
    · -- a fresh range
      rw [if_pos hc]
      have hc' : a - h > le ∨ a - h = 0 := by simpa using hc
      -- everything written so far is before the new start
      have hbefore : ∀ q ∈ out, q < a - h := by
        intro q hq
        have hq1 := hle q hq
        rcases hc' with h1 | h1
        · omega
        · rcases hlast with ⟨h0, _⟩ | ⟨ia, hia, _, _⟩
          · rw [h0] at hq; cases hq
          · have := hlt ia hia; have := hhpre ia hia; omega
      refine ⟨fun q => ?_, ?_, ?_, Or.inr ⟨(true, a), by simp, rfl, rfl⟩⟩
      · show q ∈ out ++ _ ↔ _
        rw [List.mem_append, mem_rangeFrom, hex q]
        constructor
        · rintro (h1 | h1)
          · exact Or.inl h1
          · exact Or.inr (by omega)
        · rintro (h1 | h1)
          · exact Or.inl h1
          · exact Or.inr (by omega)
      · show (out ++ _).Pairwise _
        rw [List.pairwise_append]
        refine ⟨hsort, rangeFrom_pairwise _ _, ?_⟩
        intro q hq q' hq'
        rw [List.mem_map] at hq'
        obtain ⟨t, _, rfl⟩ := hq'
        have := hbefore q hq
        show q < t + (a - h)
        omega
      · intro q hq
        show q ≤ a + h
        rw [List.mem_append, mem_rangeFrom] at hq
        rcases hq with h1 | h1
        · have := hle q h1; omega
        · exact h1.2
    · -- continue after the previous end
      rw [if_neg hc]
      have hc' : ¬ (a - h > le) ∧ ¬ (a - h = 0) := by simpa using hc
      obtain ⟨ia0, hia0, hia0t, hia0e⟩ : ∃ ia ∈ pre, ia.1 = true ∧ le = ia.2 + h := by
        rcases hlast with ⟨_, h0⟩ | h1
        · omega
        · exact h1
      have hlt0 := hlt ia0 hia0
      refine ⟨fun q => ?_, ?_, ?_, Or.inr ⟨(true, a), by simp, rfl, rfl⟩⟩
      · show q ∈ out ++ _ ↔ _
        rw [List.mem_append, mem_rangeFrom, hex q]
        constructor
        · rintro (h1 | h1)
          · exact Or.inl h1
          · exact Or.inr (by omega)
        · rintro (h1 | h1)
          · exact Or.inl h1
          · by_cases hq : q ≤ le
            · exact Or.inl ((hmem q).mpr ⟨ia0, hia0, hia0t, by omega, by omega⟩)
            · exact Or.inr (by omega)
      · show (out ++ _).Pairwise _
        rw [List.pairwise_append]
        refine ⟨hsort, rangeFrom_pairwise _ _, ?_⟩
        intro q hq q' hq'
        rw [List.mem_map] at hq'
        obtain ⟨t, _, rfl⟩ := hq'
        have := hle q hq
        show q < t + (le + 1)
        omega
      · intro q hq
        show q ≤ a + h
        rw [List.mem_append, mem_rangeFrom] at hq
        rcases hq with h1 | h1
        · have := hle q h1; omega
        · exact h1.2

theorem ainv_fold (h : Nat) (full : List (Bool × Nat)) (hp : full.Pairwise (fun a b => a.2 < b.2))
    (hb : ∀ ia ∈ full, h ≤ ia.2) : AInv h full (full.foldl (absStep h) (0, [])) := by
  refine foldl_inv_full (absStep h) (AInv h) full
    (fun pre x post st hf hi => ainv_step h full hp hb pre x post st hf hi) full [] (0, []) rfl ?_
  exact ⟨by simp, List.Pairwise.nil, by simp, Or.inl ⟨rfl, rfl⟩⟩

/-! ### the concrete loop is the abstract one -/

def coorStep (h : Nat) (seq : List (Array UInt8)) (repeats : List Nat)
    (st : Nat × Nat × Nat × List Nat) (sk : RefKmer) : Nat × Nat × Nat × List Nat :=
  let (lastChrom, lastEnd, off, out) := st
  let off := ((List.range (sk.chrom - lastChrom)).map (fun d => (seq.getD (lastChrom + d) #[]).size)).foldl (· + ·) off
  let lastChrom := max lastChrom sk.chrom
  if repeats.contains sk.kmer then
    let start := sk.pos - h + off
    let stop := sk.pos + h + off
    let from_ := if start > lastEnd || start == 0 then start else lastEnd + 1
    (sk.chrom, stop, off, out ++ (List.range (stop + 1 - from_)).map (· + from_))
  else (lastChrom, lastEnd, off, out)

theorem repeatCoorsOf_eq (h : Nat) (seq : List (Array UInt8)) (repeats : List Nat) (kmers : List RefKmer) :
    RefSka.repeatCoorsOf h seq repeats kmers = (kmers.foldl (coorStep h seq repeats) (0, 0, 0, [])).2.2.2 := rfl

/-- the pair the abstract loop sees for a reference k-mer -/
def absOf (seq : List (Array UInt8)) (repeats : List Nat) (sk : RefKmer) : Bool × Nat :=
  (repeats.contains sk.kmer, contigOffset seq sk.chrom + sk.pos)

theorem coorStep_eq (h : Nat) (seq : List (Array UInt8)) (repeats : List Nat)
    (lc le : Nat) (out : List Nat) (sk : RefKmer) (hlc : lc ≤ sk.chrom) (hpos : h ≤ sk.pos) :
    coorStep h seq repeats (lc, le, contigOffset seq lc, out) sk
      = (sk.chrom, (absStep h (le, out) (absOf seq repeats sk)).1, contigOffset seq sk.chrom,
          (absStep h (le, out) (absOf seq repeats sk)).2) := by
  unfold coorStep absStep absOf
  simp only
  rw [← contigOffset_add, show lc + (sk.chrom - lc) = sk.chrom by omega, Nat.max_eq_right hlc]
  have e1 : sk.pos - h + contigOffset seq sk.chrom = contigOffset seq sk.chrom + sk.pos - h := by omega
  have e2 : sk.pos + h + contigOffset seq sk.chrom = contigOffset seq sk.chrom + sk.pos + h := by omega
  rw [e1, e2]
  cases repeats.contains sk.kmer <;> rfl

theorem coor_fold (h : Nat) (seq : List (Array UInt8)) (repeats : List Nat) :
    ∀ (l : List RefKmer) (lc le : Nat) (out : List Nat),
      l.Pairwise (fun a b => a.chrom ≤ b.chrom) → (∀ rk ∈ l, lc ≤ rk.chrom ∧ h ≤ rk.pos) →
      (l.foldl (coorStep h seq repeats) (lc, le, contigOffset seq lc, out)).2.2.2
        = ((l.map (absOf seq repeats)).foldl (absStep h) (le, out)).2 := by
  intro l
  induction l with
  | nil => intros; rfl
  | cons sk l ih =>
    intro lc le out hp hb
    rw [List.pairwise_cons] at hp
    have hsk := hb sk (List.mem_cons_self ..)
    rw [List.foldl_cons, List.map_cons, List.foldl_cons, coorStep_eq h seq repeats lc le out sk hsk.1 hsk.2]
    exact ih sk.chrom _ _ hp.2 (fun rk hrk => ⟨hp.1 rk hrk, (hb rk (List.mem_cons_of_mem _ hrk)).2⟩)

/-- the absolute position of a reference k-mer's centre -/
def absPos (seq : List (Array UInt8)) (rk : RefKmer) : Nat := contigOffset seq rk.chrom + rk.pos

theorem absPos_lt (seq : List (Array UInt8)) {a b : RefKmer} (hab : RKlt a b)
    (ha : a.pos < (seq.getD a.chrom #[]).size) : absPos seq a < absPos seq b := by
  unfold absPos
  rcases hab with h1 | ⟨h1, h2⟩
  · have := contigOffset_mono seq (show a.chrom + 1 ≤ b.chrom from h1)
    rw [contigOffset_succ] at this
    omega
  · rw [h1]; omega

/-- **the `repeat_coors` loop**: membership and order of its output -/
theorem repeatCoorsOf_spec (h : Nat) (seq : List (Array UInt8)) (repeats : List Nat) (l : List RefKmer)
    (hp : l.Pairwise RKlt) (hb : ∀ rk ∈ l, h ≤ rk.pos ∧ rk.pos < (seq.getD rk.chrom #[]).size) :
    (∀ q, q ∈ RefSka.repeatCoorsOf h seq repeats l ↔
      ∃ rk ∈ l, repeats.contains rk.kmer = true ∧ absPos seq rk ≤ q + h ∧ q ≤ absPos seq rk + h) ∧
    (RefSka.repeatCoorsOf h seq repeats l).Pairwise (· < ·) := by
  have hp1 : l.Pairwise (fun a b => a.chrom ≤ b.chrom) := by
    refine List.Pairwise.imp ?_ hp
    intro a b hab
    rcases hab with h1 | ⟨h1, _⟩ <;> omega
  have hfold := coor_fold h seq repeats l 0 0 [] hp1 (fun rk hrk => ⟨Nat.zero_le _, (hb rk hrk).1⟩)
  rw [contigOffset_zero] at hfold
  rw [repeatCoorsOf_eq, hfold]
  have hpa : (l.map (absOf seq repeats)).Pairwise (fun a b => a.2 < b.2) := by
    rw [List.pairwise_map]
    have hp' : l.Pairwise (fun a b => RKlt a b ∧ a.pos < (seq.getD a.chrom #[]).size) := by
      rw [List.pairwise_iff_forall_sublist] at hp ⊢
      intro a b hab
      exact ⟨hp hab, (hb a (hab.subset (List.mem_cons_self ..))).2⟩
    refine List.Pairwise.imp ?_ hp'
    intro a b hab
    exact absPos_lt seq hab.1 hab.2
  have hba : ∀ ia ∈ l.map (absOf seq repeats), h ≤ ia.2 := by
    intro ia hia
    rw [List.mem_map] at hia
    obtain ⟨rk, hrk, rfl⟩ := hia
    have := (hb rk hrk).1
    show h ≤ contigOffset seq rk.chrom + rk.pos
    omega
  have hinv := ainv_fold h _ hpa hba
  refine ⟨fun q => ?_, hinv.sorted⟩
  rw [hinv.mem q]
  constructor
  · rintro ⟨ia, hia, h1, h2⟩
    rw [List.mem_map] at hia
    obtain ⟨rk, hrk, rfl⟩ := hia
    exact ⟨rk, hrk, h1, h2⟩
  · rintro ⟨rk, hrk, h1, h2⟩
    exact ⟨absOf seq repeats rk, List.mem_map_of_mem hrk, h1, h2⟩

end SkaModel.RM
