/-
`ska lo`, "SNP calls are real" (C17) / "no sample is genotyped for an allele it does not carry"
(C18): every entry of an SNP column of `groupSnps` / `analyse` is justified by the colours of the
k-mers of the group's variants (item 1 of `SkaModel/Props/C17Real.lean`).
-/
import SkaModel.Lemmas.LOPipe

namespace SkaModel.LORL

open SkaModel SkaModel.Skalo

/-! ### a `foldlM` rule that remembers the processed prefix -/

theorem foldlM_prefix {α β : Type} (f : β → α → Option β) (Q : List α → β → Prop)
    (hf : ∀ pre a b b', Q pre b → f b a = some b' → Q (pre ++ [a]) b') :
    ∀ (l pre : List α) (b b' : β), Q pre b → l.foldlM f b = some b' → Q (pre ++ l) b' := by
  intro l
  induction l with
  | nil =>
    intro pre b b' hb h
    simp [List.foldlM] at h
    subst h
    simpa using hb
  | cons a l ih =>
    intro pre b b' hb h
    rw [List.foldlM_cons] at h
    cases hfa : f b a with
    | none => simp [hfa] at h
    | some b1 =>
      simp [hfa] at h
      have := ih (pre ++ [a]) b1 b' (hf pre a b b1 hb hfa) h
      simpa using this

/-! ### the column update of one variant -/

/-- the new entry of a sample that carries the variant's k-mer: the base if the entry was '-' or
that base, N otherwise -/
def updF (nucl x : UInt8) : UInt8 := if x == 45 || x == nucl then nucl else 78

/-- one step of the update loop -/
def upd (nucl : UInt8) (c : List UInt8) (i : Nat) : List UInt8 :=
  if c.getD i 0 == 45 || c.getD i 0 == nucl then c.set i nucl else c.set i 78

theorem upd_length (nucl : UInt8) (c : List UInt8) (j : Nat) : (upd nucl c j).length = c.length := by
  unfold upd
  split <;> rw [List.length_set]

theorem upd_getD (nucl : UInt8) (c : List UInt8) (j i : Nat) (hi : i < c.length) :
    (upd nucl c j).getD i 0 = if i = j then updF nucl (c.getD i 0) else c.getD i 0 := by
  unfold upd updF
  by_cases hij : i = j
  · subst hij
    rw [if_pos rfl]
    split <;> simp [List.getD_eq_getElem?_getD, hi]
  · rw [if_neg hij]
    have : ¬ j = i := fun h => hij h.symm
    split <;> simp [List.getD_eq_getElem?_getD, this]

theorem updF_idem (nucl x : UInt8) (hn : nucl ≠ 78) : updF nucl (updF nucl x) = updF nucl x := by
  unfold updF
  by_cases h : (x == 45 || x == nucl) = true
  · simp [h]
  · have h78 : ((78 : UInt8) == nucl) = false := by
      simp only [beq_eq_false_iff_ne, ne_eq]
      exact fun e => hn e.symm
    simp [h, h78]

theorem foldl_upd_length (nucl : UInt8) (S : List Nat) :
    ∀ c : List UInt8, (S.foldl (upd nucl) c).length = c.length := by
  induction S with
  | nil => intro c; rfl
  | cons j S ih => intro c; rw [List.foldl_cons, ih, upd_length]

/-- the whole update loop, entry by entry: samples in the set get `updF`, the others keep theirs
(indices beyond the column are ignored; repeated indices do no harm) -/
theorem foldl_upd_getD (nucl : UInt8) (hn : nucl ≠ 78) (S : List Nat) :
    ∀ (c : List UInt8) (i : Nat), i < c.length →
      (S.foldl (upd nucl) c).getD i 0 = if i ∈ S then updF nucl (c.getD i 0) else c.getD i 0 := by
  induction S with
  | nil => intro c i _; simp
  | cons j S ih =>
    intro c i hi
    rw [List.foldl_cons, ih (upd nucl c j) i (by rw [upd_length]; exact hi), upd_getD nucl c j i hi]
    by_cases hij : i = j
    · subst hij
      simp only [if_true, List.mem_cons, true_or]
      split
      · exact updF_idem nucl _ hn
      · rfl
    · simp only [List.mem_cons, hij, false_or, if_false]

/-! ### the justification of an entry, abstractly -/

section entry
variable {α : Type}

/-- `Car v b`: variant `v` shows base `b` and the sample carries `v`'s k-mer.  The entry `x` of the
sample after the variants `vs`: '-' when it carries none of them, N when it carries two variants
showing different bases, and the base otherwise -/
def Entry (Car : α → UInt8 → Prop) (vs : List α) (x : UInt8) : Prop :=
  (x = 45 ∧ ∀ v ∈ vs, ∀ b, ¬ Car v b) ∨
  (x = 78 ∧ ∃ v ∈ vs, ∃ v' ∈ vs, ∃ b b', b ≠ b' ∧ Car v b ∧ Car v' b') ∨
  (isACGT x = true ∧ (∃ v ∈ vs, Car v x) ∧ ∀ v ∈ vs, ∀ b, Car v b → b = x)

theorem acgt_ne {x : UInt8} (h : isACGT x = true) : x ≠ 45 ∧ x ≠ 78 := by
  constructor <;> (rintro rfl; exact absurd h (by decide))

theorem isACGT_decodeBase (c : Nat) : isACGT (decodeBase c) = true := by
  unfold decodeBase
  split
  · decide
  · split
    · decide
    · split <;> decide

theorem entry_nil (Car : α → UInt8 → Prop) : Entry Car [] 45 :=
  Or.inl ⟨rfl, fun v hv => by simp at hv⟩

/-- a variant the sample does not carry leaves the entry justified -/
theorem entry_skip (Car : α → UInt8 → Prop) (P : List α) (v : α) (x : UInt8)
    (hE : Entry Car P x) (hno : ∀ b, ¬ Car v b) : Entry Car (P ++ [v]) x := by
  rcases hE with ⟨h1, h2⟩ | ⟨h1, u, hu, u', hu', b, b', hne, hc, hc'⟩ | ⟨h1, ⟨u, hu, hc⟩, h3⟩
  · refine Or.inl ⟨h1, ?_⟩
    intro w hw b
    rcases List.mem_append.mp hw with hw | hw
    · exact h2 w hw b
    · rw [List.mem_singleton] at hw; subst hw; exact hno b
  · exact Or.inr (Or.inl ⟨h1, u, List.mem_append_left _ hu, u', List.mem_append_left _ hu', b, b', hne, hc, hc'⟩)
  · refine Or.inr (Or.inr ⟨h1, ⟨u, List.mem_append_left _ hu, hc⟩, ?_⟩)
    intro w hw b hb
    rcases List.mem_append.mp hw with hw | hw
    · exact h3 w hw b hb
    · rw [List.mem_singleton] at hw; subst hw; exact absurd hb (hno b)

/-- a variant the sample carries: the entry becomes `updF` of the old one -/
theorem entry_hit (Car : α → UInt8 → Prop) (P : List α) (v : α) (x b : UInt8) (hb : isACGT b = true)
    (hE : Entry Car P x) (hc : Car v b) (hfun : ∀ b', Car v b' → b' = b) :
    Entry Car (P ++ [v]) (updF b x) := by
  have hv : v ∈ P ++ [v] := List.mem_append_right _ (List.mem_singleton.mpr rfl)
  obtain ⟨hb45, hb78⟩ := acgt_ne hb
  rcases hE with ⟨h1, h2⟩ | ⟨h1, u, hu, u', hu', c, c', hne, hcu, hcu'⟩ | ⟨h1, ⟨u, hu, hcu⟩, h3⟩
  · subst h1
    have : updF b 45 = b := by simp [updF]
    rw [this]
    refine Or.inr (Or.inr ⟨hb, ⟨v, hv, hc⟩, ?_⟩)
    intro w hw b' hb'
    rcases List.mem_append.mp hw with hw | hw
    · exact absurd hb' (h2 w hw b')
    · rw [List.mem_singleton] at hw; subst hw; exact hfun b' hb'
  · subst h1
    have h78 : ((78 : UInt8) == b) = false := by
      simp only [beq_eq_false_iff_ne, ne_eq]; exact fun e => hb78 e.symm
    have : updF b 78 = 78 := by simp [updF, h78]
    rw [this]
    exact Or.inr (Or.inl ⟨rfl, u, List.mem_append_left _ hu, u', List.mem_append_left _ hu', c, c', hne, hcu, hcu'⟩)
  · obtain ⟨hx45, _⟩ := acgt_ne h1
    by_cases hxb : x = b
    · subst hxb
      have : updF x x = x := by simp [updF]
      rw [this]
      refine Or.inr (Or.inr ⟨h1, ⟨v, hv, hc⟩, ?_⟩)
      intro w hw b' hb'
      rcases List.mem_append.mp hw with hw | hw
      · exact h3 w hw b' hb'
      · rw [List.mem_singleton] at hw; subst hw; exact hfun b' hb'
    · have : updF b x = 78 := by simp [updF, hx45, hxb]
      rw [this]
      exact Or.inr (Or.inl ⟨rfl, u, List.mem_append_left _ hu, v, hv, x, b, hxb, hcu, hc⟩)

/-- the three readings of an entry -/
theorem entry_cases (Car : α → UInt8 → Prop) (vs : List α) (x : UInt8) (h : Entry Car vs x) :
    (x = 45 → ∀ v ∈ vs, ∀ b, ¬ Car v b) ∧
    (x = 78 → ∃ v ∈ vs, ∃ v' ∈ vs, ∃ b b', b ≠ b' ∧ Car v b ∧ Car v' b') ∧
    (isACGT x = true → (∃ v ∈ vs, Car v x) ∧ ∀ v ∈ vs, ∀ b, Car v b → b = x) ∧
    (x = 45 ∨ x = 78 ∨ isACGT x = true) := by
  rcases h with ⟨h1, h2⟩ | ⟨h1, h2⟩ | ⟨h1, h2⟩
  · subst h1
    exact ⟨fun _ => h2, fun h => absurd h (by decide), fun h => absurd h (by decide), Or.inl rfl⟩
  · subst h1
    exact ⟨fun h => absurd h (by decide), fun _ => h2, fun h => absurd h (by decide), Or.inr (Or.inl rfl)⟩
  · obtain ⟨h45, h78⟩ := acgt_ne h1
    exact ⟨fun h => absurd h h45, fun h => absurd h h78, fun _ => h2, Or.inr (Or.inr h1)⟩

end entry

/-! ### `groupSnps` -/

/-- the k-mer of variant `v` ending at `pos` (the window `[pos - kGraph, pos]`) is `w`; its last base
decodes to `b`; its colour set is `S` -/
def Call (W kGraph : Nat) (col : Colours) (pos : Nat) (v : Variant) (b : UInt8) (S : List Nat) : Prop :=
  ∃ w, getRange v.1 (pos - kGraph) (pos + 1) = some w ∧ decodeBase (encodeKmer W w &&& 3) = b ∧
    Assoc.lookup col (encodeKmer W w) = some S

/-- variant `v` shows base `b` at `pos` and sample `i` has the colour of `v`'s k-mer ending at `pos` -/
def Carries (W kGraph : Nat) (col : Colours) (pos : Nat) (i : Nat) (v : Variant) (b : UInt8) : Prop :=
  ∃ S, Call W kGraph col pos v b S ∧ i ∈ S

theorem call_fun {W kGraph : Nat} {col : Colours} {pos : Nat} {v : Variant} {b b' : UInt8} {S S' : List Nat}
    (h : Call W kGraph col pos v b S) (h' : Call W kGraph col pos v b' S') : b' = b ∧ S' = S := by
  obtain ⟨w, h1, h2, h3⟩ := h
  obtain ⟨w', h1', h2', h3'⟩ := h'
  rw [h1] at h1'
  have := Option.some.inj h1'
  subst this
  rw [h3] at h3'
  exact ⟨by rw [← h2, ← h2'], (Option.some.inj h3').symm⟩

/-- the k-mers of `v` around `pos` were not used by an earlier column -/
def Fresh (W kGraph : Nat) (done : List Nat) (pos : Nat) (v : Variant) : Prop :=
  ∃ wb wa, getRange v.1 (pos - kGraph) (pos + 1) = some wb ∧ getRange v.1 pos (pos + kGraph + 1) = some wa ∧
    encodeKmer W wb ∉ done ∧ revComp W (encodeKmer W wa) (kGraph + 1) ∉ done

/-- column `c` is the column of position `pos` of the variants `vs` -/
def ColumnAt (W kGraph n : Nat) (col : Colours) (done : List Nat) (vs : List Variant) (pos : Nat)
    (c : List UInt8) : Prop :=
  c.length = n ∧
  (∀ v ∈ vs, (∃ b S, Call W kGraph col pos v b S) ∧ Fresh W kGraph done pos v) ∧
  ∀ i, i < n → Entry (Carries W kGraph col pos i) vs (c.getD i 0)

/-- the body of the inner loop of `groupSnps` -/
def inner (W kGraph : Nat) (col : Colours) (done : List Nat) (pos : Nat)
    (st : List UInt8 × List Nat × Bool) (v : Variant) : Option (List UInt8 × List Nat × Bool) := do
  let fbS ← getRange v.1 (pos - kGraph) (pos + 1)
  let faS ← getRange v.1 pos (pos + kGraph + 1)
  let fb := encodeKmer W fbS
  let fa := encodeKmer W faS
  let rca := revComp W fa (kGraph + 1)
  if !done.contains fb && !done.contains rca then
    let nucl := decodeBase (fb &&& 3)
    let samples ← Assoc.lookup col fb
    let column := samples.foldl (fun (c : List UInt8) i =>
      if c.getD i 0 == 45 || c.getD i 0 == nucl then c.set i nucl else c.set i 78) st.1
    pure (column, st.2.1 ++ [fb, revComp W fb (kGraph + 1), fa, rca], st.2.2)
  else pure (st.1, st.2.1, false)

theorem inner_step (W kGraph n : Nat) (col : Colours) (done : List Nat) (pos : Nat)
    (pre : List Variant) (v : Variant) (st st' : List UInt8 × List Nat × Bool)
    (hQ : st.2.2 = true → ColumnAt W kGraph n col done pre pos st.1)
    (hv : inner W kGraph col done pos st v = some st') :
    st'.2.2 = true → ColumnAt W kGraph n col done (pre ++ [v]) pos st'.1 := by
  unfold inner at hv
  simp only [Option.bind_eq_bind, Option.bind_eq_some_iff] at hv
  obtain ⟨fbS, hfb, faS, hfa, hv⟩ := hv
  split at hv
  · rename_i hnd
    simp only [Option.bind_eq_some_iff] at hv
    obtain ⟨samples, hs, hv⟩ := hv
    simp only [pure, Option.some.injEq] at hv
    subst hv
    intro hnew
    obtain ⟨hlen, hall, hent⟩ := hQ hnew
    simp only [Bool.and_eq_true, Bool.not_eq_true', List.contains_eq_mem, decide_eq_false_iff_not] at hnd
    have hcall : Call W kGraph col pos v (decodeBase (encodeKmer W fbS &&& 3)) samples := ⟨fbS, hfb, rfl, hs⟩
    have hacgt := isACGT_decodeBase (encodeKmer W fbS &&& 3)
    generalize decodeBase (encodeKmer W fbS &&& 3) = nucl at hcall hacgt ⊢
    have hn78 := (acgt_ne hacgt).2
    show ColumnAt W kGraph n col done (pre ++ [v]) pos (samples.foldl (upd nucl) st.1)
    refine ⟨by rw [foldl_upd_length]; exact hlen, ?_, ?_⟩
    · intro u hu
      rcases List.mem_append.mp hu with hu | hu
      · exact hall u hu
      · rw [List.mem_singleton] at hu
        subst hu
        exact ⟨⟨nucl, samples, hcall⟩, fbS, faS, hfb, hfa, hnd.1, hnd.2⟩
    · intro i hi
      rw [foldl_upd_getD nucl hn78 samples st.1 i (by rw [hlen]; exact hi)]
      split
      · rename_i hmem
        refine entry_hit _ pre v _ nucl hacgt (hent i hi) ⟨samples, hcall, hmem⟩ ?_
        rintro b' ⟨S', hc', _⟩
        exact (call_fun hcall hc').1
      · rename_i hmem
        refine entry_skip _ pre v _ (hent i hi) ?_
        rintro b' ⟨S', hc', hm'⟩
        rw [(call_fun hcall hc').2] at hm'
        exact hmem hm'
  · simp only [pure, Option.some.injEq] at hv
    subst hv
    intro h
    exact absurd h (by simp)

/-- **every column of `groupSnps` is the column of a retained position, justified by the colours** -/
theorem groupSnps_justified (W kGraph n mNum mDen : Nat) (col : Colours) (done : List Nat)
    (vs : List Variant) (r : List (List UInt8) × List Nat)
    (h : groupSnps W kGraph n mNum mDen col done vs = some r) :
    ∀ c ∈ r.1, ∃ pos ∈ getPotentialSnp vs, kGraph ≤ pos ∧ ColumnAt W kGraph n col done vs pos c := by
  unfold groupSnps at h
  simp only [] at h
  have key := foldlM_prefix _
    (fun (pre : List Nat) (acc : List (List UInt8) × List Nat) =>
      ∀ c ∈ acc.1, ∃ pos ∈ pre, kGraph ≤ pos ∧ ColumnAt W kGraph n col done vs pos c) ?_
    (getPotentialSnp vs) [] _ _ (by simp) h
  · simpa using key
  clear h
  intro pre pos acc acc' hacc hstep
  have hmono : ∀ c ∈ acc.1, ∃ p ∈ pre ++ [pos], kGraph ≤ p ∧ ColumnAt W kGraph n col done vs p c := by
    intro c hc
    obtain ⟨p, hp, h⟩ := hacc c hc
    exact ⟨p, List.mem_append_left _ hp, h⟩
  split at hstep
  · simp at hstep
  · rename_i hpos
    simp only [Option.bind_eq_bind, Option.bind_eq_some_iff] at hstep
    obtain ⟨st, hst, hstep⟩ := hstep
    have hcol : st.2.2 = true → ColumnAt W kGraph n col done vs pos st.1 := by
      have := foldlM_prefix (inner W kGraph col done pos)
        (fun (pre : List Variant) (st : List UInt8 × List Nat × Bool) =>
          st.2.2 = true → ColumnAt W kGraph n col done pre pos st.1)
        (fun pre v st st' hQ hv => inner_step W kGraph n col done pos pre v st st' hQ hv)
        vs [] (List.replicate n 45, [], true) st ?_ hst
      · simpa using this
      · intro _
        refine ⟨by simp, by simp, ?_⟩
        intro i hi
        have : (List.replicate n (45 : UInt8)).getD i 0 = 45 := by
          simp [List.getD_eq_getElem?_getD, hi]
        rw [this]
        exact entry_nil _
    clear hst
    split at hstep
    · rename_i hnew
      split at hstep
      · simp only [pure, Option.some.injEq] at hstep
        subst hstep
        intro c hc
        rcases List.mem_append.mp hc with hc | hc
        · exact hmono c hc
        · rw [List.mem_singleton] at hc
          subst hc
          exact ⟨pos, List.mem_append_right _ (List.mem_singleton.mpr rfl), by omega, hcol hnew⟩
      · simp only [pure, Option.some.injEq] at hstep
        subst hstep
        exact hmono
    · simp only [pure, Option.some.injEq] at hstep
      subst hstep
      exact hmono

/-! ### `analyse` -/

theorem mem_insertByRatio (x y : (Nat × Nat) × List Variant) :
    ∀ l : List ((Nat × Nat) × List Variant), y ∈ insertByRatio x l ↔ y = x ∨ y ∈ l := by
  intro l
  induction l with
  | nil => simp [insertByRatio]
  | cons z zs ih =>
    unfold insertByRatio
    simp only []
    split
    · simp
    · simp only [List.mem_cons, ih]
      constructor
      · rintro (h | h | h)
        · exact Or.inr (Or.inl h)
        · exact Or.inl h
        · exact Or.inr (Or.inr h)
      · rintro (h | h | h)
        · exact Or.inr (Or.inl h)
        · exact Or.inl h
        · exact Or.inr (Or.inr h)

theorem mem_foldr_insertByRatio (y : (Nat × Nat) × List Variant) :
    ∀ l : List ((Nat × Nat) × List Variant), y ∈ l.foldr insertByRatio [] ↔ y ∈ l := by
  intro l
  induction l with
  | nil => simp
  | cons x xs ih => rw [List.foldr_cons, mem_insertByRatio, ih, List.mem_cons]

/-- **every column of `analyse` is a justified column of an SNP group** (its variants filtered by the
internal-indel test, `ext` being the extremities `processIndels` returns) -/
theorem analyse_justified (W kGraph n mNum mDen ik : Nat) (col : Colours) (gr : Groups)
    (cols : List (List UInt8)) (recs : List IndelRec)
    (h : analyse W kGraph n mNum mDen ik col gr = some (cols, recs)) :
    ∃ ext, (∃ recs', processIndels W kGraph n mNum mDen col gr.indelGroups = some (recs', ext)) ∧
    ∀ c ∈ cols, ∃ kv ∈ gr.snpGroups, ∃ done : List Nat,
      ∃ pos ∈ getPotentialSnp (kv.2.filter (fun v => !(internalIndels W kGraph ext v.1 > ik))),
        kGraph ≤ pos ∧
        ColumnAt W kGraph n col done (kv.2.filter (fun v => !(internalIndels W kGraph ext v.1 > ik))) pos c := by
  unfold analyse at h
  simp only [Option.bind_eq_bind, Option.bind_eq_some_iff] at h
  obtain ⟨⟨recs', ext⟩, hpi, res, hres, h⟩ := h
  simp only [pure, Option.some.injEq, Prod.mk.injEq] at h
  obtain ⟨h1, _⟩ := h
  subst h1
  refine ⟨ext, ⟨recs', hpi⟩, ?_⟩
  have key := foldlM_prefix _
    (fun (pre : List ((Nat × Nat) × List Variant)) (acc : List (List UInt8) × List Nat) =>
      ∀ c ∈ acc.1, ∃ kv ∈ pre, ∃ done : List Nat, ∃ pos ∈ getPotentialSnp kv.2,
        kGraph ≤ pos ∧ ColumnAt W kGraph n col done kv.2 pos c) ?_ _ [] _ _ (by simp) hres
  · intro c hc
    obtain ⟨kv, hkv, done, pos, hpos, hk, hcol⟩ := key c hc
    rw [List.nil_append, mem_foldr_insertByRatio, List.mem_filter, List.mem_mergeSort, List.mem_map] at hkv
    obtain ⟨⟨kv0, hkv0, he⟩, _⟩ := hkv
    subst he
    exact ⟨kv0, hkv0, done, pos, hpos, hk, hcol⟩
  · clear hres
    intro pre kv acc acc' hacc hstep
    have hmono : ∀ c ∈ acc.1, ∃ kv' ∈ pre ++ [kv], ∃ done : List Nat, ∃ pos ∈ getPotentialSnp kv'.2,
        kGraph ≤ pos ∧ ColumnAt W kGraph n col done kv'.2 pos c := by
      intro c hc
      obtain ⟨p, hp, h⟩ := hacc c hc
      exact ⟨p, List.mem_append_left _ hp, h⟩
    split at hstep
    · split at hstep
      · simp only [pure, Option.some.injEq] at hstep
        subst hstep
        exact hmono
      · simp only [Option.bind_eq_some_iff] at hstep
        obtain ⟨⟨cs, save⟩, hg, hstep⟩ := hstep
        simp only [pure, Option.some.injEq] at hstep
        subst hstep
        intro c hc
        rcases List.mem_append.mp hc with hc | hc
        · exact hmono c hc
        · obtain ⟨pos, hpos, hk, hcol⟩ := groupSnps_justified W kGraph n mNum mDen col _ _ _ hg c hc
          exact ⟨kv, List.mem_append_right _ (List.mem_singleton.mpr rfl), acc.2, pos, hpos, hk, hcol⟩
    · simp only [pure, Option.some.injEq] at hstep
      subst hstep
      exact hmono

end SkaModel.LORL
