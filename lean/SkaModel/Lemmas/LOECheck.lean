/-
C18 completeness — the executable checker of Stage 0 (`dcompleteOn`) accepts whenever the proposition
`RecsMatch` holds: the expected records of different blocks and strands differ.
-/
import SkaModel.Lemmas.LOEFinal2

namespace SkaModel.LOE

open SkaModel SkaModel.Spec SkaModel.Props.C16 SkaModel.Skalo SkaModel.Props.C17G SkaModel.LOG SkaModel.LOC

theorem indelRec_beq_iff (a b : IndelRec) : (a == b) = true ↔ a = b := by
  cases a; cases b
  constructor
  · intro h
    simp only [BEq.beq] at h
    unfold instBEqIndelRec.beq at h
    simp at h
    simp [h]
  · intro h
    rw [h]
    simp only [BEq.beq]
    unfold instBEqIndelRec.beq
    simp

theorem countP_zipIdx_snd {α : Type} (t : Nat) :
    ∀ (l : List α) (s : Nat), (l.zipIdx s).countP (fun ft => ft.2 == t) =
      if s ≤ t ∧ t < s + l.length then 1 else 0 := by
  intro l
  induction l with
  | nil => intro s; simp
  | cons x l ih =>
    intro s
    rw [List.zipIdx_cons, List.countP_cons, ih (s + 1)]
    simp only [List.length_cons]
    by_cases h1 : s = t
    · subst h1
      simp
      omega
    · have : (s == t) = false := by simpa using h1
      simp only [this, Bool.false_eq_true, if_false, Nat.add_zero]
      by_cases h2 : s + 1 ≤ t ∧ t < s + 1 + l.length
      · rw [if_pos h2, if_pos (by omega)]
      · rw [if_neg h2, if_neg (by omega)]

namespace Ctx

variable {W k : Nat} {F : List UInt8} {B : List (Nat × Nat)} {C : List (List Bool)} {a : Arr} {names : List String}

theorem before_fw (cx : Ctx W k F B C a names) {t : Nat} (ht : t < B.length) :
    (dexpRec k F B C t false).before = lets F (Nd.cols k B (.c (eX k F B t))) := by
  rw [← cx.recFw_eq ht]; rfl

theorem before_rv (cx : Ctx W k F B C a names) {t : Nat} (ht : t < B.length) :
    (dexpRec k F B C t true).before = rcSeq (lets F (Nd.cols k B (.c (bE B t)))) := by
  rw [← cx.recRv_eq ht]; rfl

/-- the expected records of different blocks differ (whatever the strands) -/
theorem dexp_inj (cx : Ctx W k F B C a names) {t t' : Nat} (ht : t < B.length) (ht' : t' < B.length) {f f' : Bool}
    (e : dexpRec k F B C t f = dexpRec k F B C t' f') : t = t' := by
  have hb := cx.h.bt ht
  have hb' := cx.h.bt ht'
  have he := cx.ex_bounds ht
  have he' := cx.ex_bounds ht'
  have hk5 := cx.h.k5
  have hv1 : (Nd.c (eX k F B t)).valid k F.length B (shf k F B) := cx.vc ht (by omega)
  have hv1' : (Nd.c (eX k F B t')).valid k F.length B (shf k F B) := cx.vc ht' (by omega)
  have hv2 : (Nd.c (bE B t)).valid k F.length B (shf k F B) := cx.vc ht (by omega)
  have hv2' : (Nd.c (bE B t')).valid k F.length B (shf k F B) := cx.vc ht' (by omega)
  have eb := congrArg IndelRec.before e
  cases f <;> cases f'
  · rw [cx.before_fw ht, cx.before_fw ht'] at eb
    have hc := (cx.h.uniq _ (cx.h.cols_mem hv1) _ (cx.h.cols_mem hv1')).1 eb
    rw [cx.h.canon_valid hv1, cx.h.canon_valid hv1'] at hc
    exact cx.eX_inj ht ht' (Nd.c.inj (cx.h.cols_inj hv1 hv1' hc))
  · rw [cx.before_fw ht, cx.before_rv ht'] at eb
    exact absurd eb (cx.h.uniq _ (cx.h.cols_mem hv1) _ (cx.h.cols_mem hv2')).2
  · rw [cx.before_rv ht, cx.before_fw ht'] at eb
    exact absurd eb.symm (cx.h.uniq _ (cx.h.cols_mem hv1') _ (cx.h.cols_mem hv2)).2
  · rw [cx.before_rv ht, cx.before_rv ht'] at eb
    have e2 := rcSeq_inj (cx.lets_base hv2) (cx.lets_base hv2') eb
    have hc := (cx.h.uniq _ (cx.h.cols_mem hv2) _ (cx.h.cols_mem hv2')).1 e2
    rw [cx.h.canon_valid hv2, cx.h.canon_valid hv2'] at hc
    exact cx.bE_inj ht ht' (Nd.c.inj (cx.h.cols_inj hv2 hv2' hc))

/-- the executable form of `RecsMatch` -/
theorem drecsMatchB_of (cx : Ctx W k F B C a names) {recs : List IndelRec} (h : RecsMatch k F B C recs) :
    drecsMatchB k F B C recs = true := by
  obtain ⟨flips, hfl, hperm⟩ := h
  unfold drecsMatchB
  rw [Bool.and_eq_true, decide_eq_true_eq, List.all_eq_true]
  constructor
  · rw [hperm.length_eq]; simp [hfl]
  · intro t ht
    rw [List.mem_range] at ht
    rw [beq_iff_eq, (hperm.filter _).length_eq, ← List.countP_eq_length_filter, List.countP_map]
    have hcongr : (flips.zipIdx).countP ((fun r => r == dexpRec k F B C t false || r == dexpRec k F B C t true) ∘
        (fun ft => dexpRec k F B C ft.2 ft.1)) = (flips.zipIdx).countP (fun ft => ft.2 == t) := by
      apply List.countP_congr
      intro ft hft
      have hlt : ft.2 < B.length := by
        have := List.mem_zipIdx hft
        omega
      simp only [Function.comp, Bool.or_eq_true, indelRec_beq_iff]
      show (dexpRec k F B C ft.2 ft.1 = _ ∨ dexpRec k F B C ft.2 ft.1 = _) ↔ (ft.2 == t) = true
      rw [beq_iff_eq]
      constructor
      · rintro (e | e) <;> exact cx.dexp_inj hlt ht e
      · intro e
        subst e
        cases ft.1
        · exact Or.inl rfl
        · exact Or.inr rfl
    rw [hcongr, countP_zipIdx_snd, if_pos (by omega)]

/-- the checker of Stage 0 accepts -/
theorem dcompleteOn_true (cx : Ctx W k F B C a names) (mNum mDen ik maxDepth : Nat) :
    dcompleteOn W k F B C a mNum mDen ik maxDepth = true := by
  obtain ⟨recs, hlo, hm⟩ := cx.lo_dfam mNum mDen ik maxDepth
  unfold dcompleteOn
  rw [hlo]
  exact cx.drecsMatchB_of hm

end Ctx

end SkaModel.LOE
