/-
C17 (second sentence) — the fold of `analyseRef` over all groups (any order): every site is placed exactly
once, at `plc`; and the pipeline `loRef` on a planted family, given `AnchF` / `AnchR`.
-/
import SkaModel.Lemmas.LODCall3

namespace SkaModel.LOD

open SkaModel SkaModel.Spec SkaModel.Props.C16 SkaModel.Skalo SkaModel.Props.C17G SkaModel.LOG SkaModel.LOC

variable {k L : Nat} {S : List (List UInt8)} {P : List Nat}

/-- **the fold over good groups, in any order** -/
theorem fold_groups_ref (pf : PFam k L S P) (hk5 : 5 ≤ k) {W : Nat} (hW : 2 * k ≤ W)
    (hw : W = 64 ∨ W = 128) {col : Colours} (hc : ColOK k L col S) (hc' : ColOK k L col (rcFam S))
    (mNum mDen : Nat) {kmap : List (Nat × List Nat)} {plc : Nat → Nat × List UInt8}
    (hF : AnchF k L S P kmap plc) (hR : AnchR k L S P kmap plc)
    (hinj : ∀ q ∈ P, ∀ q2 ∈ P, (plc q).1 = (plc q2).1 → q = q2) :
    ∀ (gs : List ((Nat × Nat) × List Variant)),
      (∀ kv ∈ gs, 2 ≤ kv.2.length ∧
        ((∃ c0 len, GG k L S P c0 len kv.2) ∨ (∃ c0 len, GG k L (rcFam S) (mirrorP L P) c0 len kv.2))) →
      ∀ (Called : List (Nat × Bool)) (acc : List (Nat × List UInt8) × List Nat), RInv k S P plc Called acc →
      ∃ (Called' : List (Nat × Bool)) (acc' : List (Nat × List UInt8) × List Nat),
        gs.foldlM (refStepX W (k - 1) S.length mNum mDen col kmap []) acc = some acc' ∧
        RInv k S P plc Called' acc' ∧ (∀ x ∈ Called, x ∈ Called') ∧
        ∀ kv ∈ gs, ∀ c0 len, GG k L S P c0 len kv.2 → ∀ q ∈ P, c0 ≤ q → q < c0 + len → q ∈ Called'.map (·.1) := by
  intro gs
  induction gs with
  | nil =>
    intro _ Called acc hI
    exact ⟨Called, acc, rfl, hI, fun x hx => hx, by simp⟩
  | cons kv rest ih =>
    intro hgs Called acc hI
    obtain ⟨h2, hcase⟩ := hgs kv (List.mem_cons_self ..)
    have hrest := ih (fun kv' hkv' => hgs kv' (List.mem_cons_of_mem _ hkv'))
    rw [List.foldlM_cons]
    have hstep : ∃ (Called1 : List (Nat × Bool)) (acc1 : List (Nat × List UInt8) × List Nat),
        refStepX W (k - 1) S.length mNum mDen col kmap [] acc kv = some acc1 ∧ RInv k S P plc Called1 acc1 ∧
        (∀ x ∈ Called, x ∈ Called1) ∧
        ∀ c0 len, GG k L S P c0 len kv.2 → ∀ q ∈ P, c0 ≤ q → q < c0 + len → q ∈ Called1.map (·.1) := by
      -- both invariants describe the same accumulator: the called sites are the blocked ones
      have hcover : ∀ (Called1 : List (Nat × Bool)) (acc1 : List (Nat × List UInt8) × List Nat),
          refStepX W (k - 1) S.length mNum mDen col kmap [] acc kv = some acc1 → RInv k S P plc Called1 acc1 →
          ∀ c0 len, GG k L S P c0 len kv.2 → ∀ q ∈ P, c0 ≤ q → q < c0 + len → q ∈ Called1.map (·.1) := by
        intro Called1 acc1 hs1 hI1 c0' len' hg' q hq h1 h2'
        obtain ⟨Called2, acc2, hs2, hI2, _, hcov2⟩ :=
          step_fwd_ref pf hk5 hW hw hc mNum mDen hF hinj hI hg' h2 kv.1
        rw [hs1] at hs2
        have hacc : acc1 = acc2 := Option.some.inj hs2
        subst hacc
        have hq2 := hcov2 q hq h1 h2'
        obtain ⟨s0, hs0⟩ := List.exists_mem_of_ne_nil S pf.ne
        have hin := (hI2.inv.has q hq2 s0 hs0).1
        obtain ⟨q3, hq3, hb⟩ := hI1.inv.blk _ hin
        obtain ⟨y, hy, rfl⟩ := List.mem_map.mp hq3
        have := blk_site pf hk5 hq (hI1.inv.sub y hy) ⟨s0, hs0, Or.inl rfl⟩ hb
        rw [this]
        exact hq3
      rcases hcase with ⟨c0, len, hg⟩ | ⟨c0, len, hg⟩
      · obtain ⟨Called1, acc1, hs1, hI1, hmono, _⟩ :=
          step_fwd_ref pf hk5 hW hw hc mNum mDen hF hinj hI hg h2 kv.1
        exact ⟨Called1, acc1, hs1, hI1, hmono, hcover Called1 acc1 hs1 hI1⟩
      · obtain ⟨Called1, acc1, hs1, hI1, hmono⟩ :=
          step_rev_ref pf hk5 hW hw hc' mNum mDen hR hinj hI hg h2 kv.1
        exact ⟨Called1, acc1, hs1, hI1, hmono, hcover Called1 acc1 hs1 hI1⟩
    obtain ⟨Called1, acc1, hs1, hI1, hmono1, hcov1⟩ := hstep
    rw [hs1]
    simp only [Option.bind_eq_bind, Option.bind_some]
    obtain ⟨Called2, acc2, hf2, hI2, hmono2, hcov2⟩ := hrest Called1 acc1 hI1
    refine ⟨Called2, acc2, hf2, hI2, fun x hx => hmono2 x (hmono1 x hx), ?_⟩
    intro kv' hkv' c0 len hg q hq h1 h2'
    rcases List.mem_cons.mp hkv' with e | hkv''
    · subst e
      have := hcov1 c0 len hg q hq h1 h2'
      obtain ⟨y, hy, rfl⟩ := List.mem_map.mp this
      exact List.mem_map.mpr ⟨y, hmono2 y hy, rfl⟩
    · exact hcov2 kv' hkv'' c0 len hg q hq h1 h2'

/-- **the pipeline with a reference on a planted family**, given what the reference yields for the groups:
exactly the pairs `plc p` of the sites, in some order; no indel record -/
theorem loRef_of_anch {a : Arr} {names : List String} (ha : IsArrOf a k names S) (pf : PFam k L S P) (hk : ValidK k)
    {W : Nat} (hw : WidthOk W k) (mNum mDen ik maxDepth : Nat) (genome : List UInt8)
    {plc : Nat → Nat × List UInt8}
    (hF : AnchF k L S P (genomicKmers 128 (k - 1) genome) plc)
    (hR : AnchR k L S P (genomicKmers 128 (k - 1) genome) plc)
    (hinj : ∀ q ∈ P, ∀ q2 ∈ P, (plc q).1 = (plc q2).1 → q = q2) :
    ∃ placed, loRef W k S.length mNum mDen ik maxDepth a genome = some (placed, []) ∧
      placed.Perm (P.map plc) := by
  obtain ⟨hh2, hkh, hkW⟩ := validK_bounds hk hw
  have hk5 := hk.1
  have st := strand_of_fam ha pf hk hw
  have hc := colOK_fam ha pf hk hw
  have hc' := colOK_rc ha pf hk hw
  obtain ⟨starts, ends, hid, ex⟩ := st.identify hc hc' (LOC.widthOk_cases hw) hkW
  obtain ⟨hind, hsnp, hcov⟩ := st.groups_spec ex hkW maxDepth
  unfold loRef
  simp only [Option.bind_eq_bind]
  rw [hid]
  simp only [Option.bind_some]
  rw [analyseRef_noindel _ _ _ _ _ _ _ _ _ hind]
  obtain ⟨Called, acc, hfold, hI, _, hcover⟩ :=
    fold_groups_ref pf hk5 hkW (LOC.widthOk_cases hw) hc hc' mNum mDen hF hR hinj
      (sortedGroups (buildVariantGroups W (k - 1) (buildGraph W a).1 starts ends maxDepth))
      (fun kv hkv => hsnp kv ((mem_sortedGroups _ kv).mp hkv).1) [] ([], []) (rinv_nil k S P plc)
  rw [hfold]
  refine ⟨acc.1, rfl, ?_⟩
  rw [hI.cols]
  have hP : P.Nodup := (pf.sorted (by omega)).imp (fun h => Nat.ne_of_lt h)
  have hperm : (Called.map (·.1)).Perm P := by
    rw [List.perm_ext_iff_of_nodup hI.inv.nd hP]
    intro p
    constructor
    · intro hp
      obtain ⟨x, hx, rfl⟩ := List.mem_map.mp hp
      exact hI.inv.sub x hx
    · intro hp
      obtain ⟨grp, hgrp, _, c0, len, hg, h1, h2⟩ := hcov p hp
      have h2len := (hsnp grp hgrp).1
      have hne : grp.2 ≠ [] := by
        intro e; rw [e] at h2len; simp at h2len
      exact hcover grp ((mem_sortedGroups _ grp).mpr ⟨hgrp, hne⟩) c0 len hg p hp h1 h2
  have := hperm.map plc
  rw [List.map_map] at this
  exact this

end SkaModel.LOD
