/-
C18 completeness — the sequences `buildVariant` spells for a path of nodes given in columns: on the samples'
strand the letters of the first node followed by the last letter of every further node; on the other strand
the reverse complement of the letters of the first node followed by the complemented first letter of every
further node.
-/
import SkaModel.Lemmas.LOEFarD

namespace SkaModel.LOE

open SkaModel SkaModel.Spec SkaModel.Props.C16 SkaModel.Skalo SkaModel.Props.C17G SkaModel.LOG SkaModel.LOC

theorem map_decodeBase_cds {w : List UInt8} (h : AllBase w) : (cds w).map decodeBase = w := by
  unfold cds
  rw [List.map_map]
  conv => rhs; rw [← List.map_id w]
  apply List.map_congr_left
  intro b hb
  exact decode_code_base (h b hb)

theorem packL_mod4 (cs : List Nat) (hc : Codes cs) (hne : cs ≠ []) : packL cs % 4 = cs.getLastD 0 := by
  obtain ⟨init, c, rfl⟩ : ∃ init c, cs = init ++ [c] := ⟨cs.dropLast, cs.getLast hne, (List.dropLast_concat_getLast hne).symm⟩
  rw [packL_snoc, getLastD_append_singleton]
  have : c < 4 := hc c (by simp)
  omega

theorem cds_getLastD (w : List UInt8) (hne : w ≠ []) : (cds w).getLastD 0 = code (w.getLastD 0) := by
  obtain ⟨init, c, rfl⟩ : ∃ init c, w = init ++ [c] := ⟨w.dropLast, w.getLast hne, (List.dropLast_concat_getLast hne).symm⟩
  rw [cds_append, getLastD_append_singleton]
  show (cds init ++ [code c]).getLastD 0 = _
  rw [getLastD_append_singleton]

theorem rcCodes_getLastD (cs : List Nat) (hne : cs ≠ []) : (rcCodes cs).getLastD 0 = cs.headD 0 ^^^ 2 := by
  cases cs with
  | nil => exact absurd rfl hne
  | cons c t => rw [rcCodes_cons, getLastD_append_singleton]; rfl

namespace Ctx

variable {W k : Nat} {F : List UInt8} {B : List (Nat × Nat)} {C : List (List Bool)} {a : Arr} {names : List String}

theorem lets_base (cx : Ctx W k F B C a names) {n : Nd} (hv : n.valid k F.length B (shf k F B)) : AllBase (lets F (n.cols k B)) :=
  map_getF_base cx.h.base (cx.h.cols_lt hv)

theorem cols_ne (cx : Ctx W k F B C a names) {n : Nd} (hv : n.valid k F.length B (shf k F B)) : n.cols k B ≠ [] := by
  intro e
  have := cx.h.cols_length hv
  rw [e] at this
  have hk5 := cx.h.k5
  simp only [List.length_nil] at this
  omega

theorem nF_lt (cx : Ctx W k F B C a names) {n : Nd} (hv : n.valid k F.length B (shf k F B)) : nF k F B n < 4 ^ (k - 1) := by
  have := packL_lt (cds_codes (lets F (n.cols k B)))
  rw [cds_length] at this
  unfold lets at this
  rw [List.length_map, cx.h.cols_length hv] at this
  exact this

theorem nR_lt (cx : Ctx W k F B C a names) {n : Nd} (hv : n.valid k F.length B (shf k F B)) : nR k F B n < 4 ^ (k - 1) := by
  have := packL_lt (rcCodes_codes (cds_codes (lets F (n.cols k B))))
  rw [rcCodes_length, cds_length] at this
  unfold lets at this
  rw [List.length_map, cx.h.cols_length hv] at this
  exact this

/-- the last letter of a node of the samples' strand -/
theorem nF_last (cx : Ctx W k F B C a names) {n : Nd} (hv : n.valid k F.length B (shf k F B)) :
    decodeBase (nF k F B n % 4) = getF F ((n.cols k B).getLastD 0) := by
  have hne := cx.cols_ne hv
  have hne' : lets F (n.cols k B) ≠ [] := by unfold lets; simpa using hne
  show decodeBase (packL (cds (lets F (n.cols k B))) % 4) = _
  rw [packL_mod4 _ (cds_codes _) (by rw [← List.length_pos_iff, cds_length]; exact List.length_pos_iff.mpr hne'),
    cds_getLastD _ hne']
  have hl : (lets F (n.cols k B)).getLastD 0 = getF F ((n.cols k B).getLastD 0) := by
    obtain ⟨init, c, e⟩ : ∃ init c, n.cols k B = init ++ [c] :=
      ⟨_, _, (List.dropLast_concat_getLast hne).symm⟩
    rw [e]
    unfold lets
    rw [List.map_append, List.map_singleton, getLastD_append_singleton, getLastD_append_singleton]
  rw [hl]
  apply decode_code_base
  apply getF_base cx.h.base
  apply cx.h.cols_lt hv
  rw [List.getLastD_eq_getLast?, List.getLast?_eq_some_getLast hne]
  exact List.getLast_mem hne

/-- the last letter of a node of the other strand -/
theorem nR_last (cx : Ctx W k F B C a names) {n : Nd} (hv : n.valid k F.length B (shf k F B)) :
    decodeBase (nR k F B n % 4) = compl (getF F ((n.cols k B).headD 0)) := by
  have hne := cx.cols_ne hv
  have hne' : lets F (n.cols k B) ≠ [] := by unfold lets; simpa using hne
  have hc : cds (lets F (n.cols k B)) ≠ [] := by
    rw [← List.length_pos_iff, cds_length]; exact List.length_pos_iff.mpr hne'
  show decodeBase (packL (rcCodes (cds (lets F (n.cols k B)))) % 4) = _
  rw [packL_mod4 _ (rcCodes_codes (cds_codes _)) (by
      rw [← List.length_pos_iff, rcCodes_length]; exact List.length_pos_iff.mpr hc),
    rcCodes_getLastD _ hc]
  obtain ⟨c, t, e⟩ : ∃ c t, n.cols k B = c :: t := by
    cases h : n.cols k B with
    | nil => exact absurd h hne
    | cons c t => exact ⟨c, t, rfl⟩
  have hcb : isBase (getF F c) = true := by
    apply getF_base cx.h.base
    apply cx.h.cols_lt hv
    rw [e]; exact List.mem_cons_self ..
  rw [e]
  show decodeBase (code (getF F c) ^^^ 2) = compl (getF F c)
  rw [← code_compl hcb]
  exact decode_code_base (isBase_compl hcb)

/-- **the sequence of a path of nodes of the samples' strand** -/
theorem bv_fwd (cx : Ctx W k F B C a names) (starts ends : List Nat) (n0 : Nd) (rest : List Nd)
    (hv0 : n0.valid k F.length B (shf k F B)) (hv : ∀ n ∈ rest, n.valid k F.length B (shf k F B)) :
    (buildVariant W (k - 1) starts ends (nF k F B n0) ((n0 :: rest).map (nF k F B))).1 =
      lets F (n0.cols k B) ++ rest.map (fun n => getF F ((n.cols k B).getLastD 0)) := by
  obtain ⟨_, _, hkW⟩ := validK_bounds cx.hk cx.hw
  have hk5 := cx.h.k5
  rw [List.map_cons, buildVariant_seq W (k - 1) starts ends _ _ (cx.nF_lt hv0) (by omega)]
  unfold cseq
  rw [List.map_append]
  congr 1
  · show (digs (k - 1) (packL (cds (lets F (n0.cols k B))))).map decodeBase = _
    rw [LORL.digs_packL (k - 1) _ (cds_codes _) (by
      rw [cds_length]; unfold lets; rw [List.length_map, cx.h.cols_length hv0])]
    exact map_decodeBase_cds (cx.lets_base hv0)
  · rw [List.map_map, List.map_map]
    apply List.map_congr_left
    intro n hn
    exact cx.nF_last (hv n hn)

/-- **the sequence of a path of nodes of the other strand** -/
theorem bv_rev (cx : Ctx W k F B C a names) (starts ends : List Nat) (n0 : Nd) (rest : List Nd)
    (hv0 : n0.valid k F.length B (shf k F B)) (hv : ∀ n ∈ rest, n.valid k F.length B (shf k F B)) :
    (buildVariant W (k - 1) starts ends (nR k F B n0) ((n0 :: rest).map (nR k F B))).1 =
      rcSeq (lets F (n0.cols k B)) ++ rest.map (fun n => compl (getF F ((n.cols k B).headD 0))) := by
  obtain ⟨_, _, hkW⟩ := validK_bounds cx.hk cx.hw
  have hk5 := cx.h.k5
  rw [List.map_cons, buildVariant_seq W (k - 1) starts ends _ _ (cx.nR_lt hv0) (by omega)]
  unfold cseq
  rw [List.map_append]
  congr 1
  · show (digs (k - 1) (packL (rcCodes (cds (lets F (n0.cols k B)))))).map decodeBase = _
    rw [LORL.digs_packL (k - 1) _ (rcCodes_codes (cds_codes _)) (by
      rw [rcCodes_length, cds_length]; unfold lets; rw [List.length_map, cx.h.cols_length hv0]),
      ← cds_rcSeq (cx.lets_base hv0)]
    exact map_decodeBase_cds (cx.lets_base hv0).rcSeq
  · rw [List.map_map, List.map_map]
    apply List.map_congr_left
    intro n hn
    exact cx.nR_last (hv n hn)

end Ctx

end SkaModel.LOE
