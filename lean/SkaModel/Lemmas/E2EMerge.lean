/-
Helper lemmas for the end-to-end theorems (`Props/EndToEnd.lean`), part 3:
the per-sample dictionaries `ska build` hands to `build_and_merge`, and the
table of the joint dictionary.
-/
import SkaModel.Props.C11
import SkaModel.Lemmas.E2ETable

namespace SkaModel.E2E

open SkaModel SkaModel.Spec SkaModel.Props.C16

/-! ### the per-sample dictionaries -/

/-- `sds` are the built samples: sample `i` has column index `i`, the `i`-th name, and the
dictionary `buildDict` returns for the `i`-th record list -/
structure BuiltFrom (W k : Nat) (rc : Bool) (names : List String)
    (samples : List (List (Array UInt8))) (sds : List SampleDict) : Prop where
  lenS : sds.length = samples.length
  lenN : names.length = samples.length
  entry : ∀ i, i < samples.length → ∃ d, buildDict W k rc (samples.getD i []) = .dict d ∧
    sds[i]? = some { k := k, rc := rc, idx := i, name := names.getD i "", kmers := d }

/-- the dictionary of one sample ([] when `buildDict` does not return one) -/
def dictOf (W k : Nat) (rc : Bool) (recs : List (Array UInt8)) : List (Nat × UInt8) :=
  match buildDict W k rc recs with
  | .dict d => d
  | _ => []

/-- the list of built samples as a function of the inputs -/
def builtSamples (W k : Nat) (rc : Bool) (names : List String)
    (samples : List (List (Array UInt8))) : List SampleDict :=
  (names.zip samples).zipIdx.map (fun p =>
    { k := k, rc := rc, idx := p.2, name := p.1.1, kmers := dictOf W k rc p.1.2 })

theorem builtSamples_builtFrom (W k : Nat) (rc : Bool) (hk : ValidK k) (hw : WidthOk W k)
    (names : List String) (samples : List (List (Array UInt8)))
    (hlen : names.length = samples.length)
    (hne : ∀ recs ∈ samples, observations k rc recs ≠ []) :
    BuiltFrom W k rc names samples (builtSamples W k rc names samples) where
  lenS := by simp [builtSamples, hlen]
  lenN := hlen
  entry := by
    intro i hi
    have hin : i < names.length := by omega
    have hmem : samples.getD i [] ∈ samples := by
      rw [List.getD_eq_getElem?_getD, List.getElem?_eq_getElem hi]
      exact List.getElem_mem hi
    have hb := buildDict_ok W k rc hk hw _ (hne _ hmem)
    refine ⟨_, hb, ?_⟩
    unfold builtSamples
    rw [List.getElem?_map, List.getElem?_zipIdx, List.getElem?_zip_eq_some (z := (names[i], samples[i])) |>.2
      ⟨List.getElem?_eq_getElem hin, List.getElem?_eq_getElem hi⟩]
    simp only [Option.map_some, Nat.zero_add]
    have e1 : names.getD i "" = names[i] := by
      rw [List.getD_eq_getElem?_getD, List.getElem?_eq_getElem hin]; rfl
    have e2 : samples.getD i [] = samples[i] := by
      rw [List.getD_eq_getElem?_getD, List.getElem?_eq_getElem hi]; rfl
    rw [e1]
    have e3 : dictOf W k rc samples[i] = specDict k rc (samples.getD i []) := by
      unfold dictOf
      rw [← e2, hb]
    rw [e3]

theorem letter_ne_zero_fin : ∀ m : Fin 16, m.val ≠ 0 → letterOfMask m.val ≠ 0 := by decide

/-- the entries of a built dictionary are letters, never the zero byte -/
theorem dict_noZero (W k : Nat) (rc : Bool) (hk : ValidK k) (hw : WidthOk W k)
    (recs : List (Array UInt8)) (d : List (Nat × UInt8)) (hb : buildDict W k rc recs = .dict d) :
    ∀ kb ∈ d, kb.2 ≠ 0 := by
  obtain ⟨hnd, _, hl⟩ := buildDict_lookup W k rc hk hw recs d hb
  rintro ⟨key, b⟩ hm
  have := (Assoc.mem_iff_lookup d hnd key b).1 hm
  rw [hl key] at this
  unfold dictLookup at this
  by_cases h0 : maskFor k rc recs key = 0
  · rw [if_pos h0] at this; cases this
  · rw [if_neg h0] at this
    cases this
    exact letter_ne_zero_fin ⟨_, maskFor_lt k rc recs key⟩ h0

namespace BuiltFrom

variable {W k : Nat} {rc : Bool} {names : List String} {samples : List (List (Array UInt8))}
  {sds : List SampleDict}

theorem get (h : BuiltFrom W k rc names samples sds) (i : Nat) (hi : i < sds.length) :
    buildDict W k rc (samples.getD i []) = .dict sds[i].kmers ∧ sds[i].k = k ∧ sds[i].rc = rc ∧
      sds[i].idx = i ∧ sds[i].name = names.getD i "" := by
  obtain ⟨d, hb, he⟩ := h.entry i (h.lenS ▸ hi)
  rw [List.getElem?_eq_getElem hi] at he
  have he' := Option.some.inj he
  rw [he']
  exact ⟨hb, rfl, rfl, rfl, rfl⟩

theorem sliceWF (h : BuiltFrom W k rc names samples sds) (hk : ValidK k) (hw : WidthOk W k) :
    Props.C11.SliceWF k rc sds.length 0 sds where
  idx := by
    intro j hj
    rw [(h.get j hj).2.2.2.1, Nat.zero_add]
  bound := by omega
  hk := by
    intro s hs
    obtain ⟨j, hj, rfl⟩ := List.getElem_of_mem hs
    exact (h.get j hj).2.1
  hrc := by
    intro s hs
    obtain ⟨j, hj, rfl⟩ := List.getElem_of_mem hs
    exact (h.get j hj).2.2.1
  keysNodup := by
    intro s hs
    obtain ⟨j, hj, rfl⟩ := List.getElem_of_mem hs
    exact (buildDict_lookup W k rc hk hw _ _ (h.get j hj).1).1
  noZero := by
    intro s hs
    obtain ⟨j, hj, rfl⟩ := List.getElem_of_mem hs
    exact dict_noZero W k rc hk hw _ _ (h.get j hj).1

theorem allNonempty (h : BuiltFrom W k rc names samples sds) (hk : ValidK k) (hw : WidthOk W k) :
    Props.C11.AllNonempty sds := by
  intro s hs
  obtain ⟨j, hj, rfl⟩ := List.getElem_of_mem hs
  exact (buildDict_lookup W k rc hk hw _ _ (h.get j hj).1).2.1

theorem names_eq (h : BuiltFrom W k rc names samples sds) : sds.map (·.name) = names := by
  apply List.ext_getElem
  · rw [List.length_map, h.lenS, h.lenN]
  · intro i h1 h2
    rw [List.length_map] at h1
    rw [List.getElem_map, (h.get i h1).2.2.2.2, List.getD_eq_getElem?_getD,
      List.getElem?_eq_getElem h2]
    rfl

theorem lookup (h : BuiltFrom W k rc names samples sds) (hk : ValidK k) (hw : WidthOk W k)
    (i : Nat) (hi : i < sds.length) (key : Nat) :
    Assoc.lookup sds[i].kmers key = dictLookup k rc (samples.getD i []) key :=
  (buildDict_lookup W k rc hk hw _ _ (h.get i hi).1).2.2 key

theorem mem_keys (h : BuiltFrom W k rc names samples sds) (hk : ValidK k) (hw : WidthOk W k)
    (key : Nat) :
    (∃ s ∈ sds, key ∈ Assoc.keys s.kmers) ↔ key ∈ allKeys k rc samples := by
  rw [mem_allKeys]
  constructor
  · rintro ⟨s, hs, hm⟩
    obtain ⟨j, hj, rfl⟩ := List.getElem_of_mem hs
    have hj' : j < samples.length := h.lenS ▸ hj
    refine ⟨samples.getD j [], ?_, ?_⟩
    · rw [List.getD_eq_getElem?_getD, List.getElem?_eq_getElem hj']
      exact List.getElem_mem hj'
    · intro h0
      have hl := h.lookup hk hw j hj key
      unfold dictLookup at hl
      rw [if_pos h0, Assoc.lookup_eq_none_iff] at hl
      exact hl hm
  · rintro ⟨recs, hr, h0⟩
    obtain ⟨j, hj, rfl⟩ := List.getElem_of_mem hr
    have hj' : j < sds.length := h.lenS ▸ hj
    refine ⟨sds[j], List.getElem_mem hj', ?_⟩
    have hl := h.lookup hk hw j hj' key
    have e : samples.getD j [] = samples[j] := by
      rw [List.getD_eq_getElem?_getD, List.getElem?_eq_getElem hj]; rfl
    unfold dictLookup at hl
    rw [e, if_neg h0] at hl
    exact Assoc.mem_keys_of_lookup hl

end BuiltFrom

/-! ### the table of the joint dictionary -/

/-- a dictionary over `samples.length` slots whose cell `(key, i)` is sample `i`'s letter for
`key` (0 when absent) and whose keys are the keys of some sample denotes the joint-build table -/
theorem ofDict_rows_perm (W : Nat) (md : MDict) (k : Nat) (rc : Bool) (names : List String)
    (samples : List (List (Array UInt8)))
    (hwf : Props.C11.MWF samples.length md)
    (hcell : ∀ i, i < samples.length → ∀ key,
      Props.C11.cell md key i = (dictLookup k rc (samples.getD i []) key).getD 0)
    (hkeys : ∀ key, key ∈ Assoc.keys md.kmers ↔ key ∈ allKeys k rc samples) :
    (Arr.ofDict W md).abs.rows.Perm (specTable k rc names samples).rows := by
  rw [Props.C11.abs_ofDict_rows, specTable_rows]
  have h1 : md.kmers.map (fun kv => (kv.1, kv.2.map (fun b => max b GAP)))
      = (Assoc.keys md.kmers).map (fun key => (key, cellRow k rc samples key)) := by
    unfold Assoc.keys
    rw [List.map_map]
    apply List.map_congr_left
    intro kv hkv
    show (kv.1, _) = (kv.1, _)
    congr 1
    apply List.ext_getElem
    · rw [List.length_map, hwf.rowLen kv hkv, cellRow_length]
    · intro i h1 h2
      have hi : i < samples.length := by rw [cellRow_length] at h2; exact h2
      have hi' : i < kv.2.length := by rw [hwf.rowLen kv hkv]; exact hi
      have hl : Assoc.lookup md.kmers kv.1 = some kv.2 := Assoc.lookup_of_mem_nodup hwf.nodup hkv
      have hc := hcell i hi kv.1
      rw [Props.C11.cell_of_lookup_some hl, List.getD_eq_getElem?_getD,
        List.getElem?_eq_getElem hi'] at hc
      have hc' : kv.2[i] = (dictLookup k rc (samples.getD i []) kv.1).getD 0 := hc
      rw [List.getElem_map, hc', max_dictLookup]
      have hg := cellRow_getD k rc samples kv.1 i
      rw [List.getD_eq_getElem?_getD, List.getElem?_eq_getElem h2] at hg
      exact hg.symm
  rw [h1]
  exact perm_map_of_nodup_mem _ _ hwf.nodup (allKeys_nodup k rc samples) hkeys (fun _ _ => rfl)

end SkaModel.E2E
