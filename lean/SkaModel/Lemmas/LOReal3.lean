/-
`ska lo`: the caller does not panic on the groups of a table's graph
(item 4 of `SkaModel/Props/C17Real.lean`): every k-mer of every reported sequence is coloured, the
variants of an SNP group have equal length and share their first and last (k-1)-mer, so that the
retained positions leave room for both k-mers; `processIndels`, `groupSnps` and `analyse` return
`some`.
-/
import SkaModel.Lemmas.LOReal1
import SkaModel.Lemmas.LOReal2
import SkaModel.Props.C17Paths
import SkaModel.Lemmas.LOCalls

namespace SkaModel.LORL

open SkaModel SkaModel.Skalo SkaModel.Spec SkaModel.Props.C16 SkaModel.Props.C17G SkaModel.LOG

/-! ### monadic folds that cannot fail -/

theorem foldlM_some {α β : Type} (f : β → α → Option β) (l : List α)
    (h : ∀ a ∈ l, ∀ b, ∃ b', f b a = some b') : ∀ b, ∃ b', l.foldlM f b = some b' := by
  induction l with
  | nil => intro b; exact ⟨b, rfl⟩
  | cons a l ih =>
    intro b
    obtain ⟨b1, hb1⟩ := h a (List.mem_cons_self ..) b
    obtain ⟨b2, hb2⟩ := ih (fun a' ha' => h a' (List.mem_cons_of_mem _ ha')) b1
    exact ⟨b2, by simp [List.foldlM_cons, hb1, hb2]⟩

theorem mapM_some {α β : Type} (f : α → Option β) (l : List α)
    (h : ∀ a ∈ l, ∃ b, f a = some b) : ∃ bs, l.mapM f = some bs := by
  induction l with
  | nil => exact ⟨[], rfl⟩
  | cons a l ih =>
    obtain ⟨b, hb⟩ := h a (List.mem_cons_self ..)
    obtain ⟨bs, hbs⟩ := ih (fun a' ha' => h a' (List.mem_cons_of_mem _ ha'))
    exact ⟨b :: bs, by simp [List.mapM_cons, hb, hbs]⟩

theorem bind_some {σ τ : Type} (x : Option σ) (k : σ → Option τ) (hx : ∃ s, x = some s)
    (hk : ∀ s, ∃ t, k s = some t) : ∃ t, x.bind k = some t := by
  obtain ⟨s, rfl⟩ := hx
  exact hk s

/-! ### `groupSnps` succeeds when the positions leave room and the k-mers are coloured -/

theorem getRange_some (s : List UInt8) (a b : Nat) (h1 : a ≤ b) (h2 : b ≤ s.length) :
    getRange s a b = some ((s.drop a).take (b - a)) := by
  unfold getRange
  simp [h1, h2]

theorem inner_some (W kGraph : Nat) (col : Colours) (done : List Nat) (pos : Nat) (v : Variant)
    (st : List UInt8 × List Nat × Bool) (hk : kGraph ≤ pos) (hlen : pos + kGraph + 1 ≤ v.1.length)
    (hcol : ∃ S, Assoc.lookup col (encodeKmer W ((v.1.drop (pos - kGraph)).take (kGraph + 1))) = some S) :
    ∃ st', inner W kGraph col done pos st v = some st' := by
  obtain ⟨S, hS⟩ := hcol
  unfold inner
  rw [getRange_some v.1 (pos - kGraph) (pos + 1) (by omega) (by omega),
    getRange_some v.1 pos (pos + kGraph + 1) (by omega) hlen]
  have e : pos + 1 - (pos - kGraph) = kGraph + 1 := by omega
  rw [e]
  simp only [Option.bind_eq_bind, Option.bind_some]
  split
  · rw [hS]
    exact ⟨_, rfl⟩
  · exact ⟨_, rfl⟩

/-- the hypothesis under which `groupSnps` cannot panic -/
def Roomy (W kGraph : Nat) (col : Colours) (vs : List Variant) : Prop :=
  ∀ pos ∈ getPotentialSnp vs, kGraph ≤ pos ∧ ∀ v ∈ vs, pos + kGraph + 1 ≤ v.1.length ∧
    ∃ S, Assoc.lookup col (encodeKmer W ((v.1.drop (pos - kGraph)).take (kGraph + 1))) = some S

theorem groupSnps_some (W kGraph n mNum mDen : Nat) (col : Colours) (done : List Nat) (vs : List Variant)
    (h : Roomy W kGraph col vs) : ∃ r, groupSnps W kGraph n mNum mDen col done vs = some r := by
  unfold groupSnps
  simp only []
  apply foldlM_some
  intro pos hpos acc
  obtain ⟨hk, hv⟩ := h pos hpos
  rw [if_neg (by omega)]
  simp only [Option.bind_eq_bind]
  refine bind_some _ _ ?_ ?_
  · exact foldlM_some (inner W kGraph col done pos) vs
      (fun v hv' st => inner_some W kGraph col done pos v st hk (hv v hv').1 (hv v hv').2) _
  · rintro ⟨c, t, b⟩
    simp only []
    split
    · split <;> exact ⟨_, rfl⟩
    · exact ⟨_, rfl⟩

/-! ### the variants of an SNP group have equal length (any graph) -/

theorem decodeLoop_length : ∀ (n x : Nat) (acc : List UInt8), (decodeLoop n x acc).length = n + acc.length
  | 0, _, _ => by simp [decodeLoop]
  | n + 1, x, acc => by
    rw [decodeLoop, decodeLoop_length n]
    simp; omega

theorem buildVariant_length (W kGraph : Nat) (starts ends : List Nat) (kmer : Nat) (path : List Nat) :
    (buildVariant W kGraph starts ends kmer path).1.length = kGraph + (path.length - 1) := by
  unfold buildVariant skaloDecode
  simp [decodeLoop_length]

theorem buildVariant_take (W kGraph : Nat) (starts ends : List Nat) (kmer : Nat) (path : List Nat) :
    (buildVariant W kGraph starts ends kmer path).1.take kGraph = skaloDecode W kmer kGraph := by
  unfold buildVariant
  simp only []
  rw [List.take_left']
  unfold skaloDecode
  simp [decodeLoop_length]

/-- the groups of one entry node: two variants, or variants of paths of one length -/
theorem groupsFrom_lengths {W kGraph : Nat} {g' : Graph} {comp : List (Nat × List Nat)}
    {starts ends : List Nat} {maxDepth kmer : Nat} {grp : (Nat × Nat) × List Variant}
    (h : grp ∈ groupsFrom W kGraph g' comp starts ends maxDepth kmer) :
    grp.2.length = 2 ∨ ∃ m, ∀ var ∈ grp.2, var.1.length = m := by
  unfold groupsFrom at h
  simp only at h
  split at h
  · revert grp
    refine foldl_invariant
      (fun (acc : List ((Nat × Nat) × List Variant)) => ∀ {grp}, grp ∈ acc →
        grp.2.length = 2 ∨ ∃ m, ∀ var ∈ grp.2, var.1.length = m)
      _ _ ?_ [] (by simp)
    intro acc ep _ hacc grp hgrp
    split at hgrp
    · rcases List.mem_append.1 hgrp with h | h
      · exact hacc h
      · simp only [List.mem_singleton] at h
        rw [h]
        by_cases h2 : (ep.2.length == 2) = true
        · left
          simp only [h2, if_true, List.length_map]
          exact eq_of_beq h2
        · right
          refine ⟨kGraph + (mostCommonLength ep.2 - 1), ?_⟩
          intro var hvar
          simp only [h2, Bool.false_eq_true, if_false, List.mem_map, List.mem_filter] at hvar
          obtain ⟨p, ⟨_, hp⟩, rfl⟩ := hvar
          rw [buildVariant_length, eq_of_beq hp]
    · exact hacc hgrp
  · simp at h

theorem mem_snpGroups {W kGraph : Nat} {g : Graph} {starts ends : List Nat} {maxDepth : Nat}
    {kv : (Nat × Nat) × List Variant}
    (h : kv ∈ (buildVariantGroups W kGraph g starts ends maxDepth).snpGroups) :
    LOP.clsSnp kv.2 = true ∧ ∃ kmer ∈ starts, kv ∈ groupsFrom W kGraph (compactGraph g starts ends).1
      (compactGraph g starts ends).2 starts ends maxDepth kmer := by
  rw [LOP.buildVariantGroups_eq] at h
  obtain ⟨hm, hc⟩ := List.mem_filter.mp h
  unfold LOP.builtGroups at hm
  exact ⟨hc, List.mem_flatMap.mp hm⟩

/-- **the variants of an SNP group have equal length** -/
theorem snp_equal_length (W kGraph : Nat) (g : Graph) (starts ends : List Nat) (maxDepth : Nat)
    (kv : (Nat × Nat) × List Variant)
    (h : kv ∈ (buildVariantGroups W kGraph g starts ends maxDepth).snpGroups) :
    ∀ v ∈ kv.2, ∀ v' ∈ kv.2, v.1.length = v'.1.length := by
  obtain ⟨hc, kmer, _, hm⟩ := mem_snpGroups h
  rcases groupsFrom_lengths hm with h2 | ⟨m, hm⟩
  · unfold LOP.clsSnp at hc
    match hvs : kv.2, h2 with
    | [v0, v1], _ =>
      rw [hvs] at hc
      simp at hc
      intro v hv v' hv'
      simp only [List.mem_cons, List.not_mem_nil, or_false] at hv hv'
      rcases hv with rfl | rfl <;> rcases hv' with rfl | rfl <;> simp [hc]
  · intro v hv v' hv'
    rw [hm v hv, hm v' hv']

/-! ### the variants of a table's graph -/

theorem encode_inj (W : Nat) (c1 c2 : List Nat) (h1 : Codes c1) (h2 : Codes c2) (hl : c1.length = c2.length)
    (hW : 2 * c1.length ≤ W) (h : encodeKmer W (c1.map decodeBase) = encodeKmer W (c2.map decodeBase)) :
    c1 = c2 := by
  rw [T16_encode W _ (by rw [List.length_map]; exact hW),
    T16_encode W _ (by rw [List.length_map, ← hl]; exact hW),
    map_code_decodeBase c1 h1, map_code_decodeBase c2 h2] at h
  exact packL_inj h1 h2 hl h

/-- what is known of a variant of a group of the table pipeline -/
structure VarSpec (W kGraph : Nat) (g : Graph) (key : Nat × Nat) (var : Variant) : Prop where
  ex : ∃ (path cs : List Nat), Codes cs ∧ var.1 = cs.map decodeBase ∧
    Walk g path ∧ path.head? = some key.1 ∧ path.getLast? = some key.2 ∧ 3 ≤ path.length ∧
    var.1.length = path.length + kGraph - 1 ∧
    var.1.take kGraph = skaloDecode W key.1 kGraph ∧
    ∀ (i x : Nat), path[i]? = some x → encodeKmer W ((var.1.drop i).take kGraph) = x

theorem var_spec (W : Nat) (a : Arr) (hk : ValidK a.k) (hw : WidthOk W a.k)
    (hkeys : ∀ key ∈ a.kmers, key < 4 ^ (a.k - 1)) (starts ends : List Nat) (maxDepth : Nat)
    (grp : (Nat × Nat) × List Variant)
    (hgrp : grp ∈ (buildVariantGroups W (a.k - 1) (buildGraph W a).1 starts ends maxDepth).snpGroups ++
        (buildVariantGroups W (a.k - 1) (buildGraph W a).1 starts ends maxDepth).indelGroups)
    (var : Variant) (hvar : var ∈ grp.2) : VarSpec W (a.k - 1) (buildGraph W a).1 grp.1 var := by
  have hb := validK_bounds hk hw
  have hg := buildGraph_overlap W a hk hw hkeys
  obtain ⟨_, _, h⟩ := T17_paths_real W (a.k - 1) (buildGraph W a).1 starts ends maxDepth grp hgrp
  obtain ⟨path, rfl, hwalk, hhead, hlast, hlen⟩ := h var hvar
  have hch : ChainR (Edge (buildGraph W a).1) path := (walk_eq_chainR _ path).1 hwalk
  have hlt : ∀ n ∈ path, n < 4 ^ (a.k - 1) := by
    intro n hn
    obtain ⟨m, hm | hm⟩ := chainR_incident path hch (by omega) n hn
    · exact (hg n m hm).1
    · exact (hg m n hm).2.1
  have hov : ∀ (i x y : Nat), path[i]? = some x → path[i + 1]? = some y → Overlap (a.k - 1) x y :=
    fun i x y hx hy => (hg x y (chainR_getElem? path i x y hch hx hy)).2.2
  obtain ⟨h1, h2⟩ := buildVariant_spells W (a.k - 1) starts ends grp.1.1 path (by omega) hhead hlt hov
  cases path with
  | nil => simp at hhead
  | cons a0 rest =>
    simp at hhead
    subst hhead
    refine ⟨grp.1.1 :: rest, cseq (a.k - 1) grp.1.1 rest, cseq_codes _ _ _, ?_, hwalk, rfl, hlast, hlen, h1,
      buildVariant_take _ _ _ _ _ _, h2⟩
    exact buildVariant_seq W (a.k - 1) starts ends grp.1.1 rest (hlt grp.1.1 (List.mem_cons_self ..)) (by omega)

/-- **every k-mer of every reported sequence is coloured** -/
theorem var_windows_coloured (W : Nat) (a : Arr) (hk : ValidK a.k) (hw : WidthOk W a.k)
    (hkeys : ∀ key ∈ a.kmers, key < 4 ^ (a.k - 1)) (key : Nat × Nat) (var : Variant)
    (hs : VarSpec W (a.k - 1) (buildGraph W a).1 key var) (i : Nat) (hi : i + a.k ≤ var.1.length) :
    ∃ S, Assoc.lookup (buildGraph W a).2 (encodeKmer W ((var.1.drop i).take (a.k - 1 + 1))) = some S ∧
      S ≠ [] := by
  obtain ⟨hh2, hkh, hkW⟩ := validK_bounds hk hw
  obtain ⟨path, cs, _, _, hwalk, _, _, _, hlen, _, hwin⟩ := hs.ex
  have hi1 : i + 1 < path.length := by omega
  have hx : path[i]? = some path[i] := List.getElem?_eq_getElem (by omega)
  have hy : path[i + 1]? = some path[i + 1] := List.getElem?_eq_getElem hi1
  have hch : ChainR (Edge (buildGraph W a).1) path := (walk_eq_chainR _ path).1 hwalk
  have hedge := chainR_getElem? path i _ _ hch hx hy
  rw [window_combine W (a.k - 1) (by omega) (by omega) var.1 i path[i] path[i + 1] (by omega)
    (hwin i _ hx) (hwin (i + 1) _ hy)]
  exact edge_coloured W a hk hw hkeys _ _ hedge

/-- two variants of one group with equal length share the first and the last (k-1)-mer -/
theorem var_shared (W kGraph : Nat) (hW : 2 * kGraph ≤ W) (g : Graph) (key : Nat × Nat) (v v' : Variant)
    (hv : VarSpec W kGraph g key v) (hv' : VarSpec W kGraph g key v') (hl : v.1.length = v'.1.length) :
    v.1.take kGraph = v'.1.take kGraph ∧
    v.1.drop (v.1.length - kGraph) = v'.1.drop (v.1.length - kGraph) := by
  obtain ⟨path, cs, hcs, hseq, _, _, hlast, hlen3, hlen, htake, hwin⟩ := hv.ex
  obtain ⟨path', cs', hcs', hseq', _, _, hlast', hlen3', hlen', htake', hwin'⟩ := hv'.ex
  refine ⟨by rw [htake, htake'], ?_⟩
  have hpl : path.length = path'.length := by omega
  have hL : v.1.length - kGraph = path.length - 1 := by omega
  have hx : path[path.length - 1]? = some key.2 := by
    rw [List.getLast?_eq_getElem?] at hlast; exact hlast
  have hx' : path'[path.length - 1]? = some key.2 := by
    rw [List.getLast?_eq_getElem?, ← hpl] at hlast'; exact hlast'
  have e1 := hwin _ _ hx
  have e2 := hwin' _ _ hx'
  rw [hL]
  have t1 : (v.1.drop (path.length - 1)).take kGraph = v.1.drop (path.length - 1) :=
    List.take_of_length_le (by rw [List.length_drop]; omega)
  have t2 : (v'.1.drop (path.length - 1)).take kGraph = v'.1.drop (path.length - 1) :=
    List.take_of_length_le (by rw [List.length_drop]; omega)
  rw [t1] at e1
  rw [t2] at e2
  rw [hseq, ← List.map_drop] at e1
  rw [hseq', ← List.map_drop] at e2
  rw [hseq, hseq', ← List.map_drop, ← List.map_drop]
  have hcl : cs.length = cs'.length := by
    have := congrArg List.length hseq
    have := congrArg List.length hseq'
    simp only [List.length_map] at *
    omega
  have hcl2 : cs.length = path.length + kGraph - 1 := by
    have := congrArg List.length hseq
    simp only [List.length_map] at this
    omega
  rw [encode_inj W _ _ (hcs.drop _) (hcs'.drop _) (by rw [List.length_drop, List.length_drop, hcl])
    (by rw [List.length_drop]; omega) (e1.trans e2.symm)]

/-- **the retained positions of an SNP group leave room for both k-mers** -/
theorem roomy_of_shared (W kGraph : Nat) (col : Colours) (vs : List Variant)
    (hlen : ∀ v ∈ vs, ∀ v' ∈ vs, v.1.length = v'.1.length)
    (hsh : ∀ v ∈ vs, ∀ v' ∈ vs, v.1.take kGraph = v'.1.take kGraph ∧
      v.1.drop (v.1.length - kGraph) = v'.1.drop (v.1.length - kGraph))
    (hcol : ∀ v ∈ vs, ∀ i, i + (kGraph + 1) ≤ v.1.length →
      ∃ S, Assoc.lookup col (encodeKmer W ((v.1.drop i).take (kGraph + 1))) = some S) :
    Roomy W kGraph col vs := by
  intro pos hpos
  obtain ⟨_, x, y, hxy, _, _, ⟨v, hv, hvx⟩, ⟨v', hv', hvy⟩⟩ := (LO.mem_getPotentialSnp vs pos).mp hpos
  obtain ⟨hpre, hsuf⟩ := hsh v hv v' hv'
  have hposL : pos < v.1.length := (List.getElem?_eq_some_iff.mp hvx).1
  generalize hL : v.1.length = L at hposL hsuf
  have h1 : kGraph ≤ pos := by
    apply Nat.le_of_not_lt
    intro hlt
    have e1 : (v.1.take kGraph)[pos]? = v.1[pos]? := List.getElem?_take_of_lt hlt
    have e2 : (v'.1.take kGraph)[pos]? = v'.1[pos]? := List.getElem?_take_of_lt hlt
    rw [hpre, e2, hvy, hvx] at e1
    exact hxy (Option.some.inj e1).symm
  have h2 : pos + kGraph + 1 ≤ L := by
    apply Nat.le_of_not_lt
    intro hlt
    have e1 : (v.1.drop (L - kGraph))[pos - (L - kGraph)]? = v.1[pos]? := by
      rw [List.getElem?_drop]; congr 1; omega
    have e2 : (v'.1.drop (L - kGraph))[pos - (L - kGraph)]? = v'.1[pos]? := by
      rw [List.getElem?_drop]; congr 1; omega
    rw [hsuf, e2, hvy, hvx] at e1
    exact hxy (Option.some.inj e1).symm
  refine ⟨h1, ?_⟩
  intro u hu
  have huL : u.1.length = L := by rw [hlen u hu v hv, hL]
  exact ⟨by rw [huL]; exact h2, hcol u hu (pos - kGraph) (by rw [huL]; omega)⟩

end SkaModel.LORL
