/-
C17 completeness — the compacted graph along one strand: from the arm of a site to its exit node, on to
the entry node of the next site (or to the end of the strand).
-/
import SkaModel.Lemmas.LOCStrandC

namespace SkaModel.LOC

open SkaModel SkaModel.Spec SkaModel.Props.C16 SkaModel.Skalo SkaModel.Props.C17G SkaModel.LOG

/-- `q` is the next site after `p` -/
def IsNext (PT : List Nat) (p q : Nat) : Prop := q ∈ PT ∧ p < q ∧ ∀ r ∈ PT, ¬ (p < r ∧ r < q)

/-- `p` is the last site -/
def IsLast (PT : List Nat) (p : Nat) : Prop := ∀ r ∈ PT, r ≤ p

theorem next_or_last {PT : List Nat} (hs : PT.Pairwise (· < ·)) {p : Nat} (hp : p ∈ PT) :
    IsLast PT p ∨ ∃ q, IsNext PT p q := by
  rw [List.pairwise_iff_getElem] at hs
  obtain ⟨i, hi, rfl⟩ := List.getElem_of_mem hp
  by_cases hn : i + 1 < PT.length
  · right
    refine ⟨PT[i + 1], List.getElem_mem _, hs i (i + 1) hi hn (by omega), ?_⟩
    intro r hr
    obtain ⟨j, hj, rfl⟩ := List.getElem_of_mem hr
    rcases Nat.lt_trichotomy j i with h | h | h
    · have := hs j i hj hi h; omega
    · subst h; omega
    · by_cases h2 : j = i + 1
      · subst h2; omega
      · have := hs (i + 1) j hn hj (by omega); omega
  · left
    intro r hr
    obtain ⟨j, hj, rfl⟩ := List.getElem_of_mem hr
    rcases Nat.lt_or_ge j i with h | h
    · have := hs j i hj hi h; omega
    · have : j = i := by omega
      subst this; omega

theorem PFam.sorted {k L : Nat} {S : List (List UInt8)} {P : List Nat} (h : PFam k L S P) (hk : 1 ≤ k) :
    P.Pairwise (· < ·) :=
  h.apart.imp (fun hab => by omega)

namespace Strand

variable {k L : Nat} {g : Graph} {T T' : List (List UInt8)} {PT PT' : List Nat}

/-- the arm of a site jumps to the exit node -/
theorem cg_arm (st : Strand k L g T PT T' PT') {starts ends : List Nat}
    (ex : Ext k starts ends T PT T' PT') {t : List UInt8} (ht : t ∈ T) {p : Nat} (hp : p ∈ PT) :
    succs (compactGraph g starts ends).1 (fN k t (p - k + 2)) = [fN k t (p + 1)] := by
  have hk5 := st.k5
  have hpe := st.pf.ends p hp
  have hent : fN k t (p - k + 1) ∈ starts := (st.mem_starts_iff ex ht (by omega)).mpr ⟨p, hp, rfl⟩
  apply st.compact_jump ex ht (a := p - k + 2) (b := p + 1) (by omega) (by omega)
    (List.mem_append_left _ hent) ((st.mem_succs_site ht hp _).mpr ⟨t, ht, rfl⟩)
  · intro j h1 h2 q hq e
    have hqe := st.pf.ends q hq
    rcases Nat.lt_trichotomy p q with h | h | h
    · rcases st.pf.sep hp hq (by omega) with h3 | h3 <;> omega
    · omega
    · rcases st.pf.sep hp hq (by omega) with h3 | h3 <;> omega
  · intro j h1 h2 q hq e
    rcases Nat.lt_trichotomy p q with h | h | h
    · rcases st.pf.sep hp hq (by omega) with h3 | h3 <;> omega
    · omega
    · rcases st.pf.sep hp hq (by omega) with h3 | h3 <;> omega
  · exact Or.inr (Or.inl ⟨p, hp, rfl⟩)
  · omega
  · intro hq
    rcases st.pf.sep hp hq (by omega) with h3 | h3 <;> omega
  · intro q hq
    have hqe := st.pf.ends q hq
    constructor
    · intro e
      rcases Nat.lt_trichotomy p q with h | h | h
      · rcases st.pf.sep hp hq (by omega) with h3 | h3 <;> omega
      · omega
      · rcases st.pf.sep hp hq (by omega) with h3 | h3 <;> omega
    · intro e
      rcases Nat.lt_trichotomy p q with h | h | h
      · rcases st.pf.sep hp hq (by omega) with h3 | h3 <;> omega
      · omega
      · rcases st.pf.sep hp hq (by omega) with h3 | h3 <;> omega

/-- an exit node keeps its only successor -/
theorem cg_exit (st : Strand k L g T PT T' PT') {starts ends : List Nat}
    (ex : Ext k starts ends T PT T' PT') {t : List UInt8} (ht : t ∈ T) {p : Nat} (hp : p ∈ PT) :
    succs (compactGraph g starts ends).1 (fN k t (p + 1)) = [fN k t (p + 2)] := by
  have hk5 := st.k5
  have hpe := st.pf.ends p hp
  rw [st.compact_exit ex ht hp, st.succs_single ht (by omega)]
  intro hq
  rcases st.pf.sep hp hq (by omega) with h3 | h3 <;> omega

/-- after the exit node of `p`: the jump to the entry node of the next site -/
theorem cg_after_next (st : Strand k L g T PT T' PT') {starts ends : List Nat}
    (ex : Ext k starts ends T PT T' PT') {t : List UInt8} (ht : t ∈ T) {p q : Nat} (hp : p ∈ PT)
    (hn : IsNext PT p q) :
    succs (compactGraph g starts ends).1 (fN k t (p + 2)) = [fN k t (q - k + 1)] := by
  have hk5 := st.k5
  have hpe := st.pf.ends p hp
  obtain ⟨hq, hpq, hbetween⟩ := hn
  have hqe := st.pf.ends q hq
  have hsep : p + 2 * k ≤ q := by
    rcases st.pf.sep hp hq (by omega) with h3 | h3 <;> omega
  have hext : fN k t (p + 1) ∈ ends := (st.mem_ends_iff ex ht (by omega)).mpr ⟨p, hp, rfl⟩
  have hsucc : fN k t (p + 2) ∈ succs g (fN k t (p + 1)) := by
    rw [st.succs_single ht (by omega) (by
      intro hr
      rcases st.pf.sep hp hr (by omega) with h3 | h3 <;> omega)]
    exact List.mem_singleton.mpr rfl
  apply st.compact_jump ex ht (a := p + 2) (b := q - k + 1) (by omega) (by omega)
    (List.mem_append_right _ hext) hsucc
  · intro j h1 h2 r hr e
    have hre := st.pf.ends r hr
    exact hbetween r hr ⟨by omega, by omega⟩
  · intro j h1 h2 r hr e
    exact hbetween r hr ⟨by omega, by omega⟩
  · exact Or.inl ⟨q, hq, rfl⟩
  · omega
  · intro hr
    rcases st.pf.sep hp hr (by omega) with h3 | h3 <;> omega
  · intro r hr
    have hre := st.pf.ends r hr
    constructor
    · intro e
      rcases Nat.lt_trichotomy p r with h | h | h
      · rcases st.pf.sep hp hr (by omega) with h3 | h3 <;> omega
      · omega
      · rcases st.pf.sep hp hr (by omega) with h3 | h3 <;> omega
    · intro e
      rcases Nat.lt_trichotomy p r with h | h | h
      · rcases st.pf.sep hp hr (by omega) with h3 | h3 <;> omega
      · omega
      · rcases st.pf.sep hp hr (by omega) with h3 | h3 <;> omega

/-- after the exit node of the last site: the jump to the last node of the strand -/
theorem cg_after_last (st : Strand k L g T PT T' PT') {starts ends : List Nat}
    (ex : Ext k starts ends T PT T' PT') {t : List UInt8} (ht : t ∈ T) {p : Nat} (hp : p ∈ PT)
    (hl : IsLast PT p) :
    succs (compactGraph g starts ends).1 (fN k t (p + 2)) = [fN k t (L - k + 1)] := by
  have hk5 := st.k5
  have hpe := st.pf.ends p hp
  have hext : fN k t (p + 1) ∈ ends := (st.mem_ends_iff ex ht (by omega)).mpr ⟨p, hp, rfl⟩
  have hsucc : fN k t (p + 2) ∈ succs g (fN k t (p + 1)) := by
    rw [st.succs_single ht (by omega) (by
      intro hr
      rcases st.pf.sep hp hr (by omega) with h3 | h3 <;> omega)]
    exact List.mem_singleton.mpr rfl
  apply st.compact_jump ex ht (a := p + 2) (b := L - k + 1) (by omega) (by omega)
    (List.mem_append_right _ hext) hsucc
  · intro j h1 h2 r hr e
    have hre := st.pf.ends r hr
    have := hl r hr
    omega
  · intro j h1 h2 r hr e
    have := hl r hr
    omega
  · exact Or.inr (Or.inr (by omega))
  · omega
  · intro hr
    rcases st.pf.sep hp hr (by omega) with h3 | h3 <;> omega
  · intro r hr
    have hre := st.pf.ends r hr
    constructor
    · intro e
      rcases Nat.lt_trichotomy p r with h | h | h
      · rcases st.pf.sep hp hr (by omega) with h3 | h3 <;> omega
      · omega
      · rcases st.pf.sep hp hr (by omega) with h3 | h3 <;> omega
    · intro e
      rcases Nat.lt_trichotomy p r with h | h | h
      · rcases st.pf.sep hp hr (by omega) with h3 | h3 <;> omega
      · omega
      · rcases st.pf.sep hp hr (by omega) with h3 | h3 <;> omega

end Strand

end SkaModel.LOC
