/-
C17 (second sentence) — `ska lo` with a reference genome on planted families: definitions.
`loRef`: the pipeline with a reference (graph, entry/exit nodes, variant groups, caller with positioning);
the executable checker of the claim "exactly the sites, each at its true coordinate with its true column".
-/
import SkaModel.Impl.SkaloRef
import SkaModel.Lemmas.LOCFams

namespace SkaModel.LOD

open SkaModel SkaModel.Skalo SkaModel.Spec SkaModel.LOC

/-- the `ska lo -r` pipeline from the array: graph, entry/exit nodes, variant groups, caller with a
reference (`genome`: the reference as the program keeps it, see `genomeBytes`) -/
def loRef (W k n mNum mDen ik maxDepth : Nat) (a : Arr) (genome : List UInt8) :
    Option (List (Nat × List UInt8) × List IndelRec) := do
  let (g, col) := buildGraph W a
  let (st, en) ← identifyGoodKmers W (k - 1) g col
  analyseRef W (k - 1) n mNum mDen ik col (buildVariantGroups W (k - 1) g st en maxDepth) genome

/-- the true (position, column) pairs: for every site its 0-based coordinate and the base of every sample -/
def truePlaced (S : List (List UInt8)) (P : List Nat) : List (Nat × List UInt8) :=
  P.map (fun p => (p, S.map (fun s => s.getD p 0)))

/-- the same on the other strand of the reference: coordinate `L - 1 - p`, complemented column -/
def truePlacedRc (L : Nat) (S : List (List UInt8)) (P : List Nat) : List (Nat × List UInt8) :=
  P.map (fun p => (L - 1 - p, S.map (fun s => compl (s.getD p 0))))

/-- lower-case copy of a sequence -/
def lowerSeq (s : List UInt8) : List UInt8 := s.map (fun b => if 65 ≤ b && b ≤ 90 then b + 32 else b)

/-- the claim on one family: the pipeline returns exactly `truth` (up to order) and no indel record -/
def refCompleteOn (W k n mNum mDen ik maxDepth : Nat) (a : Arr) (genome : List UInt8)
    (truth : List (Nat × List UInt8)) : Bool :=
  match loRef W k n mNum mDen ik maxDepth a genome with
  | some (placed, []) => placed.isPerm truth
  | _ => false

/-- every site shows the base of the reference in some sample -/
def ancShownB (A : List UInt8) (S : List (List UInt8)) (P : List Nat) : Bool :=
  P.all (fun p => S.any (fun s => s.getD p 0 == A.getD p 0))

end SkaModel.LOD
