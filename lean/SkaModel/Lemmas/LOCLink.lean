/-
C17 completeness — the executable checker `completeOn` of Stage 0 accepts whenever the proposition
`ColsMatch` holds; arrays with the rows of the table in another order.
-/
import SkaModel.Lemmas.LOCFinal

namespace SkaModel.LOC

open SkaModel SkaModel.Spec SkaModel.Skalo

theorem compl_compl_any (b : UInt8) : compl (compl b) = b := by
  unfold compl
  by_cases h1 : b = 65
  · subst h1; decide
  · by_cases h2 : b = 84
    · subst h2; decide
    · by_cases h3 : b = 67
      · subst h3; decide
      · by_cases h4 : b = 71
        · subst h4; decide
        · simp [h1, h2, h3, h4]

theorem complCol_complCol (c : List UInt8) : complCol (complCol c) = c := by
  unfold complCol
  rw [List.map_map]
  conv => rhs; rw [← List.map_id c]
  apply List.map_congr_left
  intro b _
  exact compl_compl_any b

theorem complCol_length (c : List UInt8) : (complCol c).length = c.length := by simp [complCol]

/-- the lexicographic order is asymmetric -/
theorem bytesLt_asymm : ∀ (a b : List UInt8), bytesLt a b = true → bytesLt b a = false
  | [], [], h => by simp [bytesLt] at h
  | [], _ :: _, _ => by simp [bytesLt]
  | _ :: _, [], h => by simp [bytesLt] at h
  | x :: xs, y :: ys, h => by
    simp only [bytesLt, Bool.or_eq_true, decide_eq_true_eq, Bool.and_eq_true, beq_iff_eq] at h
    simp only [bytesLt, Bool.or_eq_false_iff, decide_eq_false_iff_not, Bool.and_eq_false_iff,
      beq_eq_false_iff_ne]
    rcases h with h | ⟨h1, h2⟩
    · exact ⟨by
        intro h'
        exact absurd (UInt8.lt_trans h h') (UInt8.lt_irrefl _), Or.inl (fun e => by
          rw [e] at h; exact UInt8.lt_irrefl _ h)⟩
    · subst h1
      exact ⟨UInt8.lt_irrefl _, Or.inr (bytesLt_asymm xs ys h2)⟩

/-- on strings of the same length the lexicographic order is total -/
theorem bytesLt_total : ∀ (a b : List UInt8), a.length = b.length → a ≠ b → bytesLt a b = true ∨ bytesLt b a = true
  | [], [], _, h => absurd rfl h
  | [], _ :: _, h, _ => by simp at h
  | _ :: _, [], h, _ => by simp at h
  | x :: xs, y :: ys, hl, hne => by
    simp only [bytesLt, Bool.or_eq_true, decide_eq_true_eq, Bool.and_eq_true, beq_iff_eq]
    by_cases hxy : x = y
    · subst hxy
      have hne' : xs ≠ ys := fun e => hne (by rw [e])
      rcases bytesLt_total xs ys (by simpa using hl) hne' with h | h
      · exact Or.inl (Or.inr ⟨rfl, h⟩)
      · exact Or.inr (Or.inr ⟨rfl, h⟩)
    · rcases UInt8.lt_or_lt_of_ne hxy with h | h
      · exact Or.inl (Or.inl h)
      · exact Or.inr (Or.inl h)

/-- a column and its complement have the same canonical form -/
theorem canonCol_complCol (c : List UInt8) : canonCol (complCol c) = canonCol c := by
  unfold canonCol bytesLe
  rw [complCol_complCol]
  by_cases he : c = complCol c
  · rw [← he]
  · rcases bytesLt_total c (complCol c) (complCol_length c).symm he with h | h
    · have h' := bytesLt_asymm _ _ h
      simp [h, h']
    · have h' := bytesLt_asymm _ _ h
      simp [h, h']

/-- the executable form of `ColsMatch` accepts -/
theorem colsMatchB_of (cols truth : List (List UInt8)) (h : ColsMatch cols truth) : colsMatchB cols truth = true := by
  obtain ⟨flips, hlen, hperm⟩ := h
  unfold colsMatchB
  rw [List.isPerm_iff]
  have hm : (List.zipWith (fun (b : Bool) t => if b then complCol t else t) flips truth).map canonCol =
      truth.map canonCol := by
    clear hperm
    induction truth generalizing flips with
    | nil => simp
    | cons t rest ih =>
      cases flips with
      | nil => simp at hlen
      | cons b fl =>
        simp only [List.zipWith_cons_cons, List.map_cons]
        rw [ih fl (by simpa using hlen)]
        congr 1
        cases b
        · rfl
        · exact canonCol_complCol t
  rw [← hm]
  exact hperm.map _

/-- the checker of Stage 0 accepts on every planted family (rows in any order) -/
theorem completeOn_of_complete (W k n mNum mDen ik maxDepth : Nat) (a : Arr) (S : List (List UInt8)) (P : List Nat)
    (h : ∃ cols, lo W k n mNum mDen ik maxDepth a = some (cols, []) ∧ ColsMatch cols (trueCols S P)) :
    completeOn W k n mNum mDen ik maxDepth a S P = true := by
  obtain ⟨cols, h1, h2⟩ := h
  unfold completeOn
  rw [h1]
  exact colsMatchB_of _ _ h2

/-! ### rows in another order -/

/-- an array built from any permutation of the rows of the table -/
theorem isArrOf_rows (W k : Nat) (names : List String) (S : List (List UInt8)) (rows' : List (Nat × List UInt8))
    (hp : rows'.Perm (tableOf k names S).rows) : IsArrOf (arrOfRows W k names rows') k names S :=
  ⟨rfl, by simp [arrOfRows], by
    have : (arrOfRows W k names rows').kmers.zip (arrOfRows W k names rows').variants = rows' := zip_fst_snd _
    rw [this]
    exact hp⟩

end SkaModel.LOC
