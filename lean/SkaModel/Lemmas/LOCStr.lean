/-
C17 completeness — letter strings, their 2-bit codes, windows and reverse complements.
-/
import SkaModel.Lemmas.LOCDefs
import SkaModel.Props.C16Bits
import SkaModel.Lemmas.PackInj

namespace SkaModel.LOC

open SkaModel SkaModel.Spec SkaModel.Props.C16

/-- the 2-bit codes of a letter string -/
def cds (s : List UInt8) : List Nat := s.map code

/-- all letters are A, C, G, T -/
def AllBase (s : List UInt8) : Prop := ∀ b ∈ s, isBase b = true

theorem isBase_cases {b : UInt8} (h : isBase b = true) : b = 65 ∨ b = 67 ∨ b = 71 ∨ b = 84 := by
  simpa [isBase, or_assoc] using h

theorem code_compl {b : UInt8} (h : isBase b = true) : code (compl b) = code b ^^^ 2 := by
  rcases isBase_cases h with rfl | rfl | rfl | rfl <;> decide

theorem isBase_compl {b : UInt8} (h : isBase b = true) : isBase (compl b) = true := by
  rcases isBase_cases h with rfl | rfl | rfl | rfl <;> decide

theorem compl_compl {b : UInt8} (h : isBase b = true) : compl (compl b) = b := by
  rcases isBase_cases h with rfl | rfl | rfl | rfl <;> decide

theorem compl_ne {b : UInt8} (h : isBase b = true) : compl b ≠ b := by
  rcases isBase_cases h with rfl | rfl | rfl | rfl <;> decide

theorem code_inj_base {b b' : UInt8} (h : isBase b = true) (h' : isBase b' = true)
    (e : code b = code b') : b = b' := by
  rcases isBase_cases h with rfl | rfl | rfl | rfl <;> rcases isBase_cases h' with rfl | rfl | rfl | rfl <;>
    first | rfl | (revert e; decide)

theorem decode_code_base {b : UInt8} (h : isBase b = true) : decodeBase (code b) = b := by
  rcases isBase_cases h with rfl | rfl | rfl | rfl <;> decide

theorem isBase_decodeBase (c : Nat) : isBase (decodeBase c) = true := by
  unfold decodeBase
  split
  · decide
  · split
    · decide
    · split <;> decide

theorem cds_length (s : List UInt8) : (cds s).length = s.length := List.length_map ..

theorem cds_codes (s : List UInt8) : Codes (cds s) := Codes.map_of _ _ code_lt

theorem cds_append (a b : List UInt8) : cds (a ++ b) = cds a ++ cds b := List.map_append

theorem AllBase.append {a b : List UInt8} (ha : AllBase a) (hb : AllBase b) : AllBase (a ++ b) := by
  intro x hx
  rcases List.mem_append.mp hx with h | h
  · exact ha x h
  · exact hb x h

theorem AllBase.take {s : List UInt8} (h : AllBase s) (n : Nat) : AllBase (s.take n) :=
  fun b hb => h b (List.mem_of_mem_take hb)

theorem AllBase.drop {s : List UInt8} (h : AllBase s) (n : Nat) : AllBase (s.drop n) :=
  fun b hb => h b (List.mem_of_mem_drop hb)

theorem AllBase.win {s : List UInt8} (h : AllBase s) (j m : Nat) : AllBase (win s j m) :=
  (h.drop j).take m

theorem AllBase.rcSeq {s : List UInt8} (h : AllBase s) : AllBase (rcSeq s) := by
  intro b hb
  unfold LOC.rcSeq at hb
  obtain ⟨x, hx, rfl⟩ := List.mem_map.mp hb
  exact isBase_compl (h x (List.mem_reverse.mp hx))

theorem cds_rcSeq {w : List UInt8} (h : AllBase w) : cds (rcSeq w) = rcCodes (cds w) := by
  unfold cds rcSeq rcCodes
  rw [List.map_map, ← List.map_reverse, List.map_map]
  apply List.map_congr_left
  intro b hb
  exact code_compl (h b (List.mem_reverse.mp hb))

theorem cds_inj {w w' : List UInt8} (h : AllBase w) (h' : AllBase w') (e : cds w = cds w') : w = w' := by
  induction w generalizing w' with
  | nil =>
    cases w' with
    | nil => rfl
    | cons _ _ => simp [cds] at e
  | cons x xs ih =>
    cases w' with
    | nil => simp [cds] at e
    | cons y ys =>
      simp only [cds, List.map_cons, List.cons.injEq] at e
      have hx : x = y := code_inj_base (h x (List.mem_cons_self ..)) (h' y (List.mem_cons_self ..)) e.1
      rw [hx, ih (fun b hb => h b (List.mem_cons_of_mem _ hb)) (fun b hb => h' b (List.mem_cons_of_mem _ hb)) e.2]

theorem rcSeq_length (w : List UInt8) : (rcSeq w).length = w.length := by
  simp [rcSeq]

theorem rcSeq_rcSeq {w : List UInt8} (h : AllBase w) : rcSeq (rcSeq w) = w := by
  apply cds_inj h.rcSeq.rcSeq h
  rw [cds_rcSeq h.rcSeq, cds_rcSeq h, rcCodes_rcCodes]

theorem rcSeq_inj {w w' : List UInt8} (h : AllBase w) (h' : AllBase w') (e : rcSeq w = rcSeq w') : w = w' := by
  rw [← rcSeq_rcSeq h, e, rcSeq_rcSeq h']

theorem rcSeq_append (a b : List UInt8) : rcSeq (a ++ b) = rcSeq b ++ rcSeq a := by
  simp [rcSeq]

/-! ### windows -/

theorem win_length {s : List UInt8} {j m : Nat} (h : j + m ≤ s.length) : (win s j m).length = m := by
  unfold win
  rw [List.length_take, List.length_drop]
  omega

theorem win_length_le (s : List UInt8) (j m : Nat) : (win s j m).length ≤ m := by
  unfold win
  rw [List.length_take]
  omega

theorem win_take (s : List UInt8) (j m n : Nat) (h : n ≤ m) : (win s j m).take n = win s j n := by
  unfold win
  rw [List.take_take, Nat.min_eq_left h]

theorem win_drop (s : List UInt8) (j m n : Nat) : (win s j m).drop n = win s (j + n) (m - n) := by
  unfold win
  rw [List.drop_take, List.drop_drop]

theorem win_win (s : List UInt8) (j m i n : Nat) (h : i + n ≤ m) : win (win s j m) i n = win s (j + i) n := by
  unfold win
  rw [List.drop_take, List.drop_drop, List.take_take, Nat.min_eq_left (by omega)]

theorem win_getElem? (s : List UInt8) (j m i : Nat) (h : i < m) : (win s j m)[i]? = s[j + i]? := by
  unfold win
  rw [List.getElem?_take_of_lt h, List.getElem?_drop]

theorem win_succ {s : List UInt8} {j m : Nat} (h : j + m < s.length) :
    win s j (m + 1) = win s j m ++ [s.getD (j + m) 0] := by
  apply List.ext_getElem?
  intro i
  by_cases hi : i < m
  · rw [win_getElem? _ _ _ _ (by omega), List.getElem?_append_left (by rw [win_length (by omega)]; exact hi),
      win_getElem? _ _ _ _ hi]
  · by_cases hi2 : i = m
    · subst hi2
      rw [win_getElem? _ _ _ _ (by omega), List.getElem?_append_right (by rw [win_length (by omega)]; omega),
        win_length (by omega), Nat.sub_self, List.getD_eq_getElem?_getD, List.getElem?_eq_getElem h]
      rfl
    · rw [List.getElem?_eq_none (by rw [win_length (by omega)]; omega),
        List.getElem?_eq_none (by rw [List.length_append, win_length (by omega)]; simp; omega)]

theorem win_cons {s : List UInt8} {j m : Nat} (h : j < s.length) :
    win s j (m + 1) = s.getD j 0 :: win s (j + 1) m := by
  unfold win
  rw [List.drop_eq_getElem_cons h, List.take_succ_cons, List.getD_eq_getElem?_getD,
    List.getElem?_eq_getElem h]
  rfl

/-- two windows are equal iff they agree letter by letter -/
theorem win_eq_iff {s t : List UInt8} {j j' m : Nat} (hs : j + m ≤ s.length) (ht : j' + m ≤ t.length) :
    win s j m = win t j' m ↔ ∀ i, i < m → s.getD (j + i) 0 = t.getD (j' + i) 0 := by
  constructor
  · intro e i hi
    have := congrArg (fun w => w[i]?) e
    simp only [win_getElem? _ _ _ _ hi] at this
    rw [List.getD_eq_getElem?_getD, List.getD_eq_getElem?_getD, this]
  · intro h
    apply List.ext_getElem?
    intro i
    by_cases hi : i < m
    · rw [win_getElem? _ _ _ _ hi, win_getElem? _ _ _ _ hi]
      have := h i hi
      rw [List.getD_eq_getElem?_getD, List.getD_eq_getElem?_getD, List.getElem?_eq_getElem (by omega),
        List.getElem?_eq_getElem (by omega)] at this
      rw [List.getElem?_eq_getElem (by omega), List.getElem?_eq_getElem (by omega)]
      simpa using this
    · rw [List.getElem?_eq_none (by rw [win_length hs]; omega),
        List.getElem?_eq_none (by rw [win_length ht]; omega)]

/-! ### packed nodes -/

/-- the packed window: `encodeKmer` of a window of at most `W/2` letters -/
theorem enc_win (W : Nat) (s : List UInt8) (j m : Nat) (hW : 2 * m ≤ W) :
    encodeKmer W (win s j m) = packL (cds (win s j m)) :=
  T16_encode W _ (by have := win_length_le s j m; omega)

theorem enc_eq (W : Nat) (w : List UInt8) (hW : 2 * w.length ≤ W) : encodeKmer W w = packL (cds w) :=
  T16_encode W w hW

/-- `encodeKmer` is injective on letter strings of the same length -/
theorem enc_inj (W : Nat) {w w' : List UInt8} (h : AllBase w) (h' : AllBase w') (hl : w.length = w'.length)
    (hW : 2 * w.length ≤ W) (e : encodeKmer W w = encodeKmer W w') : w = w' := by
  rw [enc_eq W w hW, enc_eq W w' (by omega)] at e
  exact cds_inj h h' (packL_inj (cds_codes w) (cds_codes w') (by rw [cds_length, cds_length, hl]) e)

/-- `rev_comp` of an encoded string is the encoded reverse complement -/
theorem revComp_enc (W : Nat) (hW : W = 64 ∨ W = 128) {w : List UInt8} (h : AllBase w) (n : Nat)
    (hl : w.length = n) (hn : 2 * n ≤ W) :
    revComp W (encodeKmer W w) n = encodeKmer W (rcSeq w) := by
  rw [enc_eq W w (by omega), enc_eq W (rcSeq w) (by rw [rcSeq_length]; omega), cds_rcSeq h,
    revComp_packL W hW _ (cds_codes w) n (by rw [cds_length, hl]) (by omega)]

theorem widthOk_cases {W k : Nat} (hw : WidthOk W k) : W = 64 ∨ W = 128 := by
  rcases hw with ⟨h, _⟩ | h
  · exact Or.inl h
  · exact Or.inr h

end SkaModel.LOC
