/-
Element parsers of the `.skf` CBOR layer as prefix-safe parsers: split k-mers at
both integer widths, sequences (`parseMany`, `parseArray`), row chunking, and
the UTF-8 round trip of sample names.
-/
import SkaModel.Lemmas.CborSpec

namespace SkaModel.CB

open SkaModel SkaModel.Cbor

/-! ### split k-mers at width `W` -/

/-- what `parseKmer W` makes of the encoding of `x < 2^128` -/
def kmerRes (W x : Nat) : Option Nat := if x < 2 ^ 64 ∨ W = 128 then some x else none

theorem parseHead_c2 (l : List UInt8) : parseHead (0xc2 :: l) = some (6, 2, l) := by
  rw [parseHead_cons]; rfl

theorem parseKmer_c2 (W : Nat) (l : List UInt8) : parseKmer W (0xc2 :: l) =
    if W != 128 then none else
    match parseHead l with
    | some (2, len, rest') =>
      if len > 16 || rest'.length < len then none
      else some (beNat (rest'.take len), rest'.drop len)
    | _ => none := by
  simp only [parseKmer, parseHead_c2]; rfl

theorem spec_kmer (W x : Nat) (hx : x < 2 ^ 128) : Spec (parseKmer W) (kmer x) (kmerRes W x) := by
  by_cases hs : x < 2 ^ 64
  · -- plain integer
    have hr : kmerRes W x = some x := by simp [kmerRes, hs]
    rw [hr]
    constructor
    · intro rest
      simp [parseKmer, kmer, hs, uint, parseHead_head 0 x rest (by decide) hs]
    · intro q t hq ht
      simp only [kmer, hs, if_true, uint] at hq
      simp [parseKmer, parseHead_prefix 0 x q t (by decide) hs hq ht]
  · have hlen : (minBe x).length < 2 ^ 64 := Nat.lt_of_le_of_lt (minBe_length_le x) (by decide)
    have hk : kmer x = 0xc2 :: (head 2 (minBe x).length ++ minBe x) := by simp [kmer, hs]
    rw [hk]
    by_cases hW : W = 128
    · subst hW
      have hr : kmerRes 128 x = some x := by simp [kmerRes]
      rw [hr]
      constructor
      · intro rest
        have hle := minBe_length_le x
        have h16 : ¬ (16 < (minBe x).length) := by omega
        rw [List.cons_append, parseKmer_c2, List.append_assoc,
          parseHead_head 2 (minBe x).length _ (by decide) hlen]
        simp [h16, beNat_minBe x hx]
      · intro q t hq ht
        cases q with
        | nil => rfl
        | cons c q =>
          rw [List.cons_append] at hq
          injection hq with hc hq
          subst hc
          rcases cut_cases hq ht with ⟨a, h1, h2⟩ | ⟨d, h1, h2⟩
          · rw [parseKmer_c2, parseHead_prefix 2 _ q a (by decide) hlen h1 h2]
            rfl
          · rw [h1]
            have hlt : d.length < (minBe x).length := by
              rw [← h2]
              have : 0 < t.length := List.length_pos_iff.mpr ht
              simp; omega
            rw [parseKmer_c2, parseHead_head 2 (minBe x).length _ (by decide) hlen]
            simp [hlt]
    · have hr : kmerRes W x = none := by simp [kmerRes, hs, hW]
      rw [hr]
      constructor
      · intro rest
        rw [List.cons_append, parseKmer_c2]
        simp [hW]
      · intro q t hq ht
        cases q with
        | nil => rfl
        | cons c q =>
          rw [List.cons_append] at hq
          injection hq with hc hq
          subst hc
          rw [parseKmer_c2]
          simp [hW]

/-! ### sequences -/

def allSome {α β : Type} (r : α → Option β) : List α → Option (List β)
  | [] => some []
  | x :: xs =>
    match r x with
    | none => none
    | some y =>
      match allSome r xs with
      | none => none
      | some ys => some (y :: ys)

theorem allSome_some {α β : Type} {r : α → Option β} {g : α → β} (xs : List α)
    (h : ∀ x ∈ xs, r x = some (g x)) : allSome r xs = some (xs.map g) := by
  induction xs with
  | nil => rfl
  | cons x xs ih =>
    simp [allSome, h x (List.mem_cons_self ..), ih (fun y hy => h y (List.mem_cons_of_mem _ hy))]

theorem allSome_none {α β : Type} {r : α → Option β} (xs : List α)
    (h : ∃ x ∈ xs, r x = none) : allSome r xs = none := by
  induction xs with
  | nil => simp at h
  | cons x xs ih =>
    obtain ⟨y, hy, hr⟩ := h
    rcases List.mem_cons.mp hy with rfl | hy'
    · simp [allSome, hr]
    · have := ih ⟨y, hy', hr⟩
      simp only [allSome, this]
      cases r x <;> rfl

theorem Spec.many {α β : Type} {p : Parser β} {e : α → List UInt8} {r : α → Option β} (xs : List α)
    (h : ∀ x ∈ xs, Spec p (e x) (r x)) :
    Spec (parseMany p xs.length) (xs.map e).flatten (allSome r xs) := by
  induction xs with
  | nil => exact Spec.pure (fun bs => rfl)
  | cons x xs ih =>
    have hx := h x (List.mem_cons_self ..)
    have ih' := ih (fun y hy => h y (List.mem_cons_of_mem _ hy))
    constructor
    · intro rest
      simp only [List.map_cons, List.flatten_cons, List.length_cons, parseMany, List.append_assoc,
        hx.full, allSome]
      cases hr : r x with
      | none => rfl
      | some y =>
        simp only [Option.map_some, ih'.full]
        cases allSome r xs <;> rfl
    · intro q t hq ht
      simp only [List.map_cons, List.flatten_cons] at hq
      rcases cut_cases hq ht with ⟨a, h1, h2⟩ | ⟨c, h1, h2⟩
      · simp [parseMany, hx.pre q a h1 h2]
      · subst h1
        simp only [List.length_cons, parseMany, hx.full]
        cases hr : r x with
        | none => rfl
        | some y => simp [ih'.pre c t h2 ht]

theorem Spec.array {β : Type} {p : Parser β} {n : Nat} {e : List UInt8} {r : Option (List β)}
    (hn : n < 2 ^ 64) (h : Spec (parseMany p n) e r) : Spec (parseArray p) (Cbor.head 4 n ++ e) r := by
  constructor
  · intro rest
    simp only [parseArray, List.append_assoc, parseHead_head 4 n _ (by decide) hn]
    exact h.full rest
  · intro q t hq ht
    rcases cut_cases hq ht with ⟨a, h1, h2⟩ | ⟨c, h1, h2⟩
    · simp [parseArray, parseHead_prefix 4 n q a (by decide) hn h1 h2]
    · subst h1
      simp only [parseArray, parseHead_head 4 n _ (by decide) hn]
      exact h.pre c t h2 ht

/-! ### rows -/

theorem chunkRows_flatten (rows : List (List UInt8)) (c : Nat) (h : ∀ r ∈ rows, r.length = c) :
    chunkRows rows.length c rows.flatten = rows := by
  induction rows with
  | nil => rfl
  | cons r rows ih =>
    have hr := h r (List.mem_cons_self ..)
    simp only [List.length_cons, List.flatten_cons, chunkRows]
    rw [List.take_left' hr, List.drop_left' hr, ih (fun y hy => h y (List.mem_cons_of_mem _ hy))]

theorem flatten_length_of_rows (rows : List (List UInt8)) (c : Nat) (h : ∀ r ∈ rows, r.length = c) :
    rows.flatten.length = rows.length * c := by
  induction rows with
  | nil => simp
  | cons r rows ih =>
    simp [h r (List.mem_cons_self ..), ih (fun y hy => h y (List.mem_cons_of_mem _ hy)), Nat.succ_mul, Nat.add_comm]

/-! ### sample names: `String.toUTF8` / `String.fromUTF8?` -/

theorem size_eq (b : ByteArray) : b.size = b.data.toList.length := by
  rw [Array.length_toList]; rfl

theorem toList_loop (b : ByteArray) (i : Nat) (r : List UInt8) :
    ByteArray.toList.loop b i r = r.reverse ++ b.data.toList.drop i := by
  fun_induction ByteArray.toList.loop b i r with
  | case1 i r h ih =>
    rw [ih]
    have h' : i < b.data.toList.length := by rw [← size_eq]; exact h
    have h'' : i < b.data.size := by simpa using h'
    rw [List.drop_eq_getElem_cons h']
    simp [ByteArray.get!, getElem!_pos b.data i h'']
  | case2 i r h =>
    have h' : b.data.toList.length ≤ i := by rw [← size_eq]; omega
    simp [List.drop_eq_nil_of_le h']

theorem byteArray_toList (b : ByteArray) : b.toList = b.data.toList := by
  simp [ByteArray.toList, toList_loop]

theorem fromUTF8_toUTF8 (s : String) :
    String.fromUTF8? (ByteArray.mk s.toUTF8.toList.toArray) = some s := by
  have : ByteArray.mk s.toUTF8.toList.toArray = s.toByteArray := by
    rw [byteArray_toList]; simp
  rw [this, String.fromUTF8?, dif_pos s.isValidUTF8]
  rfl

theorem toUTF8_toList_length (s : String) : s.toUTF8.toList.length = s.utf8ByteSize := by
  rw [byteArray_toList, ← size_eq]
  rfl

end SkaModel.CB
