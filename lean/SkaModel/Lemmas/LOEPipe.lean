/-
C18 completeness — the whole reference-free pipeline (entry nodes, groups, caller) on a graph of twin
bubbles: no SNP column, and one record per pair of twins — that of one of the two bubbles.
-/
import SkaModel.Lemmas.LOEFin
import SkaModel.Props.C17Pipe

namespace SkaModel.LOE

open SkaModel SkaModel.Skalo SkaModel.Props.C17G SkaModel.LOG SkaModel.LOC SkaModel.Props.C18

/-- the bubble with a given entry node -/
def bubOf (bs : List Bub) (e : Nat) : Bub := (bs.find? (fun β => β.en == e)).getD default

theorem bubOf_en {g : Graph} {bs : List Bub} (bg : BG g bs) {β : Bub} (hβ : β ∈ bs) : bubOf bs β.en = β := by
  unfold bubOf
  cases h : bs.find? (fun γ => γ.en == β.en) with
  | none =>
    rw [List.find?_eq_none] at h
    exact absurd (h β hβ) (by simp)
  | some γ =>
    have h1 := List.find?_some h
    have h2 := List.mem_of_find?_eq_some h
    simp only [beq_iff_eq] at h1
    simp only [Option.getD_some]
    exact bg.enInj γ h2 β hβ h1

theorem filterMap_id_map_some {α β : Type} (f : α → β) (l : List α) :
    (l.map (fun x => some (f x))).filterMap id = l.map f := by
  induction l with
  | nil => rfl
  | cons a l ih => simp [ih]

/-- **the pipeline on a graph of twin bubbles** -/
theorem lo_bubbles {W kG n mNum mDen : Nat} {g : Graph} {col : Colours} {bs : List Bub}
    {pairs : List (Bub × Bub)} (bg : BG g bs) (tw : Twins W kG bs pairs) (al : ArmLen kG bs) (fr : Far kG g bs)
    (hcol : ∀ β ∈ bs, ∃ s1 s2, Assoc.lookup col (combineKmers W β.en β.ha) = some s1 ∧
      Assoc.lookup col (combineKmers W β.en β.hb) = some s2 ∧ s1 ≠ s2)
    (R : Bub → IndelRec)
    (hrec : ∀ starts ends, ∀ β ∈ bs, ∀ o,
      LOP.recOf W kG n mNum mDen col (bubVs W kG starts ends β o) = some (some (R β)))
    (ik maxDepth : Nat) :
    ∃ starts ends recs flips, identifyGoodKmers W kG g col = some (starts, ends) ∧
      analyse W kG n mNum mDen ik col (buildVariantGroups W kG g starts ends maxDepth) = some ([], recs) ∧
      flips.length = pairs.length ∧
      recs.Perm ((pairs.zip flips).map (fun (pf : (Bub × Bub) × Bool) => R (if pf.2 then pf.1.2 else pf.1.1))) := by
  obtain ⟨starts, ends, hid, ex⟩ := bg.identify hcol tw.htw tw.htw'
  obtain ⟨hIG1, hIG2, hsnp⟩ := bg.groups ex al fr W maxDepth
  have hknd := (SkaModel.Props.C17P.T17_groups_keys_nodup W kG g starts ends maxDepth ex.snd).2
  generalize hIG : (buildVariantGroups W kG g starts ends maxDepth).indelGroups = IG at hIG1 hIG2 hknd
  -- the groups handed to `dereplicate`
  have hgs : ∀ x, x ∈ IG.map LOP.toGroup ↔ ∃ β ∈ bs, x = tg kG β := by
    intro x
    rw [List.mem_map]
    constructor
    · rintro ⟨kv, hkv, rfl⟩
      obtain ⟨β, hβ, o, rfl⟩ := hIG1 kv hkv
      exact ⟨β, hβ, toGroup_bubGroup W kG starts ends β o⟩
    · rintro ⟨β, hβ, rfl⟩
      obtain ⟨o, ho⟩ := hIG2 β hβ
      exact ⟨_, ho, toGroup_bubGroup W kG starts ends β o⟩
  obtain ⟨flips, hfl, hperm, hext⟩ := derep_twins tw (IG.map LOP.toGroup) hgs
  -- the records
  have hrecs : ∀ kg ∈ (dereplicate W kG (IG.map LOP.toGroup)).1.mergeSort
        (fun a b => keyLe (a.entry, a.exit) (b.entry, b.exit)),
      LOP.recOf W kG n mNum mDen col ((Assoc.lookup IG (kg.entry, kg.exit)).getD []) =
        some (some (R (bubOf bs kg.entry))) := by
    intro kg hkg
    rw [List.mem_mergeSort] at hkg
    have hin := (T18_derep W kG (IG.map LOP.toGroup)).1 kg hkg
    obtain ⟨kv, hkv, rfl⟩ := List.mem_map.mp hin
    obtain ⟨β, hβ, o, rfl⟩ := hIG1 kv hkv
    have hl : Assoc.lookup IG (β.en, β.ex) = some (bubVs W kG starts ends β o) :=
      Assoc.lookup_of_mem_nodup hknd hkv
    show LOP.recOf W kG n mNum mDen col ((Assoc.lookup IG (β.en, β.ex)).getD []) = _
    rw [hl, Option.getD_some, hrec starts ends β hβ o]
    show some (some (R β)) = some (some (R (bubOf bs β.en)))
    rw [bubOf_en bg hβ]
  have hpi : processIndels W kG n mNum mDen col IG =
      some (((dereplicate W kG (IG.map LOP.toGroup)).1.mergeSort
        (fun a b => keyLe (a.entry, a.exit) (b.entry, b.exit))).map (fun kg => R (bubOf bs kg.entry)),
        (dereplicate W kG (IG.map LOP.toGroup)).2) := by
    rw [LOP.processIndels_eq, mapM_eq_map _ (fun kg => some (R (bubOf bs kg.entry))) _ hrecs]
    simp only [Option.bind_some]
    rw [filterMap_id_map_some]
  refine ⟨starts, ends, ((dereplicate W kG (IG.map LOP.toGroup)).1.mergeSort
    (fun a b => keyLe (a.entry, a.exit) (b.entry, b.exit))).map (fun kg => R (bubOf bs kg.entry)),
    flips, hid, ?_, hfl, ?_⟩
  · apply analyse_skip W kG n mNum mDen ik col _ _ _ (by rw [hIG]; exact hpi)
    intro kv hkv
    obtain ⟨β, hβ, e⟩ := (ex.st _).mp (hsnp kv hkv)
    rw [e]
    exact hext β hβ
  · have h1 := ((List.mergeSort_perm (dereplicate W kG (IG.map LOP.toGroup)).1
      (fun a b => keyLe (a.entry, a.exit) (b.entry, b.exit))).trans hperm).map (fun kg => R (bubOf bs kg.entry))
    refine h1.trans (List.Perm.of_eq ?_)
    rw [List.map_map]
    apply List.map_congr_left
    intro pf hpf
    have hp := (List.of_mem_zip hpf).1
    show R (bubOf bs (tg kG (if pf.2 then pf.1.2 else pf.1.1)).entry) = _
    have hm : (if pf.2 then pf.1.2 else pf.1.1) ∈ bs := by
      split
      · exact tw.mem2 hp
      · exact tw.mem1 hp
    show R (bubOf bs (if pf.2 then pf.1.2 else pf.1.1).en) = _
    rw [bubOf_en bg hm]

end SkaModel.LOE
