/-
C17 completeness — the variant groups reported from the entry node of a site of a strand (`GG`): the group
runs from the site `p` to a later site `p'`; every variant spells windows of samples, all sites between
are marked, and every base a sample shows at such a site is shown by a variant.
-/
import SkaModel.Lemmas.LOCWalk

namespace SkaModel.LOC

open SkaModel SkaModel.Spec SkaModel.Props.C16 SkaModel.Skalo SkaModel.Props.C17G SkaModel.LOG

/-- what the caller needs to know of a group of variants on the strand `T`: the sequences have `len`
letters and start at coordinate `c0` -/
structure GG (k L : Nat) (T : List (List UInt8)) (PT : List Nat) (c0 len : Nat) (vs : List Variant) : Prop where
  hL : c0 + len ≤ L
  hk : 2 * k - 1 ≤ len
  hv : ∀ v ∈ vs, v.1.length = len ∧ AllBase v.1 ∧ ∀ i, i + k ≤ len → ∃ t ∈ T, win v.1 i k = win t (c0 + i) k
  room : ∀ q ∈ PT, c0 ≤ q → q < c0 + len → c0 + (k - 1) ≤ q ∧ q + k ≤ c0 + len
  mark : ∀ q ∈ PT, c0 ≤ q → q < c0 + len → ∃ v ∈ vs, q - c0 ∈ v.2
  cov : ∀ q ∈ PT, c0 ≤ q → q < c0 + len → ∀ t ∈ T, ∃ v ∈ vs, v.1.getD (q - c0) 0 = t.getD q 0

/-! ### the last site of a chain of choices -/

def lastSite : Nat → List (Nat × List UInt8) → Nat
  | p, [] => p
  | _, (q, _) :: rest => lastSite q rest

def lastSample : List UInt8 → List (Nat × List UInt8) → List UInt8
  | t, [] => t
  | _, (_, tq) :: rest => lastSample tq rest

theorem walkOf_last (k : Nat) : ∀ (ch : List (Nat × List UInt8)) (t : List UInt8) (p : Nat),
    (walkOf k t p ch).getLastD 0 = fN k (lastSample t ch) (lastSite p ch + 1)
  | [], t, p => rfl
  | (q, tq) :: rest, t, p => by
    have := walkOf_last k rest tq q
    have hne := walkOf_ne_nil k tq q rest
    simp only [walkOf, lastSite, lastSample]
    rw [← this]
    cases hw : walkOf k tq q rest with
    | nil => exact absurd hw hne
    | cons a l => simp [List.getLastD]

theorem lastSite_congr : ∀ (ch ch2 : List (Nat × List UInt8)) (p : Nat), ch.map (·.1) = ch2.map (·.1) →
    lastSite p ch = lastSite p ch2
  | [], [], _, _ => rfl
  | [], _ :: _, _, h => by simp at h
  | _ :: _, [], _, h => by simp at h
  | (q, _) :: rest, (q2, _) :: rest2, _, h => by
    simp only [List.map_cons, List.cons.injEq] at h
    simp only [lastSite]
    rw [h.1]
    exact lastSite_congr rest rest2 q2 h.2

theorem lastSite_mem {PT : List Nat} : ∀ (ch : List (Nat × List UInt8)) (p : Nat), p ∈ PT →
    SitesOK PT p (ch.map (·.1)) → lastSite p ch ∈ PT ∧ p ≤ lastSite p ch
  | [], p, hp, _ => ⟨hp, Nat.le_refl _⟩
  | (q, _) :: rest, p, _, h => by
    obtain ⟨hn, h'⟩ := h
    have := lastSite_mem rest q hn.1 h'
    have h2 : p < q := hn.2.1
    exact ⟨this.1, by simp only [lastSite]; omega⟩

theorem lastSample_mem {T : List (List UInt8)} : ∀ (ch : List (Nat × List UInt8)) (t : List UInt8), t ∈ T →
    (∀ x ∈ ch, x.2 ∈ T) → lastSample t ch ∈ T
  | [], _, ht, _ => ht
  | (q, tq) :: rest, _, _, h =>
    lastSample_mem rest tq (h (q, tq) (List.mem_cons_self ..)) (fun x hx => h x (List.mem_cons_of_mem _ hx))

/-- the sites crossed are all the sites up to the last one -/
theorem sites_between {PT : List Nat} : ∀ (ch : List (Nat × List UInt8)) (p : Nat),
    SitesOK PT p (ch.map (·.1)) → ∀ q ∈ PT, p < q → q ≤ lastSite p ch → ∃ tq, (q, tq) ∈ ch
  | [], p, _, q, _, h1, h2 => by simp only [lastSite] at h2; omega
  | (q1, t1) :: rest, p, h, q, hq, h1, h2 => by
    obtain ⟨hn, h'⟩ := h
    by_cases e : q = q1
    · exact ⟨t1, by rw [e]; exact List.mem_cons_self ..⟩
    · have hlt : q1 < q := by
        have h3 : ¬ (p < q ∧ q < q1) := hn.2.2 q hq
        omega
      obtain ⟨tq, htq⟩ := sites_between rest q1 h' q hq hlt h2
      exact ⟨tq, List.mem_cons_of_mem _ htq⟩

theorem mem_walkOf (k : Nat) : ∀ (ch : List (Nat × List UInt8)) (t : List UInt8) (p : Nat) (q : Nat)
    (tq : List UInt8), (q, tq) ∈ ch → fN k tq (q - k + 2) ∈ walkOf k t p ch
  | [], _, _, _, _, h => by simp at h
  | (q1, t1) :: rest, t, p, q, tq, h => by
    simp only [walkOf]
    rcases List.mem_cons.mp h with e | h'
    · simp only [Prod.mk.injEq] at e
      rw [e.1, e.2]
      simp
    · have := mem_walkOf k rest t1 q1 q tq h'
      simp [this]

theorem mem_pathOf (comp : List (Nat × List Nat)) (vec w : List Nat) (x : Nat) (h : x ∈ w) :
    x ∈ pathOf comp vec w := by
  unfold pathOf
  rw [List.mem_append, List.mem_flatMap]
  exact Or.inr ⟨x, h, List.mem_cons_self ..⟩

namespace Strand

variable {k L : Nat} {g : Graph} {T T' : List (List UInt8)} {PT PT' : List Nat}

/-- nodes after a site do not depend on the sample -/
theorem exit_congr (st : Strand k L g T PT T' PT') {t t2 : List UInt8} (ht : t ∈ T) (ht2 : t2 ∈ T) {p : Nat}
    (hp : p ∈ PT) : fN k t (p + 1) = fN k t2 (p + 1) := by
  have hk5 := st.k5
  have hpe := st.pf.ends p hp
  apply fN_congr
  apply st.pf.win_agree ht ht2 (by omega)
  intro q hq hin
  rcases Nat.lt_trichotomy p q with h | h | h
  · rcases st.pf.sep hp hq (by omega) with h3 | h3 <;> omega
  · omega
  · omega

/-- **the groups reported from the entry node of site `p`** -/
theorem group_good (st : Strand k L g T PT T' PT') {starts ends : List Nat}
    (ex : Ext k starts ends T PT T' PT') {W : Nat} (hW : 2 * k ≤ W) (maxDepth : Nat)
    {t : List UInt8} (ht : t ∈ T) {p : Nat} (hp : p ∈ PT) {grp : (Nat × Nat) × List Variant}
    (hgrp : grp ∈ groupsFrom W (k - 1) (compactGraph g starts ends).1 (compactGraph g starts ends).2
      starts ends maxDepth (fN k t (p - k + 1))) :
    ∃ p' ∈ PT, p ≤ p' ∧ grp.1 = (fN k t (p - k + 1), fN k t (p' + 1)) ∧
      (∃ paths, (fN k t (p' + 1), paths) ∈ pathsFrom (compactGraph g starts ends).1 (compactGraph g starts ends).2
          ends maxDepth (fN k t (p - k + 1)) ∧
        grp.2 = paths.map (buildVariant W (k - 1) starts ends (fN k t (p - k + 1)))) ∧
      GG k L T PT (p - k + 1) (p' - p + 2 * k - 1) grp.2 := by
  have hk5 := st.k5
  have hpe := st.pf.ends p hp
  have hc0 : p - k + 1 + (k - 1) ≤ L := by omega
  obtain ⟨_, e, paths, hmem, hsec, _, hg⟩ := (mem_groupsFrom _ _ _ _ _ _ _ _ grp).mp hgrp
  obtain ⟨_, hend, hck, hce, _⟩ := groupsFrom_real (compactGraph_sound g starts ends) hgrp
  have hke : grp.1.2 = e := by rw [hg]
  rw [hke] at hend hce
  have hwalk := pathsFrom_walk (compactGraph_sound g starts ends) hck hmem
  have hshape := pathsFrom_shape hmem
  have hne : paths ≠ [] := by
    intro e'; rw [e'] at hsec; simp at hsec
  -- head and last node of every path
  have hhead : ∀ p1 ∈ paths, p1.head? = some (fN k t (p - k + 1)) := by
    intro p1 hp1
    obtain ⟨_, s, q, _, e1⟩ := hshape p1 hp1
    rw [e1]
    simp
  have hlastnode : ∀ p1 ∈ paths, 3 ≤ p1.length ∧ p1[p1.length - 1]? = some e := by
    intro p1 hp1
    obtain ⟨_, s, q, _, e1⟩ := hshape p1 hp1
    have hi : interior (compactGraph g starts ends).2 e = [] := by unfold interior; rw [hce]; rfl
    rw [hi] at e1
    have e2 : p1 = (fN k t (p - k + 1) :: s :: interior (compactGraph g starts ends).2 s ++ q) ++ [e] := by
      rw [e1]
    constructor
    · rw [e2]; simp; omega
    · rw [e2, List.length_append, List.length_singleton, Nat.add_sub_cancel, List.getElem?_append_right (Nat.le_refl _),
        Nat.sub_self]
      rfl
  -- the exit is the exit node of a site `p'`
  obtain ⟨p0, hp0⟩ : ∃ p0, p0 ∈ paths := List.exists_mem_of_ne_nil _ hne
  obtain ⟨hl0, hlast0⟩ := hlastnode p0 hp0
  obtain ⟨tl, htl, hel, hlvl⟩ := st.walk_levels p0 t (p - k + 1) ht hc0 (hwalk p0 hp0) (hhead p0 hp0) _ _ hlast0
  rw [hel] at hend
  obtain ⟨p', hp', hlev⟩ := (st.mem_ends_iff ex htl hlvl).mp hend
  have hp'e := st.pf.ends p' hp'
  have hpp' : p ≤ p' := by
    rcases Nat.lt_trichotomy p p' with h | h | h
    · omega
    · omega
    · rcases st.pf.sep hp hp' (by omega) with h3 | h3 <;> omega
  have hee : e = fN k t (p' + 1) := by
    rw [hel, hlev]
    exact st.exit_congr htl ht hp'
  have hlen : ∀ p1 ∈ paths, p1.length = p' + 2 - (p - k + 1) := by
    intro p1 hp1
    obtain ⟨hl1, hlast1⟩ := hlastnode p1 hp1
    obtain ⟨tl1, htl1, hel1, hlvl1⟩ := st.walk_levels p1 t (p - k + 1) ht hc0 (hwalk p1 hp1) (hhead p1 hp1) _ _ hlast1
    have := (st.node_level htl1 ht hlvl1 (by omega) (hel1.symm.trans hee)).1
    omega
  have hfilt := filtered_all hne hlen
  rw [hfilt] at hg
  have hvars : grp.2 = paths.map (buildVariant W (k - 1) starts ends (fN k t (p - k + 1))) := by rw [hg]
  refine ⟨p', hp', hpp', by rw [hg, hee], ⟨paths, by rw [← hee]; exact hmem, hvars⟩, ?_⟩
  -- the variant of a path
  have hvs : ∀ p1 ∈ paths, _ := fun p1 hp1 =>
    st.variant_spec hW starts ends ht hc0 (hwalk p1 hp1) (hhead p1 hp1)
  have hsite : ∀ q ∈ PT, p - k + 1 ≤ q → q < p - k + 1 + (p' - p + 2 * k - 1) → p ≤ q ∧ q ≤ p' := by
    intro q hq h1 h2
    constructor
    · rcases Nat.lt_trichotomy p q with h | h | h
      · omega
      · omega
      · rcases st.pf.sep hp hq (by omega) with h3 | h3 <;> omega
    · rcases Nat.lt_trichotomy p' q with h | h | h
      · rcases st.pf.sep hp' hq (by omega) with h3 | h3 <;> omega
      · omega
      · omega
  refine ⟨by omega, by omega, ?_, ?_, ?_, ?_⟩
  · intro v hv
    rw [hvars, List.mem_map] at hv
    obtain ⟨p1, hp1, rfl⟩ := hv
    obtain ⟨h1, h2, _, h4⟩ := hvs p1 hp1
    rw [hlen p1 hp1] at h1 h4
    refine ⟨by rw [h1]; omega, h2, ?_⟩
    intro i hi
    obtain ⟨t', ht', _, hw'⟩ := h4 i (by omega)
    exact ⟨t', ht', hw'⟩
  · intro q hq h1 h2
    obtain ⟨h3, h4⟩ := hsite q hq h1 h2
    omega
  · intro q hq h1 h2
    obtain ⟨h3, h4⟩ := hsite q hq h1 h2
    refine ⟨buildVariant W (k - 1) starts ends (fN k t (p - k + 1)) p0, by rw [hvars]; exact List.mem_map.mpr ⟨p0, hp0, rfl⟩, ?_⟩
    have hl := hlen p0 hp0
    have hidx : p0[q - p]? = some p0[q - p] := List.getElem?_eq_getElem (by omega)
    obtain ⟨ti, hti, hxe, hlv⟩ := st.walk_levels p0 t (p - k + 1) ht hc0 (hwalk p0 hp0) (hhead p0 hp0) _ _ hidx
    have hst : p0[q - p] ∈ starts := by
      rw [hxe]
      exact (st.mem_starts_iff ex hti hlv).mpr ⟨q, hq, by omega⟩
    have := mark_of_start W (k - 1) starts ends (fN k t (p - k + 1)) p0 (q - p) _ hidx hst (Or.inr (by omega))
    rw [show q - p + (k - 1) = q - (p - k + 1) by omega] at this
    exact this
  · intro q hq h1 h2 tq htq
    obtain ⟨h3, h4⟩ := hsite q hq h1 h2
    -- a found path, its chain of choices
    have hfound0 := (mem_pathsFrom_paths hmem p0).mp hp0
    obtain ⟨t2, ht2, ch, hsites, hsamp, hchlen, heq⟩ :=
      (st.found_strand ex maxDepth (compactGraph g starts ends).2 ht hp (e, p0)).mp hfound0
    simp only [Prod.mk.injEq] at heq
    have helast : e = fN k (lastSample t2 ch) (lastSite p ch + 1) := by rw [heq.1, walkOf_last]
    obtain ⟨hlsm, _⟩ := lastSite_mem ch p hp hsites
    have hlse := st.pf.ends _ hlsm
    have hls : lastSite p ch = p' := by
      have := (st.node_level (lastSample_mem ch t2 ht2 hsamp) ht (by omega) (by omega) (helast.symm.trans hee)).1
      omega
    -- the modified choices
    obtain ⟨t3, ht3, ch3, hsites3, hsamp3, hlen3, hmap3, hx3⟩ : ∃ t3 ∈ T, ∃ ch3 : List (Nat × List UInt8),
        SitesOK PT p (ch3.map (·.1)) ∧ (∀ x ∈ ch3, x.2 ∈ T) ∧ ch3.length ≤ maxDepth ∧
        ch3.map (·.1) = ch.map (·.1) ∧
        fN k tq (q - k + 2) ∈ [fN k t (p - k + 1), fN k t3 (p - k + 2)] ++ walkOf k t3 p ch3 := by
      by_cases hqp : q = p
      · refine ⟨tq, htq, ch, hsites, hsamp, hchlen, rfl, ?_⟩
        rw [hqp]; simp
      · obtain ⟨tq0, hmem0⟩ := sites_between ch p hsites q hq (by omega) (by omega)
        refine ⟨t2, ht2, ch.map (fun x => if x.1 = q then (x.1, tq) else x), ?_, ?_, by simpa using hchlen, ?_, ?_⟩
        · have : (ch.map (fun x => if x.1 = q then (x.1, tq) else x)).map (·.1) = ch.map (·.1) := by
            rw [List.map_map]
            apply List.map_congr_left
            intro x _
            simp only [Function.comp]
            split <;> rfl
          rw [this]; exact hsites
        · intro x hx
          obtain ⟨y, hy, rfl⟩ := List.mem_map.mp hx
          split
          · exact htq
          · exact hsamp y hy
        · rw [List.map_map]
          apply List.map_congr_left
          intro x _
          simp only [Function.comp]
          split <;> rfl
        · apply List.mem_append_right
          apply mem_walkOf
          exact List.mem_map.mpr ⟨(q, tq0), hmem0, by simp⟩
    -- the path of the modified choices is found with the same exit
    have he3 : (walkOf k t3 p ch3).getLastD 0 = e := by
      rw [walkOf_last, lastSite_congr ch3 ch p hmap3, hls, hee]
      exact st.exit_congr (lastSample_mem ch3 t3 ht3 hsamp3) ht hp'
    have hfound3 : (e, pathOf (compactGraph g starts ends).2
        ([fN k t (p - k + 1), fN k t3 (p - k + 2)] ++ interior (compactGraph g starts ends).2 (fN k t3 (p - k + 2)))
        (walkOf k t3 p ch3)) ∈ _ :=
      (st.found_strand ex maxDepth (compactGraph g starts ends).2 ht hp _).mpr
        ⟨t3, ht3, ch3, hsites3, hsamp3, hlen3, by rw [he3]⟩
    have hp3 := (mem_pathsFrom_paths hmem _).mpr hfound3
    refine ⟨_, by rw [hvars]; exact List.mem_map.mpr ⟨_, hp3, rfl⟩, ?_⟩
    -- the arm of `tq` at `q` is a node of that path
    have hxin : fN k tq (q - k + 2) ∈ pathOf (compactGraph g starts ends).2
        ([fN k t (p - k + 1), fN k t3 (p - k + 2)] ++ interior (compactGraph g starts ends).2 (fN k t3 (p - k + 2)))
        (walkOf k t3 p ch3) := by
      rcases List.mem_append.mp hx3 with h | h
      · unfold pathOf
        exact List.mem_append_left _ (List.mem_append_left _ h)
      · exact mem_pathOf _ _ _ _ h
    obtain ⟨i, hi, hxi⟩ := List.getElem_of_mem hxin
    obtain ⟨_, _, h3v, _⟩ := hvs _ hp3
    obtain ⟨ti, hti, hxe, hlv, hwv⟩ := h3v i _ (List.getElem?_eq_getElem hi)
    rw [hxi] at hxe
    have hqe := st.pf.ends q hq
    obtain ⟨hlevel, hwq⟩ := st.node_level htq hti (by omega) hlv hxe
    rw [← hlevel] at hwv
    have hlen3' := (hvs _ hp3).1
    rw [hlen _ hp3] at hlen3'
    have := (win_eq_iff (by rw [hlen3']; omega) (by rw [st.pf.len hti]; omega)).mp hwv (k - 2) (by omega)
    have hw2 := (win_eq_iff (by rw [st.pf.len htq]; omega) (by rw [st.pf.len hti]; omega)).mp hwq (k - 2) (by omega)
    rw [show q - k + 2 + (k - 2) = q by omega] at this hw2
    rw [show i + (k - 2) = q - (p - k + 1) by omega] at this
    rw [this, hw2]

end Strand

end SkaModel.LOC
