/-
C18 completeness — the pipeline on a deletion family: `lo … = some ([], recs)` with one record per block, read
on one of the two strands.
-/
import SkaModel.Lemmas.LOEFinal

namespace SkaModel.LOE

open SkaModel SkaModel.Spec SkaModel.Props.C16 SkaModel.Skalo SkaModel.Props.C17G SkaModel.LOG SkaModel.LOC

namespace Ctx

variable {W k : Nat} {F : List UInt8} {B : List (Nat × Nat)} {C : List (List Bool)} {a : Arr} {names : List String}

theorem idx_ne (cx : Ctx W k F B C a names) {t : Nat} (ht : t < B.length) : keepIdx C t ≠ delIdx C t := by
  obtain ⟨_, _, _, i0, hi0, hm0⟩ := cx.exists_keeper ht
  intro e
  rw [e] at hm0
  exact (idx_part C t i0 hi0).mp hm0 (by rw [e]; exact hm0)

/-- the k-mers of the two edges out of the entry node of a bubble have different colours -/
theorem hcol (cx : Ctx W k F B C a names) : ∀ β ∈ allBubs k F B, ∃ s1 s2,
    Assoc.lookup (buildGraph W a).2 (combineKmers W β.en β.ha) = some s1 ∧
    Assoc.lookup (buildGraph W a).2 (combineKmers W β.en β.hb) = some s2 ∧ s1 ≠ s2 := by
  have hk5 := cx.h.k5
  have hkW := cx.kW
  intro β hβ
  obtain ⟨t, ht, rfl | rfl⟩ := (mem_allBubs k F B β).mp hβ
  · have hb := cx.h.bt ht
    have he := cx.ex_bounds ht
    obtain ⟨h1, h2, _⟩ := cx.heads ht
    refine ⟨keepIdx C t, delIdx C t, ?_, ?_, cx.idx_ne ht⟩
    · rw [h1]
      have hc := combine_fwd (W := W) (k := k) (by omega) hkW F (List.range' (eX k F B t) k) List.length_range'
      rw [List.take_range'_of_length_ge (by omega), List.drop_range'] at hc
      have e : combineKmers W (fwdBub k F B t).en (nF k F B (.c (eX k F B t + 1))) =
          packL (cds (lets F (List.range' (eX k F B t) k))) := by
        rw [← hc]
        rfl
      rw [e]
      exact cx.colour_keep ht (x := eX k F B t) (y := bS B t) (by omega) (by omega) (by omega) (by omega)
        (by unfold inBlk; unfold bS bE at *; omega) (by omega) _ (Or.inl rfl)
    · rw [h2]
      have hc := combine_fwd (W := W) (k := k) (by omega) hkW F
        (List.range' (eX k F B t) (bS B t - eX k F B t) ++
          List.range' (bE B t) (k - (bS B t - eX k F B t))) (by
          rw [List.length_append, List.length_range', List.length_range']; omega)
      rw [gap_take (by omega) (by omega), gap_drop (by omega) (by omega)] at hc
      have e : combineKmers W (fwdBub k F B t).en (nF k F B (.g t (eX k F B t + 1))) =
          packL (cds (lets F (List.range' (eX k F B t) (bS B t - eX k F B t) ++
            List.range' (bE B t) (k - (bS B t - eX k F B t))))) := by
        rw [← hc]
        congr 2
        show nuF F (List.range' (eX k F B t) (k - 1)) = _
        apply nuF_congr
        rw [cx.h.lets_gap_cont ht (by omega) (by omega)]
        congr 2
        omega
      rw [e]
      exact cx.colour_del ht (x := eX k F B t) (by omega) (by omega) (by omega) _ (Or.inl rfl)
  · have hb := cx.h.bt ht
    have he := cx.ex_bounds ht
    obtain ⟨_, _, _, _, h1, h2, _⟩ := cx.heads ht
    refine ⟨keepIdx C t, delIdx C t, ?_, ?_, cx.idx_ne ht⟩
    · rw [h1]
      have hc := combine_rev (W := W) (k := k) (by omega) hkW F (List.range' (bE B t - 1) k) List.length_range'
      rw [List.take_range'_of_length_ge (by omega), List.drop_range'] at hc
      have e : combineKmers W (revBub k F B t).en (nR k F B (.c (bE B t - 1))) =
          packL (rcCodes (cds (lets F (List.range' (bE B t - 1) k)))) := by
        rw [← hc]
        show combineKmers W (nuR F (List.range' (bE B t) (k - 1))) _ = _
        rw [show bE B t - 1 + 1 * 1 = bE B t by omega]
        rfl
      rw [e]
      exact cx.colour_keep ht (x := bE B t - 1) (y := bE B t - 1) (by omega) (by omega) (by omega) (by omega)
        (by unfold inBlk; unfold bS bE at *; omega) (by omega) _ (Or.inr rfl)
    · rw [h2]
      have hc := combine_rev (W := W) (k := k) (by omega) hkW F
        (List.range' (bS B t - 1) (bS B t - (bS B t - 1)) ++
          List.range' (bE B t) (k - (bS B t - (bS B t - 1)))) (by
          rw [List.length_append, List.length_range', List.length_range']; omega)
      rw [gap_take (by omega) (by omega), gap_drop (by omega) (by omega)] at hc
      have e : combineKmers W (revBub k F B t).en (nR k F B (.g t (bS B t - 1))) =
          packL (rcCodes (cds (lets F (List.range' (bS B t - 1) (bS B t - (bS B t - 1)) ++
            List.range' (bE B t) (k - (bS B t - (bS B t - 1))))))) := by
        rw [← hc]
        congr 2
        show nuR F (List.range' (bE B t) (k - 1)) = _
        rw [show bS B t - 1 + 1 = bS B t by omega, Nat.sub_self]
        simp
      rw [e]
      exact cx.colour_del ht (x := bS B t - 1) (by omega) (by omega) (by omega) _ (Or.inr rfl)

theorem recOfBub_fwd (cx : Ctx W k F B C a names) {t : Nat} (ht : t < B.length) :
    recOfBub W k C (buildGraph W a).2 (fwdBub k F B t) = recFw k F B C t := by
  unfold recOfBub
  rw [cx.recOf_fwd 0 1 [] [] ht false]

theorem recOfBub_rev (cx : Ctx W k F B C a names) {t : Nat} (ht : t < B.length) :
    recOfBub W k C (buildGraph W a).2 (revBub k F B t) = recRv k F B C t := by
  unfold recOfBub
  rw [cx.recOf_rev 0 1 [] [] ht false]

/-- **the pipeline on a deletion family** -/
theorem lo_dfam (cx : Ctx W k F B C a names) (mNum mDen ik maxDepth : Nat) :
    ∃ recs, lo W k C.length mNum mDen ik maxDepth a = some ([], recs) ∧ RecsMatch k F B C recs := by
  have hrec : ∀ starts ends, ∀ β ∈ allBubs k F B, ∀ o,
      LOP.recOf W (k - 1) C.length mNum mDen (buildGraph W a).2 (bubVs W (k - 1) starts ends β o) =
        some (some (recOfBub W k C (buildGraph W a).2 β)) := by
    intro starts ends β hβ o
    obtain ⟨t, ht, rfl | rfl⟩ := (mem_allBubs k F B β).mp hβ
    · rw [cx.recOfBub_fwd ht]; exact cx.recOf_fwd mNum mDen starts ends ht o
    · rw [cx.recOfBub_rev ht]; exact cx.recOf_rev mNum mDen starts ends ht o
  obtain ⟨starts, ends, recs, flips, hid, han, hfl, hperm⟩ :=
    lo_bubbles cx.bg cx.twins cx.armLen cx.far cx.hcol (recOfBub W k C (buildGraph W a).2) hrec ik maxDepth
  refine ⟨recs, ?_, flips, ?_, ?_⟩
  · unfold lo
    simp only [Option.bind_eq_bind]
    rw [hid]
    simp only [Option.bind_some]
    exact han
  · rw [hfl]; simp [pairsOf]
  · refine hperm.trans (List.Perm.of_eq ?_)
    have hlen : flips.length = B.length := by rw [hfl]; simp [pairsOf]
    unfold pairsOf
    rw [List.range_eq_range', ← hlen, zip_range_zipIdx]
    apply List.map_congr_left
    intro ft hft
    have hlt : ft.2 < B.length := by
      have := List.mem_zipIdx hft
      omega
    cases hf : ft.1 with
    | false =>
      simp only [Bool.false_eq_true, if_false]
      rw [cx.recOfBub_fwd hlt, cx.recFw_eq hlt]
    | true =>
      simp only [if_true]
      rw [cx.recOfBub_rev hlt, cx.recRv_eq hlt]

end Ctx

end SkaModel.LOE
