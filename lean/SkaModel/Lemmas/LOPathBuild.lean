/-
`ska lo`: the edges of `build_graph` join overlapping (k-1)-mers
(so that item 6 of `SkaModel/Props/C17Paths.lean` applies to the graph of a table).
-/
import SkaModel.Lemmas.LOPathSpell
import SkaModel.Lemmas.LOPathCompact

namespace SkaModel.LOG

open SkaModel SkaModel.Skalo SkaModel.Spec SkaModel.Props.C16 SkaModel.Props.C17G

/-- the prefix and the suffix of a word of `n + 1` codes overlap -/
theorem overlap_take_drop (n : Nat) (F : List Nat) (hF : Codes F) (hlen : F.length = n + 1) :
    packL (F.take n) < 4 ^ n ∧ packL (F.drop 1) < 4 ^ n ∧
      Overlap n (packL (F.take n)) (packL (F.drop 1)) := by
  have hA : (F.take n).length = n := by rw [List.length_take]; omega
  have hB : (F.drop 1).length = n := by rw [List.length_drop]; omega
  refine ⟨?_, ?_, ?_⟩
  · have := packL_lt (hF.take n); rwa [hA] at this
  · have := packL_lt (hF.drop 1); rwa [hB] at this
  · unfold Overlap
    have hM : (F.take n).drop 1 = (F.drop 1).take (n - 1) := by rw [List.drop_take]
    have e1 : F.drop 1 = (F.drop 1).take (n - 1) ++ (F.drop 1).drop (n - 1) :=
      (List.take_append_drop _ _).symm
    have e2 : F.take n = (F.take n).take 1 ++ (F.take n).drop 1 := (List.take_append_drop _ _).symm
    cases n with
    | zero =>
      rw [List.take_zero, packL_nil]
      have := packL_lt (hF.drop 1)
      rw [hB] at this
      simp at this
      simp [this]
    | succ m =>
      have l1 : ((F.drop 1).drop (m + 1 - 1)).length = 1 := by
        rw [List.length_drop, hB]; omega
      have l2 : ((F.take (m + 1)).drop 1).length = m + 1 - 1 := by
        rw [List.length_drop, hA]
      have d := packL_append_div (a := (F.drop 1).take (m + 1 - 1)) ((hF.drop 1).drop (m + 1 - 1))
      have r := packL_append_mod (a := (F.take (m + 1)).take 1) ((hF.take (m + 1)).drop 1)
      rw [← e1, l1] at d
      rw [← e2, l2] at r
      rw [r, hM, ← d]

theorem rcCodes_drop_one (F : List Nat) (n : Nat) (hlen : F.length = n + 1) :
    rcCodes (F.drop 1) = (rcCodes F).take n ∧ rcCodes (F.take n) = (rcCodes F).drop 1 := by
  unfold rcCodes
  constructor
  · rw [List.reverse_drop, hlen, ← List.map_take]; simp
  · rw [List.reverse_take, hlen, ← List.map_drop]; simp

/-! ### the edges of `buildGraph` -/

theorem edge_foldAdd {x y : Nat} (es : List (Nat × Nat)) :
    ∀ (g : Graph), Edge (es.foldl (fun g e => addEdgeOnce g e.1 e.2) g) x y → Edge g x y ∨ (x, y) ∈ es := by
  induction es with
  | nil => intro g h; exact Or.inl h
  | cons e t ih =>
    intro g h
    rw [List.foldl_cons] at h
    rcases ih _ h with h | h
    · rcases edge_addEdgeOnce h with h | ⟨h1, h2⟩
      · exact Or.inl h
      · right; rw [h1, h2]; exact List.mem_cons_self ..
    · right; exact List.mem_cons_of_mem _ h

/-- every edge of the graph comes from a row of the table -/
theorem buildGraph_edge (W : Nat) (a : Arr) (x y : Nat) (h : Edge (buildGraph W a).1 x y) :
    ∃ kv ∈ a.kmers.zip a.variants, (x, y) ∈ (rowGraph W a.k kv.1 kv.2).1 := by
  unfold buildGraph at h
  revert h
  refine foldl_invariant
    (fun (acc : Graph × Colours) => Edge acc.1 x y →
      ∃ kv ∈ a.kmers.zip a.variants, (x, y) ∈ (rowGraph W a.k kv.1 kv.2).1) _ _ ?_ ([], []) ?_
  · intro acc kv hkv hacc h
    simp only at h
    rcases edge_foldAdd _ _ h with h | h
    · exact hacc h
    · exact ⟨kv, hkv, h⟩
  · intro h
    unfold Edge succs at h
    simp [Assoc.lookup] at h

/-- a key below `4^(k-1)` packs two arms of `halfK k` codes -/
theorem key_arms (k key : Nat) (hkh : k = 2 * halfK k + 1) (hkey : key < 4 ^ (k - 1)) :
    ∃ u l, key = packL (u ++ l) ∧ u.length = halfK k ∧ l.length = halfK k ∧ Codes u ∧ Codes l := by
  refine ⟨(digs (k - 1) key).take (halfK k), (digs (k - 1) key).drop (halfK k), ?_, ?_, ?_,
    (digs_codes _ _).take _, (digs_codes _ _).drop _⟩
  · rw [List.take_append_drop, packL_digs, Nat.mod_eq_of_lt hkey]
  · rw [List.length_take, digs_length]; omega
  · rw [List.length_drop, digs_length]; omega

/-- **the edges of the graph of a table join overlapping (k-1)-mers** -/
theorem buildGraph_overlap (W : Nat) (a : Arr) (hk : ValidK a.k) (hw : WidthOk W a.k)
    (hkeys : ∀ key ∈ a.kmers, key < 4 ^ (a.k - 1)) (x y : Nat) (h : Edge (buildGraph W a).1 x y) :
    x < 4 ^ (a.k - 1) ∧ y < 4 ^ (a.k - 1) ∧ Overlap (a.k - 1) x y := by
  obtain ⟨hh2, hkh, hkW⟩ := validK_bounds hk hw
  obtain ⟨kv, hkv, hmem⟩ := buildGraph_edge W a x y h
  have hkey := hkeys kv.1 (List.of_mem_zip hkv).1
  obtain ⟨u, l, e, hu, hl, hcu, hcl⟩ := key_arms a.k kv.1 hkh hkey
  rw [e, mem_rowGraph_edges W a.k hk hw u l hu hl hcu hcl] at hmem
  obtain ⟨n, _, hn⟩ := hmem
  have hF : Codes (u ++ [code n] ++ l) :=
    Codes.append (Codes.append hcu (Codes.cons (code_lt n) Codes.nil)) hcl
  have hlen : (u ++ [code n] ++ l).length = (a.k - 1) + 1 := by
    simp [hu, hl]; omega
  rcases hn with hn | hn
  · simp only [Prod.mk.injEq] at hn
    rw [hn.1, hn.2]
    exact overlap_take_drop (a.k - 1) _ hF hlen
  · simp only [Prod.mk.injEq] at hn
    obtain ⟨r1, r2⟩ := rcCodes_drop_one (u ++ [code n] ++ l) (a.k - 1) hlen
    rw [hn.1, hn.2, r1, r2]
    exact overlap_take_drop (a.k - 1) _ (rcCodes_codes hF) (by rw [rcCodes_length]; exact hlen)

end SkaModel.LOG
