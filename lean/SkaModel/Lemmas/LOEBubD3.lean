/-
C18 completeness — the fields of `BG` for the bubbles of a deletion family: successors of the entry nodes,
distinctness of the nodes of a bubble, the arm nodes are no entry or exit nodes, predecessors.
-/
import SkaModel.Lemmas.LOEBubD2

namespace SkaModel.LOE

open SkaModel SkaModel.Spec SkaModel.Props.C16 SkaModel.Skalo SkaModel.Props.C17G SkaModel.LOG SkaModel.LOC

namespace Ctx

variable {W k : Nat} {F : List UInt8} {B : List (Nat × Nat)} {C : List (List Bool)} {a : Arr} {names : List String}

/-- the two successors of the entry node of a block -/
theorem ensucc_fwd (cx : Ctx W k F B C a names) {t : Nat} (ht : t < B.length) :
    succs (buildGraph W a).1 (fwdBub k F B t).en = [(fwdBub k F B t).ha, (fwdBub k F B t).hb] ∨
    succs (buildGraph W a).1 (fwdBub k F B t).en = [(fwdBub k F B t).hb, (fwdBub k F B t).ha] := by
  have hb := cx.h.bt ht
  have he := cx.ex_bounds ht
  have hk5 := cx.h.k5
  obtain ⟨h1, h2, _⟩ := cx.heads ht
  rw [h1, h2]
  have hv : (Nd.c (eX k F B t)).valid k F.length B (shf k F B) := cx.vc ht (by omega)
  apply eq_pair (cx.nd _)
  · intro e
    have := cx.nF_inj (cx.vc ht (by omega)) (cx.vg ht (Nat.le_refl _) (by omega)) e
    exact Nd.noConfusion this
  · intro Y
    show Y ∈ succs (buildGraph W a).1 (nF k F B (.c (eX k F B t))) ↔ _
    rw [cx.succF hv]
    constructor
    · rintro ⟨n', hr, rfl⟩
      rcases re_succ_c hr with ⟨rfl, _⟩ | ⟨t', ht', e, rfl⟩
      · exact Or.inl rfl
      · right
        by_cases htt : t = t'
        · subst htt; rfl
        · exact absurd e (by
            have hb' := cx.h.bt ht'
            have he' := cx.ex_bounds ht'
            have := cx.h.sep_ne ht ht' htt
            unfold eX bS bE at *
            omega)
    · rintro (rfl | rfl)
      · exact ⟨_, RE.cc _ (by omega), rfl⟩
      · exact ⟨_, RE.cg t ht, rfl⟩

/-- the two successors, on the other strand, of the node after a block -/
theorem ensucc_rev (cx : Ctx W k F B C a names) {t : Nat} (ht : t < B.length) :
    succs (buildGraph W a).1 (revBub k F B t).en = [(revBub k F B t).ha, (revBub k F B t).hb] ∨
    succs (buildGraph W a).1 (revBub k F B t).en = [(revBub k F B t).hb, (revBub k F B t).ha] := by
  have hb := cx.h.bt ht
  have he := cx.ex_bounds ht
  have hk5 := cx.h.k5
  obtain ⟨_, _, _, _, h1, h2, _⟩ := cx.heads ht
  rw [h1, h2]
  have hv : (Nd.c (bE B t)).valid k F.length B (shf k F B) := cx.vc ht (by omega)
  apply eq_pair (cx.nd _)
  · intro e
    have := cx.nR_inj (cx.vc ht (by omega)) (cx.vg ht (by omega) (by omega)) e
    exact Nd.noConfusion this
  · intro Y
    show Y ∈ succs (buildGraph W a).1 (nR k F B (.c (bE B t))) ↔ _
    rw [cx.succR hv]
    constructor
    · rintro ⟨n', hr, rfl⟩
      rcases re_pred_c hr with ⟨x, rfl, e, _⟩ | ⟨t', ht', rfl, e⟩
      · left
        rw [show x = bE B t - 1 by omega]
      · right
        have : t = t' := cx.bE_inj ht ht' e
        subst this
        rfl
    · rintro (rfl | rfl)
      · refine ⟨_, ?_, rfl⟩
        have := RE.cc (k := k) (N := F.length) (B := B) (m := shf k F B) (bE B t - 1) (by omega)
        rwa [show bE B t - 1 + 1 = bE B t by omega] at this
      · exact ⟨_, RE.gc t ht, rfl⟩

/-- the nodes of a path of the bubble of the samples' strand are distinct -/
theorem ndA_fwd (cx : Ctx W k F B C a names) {t : Nat} (ht : t < B.length) :
    ((fwdBub k F B t).en :: (fwdBub k F B t).a ++ [(fwdBub k F B t).ex]).Nodup := by
  have hb := cx.h.bt ht
  have he := cx.ex_bounds ht
  have hk5 := cx.h.k5
  have e : (fwdBub k F B t).en :: (fwdBub k F B t).a ++ [(fwdBub k F B t).ex] =
      (List.range' (eX k F B t) (bE B t - eX k F B t + 1)).map (fun x => nF k F B (.c x)) := by
    unfold fwdBub
    simp only
    rw [show bE B t - eX k F B t + 1 = (bE B t - eX k F B t - 1 + 1) + 1 by omega,
      List.range'_succ, DFam.range'_snoc, List.map_cons, List.map_append, List.map_singleton]
    rw [show eX k F B t + 1 + (bE B t - eX k F B t - 1) = bE B t by omega]
    rfl
  rw [e]
  apply nodup_map_on _ _ List.nodup_range'
  intro x hx y hy hxy
  rw [List.mem_range'_1] at hx hy
  have := cx.nF_inj (cx.vc ht (by omega)) (cx.vc ht (by omega)) hxy
  exact Nd.c.inj this

theorem ndB_fwd (cx : Ctx W k F B C a names) {t : Nat} (ht : t < B.length) :
    ((fwdBub k F B t).en :: (fwdBub k F B t).b ++ [(fwdBub k F B t).ex]).Nodup := by
  have hb := cx.h.bt ht
  have he := cx.ex_bounds ht
  have hk5 := cx.h.k5
  rw [List.cons_append, List.nodup_cons, List.nodup_append]
  refine ⟨?_, ?_, by simp, ?_⟩
  · intro hm
    rw [List.mem_append, List.mem_singleton] at hm
    rcases hm with hm | hm
    · obtain ⟨y, h1, h2, e⟩ := (mem_fb t _).mp hm
      exact Nd.noConfusion (cx.nF_inj (cx.vc ht (by omega)) (cx.vg ht h1 (by omega)) e)
    · have := cx.nF_inj (cx.vc ht (by omega)) (cx.vc ht (by omega)) hm
      have := Nd.c.inj this
      omega
  · unfold fwdBub
    simp only
    apply nodup_map_on _ _ List.nodup_range'
    intro x hx y hy hxy
    rw [List.mem_range'_1] at hx hy
    have := cx.nF_inj (cx.vg ht hx.1 (by omega)) (cx.vg ht hy.1 (by omega)) hxy
    exact (Nd.g.inj this).2
  · intro x hx y hy e
    rw [List.mem_singleton] at hy
    obtain ⟨z, h1, h2, rfl⟩ := (mem_fb t _).mp hx
    rw [hy] at e
    exact Nd.noConfusion (cx.nF_inj (cx.vg ht h1 (by omega)) (cx.vc ht (by omega)) e)

theorem ndA_rev (cx : Ctx W k F B C a names) {t : Nat} (ht : t < B.length) :
    ((revBub k F B t).en :: (revBub k F B t).a ++ [(revBub k F B t).ex]).Nodup := by
  have hb := cx.h.bt ht
  have he := cx.ex_bounds ht
  have hk5 := cx.h.k5
  have e : (revBub k F B t).en :: (revBub k F B t).a ++ [(revBub k F B t).ex] =
      (List.range' (eX k F B t) (bE B t - eX k F B t + 1)).reverse.map (fun x => nR k F B (.c x)) := by
    unfold revBub
    simp only
    rw [show bE B t - eX k F B t + 1 = (bE B t - eX k F B t - 1 + 1) + 1 by omega,
      List.range'_succ, DFam.range'_snoc, List.reverse_cons, List.reverse_append, List.reverse_singleton,
      List.map_append, List.map_singleton, List.singleton_append, List.map_cons]
    rw [List.cons_append, show eX k F B t + 1 + (bE B t - eX k F B t - 1) = bE B t by omega]
    rfl
  rw [e]
  apply nodup_map_on _ _ ((List.reverse_perm _).nodup_iff.mpr List.nodup_range')
  intro x hx y hy hxy
  rw [List.mem_reverse, List.mem_range'_1] at hx hy
  have := cx.nR_inj (cx.vc ht (by omega)) (cx.vc ht (by omega)) hxy
  exact Nd.c.inj this

theorem ndB_rev (cx : Ctx W k F B C a names) {t : Nat} (ht : t < B.length) :
    ((revBub k F B t).en :: (revBub k F B t).b ++ [(revBub k F B t).ex]).Nodup := by
  have hb := cx.h.bt ht
  have he := cx.ex_bounds ht
  have hk5 := cx.h.k5
  rw [List.cons_append, List.nodup_cons, List.nodup_append]
  refine ⟨?_, ?_, by simp, ?_⟩
  · intro hm
    rw [List.mem_append, List.mem_singleton] at hm
    rcases hm with hm | hm
    · obtain ⟨y, h1, h2, e⟩ := (mem_rb t _).mp hm
      exact Nd.noConfusion (cx.nR_inj (cx.vc ht (by omega)) (cx.vg ht h1 (by omega)) e)
    · have := cx.nR_inj (cx.vc ht (by omega)) (cx.vc ht (by omega)) hm
      have := Nd.c.inj this
      omega
  · unfold revBub
    simp only
    apply nodup_map_on _ _ ((List.reverse_perm _).nodup_iff.mpr List.nodup_range')
    intro x hx y hy hxy
    rw [List.mem_reverse, List.mem_range'_1] at hx hy
    have := cx.nR_inj (cx.vg ht hx.1 (by omega)) (cx.vg ht hy.1 (by omega)) hxy
    exact (Nd.g.inj this).2
  · intro x hx y hy e
    rw [List.mem_singleton] at hy
    obtain ⟨z, h1, h2, rfl⟩ := (mem_rb t _).mp hx
    rw [hy] at e
    exact Nd.noConfusion (cx.nR_inj (cx.vg ht h1 (by omega)) (cx.vc ht (by omega)) e)

end Ctx

end SkaModel.LOE
