/-
Rotation algebra for the 64-bit words of `Impl/NtHash.lean`. The model works on
natural numbers below 2^64; the proofs go through `BitVec 64`.
-/
import SkaModel.Impl.NtHash

namespace SkaModel.NH

open SkaModel

/-! ### the bridge to `BitVec 64` -/

theorem rotl64_toNat (v : BitVec 64) (n : Nat) :
    rotl64 v.toNat n = (v.rotateLeft n).toNat := by
  simp only [rotl64, BitVec.toNat_rotateLeft]

theorem rotr64_toNat (v : BitVec 64) (n : Nat) :
    rotr64 v.toNat n = (v.rotateRight n).toNat := by
  simp only [rotr64, BitVec.toNat_rotateRight]

theorem toNat_ofNat_of_lt {x : Nat} (h : x < 2 ^ 64) : (BitVec.ofNat 64 x).toNat = x := by
  rw [BitVec.toNat_ofNat, Nat.mod_eq_of_lt h]

/-- `rotl64` on a 64-bit value is `BitVec.rotateLeft` -/
theorem rotl64_eq_bv {x : Nat} (h : x < 2 ^ 64) (n : Nat) :
    rotl64 x n = ((BitVec.ofNat 64 x).rotateLeft n).toNat := by
  rw [← rotl64_toNat, toNat_ofNat_of_lt h]

/-- `rotr64` on a 64-bit value is `BitVec.rotateRight` -/
theorem rotr64_eq_bv {x : Nat} (h : x < 2 ^ 64) (n : Nat) :
    rotr64 x n = ((BitVec.ofNat 64 x).rotateRight n).toNat := by
  rw [← rotr64_toNat, toNat_ofNat_of_lt h]

/-! ### `BitVec 64` rotation facts -/

theorem bv_rotl_rotl (v : BitVec 64) (a b : Nat) :
    (v.rotateLeft a).rotateLeft b = v.rotateLeft (a + b) := by
  apply BitVec.eq_of_getLsbD_eq
  intro i hi
  simp only [BitVec.getLsbD_rotateLeft]
  have hab : (a + b) % 64 = (a % 64 + b % 64) % 64 := Nat.add_mod _ _ _
  have ha : a % 64 < 64 := Nat.mod_lt _ (by omega)
  have hb : b % 64 < 64 := Nat.mod_lt _ (by omega)
  generalize a % 64 = ra at *
  generalize b % 64 = rb at *
  rw [hab]
  by_cases h1 : i < rb
  · by_cases h2 : 64 - rb + i < ra
    · by_cases h3 : ra + rb < 64
      · have e : (ra + rb) % 64 = ra + rb := Nat.mod_eq_of_lt h3
        simp only [h1, h2, e, show i < ra + rb by omega, decide_true, cond_true]
        congr 1; omega
      · have e : (ra + rb) % 64 = ra + rb - 64 := by omega
        simp only [h1, h2, e, show i < ra + rb - 64 by omega, decide_true, cond_true]
        congr 1; omega
    · have h3 : ra + rb < 64 ∨ 64 ≤ ra + rb := by omega
      rcases h3 with h3 | h3
      · have e : (ra + rb) % 64 = ra + rb := Nat.mod_eq_of_lt h3
        simp only [h1, h2, e, show i < ra + rb by omega, decide_true, cond_true, decide_false,
          cond_false, show 64 - rb + i < 64 by omega, Bool.true_and]
        congr 1; omega
      · have e : (ra + rb) % 64 = ra + rb - 64 := by omega
        simp only [h1, h2, e, show ¬ i < ra + rb - 64 by omega, decide_true, cond_true,
          decide_false, cond_false, show 64 - rb + i < 64 by omega, Bool.true_and, hi]
        congr 1; omega
  · by_cases h2 : i - rb < ra
    · have h3 : ra + rb < 64 ∨ 64 ≤ ra + rb := by omega
      rcases h3 with h3 | h3
      · have e : (ra + rb) % 64 = ra + rb := Nat.mod_eq_of_lt h3
        simp only [h1, h2, e, show i < ra + rb by omega, decide_true, cond_true, decide_false,
          cond_false, hi, Bool.true_and]
        congr 1; omega
      · have e : (ra + rb) % 64 = ra + rb - 64 := by omega
        by_cases h4 : i < ra + rb - 64
        · omega
        · simp only [h1, h2, e, h4, decide_true, cond_true, decide_false,
            cond_false, hi, Bool.true_and]
          congr 1; omega
    · have h3 : ra + rb < 64 := by omega
      have e : (ra + rb) % 64 = ra + rb := Nat.mod_eq_of_lt h3
      simp only [h1, h2, e, show ¬ i < ra + rb by omega, decide_true, decide_false,
        cond_false, hi, Bool.true_and, show i - rb < 64 by omega]
      congr 1; omega


theorem bv_rotr_eq_rotl (v : BitVec 64) (n : Nat) :
    v.rotateRight n = v.rotateLeft (64 - n % 64) := by
  apply BitVec.eq_of_getLsbD_eq
  intro i hi
  simp only [BitVec.getLsbD_rotateLeft, BitVec.getLsbD_rotateRight]
  have hn : n % 64 < 64 := Nat.mod_lt _ (by omega)
  generalize n % 64 = r at *
  by_cases h0 : r = 0
  · subst h0
    simp [hi]
  · have e : (64 - r) % 64 = 64 - r := Nat.mod_eq_of_lt (by omega)
    rw [e]
    by_cases h1 : i < 64 - r
    · simp only [h1, decide_true, cond_true]
      congr 1; omega
    · simp only [h1, decide_false, cond_false]

theorem bv_rotl_of_mod_zero (v : BitVec 64) (n : Nat) (h : n % 64 = 0) : v.rotateLeft n = v := by
  apply BitVec.eq_of_getLsbD_eq
  intro i hi
  simp [h, hi]

theorem bv_rotl_xor (x y : BitVec 64) (n : Nat) :
    (x ^^^ y).rotateLeft n = x.rotateLeft n ^^^ y.rotateLeft n := by
  apply BitVec.eq_of_getLsbD_eq
  intro i hi
  simp only [BitVec.getLsbD_rotateLeft, BitVec.getLsbD_xor]
  by_cases h : i < n % 64 <;> simp [h, hi]

/-! ### the algebra on natural numbers below 2^64 -/

theorem rotl64_lt {x : Nat} (h : x < 2 ^ 64) (n : Nat) : rotl64 x n < 2 ^ 64 := by
  rw [rotl64_eq_bv h]; exact BitVec.isLt _

theorem rotr64_lt {x : Nat} (h : x < 2 ^ 64) (n : Nat) : rotr64 x n < 2 ^ 64 := by
  rw [rotr64_eq_bv h]; exact BitVec.isLt _

theorem ofNat_rotl64 {x : Nat} (h : x < 2 ^ 64) (n : Nat) :
    BitVec.ofNat 64 (rotl64 x n) = (BitVec.ofNat 64 x).rotateLeft n := by
  rw [rotl64_eq_bv h, BitVec.ofNat_toNat, BitVec.setWidth_eq]

theorem rotl64_rotl64 {x : Nat} (h : x < 2 ^ 64) (a b : Nat) :
    rotl64 (rotl64 x a) b = rotl64 x (a + b) := by
  rw [rotl64_eq_bv (rotl64_lt h a), ofNat_rotl64 h, bv_rotl_rotl, ← rotl64_eq_bv h]

/-- rotation amounts only count modulo 64 -/
theorem rotl64_mod (x n : Nat) : rotl64 x (n % 64) = rotl64 x n := by
  unfold rotl64; simp only [Nat.mod_mod]

theorem rotr64_mod (x n : Nat) : rotr64 x (n % 64) = rotr64 x n := by
  unfold rotr64; simp only [Nat.mod_mod]

theorem rotl64_congr (x : Nat) {a b : Nat} (h : a % 64 = b % 64) : rotl64 x a = rotl64 x b := by
  rw [← rotl64_mod x a, ← rotl64_mod x b, h]

theorem rotl64_of_mod_zero {x : Nat} (h : x < 2 ^ 64) {n : Nat} (hn : n % 64 = 0) :
    rotl64 x n = x := by
  rw [rotl64_eq_bv h, bv_rotl_of_mod_zero _ _ hn, toNat_ofNat_of_lt h]

theorem rotl64_zero {x : Nat} (h : x < 2 ^ 64) : rotl64 x 0 = x := rotl64_of_mod_zero h rfl

theorem rotl64_64 {x : Nat} (h : x < 2 ^ 64) : rotl64 x 64 = x := rotl64_of_mod_zero h rfl

theorem rotl64_add_64 (x n : Nat) : rotl64 x (n + 64) = rotl64 x n :=
  rotl64_congr x (by omega)

/-- a right rotation is the complementary left rotation -/
theorem rotr64_eq_rotl64 {x : Nat} (h : x < 2 ^ 64) (n : Nat) :
    rotr64 x n = rotl64 x (64 - n % 64) := by
  rw [rotr64_eq_bv h, bv_rotr_eq_rotl, ← rotl64_eq_bv h]

theorem rotr64_one {x : Nat} (h : x < 2 ^ 64) : rotr64 x 1 = rotl64 x 63 :=
  rotr64_eq_rotl64 h 1

theorem rotr64_rotl64 {x : Nat} (h : x < 2 ^ 64) (n : Nat) : rotr64 (rotl64 x n) n = x := by
  rw [rotr64_eq_rotl64 (rotl64_lt h n), rotl64_rotl64 h]
  exact rotl64_of_mod_zero h (by omega)

theorem rotl64_rotr64 {x : Nat} (h : x < 2 ^ 64) (n : Nat) : rotl64 (rotr64 x n) n = x := by
  rw [rotr64_eq_rotl64 h, rotl64_rotl64 h]
  exact rotl64_of_mod_zero h (by omega)

/-- undoing one step of a left rotation -/
theorem rotr64_one_rotl64_succ {x : Nat} (h : x < 2 ^ 64) (n : Nat) :
    rotr64 (rotl64 x (n + 1)) 1 = rotl64 x n := by
  rw [rotr64_one (rotl64_lt h _), rotl64_rotl64 h]
  exact rotl64_congr x (by omega)

theorem xor_lt {x y : Nat} (hx : x < 2 ^ 64) (hy : y < 2 ^ 64) : x ^^^ y < 2 ^ 64 :=
  Nat.xor_lt_two_pow hx hy

theorem ofNat_xor (x y : Nat) :
    BitVec.ofNat 64 (x ^^^ y) = BitVec.ofNat 64 x ^^^ BitVec.ofNat 64 y := by
  apply BitVec.eq_of_toNat_eq
  simp only [BitVec.toNat_ofNat, BitVec.toNat_xor]
  exact Nat.xor_mod_two_pow

theorem rotl64_xor {x y : Nat} (hx : x < 2 ^ 64) (hy : y < 2 ^ 64) (n : Nat) :
    rotl64 (x ^^^ y) n = rotl64 x n ^^^ rotl64 y n := by
  rw [rotl64_eq_bv (xor_lt hx hy), ofNat_xor, bv_rotl_xor, BitVec.toNat_xor,
    ← rotl64_eq_bv hx, ← rotl64_eq_bv hy]

theorem rotr64_xor {x y : Nat} (hx : x < 2 ^ 64) (hy : y < 2 ^ 64) (n : Nat) :
    rotr64 (x ^^^ y) n = rotr64 x n ^^^ rotr64 y n := by
  rw [rotr64_eq_rotl64 (xor_lt hx hy), rotr64_eq_rotl64 hx, rotr64_eq_rotl64 hy, rotl64_xor hx hy]

theorem rotl64_zero_left (n : Nat) : rotl64 0 n = 0 := by
  simp [rotl64]

theorem rotr64_zero_left (n : Nat) : rotr64 0 n = 0 := by
  simp [rotr64]

end SkaModel.NH
