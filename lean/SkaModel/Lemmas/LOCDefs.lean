/-
C17 completeness — definitions: planted families of samples with isolated substitutions, the
`ska lo` pipeline from the table, the true columns, and the executable checker of the claim
(`SkaModel/Props/C17Complete.lean`).
-/
import SkaModel.Impl.SkaloPipe
import SkaModel.Spec.BuildTable

namespace SkaModel.LOC

open SkaModel SkaModel.Skalo SkaModel.Spec

/-- upper-case A, C, G, T -/
def isBase (b : UInt8) : Bool := b == 65 || b == 67 || b == 71 || b == 84

/-- A<->T, C<->G (other bytes fixed) -/
def compl (b : UInt8) : UInt8 :=
  if b == 65 then 84 else if b == 84 then 65 else if b == 67 then 71 else if b == 71 then 67 else b

/-- the window of `m` letters of `s` at `j` -/
def win (s : List UInt8) (j m : Nat) : List UInt8 := (s.drop j).take m

/-- reverse complement of a string of letters -/
def rcSeq (s : List UInt8) : List UInt8 := s.reverse.map compl

/-- all windows of `m` letters of all sequences of `T`, with their coordinate -/
def windowsOf (m : Nat) (T : List (List UInt8)) : List (Nat × List UInt8) :=
  T.flatMap (fun s => (List.range (s.length + 1 - m)).map (fun j => (j, win s j m)))

/-- the `m`-mers of the sequences of `T` are unique on both strands: the same `m`-mer occurs (in any two
sequences of `T`) only at the same coordinate, and no `m`-mer is the reverse complement of an `m`-mer
(of the same or another sequence, at any coordinate, its own included) -/
def uniqueB (m : Nat) (T : List (List UInt8)) : Bool :=
  let ws := windowsOf m T
  ws.all (fun a => ws.all (fun b => (a.2 != b.2 || a.1 == b.1) && a.2 != rcSeq b.2))

/-- the hypotheses of the planted family, as one decidable condition:
`k` odd, `5 ≤ k`; the ancestor `A` has `L` letters A/C/G/T; at least two samples, each of `L` letters
A/C/G/T and equal to `A` outside the sites `P`; every site shows at least two different bases among the
samples; the sites are increasing, at least `2k` apart and at least `2k` from both ends; the
`(k-1)`-mers of the ancestor and of all samples are unique on both strands -/
def plantedB (k L : Nat) (A : List UInt8) (S : List (List UInt8)) (P : List Nat) : Bool :=
  decide (5 ≤ k) && decide (k % 2 = 1) &&
  decide (A.length = L) && A.all isBase &&
  decide (2 ≤ S.length) &&
  S.all (fun s => decide (s.length = L) && s.all isBase &&
    (List.range L).all (fun j => P.contains j || s.getD j 0 == A.getD j 0)) &&
  P.all (fun p => S.any (fun s => S.any (fun t => s.getD p 0 != t.getD p 0))) &&
  P.all (fun p => decide (2 * k ≤ p) && decide (p + 2 * k < L)) &&
  P.Pairwise (fun p q => p + 2 * k ≤ q) &&
  uniqueB (k - 1) (A :: S)

/-- no window of `k` letters of a sequence of `T` is a palindromic split k-mer: its two arms (the `(k-1)/2`
letters before and after the middle base) are not reverse complements of each other.  (Such a window and
its reverse complement differ in the middle base only; `ska build` stores them in ONE row with an IUPAC
code W or S, and `build_graph` then pushes every edge of the two k-mers twice.) -/
def noPalinB (k : Nat) (T : List (List UInt8)) : Bool :=
  T.all (fun s => (List.range (s.length + 1 - k)).all (fun j =>
    win s j ((k - 1) / 2) != rcSeq (win s (j + (k - 1) / 2 + 1) ((k - 1) / 2))))

/-- the same as a proposition -/
def Planted (k L : Nat) (A : List UInt8) (S : List (List UInt8)) (P : List Nat) : Prop :=
  plantedB k L A S P = true

instance (k L : Nat) (A : List UInt8) (S : List (List UInt8)) (P : List Nat) :
    Decidable (Planted k L A S P) := inferInstanceAs (Decidable (_ = true))

/-- an array with the rows of a table -/
def arrOfRows (W k : Nat) (names : List String) (rows : List (Nat × List UInt8)) : Arr :=
  { k := k, rc := true, names := names, kmers := rows.map (·.1), variants := rows.map (·.2),
    counts := rows.map (fun r => (r.2.filter (· != 45)).length), kBits := W }

/-- the table of the joint build of the samples (one record each, both strands) -/
def tableOf (k : Nat) (names : List String) (S : List (List UInt8)) : Table :=
  specTable k true names (S.map (fun s => [s.toArray]))

/-- the array of that table, rows in table order -/
def arrOf (W k : Nat) (names : List String) (S : List (List UInt8)) : Arr :=
  arrOfRows W k names (tableOf k names S).rows

/-- the reference-free `ska lo` pipeline from the array: graph, entry/exit nodes, variant groups, caller -/
def lo (W k n mNum mDen ik maxDepth : Nat) (a : Arr) : Option (List (List UInt8) × List IndelRec) := do
  let (g, col) := buildGraph W a
  let (st, en) ← identifyGoodKmers W (k - 1) g col
  analyse W (k - 1) n mNum mDen ik col (buildVariantGroups W (k - 1) g st en maxDepth)

/-- the true columns: for every site the base of every sample -/
def trueCols (S : List (List UInt8)) (P : List Nat) : List (List UInt8) :=
  P.map (fun p => S.map (fun s => s.getD p 0))

/-- the column read on the other strand -/
def complCol (c : List UInt8) : List UInt8 := c.map compl

/-- `cols` is `truth` up to the order of the columns and the strand of each column -/
def ColsMatch (cols truth : List (List UInt8)) : Prop :=
  ∃ flips : List Bool, flips.length = truth.length ∧
    cols.Perm (List.zipWith (fun (b : Bool) t => if b then complCol t else t) flips truth)

/-- lexicographic "not greater" of byte strings -/
def bytesLe (a b : List UInt8) : Bool := !bytesLt b a

/-- the smaller of a column and its complement -/
def canonCol (c : List UInt8) : List UInt8 := if bytesLe c (complCol c) then c else complCol c

/-- executable form of `ColsMatch` -/
def colsMatchB (cols truth : List (List UInt8)) : Bool :=
  (cols.map canonCol).isPerm (truth.map canonCol)

/-- the claim on one family: the pipeline returns columns matching the true ones and no indel record -/
def completeOn (W k n mNum mDen ik maxDepth : Nat) (a : Arr) (S : List (List UInt8)) (P : List Nat) : Bool :=
  match lo W k n mNum mDen ik maxDepth a with
  | some (cols, []) => colsMatchB cols (trueCols S P)
  | _ => false

end SkaModel.LOC
