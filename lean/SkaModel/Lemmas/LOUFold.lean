/-
`buildGraphU` (sample sets merged): the graph component is that of `buildGraph`; the colour map is
one fold of `addColourU` over the coloured k-mers of all rows (`colourEntries`); a lookup is the
union of the sample sets of all entries with that key.
-/
import SkaModel.Lemmas.LOUSorted
import SkaModel.Lemmas.LOReal2
import SkaModel.Lemmas.LOCFold

namespace SkaModel.LOU

open SkaModel SkaModel.Skalo SkaModel.LORL

/-! ### the two components of the folds -/

theorem foldlU_fst_rows (W k : Nat) (rows : List (Nat × List UInt8)) (g : Graph) (c : Colours) :
    (rows.foldl (fun (acc : Graph × Colours) kv =>
      let (es, cs) := rowGraph W k kv.1 kv.2
      (es.foldl (fun g e => addEdgeOnce g e.1 e.2) acc.1, cs.foldl (fun c e => addColourU c e.1 e.2) acc.2))
      (g, c)).1 =
    (rows.flatMap (fun kv => (rowGraph W k kv.1 kv.2).1)).foldl (fun g e => addEdgeOnce g e.1 e.2) g := by
  induction rows generalizing g c with
  | nil => rfl
  | cons kv rest ih =>
    rw [List.foldl_cons, List.flatMap_cons, List.foldl_append]
    exact ih _ _

theorem foldlU_snd_rows (W k : Nat) (rows : List (Nat × List UInt8)) (g : Graph) (c : Colours) :
    (rows.foldl (fun (acc : Graph × Colours) kv =>
      let (es, cs) := rowGraph W k kv.1 kv.2
      (es.foldl (fun g e => addEdgeOnce g e.1 e.2) acc.1, cs.foldl (fun c e => addColourU c e.1 e.2) acc.2))
      (g, c)).2 =
    (rows.flatMap (fun kv => (rowGraph W k kv.1 kv.2).2)).foldl (fun c e => addColourU c e.1 e.2) c := by
  induction rows generalizing g c with
  | nil => rfl
  | cons kv rest ih =>
    rw [List.foldl_cons, List.flatMap_cons, List.foldl_append]
    exact ih _ _

theorem foldl_snd_rows (W k : Nat) (rows : List (Nat × List UInt8)) (g : Graph) (c : Colours) :
    (rows.foldl (fun (acc : Graph × Colours) kv =>
      let (es, cs) := rowGraph W k kv.1 kv.2
      (es.foldl (fun g e => addEdgeOnce g e.1 e.2) acc.1, cs.foldl (fun c e => addColour c e.1 e.2) acc.2))
      (g, c)).2 =
    (rows.flatMap (fun kv => (rowGraph W k kv.1 kv.2).2)).foldl (fun c e => addColour c e.1 e.2) c := by
  induction rows generalizing g c with
  | nil => rfl
  | cons kv rest ih =>
    rw [List.foldl_cons, List.flatMap_cons, List.foldl_append]
    exact ih _ _

/-- the graph does not depend on the colours -/
theorem buildGraphU_fst (W : Nat) (a : Arr) : (buildGraphU W a).1 = (buildGraph W a).1 := by
  unfold buildGraphU buildGraph
  rw [foldlU_fst_rows, LOC.foldl_fst_rows]

/-- the merged colour map is one fold over the coloured k-mers of all rows -/
theorem buildGraphU_snd (W : Nat) (a : Arr) :
    (buildGraphU W a).2 = (colourEntries W a).foldl (fun c e => addColourU c e.1 e.2) [] :=
  foldlU_snd_rows W a.k _ [] []

/-- the first-wins colour map is one fold over the coloured k-mers of all rows -/
theorem buildGraph_snd (W : Nat) (a : Arr) :
    (buildGraph W a).2 = (colourEntries W a).foldl (fun c e => addColour c e.1 e.2) [] :=
  foldl_snd_rows W a.k _ [] []

/-! ### lookups in a fold of `addColourU` -/

/-- merging the sets `vs` one after the other into what is there (`none` = the key is absent) -/
def mergeInto (o : Option (List Nat)) (vs : List (List Nat)) : Option (List Nat) :=
  vs.foldl (fun o v => some (match o with | none => v | some S => unionSorted S v)) o

theorem mergeInto_nil (o : Option (List Nat)) : mergeInto o [] = o := rfl

theorem mergeInto_cons (o : Option (List Nat)) (v : List Nat) (vs : List (List Nat)) :
    mergeInto o (v :: vs) = mergeInto (some (match o with | none => v | some S => unionSorted S v)) vs := rfl

theorem lookup_addColourU (c : Colours) (k : Nat) (s : List Nat) (f : Nat) :
    Assoc.lookup (addColourU c k s) f =
      if k == f then some (match Assoc.lookup c k with | none => s | some S => unionSorted S s)
      else Assoc.lookup c f := by
  unfold addColourU
  rw [Assoc.lookup_upsert]
  cases Assoc.lookup c k <;> rfl

/-- the sets of the entries with key `f`, in order -/
def setsOf (cs : List (Nat × List Nat)) (f : Nat) : List (List Nat) :=
  (cs.filter (fun e => e.1 == f)).map (·.2)

theorem setsOf_cons (e : Nat × List Nat) (cs : List (Nat × List Nat)) (f : Nat) :
    setsOf (e :: cs) f = if e.1 == f then e.2 :: setsOf cs f else setsOf cs f := by
  unfold setsOf
  rw [List.filter_cons]
  split <;> rfl

theorem mem_setsOf (cs : List (Nat × List Nat)) (f : Nat) (v : List Nat) :
    v ∈ setsOf cs f ↔ ∃ e ∈ cs, e.1 = f ∧ e.2 = v := by
  unfold setsOf
  simp only [List.mem_map, List.mem_filter, beq_iff_eq]
  constructor
  · rintro ⟨e, ⟨h1, h2⟩, h3⟩; exact ⟨e, h1, h2, h3⟩
  · rintro ⟨e, h1, h2, h3⟩; exact ⟨e, ⟨h1, h2⟩, h3⟩

theorem setsOf_eq_nil (cs : List (Nat × List Nat)) (f : Nat) :
    setsOf cs f = [] ↔ ∀ e ∈ cs, e.1 ≠ f := by
  rw [List.eq_nil_iff_forall_not_mem]
  constructor
  · intro h e he hf
    exact h e.2 ((mem_setsOf cs f e.2).mpr ⟨e, he, hf, rfl⟩)
  · intro h v hv
    obtain ⟨e, he, hf, _⟩ := (mem_setsOf cs f v).mp hv
    exact h e he hf

/-- **all insertions are merged**: after entering the entries `cs` in order, the set of `f` is the union
of what was there before and the sets of all entries of `cs` with key `f` -/
theorem lookup_foldl_addColourU (cs : List (Nat × List Nat)) :
    ∀ (c : Colours) (f : Nat),
      Assoc.lookup (cs.foldl (fun c e => addColourU c e.1 e.2) c) f =
        mergeInto (Assoc.lookup c f) (setsOf cs f) := by
  induction cs with
  | nil => intro c f; rfl
  | cons e cs ih =>
    intro c f
    obtain ⟨k, s⟩ := e
    rw [List.foldl_cons, ih, setsOf_cons, lookup_addColourU]
    by_cases hk : (k == f) = true
    · have e : k = f := eq_of_beq hk
      subst e
      rw [if_pos hk, if_pos hk, mergeInto_cons]
    · rw [if_neg hk, if_neg hk]

theorem mergeInto_some (S : List Nat) (vs : List (List Nat)) :
    ∃ T, mergeInto (some S) vs = some T := by
  induction vs generalizing S with
  | nil => exact ⟨S, rfl⟩
  | cons v vs ih => rw [mergeInto_cons]; exact ih _

theorem mergeInto_eq_none (o : Option (List Nat)) (vs : List (List Nat)) :
    mergeInto o vs = none ↔ o = none ∧ vs = [] := by
  cases vs with
  | nil => simp [mergeInto_nil]
  | cons v vs =>
    rw [mergeInto_cons]
    obtain ⟨T, hT⟩ := mergeInto_some (match o with | none => v | some S => unionSorted S v) vs
    rw [hT]
    simp

/-- the merged set is strictly increasing and holds exactly the members of the merged sets -/
theorem mergeInto_spec (vs : List (List Nat)) :
    ∀ (o : Option (List Nat)) (T : List Nat), (∀ S, o = some S → SInc S) → (∀ v ∈ vs, SInc v) →
      mergeInto o vs = some T →
      SInc T ∧ ∀ i, i ∈ T ↔ (∃ S, o = some S ∧ i ∈ S) ∨ ∃ v ∈ vs, i ∈ v := by
  induction vs with
  | nil =>
    intro o T ho _ h
    rw [mergeInto_nil] at h
    exact ⟨ho T h, fun i => by simp [h]⟩
  | cons v vs ih =>
    intro o T ho hvs h
    rw [mergeInto_cons] at h
    have hv : SInc v := hvs v List.mem_cons_self
    have hvs' : ∀ w ∈ vs, SInc w := fun w hw => hvs w (List.mem_cons_of_mem _ hw)
    cases o with
    | none =>
      obtain ⟨h1, h2⟩ := ih (some v) T (fun S hS => by rw [← Option.some.inj hS]; exact hv) hvs' h
      refine ⟨h1, fun i => ?_⟩
      rw [h2]
      simp only [Option.some.injEq, exists_eq_left', List.mem_cons, exists_eq_or_imp]
      simp
    | some S =>
      have hS : SInc S := ho S rfl
      obtain ⟨h1, h2⟩ := ih (some (unionSorted S v)) T
        (fun S' hS' => by rw [← Option.some.inj hS']; exact unionSorted_sorted _ _ hS hv) hvs' h
      refine ⟨h1, fun i => ?_⟩
      rw [h2]
      simp only [Option.some.injEq, exists_eq_left', List.mem_cons, exists_eq_or_imp, mem_unionSorted]
      exact or_assoc

/-! ### the colour map of `buildGraphU` -/

theorem buildGraphU_lookup (W : Nat) (a : Arr) (f : Nat) :
    Assoc.lookup (buildGraphU W a).2 f = mergeInto none (setsOf (colourEntries W a) f) := by
  rw [buildGraphU_snd, lookup_foldl_addColourU]
  rfl

/-- every entry of `colourEntries` has a strictly increasing sample list -/
theorem colourEntries_sorted (W : Nat) (a : Arr) : ∀ e ∈ colourEntries W a, SInc e.2 := by
  intro e he
  unfold colourEntries at he
  obtain ⟨kv, _, h⟩ := List.mem_flatMap.mp he
  exact rowGraph_samples_sorted W a.k kv.1 kv.2 e h

theorem buildGraphU_lookup_none (W : Nat) (a : Arr) (f : Nat) :
    Assoc.lookup (buildGraphU W a).2 f = none ↔ ∀ e ∈ colourEntries W a, e.1 ≠ f := by
  rw [buildGraphU_lookup, mergeInto_eq_none, setsOf_eq_nil]
  simp

theorem buildGraphU_lookup_some (W : Nat) (a : Arr) (f : Nat) (S : List Nat)
    (h : Assoc.lookup (buildGraphU W a).2 f = some S) :
    SInc S ∧ ∀ i, i ∈ S ↔ ∃ e ∈ colourEntries W a, e.1 = f ∧ i ∈ e.2 := by
  rw [buildGraphU_lookup] at h
  obtain ⟨h1, h2⟩ := mergeInto_spec _ none S (by simp) (fun v hv => by
    obtain ⟨e, he, _, hv'⟩ := (mem_setsOf _ _ _).mp hv
    rw [← hv']
    exact colourEntries_sorted W a e he) h
  refine ⟨h1, fun i => ?_⟩
  rw [h2]
  constructor
  · rintro (⟨_, h', _⟩ | ⟨v, hv, hi⟩)
    · simp at h'
    · obtain ⟨e, he, hf, hv'⟩ := (mem_setsOf _ _ _).mp hv
      exact ⟨e, he, hf, by rw [hv']; exact hi⟩
  · rintro ⟨e, he, hf, hi⟩
    exact Or.inr ⟨e.2, (mem_setsOf _ _ _).mpr ⟨e, he, hf, rfl⟩, hi⟩

/-! ### independence of the row order -/

theorem colourEntries_perm (W : Nat) (a a' : Arr) (hk : a'.k = a.k)
    (hp : (a'.kmers.zip a'.variants).Perm (a.kmers.zip a.variants)) :
    (colourEntries W a').Perm (colourEntries W a) := by
  unfold colourEntries
  rw [hk]
  exact List.Perm.flatMap_right _ hp

theorem buildGraphU_lookup_perm (W : Nat) (a a' : Arr) (hk : a'.k = a.k)
    (hp : (a'.kmers.zip a'.variants).Perm (a.kmers.zip a.variants)) (f : Nat) :
    Assoc.lookup (buildGraphU W a').2 f = Assoc.lookup (buildGraphU W a).2 f := by
  have hm : ∀ e, e ∈ colourEntries W a' ↔ e ∈ colourEntries W a :=
    fun e => (colourEntries_perm W a a' hk hp).mem_iff
  cases h : Assoc.lookup (buildGraphU W a).2 f with
  | none =>
    rw [buildGraphU_lookup_none] at h ⊢
    exact fun e he => h e ((hm e).mp he)
  | some S =>
    cases h' : Assoc.lookup (buildGraphU W a').2 f with
    | none =>
      rw [buildGraphU_lookup_none] at h'
      have : Assoc.lookup (buildGraphU W a).2 f = none :=
        (buildGraphU_lookup_none W a f).mpr (fun e he => h' e ((hm e).mpr he))
      rw [this] at h
      exact absurd h (by simp)
    | some S' =>
      obtain ⟨s1, m1⟩ := buildGraphU_lookup_some W a f S h
      obtain ⟨s2, m2⟩ := buildGraphU_lookup_some W a' f S' h'
      congr 1
      apply sinc_ext _ _ s2 s1
      intro i
      rw [m1, m2]
      constructor
      · rintro ⟨e, he, h⟩; exact ⟨e, (hm e).mp he, h⟩
      · rintro ⟨e, he, h⟩; exact ⟨e, (hm e).mpr he, h⟩

end SkaModel.LOU
