/-
Arithmetic of `Spec.packL` (base-4 packing, most significant first) and its
bit-level view.
-/
import SkaModel.Impl.Bits
import SkaModel.Spec.Windows
import SkaModel.Lemmas.Bits

namespace SkaModel

open SkaModel.Spec

/-- all elements are 2-bit codes -/
def Codes (cs : List Nat) : Prop := ∀ c ∈ cs, c < 4

theorem Codes.nil : Codes [] := by intro c h; cases h

theorem Codes.cons {c : Nat} {cs : List Nat} (hc : c < 4) (h : Codes cs) : Codes (c :: cs) := by
  intro x hx
  rcases List.mem_cons.mp hx with rfl | hx
  · exact hc
  · exact h x hx

theorem Codes.head {c : Nat} {cs : List Nat} (h : Codes (c :: cs)) : c < 4 :=
  h c (List.mem_cons_self)

theorem Codes.tail {c : Nat} {cs : List Nat} (h : Codes (c :: cs)) : Codes cs :=
  fun x hx => h x (List.mem_cons_of_mem _ hx)

theorem Codes.append {a b : List Nat} (ha : Codes a) (hb : Codes b) : Codes (a ++ b) := by
  intro x hx
  rcases List.mem_append.mp hx with h | h
  · exact ha x h
  · exact hb x h

theorem Codes.left {a b : List Nat} (h : Codes (a ++ b)) : Codes a :=
  fun x hx => h x (List.mem_append_left _ hx)

theorem Codes.right {a b : List Nat} (h : Codes (a ++ b)) : Codes b :=
  fun x hx => h x (List.mem_append_right _ hx)

theorem Codes.take {cs : List Nat} (h : Codes cs) (n : Nat) : Codes (cs.take n) :=
  fun x hx => h x (List.mem_of_mem_take hx)

theorem Codes.drop {cs : List Nat} (h : Codes cs) (n : Nat) : Codes (cs.drop n) :=
  fun x hx => h x (List.mem_of_mem_drop hx)

theorem Codes.reverse {cs : List Nat} (h : Codes cs) : Codes cs.reverse :=
  fun x hx => h x (List.mem_reverse.mp hx)

theorem Codes.replicate (n : Nat) {c : Nat} (hc : c < 4) : Codes (List.replicate n c) := by
  intro x hx
  rw [(List.mem_replicate.mp hx).2]; exact hc

theorem Codes.map_of {α : Type} (l : List α) (f : α → Nat) (hf : ∀ a, f a < 4) : Codes (l.map f) := by
  intro x hx
  obtain ⟨a, _, rfl⟩ := List.mem_map.mp hx
  exact hf a

/-! ### `code` -/

theorem code_lt (b : UInt8) : code b < 4 := by
  unfold code encodeBase
  have h : (b >>> 1 &&& 3).toNat = (b >>> 1).toNat &&& 3 := UInt8.toNat_and _ _
  rw [h]
  have : (b >>> 1).toNat &&& 3 ≤ 3 := Nat.and_le_right
  omega

theorem xor2_lt {c : Nat} (h : c < 4) : c ^^^ 2 < 4 :=
  Nat.xor_lt_two_pow (n := 2) h (by decide)

theorem xor2_xor2 (c : Nat) : (c ^^^ 2) ^^^ 2 = c := by
  rw [Nat.xor_assoc, Nat.xor_self, Nat.xor_zero]

/-! ### `packL` arithmetic -/

theorem packL_nil : packL [] = 0 := rfl

theorem foldl_pack (cs : List Nat) (a : Nat) :
    cs.foldl (fun a c => 4 * a + c) a = a * 4 ^ cs.length + packL cs := by
  induction cs generalizing a with
  | nil => simp [packL]
  | cons c cs ih =>
    unfold packL
    simp only [List.foldl_cons, List.length_cons]
    rw [ih (4 * a + c), ih (4 * 0 + c), Nat.pow_succ]
    simp only [Nat.mul_zero, Nat.zero_add, Nat.add_mul, Nat.add_assoc]
    congr 1
    rw [Nat.mul_comm 4 a, Nat.mul_assoc, Nat.mul_comm 4]

theorem packL_cons (c : Nat) (cs : List Nat) :
    packL (c :: cs) = c * 4 ^ cs.length + packL cs := by
  have := foldl_pack cs (4 * 0 + c)
  simp only [Nat.mul_zero, Nat.zero_add] at this
  show List.foldl (fun a c => 4 * a + c) (4 * 0 + c) cs = _
  simpa using this

theorem packL_append (a b : List Nat) :
    packL (a ++ b) = packL a * 4 ^ b.length + packL b := by
  unfold packL
  rw [List.foldl_append, foldl_pack]
  rfl

theorem packL_snoc (a : List Nat) (c : Nat) : packL (a ++ [c]) = 4 * packL a + c := by
  unfold packL
  rw [List.foldl_append]
  rfl

theorem packL_singleton (c : Nat) : packL [c] = c := by
  simp [packL]

theorem packL_lt {cs : List Nat} (h : Codes cs) : packL cs < 4 ^ cs.length := by
  induction cs with
  | nil => simp [packL]
  | cons c cs ih =>
    rw [packL_cons, List.length_cons, Nat.pow_succ]
    have := ih h.tail
    have hc := h.head
    have h1 : c * 4 ^ cs.length ≤ 3 * 4 ^ cs.length := Nat.mul_le_mul_right _ (by omega)
    omega

theorem packL_replicate_zero (n : Nat) : packL (List.replicate n 0) = 0 := by
  induction n with
  | zero => rfl
  | succ n ih => rw [List.replicate_succ, packL_cons, ih]; simp

theorem packL_append_zeros (a : List Nat) (n : Nat) :
    packL (a ++ List.replicate n 0) = packL a * 4 ^ n := by
  rw [packL_append, packL_replicate_zero, List.length_replicate, Nat.add_zero]

theorem packL_zeros_append (a : List Nat) (n : Nat) :
    packL (List.replicate n 0 ++ a) = packL a := by
  rw [packL_append, packL_replicate_zero, Nat.zero_mul, Nat.zero_add]

theorem packL_append_div {a b : List Nat} (hb : Codes b) :
    packL (a ++ b) / 4 ^ b.length = packL a := by
  rw [packL_append, Nat.mul_comm, Nat.mul_add_div (Nat.pow_pos (by omega)),
    Nat.div_eq_of_lt (packL_lt hb), Nat.add_zero]

theorem packL_append_mod {a b : List Nat} (hb : Codes b) :
    packL (a ++ b) % 4 ^ b.length = packL b := by
  rw [packL_append, Nat.mul_comm, Nat.mul_add_mod, Nat.mod_eq_of_lt (packL_lt hb)]

theorem four_pow (n : Nat) : 4 ^ n = 2 ^ (2 * n) := by
  rw [Nat.pow_mul]

theorem four_pow_le_of {n W : Nat} (h : 2 * n ≤ W) : 4 ^ n ≤ 2 ^ W := by
  rw [four_pow]; exact Nat.pow_le_pow_right (by omega) h

theorem packL_lt_two_pow {cs : List Nat} (h : Codes cs) {W : Nat} (hW : 2 * cs.length ≤ W) :
    packL cs < 2 ^ W :=
  Nat.lt_of_lt_of_le (packL_lt h) (four_pow_le_of hW)

/-! ### `rcCodes` -/

theorem rcCodes_length (cs : List Nat) : (rcCodes cs).length = cs.length := by
  simp [rcCodes]

theorem rcCodes_codes {cs : List Nat} (h : Codes cs) : Codes (rcCodes cs) := by
  intro x hx
  unfold rcCodes at hx
  obtain ⟨a, ha, rfl⟩ := List.mem_map.mp hx
  exact xor2_lt (h a (List.mem_reverse.mp ha))

theorem rcCodes_rcCodes (cs : List Nat) : rcCodes (rcCodes cs) = cs := by
  unfold rcCodes
  rw [← List.map_reverse, List.reverse_reverse, List.map_map]
  have : ((fun x => x ^^^ 2) ∘ fun x => x ^^^ 2) = id := by
    funext c; exact xor2_xor2 c
  rw [this, List.map_id]

theorem rcCodes_append (a b : List Nat) : rcCodes (a ++ b) = rcCodes b ++ rcCodes a := by
  simp [rcCodes]

theorem rcCodes_cons (c : Nat) (a : List Nat) : rcCodes (c :: a) = rcCodes a ++ [c ^^^ 2] := by
  simp [rcCodes]

theorem rcCodes_snoc (c : Nat) (a : List Nat) : rcCodes (a ++ [c]) = (c ^^^ 2) :: rcCodes a := by
  simp [rcCodes]

theorem rcCodes_replicate_zero (n : Nat) : rcCodes (List.replicate n 0) = List.replicate n 2 := by
  simp [rcCodes]

/-! ### bit-level view of `packL` -/

theorem testBit_four_mul_add (a c i : Nat) (hc : c < 4) :
    (4 * a + c).testBit i = if i < 2 then c.testBit i else a.testBit (i - 2) := by
  have h : 4 * a + c = a <<< 2 ||| c := by
    rw [← Nat.shiftLeft_add_eq_or_of_lt (i := 2) (by omega), Nat.shiftLeft_eq]; omega
  rw [h, Nat.testBit_or, Nat.testBit_shiftLeft]
  by_cases hi : i < 2
  · simp [hi, show ¬ i ≥ 2 by omega]
  · have : c.testBit i = false :=
      Nat.testBit_lt_two_pow (Nat.lt_of_lt_of_le hc (by
        calc 4 = 2 ^ 2 := rfl
          _ ≤ 2 ^ i := Nat.pow_le_pow_right (by omega) (by omega)))
    simp [hi, show i ≥ 2 by omega, this]

/-- bit `i` of a packed word is bit `i % 2` of the `i / 2`-th code from the end -/
theorem packL_reverse_testBit (r : List Nat) (h : Codes r) (i : Nat) :
    (packL r.reverse).testBit i = (r.getD (i / 2) 0).testBit (i % 2) := by
  induction r generalizing i with
  | nil => simp [packL]
  | cons c r ih =>
    rw [List.reverse_cons, packL_snoc, testBit_four_mul_add _ _ _ h.head]
    by_cases hi : i < 2
    · have h0 : i / 2 = 0 := by omega
      have h1 : i % 2 = i := by omega
      simp [hi, h0, h1]
    · rw [if_neg hi, ih h.tail]
      have h0 : i / 2 = (i - 2) / 2 + 1 := by omega
      have h1 : (i - 2) % 2 = i % 2 := by omega
      rw [h0, h1, List.getD_cons_succ]

theorem packL_testBit (cs : List Nat) (h : Codes cs) (i : Nat) :
    (packL cs).testBit i = (cs.reverse.getD (i / 2) 0).testBit (i % 2) := by
  have := packL_reverse_testBit cs.reverse h.reverse i
  rwa [List.reverse_reverse] at this

end SkaModel
